package main

import (
	"bufio"
	"encoding/json"
	"fmt"
	"io"
	"os"
	"os/exec"
	"sort"
	"strings"
	"time"
)

// ---------- PRNG: one splitmix64 state, every random choice is drawn from it ----------

type rng struct{ s uint64 }

func newRng(seed uint64, stream string) *rng {
	r := &rng{s: seed*0x9e3779b97f4a7c15 + 0x1234567}
	for _, c := range []byte(stream) {
		r.s = r.s*1099511628211 + uint64(c)
	}
	r.next()
	return r
}
func (r *rng) next() uint64 {
	r.s += 0x9e3779b97f4a7c15
	z := r.s
	z = (z ^ (z >> 30)) * 0xbf58476d1ce4e5b9
	z = (z ^ (z >> 27)) * 0x94d049bb133111eb
	return z ^ (z >> 31)
}
func (r *rng) n(k int) int {
	if k <= 0 {
		return 0
	}
	return int(r.next() % uint64(k))
}
func (r *rng) pick(xs []string) string { return xs[r.n(len(xs))] }
func (r *rng) p(pct int) bool          { return r.n(100) < pct }
func (r *rng) shuffle(xs []string) {
	for i := len(xs) - 1; i > 0; i-- {
		j := r.n(i + 1)
		xs[i], xs[j] = xs[j], xs[i]
	}
}

// ---------- Lean driver client (JSON lines, lock-step) ----------

type driver struct {
	cmd  *exec.Cmd
	in   io.WriteCloser
	out  *bufio.Reader
	path    string
	n       int
	retried bool
}

func startDriver(path string) (*driver, error) {
	cmd := exec.Command(path)
	in, err := cmd.StdinPipe()
	if err != nil {
		return nil, err
	}
	outp, err := cmd.StdoutPipe()
	if err != nil {
		return nil, err
	}
	cmd.Stderr = os.Stderr
	if err := cmd.Start(); err != nil {
		return nil, err
	}
	return &driver{cmd: cmd, in: in, out: bufio.NewReaderSize(outp, 1<<20), path: path}, nil
}

type J = map[string]any

// ask sends one request and reads one response; a crash or a timeout is an error (never a pass).
func (d *driver) ask(req J) (J, error) {
	bs, err := json.Marshal(req)
	if err != nil {
		return nil, err
	}
	d.n++
	type res struct {
		line string
		err  error
	}
	ch := make(chan res, 1)
	go func() {
		if _, err := d.in.Write(append(bs, '\n')); err != nil {
			ch <- res{"", err}
			return
		}
		line, err := d.out.ReadString('\n')
		ch <- res{line, err}
	}()
	select {
	case r := <-ch:
		if r.err != nil {
			return nil, fmt.Errorf("driver died on request %s: %v", string(bs), r.err)
		}
		var out J
		dec := json.NewDecoder(strings.NewReader(r.line))
		dec.UseNumber()
		if err := dec.Decode(&out); err != nil {
			return nil, fmt.Errorf("driver answered garbage %q: %v", r.line, err)
		}
		if b, ok := out["bad"]; ok {
			return nil, fmt.Errorf("driver rejected request %s: %v", string(bs), b)
		}
		return out, nil
	case <-time.After(60 * time.Second):
		d.cmd.Process.Kill()
		if !d.retried {
			// a loaded machine can stall a request: restart the driver once and ask again before giving up
			nd, err := startDriver(d.path)
			if err == nil {
				nd.retried = true
				*d = *nd
				return d.ask(req)
			}
		}
		return nil, fmt.Errorf("driver timeout on request %s", string(bs))
	}
}

func (d *driver) close() {
	d.in.Close()
	d.cmd.Wait()
}

// ---------- result accounting ----------

type disagreement struct {
	Case  any    `json:"case"`
	Impl  any    `json:"impl"`
	Model any    `json:"model"`
	Note  string `json:"note,omitempty"`
}

type violation struct {
	Case     any    `json:"case"`
	Expected any    `json:"expected"`
	Actual   any    `json:"actual"`
	What     string `json:"what"`
	Finding  string `json:"finding,omitempty"` // id of the known finding this case is attributed to
}

type result struct {
	Property      string         `json:"property"`
	Tier          string         `json:"tier"`
	Seed          uint64         `json:"seed"`
	Evaluations   int            `json:"evaluations"`
	Distinct      int            `json:"distinct_nontrivial"`
	Rule          string         `json:"rule"`
	Samples       []any          `json:"samples"`
	Distribution  map[string]int `json:"distribution"`
	S2Compared    int            `json:"s2_compared"`
	S2Unsupported int            `json:"s2_unsupported"`
	S2            []disagreement `json:"s2_disagreements"`
	S3Checked     int            `json:"s3_checked"`
	S3            []violation    `json:"s3_violations"`
	Known         map[string]int `json:"known_findings_seen"`
	Exhaustive    bool           `json:"exhaustive"`
	CorpusCases   int            `json:"corpus_cases"`
	Notes         []string       `json:"notes"`
	SelfTest      []string       `json:"selftest_failures"`
	seen          map[string]bool
}

func newResult(prop, tier string, seed uint64) *result {
	return &result{Property: prop, Tier: tier, Seed: seed, Distribution: map[string]int{}, Known: map[string]int{},
		seen: map[string]bool{}, S2: []disagreement{}, S3: []violation{}, Samples: []any{}, Notes: []string{}, SelfTest: []string{}}
}

func (r *result) count(key string) { r.Distribution[key]++ }

// eval records one explored case; key identifies it for the distinct count, nontrivial says whether it counts.
func (r *result) eval(key string, nontrivial bool, sample any) {
	r.Evaluations++
	if nontrivial && !r.seen[key] {
		r.seen[key] = true
		r.Distinct++
		if len(r.Samples) < 6 || (r.Distinct%997 == 0 && len(r.Samples) < 12) {
			r.Samples = append(r.Samples, sample)
		}
	}
}

func (r *result) disagree(c, impl, model any, note string) {
	if len(r.S2) < 25 {
		r.S2 = append(r.S2, disagreement{c, impl, model, note})
	} else {
		r.count("s2_disagreements_not_listed")
	}
}

func (r *result) violate(c, expected, actual any, what string) {
	v := violation{Case: c, Expected: expected, Actual: actual, What: what}
	if id := matchKnownFinding(r.Property, c, what); id != "" {
		v.Finding = id
		r.Known[id]++
		if r.Known[id] > 3 {
			return
		}
	}
	if len(r.S3) < 40 {
		r.S3 = append(r.S3, v)
	} else {
		r.count("s3_violations_not_listed")
	}
}

func (r *result) write(path string) error {
	bs, err := json.MarshalIndent(r, "", " ")
	if err != nil {
		return err
	}
	return os.WriteFile(path, bs, 0o644)
}

func sortedKeys[V any](m map[string]V) []string {
	ks := make([]string, 0, len(m))
	for k := range m {
		ks = append(ks, k)
	}
	sort.Strings(ks)
	return ks
}

func jstr(v any) string {
	bs, _ := json.Marshal(v)
	return string(bs)
}

func jsonRoundTrip(v any, out *any) {
	bs, _ := json.Marshal(v)
	json.Unmarshal(bs, out)
}
