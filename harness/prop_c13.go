package main

import (
	"errors"
	"fmt"
	"strconv"
	"strings"
)

func init() { props["C13"] = propC13 }

var errWalk = errors.New("invalid access")

type boundMethod struct {
	recv any
	name string
}

// nativeField: what Go's selector / map index gives on the harness type family (typed code, no reflection).
func nativeField(v any, name string) (any, error) {
	switch x := v.(type) {
	case S:
		switch name {
		case "A":
			return x.A, nil
		case "B":
			return x.B, nil
		case "P":
			return x.P, nil
		case "L":
			return x.L, nil
		case "M":
			return x.M, nil
		case "In":
			return x.In, nil
		case "Z":
			return x.In.Z, nil
		case "Get", "Fail", "Ok":
			return boundMethod{x, name}, nil
		}
		return nil, errWalk // unexported c, pointer method Ptr on a value, unknown names
	case *S:
		if x == nil {
			switch name {
			case "Get", "Fail", "Ok", "Ptr":
				return boundMethod{x, name}, nil // a method value can be taken; calling it fails
			}
			return nil, errWalk
		}
		if name == "Ptr" {
			return boundMethod{x, name}, nil
		}
		return nativeField(*x, name)
	case In:
		if name == "Z" {
			return x.Z, nil
		}
		if name == "Get" {
			return x.Get, nil // an ordinary field here; on the outer S the METHOD of that name shadows it
		}
		return nil, errWalk
	case map[string]any:
		if e, ok := x[name]; ok {
			return e, nil
		}
		return nil, errWalk
	}
	return nil, errWalk
}

func nativeIndex(v any, i int64) (any, error) {
	at := func(n int, get func(int) any) (any, error) {
		if i < 0 {
			i += int64(n)
		}
		if i < 0 || i >= int64(n) {
			return nil, errWalk
		}
		return get(int(i)), nil
	}
	switch x := v.(type) {
	case []int:
		return at(len(x), func(k int) any { return x[k] })
	case []any:
		return at(len(x), func(k int) any { return x[k] })
	case []string:
		return at(len(x), func(k int) any { return x[k] })
	case [3]int:
		return at(3, func(k int) any { return x[k] })
	case [2]string:
		return at(2, func(k int) any { return x[k] })
	case map[string]any:
		if e, ok := x[strconv.FormatInt(i, 10)]; ok {
			return e, nil
		}
		return nil, errWalk
	}
	return nil, errWalk
}

func nativeSlice(v any, lo, hi, cp *int64) (res any, err error) {
	defer func() {
		if recover() != nil {
			res, err = nil, errWalk
		}
	}()
	b := func(p *int64, d int) int {
		if p == nil {
			return d
		}
		return int(*p)
	}
	switch x := v.(type) {
	case []int:
		if cp != nil {
			return x[b(lo, 0):b(hi, len(x)):b(cp, cap(x))], nil
		}
		return x[b(lo, 0):b(hi, len(x))], nil
	case []any:
		if cp != nil {
			return x[b(lo, 0):b(hi, len(x)):b(cp, cap(x))], nil
		}
		return x[b(lo, 0):b(hi, len(x))], nil
	case []string:
		if cp != nil {
			return x[b(lo, 0):b(hi, len(x)):b(cp, cap(x))], nil
		}
		return x[b(lo, 0):b(hi, len(x))], nil
	case [3]int:
		if cp != nil {
			return x[b(lo, 0):b(hi, 3):b(cp, 3)], nil
		}
		return x[b(lo, 0):b(hi, 3)], nil
	case [2]string:
		if cp != nil {
			return x[b(lo, 0):b(hi, 2):b(cp, 2)], nil
		}
		return x[b(lo, 0):b(hi, 2)], nil
	}
	return nil, errWalk
}

func nativeCall(v any) (res any, err error) {
	defer func() {
		if recover() != nil {
			res, err = nil, errWalk
		}
	}()
	m, ok := v.(boundMethod)
	if !ok {
		return nil, errWalk
	}
	switch r := m.recv.(type) {
	case S:
		switch m.name {
		case "Get":
			return r.Get(), nil
		case "Ok":
			x, e := r.Ok()
			return x, e
		case "Fail":
			_, e := r.Fail()
			return nil, e
		}
	case *S:
		switch m.name {
		case "Get":
			return r.Get(), nil
		case "Ptr":
			return r.Ptr(), nil
		case "Ok":
			x, e := r.Ok()
			return x, e
		case "Fail":
			_, e := r.Fail()
			return nil, e
		}
	}
	return nil, errWalk
}

// C13: member, index and slice access agree with the Go value.
func propC13(c *ctx) error {
	res := c.res
	res.Rule = "access paths of length 1..4 (.name, [\"name\"], ['name'], [i] with literal or variable index of any integer kind incl. negative, [i:j], [i:j:k], method calls) valid and invalid, over a data graph of maps, structs by value and pointer (embedded and unexported fields, value and pointer receiver methods, nil pointers), slices and arrays; native typed walker as oracle; distinct = distinct path; non-trivial = all"
	r := newRng(c.seed, "C13")
	mkData := func() (val, map[string]any) {
		inner := vPtrS(vS(3, "deep", nil))
		ps := vPtrS(vS(2, "two", &inner))
		st := vS(1, "b", nil)
		m := vMap(kv{"k", vInt(1)}, kv{"nil", vNil()}, kv{"s", vStr("v")}, kv{"xs", vIntSlice(1)}, kv{"0", vStr("zero")}, kv{"st", vS(5, "five", nil)})
		roots := []kv{{"st", st}, {"ps", ps}, {"np", vNilPtrS()}, {"xs", vIntSlice(10, 20, 30)}, {"ys", vAnySlice(vInt(1), vStr("a"), vNil(), st)},
			{"arr", vIntArray3(7, 8, 9)}, {"sa", vStrArray2("p", "q")}, {"m", m}, {"strs", vStrSlice("x", "y")},
			{"i", vInt(1)}, {"i8", vKind("int8", -1)}, {"u8", vKind("uint8", 2)}, {"i64", vI64(0)}, {"u", vKind("uint", 1)}, {"n", vNil()}, {"s", vStr("str")}}
		native := map[string]any{}
		for _, e := range roots {
			native[e.k] = e.v.g
		}
		return vMap(roots...), native
	}
	idxVars := map[string]int64{"i": 1, "i8": -1, "u8": 2, "i64": 0, "u": 1}
	fieldNames := []string{"A", "B", "c", "P", "L", "M", "In", "Z", "k", "x", "s", "nil", "xs", "st", "nope", "Get", "Ptr", "Fail", "Ok", "0"}
	n := c.n(3000, 150000)
	for i := 0; i < n; i++ {
		data, native := mkData()
		rootName := r.pick([]string{"st", "ps", "np", "xs", "ys", "arr", "sa", "m", "strs", "st", "ps", "m", "n", "s"})
		cur, cerr := native[rootName], error(nil)
		var sb strings.Builder
		sb.WriteString(rootName)
		steps := 1 + r.n(4)
		kinds := ""
		for k := 0; k < steps; k++ {
			switch r.n(10) {
			case 0, 1, 2:
				f := r.pick(fieldNames)
				if f == "0" || f == "nil" {
					continue
				}
				sb.WriteString("." + f)
				kinds += "f"
				if cerr == nil {
					cur, cerr = nativeField(cur, f)
				}
			case 3:
				f := r.pick(fieldNames)
				q := r.pick([]string{"\"", "'"})
				sb.WriteString("[" + q + f + q + "]")
				kinds += "k"
				if cerr == nil {
					if _, err := strconv.ParseInt(f, 10, 64); err == nil {
						switch cur.(type) {
						case []int, []any, []string, [3]int, [2]string:
							cerr = errUnspecified // a numeric string as slice index: not a Go operation
						}
					}
					if cerr == nil {
						cur, cerr = nativeField(cur, f)
					}
				}
			case 4, 5:
				var iv int64
				if r.p(50) {
					iv = int64(r.n(8)) - 4
					if iv < 0 {
						sb.WriteString(fmt.Sprintf("[-%d]", -iv))
					} else {
						sb.WriteString(fmt.Sprintf("[%d]", iv))
					}
				} else {
					name := r.pick([]string{"i", "i8", "u8", "i64", "u"})
					iv = idxVars[name]
					sb.WriteString("[" + name + "]")
				}
				kinds += "i"
				if cerr == nil {
					cur, cerr = nativeIndex(cur, iv)
				}
			case 6, 7:
				pick := func() (*int64, string) {
					if r.p(30) {
						return nil, ""
					}
					if r.p(25) {
						name := r.pick([]string{"i", "u8", "i64", "i8"})
						v := idxVars[name]
						return &v, name
					}
					v := int64(r.n(5)) - 1
					if v < 0 {
						return &v, "-1"
					}
					return &v, fmt.Sprint(v)
				}
				lo, ls := pick()
				hi, hs := pick()
				if r.p(20) {
					if hi == nil {
						z := int64(2)
						hi, hs = &z, "2"
					}
					cp, cs := pick()
					if cp == nil {
						z := int64(3)
						cp, cs = &z, "3"
					}
					sb.WriteString("[" + ls + ":" + hs + ":" + cs + "]")
					if cerr == nil {
						cur, cerr = nativeSlice(cur, lo, hi, cp)
					}
				} else {
					sb.WriteString("[" + ls + ":" + hs + "]")
					if cerr == nil {
						cur, cerr = nativeSlice(cur, lo, hi, nil)
					}
				}
				kinds += "s"
			default:
				m := r.pick([]string{"Get", "Ptr", "Fail", "Ok"})
				sb.WriteString("." + m + "()")
				kinds += "m"
				if cerr == nil {
					cur, cerr = nativeField(cur, m)
					if cerr == nil {
						cur, cerr = nativeCall(cur)
					}
				}
			}
		}
		if _, isM := cur.(boundMethod); isM && cerr == nil {
			cur = func() {} // an unapplied method value: a function
		}
		src := sb.String()
		out := implEvalStable(src, []any{data.g})
		res.eval(src, true, J{"src": src})
		res.count("path_" + kinds)
		want := "error"
		if cerr == nil {
			want = canonGo(cur)
			res.count("expect_value")
		} else if errors.Is(cerr, errUnspecified) {
			want = "unspecified"
		} else {
			res.count("expect_error")
		}
		got := "error"
		if out.R == "ok" {
			got = out.V
		} else if out.R == "reject" || out.R == "escaped-panic" {
			got = out.R
		}
		if want != "unspecified" {
			res.S3Checked++
			if got != want {
				res.violate(J{"src": src, "data": "harness type family (values.go), fixed graph"}, want, got+" "+trunc(out.Err, 120), "access path does not agree with the Go value")
			}
		}
		if c.d != nil {
			m, err := c.d.ask(J{"op": "eval", "src": src, "data": data.j})
			if err != nil {
				return err
			}
			if sget(m, "r") == "unsupported" {
				res.S2Unsupported++
				continue
			}
			res.S2Compared++
			ms, _ := m["sentinel"].(bool)
			if sget(m, "r") != out.R || (out.R == "ok" && sget(m, "v") != out.V) || (out.R == "err" && ms != out.Sentinel) {
				res.disagree(J{"src": src}, J{"r": out.R, "v": out.V, "sentinel": out.Sentinel, "err": trunc(out.Err, 140)}, m, "eval")
			}
		}
	}
	// ---- data of Go types outside the model's universe (native oracle only): UNNAMED struct types that embed a type with
	// methods (the methods are promoted although the type has no name), a named map type with methods, a pointer to
	// a pointer, interface-typed fields
	{
		sv := S{A: 5, B: "bee", c: 2, L: []int{1, 2}, M: map[string]any{"x": 1}, In: In{9, 77}}
		anon := struct {
			S
			Extra string
		}{sv, "x"}
		anonP := struct {
			*S
			N int
		}{&sv, 3}
		pp := &sv
		// exported fields and methods whose names begin with an upper-case letter outside ASCII (2-, 3- and 4-byte UTF-8)
		uni := uniNames{Émail: "e", Имя: "i", Ảnh: "a", Ὄνομα: "o", Ｘ: 7, 𐐀bc: "d", Ωmega: 8, ảnh: "hidden"}
		data := map[string]any{"vm": anon, "vp": anonP, "pvm": &anon, "nm": namedMap{"k": 1, "Len": 2}, "pp": &pp,
			"box": struct{ V any }{V: sv}, "boxp": struct{ V fmt.Stringer }{V: stringerT("st")}, "u": uni, "up": &uni, "nilm": map[string]any{"k": nil, "z": 0, "e": ""}, "nilms": map[string]*S{"p": nil},
			// maps whose key TYPE is an interface, holding string keys (what a YAML / generic decoder produces)
			"am": map[any]any{"name": "tpl", "n": 3, 1: "one", true: "yes"}, "ams": map[any]string{"k": "v"}, "amn": map[any]any{"inner": map[any]any{"deep": "d"}}}
		cases := []struct{ src, want string }{
			{"vm.Get()", "int:5"}, {"vm['Get']()", "int:5"}, {"vm.A", "int:5"}, {"vm.Extra", "string:" + hexOf("x")}, {"vm.Ok()", "int:5"},
			{"vm.Z", "int:9"}, {"vm.S.B", "string:" + hexOf("bee")}, {"pvm.Get()", "int:5"}, {"pvm.Extra", "string:" + hexOf("x")},
			{"vp.Get()", "int:5"}, {"vp.Ptr()", "int:6"}, {"vp.N", "int:3"}, {"vp.A", "int:5"},
			{"nm.Size()", "int:2"}, {"nm.k", "int:1"}, {"nm['Len']", "int:2"},
			{"box.V.A", "int:5"}, {"box.V.Get()", "int:5"}, {"boxp.V.String()", "string:" + hexOf("st")},
			{"vm.Nope", "error"}, {"vm.c", "error"}, {"nm.absent", "error"},
			{"u.Émail", "string:" + hexOf("e")}, {"u.Имя", "string:" + hexOf("i")}, {"u.Ảnh", "string:" + hexOf("a")}, {"u.Ὄνομα", "string:" + hexOf("o")},
			{"u.Ｘ", "int:7"}, {"u.𐐀bc", "string:" + hexOf("d")}, {"u.Ωmega", "int:8"}, {"up.Ảnh", "string:" + hexOf("a")}, {"up.Ｘ", "int:7"},
			{"u['Ảnh']", "string:" + hexOf("a")}, {"u['𐐀bc']", "string:" + hexOf("d")}, {"u.Ḿethod()", "string:" + hexOf("m")}, {"up.Ḿethod()", "string:" + hexOf("m")},
			{"u.ảnh", "error"}, {"u.Ảnx", "error"},
			// a key that is PRESENT with a nil / zero value is found (its value is nil / zero); only an absent key is an error
			{"nilm.k == nil", "bool:true"}, {"nilm['k'] == nil", "bool:true"}, {"nilm.k != nil", "bool:false"}, {"nilm.z", "int:0"}, {"nilm.e", "string:"}, {"nilm.absent", "error"},
			{"isNull(nilms.p)", "bool:true"}, {"nilms.q", "error"},
			{"am.name", "string:" + hexOf("tpl")}, {"am['name']", "string:" + hexOf("tpl")}, {"am.n", "int:3"}, {"ams.k", "string:" + hexOf("v")}, {"ams['k']", "string:" + hexOf("v")},
			{"amn.inner.deep", "string:" + hexOf("d")}, {"amn['inner']['deep']", "string:" + hexOf("d")}, {"am.absent", "error"}, {"len(am)", "int:4"},
		}
		for _, cs := range cases {
			out := implEvalStable(cs.src, []any{data})
			got := "error"
			if out.R == "ok" {
				got = out.V
			}
			res.eval("native|"+cs.src, true, J{"src": cs.src})
			res.S3Checked++
			res.count("native_type_paths")
			if got != cs.want {
				res.violate(J{"src": cs.src, "data": "anonymous struct embedding S / *S, named map with a method, boxed values (prop_c13.go)"}, cs.want, got+" "+trunc(out.Err, 140),
					"access path on a Go type with promoted / named-type methods does not agree with the Go value")
			}
		}
	}
	return nil
}

var errUnspecified = errors.New("unspecified")

type uniNames struct {
	Émail, Имя, Ảnh, Ὄνομα string
	Ｘ                     int
	𐐀bc                   string
	Ωmega                 int
	ảnh                   string
}

func (uniNames) Ḿethod() string { return "m" }

type namedMap map[string]int

func (m namedMap) Size() int { return len(m) }

type stringerT string

func (s stringerT) String() string { return string(s) }
