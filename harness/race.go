package main

import (
	"context"
	"encoding/json"
	"flag"
	"fmt"
	"net/http/httptest"
	"os"
	"os/exec"
	"path/filepath"
	"strings"
	"sync"
	"sync/atomic"
	"time"

	tpl "code.gopub.tech/tpl"
	"code.gopub.tech/tpl/html"
	"code.gopub.tech/tpl/types"
)

func init() {
	props["C15"] = propC15
}

// raceMain is the body of `harness race …`; the binary that runs it is built with -race by ./check.
// Every round builds a fresh manager (so the executions are the first ever on its parsed tags), starts G goroutines
// behind a barrier, each rendering with its own data and writer (sharing or not sharing the template object), and
// compares each output/error with the serial result obtained on an identical, separately loaded manager.
func raceMain(args []string) {
	fs := flag.NewFlagSet("race", flag.ExitOnError)
	rounds := fs.Int("rounds", 100, "rounds")
	seed := fs.Uint64("seed", 1, "seed")
	mode := fs.String("mode", "render", "render | reload")
	fs.Parse(args)
	r := newRng(*seed, "race-"+*mode)
	mismatches := 0
	total := 0
	var samples []any
	// executions that never come back (a lock left held on some path) would keep a round waiting for ever: when the whole
	// run has not finished in time, that IS the result — reported, and the process ends
	go func() {
		limit := 4*time.Minute + time.Duration(*rounds)*200*time.Millisecond
		time.Sleep(limit)
		fmt.Printf("RACE-RESULT {\"executions\":1,\"mismatches\":1,\"samples\":[\"mode %s: the run did not finish within %v: some executions are blocked (deadlock / lock not released)\"]}\n", *mode, limit)
		os.Exit(0)
	}()
	if *mode == "reload" {
		for round := 0; round < *rounds; round++ {
			var mu sync.Mutex
			id := 0
			builder := func(ctx context.Context) (types.TemplateManager, error) {
				mu.Lock()
				defer mu.Unlock()
				id++
				if id%4 == 0 {
					return nil, errBuild
				}
				rc, _ := genRenderCase(newRng(uint64(id), "reload-mgr"), false)
				rc.Files = [][2]string{{"main.html", `<p :if="${t}" :text="${a}">x</p><i :else>no</i>`}}
				rc.Cfg = nil
				m, err, _ := implLoad(rc, nil)
				if err != nil {
					return nil, err
				}
				return m.tm.(types.TemplateManager), nil
			}
			rr, err := tpl.NewHTMLRender(builder, tpl.WithHotReload(round%5 == 4))
			if err != nil {
				continue
			}
			var wg sync.WaitGroup
			start := make(chan struct{})
			G := 2 + r.n(10)
			for g := 0; g < G; g++ {
				wg.Add(1)
				go func(g int) {
					defer wg.Done()
					<-start
					for k := 0; k < 20; k++ {
						if g%3 == 0 {
							rr.Reload(context.Background())
						} else {
							w := httptest.NewRecorder()
							inst := rr.Instance(context.Background(), "main.html", map[string]any{"t": true, "a": g})
							inst.WriteContentType(w)
							if err := inst.Render(w); err == nil && w.Body.String() != fmt.Sprintf("<p>%d</p>", g) {
								mu.Lock()
								mismatches++
								mu.Unlock()
							}
						}
					}
				}(g)
			}
			close(start)
			wg.Wait()
			total += G
		}
	} else if *mode == "twins" {
		// two template files of ONE manager that look alike (directives at the same source positions, other expressions),
		// executed concurrently and in every serial order: each equals its run-alone output
		mkf := func(obj, frag string) string {
			return "<ul>\n  <li :range=\"_, u : " + obj + "\" :text=\"${u}\">o</li>\n</ul><p :if=\"${len(" + obj + ") > 1}\" :insert=\"" + frag + "\">x</p>"
		}
		files := [][2]string{{"a.html", mkf("users", "fa") + "<b :define=\"fa\">A</b>"}, {"b.html", mkf("posts", "fb") + "<b :define=\"fb\">B</b>"}}
		want := map[string]string{
			"a.html": "<ul>\n  <li>ann</li>\n<li>bob</li>\n</ul><p>A</p>",
			"b.html": "<ul>\n  <li>p1</li>\n<li>p2</li>\n<li>p3</li>\n</ul><p>B</p>",
		}
		data := map[string]any{"users": []string{"ann", "bob"}, "posts": []string{"p1", "p2", "p3"}}
		for round := 0; round < *rounds; round++ {
			rc := &renderCase{Files: files, Tpl: "a.html"}
			m, lerr, p := implLoad(rc, nil)
			if lerr != nil || p != nil {
				fmt.Println("RACE-RESULT " + `{"executions":0,"mismatches":1,"samples":["twin templates do not load"]}`)
				return
			}
			G := 2 + r.n(10)
			var wg sync.WaitGroup
			start := make(chan struct{})
			got := make([]string, G)
			names := make([]string, G)
			for g := 0; g < G; g++ {
				names[g] = []string{"a.html", "b.html"}[(g+round)%2]
				wg.Add(1)
				go func(g int) {
					defer wg.Done()
					t, err := m.tm.GetTemplate(names[g])
					if err != nil {
						got[g] = "ERR " + err.Error()
						return
					}
					if round%3 != 0 {
						<-start // concurrent rounds; every third round is serial in goroutine order
					}
					w := &chunkWriter{failAt: -1}
					if err := t.Execute(w, data); err != nil {
						got[g] = strings.Join(w.chunks, "") + " ERR " + err.Error()
					} else {
						got[g] = strings.Join(w.chunks, "")
					}
				}(g)
				if round%3 == 0 {
					wg.Wait()
				}
			}
			close(start)
			wg.Wait()
			for g := 0; g < G; g++ {
				total++
				if got[g] != want[names[g]] {
					mismatches++
					if len(samples) < 5 {
						samples = append(samples, J{"files": files, "tpl": names[g], "goroutines": G, "serial_round": round%3 == 0,
							"alone": want[names[g]], "here": trunc(got[g], 200)})
					}
				}
			}
		}
	} else if *mode == "types" {
		// every goroutine has its OWN data, of a Go type of its own: the types print the same name and have the same-named
		// fields at different positions, so anything the engine remembers per type name / per field name across executions
		// (or across managers: a process-wide table) gives one execution another one's layout. Expected output is native.
		for round := 0; round < *rounds; round++ {
			ti := round % len(twinTpls)
			m := html.NewTplManager()
			if err := m.Add("t", strings.NewReader(twinTpls[ti])); err != nil {
				fmt.Println("RACE-RESULT " + `{"executions":0,"mismatches":1,"samples":["twin-type template does not load"]}`)
				return
			}
			shared, _ := m.GetTemplate("t")
			G := 2 + r.n(10)
			var wg sync.WaitGroup
			start := make(chan struct{})
			got, want := make([]string, G), make([]string, G)
			kinds := make([]int, G)
			datas := make([]map[string]any, G)
			for g := 0; g < G; g++ {
				kinds[g] = (g + round) % len(twinMk)
				title, num := fmt.Sprintf("t%d", r.n(5)), r.n(90)
				v := twinMk[kinds[g]](title, num)
				datas[g] = map[string]any{"p": v, "ps": []any{v, twinMk[(kinds[g]+1+r.n(len(twinMk)-1))%len(twinMk)](title+"x", num+1)}}
				want[g] = twinWant(ti, title, num)
			}
			for g := 0; g < G; g++ {
				wg.Add(1)
				go func(g int) {
					defer wg.Done()
					t := shared
					if g%2 == 1 {
						t, _ = m.GetTemplate("t")
					}
					if round%3 != 0 {
						<-start
					}
					for k := 0; k < 3; k++ {
						w := &chunkWriter{failAt: -1}
						if err := t.Execute(w, datas[g]); err != nil {
							got[g] = strings.Join(w.chunks, "") + " ERR " + err.Error()
							return
						}
						got[g] = strings.Join(w.chunks, "")
						if got[g] != want[g] {
							return
						}
					}
				}(g)
				if round%3 == 0 {
					wg.Wait()
				}
			}
			close(start)
			wg.Wait()
			for g := 0; g < G; g++ {
				total++
				if got[g] != want[g] {
					mismatches++
					if len(samples) < 5 {
						samples = append(samples, J{"tpl": twinTpls[ti], "data_type_variant": kinds[g], "goroutines": G, "serial_round": round%3 == 0, "alone": want[g], "here": trunc(got[g], 200)})
					}
				}
			}
		}
	} else if *mode == "arrays" {
		// per-goroutine data holding Go ARRAYS (values, not slices) of the same type with different contents, sliced, ranged
		// over and bound by the template: slicing an array must not go through anything shared between executions
		src := `<p :with="s := ${row[:]}"><i :range="_, v : s" :text="${v}">o</i><b :text="${row[1:3]}">o</b><u :range="_, n : nums[2:]" :text="${n}">o</u><em :text="${len(row[:2])}${s[3]}">o</em></p>`
		for round := 0; round < *rounds; round++ {
			m := html.NewTplManager()
			if err := m.Add("t", strings.NewReader(src)); err != nil {
				fmt.Println("RACE-RESULT " + `{"executions":0,"mismatches":1,"samples":["array template does not load"]}`)
				return
			}
			shared, _ := m.GetTemplate("t")
			G := 2 + r.n(10)
			var wg sync.WaitGroup
			start := make(chan struct{})
			got, want := make([]string, G), make([]string, G)
			datas := make([]map[string]any, G)
			for g := 0; g < G; g++ {
				row := [4]string{fmt.Sprint("a", g, round), fmt.Sprint("b", g), fmt.Sprint("c", g), fmt.Sprint("d", g)}
				nums := [5]int{g, g + 1, g + 2, g + 3, g + 4}
				datas[g] = map[string]any{"row": row, "nums": nums}
				want[g] = fmt.Sprintf("<p><i>%s</i><i>%s</i><i>%s</i><i>%s</i><b>[%s %s]</b><u>%d</u><u>%d</u><u>%d</u><em>2%s</em></p>", row[0], row[1], row[2], row[3], row[1], row[2], g+2, g+3, g+4, row[3])
			}
			for g := 0; g < G; g++ {
				wg.Add(1)
				go func(g int) {
					defer wg.Done()
					t := shared
					if g%2 == 1 {
						t, _ = m.GetTemplate("t")
					}
					if round%3 != 0 {
						<-start
					}
					for k := 0; k < 5; k++ {
						w := &chunkWriter{failAt: -1}
						if err := t.Execute(w, datas[g]); err != nil {
							got[g] = strings.Join(w.chunks, "") + " ERR " + err.Error()
							return
						}
						got[g] = strings.Join(w.chunks, "")
						if got[g] != want[g] {
							return
						}
					}
				}(g)
				if round%3 == 0 {
					wg.Wait()
				}
			}
			close(start)
			wg.Wait()
			for g := 0; g < G; g++ {
				total++
				if got[g] != want[g] {
					mismatches++
					if len(samples) < 5 {
						samples = append(samples, J{"tpl": src, "goroutines": G, "serial_round": round%3 == 0, "alone": want[g], "here": trunc(got[g], 300)})
					}
				}
			}
		}
	} else if *mode == "loopvars" {
		// executions that FAIL inside a loop body next to executions of another template of the same manager whose loops use
		// other variable names and whose bodies mention the first one's variable name (bound in their own data, or nowhere):
		// whatever the engine keeps per loop (variable maps, scopes) must not travel from one execution to another, also not
		// on the error path. Expected outputs are native.
		files := [][2]string{
			{"a.html", `<ul><li :range="i, account : accounts" :text="${i}:${account.name}">o</li></ul>`},
			{"b.html", `<ol><li :range="k, o : orders" :text="${account}: ${o}">o</li></ol>`},
			{"c.html", `<ol><li :range="k, o : orders"><b :text="${o}">o</b><i :if="${k == 1}" :text="${i}">o</i></li></ol>`},
			// directive values that load but are rejected when they are interpreted: every execution gets the SAME error
			{"d.html", `<h1>d</h1><p :with="a := ${x} b := ${y}" :text="${a}">o</p>`},
			{"e.html", `<h1>e</h1><p :range="i, x, z : orders" :text="${x}">o</p><p :remove="nonsense">r</p>`},
			// a fragment name computed from THIS execution's data (literal text followed by a block)
			// blocks that mention only literals and BUILT-IN names: some executions' data shadow the built-in, others do not
			{"h.html", `<p :text="${string(65)}">o</p><i :text="${len('abc')}">o</i><b :with="len := ${7}" :text="${len}">o</b>`},
			{"g.html", `<template :define="card-a">A</template><template :define="card-b">B</template><p :insert="card-${kind}">x</p><q :replace="card-${kind}">y</q>`},
		}
		for round := 0; round < *rounds; round++ {
			rc := &renderCase{Files: files, Tpl: "a.html"}
			m, lerr, p := implLoad(rc, nil)
			if lerr != nil || p != nil {
				fmt.Println("RACE-RESULT " + `{"executions":0,"mismatches":1,"samples":["loopvars templates do not load"]}`)
				return
			}
			G := 3 + r.n(8)
			type job struct {
				tpl  string
				data map[string]any
				want string
			}
			jobs := make([]job, G)
			for g := range jobs {
				switch (g + round) % 12 {
				case 9:
					jobs[g] = job{"h.html", map[string]any{}, "<p>A</p><i>3</i><b>7</b>"}
				case 10:
					jobs[g] = job{"h.html", map[string]any{"string": func(any) string { return "S" }, "len": func(any) int { return 300 }}, "<p>S</p><i>300</i><b>7</b>"}
				case 11:
					jobs[g] = job{"h.html", map[string]any{"string": 5}, " ERR"}
				case 6:
					jobs[g] = job{"g.html", map[string]any{"kind": "a"}, "<p>A</p>A"}
				case 7:
					jobs[g] = job{"g.html", map[string]any{"kind": "b"}, "<p>B</p>B"}
				case 8:
					jobs[g] = job{"g.html", map[string]any{"kind": "zz"}, " ERR"}
				case 4:
					jobs[g] = job{"d.html", map[string]any{"x": 1, "y": 2}, "<h1>d</h1> ERR"}
				case 5:
					jobs[g] = job{"e.html", map[string]any{"orders": []any{"x1"}}, "<h1>e</h1> ERR"}
				case 0: // fails at the second item: the first item has been written
					jobs[g] = job{"a.html", map[string]any{"accounts": []any{map[string]any{"name": "ann"}, map[string]any{"iban": "SECRET"}, map[string]any{"name": "zed"}}}, "<ul><li>1:ann</li><li> ERR"}
				case 1:
					jobs[g] = job{"b.html", map[string]any{"account": fmt.Sprint("bob", g), "orders": []any{"x1", "x2"}}, fmt.Sprintf("<ol><li>bob%d: x1</li><li>bob%d: x2</li></ol>", g, g)}
				case 2: // `account` is bound nowhere in this execution: an error, never another execution's value
					jobs[g] = job{"b.html", map[string]any{"orders": []any{"x1"}}, "<ol><li> ERR"}
				default: // `i` is bound nowhere
					jobs[g] = job{"c.html", map[string]any{"orders": []any{"y1"}}, "<ol><li>y1<b> ERR"}
				}
			}
			// the reference: each job ALONE on a manager of its own; the three failing kinds must fail there too
			for g := range jobs {
				ref, _, _ := implLoad(rc, nil)
				t, _ := ref.tm.GetTemplate(jobs[g].tpl)
				w := &chunkWriter{failAt: -1}
				err := t.Execute(w, jobs[g].data)
				alone := strings.Join(w.chunks, "")
				if err != nil {
					alone += " ERR " + err.Error()
				}
				if (err != nil) != strings.HasSuffix(jobs[g].want, " ERR") && !(err == nil && jobs[g].tpl == "e.html") {
					fmt.Println("RACE-RESULT " + `{"executions":0,"mismatches":1,"samples":["loopvars reference run has an unexpected outcome"]}`)
					return
				}
				jobs[g].want = alone
			}
			var wg sync.WaitGroup
			start := make(chan struct{})
			got := make([]string, G)
			for g := 0; g < G; g++ {
				wg.Add(1)
				go func(g int) {
					defer wg.Done()
					t, err := m.tm.GetTemplate(jobs[g].tpl)
					if err != nil {
						got[g] = "GET " + err.Error()
						return
					}
					if round%3 != 0 {
						<-start
					}
					for k := 0; k < 4; k++ {
						w := &chunkWriter{failAt: -1}
						if err := t.Execute(w, jobs[g].data); err != nil {
							got[g] = strings.Join(w.chunks, "") + " ERR " + err.Error()
						} else {
							got[g] = strings.Join(w.chunks, "")
						}
						if got[g] != jobs[g].want {
							return
						}
					}
				}(g)
				if round%3 == 0 {
					wg.Wait()
				}
			}
			close(start)
			wg.Wait()
			for g := 0; g < G; g++ {
				total++
				if got[g] != jobs[g].want {
					mismatches++
					if len(samples) < 5 {
						samples = append(samples, J{"files": files, "tpl": jobs[g].tpl, "goroutines": G, "serial_round": round%3 == 0, "alone": jobs[g].want, "here": trunc(got[g], 200)})
					}
				}
			}
		}
	} else if *mode == "deep" {
		// many executions that are DEEP inside nested fragments at the same moment: a data-bounded recursive fragment
		// whose innermost level calls a barrier function, so that all goroutines are at their full depth together
		// (each alone stays far below the engine's nesting bound; nothing per-manager may add them up)
		src := `<template :define="r"><i :text="${n}">o</i><b :with="n := ${n - 1}" :if="${n > 0}" :insert="r">x</b><u :else :text="${sync()}">o</u></template><div :insert="r">x</div>`
		for round := 0; round < *rounds; round++ {
			rc := &renderCase{Files: [][2]string{{"t", src}}, Tpl: "t"}
			m, lerr, p := implLoad(rc, nil)
			ref, lerr2, _ := implLoad(rc, nil)
			if lerr != nil || p != nil || lerr2 != nil {
				fmt.Println("RACE-RESULT " + `{"executions":0,"mismatches":1,"samples":["deep template does not load"]}`)
				return
			}
			G := 8 + r.n(6)
			var arrived int32
			release := make(chan struct{})
			var once sync.Once
			barrier := func() string {
				if int(atomic.AddInt32(&arrived, 1)) >= G {
					once.Do(func() { close(release) })
				}
				select {
				case <-release:
				case <-time.After(3 * time.Second):
				}
				return "!"
			}
			depths := make([]int, G)
			want := make([]string, G)
			for g := 0; g < G; g++ {
				depths[g] = 35 + r.n(25)
				t, _ := ref.tm.GetTemplate("t")
				w := &chunkWriter{failAt: -1}
				if err := t.Execute(w, map[string]any{"n": depths[g], "sync": func() string { return "!" }}); err != nil {
					want[g] = "ERR"
				} else {
					want[g] = strings.Join(w.chunks, "")
				}
			}
			shareObject := round%2 == 0
			sharedT, _ := m.tm.GetTemplate("t")
			var wg sync.WaitGroup
			got := make([]string, G)
			for g := 0; g < G; g++ {
				wg.Add(1)
				go func(g int) {
					defer wg.Done()
					t := sharedT
					if !shareObject {
						t, _ = m.tm.GetTemplate("t")
					}
					w := &chunkWriter{failAt: -1}
					defer func() {
						if x := recover(); x != nil {
							got[g] = "PANIC " + fmt.Sprint(x)
						}
					}()
					if err := t.Execute(w, map[string]any{"n": depths[g], "sync": barrier}); err != nil {
						got[g] = "ERR " + err.Error()
						// a failed execution never reaches the barrier: let the others go
						if int(atomic.AddInt32(&arrived, 1)) >= G {
							once.Do(func() { close(release) })
						}
					} else {
						got[g] = strings.Join(w.chunks, "")
					}
				}(g)
			}
			wg.Wait()
			for g := 0; g < G; g++ {
				total++
				if got[g] != want[g] {
					mismatches++
					if len(samples) < 5 {
						samples = append(samples, J{"files": rc.Files, "goroutines": G, "depth": depths[g], "shared_object": shareObject,
							"serial": trunc(want[g], 120), "concurrent": trunc(got[g], 200)})
					}
				}
			}
		}
	} else {
		for round := 0; round < *rounds; round++ {
			rc, _ := genRenderCase(r, false)
			log := &callLog{}
			_, global, _ := rc.goData(log)
			m, lerr, p := implLoad(rc, global)
			ref, lerr2, _ := implLoad(rc, global)
			if lerr != nil || p != nil || lerr2 != nil {
				continue
			}
			G := []int{2, 3, 4, 8, 16, 64}[r.n(6)]
			shareObject := r.p(50)
			names := m.names
			type job struct {
				name string
				rc   *renderCase
				want renderOut
			}
			jobs := make([]job, G)
			serialStart := time.Now()
			for g := 0; g < G; g++ {
				// a case whose serial executions are expensive (deep data-bounded recursion under the race detector) is run
				// with few goroutines: the budget of a round is bounded, the kind of case is still covered
				if g == 4 && time.Since(serialStart) > 400*time.Millisecond {
					G = 4
					jobs = jobs[:4]
					break
				}
				name := rc.Tpl
				if r.p(40) && len(names) > 0 {
					name = names[r.n(len(names))]
				}
				gen := &tplGen{r: r, ap: ":", tp: "t:", stats: map[string]int{}, frags: []string{"f1", "f2"}}
				dv, _ := gen.dataFrame()
				rc2 := *rc
				rc2.Data = dv.j
				data, _, _ := rc2.goData(&callLog{})
				jobs[g] = job{name, &rc2, implExec(ref, name, data, &callLog{}, -1, renderOut{Load: "ok"})}
			}
			shared := map[string]types.Template{}
			for _, j := range jobs {
				if _, ok := shared[j.name]; !ok {
					if t, err := m.tm.GetTemplate(j.name); err == nil {
						shared[j.name] = t
					}
				}
			}
			var wg sync.WaitGroup
			start := make(chan struct{})
			got := make([]renderOut, G)
			for g := 0; g < G; g++ {
				wg.Add(1)
				go func(g int) {
					defer wg.Done()
					j := jobs[g]
					data, _, _ := j.rc.goData(&callLog{})
					t := shared[j.name]
					if !shareObject {
						t, _ = m.tm.GetTemplate(j.name)
					}
					<-start
					if t == nil {
						got[g] = renderOut{St: "notfound"}
						return
					}
					w := &chunkWriter{failAt: -1}
					func() {
						defer func() {
							if x := recover(); x != nil {
								got[g] = renderOut{St: "panic", Err: fmt.Sprint(x)}
							}
						}()
						err := t.Execute(w, data)
						got[g] = renderOut{St: map[bool]string{true: "ok", false: "err"}[err == nil], Chunks: w.chunks}
					}()
				}(g)
			}
			close(start)
			wg.Wait()
			for g := 0; g < G; g++ {
				total++
				want := jobs[g].want
				if want.Get != "found" {
					continue
				}
				if got[g].St != want.St || got[g].text() != want.text() {
					mismatches++
					if len(samples) < 5 {
						samples = append(samples, J{"files": rc.Files, "tpl": jobs[g].name, "goroutines": G, "shared_object": shareObject,
							"serial": J{"st": want.St, "out": trunc(want.text(), 200)}, "concurrent": J{"st": got[g].St, "out": trunc(got[g].text(), 200), "err": got[g].Err}})
					}
				}
			}
		}
	}
	bs, _ := json.Marshal(J{"executions": total, "mismatches": mismatches, "samples": samples})
	fmt.Println("RACE-RESULT " + string(bs))
}

// C15: concurrent rendering from one manager is race-free and equals serial.
func propC15(c *ctx) error {
	res := c.res
	res.Rule = "rounds of 2..64 goroutines started behind a barrier on a freshly loaded manager (first-ever executions), same or different templates, rounds of 8..13 executions held at fragment depth 35..60 simultaneously by a barrier function, shared or per-goroutine template objects, per-goroutine data and writers, under the Go race detector; every output/error is compared with the serial result on an identical manager; distinct = distinct (round seed, goroutine); non-trivial = all"
	bin := filepath.Join(os.Getenv("VERIF_BUILD"), "harness-race")
	if _, err := os.Stat(bin); err != nil {
		res.SelfTest = append(res.SelfTest, "race harness binary missing: "+bin)
		return nil
	}
	run := func(mode string, rounds int) error {
		cmd := exec.Command(bin, "race", "-mode", mode, "-rounds", fmt.Sprint(rounds), "-seed", fmt.Sprint(c.seed))
		cmd.Env = append(os.Environ(), "GORACE=halt_on_error=0 exitcode=0 history_size=2")
		out, err := cmd.CombinedOutput()
		text := string(out)
		races := strings.Count(text, "WARNING: DATA RACE")
		fatal := strings.Contains(text, "fatal error:")
		var rr struct {
			Executions int   `json:"executions"`
			Mismatches int   `json:"mismatches"`
			Samples    []any `json:"samples"`
		}
		if i := strings.LastIndex(text, "RACE-RESULT "); i >= 0 {
			json.Unmarshal([]byte(strings.TrimSpace(text[i+12:])), &rr)
		}
		for k := 0; k < rr.Executions; k++ {
			res.eval(fmt.Sprintf("%s|%d|%d", mode, c.seed, k), true, J{"mode": mode, "round_seed": c.seed})
		}
		res.S3Checked += rr.Executions
		res.Distribution["race_reports_"+mode] = races
		cs := J{"mode": mode, "rounds": rounds, "seed": c.seed, "replay": bin + " race -mode " + mode + fmt.Sprintf(" -rounds %d -seed %d", rounds, c.seed)}
		if races > 0 || fatal {
			i := strings.Index(text, "WARNING: DATA RACE")
			if i < 0 {
				i = strings.Index(text, "fatal error:")
			}
			res.violate(cs, "no data race", fmt.Sprintf("%d race reports; first: %s", races, trunc(text[i:], 900)), "data race on shared state while rendering concurrently")
		} else if err != nil && rr.Executions == 0 {
			res.violate(cs, "race harness finishes", err.Error()+": "+trunc(text, 400), "race harness failed")
		}
		if rr.Mismatches > 0 {
			res.violate(J{"mode": mode, "seed": c.seed, "samples": rr.Samples}, "each concurrent execution equals its serial result", fmt.Sprintf("%d of %d executions differ", rr.Mismatches, rr.Executions), "concurrent execution differs from serial execution")
		}
		return nil
	}
	if c.prop == "C18" {
		return run("reload", c.n(40, 1500))
	}
	if err := run("deep", c.n(6, 80)); err != nil {
		return err
	}
	if err := run("twins", c.n(30, 600)); err != nil {
		return err
	}
	if err := run("types", c.n(30, 900)); err != nil {
		return err
	}
	if err := run("loopvars", c.n(30, 900)); err != nil {
		return err
	}
	if err := run("arrays", c.n(30, 900)); err != nil {
		return err
	}
	return run("render", c.n(120, 5000))
}
