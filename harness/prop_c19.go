package main

import (
	"errors"
	"fmt"
	"io"
	"io/fs"
	"path"
	"regexp"
	"sort"
	"strconv"
	"strings"
	"testing/fstest"

	"code.gopub.tech/tpl/html"
)

func init() { props["C19"] = propC19 }

var errInjected = errors.New("INJECTED-FS-ERROR")

// instrumented file system over fstest.MapFS: logs opens / closes of regular files, injects faults
type instFS struct {
	base     fstest.MapFS
	opens    []string
	closes   []string
	reads    []string
	openErr  map[string]bool
	readErr  map[string]bool
	dirErr   map[string]bool // ReadDir of that directory fails: WalkDir reports the error for it
}

type instFile struct {
	fs.File
	fsys *instFS
	name string
	dir  bool
}

func (f *instFile) Read(p []byte) (int, error) {
	if !f.dir {
		f.fsys.reads = append(f.fsys.reads, f.name)
		if f.fsys.readErr[f.name] {
			return 0, errInjected
		}
	}
	return f.File.Read(p)
}
func (f *instFile) Close() error {
	if !f.dir {
		f.fsys.closes = append(f.fsys.closes, f.name)
	}
	return f.File.Close()
}
func (f *instFile) ReadDir(n int) ([]fs.DirEntry, error) {
	if f.fsys.dirErr[f.name] {
		return nil, errInjected
	}
	if rd, ok := f.File.(fs.ReadDirFile); ok {
		return rd.ReadDir(n)
	}
	return nil, errors.New("not a directory")
}

func (s *instFS) Open(name string) (fs.File, error) {
	f, err := s.base.Open(name)
	if err != nil {
		return nil, err
	}
	st, _ := f.Stat()
	dir := st != nil && st.IsDir()
	if !dir {
		s.opens = append(s.opens, name)
		if s.openErr[name] {
			f.Close()
			s.opens = s.opens[:len(s.opens)-1] // an Open that fails returns no file: nothing to close
			return nil, errInjected
		}
	}
	return &instFile{File: f, fsys: s, name: name, dir: dir}, nil
}

type fsEntry struct {
	Path    string   `json:"path"`
	Dir     bool     `json:"dir"`
	WalkErr bool     `json:"walkErr"`
	OpenErr bool     `json:"openErr"`
	LoadErr bool     `json:"loadErr"`
	Defines []*string `json:"defines"` // null = a define whose NAME fails to evaluate
}

// c19FailingDefines: generate `define` attributes whose name cannot be evaluated (the driver accepts null entries)
var c19FailingDefines = true

// C19: the manager registers exactly the matching files under unique names.
func propC19(c *ctx) error {
	res := c.res
	res.Rule = "generated directory trees (depth 0..3; matching and non-matching files; unparsable non-matching files; fragments; name collisions between files and fragments) x matcher kind (suffix, regexp, predicate) x with/without sub-directory x an Open / Read / ReadDir fault injected at every file; instrumented fs.FS; native oracle (set comprehension over the tree) and the Lean model FP.run; distinct = distinct (tree, faults, matcher); non-trivial = at least 2 matching files"
	r := newRng(c.seed, "C19")
	n := c.n(500, 20000)
	for i := 0; i < n; i++ {
		// ---- generate a tree
		sub := ""
		if r.p(40) {
			sub = "views"
		}
		files := map[string]string{} // path relative to the (sub-directory) root -> content
		defines := map[string][]*string{}
		dirs := []string{""}
		for k := r.n(4); k > 0; k-- {
			d := dirs[r.n(len(dirs))]
			if strings.Count(d, "/") < 2 {
				nd := strings.TrimPrefix(d+"/"+r.pick([]string{"a", "b", "part", "x.html", ".dot", ".git"}), "/")
				dirs = append(dirs, nd)
			}
		}
		nf := r.n(7)
		for k := 0; k < nf; k++ {
			d := dirs[r.n(len(dirs))]
			// (names that begin with a dot are names like any other: .gitkeep beside templates, .partial.html IS a template)
			name := r.pick([]string{"index", "a", "b", "main", "z", ".gitkeep", ".partial", ".#index", "-", "0"}) + r.pick([]string{".html", ".html", ".html", ".txt", ".htm", ".html.bak", ".html", ".tpl.html"})
			p := strings.TrimPrefix(d+"/"+name, "/")
			isDir := false
			for _, dd := range dirs {
				if dd == p {
					isDir = true
				}
			}
			if isDir {
				continue
			}
			var sb strings.Builder
			sb.WriteString("<p>" + p + "</p>")
			var defs []*string
			for q := r.n(3); q > 0; q-- {
				fn := r.pick([]string{"f1", "f2", "hdr", "a.html", "b/index.html", "f" + fmt.Sprint(k)})
				if r.p(70) {
					fn = fmt.Sprintf("frag-%d-%d", k, q)
				}
				if c19FailingDefines && r.p(6) {
					// the name of this fragment cannot be evaluated: an error raised while registering the fragments,
					// after the file and the fragments before it have been registered
					defs = append(defs, nil)
					sb.WriteString(r.pick([]string{`<div :define>x</div>`, `<div :define="${nosuchname}">x</div>`, `<div :define="${1/0}">x</div>`}))
					continue
				}
				f2 := fn
				defs = append(defs, &f2)
				// the defining element in every shape: with content, empty, self-closing block, void element, and with a
				// further definition nested inside it (pre-order: the outer name first)
				switch r.n(6) {
				case 0:
					sb.WriteString(`<div :define="` + fn + `">` + r.pick([]string{"", " ", "\n", "\n  \n"}) + `</div>`)
				case 1:
					sb.WriteString(`<t:block :define="` + fn + `"/>`)
				case 2:
					sb.WriteString(`<br :define="` + fn + `">`)
				case 3:
					inner := fmt.Sprintf("in-%d-%d", k, q)
					defs = append(defs, &inner)
					sb.WriteString(`<div :define="` + fn + `"><p><i :define="` + inner + `"></i></p></div>`)
				default:
					sb.WriteString(`<div :define="` + fn + `">x</div>`)
				}
			}
			if r.p(8) && strings.HasSuffix(p, ".html") {
				sb.WriteString("<p") // unparsable matching file
			}
			if !strings.HasSuffix(p, ".html") {
				sb.WriteString("<<< not a template <p") // non-matching files may be garbage: they are never read
			}
			files[p] = sb.String()
			defines[p] = defs
			if r.p(8) {
				// a file of length zero is a file like any other: registered under its name when it matches (an empty template)
				files[p], defines[p] = "", nil
				res.count("zero_length_files")
			}
		}
		base := fstest.MapFS{}
		pre := ""
		if sub != "" {
			pre = sub + "/"
			base["other/outside.html"] = &fstest.MapFile{Data: []byte("<p")}
		}
		for _, d := range dirs {
			if d != "" {
				base[pre+d] = &fstest.MapFile{Mode: fs.ModeDir}
			}
		}
		if sub != "" {
			base[sub] = &fstest.MapFile{Mode: fs.ModeDir}
		}
		for _, p := range sortedKeys(files) {
			// anything that is not a directory is a file to be matched: also symbolic links, pipes and entries with
			// irregular mode bits (what matters is that the file system opens them)
			mode := []fs.FileMode{0o644, 0o644, 0o644, 0o444, fs.ModeSymlink | 0o777, fs.ModeIrregular | 0o644, fs.ModeNamedPipe | 0o600}[r.n(7)]
			base[pre+p] = &fstest.MapFile{Data: []byte(files[p]), Mode: mode}
		}
		// ---- faults
		ifs := &instFS{base: base, openErr: map[string]bool{}, readErr: map[string]bool{}, dirErr: map[string]bool{}}
		var paths []string
		for p := range files {
			paths = append(paths, p)
		}
		sort.Strings(paths)
		faultKind, faultAt := "none", ""
		if len(paths) > 0 && r.p(45) {
			faultAt = paths[r.n(len(paths))]
			faultKind = r.pick([]string{"open", "read"})
			if faultKind == "open" {
				ifs.openErr[pre+faultAt] = true
			} else {
				ifs.readErr[pre+faultAt] = true
			}
		} else if len(dirs) > 1 && r.p(15) {
			faultAt = dirs[1+r.n(len(dirs)-1)]
			faultKind = "readdir"
			ifs.dirErr[pre+faultAt] = true
		}
		// ---- matcher
		matcherKind := r.pick([]string{"suffix", "regexp", "func", "regexp-top", "regexp-dir", "func-depth", "regexp-literal", "regexp-literal"})
		match := func(p string) bool { return strings.HasSuffix(p, ".html") }
		// matchers that look at the START or the DEPTH of the path: they must be given the path relative to the
		// configured sub-directory — the very string the file is registered under
		reTop, reDir := regexp.MustCompile(`^[^/]+\.html$`), regexp.MustCompile(`^(a|b|part)/.*\.html$`)
		// an UNANCHORED pattern without metacharacters accepts every path that CONTAINS it (start, middle or end)
		reLit := regexp.MustCompile(r.pick([]string{`a/`, `part/`, `index`, `\.html`, `html`, `b`, `/`, `main\.html`, `z\.h`}))
		modelSuffix := ".html"
		// the suffix is any string the path may end in: several extensions, no dot, one letter, the empty string
		sfx := r.pick([]string{".html", ".html", ".tpl.html", "html", "", ".html.bak", "l", "x.html", "/index.html"})
		switch matcherKind {
		case "suffix":
			match = func(p string) bool { return strings.HasSuffix(p, sfx) }
			modelSuffix = sfx
		case "regexp-literal":
			match = func(p string) bool { return reLit.MatchString(p) }
			modelSuffix = ""
		case "regexp-top":
			match = func(p string) bool { return reTop.MatchString(p) }
		case "regexp-dir":
			match = func(p string) bool { return reDir.MatchString(p) }
		case "func-depth":
			match = func(p string) bool { return strings.HasSuffix(p, ".html") && strings.Count(p, "/") == 1 }
		}
		// ---- implementation
		m := html.NewTplManager()
		if sub != "" {
			m.SetSubFS(sub)
		}
		var perr error
		var panicked any
		func() {
			defer func() { panicked = recover() }()
			switch matcherKind {
			case "suffix":
				perr = m.ParseWithSuffix(ifs, sfx)
			case "regexp":
				perr = m.ParseWithRegexp(ifs, regexp.MustCompile(`\.html$`))
			case "regexp-top":
				perr = m.ParseWithRegexp(ifs, reTop)
			case "regexp-dir":
				perr = m.ParseWithRegexp(ifs, reDir)
			case "regexp-literal":
				perr = m.ParseWithRegexp(ifs, reLit)
			default:
				perr = m.Parse(ifs, match)
			}
		}()
		keys := func(mm map[string]*html.Node) []string {
			var ks []string
			for k := range mm {
				ks = append(ks, k)
			}
			sort.Strings(ks)
			return ks
		}
		strip := func(xs []string) []string {
			out := []string{}
			for _, x := range xs {
				out = append(out, strings.TrimPrefix(x, pre))
			}
			return out
		}
		gotFiles, gotTpls := keys(m.Files()), keys(m.Templates())
		opens, closes := strip(ifs.opens), strip(ifs.closes)
		// ---- walk order as fs.WalkDir delivers it (lexical, directories descended in place)
		var entries []fsEntry
		var walk func(d string)
		walk = func(d string) {
			entries = append(entries, fsEntry{Path: orDot(d), Dir: true, WalkErr: false})
			if faultKind == "readdir" && faultAt == d {
				// WalkDir calls the function a second time for the directory with the ReadDir error
				entries = append(entries, fsEntry{Path: orDot(d), Dir: true, WalkErr: true})
				return
			}
			var names []string
			seen := map[string]bool{}
			for p := range files {
				if dirOf(p) == d {
					names = append(names, p)
				}
			}
			for _, dd := range dirs {
				if dd != "" && dirOf(dd) == d && !seen[dd] {
					names = append(names, dd)
					seen[dd] = true
				}
			}
			sort.Strings(names)
			for _, p := range names {
				if seen[p] {
					walk(p)
					continue
				}
				content := files[p]
				entries = append(entries, fsEntry{Path: p, OpenErr: faultKind == "open" && faultAt == p,
					LoadErr: (faultKind == "read" && faultAt == p) || strings.HasSuffix(content, "<p"), Defines: defines[p]})
			}
		}
		walk("")
		// ---- native oracle
		wantErr := ""
		var wantFiles, wantTpls, wantOpens []string
		reg := map[string]bool{}
	loop:
		for _, e := range entries {
			switch {
			case e.WalkErr:
				wantErr = "fs"
				break loop
			case e.Dir || !match(e.Path):
				continue
			}
			wantOpens = append(wantOpens, e.Path)
			if e.OpenErr {
				wantOpens = wantOpens[:len(wantOpens)-1]
				wantErr = "fs"
				break loop
			}
			if reg[e.Path] {
				wantErr = "duplicate"
				break loop
			}
			if e.LoadErr {
				if faultKind == "read" && faultAt == e.Path {
					wantErr = "fs"
				} else {
					wantErr = "load"
				}
				break loop
			}
			reg[e.Path] = true
			wantFiles = append(wantFiles, e.Path)
			wantTpls = append(wantTpls, e.Path)
			for _, d := range e.Defines {
				if d == nil {
					wantErr = "load"
					break loop
				}
				if reg[*d] {
					wantErr = "duplicate"
					break loop
				}
				reg[*d] = true
				wantTpls = append(wantTpls, *d)
			}
		}
		sort.Strings(wantFiles)
		sort.Strings(wantTpls)
		gotErr := ""
		switch {
		case panicked != nil:
			gotErr = "panic"
		case perr == nil:
		case errors.Is(perr, errInjected):
			gotErr = "fs"
		case errors.Is(perr, html.ErrDuplicatedTplName):
			gotErr = "duplicate"
		default:
			gotErr = "load"
		}
		nmatch := 0
		for _, p := range paths {
			if match(p) {
				nmatch++
			}
		}
		cs := J{"sub": sub, "files": files, "dirs": dirs, "fault": faultKind, "fault_at": faultAt, "matcher": matcherKind, "literal_pattern": reLit.String(), "suffix": sfx}
		res.eval(jstr(cs), nmatch >= 2, cs)
		res.count("fault_" + faultKind)
		res.count("result_" + orOK(gotErr))
		res.S3Checked++
		eq := func(a, b []string) bool { return strings.Join(a, "\x00") == strings.Join(b, "\x00") }
		sortedCopy := func(a []string) []string { b := append([]string{}, a...); sort.Strings(b); return b }
		switch {
		case gotErr != wantErr:
			res.violate(cs, orOK(wantErr), orOK(gotErr)+" "+fmt.Sprint(perr), "Parse result: file-system errors must be returned, duplicates must fail with the duplicate-name error")
		case !eq(gotFiles, wantFiles) || !eq(gotTpls, wantTpls):
			res.violate(cs, J{"files": wantFiles, "templates": wantTpls}, J{"files": gotFiles, "templates": gotTpls}, "registered names are not exactly the matching files (relative slash paths) plus their fragments")
		case !eq(opens, wantOpens):
			res.violate(cs, wantOpens, opens, "files that do not match were opened / matching files were not")
		case !eq(sortedCopy(opens), sortedCopy(closes)):
			res.violate(cs, opens, closes, "a file that was opened was not closed")
		}
		for _, p := range ifs.reads {
			if !match(strings.TrimPrefix(p, pre)) {
				res.violate(cs, "never read", p, "a file that does not match was read")
				break
			}
		}
		if gotErr == "" {
			if _, err := m.GetTemplate("no/such/name.html"); !errors.Is(err, html.ErrTplNotFound) {
				res.violate(cs, "not-found error", fmt.Sprint(err), "looking up an unregistered name does not fail with the not-found error")
			}
			// near-miss spellings of registered names are unregistered names too: the lookup is by the exact name
			for _, n := range wantTpls {
				for _, v := range []string{"/" + n, "./" + n, n + "/", strings.Replace(n, "/", "//", 1), "x/../" + n, n + " ", " " + n,
					strings.ToUpper(n), strings.TrimSuffix(n, ".html"), n + ".html", strings.Replace(n, "/", "\\", 1), n + "\x00", path.Base(n), "a/" + n} {
					if v == n || reg[v] {
						continue
					}
					res.count("near_miss_lookups")
					if t, err := m.GetTemplate(v); !errors.Is(err, html.ErrTplNotFound) || t != nil {
						res.violate(cs, "not-found error for "+strconv.Quote(v), fmt.Sprint(t != nil, err), "looking up an unregistered name (a near-miss spelling of a registered one) does not fail with the not-found error")
						break
					}
				}
			}
			// loading the same file system a SECOND time into the same manager registers every matching file again: the
			// duplicate-name error (nothing is "already parsed")
			if faultKind == "none" {
				var err2 error
				func() {
					defer func() {
						if x := recover(); x != nil {
							err2 = fmt.Errorf("panic: %v", x)
						}
					}()
					err2 = m.Parse(ifs, match)
				}()
				res.count("second_parse")
				if len(wantFiles) > 0 && !errors.Is(err2, html.ErrDuplicatedTplName) {
					res.violate(cs, "duplicate-name error", fmt.Sprint(err2), "parsing the same files a second time into one manager does not fail with the duplicate-name error")
				} else if len(wantFiles) == 0 && err2 != nil {
					res.violate(cs, "nil (nothing matches)", fmt.Sprint(err2), "a second parse that matches nothing fails")
				}
			}
			if err := m.Add(firstOr(wantTpls, "fresh-name"), strings.NewReader("x")); len(wantTpls) > 0 && !errors.Is(err, html.ErrDuplicatedTplName) {
				res.violate(cs, "duplicate-name error", fmt.Sprint(err), "a second registration of a name does not fail with the duplicate-name error")
			}
		}
		if c.d != nil {
			// the model's driver matches by suffix: a file the matcher of this case does not accept is presented to it as
			// an entry that is skipped in the same way (the model skips directories and non-matching files alike)
			mentries := append([]fsEntry{}, entries...)
			for k := range mentries {
				if !mentries[k].Dir && strings.HasSuffix(mentries[k].Path, modelSuffix) && !match(mentries[k].Path) {
					mentries[k].Dir = true
				}
			}
			m2, err := c.d.ask(J{"op": "fsparse", "suffix": modelSuffix, "entries": mentries})
			if err != nil {
				return err
			}
			res.S2Compared++
			mr := sget(m2, "r")
			mapped := map[string]string{"ok": "", "walk": "fs", "open": "fs", "load": "load", "duplicate": "duplicate"}[mr]
			if mr == "load" && gotErr == "fs" && wantErr == "fs" {
				mapped = "fs" // the model's `loadErr` covers both an unparsable file and a read fault while scanning it
			}
			mf, mt := strList(m2["files"]), strList(m2["templates"])
			sort.Strings(mf)
			sort.Strings(mt)
			if mapped != gotErr || !eq(mf, gotFiles) || !eq(mt, gotTpls) || !eq(strList(m2["opens"]), opens) {
				res.disagree(cs, J{"err": gotErr, "files": gotFiles, "templates": gotTpls, "opens": opens}, m2,
					fmt.Sprintf("fs parse: err %q/%q files %v templates %v opens %v", mapped, gotErr, eq(mf, gotFiles), eq(mt, gotTpls), eq(strList(m2["opens"]), opens)))
			}
		}
	}
	return nil
}

func orDot(s string) string {
	if s == "" {
		return "."
	}
	return s
}
func orOK(s string) string {
	if s == "" {
		return "ok"
	}
	return s
}
func dirOf(p string) string {
	if i := strings.LastIndex(p, "/"); i >= 0 {
		return p[:i]
	}
	return ""
}
func firstOr(xs []string, d string) string {
	if len(xs) > 0 {
		return xs[0]
	}
	return d
}

var _ = io.EOF
