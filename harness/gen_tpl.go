package main

import (
	"fmt"
	"strings"
)

// ---------- generator of directive templates: chain-aware, registry-aware, mostly valid ----------

type tplGen struct {
	r      *rng
	ap     string // attribute prefix
	tp     string // tag prefix
	frags  []string
	inLoop int
	stats  map[string]int
	hostile bool
	noFrag  bool // never emit insert/replace (used inside fragment bodies to keep the call graph acyclic)
}

var hostileStrings = []string{"str", "<b>", "q\"'&", "a\\b", "l1\nl2", "tab\there", "${x}", "}", "-->", "</script>", "é✓", "\x01", "a&amp;b", "' onx='", " ", ""}

func (g *tplGen) count(k string) { g.stats[k]++ }

func (g *tplGen) dataFrame() (val, map[string]fnDecl) {
	r := g.r
	s := "str"
	if g.hostile || r.p(40) {
		s = hostileStrings[r.n(len(hostileStrings))]
	}
	xsN := r.n(4)
	xs := []val{vInt(10), vInt(20), vInt(30)}[:xsN]
	fns := map[string]fnDecl{
		"c1": {Kind: "val", Ret: vBool(true).j}, "c2": {Kind: "val", Ret: vBool(false).j},
		"c3": {Kind: "val", Ret: vStr("v3").j}, "c4": {Kind: "val1", Ret: vStr("v4").j},
		"ferr": {Kind: "err", Ret: vInt(0).j}, "fok": {Kind: "okerr", Ret: vInt(7).j}, "fpanic": {Kind: "panic", Ret: vInt(0).j},
	}
	kvs := []kv{
		{"t", vBool(true)}, {"f", vBool(false)}, {"a", vInt(1 + r.n(2))}, {"b", vBool(r.p(50))}, {"s", vStr(s)},
		{"xs", vAnySlice(xs...)}, {"e", vAnySlice()}, {"m", vMap(kv{"k", vStr("kv")})}, {"m1", vMap(kv{"only", vInt(7)})},
		{"s2", vStr("hi")}, {"nest", vAnySlice(vAnySlice(vInt(1), vInt(2)), vAnySlice(vInt(3)))}, {"n", vNil()},
		{"strs", vStrSlice("p", "q")}, {"ints", vIntSlice(4, 5, 6)}, {"i64a", vI64(1)}, {"arr", vIntArray3(7, 8, 9)},
		{"fr", vStr(g.fragName())}, {"strue", vStr("true")}, {"sfalse", vStr("false")}, {"tree", treeData()},
	}
	for _, id := range sortedKeys(fns) {
		kvs = append(kvs, kv{id, val{nil, J{"fn": id}}})
	}
	return vMap(kvs...), fns
}

func (g *tplGen) fragName() string {
	if len(g.frags) == 0 {
		return "nofrag"
	}
	return g.r.pick(g.frags)
}

func (g *tplGen) cond() string {
	r := g.r
	switch r.n(14) {
	case 12:
		// a condition holds when its value PRINTS as "true", whatever Go type carries it
		// … and ONLY then: a value that prints as "true" with white space around it is not "true"
		return r.pick([]string{"${strue}", "${sfalse}", "${'true'}", "tr${'ue'}", "${strue}${''}", "${b ? strue : sfalse}",
			" ${strue}", "${strue} ", " ${t} ", "${' true'}", "${strue + ' '}", "true ", " true", "${t}\n", "\n${strue}", "${'true\\n'}", "${t}${' '}", "TRUE", "${'True'}"})
	case 13:
		return r.pick([]string{"${strue}", "${sfalse}"})
	case 0:
		return "${t}"
	case 1:
		return "${f}"
	case 2:
		return "${a == 1}"
	case 3:
		return "${b}"
	case 4:
		return "${len(xs) > 0}"
	case 5:
		return r.pick([]string{"true", "false"})
	case 6:
		return "${c1()}"
	case 7:
		return "${c2()}"
	case 8:
		return "${!b && c1()}"
	case 9:
		if r.p(30) {
			return r.pick([]string{"${nope}", "${ferr()}", "${s}", "${a}"})
		}
		return "${i64a == 1}"
	case 10:
		return "${a > 1 || f}"
	}
	return "${b ? t : f}"
}

func (g *tplGen) expr() string {
	r := g.r
	pool := []string{"${a}", "${s}", "a${a}b", "${a + 1}", "lit", "${m.k}", "${s + 'x'}", "${t ? a : s}", "${c3()}", "${c4(a)}", "${s}${s}", "x ${s} y",
		"${m['k']}", "${glob}", "${strs[0]}", "${ints[-1]}", "${len(xs)}", "${n}", "${fok()}", "${xs}", "${m}", "$ {a}", "$${a}", "${'}'}", "${\"{\"}"}
	if g.inLoop > 0 {
		pool = append(pool, "${x}", "${i}", "${i}-${x}", "${x}", "${i + 1}")
	}
	if r.p(7) {
		return r.pick([]string{"${nope}", "${ferr()}", "${fpanic()}", "${a.b}", "${xs[9]}", "${a +}"})
	}
	return r.pick(pool)
}

func (g *tplGen) rangeHdr() string {
	r := g.r
	if r.p(8) {
		return r.pick([]string{"i, x : nope", "i, x : a", "i,x:xs[1:]", "x : ferr()", "i, x : n", "i, x : ${xs}", "x : xs)", "x : xs,", "x : xs xs", "x : (xs"})
	}
	return r.pick([]string{"i, x : xs", "x : xs", "xs", ", x : xs", "_, x : xs", "i, x : e", "i, x : m1", "i, x : s2", "i, x : nest", "i, x : strs", "i, x : ints", "i, x : arr", "i, x : (xs)"})
}

func (g *tplGen) with() string {
	r := g.r
	if r.p(8) {
		return r.pick([]string{"w := ${nope}", "w ${a}", "w := a", ":= ${a}", "w := ${a} v := ${s}"})
	}
	return r.pick([]string{"w := ${a + 1}", "w := ${a}; v := ${s}", "a := ${a + 10}", "w := ${c3()}", "s := ${'shadow'}", "len := ${a}", "w := ${n}"})
}

func (g *tplGen) attr(name, val string) string {
	q := "\""
	if (g.r.p(15) && !strings.Contains(val, "'")) || strings.Contains(val, "\"") {
		q = "'"
	}
	if strings.Contains(val, "'") && strings.Contains(val, "\"") {
		val = strings.ReplaceAll(val, "'", "")
		q = "'"
	}
	return " " + g.ap + name + "=" + q + val + q
}

var plainTags = []string{"p", "div", "span", "li", "ul", "b", "i", "a", "td"}
var texts = []string{"", " ", "\n  ", "x", "a &lt; b", "&amp;", "é", "t e x t", "\t"}

// condKind: "" none, "if", "elif", "else"
func (g *tplGen) elem(d int, condKind string) string {
	r := g.r
	tag := r.pick(plainTags)
	kind := "plain"
	switch r.n(14) {
	case 0:
		// (the block element's name, prefix included, is matched without regard to letter case)
		tag, kind = r.pick([]string{g.tp + "block", g.tp + "block", strings.ToUpper(g.tp) + "block", g.tp + "Block", strings.ToUpper(g.tp) + "BLOCK", strings.ToUpper(g.tp[:1]) + g.tp[1:] + "Block"}), "block"
	case 1:
		tag, kind = r.pick([]string{"br", "img", "input", "hr", "BR", "Img", "INPUT", "hR"}), "void" // (element names are case-insensitive)
	case 2:
		tag, kind = r.pick([]string{"script", "textarea", "title", "style", "Script", "TEXTAREA", "Title"}), "raw"
	}
	var as []string
	nd := 0
	if r.p(22) {
		as = append(as, g.attr("with", g.with()))
		nd++
	}
	switch condKind {
	case "if":
		as = append(as, g.attr("if", g.cond()))
		nd++
	case "elif":
		as = append(as, g.attr(r.pick([]string{"elif", "else-if", "elseif"}), g.cond()))
		nd++
	case "else":
		if r.p(60) {
			as = append(as, " "+g.ap+"else")
		} else {
			as = append(as, g.attr("else", "true"))
		}
		nd++
	}
	ranged := false
	if r.p(22) {
		as = append(as, g.attr("range", g.rangeHdr()))
		ranged = true
		nd++
	}
	if r.p(14) {
		as = append(as, g.attr("remove", r.pick([]string{"all", "body", "tag", "all-but-first", "none"})))
		nd++
	}
	if ranged {
		g.inLoop++
	}
	content := ""
	switch r.n(12) {
	case 0, 1:
		as = append(as, g.attr("text", g.expr()))
		content = "text"
	case 2:
		as = append(as, g.attr("raw", g.expr()))
		content = "raw"
	case 3:
		if !g.noFrag {
			as = append(as, g.attr("insert", g.fragRef()))
			content = "insert"
		}
	case 4:
		if !g.noFrag {
			as = append(as, g.attr("replace", g.fragRef()))
			content = "replace"
		}
	}
	if content != "" {
		nd++
	}
	for k := r.n(3); k > 0 && r.p(45); k-- {
		n := r.pick([]string{"title", "class", "id", "href", "data-x", "hidden", "lang"}) // hidden / lang: the static twin is valueless / unquoted
		dup := false
		for _, a := range as {
			if strings.HasPrefix(a, " "+g.ap+n+"=") {
				dup = true
			}
		}
		if !dup {
			as = append(as, g.attr(n, g.expr()))
			nd++
		}
	}
	for k := r.n(3); k > 0 && r.p(50); k-- {
		a := r.pick([]string{"class=\"c\"", "id=x", "hidden", "title='t'", "data-a=\"1\"", "href=\"/p?a=1&amp;b=2\"", "lang=en", "href=/docs/", "data-p=a/"}) // (an unquoted value ending in '/' closes the tag only when it is written LAST)
		n := strings.SplitN(a, "=", 2)[0]
		dup := false
		for _, b := range as {
			if strings.HasPrefix(b, " "+n+"=") || b == " "+n {
				dup = true
			}
		}
		if !dup {
			as = append(as, " "+a)
		}
	}
	g.count(fmt.Sprintf("directives_on_element_%d", nd))
	g.count("elem_" + kind)
	if content != "" {
		g.count("content_" + content)
	}
	r.shuffle(as)
	// an unquoted value ending in '/' must not be written last: `<x a=b/>` is read as a self-closing tag
	{
		var slash, other []string
		for _, a := range as {
			if strings.HasSuffix(a, "/") {
				slash = append(slash, a)
			} else {
				other = append(other, a)
			}
		}
		if len(slash) > 0 && len(other) == 0 {
			other = append(other, " data-z=1")
		}
		as = append(slash, other...)
	}
	open := "<" + tag + strings.Join(as, "")
	var out string
	switch {
	case kind == "void":
		out = open + ">"
	case kind != "raw" && r.p(5): // (a self-closed raw-text element would swallow the rest of the document as text)
		out = open + " />"
	default:
		var body strings.Builder
		if kind == "raw" {
			body.WriteString(r.pick([]string{"var a = 1 < 2;", "", "x</scr", "<b>not a tag</b>", " if (a<b) {} "}))
		} else {
			body.WriteString(g.children(d - 1))
		}
		out = open + ">" + body.String() + "</" + tag + ">"
	}
	if ranged {
		g.inLoop--
	}
	return out
}

func (g *tplGen) fragRef() string {
	r := g.r
	if r.p(10) {
		return r.pick([]string{"nofrag", "${nope}", "${fr}x"})
	}
	if g.inLoop > 0 && r.p(30) {
		// the name changes from one rendering of the host to the next within ONE execution
		return r.pick([]string{"f${i}", "f${i}${''}", "${'f'}${i}", "f${i > 1 ? 2 : 1}"})
	}
	if r.p(25) {
		// names computed from the data: a pure block, and literal text mixed with blocks (f1 / f2 according to `a`)
		return r.pick([]string{"${fr}", "${fr}", "f${a}", "f${a}${''}", "${'f'}${a}"})
	}
	return g.fragName()
}

// children generates a child list; chains are generated as units.
func (g *tplGen) children(d int) string {
	r := g.r
	var sb strings.Builder
	k := r.n(4)
	for i := 0; i < k; i++ {
		if d > 0 && r.p(65) {
			if r.p(35) {
				sb.WriteString(g.chain(d))
			} else {
				sb.WriteString(g.elem(d, ""))
			}
		} else {
			sb.WriteString(r.pick(texts))
		}
		if r.p(30) {
			sb.WriteString(r.pick([]string{" ", "\n ", "<!-- c -->", "<!--/* h */-->"}))
		}
	}
	return sb.String()
}

// chain: if, 0..3 else-if, optional else; text/comments may sit between; rarely an orphan else.
func (g *tplGen) chain(d int) string {
	r := g.r
	var sb strings.Builder
	n := r.n(4)
	g.count(fmt.Sprintf("chain_len_%d", n+1))
	sep := func() {
		if r.p(40) {
			sb.WriteString(r.pick([]string{" ", "\n", "<!-- between -->", "text"}))
		}
	}
	if r.p(4) { // orphan
		sb.WriteString(g.elem(d, r.pick([]string{"elif", "else"})))
		g.count("chain_orphan")
		return sb.String()
	}
	sb.WriteString(g.elem(d, "if"))
	for i := 0; i < n; i++ {
		sep()
		if r.p(4) {
			sb.WriteString("<hr>") // a non-chain tag breaks the chain
			g.count("chain_broken")
		}
		sb.WriteString(g.elem(d, "elif"))
	}
	if r.p(60) {
		sep()
		sb.WriteString(g.elem(d, "else"))
		g.count("chain_with_else")
	}
	return sb.String()
}

func (g *tplGen) file(main bool) string {
	r := g.r
	var sb strings.Builder
	k := 1 + r.n(4)
	for i := 0; i < k; i++ {
		if r.p(30) {
			sb.WriteString(g.chain(2))
		} else {
			sb.WriteString(g.elem(2, ""))
		}
		if r.p(40) {
			sb.WriteString(r.pick(texts))
		}
		if r.p(5) {
			sb.WriteString(r.pick([]string{"<!-- c -->", "<!--/* h */-->", "</p>", "<![CDATA[x>y]]>", "<!DOCTYPE html>",
				"<!--\u3000/* h */\u3000-->", "<!--\u00a0/* h */-->", "<!--\v/* h */\v-->", "<!-- /* half -->", "<!-- half */ -->"}))
		}
	}
	return sb.String()
}

// genRenderCase builds a complete case: 1..3 files, fragments defined before or after use (acyclic).
func genRenderCase(r *rng, hostile bool) (*renderCase, map[string]int) {
	g := &tplGen{r: r, ap: ":", tp: "t:", stats: map[string]int{}, hostile: hostile}
	cfg := map[string]any{}
	switch r.n(10) {
	case 0:
		g.ap, g.tp = "th:", "th-"
		cfg["attrPrefix"], cfg["tagPrefix"] = g.ap, g.tp
	case 1:
		g.ap, g.tp = "data-x-", "x_"
		cfg["attrPrefix"], cfg["tagPrefix"] = g.ap, g.tp
	case 2:
		// prefixes made of the letters directive names start with (a prefix is a prefix, not a set of characters),
		// or that are themselves the beginning / the whole of a directive name
		g.ap = r.pick([]string{"r:", "wi:", "i-", "e-", "t:", "re:", "el-", "if:", "ra-", "w:", "text-"})
		g.tp = r.pick([]string{"b:", "bl-", "t-", "block-"})
		cfg["attrPrefix"], cfg["tagPrefix"] = g.ap, g.tp
	}
	nfr := r.n(3)
	for i := 0; i < nfr; i++ {
		g.frags = append(g.frags, fmt.Sprintf("f%d", i+1))
	}
	// fragment bodies never reference fragments with a higher or equal index: the call graph is acyclic
	defs := make([]string, nfr)
	all := g.frags
	for i := 0; i < nfr; i++ {
		g.frags = all[:i]
		g.noFrag = i == 0
		pad := r.pick([]string{"", " ", "\n"})
		defs[i] = "<template" + g.attr("define", all[i]) + ">" + pad + g.elem(1, "") + r.pick([]string{"", " ", "x"}) + "</template>"
	}
	g.frags, g.noFrag = all, nfr == 0
	main := g.file(true)
	// data-bounded RECURSION (12%): a fragment that re-enters itself through :insert / :replace on an element that also
	// carries with / if / range — every level runs the same nodes, so anything kept per node must be per invocation
	if r.p(12) {
		switch r.n(3) {
		case 0: // countdown: with, then if, then insert of itself
			defs = append(defs, "<template"+g.attr("define", "rec")+"><i"+g.attr("text", "${d}")+">o</i><b"+g.attr("with", "d := ${d - 1}")+g.attr("if", "${d > 0}")+g.attr("insert", "rec")+">x</b><u"+g.attr("else", "true")+">.</u></template>")
			main += "<div" + g.attr("with", "d := ${a + 1}") + g.attr("insert", "rec") + ">x</div>"
		case 1: // tree: range + insert of itself, chain after it
			defs = append(defs, "<template"+g.attr("define", "tree")+"><s"+g.attr("text", "${n.name}")+">o</s><x"+g.attr("range", "_, n : n.kids")+g.attr("insert", "tree")+">x</x><em"+g.attr("if", "${len(n.kids) > 0}")+">+</em><em"+g.attr("else", "true")+">-</em></template>")
			main += "<ul><li" + g.attr("range", "i, n : tree") + g.attr("insert", "tree") + ">x</li></ul>"
		default: // replace of itself inside the selected branch of a chain
			defs = append(defs, "<template"+g.attr("define", "tr2")+"><b"+g.attr("if", "${len(n.kids) > 0}")+"><q"+g.attr("range", "_, n : n.kids")+g.attr("replace", "tr2")+">x</q></b><i"+g.attr("else", "true")+g.attr("text", "${n.name}")+">o</i></template>")
			main += "<p" + g.attr("range", "_, n : tree") + g.attr("replace", "tr2") + ">x</p>"
		}
		g.count("recursive_fragment")
	}
	rc := &renderCase{Tpl: "main.html", Cfg: cfg}
	switch r.n(4) {
	case 0: // same file, before
		rc.Files = [][2]string{{"main.html", strings.Join(defs, "") + main}}
	case 1: // same file, after
		rc.Files = [][2]string{{"main.html", main + strings.Join(defs, "")}}
	case 2: // other file loaded first
		rc.Files = [][2]string{{"frags.html", strings.Join(defs, "\n")}, {"main.html", main}}
	default: // other file loaded last
		rc.Files = [][2]string{{"main.html", main}, {"frags.html", strings.Join(defs, "\n")}}
	}
	data, fns := g.dataFrame()
	rc.Data = data.j
	rc.Fns = fns
	if r.p(60) {
		rc.Global = vMap(kv{"glob", vStr("G")}, kv{"a", vInt(99)}, kv{"g3", vInt(3)}).j
	}
	if len(cfg) == 0 {
		rc.Cfg = nil
	}
	return rc, g.stats
}
