package main

import (
	"fmt"
	"reflect"
	"strings"
)

func init() {
	props["C17"] = propC17
}

func tokensJ(v any) []any {
	m, _ := v.(J)
	if m == nil {
		if mm, ok := v.(map[string]any); ok {
			m = mm
		}
	}
	xs, _ := m["ok"].([]any)
	return xs
}

// expectTokens renders the generator's expectation in the JSON shape of tokenJ.
func expectTokens(src string, toks []gTok) []any {
	rs := []rune(src)
	p := func(n int) []any { q := posAt(rs, n); return []any{q[0], q[1]} }
	var out []any
	for _, t := range toks {
		var tag any
		if t.Kind == 1 {
			attrs := []any{}
			for _, a := range t.Attrs {
				var v any
				vs, ve := []any{0, 0}, []any{0, 0}
				if a.Value != nil {
					v = *a.Value
					vs, ve = p(a.VS), p(a.VE)
				}
				attrs = append(attrs, J{"n": a.Name, "ns": p(a.NS), "ne": p(a.NE), "v": v, "vs": vs, "ve": ve})
			}
			tag = J{"name": t.Name, "attrs": attrs}
		}
		out = append(out, J{"k": t.Kind, "v": t.Value, "s": p(t.S), "e": p(t.E), "tag": tag})
	}
	return out
}

func normJSON(v any) any {
	var out any
	jsonRoundTrip(v, &out)
	return out
}

// C17: scanning recovers the written tokens with exact source positions.
func propC17(c *ctx) error {
	res := c.res
	res.Rule = "generated token sequences (tags with 0..5 attributes in all value forms, comments, CDATA, doctype, raw-text elements with hostile content, Unicode text) printed with single or wide white space; expected tokens and positions computed by the generator's own offset bookkeeping; plus malformed inputs that must be rejected; distinct = distinct source; non-trivial = >= 2 tokens"
	configs := [][]string{{"script", "style", "textarea", "title"}, {}, {"pre", "SCRIPT"}}
	runDoc := func(src string, exp []gTok, textTags []string, note string) error {
		impl := implScan(src, textTags, noPrefix)
		res.eval(src+"|"+strings.Join(textTags, ","), len(exp) >= 2, J{"src": src, "textTags": textTags})
		if _, ok := impl["err"]; ok {
			res.count("impl_err")
		} else {
			res.count("impl_ok")
		}
		cs := J{"src": src, "textTags": textTags, "note": note}
		if exp != nil {
			res.S3Checked++
			want := normJSON(expectTokens(src, exp))
			got := normJSON(impl["ok"])
			if e, bad := impl["err"]; bad {
				res.violate(cs, "tokens", J{"err": e}, "well-formed token sequence rejected")
			} else if !reflect.DeepEqual(want, got) {
				res.violate(cs, want, got, "scanned tokens / positions differ from the written ones: "+firstDiff(want, got))
			}
		}
		if c.d != nil {
			m, err := c.d.ask(J{"op": "scan", "src": src, "textTags": textTags})
			if err != nil {
				return err
			}
			res.S2Compared++
			if e, ok := m["err"].(string); ok && e != "eof" && !strings.HasPrefix(e, "panic") {
				m["err"] = "err" // error classes: eof (ErrUnexpectedEOF) vs any other scan error; messages are not compared
			}
			if !reflect.DeepEqual(normJSON(impl), normJSON(m)) {
				res.disagree(cs, impl, m, "scan: "+firstDiff(normJSON(impl), normJSON(m)))
			}
		}
		return nil
	}
	for _, cs := range c.corpusCases() {
		tt := cfgStrings(cs, "textTags")
		if tt == nil {
			tt = configs[0]
		}
		if err := runDoc(sget(cs, "src"), nil, tt, "corpus"); err != nil {
			return err
		}
		if exp, ok := cs["expect_error"].(bool); ok && exp {
			res.S3Checked++
			if _, bad := implScan(sget(cs, "src"), tt, noPrefix)["err"]; !bad {
				res.violate(cs, "error", "accepted", "malformed input accepted")
			}
		}
	}
	r := newRng(c.seed, "C17")
	n := c.n(3000, 120000)
	for i := 0; i < n; i++ {
		tt := configs[r.n(len(configs))]
		wide := r.p(35)
		src, toks := genHTMLDoc(r, tt, wide)
		res.count(fmt.Sprintf("tokens_%02d", min(len(toks), 12)))
		if wide {
			res.count("wide_whitespace")
		}
		if err := runDoc(src, toks, tt, ""); err != nil {
			return err
		}
	}
	// malformed inputs must be rejected
	bad := []string{"<!-->x-->", "<!--->x-->", "<!--a<!--b-->", "<!--a--!>b-->", "<!--a<!--->", "<p a=1 a=2>", "<p a a>", "<p", "<p a=\"x", "<!--x", "<![CDATA[x", "<p a='1' b", "<"}
	for _, s := range bad {
		impl := implScan(s, configs[0], noPrefix)
		res.eval("bad|"+s, true, J{"src": s, "expect": "error"})
		res.S3Checked++
		if _, isErr := impl["err"]; !isErr {
			res.violate(J{"src": s, "expect_error": true}, "error", impl, "malformed comment / duplicate attribute / unterminated tag accepted")
		}
		if c.d != nil {
			m, err := c.d.ask(J{"op": "scan", "src": s, "textTags": configs[0]})
			if err != nil {
				return err
			}
			res.S2Compared++
			if e, ok := m["err"].(string); ok && e != "eof" && !strings.HasPrefix(e, "panic") {
				m["err"] = "err"
			}
			if !reflect.DeepEqual(normJSON(impl), normJSON(m)) {
				res.disagree(J{"src": s}, impl, m, "scan (malformed)")
			}
		}
	}
	// ---- directive values: literal and code segments with their positions.  The value of a directive attribute is
	// printed from a generated segment list (literal text / ${code}; the code may hold string literals of the three
	// styles with braces, '${', tabs and line breaks); the expectation is computed by offset bookkeeping over the
	// source; the model's code scanner is asked for the same value at the same start position.
	if err := c17Values(c, r); err != nil {
		return err
	}
	// duplicate attributes at every pair of positions: a tag with 2..9 attributes (all value forms) in which the
	// attribute at position j repeats the name of the attribute at position i < j must be rejected
	{
		forms := []string{`%s`, `%s=1`, `%s="v"`, `%s='v'`, `%s=""`}
		names := []string{"a", "b", "c", "d", "e", "f", "g", "h", "i"}
		dn := 0
		for n := 2; n <= 9; n++ {
			for i := 0; i < n; i++ {
				for j := i + 1; j < n; j++ {
					if c.quick() && (i+j+n)%3 != 0 && !(j >= 4 && i < 4) {
						continue
					}
					var parts []string
					for k := 0; k < n; k++ {
						nm := names[k]
						if k == j {
							nm = names[i]
						}
						parts = append(parts, fmt.Sprintf(forms[r.n(len(forms))], nm))
					}
					src := "<p " + strings.Join(parts, r.pick([]string{" ", "\n", "  "})) + ">x</p>"
					if err := runDoc(src, nil, configs[0], "dup"); err != nil {
						return err
					}
					res.S3Checked++
					dn++
					if _, isErr := implScan(src, configs[0], noPrefix)["err"]; !isErr {
						res.violate(J{"src": src, "expect_error": true}, "error", "accepted", fmt.Sprintf("duplicate attribute accepted (positions %d and %d of %d)", i+1, j+1, n))
					}
				}
			}
		}
		res.Distribution["duplicate_attribute_cases"] = dn
	}
	// malformed stream: mutations of generated documents and random symbol soup — correspondence only
	alphabet := []string{"<", ">", "/", "=", "\"", "'", " ", "a", "!", "-", "]", "[", "\n", "\t", "</scr", "</SCRIPT >", "<![CDATA[", "<script>", " ", "é", "<!--", "-->"}
	mn := c.n(1500, 60000)
	for i := 0; i < mn; i++ {
		var sb strings.Builder
		for k := 1 + r.n(10); k > 0; k-- {
			sb.WriteString(r.pick(alphabet))
		}
		if err := runDoc(sb.String(), nil, configs[r.n(len(configs))], "soup"); err != nil {
			return err
		}
	}
	return nil
}

func firstDiff(a, b any) string {
	as, bs := jstr(a), jstr(b)
	i := 0
	for i < len(as) && i < len(bs) && as[i] == bs[i] {
		i++
	}
	lo := i - 40
	if lo < 0 {
		lo = 0
	}
	return fmt.Sprintf("…%s ≠ …%s", trunc(as[lo:], 120), trunc(bs[lo:], 120))
}

type c17Seg struct {
	kind int // 2 literal, 4 code
	text string
}

func c17Values(c *ctx, r *rng) error {
	res := c.res
	lits := []string{"a", " ", "x y", "é", "\t", "\n", "$", "{", "}", "$ {", "price: $5", "a\tb", "✓", "}}", "\n\t",
		// the OTHER quote character inside literal text is a character (used only when it is not the value's delimiter)
		"it's", "'", "say \"hi\"", "\"", "''", "a'b'c"}
	codes := []string{"x", "a + b", " x ", "f(1, 2)", "m['k']", "x +\n y", "x +\ty", "`raw`", "`r\nw`", "`a\tb`", "`}`", "`${`", "\"}\"", "\"{\"", "'}'", "'${'", "\"a\\\"}\"",
		"'C:\\\\'", "\"\\\\\"", "'a\\\\' + 'b'", "'\\\\\\\\'", "'\\\\\\''", "\"a\\\\\" + x", "'\\\\}'", "`\\`", "`a\\` + `}`", "'\\\\' + \"}\"", "'x\\\\\\\\\\''",
		"f((1))", "x /* c */", "(x)", "`l1\nl2\nl3` + y", "s + `\t`", "\"é✓\"", "a ? b : c", "xs[1:2]"}
	n := c.n(600, 30000)
	for i := 0; i < n; i++ {
		quote := "\""
		if r.p(50) {
			quote = "'"
		}
		var segs []c17Seg
		lastLit := false
		for k := 1 + r.n(4); k > 0; k-- {
			if r.p(40) && !lastLit {
				lt := r.pick(lits)
				if strings.Contains(lt, quote) {
					continue
				}
				segs = append(segs, c17Seg{2, lt})
				lastLit = true
			} else {
				code := r.pick(codes)
				if strings.Contains(code, quote) {
					continue
				}
				segs = append(segs, c17Seg{4, code})
				lastLit = false
			}
		}
		if len(segs) == 0 {
			continue
		}
		// a literal must not end with '$' when a block follows ("$${" would still open a block, but keep the oracle simple)
		var val strings.Builder
		for _, sg := range segs {
			if sg.kind == 2 {
				val.WriteString(sg.text)
			} else {
				val.WriteString("${" + sg.text + "}")
			}
		}
		v := val.String()
		if strings.Contains(v, "$${") {
			continue
		}
		lead := r.pick([]string{"", "x", "\n", "\t", "t\n\t", "<b>é</b> "})
		name := ":" + r.pick([]string{"text", "if", "title", "with-x", "raw"})
		pre := lead + "<p" + r.pick([]string{" ", "\n", " id=1 ", "\t"}) + name + "="
		src := pre + quote + v + quote + r.pick([]string{">", " >", " b>", "/>"})
		rs := []rune(src)
		off := len([]rune(pre))
		pj := func(n int) []any { q := posAt(rs, n); return []any{q[0], q[1]} }
		// expected value tokens
		var want []any
		add := func(kind int, text string) {
			l := len([]rune(text))
			want = append(want, J{"k": kind, "v": text, "s": pj(off), "e": pj(off + l)})
			off += l
		}
		add(1, quote)
		for _, sg := range segs {
			if sg.kind == 2 {
				add(2, sg.text)
			} else {
				add(3, "${")
				add(4, sg.text)
				add(5, "}")
			}
		}
		add(1, quote)
		valStart := posAt(rs, len([]rune(pre)))
		toks, err, pan := implScanTokens(src, nil, ":")
		res.eval("val|"+src, true, J{"src": src})
		res.S3Checked++
		res.count("directive_value_cases")
		cs := J{"src": src, "value": quote + v + quote}
		if pan != nil || err != nil {
			// adjacent literal segments are one literal for the scanner: only values the generator keeps apart get here
			res.violate(cs, "tokens", J{"err": fmt.Sprint(err), "panic": fmt.Sprint(pan)}, "well-formed directive value rejected by the scanner")
			continue
		}
		var got []any
		var ve []any
		for _, t := range toks {
			if t.Tag == nil {
				continue
			}
			for _, a := range t.Tag.Attrs {
				if a.Name == name {
					for _, vt := range a.ValueTokens {
						got = append(got, J{"k": int(vt.Kind), "v": vt.Value, "s": posJ(vt.Start), "e": posJ(vt.End)})
					}
					ve = []any{a.ValueEnd.Line, a.ValueEnd.Column}
				}
			}
		}
		if !reflect.DeepEqual(normJSON(want), normJSON(got)) {
			res.violate(cs, want, got, "literal / code segments of a directive value or their positions differ from the written ones: "+firstDiff(normJSON(want), normJSON(got)))
		} else if len(want) > 0 && !reflect.DeepEqual(normJSON(ve), normJSON(want[len(want)-1].(J)["e"])) {
			res.violate(cs, want[len(want)-1].(J)["e"], ve, "the last segment does not end where the attribute value ends")
		}
		// the SAME value text written a second time elsewhere in the file: the second occurrence is reported with its own
		// positions (nothing about a value may be remembered by its text)
		if r.p(40) {
			mid := r.pick([]string{"", "\n", "\n\n  ", "<i>é</i>", " x\n\t"})
			pre2 := src + mid + "<span" + r.pick([]string{" ", "  ", "\n", " k=v "}) + ":rep="
			src2 := pre2 + quote + v + quote + ">"
			rs2 := []rune(src2)
			off2 := len([]rune(pre2))
			var want2 []any
			add2 := func(kind int, text string) {
				l := len([]rune(text))
				a, b := posAt(rs2, off2), posAt(rs2, off2+l)
				want2 = append(want2, J{"k": kind, "v": text, "s": []any{a[0], a[1]}, "e": []any{b[0], b[1]}})
				off2 += l
			}
			add2(1, quote)
			for _, sg := range segs {
				if sg.kind == 2 {
					add2(2, sg.text)
				} else {
					add2(3, "${")
					add2(4, sg.text)
					add2(5, "}")
				}
			}
			add2(1, quote)
			res.S3Checked++
			res.count("repeated_value_cases")
			if toks2, err2, pan2 := implScanTokens(src2, nil, ":"); err2 == nil && pan2 == nil {
				var got1, got2 []any
				for _, t := range toks2 {
					if t.Tag == nil {
						continue
					}
					for _, a := range t.Tag.Attrs {
						for _, vt := range a.ValueTokens {
							tj := J{"k": int(vt.Kind), "v": vt.Value, "s": posJ(vt.Start), "e": posJ(vt.End)}
							if a.Name == name {
								got1 = append(got1, tj)
							} else if a.Name == ":rep" {
								got2 = append(got2, tj)
							}
						}
					}
				}
				cs2 := J{"src": src2, "value": quote + v + quote}
				if !reflect.DeepEqual(normJSON(want), normJSON(got1)) || !reflect.DeepEqual(normJSON(want2), normJSON(got2)) {
					res.violate(cs2, J{"first": want, "second": want2}, J{"first": got1, "second": got2}, "a directive value written twice in one file: the segments of an occurrence are not reported at that occurrence's own positions")
				}
			} else {
				res.violate(J{"src": src2}, "tokens", J{"err": fmt.Sprint(err2), "panic": fmt.Sprint(pan2)}, "a file with the same well-formed directive value twice is rejected by the scanner")
			}
		}
		if c.d != nil {
			m, err := c.d.ask(J{"op": "codescan", "src": quote + v + quote, "line": valStart[0], "col": valStart[1]})
			if err != nil {
				return err
			}
			res.S2Compared++
			if mrej, _ := m["err"].(bool); mrej || jstr(normJSON(m["toks"])) != jstr(normJSON(got)) {
				res.disagree(cs, got, m, "codescan tokens of a directive value")
			}
		}
	}
	return nil
}
