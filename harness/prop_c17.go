package main

import (
	"fmt"
	"reflect"
	"strings"
)

func init() {
	props["C17"] = propC17
}

func tokensJ(v any) []any {
	m, _ := v.(J)
	if m == nil {
		if mm, ok := v.(map[string]any); ok {
			m = mm
		}
	}
	xs, _ := m["ok"].([]any)
	return xs
}

// expectTokens renders the generator's expectation in the JSON shape of tokenJ.
func expectTokens(src string, toks []gTok) []any {
	rs := []rune(src)
	p := func(n int) []any { q := posAt(rs, n); return []any{q[0], q[1]} }
	var out []any
	for _, t := range toks {
		var tag any
		if t.Kind == 1 {
			attrs := []any{}
			for _, a := range t.Attrs {
				var v any
				vs, ve := []any{0, 0}, []any{0, 0}
				if a.Value != nil {
					v = *a.Value
					vs, ve = p(a.VS), p(a.VE)
				}
				attrs = append(attrs, J{"n": a.Name, "ns": p(a.NS), "ne": p(a.NE), "v": v, "vs": vs, "ve": ve})
			}
			tag = J{"name": t.Name, "attrs": attrs}
		}
		out = append(out, J{"k": t.Kind, "v": t.Value, "s": p(t.S), "e": p(t.E), "tag": tag})
	}
	return out
}

func normJSON(v any) any {
	var out any
	jsonRoundTrip(v, &out)
	return out
}

// C17: scanning recovers the written tokens with exact source positions.
func propC17(c *ctx) error {
	res := c.res
	res.Rule = "generated token sequences (tags with 0..5 attributes in all value forms, comments, CDATA, doctype, raw-text elements with hostile content, Unicode text) printed with single or wide white space; expected tokens and positions computed by the generator's own offset bookkeeping; plus malformed inputs that must be rejected; distinct = distinct source; non-trivial = >= 2 tokens"
	configs := [][]string{{"script", "style", "textarea", "title"}, {}, {"pre", "SCRIPT"}}
	runDoc := func(src string, exp []gTok, textTags []string, note string) error {
		impl := implScan(src, textTags, noPrefix)
		res.eval(src+"|"+strings.Join(textTags, ","), len(exp) >= 2, J{"src": src, "textTags": textTags})
		if _, ok := impl["err"]; ok {
			res.count("impl_err")
		} else {
			res.count("impl_ok")
		}
		cs := J{"src": src, "textTags": textTags, "note": note}
		if exp != nil {
			res.S3Checked++
			want := normJSON(expectTokens(src, exp))
			got := normJSON(impl["ok"])
			if e, bad := impl["err"]; bad {
				res.violate(cs, "tokens", J{"err": e}, "well-formed token sequence rejected")
			} else if !reflect.DeepEqual(want, got) {
				res.violate(cs, want, got, "scanned tokens / positions differ from the written ones: "+firstDiff(want, got))
			}
		}
		if c.d != nil {
			m, err := c.d.ask(J{"op": "scan", "src": src, "textTags": textTags})
			if err != nil {
				return err
			}
			res.S2Compared++
			if e, ok := m["err"].(string); ok && e != "eof" && !strings.HasPrefix(e, "panic") {
				m["err"] = "err" // error classes: eof (ErrUnexpectedEOF) vs any other scan error; messages are not compared
			}
			if !reflect.DeepEqual(normJSON(impl), normJSON(m)) {
				res.disagree(cs, impl, m, "scan: "+firstDiff(normJSON(impl), normJSON(m)))
			}
		}
		return nil
	}
	for _, cs := range c.corpusCases() {
		tt := cfgStrings(cs, "textTags")
		if tt == nil {
			tt = configs[0]
		}
		if err := runDoc(sget(cs, "src"), nil, tt, "corpus"); err != nil {
			return err
		}
		if exp, ok := cs["expect_error"].(bool); ok && exp {
			res.S3Checked++
			if _, bad := implScan(sget(cs, "src"), tt, noPrefix)["err"]; !bad {
				res.violate(cs, "error", "accepted", "malformed input accepted")
			}
		}
	}
	r := newRng(c.seed, "C17")
	n := c.n(3000, 120000)
	for i := 0; i < n; i++ {
		tt := configs[r.n(len(configs))]
		wide := r.p(35)
		src, toks := genHTMLDoc(r, tt, wide)
		res.count(fmt.Sprintf("tokens_%02d", min(len(toks), 12)))
		if wide {
			res.count("wide_whitespace")
		}
		if err := runDoc(src, toks, tt, ""); err != nil {
			return err
		}
	}
	// malformed inputs must be rejected
	bad := []string{"<!-->x-->", "<!--->x-->", "<!--a<!--b-->", "<!--a--!>b-->", "<!--a<!--->", "<p a=1 a=2>", "<p a a>", "<p", "<p a=\"x", "<!--x", "<![CDATA[x", "<p a='1' b", "<"}
	for _, s := range bad {
		impl := implScan(s, configs[0], noPrefix)
		res.eval("bad|"+s, true, J{"src": s, "expect": "error"})
		res.S3Checked++
		if _, isErr := impl["err"]; !isErr {
			res.violate(J{"src": s, "expect_error": true}, "error", impl, "malformed comment / duplicate attribute / unterminated tag accepted")
		}
		if c.d != nil {
			m, err := c.d.ask(J{"op": "scan", "src": s, "textTags": configs[0]})
			if err != nil {
				return err
			}
			res.S2Compared++
			if e, ok := m["err"].(string); ok && e != "eof" && !strings.HasPrefix(e, "panic") {
				m["err"] = "err"
			}
			if !reflect.DeepEqual(normJSON(impl), normJSON(m)) {
				res.disagree(J{"src": s}, impl, m, "scan (malformed)")
			}
		}
	}
	// malformed stream: mutations of generated documents and random symbol soup — correspondence only
	alphabet := []string{"<", ">", "/", "=", "\"", "'", " ", "a", "!", "-", "]", "[", "\n", "\t", "</scr", "</SCRIPT >", "<![CDATA[", "<script>", " ", "é", "<!--", "-->"}
	mn := c.n(1500, 60000)
	for i := 0; i < mn; i++ {
		var sb strings.Builder
		for k := 1 + r.n(10); k > 0; k-- {
			sb.WriteString(r.pick(alphabet))
		}
		if err := runDoc(sb.String(), nil, configs[r.n(len(configs))], "soup"); err != nil {
			return err
		}
	}
	return nil
}

func firstDiff(a, b any) string {
	as, bs := jstr(a), jstr(b)
	i := 0
	for i < len(as) && i < len(bs) && as[i] == bs[i] {
		i++
	}
	lo := i - 40
	if lo < 0 {
		lo = 0
	}
	return fmt.Sprintf("…%s ≠ …%s", trunc(as[lo:], 120), trunc(bs[lo:], 120))
}
