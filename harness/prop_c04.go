package main

import (
	"code.gopub.tech/tpl/html"
	"fmt"
	"strings"
)

func init() { props["C04"] = propC04 }

// C04: range renders the element once per item with index and item bound.
func propC04(c *ctx) error {
	res := c.res
	res.Rule = "collection kinds (slice, array, string, single-entry map, nested collections, struct items) x lengths 0..6 x header forms x following-sibling shapes x one other directive x nesting depth <= 3, with a native oracle for the expected output; plus generated templates judged against the structural specification; distinct = distinct (template, data); non-trivial = all"
	r := newRng(c.seed, "C04")
	type coll struct {
		name  string
		v     val
		items []string // %v rendering of each item
		keys  []string // rendering of the first variable (1-based position or map key)
		ok    bool     // false: not a collection → error
	}
	mkColls := func(n int) []coll {
		ints := make([]val, n)
		strs := make([]string, n)
		is := make([]int, n)
		var its, keys []string
		for i := 0; i < n; i++ {
			ints[i] = vInt(10 * (i + 1))
			is[i] = 10 * (i + 1)
			strs[i] = fmt.Sprintf("s%d<", i)
			its = append(its, fmt.Sprint(10*(i+1)))
			keys = append(keys, fmt.Sprint(i+1))
		}
		var sits []string
		for _, s := range strs {
			sits = append(sits, s)
		}
		cs := []coll{
			{"anys", vAnySlice(ints...), its, keys, true},
			{"ints", vIntSlice(is...), its, keys, true},
			{"strs", vStrSlice(strs...), sits, keys, true},
		}
		if n == 3 {
			cs = append(cs, coll{"arr", vIntArray3(10, 20, 30), its, keys, true})
			// arrays whose items are all zero values are still rendered once per item
			cs = append(cs, coll{"arrz", vIntArray3(0, 0, 0), []string{"0", "0", "0"}, keys, true})
			cs = append(cs, coll{"arrz1", vIntArray3(0, 0, 5), []string{"0", "0", "5"}, keys, true})
			cs = append(cs, coll{"intsz", vIntSlice(0, 0, 0), []string{"0", "0", "0"}, keys, true})
		}
		if n <= 4 {
			s := "héllo"[:0]
			for i := 0; i < n; i++ {
				s += string(rune('a' + i))
			}
			var bs []string
			for _, b := range []byte(s) {
				bs = append(bs, fmt.Sprint(b))
			}
			cs = append(cs, coll{"str", vStr(s), bs, keys, true})
			// a string is ranged over byte by byte, also when it holds multi-byte characters
			if u, ok := map[int]string{2: "é", 3: "€", 4: "a€", 1: "~"}[n]; ok {
				var ub []string
				for _, b := range []byte(u) {
					ub = append(ub, fmt.Sprint(b))
				}
				cs = append(cs, coll{"ustr", vStr(u), ub, keys, true})
			}
		}
		if n == 1 {
			cs = append(cs, coll{"m1", vMap(kv{"only", vInt(7)}), []string{"7"}, []string{"only"}, true})
		}
		if n == 0 {
			cs = append(cs, coll{"m0", vMap(), nil, nil, true}, coll{"num", vInt(5), nil, nil, false}, coll{"nilv", vNil(), nil, nil, false}, coll{"boolv", vBool(true), nil, nil, false},
				// zero values of non-collection kinds are non-collections too
				coll{"zeroi", vInt(0), nil, nil, false}, coll{"falsev", vBool(false), nil, nil, false}, coll{"zerof", vF64(0), nil, nil, false},
				coll{"zerost", vS(0, "", nil), nil, nil, false}, coll{"nilptr", vNilPtrS(), nil, nil, false}, coll{"zeroi64", vI64(0), nil, nil, false})
		}
		if n == 2 {
			cs = append(cs, coll{"sarrz", vStrArray2("", ""), []string{"", ""}, keys, true})
		}
		if n == 2 {
			cs = append(cs, coll{"nest", vAnySlice(vAnySlice(vInt(1), vInt(2)), vAnySlice(vInt(3))), []string{"[1 2]", "[3]"}, keys, true})
		}
		return cs
	}
	esc := func(s string) string { return strings.NewReplacer("&", "&amp;", "<", "&lt;", ">", "&gt;", "\"", "&#34;", "'", "&#39;").Replace(s) }
	headers := []struct {
		hdr        string // with %s for the object
		idx, item  string
	}{{"%s", "", ""}, {"i : %s", "i", ""}, {"i, x : %s", "i", "x"}, {", x : %s", "", "x"}, {"_, x : %s", "_", "x"}, {"  i ,x:%s  ", "i", "x"}, {"i, x : (%s)", "i", "x"}, {"i, x : w.%s", "i", "x"},
		// loop variables are identifiers of the expression language: letters of any alphabet
		{"序, 项 : %s", "序", "项"}, {"i, élément : %s", "i", "élément"}, {"ключ : %s", "ключ", ""}, {"_, ñ : %s", "_", "ñ"}}
	following := []struct{ sib, sep string }{{"", ""}, {" ", " "}, {"\n  ", "\n  "}, {"<b>n</b>", ""}, {"txt", ""}, {" <b>n</b>", " "}, {"<!-- c -->", ""},
		// blank text is blank in the Unicode sense
		{"\u3000", "\u3000"}, {"\f", "\f"}, {"\u00a0\n", "\u00a0\n"}, {"\v ", "\v "}, {"\u0085", "\u0085"}, {"\u2028<b>n</b>", "\u2028"}}
	maxLen := 3
	if !c.quick() {
		maxLen = 6
	}
	cnt := 0
	for n := 0; n <= maxLen; n++ {
		for _, cl := range mkColls(n) {
			for hi, h := range headers {
				for fi, fo := range following {
					if c.quick() && (hi+fi+n)%3 != 0 {
						continue
					}
					obj := cl.name
					body := `[${a}]`
					if h.idx != "" && h.idx != "_" {
						body += `${` + h.idx + `}`
					}
					if h.item != "" {
						body += `=${` + h.item + `}`
					}
					extra := []string{"", ` :class="c${a}"`, ` :remove="tag"`, ` :with="q := ${a}"`, ` :if="${t}"`}[cnt%5]
					tpl := `<ul><li` + extra + ` :range="` + fmt.Sprintf(h.hdr, obj) + `" :text="` + body + `" :data-k="` + strings.TrimPrefix(body, "[${a}]") + `">old</li>` + fo.sib + `</ul>`
					cnt++
					data := vMap(kv{"a", vInt(1)}, kv{"t", vBool(true)}, kv{obj, cl.v}, kv{"w", vMap(kv{obj, cl.v})})
					rc := &renderCase{Files: [][2]string{{"t", tpl}}, Tpl: "t", Data: data.j}
					impl, _, err := compareRender(c, rc, true)
					if err != nil {
						return err
					}
					res.eval(tpl+"|"+jstr(cl.v.j), true, J{"tpl": tpl, "coll": cl.name, "n": n})
					res.S3Checked++
					if !cl.ok {
						if impl.St != "err" {
							res.violate(rc.toJ(), "error: not a collection", J{"st": impl.St, "out": impl.text()}, "range over a non-collection is not an error")
						}
						continue
					}
					var sb strings.Builder
					sb.WriteString("<ul>")
					for k := range cl.items {
						if k > 0 {
							sb.WriteString(fo.sep)
						}
						v := "[1]"
						dk := ""
						if h.idx != "" && h.idx != "_" {
							v += cl.keys[k]
							dk += cl.keys[k]
						}
						if h.item != "" {
							v += "=" + cl.items[k]
							dk += "=" + cl.items[k]
						}
						attrs := ` data-k="` + esc(dk) + `"`
						if strings.Contains(extra, "class") {
							attrs = ` class="c1"` + attrs
						}
						if strings.Contains(extra, "remove") {
							sb.WriteString(esc(v))
						} else {
							sb.WriteString("<li" + attrs + ">" + esc(v) + "</li>")
						}
					}
					sb.WriteString(fo.sib + "</ul>")
					if impl.St != "ok" || impl.text() != sb.String() {
						res.violate(rc.toJ(), sb.String(), J{"st": impl.St, "out": impl.text(), "err": trunc(impl.Err, 160)},
							"range does not render the element once per item with position/key and item bound, separated by the following blank text only")
					}
				}
			}
		}
	}
	res.Distribution["range_matrix_cases"] = cnt
	// nested ranges and struct items
	nestTpls := []struct{ tpl, want string }{
		{`<table><tr :range="i, row : nest"><td :range="j, v : row" :text="${i}.${j}=${v}">o</td></tr></table>`, `<table><tr><td>1.1=1</td><td>1.2=2</td></tr><tr><td>2.1=3</td></tr></table>`},
		{`<p :range="i, s : sts" :title="${s.B}"><i :text="${s.A + i}">o</i><b :range="_, l : s.L" :text="${l}${i}">o</b></p>`, `<p title="one"><i>2</i><b>11</b><b>21</b></p><p title="two"><i>4</i><b>12</b><b>22</b></p>`},
		{`<div :range="i, x : ints"><span :range="i, y : ints" :text="${i}${x}${y}">o</span>|<em :text="${i}">o</em></div>`, `<div><span>144</span><span>245</span>|<em>1</em></div><div><span>154</span><span>255</span>|<em>2</em></div>`},
		{`<a :range="k, v : m1" :href="${k}" :text="${v}">o</a><b :text="${a}">after</b>`, `<a href="only">7</a><b>1</b>`},
		// the object expression may begin and end with a quoted string literal
		{`<i :range="i, c : 'ab'" :text="${i}:${c}">o</i>`, `<i>1:97</i><i>2:98</i>`},
		{`<i :range='_, c : "ab" + "c"' :text="${c}">o</i>`, `<i>97</i><i>98</i><i>99</i>`},
		{`<i :range="_, c : 'a' + 'b'" :text="${c}">o</i>`, `<i>97</i><i>98</i>`},
		{`<i :range="'ab'" :text="x">o</i>`, `<i>x</i><i>x</i>`},
		{`<i :range="_, v : m1['only'] == 7 ? 'y' : 'no'" :text="${v}">o</i>`, `<i>121</i>`},
		// the following blank text separates CONSECUTIVE ITEMS, whether or not an item produced any output
		{"<t:block :range=\"_, x : ints\"><b :if=\"${x > 4}\" :text=\"${x}\">o</b></t:block>\n<i>after</i>", "\n<b>5</b>\n<i>after</i>"},
		{"<u :range=\"_, x : ints\" :remove=\"all\">o</u>\n <i>after</i>", "\n \n <i>after</i>"},
		{"<t:block :range=\"_, x : ints\"><b :if=\"${x < 5}\" :text=\"${x}\">o</b></t:block> <i>after</i>", "<b>4</b>  <i>after</i>"},
		// the same ranged node re-entered through a data-bounded recursive fragment
		{`<ul><li :range="i, n : tree" :insert="node">x</li></ul><template :define="node"><b :text="${i}${n.name}">b</b><ul :if="${len(n.kids) > 0}"><li :range="i, n : n.kids" :insert="node">x</li></ul></template>`,
			`<ul><li><b>1a</b><ul><li><b>1a1</b></li><li><b>2a2</b><ul><li><b>1a2x</b></li></ul></li></ul></li><li><b>2b</b></li></ul>`},
		{`<ul><li :range="i, x : ints"><b :if="${x > 4}" :text="${x}">o</b><i :else :text="${i}">o</i></li></ul>`, `<ul><li><i>1</i></li><li><b>5</b></li></ul>`},
	}
	for _, nt := range nestTpls {
		st1, st2 := vS(1, "one", nil), vS(2, "two", nil)
		data := vMap(kv{"a", vInt(1)}, kv{"nest", vAnySlice(vAnySlice(vInt(1), vInt(2)), vAnySlice(vInt(3)))}, kv{"ints", vIntSlice(4, 5)},
			kv{"m1", vMap(kv{"only", vInt(7)})}, kv{"sts", vAnySlice(st1, st2)}, kv{"tree", treeData()})
		rc := &renderCase{Files: [][2]string{{"t", nt.tpl}}, Tpl: "t", Data: data.j}
		// struct items cannot be rebuilt by the limited JSON decoder with their L field … vS always has L=[1,2]
		impl, _, err := compareRender(c, rc, true)
		if err != nil {
			return err
		}
		res.eval(nt.tpl, true, J{"tpl": nt.tpl})
		res.S3Checked++
		if impl.St != "ok" || impl.text() != nt.want {
			res.violate(rc.toJ(), nt.want, J{"st": impl.St, "out": impl.text(), "err": trunc(impl.Err, 160)}, "nested range / struct items: loop variables not bound as specified")
		}
	}
	// LONG collections whose loop body inserts / replaces a fragment: one rendering per item, however many items (calls from
	// one level are not nesting)
	for _, n := range []int{255, 256, 257, 300, 1000} {
		if c.quick() && n == 1000 {
			continue
		}
		xs := make([]int, n)
		var want strings.Builder
		want.WriteString("<ul>")
		for k := range xs {
			xs[k] = k
			want.WriteString(fmt.Sprintf("<li><b><i>%d</i></b>%d</li>", k, k+1))
		}
		want.WriteString("</ul>")
		tpl := `<ul><li :range="i, x : big"><b :insert="cell">o</b><u :replace="idx">o</u></li></ul><template :define="cell"><i :text="${x}">o</i></template><template :define="idx">${never}<s :remove="tag" :text="${i}">o</s></template>`
		rc := &renderCase{Files: [][2]string{{"t", tpl}}, Tpl: "t", Data: vMap(kv{"big", vIntSlice(xs...)}).j}
		impl, _, err := compareRender(c, rc, n <= 300)
		if err != nil {
			return err
		}
		res.eval(fmt.Sprint("long-range-insert|", n), true, J{"items": n})
		res.S3Checked++
		res.count("long_ranges_with_inserts")
		wantS := strings.Replace(want.String(), "", "", 0)
		got := strings.ReplaceAll(impl.text(), "${never}", "")
		if impl.St != "ok" || got != wantS {
			res.violate(J{"tpl": tpl, "items": n}, trunc(wantS, 200), J{"st": impl.St, "err": trunc(impl.Err, 200), "out": trunc(impl.text(), 200)},
				"a loop over many items whose body inserts a fragment is not rendered once per item (a per-call count mistaken for nesting depth?)")
		}
	}
	// nested loops whose INNER collection is empty for some outer items and non-empty for others, in every order (inner
	// lengths 0..2 for three outer items; slices, strings and single-entry maps inside): the inner element is rendered once
	// per inner item of THIS outer item, with its loop variables bound, whatever the previous outer item's collection was
	for mask := 0; mask < 27; mask++ {
		lens := []int{mask % 3, (mask / 3) % 3, mask / 9}
		for _, inner := range []string{"slice", "string", "map"} {
			var groups []val
			var want strings.Builder
			want.WriteString("<ul>")
			for gi, n := range lens {
				var ys val
				var items, keys []string
				switch inner {
				case "slice":
					var xs []int
					for k := 0; k < n; k++ {
						xs = append(xs, 10*(gi+1)+k)
						items = append(items, fmt.Sprint(10*(gi+1)+k))
						keys = append(keys, fmt.Sprint(k+1))
					}
					ys = vIntSlice(xs...)
				case "string":
					str := "ab"[:n]
					ys = vStr(str)
					for k := 0; k < n; k++ {
						items = append(items, fmt.Sprint(str[k]))
						keys = append(keys, fmt.Sprint(k+1))
					}
				default:
					if n >= 1 { // single-entry maps only (iteration order is not specified)
						ys = vMap(kv{"k", vInt(gi)})
						items, keys = []string{fmt.Sprint(gi)}, []string{"k"}
					} else {
						ys = vMap()
					}
				}
				groups = append(groups, vMap(kv{"ys", ys}, kv{"name", vStr(fmt.Sprint("g", gi))}))
				want.WriteString("<li>")
				for k := range items {
					want.WriteString("<b>" + keys[k] + ":" + items[k] + fmt.Sprint("g", gi) + "</b>")
				}
				want.WriteString(fmt.Sprint("<i>", gi+1, "</i></li>"))
			}
			want.WriteString("</ul>")
			tpl := `<ul><li :range="gi, g : groups"><b :range="j, y : g.ys" :text="${j}:${y}${g.name}">o</b><i :text="${gi}">o</i></li></ul>`
			rc := &renderCase{Files: [][2]string{{"t", tpl}}, Tpl: "t", Data: vMap(kv{"groups", vAnySlice(groups...)}).j}
			impl, _, err := compareRender(c, rc, true)
			if err != nil {
				return err
			}
			res.eval("nested-empty|"+jstr(rc.Data), true, J{"inner_lengths": lens, "inner": inner})
			res.S3Checked++
			res.count("nested_range_with_empty_inner")
			if impl.St != "ok" || impl.text() != want.String() {
				res.violate(rc.toJ(), want.String(), J{"st": impl.St, "out": impl.text(), "err": trunc(impl.Err, 160)},
					"nested loops: after an outer item whose inner collection is empty, the inner element of a later outer item is not rendered once per item with its variables bound")
			}
		}
	}
	// maps whose keys are NOT strings (outside the model's value universe: native oracle only): the first variable is the
	// key itself, with its Go type — usable in arithmetic and comparisons — and every entry is rendered exactly once
	{
		type nk struct {
			data any
			tpl  string
			want []string // the multiset of rendered items (map order is unspecified)
		}
		one := "one"
		cases := []nk{
			{map[int]string{1: "a", 2: "b", 10: "c"}, `<i :range="k, v : m" :text="${k + 1}${v}${k == 1}${k < 3}">o</i>`, []string{"<i>2atruetrue</i>", "<i>3bfalsetrue</i>", "<i>11cfalsefalse</i>"}},
			{map[bool]int{true: 1, false: 0}, `<i :range="k, v : m" :text="${!k}${v}">o</i>`, []string{"<i>false1</i>", "<i>true0</i>"}},
			{map[any]string{1: "int", "1": "str"}, `<i :range="k, v : m" :text="${k}${v}">o</i>`, []string{"<i>1int</i>", "<i>1str</i>"}},
			{map[int64][]int{7: {1, 2}}, `<i :range="k, v : m"><b :range="_, x : v" :text="${k * x}">o</b></i>`, []string{"<i><b>7</b><b>14</b></i>"}},
			{map[uint8]*string{200: &one}, `<i :range="k, v : m" :text="${k + 100}${*v}">o</i>`, []string{"<i>300one</i>"}},
			{map[float64]string{1.5: "f"}, `<i :range="k, v : m" :text="${k * 2 == 3}${v}">o</i>`, []string{"<i>truef</i>"}},
		}
		for _, cs := range cases {
			m := html.NewTplManager()
			if err := m.Add("t", strings.NewReader(cs.tpl)); err != nil {
				res.SelfTest = append(res.SelfTest, "C04 map-key template does not load: "+err.Error())
				continue
			}
			t, _ := m.GetTemplate("t")
			var sb strings.Builder
			err := func() (err error) {
				defer func() {
					if x := recover(); x != nil {
						err = fmt.Errorf("panic: %v", x)
					}
				}()
				return t.Execute(&sb, map[string]any{"m": cs.data})
			}()
			res.eval("mapkeys|"+cs.tpl, true, J{"tpl": cs.tpl, "data": fmt.Sprintf("%#v", cs.data)})
			res.S3Checked++
			res.count("non_string_map_keys")
			got := sb.String()
			rest := got
			okAll := err == nil
			for _, w := range cs.want {
				if i := strings.Index(rest, w); i >= 0 {
					rest = rest[:i] + rest[i+len(w):]
				} else {
					okAll = false
				}
			}
			if !okAll || rest != "" {
				res.violate(J{"tpl": cs.tpl, "data": fmt.Sprintf("%#v", cs.data)}, J{"items_in_any_order": cs.want}, J{"out": got, "err": fmt.Sprint(err)},
					"range over a map with non-string keys: the key variable is not the map key / entries are not rendered once each")
			}
		}
	}
	// files of ONE manager whose range directives sit at the same line:column but iterate different collections
	// (anything remembered per source position must also know the file and the expression), executed in every order
	{
		objs := []struct{ expr, want string }{{"ints", "45"}, {"strs", "pq"}, {"one", "9"}, {"nest[0]", "12"}, {"'ab'", "9798"}}
		data := vMap(kv{"ints", vIntSlice(4, 5)}, kv{"strs", vStrSlice("p", "q")}, kv{"one", vIntSlice(9)},
			kv{"nest", vAnySlice(vAnySlice(vInt(1), vInt(2)), vAnySlice(vInt(3)))}).j
		for a := 0; a < len(objs); a++ {
			for b := 0; b < len(objs); b++ {
				if a == b || (c.quick() && (a+b)%2 == 0) {
					continue
				}
				mkf := func(o string) string { return `<ul><li :range="i, x : ` + o + `" :text="${x}">o</li></ul>` }
				files := [][2]string{{"a.html", mkf(objs[a].expr)}, {"b.html", mkf(objs[b].expr) + `<div :define="fr"><li :range="i, x : ` + objs[a].expr + `" :text="${x}">o</li></div>`}}
				wantOf := func(w string) string {
					out := "<ul>"
					for _, ch := range strings.Split(w, "") {
						out += "<li>" + ch + "</li>"
					}
					return out + "</ul>"
				}
				if objs[a].expr == "'ab'" || objs[b].expr == "'ab'" {
					continue // bytes of a string print as numbers: covered by the matrix above
				}
				for _, order := range [][]string{{"a.html", "b.html", "a.html"}, {"b.html", "a.html", "b.html"}} {
					rc0 := &renderCase{Files: files, Tpl: order[0], Data: data}
					m, lerr, pp := implLoad(rc0, nil)
					if lerr != nil || pp != nil {
						res.SelfTest = append(res.SelfTest, "C04 twin files do not load")
						break
					}
					for step, name := range order {
						want := wantOf(objs[a].want)
						if name == "b.html" {
							want = wantOf(objs[b].want)
						}
						d, _, _ := rc0.goData(&callLog{})
						out := implExec(m, name, d, &callLog{}, -1, renderOut{Load: "ok"})
						res.S3Checked++
						res.count("same_position_range_cases")
						if out.St != "ok" || out.text() != want {
							res.violate(J{"files": files, "order": order, "step": step + 1, "tpl": name}, want, J{"st": out.St, "out": out.text(), "err": trunc(out.Err, 120)},
								"a range at the same source position in another file of the same manager iterates the wrong collection")
						}
					}
				}
				for _, name := range []string{"a.html", "b.html"} {
					rc := &renderCase{Files: files, Tpl: name, Data: data}
					if _, _, err := compareRender(c, rc, true); err != nil {
						return err
					}
					res.eval(caseKey(rc), true, J{"files": files, "tpl": name})
				}
			}
		}
	}
	// known finding F20: a header-less object expression containing ':' is split at that colon
	for _, src := range []string{`<i :range="ints[1:]" :text="x">o</i>`, `<i :range="t ? ints : one" :text="x">o</i>`} {
		rc := &renderCase{Files: [][2]string{{"t", src}}, Tpl: "t", Data: vMap(kv{"ints", vIntSlice(4, 5)}, kv{"one", vIntSlice(9)}, kv{"t", vBool(true)}).j, Sig: []string{"headerless-object-with-colon"}}
		impl := implRender(rc, -1)
		res.eval(src, true, J{"tpl": src})
		res.S3Checked++
		want := map[string]string{`<i :range="ints[1:]" :text="x">o</i>`: "<i>x</i>", `<i :range="t ? ints : one" :text="x">o</i>`: "<i>x</i><i>x</i>"}[src]
		if impl.St != "ok" || impl.text() != want {
			res.violate(rc.toJ(), want, J{"st": impl.St, "out": impl.text(), "err": trunc(impl.Err, 120)}, "header-less range whose object expression contains ':'")
		}
	}
	// generated templates with at least one range, judged against the specification
	gn := c.n(500, 30000)
	for i := 0; i < gn; i++ {
		rc, st := genRenderCase(r, false)
		has := false
		for _, f := range rc.Files {
			if strings.Contains(f[1], "range=") {
				has = true
			}
		}
		if !has {
			continue
		}
		addStats(res, st)
		impl, _, err := compareRender(c, rc, true)
		if err != nil {
			return err
		}
		res.eval(caseKey(rc), impl.Load == "ok", J{"files": rc.Files})
	}
	return nil
}

func treeData() val {
	leaf := func(n string) val { return vMap(kv{"name", vStr(n)}, kv{"kids", vAnySlice()}) }
	return vAnySlice(vMap(kv{"name", vStr("a")}, kv{"kids", vAnySlice(leaf("a1"), vMap(kv{"name", vStr("a2")}, kv{"kids", vAnySlice(leaf("a2x"))}))}), leaf("b"))
}
