package main

import (
	"strings"
)

// ---------- generator of markup token sequences with an independent position oracle ----------

type gAttr struct {
	Name   string
	Value  *string // printed value including quotes; nil = no value
	NS, NE int     // rune offsets of the name in the printed document
	VS, VE int     // rune offsets of the value
}

type gTok struct {
	Kind  int // 1 tag 2 text 3 comment 4 cdata
	Value string
	Name  string // tag name as the scanner reports it
	Attrs []gAttr
	S, E  int // rune offsets
}

type htmlGen struct {
	r        *rng
	textTags []string
	out      []rune
	toks     []gTok
	wide     bool // allow runs of several blanks between the parts of a tag
}

// ("block" without the tag prefix is an ordinary element; so are names that merely start or end like a directive tag)
var gTagNames = []string{"p", "div", "span", "a", "ul", "li", "b", "h1", "x-y", "tr", "P", "Div", "é", "br", "img", "input", "meta", "BR", "Img", "INPUT", "Meta", "!DOCTYPE", "!doctype",
	"block", "Block", "BLOCK", "blockquote", "tblock", "t", "template"}
// (the directive keywords WITHOUT the directive prefix are ordinary attributes: a tag carrying them is still directive-free)
var gAttrNames = []string{"id", "class", "href", "title", "data-x", "hidden", "a", "b", "x:y", "A", "é", "on_click", "v-if", "@x",
	"if", "with", "else", "range", "remove", "text", "raw", "elif", "else-if", "define", "insert", "replace", "is"}
var gTextRunes = []string{"a", "b", " ", "  ", "\n", "\t", "é", "✓", "\U0001F600", "&amp;", "&", ">", "\"", "'", "=", "/", "-", "!", "]", " ", " ", "　", "0", "x y"}

func (g *htmlGen) emit(s string) (int, int) {
	st := len(g.out)
	g.out = append(g.out, []rune(s)...)
	return st, len(g.out)
}

func (g *htmlGen) ws(min1 bool) string {
	r := g.r
	if !g.wide || r.p(70) {
		if min1 {
			return " "
		}
		return ""
	}
	return r.pick([]string{" ", "  ", "\n", "\t", " \n ", " ", "　 "})
}

func (g *htmlGen) text() string {
	r := g.r
	var sb strings.Builder
	n := 1 + r.n(5)
	for i := 0; i < n; i++ {
		sb.WriteString(r.pick(gTextRunes))
	}
	return sb.String()
}

func (g *htmlGen) attrValue() string {
	r := g.r
	switch r.n(6) {
	case 0: // unquoted
		return r.pick([]string{"x", "1", "a/b", "é", "a=b", "x'y", "x\"y", "/", "a&b"})
	case 1:
		return "'" + strings.ReplaceAll(g.text(), "'", "") + "'"
	case 2:
		return "\"" + strings.ReplaceAll(g.text(), "\"", "") + "\""
	case 3:
		return "\"line1\nline2\t>\""
	case 4:
		return "\"\""
	}
	return "\"a > b < c\""
}

// tag prints an open/close/self-closing tag with 0..5 distinct attributes.
func (g *htmlGen) tag(name string, closing, selfClose bool) {
	r := g.r
	tk := gTok{Kind: 1, Name: name}
	st := len(g.out)
	g.emit("<")
	if closing {
		tk.Name = "/" + name
	}
	g.emit(tk.Name)
	na := 0
	if !closing {
		na = r.n(6)
		if r.p(40) {
			na = 0
		}
	}
	used := map[string]bool{}
	for i := 0; i < na; i++ {
		an := r.pick(gAttrNames)
		if used[an] {
			continue
		}
		used[an] = true
		g.emit(g.ws(true))
		if g.wide && r.p(10) {
			g.emit(" ")
		}
		a := gAttr{Name: an}
		a.NS, a.NE = g.emit(an)
		if r.p(65) {
			g.emit(g.ws(false))
			g.emit("=")
			g.emit(g.ws(false))
			v := g.attrValue()
			a.Value = &v
			a.VS, a.VE = g.emit(v)
			// an unquoted value must be followed by white space or '>' — the loop adds it
		}
		tk.Attrs = append(tk.Attrs, a)
	}
	emptyLast := false
	if !selfClose && !closing && r.p(8) {
		// "<p … b=>": an attribute whose value is empty, directly followed by the end of the tag
		an := "e" + r.pick([]string{"1", "2", "mpty"})
		if !used[an] {
			g.emit(g.ws(true))
			a := gAttr{Name: an}
			a.NS, a.NE = g.emit(an)
			g.emit("=")
			v := ""
			a.Value = &v
			a.VS, a.VE = len(g.out), len(g.out)
			tk.Attrs = append(tk.Attrs, a)
			emptyLast = true
		}
	}
	if selfClose {
		// "<name/>" when nothing else was printed, otherwise " />": the slash becomes part of the name / a new attribute
		if len(tk.Attrs) == 0 && r.p(50) {
			g.emit("/")
			tk.Name += "/"
		} else {
			g.emit(" ")
			a := gAttr{Name: "/"}
			a.NS, a.NE = g.emit("/")
			tk.Attrs = append(tk.Attrs, a)
		}
	} else {
		last := len(tk.Attrs) - 1
		if last >= 0 && tk.Attrs[last].Value != nil && !strings.HasPrefix(*tk.Attrs[last].Value, "\"") && !strings.HasPrefix(*tk.Attrs[last].Value, "'") && strings.HasSuffix(*tk.Attrs[last].Value, "/") {
			g.emit(" ") // keep an unquoted value ending in '/' from being read as self-closing… it is part of the value anyway
		}
		if !emptyLast {
			g.emit(g.ws(false))
		}
	}
	g.emit(">")
	tk.S, tk.E = st, len(g.out)
	tk.Value = string(g.out[st:])
	g.toks = append(g.toks, tk)
}

func (g *htmlGen) plain(kind int, s string) {
	st, en := g.emit(s)
	g.toks = append(g.toks, gTok{Kind: kind, Value: s, S: st, E: en})
}

// rawElement prints <script …>content</script > with hostile content.
func (g *htmlGen) rawElement() {
	r := g.r
	name := r.pick(g.textTags)
	if r.p(20) {
		name = strings.ToUpper(name[:1]) + name[1:]
	}
	g.tag(name, false, false)
	low := strings.ToLower(name)
	parts := []string{"x", " ", "a<b", "<", "<b", "</", "</" + low[:1], "</" + low[:len(low)-1], "</" + low + " x", "if (a<b && c>d) {}", "\n", "é", "<!-- c -->", "</p>", "<<", "</" + low + "x>"}
	var sb strings.Builder
	for n := r.n(5); n > 0; n-- {
		sb.WriteString(r.pick(parts))
	}
	content := sb.String()
	if content != "" {
		g.plain(2, content)
	}
	closeName := low
	if r.p(25) {
		closeName = strings.ToUpper(low)
	} else if r.p(15) {
		closeName = strings.ToUpper(low[:1]) + low[1:]
	}
	st := len(g.out)
	g.emit("</" + closeName)
	if r.p(30) {
		g.emit(r.pick([]string{" ", "\n", "\t "}))
	}
	g.emit(">")
	// the end tag is recognised case-insensitively and reported with the name AS WRITTEN
	g.toks = append(g.toks, gTok{Kind: 1, Name: "/" + closeName, Value: string(g.out[st:]), S: st, E: len(g.out)})
}

// doc generates a whole document; returns source and expected tokens.
func genHTMLDoc(r *rng, textTags []string, wide bool) (string, []gTok) {
	g := &htmlGen{r: r, textTags: textTags, wide: wide}
	n := 1 + r.n(8)
	lastText := false
	// a byte order mark (or other invisible characters) in front of the first tag is text like any other
	if r.p(8) {
		g.plain(2, r.pick([]string{"\uFEFF", "\uFEFF\n", "\u200B", "\uFEFF\uFEFF ", "\u2060x"}))
		lastText = true
	}
	for i := 0; i < n; i++ {
		k := r.n(12)
		if k <= 2 && !lastText {
			t := g.text()
			t = strings.ReplaceAll(t, "<", "")
			if t != "" {
				g.plain(2, t)
				lastText = true
				continue
			}
		}
		lastText = false
		switch {
		case k <= 5:
			g.tag(r.pick(gTagNames), false, false)
		case k == 6:
			g.tag(r.pick(gTagNames), true, false)
		case k == 7:
			g.tag(r.pick(gTagNames), false, true)
		case k == 8:
			c := strings.NewReplacer("--", "- -", ">", ")", "<", "(", "!", ".").Replace(g.text())
			if strings.HasSuffix(c, "-") {
				c += " "
			}
			if r.p(25) {
				// only HALF of the hidden-comment marker: an ordinary comment, reproduced like any other
				c = r.pick([]string{"/* x", "x */", "/*", "*/", " /* a */ b", "a /* b */", "/* (c) ACME */ generated", "copy static/*/ to dist/*/"})
			}
			g.plain(3, "<!--"+c+"-->")
		case k == 9:
			c := strings.ReplaceAll(g.text()+r.pick([]string{"", ">", "<b>", "]"}), "]]>", "]] >")
			if strings.HasSuffix(c, "]]") { // "]]" + "]]>" would close the section one character early
				c += " "
			}
			g.plain(4, "<![CDATA["+c+"]]>")
		case k == 10:
			g.tag("!DOCTYPE", false, false)
		default:
			if len(textTags) > 0 {
				g.rawElement()
			} else {
				g.tag(r.pick(gTagNames), false, false)
			}
		}
	}
	return string(g.out), g.toks
}

// posAt computes line/column after the first n runes (tab = 4 columns; newline starts a new line).
func posAt(rs []rune, n int) [2]int {
	line, col := 1, 1
	for _, c := range rs[:n] {
		switch c {
		case '\n':
			line++
			col = 1
		case '\t':
			col += 4
		default:
			col++
		}
	}
	return [2]int{line, col}
}
