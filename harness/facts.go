package main

import (
	"flag"
	"fmt"
	"go/ast"
	"go/parser"
	"go/printer"
	"go/token"
	"os"
	"path/filepath"
	"regexp"
	"sort"
	"strconv"
	"strings"
)

// Fact translator: re-extracts tables and structural facts from the Go sources of the working tree and writes
// them as a Lean module (TplModel/Generated/Facts.lean). The model imports the tables; Props/*.lean state
// `decide`-style obligations over them, so they are re-proved against what the code says now on every run.

func factsMain(args []string) error {
	fs := flag.NewFlagSet("facts", flag.ExitOnError)
	repo := fs.String("repo", "/repo", "repository root")
	out := fs.String("out", "", "output Lean file")
	fs.Parse(args)
	var sb strings.Builder
	sb.WriteString("/-! GENERATED on every run by `harness facts` from the Go sources of the working tree. Do not edit. -/\n")
	sb.WriteString("namespace Facts\n\n")

	fset := token.NewFileSet()
	parse := func(rel string) (*ast.File, error) {
		return parser.ParseFile(fset, filepath.Join(*repo, rel), nil, parser.ParseComments)
	}

	// ---- html/consts.go: string constants and the two default lists
	consts := map[string]string{}
	cf, err := parse("html/consts.go")
	if err != nil {
		return err
	}
	lists := map[string][]string{}
	for _, d := range cf.Decls {
		switch g := d.(type) {
		case *ast.GenDecl:
			if g.Tok != token.CONST {
				continue
			}
			for _, sp := range g.Specs {
				vs := sp.(*ast.ValueSpec)
				for i, n := range vs.Names {
					if i < len(vs.Values) {
						if bl, ok := vs.Values[i].(*ast.BasicLit); ok && bl.Kind == token.STRING {
							s, _ := strconv.Unquote(bl.Value)
							consts[n.Name] = s
						}
					}
				}
			}
		case *ast.FuncDecl:
			ast.Inspect(g, func(n ast.Node) bool {
				if cl, ok := n.(*ast.CompositeLit); ok {
					var xs []string
					for _, e := range cl.Elts {
						if bl, ok := e.(*ast.BasicLit); ok && bl.Kind == token.STRING {
							s, _ := strconv.Unquote(bl.Value)
							xs = append(xs, s)
						}
					}
					lists[g.Name.Name] = xs
				}
				return true
			})
		}
	}
	leanStr := func(s string) string { return strconv.Quote(s) }
	leanList := func(xs []string) string {
		qs := make([]string, len(xs))
		for i, x := range xs {
			qs[i] = leanStr(x)
		}
		return "[" + strings.Join(qs, ", ") + "]"
	}
	names := []string{}
	for k := range consts {
		names = append(names, k)
	}
	sort.Strings(names)
	sb.WriteString("/-- string constants of html/consts.go -/\ndef consts : List (String × String) := [\n")
	for i, k := range names {
		sep := ","
		if i == len(names)-1 {
			sep = ""
		}
		fmt.Fprintf(&sb, "  (%s, %s)%s\n", leanStr(k), leanStr(consts[k]), sep)
	}
	sb.WriteString("]\n\n")
	fmt.Fprintf(&sb, "def defaultTextTags : List String := %s\n", leanList(lists["GetDefaultTextTags"]))
	fmt.Fprintf(&sb, "def defaultVoidElements : List String := %s\n\n", leanList(lists["GetDefaultVoidElements"]))

	// ---- html/tag.go: the weight table of SortedAttr
	tf, err := parse("html/tag.go")
	if err != nil {
		return err
	}
	type kw struct {
		k string
		w int
	}
	var weights []kw
	tagMutex := false
	for _, d := range tf.Decls {
		if gd, ok := d.(*ast.GenDecl); ok && gd.Tok == token.TYPE {
			for _, sp := range gd.Specs {
				ts := sp.(*ast.TypeSpec)
				if st, ok := ts.Type.(*ast.StructType); ok && ts.Name.Name == "Tag" {
					for _, f := range st.Fields.List {
						if se, ok := f.Type.(*ast.SelectorExpr); ok {
							if id, ok := se.X.(*ast.Ident); ok && id.Name == "sync" {
								tagMutex = true
							}
						}
					}
				}
			}
		}
		fd, ok := d.(*ast.FuncDecl)
		if !ok || fd.Name.Name != "SortedAttr" {
			continue
		}
		ast.Inspect(fd, func(n ast.Node) bool {
			cl, ok := n.(*ast.CompositeLit)
			if !ok {
				return true
			}
			if _, ok := cl.Type.(*ast.MapType); !ok {
				return true
			}
			for _, e := range cl.Elts {
				kv := e.(*ast.KeyValueExpr)
				key := ""
				switch k := kv.Key.(type) {
				case *ast.Ident:
					key = consts[k.Name]
				case *ast.BasicLit:
					key, _ = strconv.Unquote(k.Value)
				}
				w := 0
				switch v := kv.Value.(type) {
				case *ast.UnaryExpr:
					if bl, ok := v.X.(*ast.BasicLit); ok {
						w, _ = strconv.Atoi(bl.Value)
						if v.Op == token.SUB {
							w = -w
						}
					}
				case *ast.BasicLit:
					w, _ = strconv.Atoi(v.Value)
				}
				weights = append(weights, kw{key, w})
			}
			return false
		})
	}
	sb.WriteString("/-- weight table of (*Tag).SortedAttr (html/tag.go); directives not listed weigh 0 -/\ndef attrWeights : List (String × Int) := [")
	for i, e := range weights {
		if i > 0 {
			sb.WriteString(", ")
		}
		fmt.Fprintf(&sb, "(%s, %d)", leanStr(e.k), e.w)
	}
	sb.WriteString("]\n")
	fmt.Fprintf(&sb, "/-- the lazy caches of Tag are guarded by a sync primitive -/\ndef tagHasSyncField : Bool := %v\n\n", tagMutex)

	// ---- exp/scope.go: names of the built-in default scope
	sf, err := parse("exp/scope.go")
	if err != nil {
		return err
	}
	var builtins []string
	ast.Inspect(sf, func(n ast.Node) bool {
		vs, ok := n.(*ast.ValueSpec)
		if !ok || len(vs.Names) == 0 || vs.Names[0].Name != "defaultScope" {
			return true
		}
		ast.Inspect(vs, func(m ast.Node) bool {
			if cl, ok := m.(*ast.CompositeLit); ok {
				if _, ok := cl.Type.(*ast.MapType); ok {
					for _, e := range cl.Elts {
						if kv, ok := e.(*ast.KeyValueExpr); ok {
							if bl, ok := kv.Key.(*ast.BasicLit); ok {
								s, _ := strconv.Unquote(bl.Value)
								builtins = append(builtins, s)
							}
						}
					}
					return false
				}
			}
			return true
		})
		return false
	})
	fmt.Fprintf(&sb, "/-- keys of the built-in default scope (exp/scope.go) -/\ndef builtinNames : List String := %s\n\n", leanList(builtins))

	// ---- generated parser: precedence predicates, right-operand levels and operator sets of `expression`
	pbs, err := os.ReadFile(filepath.Join(*repo, "exp/parser/goexpression_parser.go"))
	if err != nil {
		return err
	}
	psrc := string(pbs)
	tokNum := map[string]int{}
	for _, m := range regexp.MustCompile(`(?m)^\s*GoExpression([A-Za-z_]+)\s*=\s*(\d+)\s*$`).FindAllStringSubmatch(psrc, -1) {
		n, _ := strconv.Atoi(m[2])
		if !strings.HasPrefix(m[1], "RULE_") {
			tokNum[m[1]] = n
		}
	}
	var litNames []string
	if i := strings.Index(psrc, "staticData.LiteralNames = []string{"); i >= 0 {
		j := strings.Index(psrc[i:], "\n\t}")
		for _, m := range regexp.MustCompile(`"((?:[^"\\]|\\.)*)"`).FindAllStringSubmatch(psrc[i:i+j], -1) {
			s, _ := strconv.Unquote(`"` + m[1] + `"`)
			litNames = append(litNames, strings.Trim(s, "'"))
		}
	}
	litOf := func(n int) string {
		if n >= 0 && n < len(litNames) {
			return litNames[n]
		}
		return "?"
	}
	start := strings.Index(psrc, "func (p *GoExpression) expression(_p int)")
	end := strings.Index(psrc[start:], "\nfunc (p *GoExpression) ") // next method… the first hit is itself
	body := psrc[start:]
	if k := strings.Index(body[10:], "\nfunc "); k >= 0 {
		body = body[:10+k]
	}
	_ = end
	reEvent := regexp.MustCompile(`Precpred\(p\.GetParserRuleContext\(\), (\d+)\)\) \{|p\.expression\((\d+)\)|\(int64\(\(_la-(\d+)\)\) & \^0x3f\) == 0 && \(\(int64\(1\)<<\(_la-\d+\)\)&(\d+)\) != 0|p\.Match\(GoExpression([A-Za-z_]+)\)|case (GoExpression[A-Za-z_, ]+):|\(int64\(_la\) & \^0x3f\) == 0 && \(\(int64\(1\)<<_la\)&(-?\d+)\) != 0`)
	type alt struct {
		pred int
		ops  []string
		rhs  []int
	}
	var alts []alt
	var unaryOps []string
	unaryRhs := -1
	var cur *alt
	decode := func(base int, mask uint64) []string {
		var xs []string
		for b := 0; b < 64; b++ {
			if mask&(1<<uint(b)) != 0 {
				xs = append(xs, litOf(base+b))
			}
		}
		return xs
	}
	for _, m := range reEvent.FindAllStringSubmatch(body, -1) {
		switch {
		case m[1] != "":
			n, _ := strconv.Atoi(m[1])
			alts = append(alts, alt{pred: n})
			cur = &alts[len(alts)-1]
		case m[2] != "":
			n, _ := strconv.Atoi(m[2])
			if cur == nil {
				unaryRhs = n
			} else {
				cur.rhs = append(cur.rhs, n)
			}
		case m[3] != "":
			base, _ := strconv.Atoi(m[3])
			mask, _ := strconv.ParseUint(m[4], 10, 64)
			if cur == nil {
				unaryOps = decode(base, mask)
			} else {
				cur.ops = append(cur.ops, decode(base, mask)...)
			}
		case m[5] != "":
			if cur != nil {
				cur.ops = append(cur.ops, litOf(tokNum[m[5]]))
			}
		case m[7] != "":
			mi, _ := strconv.ParseInt(m[7], 10, 64)
			if cur == nil {
				unaryOps = decode(0, uint64(mi))
			} else {
				cur.ops = append(cur.ops, decode(0, uint64(mi))...)
			}
		}
	}
	sb.WriteString("/-- alternatives of the left-recursive rule `expression` in the generated parser, in order:\n    (Precpred level, operator tokens matched, levels of the recursive calls that follow) -/\n")
	sb.WriteString("def exprAlts : List (Nat × List String × List Nat) := [\n")
	for i, a := range alts {
		rs := make([]string, len(a.rhs))
		for j, r := range a.rhs {
			rs[j] = strconv.Itoa(r)
		}
		sep := ","
		if i == len(alts)-1 {
			sep = ""
		}
		fmt.Fprintf(&sb, "  (%d, %s, [%s])%s\n", a.pred, leanList(a.ops), strings.Join(rs, ", "), sep)
	}
	sb.WriteString("]\n")
	fmt.Fprintf(&sb, "def unaryOps : List String := %s\ndef unaryOperandLevel : Nat := %d\n\n", leanList(unaryOps), unaryRhs)

	// ---- explicit panic / recover sites per function (non-generated packages)
	type site struct{ file, fn string }
	var panics, recovers []site
	for _, dir := range []string{"html", "exp", "."} {
		files, _ := filepath.Glob(filepath.Join(*repo, dir, "*.go"))
		sort.Strings(files)
		for _, f := range files {
			if strings.HasSuffix(f, "_test.go") {
				continue
			}
			af, err := parser.ParseFile(fset, f, nil, 0)
			if err != nil {
				return err
			}
			rel, _ := filepath.Rel(*repo, f)
			for _, d := range af.Decls {
				fd, ok := d.(*ast.FuncDecl)
				if !ok || fd.Body == nil {
					continue
				}
				name := fd.Name.Name
				if fd.Recv != nil && len(fd.Recv.List) > 0 {
					t := fd.Recv.List[0].Type
					if st, ok := t.(*ast.StarExpr); ok {
						t = st.X
					}
					if id, ok := t.(*ast.Ident); ok {
						name = id.Name + "." + name
					}
				}
				np, nr := 0, 0
				ast.Inspect(fd.Body, func(n ast.Node) bool {
					if ce, ok := n.(*ast.CallExpr); ok {
						if id, ok := ce.Fun.(*ast.Ident); ok {
							if id.Name == "panic" {
								np++
							}
							if id.Name == "recover" {
								nr++
							}
						}
					}
					return true
				})
				if np > 0 {
					panics = append(panics, site{rel, name})
				}
				if nr > 0 {
					recovers = append(recovers, site{rel, name})
				}
			}
		}
	}
	writeSites := func(name, doc string, xs []site) {
		fmt.Fprintf(&sb, "/-- %s -/\ndef %s : List (String × String) := [", doc, name)
		for i, s := range xs {
			if i > 0 {
				sb.WriteString(", ")
			}
			fmt.Fprintf(&sb, "(%s, %s)", leanStr(s.file), leanStr(s.fn))
		}
		sb.WriteString("]\n")
	}
	writeSites("panicFuncs", "functions of html/, exp/ and the root package that contain an explicit panic( call", panics)
	writeSites("recoverFuncs", "functions that contain a recover() call", recovers)

	// ---- render.go: is the manager field of htmlRender accessed under a lock / atomic?
	rf, err := parse("render.go")
	if err != nil {
		return err
	}
	renderSync := false
	closeCalls := 0
	ast.Inspect(rf, func(n ast.Node) bool {
		if se, ok := n.(*ast.SelectorExpr); ok {
			if id, ok := se.X.(*ast.Ident); ok && (id.Name == "sync" || id.Name == "atomic") {
				renderSync = true
			}
		}
		return true
	})
	mf, err := parse("html/manager.go")
	if err != nil {
		return err
	}
	ast.Inspect(mf, func(n ast.Node) bool {
		if ce, ok := n.(*ast.CallExpr); ok {
			if se, ok := ce.Fun.(*ast.SelectorExpr); ok && se.Sel.Name == "Close" {
				closeCalls++
			}
		}
		return true
	})
	fmt.Fprintf(&sb, "\n/-- render.go uses a sync/atomic primitive (the manager field is shared between Reload and requests) -/\ndef renderUsesSync : Bool := %v\n", renderSync)
	fmt.Fprintf(&sb, "/-- number of Close() calls in html/manager.go (files opened by Parse must be closed) -/\ndef managerCloseCalls : Nat := %d\n", closeCalls)
	// ---- html/scan_base.go: how many columns a tab advances (NextRune) and gives back (UnRead)
	bf, err := parse("html/scan_base.go")
	if err != nil {
		return err
	}
	tabDelta := func(fn string) (int, bool) {
		found, val := false, 0
		for _, d := range bf.Decls {
			fd, ok := d.(*ast.FuncDecl)
			if !ok || fd.Name.Name != fn {
				continue
			}
			ast.Inspect(fd, func(n ast.Node) bool {
				is, ok := n.(*ast.IfStmt)
				if !ok {
					return true
				}
				be, ok := is.Cond.(*ast.BinaryExpr)
				if !ok || be.Op != token.EQL {
					return true
				}
				if bl, ok := be.Y.(*ast.BasicLit); !ok || bl.Value != `'\t'` {
					return true
				}
				for _, st := range is.Body.List {
					if as, ok := st.(*ast.AssignStmt); ok && len(as.Rhs) == 1 && (as.Tok == token.ADD_ASSIGN || as.Tok == token.SUB_ASSIGN) {
						if bl, ok := as.Rhs[0].(*ast.BasicLit); ok {
							v, _ := strconv.Atoi(bl.Value)
							if as.Tok == token.SUB_ASSIGN {
								v = -v
							}
							found, val = true, v
						}
					}
				}
				return true
			})
		}
		return val, found
	}
	adv, ok1 := tabDelta("NextRune")
	unr, ok2 := tabDelta("UnRead")
	fmt.Fprintf(&sb, "\n/-- html/scan_base.go: column delta of a tab in NextRune and in UnRead (0 = the tab case was not found) -/\ndef tabAdvance : Int := %d\ndef tabUnread : Int := %d\n", map[bool]int{true: adv}[ok1], map[bool]int{true: unr}[ok2])

	// ---- html/template.go: the bound on fragment nesting
	tpf, err := parse("html/template.go")
	if err != nil {
		return err
	}
	maxDepth := 0
	ast.Inspect(tpf, func(n ast.Node) bool {
		if vs, ok := n.(*ast.ValueSpec); ok && len(vs.Names) == 1 && vs.Names[0].Name == "maxFragmentDepth" && len(vs.Values) == 1 {
			if bl, ok := vs.Values[0].(*ast.BasicLit); ok {
				maxDepth, _ = strconv.Atoi(bl.Value)
			}
		}
		return true
	})
	fmt.Fprintf(&sb, "/-- html/template.go: const maxFragmentDepth (0 = not found) -/\ndef maxFragmentDepth : Nat := %d\n", maxDepth)

	// ---- exp/visitor.go: the type switches of IsInt / IsFloat: (Go type, what is returned for it)
	vf, err := parse("exp/visitor.go")
	if err != nil {
		return err
	}
	kindCases := func(fn string) string {
		var items []string
		for _, d := range vf.Decls {
			fd, ok := d.(*ast.FuncDecl)
			if !ok || fd.Name.Name != fn || fd.Recv != nil {
				continue
			}
			ast.Inspect(fd, func(n ast.Node) bool {
				cc, ok := n.(*ast.CaseClause)
				if !ok {
					return true
				}
				ret := "?"
				for _, st := range cc.Body {
					if rs, ok := st.(*ast.ReturnStmt); ok {
						var parts []string
						for _, r := range rs.Results {
							var b strings.Builder
							printer.Fprint(&b, fset, r)
							parts = append(parts, b.String())
						}
						ret = strings.Join(parts, ", ")
					}
				}
				if len(cc.Body) != 1 {
					ret = fmt.Sprintf("(%d statements) ", len(cc.Body)) + ret
				}
				for _, e := range cc.List {
					var b strings.Builder
					printer.Fprint(&b, fset, e)
					items = append(items, fmt.Sprintf("(%s, %s)", leanStr(b.String()), leanStr(ret)))
				}
				return true
			})
		}
		return "[" + strings.Join(items, ", ") + "]"
	}
	fmt.Fprintf(&sb, "/-- exp/visitor.go IsInt: every case of the type switch with the expression it returns -/\ndef isIntCases : List (String × String) := %s\n", kindCases("IsInt"))
	fmt.Fprintf(&sb, "/-- exp/visitor.go IsFloat: every case of the type switch with the expression it returns -/\ndef isFloatCases : List (String × String) := %s\n", kindCases("IsFloat"))

	// ---- html/scan_code.go: the characters that open a string literal inside a ${} block (the case that calls scanString)
	cf2, err := parse("html/scan_code.go")
	if err != nil {
		return err
	}
	var strOpeners []string
	ast.Inspect(cf2, func(n ast.Node) bool {
		cc, ok := n.(*ast.CaseClause)
		if !ok {
			return true
		}
		calls := false
		for _, st := range cc.Body {
			ast.Inspect(st, func(m ast.Node) bool {
				if ce, ok := m.(*ast.CallExpr); ok {
					if se, ok := ce.Fun.(*ast.SelectorExpr); ok && se.Sel.Name == "scanString" {
						calls = true
					}
				}
				return true
			})
		}
		if calls {
			for _, e := range cc.List {
				if bl, ok := e.(*ast.BasicLit); ok && bl.Kind == token.CHAR {
					if r, _, _, err := strconv.UnquoteChar(bl.Value[1:len(bl.Value)-1], '\''); err == nil {
						strOpeners = append(strOpeners, string(r))
					}
				}
			}
		}
		return true
	})
	fmt.Fprintf(&sb, "/-- html/scan_code.go: characters that open a string literal inside a block -/\ndef blockStringOpeners : List String := %s\n", leanList(strOpeners))

	// ---- html/manager.go: the registry GetTemplate looks a name up in
	mf2, err := parse("html/manager.go")
	if err != nil {
		return err
	}
	lookupIn := "?"
	for _, d := range mf2.Decls {
		if fd, ok := d.(*ast.FuncDecl); ok && fd.Name.Name == "GetTemplate" && fd.Recv != nil {
			ast.Inspect(fd, func(n ast.Node) bool {
				if ie, ok := n.(*ast.IndexExpr); ok && lookupIn == "?" {
					if se, ok := ie.X.(*ast.SelectorExpr); ok {
						lookupIn = se.Sel.Name
					}
				}
				return true
			})
		}
	}
	fmt.Fprintf(&sb, "/-- html/manager.go: the field (*tplManager).GetTemplate indexes by name -/\ndef getTemplateLooksIn : String := %s\n", leanStr(lookupIn))

	// ---- process-wide mutable state: package-level variables and struct fields of type sync.Pool / sync.Map, and
	// package-level map variables other than the built-in scope, in the root package, html/ and exp/ (no test files)
	var shared []string
	for _, dir := range []string{".", "html", "exp"} {
		ents, _ := os.ReadDir(filepath.Join(*repo, dir))
		for _, e := range ents {
			if e.IsDir() || !strings.HasSuffix(e.Name(), ".go") || strings.HasSuffix(e.Name(), "_test.go") {
				continue
			}
			rel := filepath.Join(dir, e.Name())
			f, err := parse(rel)
			if err != nil {
				continue
			}
			isShared := func(t ast.Expr) string {
				if se, ok := t.(*ast.SelectorExpr); ok {
					if id, ok := se.X.(*ast.Ident); ok && id.Name == "sync" && (se.Sel.Name == "Pool" || se.Sel.Name == "Map") {
						return "sync." + se.Sel.Name
					}
				}
				return ""
			}
			for _, d := range f.Decls {
				gd, ok := d.(*ast.GenDecl)
				if !ok {
					continue
				}
				for _, sp := range gd.Specs {
					switch x := sp.(type) {
					case *ast.ValueSpec:
						if gd.Tok != token.VAR {
							continue
						}
						kind := ""
						mutableType := func(t ast.Expr) string {
							switch tt := t.(type) {
							case *ast.MapType:
								return "map"
							case *ast.ArrayType:
								return "slice"
							case *ast.SelectorExpr:
								if id, ok := tt.X.(*ast.Ident); ok {
									q := id.Name + "." + tt.Sel.Name
									switch q {
									case "bytes.Buffer", "strings.Builder", "sync.Mutex", "sync.RWMutex", "sync.Once", "atomic.Value", "atomic.Int64", "atomic.Int32", "atomic.Pointer":
										return q
									}
								}
							case *ast.StarExpr:
								return "pointer"
							}
							return ""
						}
						if x.Type != nil {
							kind = isShared(x.Type)
							if k := mutableType(x.Type); k != "" && kind == "" {
								kind = k
							}
						}
						for _, v := range x.Values {
							if cl, ok := v.(*ast.CompositeLit); ok {
								if k := isShared(cl.Type); k != "" {
									kind = k
								} else if k := mutableType(cl.Type); k != "" {
									kind = k
								} else if kind == "" {
									kind = "struct value"
								}
							}
							if ue, ok := v.(*ast.UnaryExpr); ok {
								if cl, ok := ue.X.(*ast.CompositeLit); ok {
									if k := isShared(cl.Type); k != "" {
										kind = k
									}
								}
							}
							if ce, ok := v.(*ast.CallExpr); ok {
								if id, ok := ce.Fun.(*ast.Ident); ok && (id.Name == "make" || id.Name == "new") && len(ce.Args) > 0 {
									kind = id.Name
									if k := mutableType(ce.Args[0]); k != "" {
										kind = k
									}
								}
							}
						}
						if kind != "" {
							for _, n := range x.Names {
								if n.Name == "_" || (kind == "pointer" && len(x.Values) == 0) {
									continue
								}
								shared = append(shared, filepath.ToSlash(rel)+": var "+n.Name+" "+kind)
							}
						}
					case *ast.TypeSpec:
						if st, ok := x.Type.(*ast.StructType); ok {
							for _, fl := range st.Fields.List {
								if k := isShared(fl.Type); k != "" {
									for _, n := range fl.Names {
										shared = append(shared, filepath.ToSlash(rel)+": field "+x.Name.Name+"."+n.Name+" "+k)
									}
								}
							}
						}
					}
				}
			}
		}
	}
	sort.Strings(shared)
	fmt.Fprintf(&sb, "/-- process-wide or manager-wide mutable state: package-level variables that are containers, buffers, locks, atomics or pointers to composite values, and struct fields of type sync.Pool / sync.Map -/\ndef sharedContainers : List String := %s\n", leanList(shared))

	// ---- every call of Combine(child, parent) in html/template.go and exp/scope.go: (enclosing function, head of the
	// child argument, the parent argument). Lookup is child first (C06): the parent must be the OUTER scope at every site.
	var combineSites []string
	for _, rel := range []string{"html/template.go", "exp/scope.go"} {
		f, err := parse(rel)
		if err != nil {
			return err
		}
		for _, d := range f.Decls {
			fd, ok := d.(*ast.FuncDecl)
			if !ok || fd.Name.Name == "Combine" {
				continue
			}
			ast.Inspect(fd, func(n ast.Node) bool {
				ce, ok := n.(*ast.CallExpr)
				if !ok || len(ce.Args) != 2 {
					return true
				}
				name := ""
				switch fn := ce.Fun.(type) {
				case *ast.Ident:
					name = fn.Name
				case *ast.SelectorExpr:
					name = fn.Sel.Name
				}
				if name != "Combine" {
					return true
				}
				var a, b strings.Builder
				printer.Fprint(&a, fset, ce.Args[0])
				printer.Fprint(&b, fset, ce.Args[1])
				head := a.String()
				if i := strings.IndexAny(head, "({"); i >= 0 {
					head = head[:i]
				}
				combineSites = append(combineSites, fmt.Sprintf("(%s, %s, %s)", leanStr(fd.Name.Name), leanStr(strings.TrimSpace(head)), leanStr(b.String())))
				return true
			})
		}
	}
	fmt.Fprintf(&sb, "/-- Combine(child, parent) call sites: (function, head of the child argument, parent argument) -/\ndef combineSites : List (String × String × String) := [%s]\n", strings.Join(combineSites, ", "))

	sb.WriteString("\nend Facts\n")
	return os.WriteFile(*out, []byte(sb.String()), 0o644)
}
