package main

import (
	"net"
	"time"
	"strconv"
	"fmt"
	"math"
	"math/big"
	"strings"
)

func init() { props["C11"] = propC11 }

type numOperand struct {
	v    val      // value placed in the data
	expr string   // how the expression refers to it
	big  *big.Float // exact numeric value
	desc string
}

// C11: comparison operators are mutually consistent across numeric kinds.
func propC11(c *ctx) error {
	res := c.res
	res.Rule = "ordered pairs drawn from all ten integer kinds, float32/float64, literals, len(), arithmetic results and conversion built-ins at boundary and random values (non-NaN, representable in int64/float64); strings, bools and nil for the ==/!= duality; distinct = distinct (operand pair); non-trivial = all"
	r := newRng(c.seed, "C11")
	bounds := []int64{0, 1, -1, 2, 7, 127, 128, -128, 255, 256, 32767, -32768, 65535, 2147483647, -2147483648, 4294967295, 1 << 53, (1 << 53) + 1, -(1 << 53) - 1, math.MaxInt64, math.MinInt64, 1 << 62, 100, 3}
	fbounds := []float64{0, 1, -1, 0.5, 2.5, 3, 1e10, -7.25, 9007199254740992, 9007199254740994, 1e18, 128, 255, 0.1}
	mkOperand := func(name string) numOperand {
		switch r.n(9) {
		case 0, 1, 2, 3: // integer kind variable
			k := intKinds[r.n(len(intKinds))]
			raw := bounds[r.n(len(bounds))]
			if r.p(30) {
				raw = int64(r.next() >> uint(r.n(60)))
			}
			v := vKind(k, raw)
			// keep to values representable in int64 (the property's domain)
			var bi int64
			switch x := v.g.(type) {
			case uint:
				if x > math.MaxInt64 {
					v = vKind(k, int64(x>>1))
				}
			case uint64:
				if x > math.MaxInt64 {
					v = vKind(k, int64(x>>1))
				}
			}
			fmt.Sscan(v.j.(J)["v"].(string), &bi)
			return numOperand{v, name, new(big.Float).SetPrec(200).SetInt64(bi), k}
		case 4: // float64 variable
			f := fbounds[r.n(len(fbounds))]
			return numOperand{vF64(f), name, new(big.Float).SetPrec(200).SetFloat64(f), "float64"}
		case 5: // float32 variable
			f := float32(fbounds[r.n(len(fbounds))])
			return numOperand{vF32(f), name, new(big.Float).SetPrec(200).SetFloat64(float64(f)), "float32"}
		case 6: // integer literal
			i := bounds[r.n(len(bounds))]
			if i == math.MinInt64 {
				i = 5
			}
			if i < 0 {
				return numOperand{vNil(), fmt.Sprintf("(-%d)", -i), new(big.Float).SetPrec(200).SetInt64(i), "literal"}
			}
			return numOperand{vNil(), fmt.Sprint(i), new(big.Float).SetPrec(200).SetInt64(i), "literal"}
		case 7: // len() of a slice
			n := r.n(4)
			xs := make([]int, n)
			return numOperand{vIntSlice(xs...), "len(" + name + ")", new(big.Float).SetPrec(200).SetInt64(int64(n)), "len"}
		default: // arithmetic result or conversion built-in over an int variable
			i := bounds[r.n(12)]
			if r.p(50) {
				return numOperand{vInt(int(i)), "(" + name + " + 0)", new(big.Float).SetPrec(200).SetInt64(i), "arith"}
			}
			k := r.pick([]string{"int", "int64", "int32", "uint16", "int8"})
			w := vKind(k, i)
			var bi int64
			fmt.Sscan(w.j.(J)["v"].(string), &bi)
			return numOperand{vInt(int(i)), k + "(" + name + ")", new(big.Float).SetPrec(200).SetInt64(bi), "conv:" + k}
		}
	}
	ops := []string{"<", "==", ">", "<=", ">=", "!="}
	evalPair := func(a, b numOperand, data val) (map[string]string, map[string]J, error) {
		got := map[string]string{}
		model := map[string]J{}
		for _, op := range ops {
			src := a.expr + " " + op + " " + b.expr
			out := implEvalStable(src, []any{data.g})
			got[op] = out.R + ":" + out.V
			if c.d != nil {
				m, err := c.d.ask(J{"op": "eval", "src": src, "data": data.j})
				if err != nil {
					return nil, nil, err
				}
				model[op] = m
				if sget(m, "r") == "unsupported" {
					res.S2Unsupported++
				} else {
					res.S2Compared++
					if sget(m, "r") != out.R || (out.R == "ok" && sget(m, "v") != out.V) {
						res.disagree(J{"src": src, "env": data.j}, J{"r": out.R, "v": out.V, "err": trunc(out.Err, 120)}, m, "eval")
					}
				}
			}
		}
		return got, model, nil
	}
	n := c.n(1500, 60000)
	for i := 0; i < n; i++ {
		a, b := mkOperand("a"), mkOperand("b")
		data := vMap(kv{"a", a.v}, kv{"b", b.v})
		got, _, err := evalPair(a, b, data)
		if err != nil {
			return err
		}
		res.count("kinds_" + a.desc + "_" + b.desc)
		res.eval(a.desc+a.big.String()+"|"+b.desc+b.big.String(), true, J{"a": a.expr, "b": b.expr, "data": data.j})
		// mixed int/float comparisons are specified through float64 conversion (C09); the exact ordering is the
		// reference only when both sides are exactly representable in the common type
		cmp := a.big.Cmp(b.big)
		isF := func(o numOperand) bool { return strings.HasPrefix(o.desc, "float") }
		if isF(a) != isF(b) {
			fa, _ := a.big.Float64()
			fb, _ := b.big.Float64()
			switch {
			case fa < fb:
				cmp = -1
			case fa > fb:
				cmp = 1
			default:
				cmp = 0
			}
		}
		want := map[string]bool{"<": cmp < 0, "==": cmp == 0, ">": cmp > 0, "<=": cmp <= 0, ">=": cmp >= 0, "!=": cmp != 0}
		res.S3Checked++
		for _, op := range ops {
			w := fmt.Sprintf("ok:bool:%v", want[op])
			if got[op] != w {
				res.violate(J{"src": a.expr + " " + op + " " + b.expr, "env": data.j, "a": a.desc, "b": b.desc}, w, got[op],
					"comparison of two numbers depends on the Go kinds carrying them / is inconsistent with the other comparisons")
				break
			}
		}
	}
	// integer / integer pairs beyond float64's exact range: neighbouring integers that round to the same float64 are
	// still different numbers — compared exactly, whatever kinds carry them, in variables, literals and arithmetic results
	{
		bigs := []uint64{1 << 53, 1<<53 + 1, 1<<53 + 2, 1<<62 - 1, 1 << 62, 1<<62 + 1, math.MaxInt64 - 2, math.MaxInt64 - 1, 9007199254740993, 1<<60 + 7} // (within int64: the engine computes in int64, as everywhere in this check)
		mk := func(v uint64, kind string, neg bool) (val, string, bool) {
			switch kind {
			case "int64":
				if v > math.MaxInt64 {
					return val{}, "", false
				}
				if neg {
					return vI64(-int64(v)), "", true
				}
				return vI64(int64(v)), "", true
			case "int":
				if v > math.MaxInt64 {
					return val{}, "", false
				}
				if neg {
					return vKind("int", -int64(v)), "", true
				}
				return vKind("int", int64(v)), "", true
			case "uint64":
				if neg {
					return val{}, "", false
				}
				return val{v, J{"i": "uint64", "v": strconv.FormatUint(v, 10)}}, "", true
			case "lit":
				if v > math.MaxInt64 || neg {
					return val{}, "", false
				}
				return val{}, strconv.FormatUint(v, 10), true
			}
			return val{}, "", false
		}
		for _, x := range bigs {
			for _, y := range []uint64{x, x + 1, x - 1, x + 2} {
				for _, neg := range []bool{false, true} {
					for _, ka := range []string{"int64", "int", "uint64", "lit"} {
						for _, kb := range []string{"int64", "uint64", "lit"} {
							va, la, ok1 := mk(x, ka, neg)
							vb, lb, ok2 := mk(y, kb, neg)
							if !ok1 || !ok2 || y > math.MaxInt64 {
								continue
							}
							ea, eb := "a", "b"
							if la != "" {
								ea = la
							}
							if lb != "" {
								eb = lb
							}
							kvs := []kv{}
							if la == "" {
								kvs = append(kvs, kv{"a", va})
							}
							if lb == "" {
								kvs = append(kvs, kv{"b", vb})
							}
							data := vMap(kvs...)
							cmp := 0
							switch {
							case x < y:
								cmp = -1
							case x > y:
								cmp = 1
							}
							if neg {
								cmp = -cmp
							}
							want := map[string]bool{"<": cmp < 0, "==": cmp == 0, ">": cmp > 0, "<=": cmp <= 0, ">=": cmp >= 0, "!=": cmp != 0}
							for _, op := range ops {
								src := ea + " " + op + " " + eb
								out := implEval(src, []any{data.g}, nil)
								res.eval("bigint|"+src+jstr(data.j), true, J{"src": src})
								res.S3Checked++
								res.count("big_integer_pairs")
								if w := fmt.Sprintf("bool:%v", want[op]); out.R != "ok" || out.V != w {
									res.violate(J{"src": src, "env": data.j, "a": ka, "b": kb}, w, out.R+":"+out.V+" "+trunc(out.Err, 80),
										"two integers beyond 2^53 are not compared exactly (equal-after-rounding is not equal)")
								}
								if c.d != nil && op == "==" {
									m, err := c.d.ask(J{"op": "eval", "src": src, "data": data.j})
									if err != nil {
										return err
									}
									if sget(m, "r") != "unsupported" {
										res.S2Compared++
										if sget(m, "r") != out.R || (out.R == "ok" && sget(m, "v") != out.V) {
											res.disagree(J{"src": src, "env": data.j}, J{"r": out.R, "v": out.V}, m, "eval")
										}
									}
								}
							}
						}
					}
				}
			}
		}
	}
	// mixed integer / float pairs at the edge of float64's exact range: the integer is converted to float64 (C09),
	// so the six comparisons must agree with each other and with float64(i) ⋈ f — for every kind carrying i
	edgeInts := []int64{1<<53 - 1, 1 << 53, 1<<53 + 1, 1<<53 + 2, 1<<53 + 3, -(1 << 53) - 1, 1<<62 + 1, math.MaxInt64, math.MaxInt64 - 1, math.MinInt64, math.MinInt64 + 1, 1<<24 + 1, 1 << 24}
	edgeFloats := []float64{1 << 53, 1<<53 + 2, -(1 << 53), 1 << 62, 9223372036854775808.0, -9223372036854775808.0, 1 << 24, 1<<24 + 2, 9223372036854774784.0}
	for _, i := range edgeInts {
		for _, f := range edgeFloats {
			for _, ik := range []string{"int", "int64", "uint64", "lit"} {
				for _, fk := range []string{"float64", "float32", "lit"} {
					if (ik == "uint64" && i < 0) || (ik == "lit" && i < 0) {
						continue
					}
					ff := f
					if fk == "float32" {
						ff = float64(float32(f))
					}
					if fk == "lit" && f < 0 {
						continue
					}
					intOp := func(name string) numOperand {
						if ik == "lit" {
							return numOperand{vNil(), fmt.Sprint(i), nil, "literal"}
						}
						return numOperand{vKind(ik, i), name, nil, ik}
					}
					fltOp := func(name string) numOperand {
						switch fk {
						case "float32":
							return numOperand{vF32(float32(f)), name, nil, fk}
						case "float64":
							return numOperand{vF64(f), name, nil, fk}
						}
						return numOperand{vNil(), fmt.Sprintf("%.1f", f), nil, "floatlit"}
					}
					for _, swap := range []bool{false, true} {
						x, y := intOp("a"), fltOp("b")
						fx, fy := float64(i), ff
						if swap {
							x, y = fltOp("a"), intOp("b")
							fx, fy = ff, float64(i)
						}
						data := vMap(kv{"a", x.v}, kv{"b", y.v})
						got, _, err := evalPair(x, y, data)
						if err != nil {
							return err
						}
						res.eval(fmt.Sprintf("edge|%d|%v|%s|%s|%v", i, f, ik, fk, swap), true, J{"a": x.expr, "b": y.expr, "data": data.j})
						want := map[string]bool{"<": fx < fy, "==": fx == fy, ">": fx > fy, "<=": fx <= fy, ">=": fx >= fy, "!=": fx != fy}
						res.S3Checked++
						for _, op := range ops {
							w := fmt.Sprintf("ok:bool:%v", want[op])
							if got[op] != w {
								res.violate(J{"src": x.expr + " " + op + " " + y.expr, "env": data.j, "a": x.desc, "b": y.desc}, w, got[op],
									"mixed integer/float comparison at the edge of float64 precision is inconsistent (the integer operand is converted to float64)")
								break
							}
						}
					}
				}
			}
		}
	}
	res.Distribution["edge_pairs"] = len(edgeInts) * len(edgeFloats)
	// zeros of either sign, carried by every kind: -0.0 and 0.0 (and the integer 0) are equal, neither is smaller
	{
		negz := math.Copysign(0, -1)
		zs := []numOperand{{vF64(negz), "a", nil, "float64 -0"}, {vF64(0), "a", nil, "float64 +0"}, {vF32(float32(negz)), "a", nil, "float32 -0"},
			{vInt(0), "a", nil, "int 0"}, {vNil(), "-0.0", nil, "literal -0.0"}, {vNil(), "0.0", nil, "literal 0.0"}, {vNil(), "-f", nil, "negated +0 variable"}, {vNil(), "f * -1", nil, "product"}}
		for _, x := range zs {
			for _, y := range zs {
				yy := y
				if yy.expr == "a" {
					yy.expr = "b"
				}
				data := vMap(kv{"a", x.v}, kv{"b", y.v}, kv{"f", vF64(0)})
				got, _, err := evalPair(x, yy, data)
				if err != nil {
					return err
				}
				res.eval("zero|"+x.desc+"|"+y.desc, true, J{"a": x.expr, "b": yy.expr})
				res.S3Checked++
				res.count("signed_zero_pairs")
				want := map[string]bool{"<": false, "==": true, ">": false, "<=": true, ">=": true, "!=": false}
				for _, op := range ops {
					ws := fmt.Sprintf("ok:bool:%v", want[op])
					if got[op] != ws {
						res.violate(J{"src": x.expr + " " + op + " " + yy.expr, "a": x.desc, "b": y.desc}, ws, got[op], "zeros of different sign or kind do not compare equal")
						break
					}
				}
			}
		}
	}
	// float32 against float64 around float32's rounding: a float32 operand stands for the float64 value it widens to
	// exactly, in == as in the ordering operators (0.1 as float32 is NOT 0.1)
	{
		seeds := []float64{0.1, 0.3, 1.0 / 3, 2.5, 16777217, 1e10, 3.4e38, -0.7, 1e-7, 100.01}
		for _, f := range seeds {
			f32 := float32(f)
			w := float64(f32) // what the float32 really holds
			cands := []float64{f, w, math.Nextafter(w, math.Inf(1)), math.Nextafter(w, math.Inf(-1))}
			for _, g := range cands {
				for _, form := range []string{"var", "lit"} {
					if form == "lit" && (g < 0 || g > 1e15 || g < 1e-4) {
						continue
					}
					for _, swap := range []bool{false, true} {
						x := numOperand{vF32(f32), "a", nil, "float32"}
						y := numOperand{vF64(g), "b", nil, "float64"}
						if form == "lit" {
							y = numOperand{vNil(), strconv.FormatFloat(g, 'f', -1, 64), nil, "floatlit"}
						}
						fx, fy := w, g
						if swap {
							x, y = y, x
							if x.expr == "b" {
								x.expr, y.expr = "b", "a"
							}
							fx, fy = g, w
						}
						data := vMap(kv{"a", vF32(f32)}, kv{"b", vF64(g)})
						got, _, err := evalPair(x, y, data)
						if err != nil {
							return err
						}
						res.eval(fmt.Sprintf("f32|%v|%v|%s|%v", f, g, form, swap), true, J{"a": x.expr, "b": y.expr, "data": data.j})
						want := map[string]bool{"<": fx < fy, "==": fx == fy, ">": fx > fy, "<=": fx <= fy, ">=": fx >= fy, "!=": fx != fy}
						res.S3Checked++
						res.count("float32_vs_float64_pairs")
						for _, op := range ops {
							ws := fmt.Sprintf("ok:bool:%v", want[op])
							if got[op] != ws {
								res.violate(J{"src": x.expr + " " + op + " " + y.expr, "env": data.j, "a": x.desc, "b": y.desc}, ws, got[op],
									"float32 against float64: the six comparisons are not those of the exactly widened values")
								break
							}
						}
					}
				}
			}
		}
	}
	// duality of == and != on non-numeric operands
	others := []val{vStr("a"), vStr(""), vStr("b"), vBool(true), vBool(false), vNil(), vInt(1), vF64(1), vStr("1"), vIntSlice(1), vMap(kv{"k", vInt(1)})}
	for _, x := range others {
		for _, y := range others {
			data := vMap(kv{"a", x}, kv{"b", y})
			e := implEval("a == b", []any{data.g}, nil)
			ne := implEval("a != b", []any{data.g}, nil)
			res.eval("dual|"+jstr(x.j)+jstr(y.j), true, J{"a": x.j, "b": y.j})
			res.S3Checked++
			if e.R == "ok" && ne.R == "ok" {
				if (e.V == "bool:true") == (ne.V == "bool:true") {
					res.violate(J{"src": "a == b / a != b", "env": data.j}, "!= is the negation of ==", e.V+" / "+ne.V, "a != b is not the negation of a == b")
				}
			} else if e.R != ne.R {
				res.violate(J{"src": "a == b / a != b", "env": data.j}, "both fail or both succeed", e.R+" / "+ne.R, "== and != disagree on whether the operands are comparable")
			}
			if c.d != nil {
				for _, src := range []string{"a == b", "a != b"} {
					m, err := c.d.ask(J{"op": "eval", "src": src, "data": data.j})
					if err != nil {
						return err
					}
					o := implEval(src, []any{data.g}, nil)
					if sget(m, "r") == "unsupported" {
						res.S2Unsupported++
						continue
					}
					res.S2Compared++
					if sget(m, "r") != o.R || (o.R == "ok" && sget(m, "v") != o.V) {
						res.disagree(J{"src": src, "env": data.j}, J{"r": o.R, "v": o.V}, m, "eval")
					}
				}
			}
		}
	}
	// the same duality on native values the model's value language does not have: typed nils of every nilable kind, non-nil
	// pointers / functions / channels, structs, arrays — against each other and against the nil literal on either side
	type nat struct {
		desc string
		g    any
	}
	var ip *int
	one := 1
	fn := func() int { return 1 }
	ch := make(chan int)
	nats := []nat{
		{"nil *S", (*S)(nil)}, {"nil *int", ip}, {"nil []int", []int(nil)}, {"nil map", map[string]int(nil)}, {"nil func", (func() int)(nil)},
		{"nil chan", (chan int)(nil)}, {"nil error iface", error(nil)}, {"nil []any", []any(nil)}, {"untyped nil", nil},
		{"*S", &S{A: 1}}, {"*int", &one}, {"empty []int", []int{}}, {"empty map", map[string]int{}}, {"func", fn}, {"chan", ch},
		{"S{}", S{}}, {"[2]int{}", [2]int{}}, {"int 0", 0}, {"string empty", ""}, {"false", false},
		// values of types that have an Equal method (the operators compare, they do not call it)
		{"time t0", c11t0}, {"time t0 again", c11t0.Add(0)}, {"time t1", c11t0.Add(time.Hour)}, {"time t0 UTC", c11t0.UTC()},
		{"eqT{1}", eqT{1}}, {"eqT{1} again", eqT{1}}, {"eqT{2}", eqT{2}}, {"*eqT", &eqT{1}}, {"net.IP", net.IP{1, 2, 3, 4}}, {"duration", time.Second},
	}
	dual := func(srcE, srcN string, data map[string]any, cs J) {
		e := implEval(srcE, []any{data}, nil)
		ne := implEval(srcN, []any{data}, nil)
		res.eval("dualnat|"+jstr(cs)+srcE, true, cs)
		res.S3Checked++
		res.count("dual_native_" + e.R)
		if e.R == "ok" && ne.R == "ok" {
			if (e.V == "bool:true") == (ne.V == "bool:true") {
				res.violate(J{"src": srcE + " / " + srcN, "native": cs}, "!= is the negation of ==", e.V+" / "+ne.V, "a != b is not the negation of a == b")
			}
		} else if e.R != ne.R {
			res.violate(J{"src": srcE + " / " + srcN, "native": cs}, "both fail or both succeed", e.R+" / "+ne.R, "== and != disagree on whether the operands are comparable")
		}
	}
	for _, x := range nats {
		for _, y := range nats {
			dual("a == b", "a != b", map[string]any{"a": x.g, "b": y.g}, J{"a": x.desc, "b": y.desc})
		}
		d := map[string]any{"a": x.g, "w": map[string]any{"f": x.g}, "xs": []any{x.g}}
		dual("a == nil", "a != nil", d, J{"a": x.desc, "b": "literal nil"})
		dual("nil == a", "nil != a", d, J{"a": "literal nil", "b": x.desc})
		dual("w.f == nil", "w.f != nil", d, J{"a": x.desc + " (map entry)", "b": "literal nil"})
		dual("xs[0] == nil", "xs[0] != nil", d, J{"a": x.desc + " (slice item)", "b": "literal nil"})
		dual("isNil(a) == true", "isNil(a) != true", d, J{"a": "isNil(" + x.desc + ")", "b": "true"})
	}
	return nil
}

var c11t0 = time.Date(2024, 5, 6, 7, 8, 9, 0, time.FixedZone("X", 3600))

// eqT has an Equal method that DISAGREES with ==: the operators must not consult it
type eqT struct{ n int }

func (a eqT) Equal(b eqT) bool { return true }
