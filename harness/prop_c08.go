package main

import (
	"fmt"
	"io/fs"
	"math"
	"os"
	"os/exec"
	"regexp"
	"runtime/debug"
	"strings"
	"testing/fstest"
	"unicode/utf8"

	"code.gopub.tech/tpl/exp"
	"code.gopub.tech/tpl/html"
)

func init() { props["C08"] = propC08 }

// types whose String methods misbehave (fmt protects %v; anything that calls String() directly would not)
type Str struct{ V string }

func (s *Str) String() string { return s.V } // panics on a nil receiver

type Boom struct{}

func (Boom) String() string { panic("boom in String") }

type Rec struct {
	Name string
	Next *Rec
	F    func(int) int
	Ch   []any
}

func hostileData(r *rng) any {
	boomFn := func() int { panic("user function panics") }
	errFn := func() (int, error) { return 0, errSentinel }
	two := func() (int, int) { return 1, 2 }
	three := func() (int, int, int) { return 1, 2, 3 }
	none := func() {}
	variadic := func(xs ...int) int { return len(xs) }
	rec := &Rec{Name: "r"}
	rec.Next = rec // cyclic data
	all := map[string]any{
		"nilstr": (*Str)(nil), "str": &Str{"ok"}, "boom": Boom{}, "boomp": &Boom{}, "rec": rec, "recv": *rec,
		"f": boomFn, "e": errFn, "two": two, "three": three, "none": none, "var": variadic, "nilf": (func() int)(nil),
		"nilmap": map[string]any(nil), "nilslice": []int(nil), "nilptr": (*S)(nil), "niliface": nil,
		"arr": [2]any{nil, 1}, "xs": []any{1, "a", nil, []int{1}}, "m": map[string]any{"k": 1, "f": boomFn},
		"imap": map[int]string{1: "a"}, "smap": map[string]map[string]int{"a": {"b": 1}}, "st": S{A: 1}, "ps": &S{A: 2},
		"i8": int8(-128), "u64": ^uint64(0), "min": int64(-1 << 63), "f32": float32(1.5), "c": complex(1, 2), "b": []byte("bytes"),
		"t": true, "s": "str", "a": 1, "zero": 0,
		// maps whose keys are not equal to themselves (NaN inside), keys of interface / pointer / struct / array type
		"nanmap": map[float64]int{math.NaN(): 1, 1: 2}, "nan32": map[float32]string{float32(math.NaN()): "x"}, "nanany": map[any]string{math.NaN(): "x", "k": "y", 1: "z"},
		"nanarr": map[[2]float64]int{{1, math.NaN()}: 1}, "nanc": map[complex128]int{complex(math.NaN(), 0): 1}, "nanst": map[struct{ F float64 }]int{{math.NaN()}: 1, {1}: 2},
		"ptrmap": map[*S]int{nil: 1, {A: 1}: 2}, "boolmap": map[bool]any{true: nil, false: boomFn}, "nan": math.NaN(), "inf": math.Inf(-1),
	}
	mm := map[string]int{"k1": 1, "k2": 2, "k3": 3, "k4": 4}
	all["mm"] = mm
	all["del"] = func() int { // a function that empties the map being ranged over
		for k := range mm {
			delete(mm, k)
		}
		return 0
	}
	all["grow"] = func() int {
		for i := 0; i < 64; i++ {
			mm[fmt.Sprint("g", i)] = i
		}
		return 0
	}
	if r.p(15) {
		return nil
	}
	if r.p(10) {
		return S{A: 1, M: map[string]any{"x": boomFn}}
	}
	if r.p(5) {
		return []any{all}
	}
	return all
}

var hostileExprs = []string{"nilstr", "str", "boom", "boomp", "rec", "recv.Next", "f()", "e()", "two()", "three()", "none()", "var(1,2)", "var(xs...)", "var(s...)", "nilf()",
	"nilmap.k", "nilslice[0]", "nilptr.A", "nilptr.Get()", "nilptr.Ptr()", "niliface.x", "arr[5]", "xs[3][0]", "m.f()", "imap[1]", "imap.x", "smap.a.b", "st.c", "ps.P.A",
	"a / zero", "a % zero", "min / (0 - 1)", "a << (0 - 1)", "a << 64", "u64 + 1", "-min", "c + c", "c == c", "xs == xs", "m == m", "f == f", "st == st", "b[0]", "i8 * i8",
	"*ps", "*a", "&a", "<-a", "a.b.c", "s[0]", "s[1:2]", "xs[1:0]", "xs[-1:]", "xs[0:9]", "xs[:2:1]", "arr[0:1]", "len(a)", "len()", "len(s, s)", "cap(m)", "int(s)", "int8(u64)", "string(xs)", "string(boom)",
	"print(boom)", "printf(s, boom)", "println(nilstr)", "isNull(a)", "isNull(nilptr)", "bytes(a)", "runes(s)", "duration(s)", "float64(s)", "true ? f() : 1", "t && f()", "nope.x", "1i", "1i + 1", "nil == nil", "nil.x", "nil()", "(nil)",
	"9223372036854775808", "0x", "1e999", "1e-999 * 0", "'\\xff'", "\"\\xff\"", "`\xf0`", "a[nil]", "a[s]", "xs[s]", "xs[1.5]", "m[1]", "m[nil]", "st[0]", "st['A']", "f.x", "f[0]", "e().x",
	"&nope", "&nilptr.A", "&f()", "&e()", "&xs[9]", "&(nope)", "&a.b", "*nope", "-nope", "!nope", "^nope", "<-nope", "&&a", "-e()", "!f()", "&m.absent", "&st.c",
	"nanmap", "nan32", "nanany", "nanarr", "nanc", "nanst", "ptrmap", "boolmap", "nanmap[nan]", "nanmap[1]", "nanany[nan]", "nanany.k", "len(nanmap)", "nanmap == nanmap", "nan == nan", "nanany[nanmap]", "mm", "ptrmap[nilptr]", "boolmap[t]", "inf / inf", "int(nan)", "int64(inf)", "uint8(nan)", "string(nan)", "duration(inf)"}

// C08: loading, parsing and rendering never panic.
func propC08(c *ctx) error {
	res := c.res
	res.Rule = "every public entry point (tplManager.Add, HtmlScanner, CodeScanner, Parser.ParseTokens, exp.ParseCode, exp.Evaluate, Template.Execute) under recover(): random bytes, grammar-derived templates and expressions with byte mutations and truncations, hostile data (nil / typed nil / cyclic values, functions of many signatures that panic or fail, uncomparable values, misbehaving String methods), self-including fragments; the Lean model must predict the same load outcome (never a panic); distinct = distinct input; non-trivial = the input reaches the tree builder or the evaluator"
	r := newRng(c.seed, "C08")
	guard := func(what string, in any, f func()) {
		defer func() {
			if x := recover(); x != nil {
				res.violate(J{"entry": what, "input": in}, "a result or an error value", fmt.Sprintf("panic: %v", x), "panic escapes "+what)
			}
		}()
		res.S3Checked++
		crumb(what, in)
		f()
		crumbAt.Store(0)
	}
	mutate := func(s string) string {
		b := []byte(s)
		for k := 1 + r.n(3); k > 0 && len(b) > 0; k-- {
			i := r.n(len(b))
			switch r.n(5) {
			case 0:
				b = append(b[:i], b[i+1:]...)
			case 1:
				alpha := "<>/\"'=${}: \n\x00\xff!-]"
				b[i] = alpha[r.n(len(alpha))]
			case 2:
				b = b[:i]
			case 3:
				b = append(b[:i], append([]byte(r.pick([]string{"<", "</p>", "${", "}", "\"", "<!--", "</", ">", "<![CDATA[", ":if=", ":range='", " :else"})), b[i:]...)...)
			default:
				j := r.n(len(b))
				b[i], b[j] = b[j], b[i]
			}
		}
		return string(b)
	}
	n := c.n(2500, 400000)
	for i := 0; i < n; i++ {
		var src string
		switch r.n(6) {
		case 0:
			b := make([]byte, r.n(40))
			for k := range b {
				b[k] = byte(r.next())
			}
			src = string(b)
		case 1:
			src, _ = genHTMLDoc(r, []string{"script", "title"}, true)
			src = mutate(src)
		case 2:
			src = mutate(genNested(r, 3))
		default:
			rc, _ := genRenderCase(r, true)
			src = rc.Files[len(rc.Files)-1][1]
			if r.p(70) {
				src = mutate(src)
			}
		}
		var toks []*html.Token
		guard("HtmlScanner.GetAllTokens", src, func() {
			toks, _ = html.NewHtmlScanner(strings.NewReader(src)).GetAllTokens()
		})
		guard("Parser.ParseTokens", src, func() {
			if toks != nil {
				html.NewParser().ParseTokens(toks)
				html.NewParser().SetVoidElements(html.GetDefaultVoidElements()).ParseTokens(toks)
			}
		})
		loaded := false
		var m *mgr
		guard("tplManager.Add", src, func() {
			var err error
			m, err, _ = implLoadNoRecover([][2]string{{"t", src}})
			loaded = err == nil
		})
		res.eval(src, len(toks) > 0, J{"src": trunc(src, 200), "loaded": loaded})
		if loaded {
			res.count("loaded")
			data := hostileData(r)
			guard("Template.Execute", J{"src": src, "data": "hostile"}, func() {
				t, err := m.tm.GetTemplate("t")
				if err == nil {
					var sb strings.Builder
					t.Execute(&sb, data)
					w := &chunkWriter{failAt: r.n(4)}
					t.Execute(w, data)
				}
			})
		}
		// the model must predict the load outcome (it has explicit panic outcomes for the scanner / tree builder)
		if c.d != nil && utf8.ValidString(src) && !strings.Contains(src, "\x00") && i%3 == 0 {
			m2, err := c.d.ask(J{"op": "render", "files": [][2]string{{"t", src}}, "tpl": "t", "data": nil})
			if err != nil {
				return err
			}
			ml := sget(m2, "load")
			if ml == "unsupported" {
				res.S2Unsupported++
			} else {
				res.S2Compared++
				il := map[bool]string{true: "ok", false: "err"}[loaded]
				if ml != il {
					res.disagree(J{"src": src}, J{"load": il}, J{"load": ml}, "load outcome")
				}
			}
		}
	}
	// expressions and code scanner
	en := c.n(4000, 300000)
	for i := 0; i < en; i++ {
		var src string
		switch r.n(4) {
		case 0:
			src = r.pick(hostileExprs)
		case 1:
			src = mutate(r.pick(hostileExprs) + r.pick([]string{" + ", " == ", " && ", " ? ", "[", "("}) + r.pick(hostileExprs))
		case 2:
			env := genExprEnv(r)
			src = mutate(printEx(genEx(r, env, "ifsb"[r.n(4)], 3, 20), r, 20))
		default:
			b := make([]byte, r.n(12))
			for k := range b {
				alpha := " ()[]{}.,:;?!+-*/%&|^<>=\"'`\\$#@~_09azAZ\n\t\x00\xff"
				b[k] = alpha[r.n(len(alpha))]
			}
			src = string(b)
		}
		data := hostileData(r)
		res.eval("e|"+src, true, J{"expr": src})
		guard("exp.ParseCode+Evaluate", src, func() {
			tree, err := exp.ParseCode(src)
			if err == nil && tree != nil {
				exp.Evaluate(exp.NewPos(1, 1), tree, exp.NewScope(data))
			}
		})
		guard("CodeScanner.GetAllTokens", src, func() {
			html.NewCodeScanner(exp.NewPos(1, 1), src).GetAllTokens()
			html.NewCodeScanner(exp.NewPos(1, 1), `"${`+src+`}"`).GetAllTokens()
		})
		guard("Scope.Get", src, func() {
			exp.WithDefaultScope(exp.NewScope(data)).Get(src)
			exp.NewScope([]int{1}).Get(src)
			exp.NewScope(S{}).Get(src)
		})
	}
	// every hostile expression inside every kind of directive value (Attr.Evaluate formats the result itself)
	for _, e := range hostileExprs {
		if strings.ContainsAny(e, "\"<>") || !utf8.ValidString(e) {
			continue
		}
		for _, tplSrc := range []string{`<p :text="${` + e + `}" :title="x${` + e + `}y">o</p>`, `<p :if="${` + e + `}">o</p><q :else>e</q>`,
			`<p :with="v := ${` + e + `}" :raw="${v}">o</p>`, `<p :range="k, v : ` + e + `" :text="${k}${v}">o</p>`, `<p :insert="${` + e + `}">o</p>`} {
			data := hostileData(r)
			res.eval("t|"+tplSrc, true, J{"src": tplSrc})
			guard("Add+Execute (hostile value in a directive)", tplSrc, func() {
				m, err, _ := implLoadNoRecover([][2]string{{"t", tplSrc}})
				if err == nil {
					t, _ := m.tm.GetTemplate("t")
					var sb strings.Builder
					t.Execute(&sb, data)
				}
			})
		}
	}
	// ranging over a map that the loop body changes (entries deleted / added by a user function called from the body), and
	// over maps with keys that are not equal to themselves
	for _, obj := range []string{"mm", "nanmap", "nanany", "nanarr", "nanc", "nanst", "nan32", "ptrmap", "boolmap"} {
		for _, tplSrc := range []string{`<p :range="k, v : ` + obj + `" :text="${del()}${k}=${v}">o</p>`, `<p :range="k, v : ` + obj + `" :text="${k}${grow()}${v}">o</p>`,
			`<p :range="` + obj + `">o</p>`, `<p :range="k : ` + obj + `" :title="${k}">o</p>`, `<ul :range="k, v : ` + obj + `"><li :range="k2, v2 : ` + obj + `" :text="${k == k2}${del()}">o</li></ul>`,
			`<p :range=", v : ` + obj + `" :with="w := ${v}" :if="${w == w}" :text="${w}">o</p> `} {
			data := hostileData(r)
			if _, ok := data.(map[string]any); !ok {
				data = hostileData(newRng(1, "C08-maps"))
			}
			res.eval("rm|"+tplSrc, true, J{"src": tplSrc})
			res.count("range_over_odd_maps")
			guard("Add+Execute (range over a map with odd keys / changed by the body)", tplSrc, func() {
				m, err, _ := implLoadNoRecover([][2]string{{"t", tplSrc}})
				if err == nil {
					t, _ := m.tm.GetTemplate("t")
					var sb strings.Builder
					t.Execute(&sb, data)
				}
			})
		}
	}
	// a manager whose GLOBAL scope misbehaves (a user Scope whose Get panics, a nil Scope): every directive that looks a name
	// up — also the object of a range written as a bare name — ends with an error value
	for _, gk := range []string{"panics", "nil", "panics-on-some"} {
		for _, tplSrc := range []string{`<p :range="x : items">o</p>`, `<p :range="i, x : items" :text="${x}">o</p>`, `<p :text="${items}">o</p>`, `<p :if="${items}">o</p><i :else>e</i>`,
			`<p :with="v := ${items}" :text="${v}">o</p>`, `<p :insert="${items}">o</p>`, `<p :title="a${items}b">o</p>`, `<p :range="x : (items)">o</p>`, `<p :range="x : items.sub">o</p>`, `<p :range="items">o</p>`} {
			in := J{"global_scope": gk, "src": tplSrc}
			res.eval("badglobal|"+jstr(in), true, in)
			res.count("misbehaving_global_scope")
			guard("Add+Execute (misbehaving global scope)", in, func() {
				m := html.NewTplManager()
				switch gk {
				case "panics":
					m.SetGlobalScope(scopeFunc(func(name string) (any, error) { panic("global scope: " + name) }))
				case "nil":
					m.SetGlobalScope(nil)
				default:
					m.SetGlobalScope(scopeFunc(func(name string) (any, error) {
						if name == "items" {
							var mm map[string]int
							mm["x"] = 1 // a runtime panic of the user's code
						}
						return nil, exp.ErrNoSuchValue
					}))
				}
				if err := m.Add("t", strings.NewReader(tplSrc)); err != nil {
					return
				}
				t, err := m.GetTemplate("t")
				if err != nil {
					return
				}
				var sb strings.Builder
				if err := t.Execute(&sb, map[string]any{"other": 1}); err == nil {
					res.violate(in, "error value", "nil, output "+sb.String(), "a lookup that panics in the global scope does not end as an error value")
				}
			})
		}
	}
	// inside a raw-text element: every proper prefix of its own end tag (in either letter case) followed by characters of
	// one to four bytes, by the end of input, by another prefix
	for _, el := range []string{"script", "style", "textarea", "title", "SCRIPT", "Title"} {
		end := "</" + el
		for k := 1; k <= len(end); k++ {
			for _, ch := range []string{"»", "—", "€", "😀", "é", "a", " ", ">", "\n", "", "<", "</", "\xff", "\x80\x80"} {
				for _, tail := range []string{" y</" + el + ">", "", "</" + strings.ToUpper(el) + " >"} {
					src := "<" + el + ">x " + end[:k] + ch + tail
					res.eval("rawprefix|"+src, true, J{"src": src})
					res.count("raw_text_end_tag_prefixes")
					guard("Add+Execute (raw-text content with a prefix of its end tag)", src, func() {
						m, err, _ := implLoadNoRecover([][2]string{{"t", src}})
						if err == nil {
							t, _ := m.tm.GetTemplate("t")
							var sb strings.Builder
							t.Execute(&sb, nil)
						}
					})
				}
			}
		}
	}
	// loading a template SET from a file system that misbehaves: a matching file that cannot be opened, cannot be read, a
	// directory that cannot be listed — Parse / ParseWithSuffix / ParseWithRegexp return an error value
	for _, fault := range []string{"open", "read", "readdir", "none"} {
		for _, entry := range []string{"suffix", "regexp", "func"} {
			base := fstest.MapFS{"a.html": {Data: []byte("<p>a</p>")}, "d/b.html": {Data: []byte(`<p :define="f">b</p>`)}, "d/c.txt": {Data: []byte("<<<")}, "d": {Mode: fs.ModeDir}}
			ifs := &instFS{base: base, openErr: map[string]bool{}, readErr: map[string]bool{}, dirErr: map[string]bool{}}
			switch fault {
			case "open":
				ifs.openErr["d/b.html"] = true
			case "read":
				ifs.readErr["d/b.html"] = true
			case "readdir":
				ifs.dirErr["d"] = true
			}
			in := J{"fault": fault, "entry_point": entry}
			res.eval("fsfault|"+jstr(in), true, in)
			guard("Parse (file system fault: "+fault+")", in, func() {
				m := html.NewTplManager()
				var err error
				switch entry {
				case "suffix":
					err = m.ParseWithSuffix(ifs, ".html")
				case "regexp":
					err = m.ParseWithRegexp(ifs, regexp.MustCompile(`\.html$`))
				default:
					err = m.Parse(ifs, func(p string) bool { return strings.HasSuffix(p, ".html") })
				}
				if (err != nil) != (fault != "none") {
					res.violate(in, J{"error": fault != "none"}, fmt.Sprint(err), "a file-system fault while loading is not returned as an error value (or a fault-free load fails)")
				}
			})
		}
	}
	// :define elements with every kind of (near-)empty body: registering a fragment trims blank text at both ends of the
	// content — of nothing, of one blank node, of blank nodes only
	for _, body := range []string{"", " ", "\n", "\n\n", " \n\t ", "<!-- c -->", " <!-- c --> ", "<!--/* h */-->", " <!--/* h */--> ", "x", " x ", "<b></b>", " <b></b> ", "\t", " <![CDATA[ ]]> ", "\u00a0", "\u3000", " \n<i>a</i>\n <i>b</i>\n "} {
		for _, el := range []string{"template", "div", "t:block", "p"} {
			for _, use := range []string{`<q :insert="stub">o</q>`, `<q :replace="stub">o</q>`, ""} {
				tplSrc := "<" + el + ` :define="stub">` + body + "</" + el + ">" + use
				res.eval("defbody|"+tplSrc, true, J{"src": tplSrc})
				res.count("define_bodies")
				guard("Add+Execute (fragment with a near-empty body)", tplSrc, func() {
					m, err, _ := implLoadNoRecover([][2]string{{"t", tplSrc}})
					if err == nil {
						for _, name := range []string{"t", "stub"} {
							if t, gerr := m.tm.GetTemplate(name); gerr == nil {
								var sb strings.Builder
								t.Execute(&sb, map[string]any{"a": 1})
							}
						}
					}
				})
			}
		}
	}
	// malformed VALUES of the directives that have a syntax of their own (with / range / remove / define / insert): every
	// combination of complete and dangling pieces loads or fails to load, and renders or fails to render — no panic
	{
		withPieces := []string{"a := ${1}", "b :=", ":= ${2}", "c", ";", "${3}", "d := ${nope}", " ", "e := ${1} f := ${2}", ":=", "g := ${1};"}
		var vals []string
		for _, p1 := range withPieces {
			vals = append(vals, p1)
			for _, p2 := range withPieces {
				vals = append(vals, p1+"; "+p2, p1+" "+p2)
			}
		}
		rangeVals := []string{"", ":", ",", "i,", ", x", "i, x", "i, x :", ": xs", "i, x, y : xs", "i x : xs", "x : ", "x : xs :", "x :: xs", "${x} : xs", "i, x : xs : ys", "'", "x : 'a"}
		slots := map[string][]string{"with": vals, "range": rangeVals, "remove": {"", "nonsense", "ALL", "all but first", "${'all'}", "${nope}"},
			"define": {"", "${nope}", "${1/0}", " "}, "insert": {"", " ", "${''}", "${nil}"}, "if": {"", " ", "maybe", "${nil}"}}
		for slot, vs := range slots {
			for _, v := range vs {
				for _, q := range []string{"\"", "'"} {
					if strings.Contains(v, q) {
						continue
					}
					tplSrc := `<p :` + slot + `=` + q + v + q + ` :title="${a}">o<b :text="${a}">x</b></p><i>after</i>`
					res.eval("mv|"+tplSrc, true, J{"src": tplSrc})
					guard("Add+Execute (malformed directive value)", tplSrc, func() {
						m, err, _ := implLoadNoRecover([][2]string{{"t", tplSrc}})
						if err == nil {
							t, _ := m.tm.GetTemplate("t")
							var sb strings.Builder
							t.Execute(&sb, map[string]any{"a": 1, "xs": []int{1, 2}})
						}
					})
				}
			}
		}
	}
	// fragments that include themselves: run in a child process first, because a stack overflow is a fatal error
	// that no recover() can observe
	if exe, err := os.Executable(); err == nil {
		cmd := exec.Command(exe, "probe-self")
		out, err := cmd.CombinedOutput()
		res.S3Checked++
		if err != nil {
			tail := string(out)
			if len(tail) > 400 {
				tail = tail[:400]
			}
			res.violate(J{"entry": "Execute (self-including fragments) in a child process", "templates": selfIncluding}, "exit status 0", err.Error()+": "+tail, "the process is killed by a self-including fragment")
			return nil
		}
	}
	// fragments that include themselves (directly, mutually, through replace, in a range): must end with an error
	for si, src := range selfIncluding {
		rc := &renderCase{Files: [][2]string{{"t", src}}, Tpl: "t", Data: vMap(kv{"xs", vIntSlice(1)}).j}
		var out renderOut
		guard("Execute (self-including fragment)", src, func() { out = implRender(rc, -1) })
		res.eval("self|"+src, true, J{"src": src})
		if out.St != "err" {
			res.violate(rc.toJ(), "error", J{"st": out.St}, "a self-including fragment does not end with an error")
		}
		if c.d != nil && (si < 5 || si%4 == 0 || !c.quick()) {
			if _, _, err := compareRender(c, rc, true); err != nil {
				return err
			}
		}
	}
	return nil
}

var selfIncluding = func() []string {
	out := []string{
		`<b :define="f"><i :insert="f"></i></b><p :insert="f"></p>`,
		`<b :define="f"><i :replace="g"></i></b><b :define="g"><i :insert="f"></i></b><p :replace="f"></p>`,
		`<b :define="f"><i :range="_, x : xs" :insert="f"></i></b><p :insert="f"></p>`,
		`<p :insert="t"></p>`,
		`<p :replace="t"></p>`,
	}
	// every cycle of 1..3 fragments in which each hop is an insert or a replace, the hopping element being an ordinary
	// tag or a block tag, alone or together with a range / a true condition / a with
	hops := []string{"insert", "replace"}
	extras := []string{``, ` :range="_, x : xs"`, ` :if="${true}"`, ` :with="w := ${1}"`}
	for n := 1; n <= 3; n++ {
		for mask := 0; mask < 1<<n; mask++ {
			for ei, extra := range extras {
				if (n == 3 && ei > 0) || (n == 2 && ei%2 != mask%2) {
					continue // (rendering down to the nesting bound is slow in the engine: keep the list short)
				}
				var sb strings.Builder
				for k := 0; k < n; k++ {
					tag := []string{"i", "t:block"}[(k+mask+ei)%2]
					fmt.Fprintf(&sb, `<b :define="c%d"><%s :%s="c%d"%s>x</%s></b>`, k, tag, hops[(mask>>k)&1], (k+1)%n, extra, tag)
				}
				sb.WriteString(`<p :` + hops[mask&1] + `="c0">x</p>`)
				out = append(out, sb.String())
			}
		}
	}
	return out
}()

// probeSelf is run in a child process: renders the self-including templates; a fatal stack overflow kills only it.
func probeSelf() {
	debug.SetMaxStack(64 << 20) // fail fast instead of growing to the default 1 GB limit
	for _, src := range selfIncluding {
		rc := &renderCase{Files: [][2]string{{"t", src}}, Tpl: "t", Data: vMap(kv{"xs", vIntSlice(1)}).j}
		out := implRender(rc, -1)
		fmt.Println(out.Load, out.St)
	}
}

// implLoadNoRecover: Add without the harness's recover (the caller guards).
func implLoadNoRecover(files [][2]string) (*mgr, error, any) {
	tm := html.NewTplManager()
	for _, f := range files {
		if err := tm.Add(f[0], strings.NewReader(f[1])); err != nil {
			return nil, err, nil
		}
	}
	return &mgr{tm: tm}, nil, nil
}
