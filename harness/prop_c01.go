package main

import (
	"fmt"
	"reflect"
	"strings"

	"code.gopub.tech/tpl/html"
)

func init() { props["C01"] = propC01 }

// partsOf: everything of a token the property wants reproduced byte for byte (white space between the parts of a
// tag is the only thing dropped).
func partsOf(toks []*html.Token) []any {
	var out []any
	for _, t := range toks {
		if t.Tag == nil {
			out = append(out, []any{int(t.Kind), t.Value})
			continue
		}
		p := []any{int(t.Kind), t.Tag.Name}
		for _, a := range t.Tag.Attrs {
			if a.Value != nil {
				p = append(p, a.Name+"="+*a.Value)
			} else {
				p = append(p, a.Name)
			}
		}
		out = append(out, p)
	}
	return out
}

// C01: markup without directives is reproduced unchanged.
var epCount int

func propC01(c *ctx) error {
	res := c.res
	res.Rule = "directive-free documents (nested, unbalanced, unclosed, void, self-closing, raw-text elements with hostile content, entities, multi-line values, Unicode) x configurations of raw-text and void element lists; exhaustive strings over a 9-symbol alphabet in the thorough tier; distinct = distinct (source, configuration); non-trivial = loads and has >= 2 tokens"
	type conf struct{ text, void []string }
	confs := []conf{
		{[]string{"script", "style", "textarea", "title"}, []string{"!doctype", "area", "base", "br", "col", "embed", "hr", "img", "input", "link", "meta", "source", "track", "wbr"}},
		{[]string{}, []string{}},
		{[]string{"pre", "SCRIPT"}, []string{"BR", "p"}},
		{[]string{"script"}, []string{"!doctype", "img", "x-y"}},
	}
	run := func(src string, cf conf, note string) error {
		toks, err, p := implScanTokens(src, cf.text, ":")
		key := src + "|" + strings.Join(cf.text, ",") + "|" + strings.Join(cf.void, ",")
		cs := J{"src": src, "textTags": cf.text, "voidTags": cf.void, "note": note}
		if p != nil {
			res.eval(key, false, cs)
			res.violate(cs, "no panic", fmt.Sprint(p), "scanner panicked")
			return nil
		}
		rc := &renderCase{Files: [][2]string{{"t", src}}, Tpl: "t", Cfg: map[string]any{"textTags": anyList(cf.text), "voidTags": anyList(cf.void)}}
		impl, _, cerr := compareRender(c, rc, true)
		if cerr != nil {
			return cerr
		}
		res.eval(key, err == nil && len(toks) >= 2, cs)
		if err != nil {
			return nil // outside the quantifier: the source does not load
		}
		res.S3Checked++
		// (1) token values concatenate back to the source
		var sb strings.Builder
		for _, t := range toks {
			sb.WriteString(t.Value)
		}
		if sb.String() != src {
			res.violate(cs, src, sb.String(), "token values do not concatenate back to the source")
			return nil
		}
		if impl.Load != "ok" || impl.St != "ok" {
			res.violate(cs, "renders", J{"load": impl.Load, "st": impl.St, "err": trunc(impl.Err, 200)}, "directive-free document fails to load/render")
			return nil
		}
		out := impl.text()
		// (2) every part reappears in order, byte for byte
		otoks, oerr, _ := implScanTokens(out, cf.text, ":")
		if oerr != nil {
			res.violate(cs, "output scans", oerr.Error(), "rendered output of a directive-free document does not scan")
			return nil
		}
		want, got := normJSON(partsOf(toks)), normJSON(partsOf(otoks))
		if !reflect.DeepEqual(want, got) {
			res.violate(cs, want, got, "rendered output does not reproduce the parts of the source: "+firstDiff(want, got)+" | out="+trunc(out, 200))
			return nil
		}
		// (3) rendering the output again yields the same output
		rc2 := &renderCase{Files: [][2]string{{"t", out}}, Tpl: "t", Cfg: rc.Cfg}
		again := implRender(rc2, -1)
		if again.Load != "ok" || again.St != "ok" || again.text() != out {
			res.violate(cs, out, J{"st": again.St, "out": again.text()}, "rendering the output again changes it")
		}
		// (4) the same through the convenience entry points, repeatedly and after renders of OTHER templates that failed
		// half-way (one case in eight: it loads the source once more)
		if epCount++; epCount%8 == 0 {
			if m, lerr, p := implLoad(rc, nil); lerr == nil && p == nil {
				if t, gerr := m.tm.GetTemplate("t"); gerr == nil {
					res.S3Checked++
					res.count("entry_point_histories")
					if why := entryPointHistory(t, nil, out, false, nil, 3, epCount%16 == 0); why != "" {
						res.violate(cs, out, why, "RenderToBytes / RenderToString of a directive-free template do not reproduce what Execute writes")
					}
				}
			}
		}
		return nil
	}
	for _, cs := range c.corpusCases() {
		cf := confs[0]
		if t := cfgStrings(cs, "textTags"); t != nil {
			cf.text = t
		}
		if v := cfgStrings(cs, "voidTags"); v != nil {
			cf.void = v
		}
		if err := run(sget(cs, "src"), cf, "corpus"); err != nil {
			return err
		}
	}
	r := newRng(c.seed, "C01")
	n := c.n(1500, 80000)
	for i := 0; i < n; i++ {
		cf := confs[r.n(len(confs))]
		src, _ := genHTMLDoc(r, cf.text, r.p(40))
		if strings.Contains(src, "/*") {
			continue
		}
		if err := run(src, cf, ""); err != nil {
			return err
		}
	}
	// structured nesting: balanced / unbalanced trees
	tn := c.n(800, 30000)
	for i := 0; i < tn; i++ {
		cf := confs[r.n(len(confs))]
		if err := run(genNested(r, 3), cf, "nested"); err != nil {
			return err
		}
	}
	// deep documents: explicitly nested elements and unclosed items that nest inside each other
	for _, depth := range []int{64, 255, 256, 257, 300, 700} {
		deep := strings.Repeat("<div>", depth) + "x" + strings.Repeat("</div>", depth)
		items := "<ul>" + strings.Repeat("<li>item\n", depth) + "</ul>"
		for _, src := range []string{deep, items} {
			res.count("deep_documents")
			if err := run(src, confs[0], "deep"); err != nil {
				return err
			}
		}
	}
	if !c.quick() {
		// exhaustive: every string of length <= 5 over the alphabet < > / = " ' space a !
		alpha := []string{"<", ">", "/", "=", "\"", "'", " ", "a", "!"}
		var rec func(prefix string, d int) error
		cnt := 0
		rec = func(prefix string, d int) error {
			if prefix != "" {
				cnt++
				if err := run(prefix, confs[0], "exhaustive"); err != nil {
					return err
				}
			}
			if d == 0 {
				return nil
			}
			for _, a := range alpha {
				if err := rec(prefix+a, d-1); err != nil {
					return err
				}
			}
			return nil
		}
		if err := rec("", 5); err != nil {
			return err
		}
		res.Distribution["exhaustive_strings_len_le_5"] = cnt
		res.Exhaustive = true
	}
	return nil
}

func anyList(xs []string) []any {
	out := make([]any, len(xs))
	for i, x := range xs {
		out[i] = x
	}
	return out
}

// genNested builds nested markup with stray / missing close tags, void and self-closing elements.
func genNested(r *rng, d int) string {
	var sb strings.Builder
	for k := r.n(4); k >= 0; k-- {
		switch r.n(9) {
		case 0:
			sb.WriteString(r.pick([]string{"text", " ", "a &amp; b", "é\n", "x > y", "\t"}))
		case 1:
			sb.WriteString(r.pick([]string{"<br>", "<img src=x>", "<hr/>", "<input disabled >", "<!DOCTYPE html>", "<meta charset='utf-8'>"}))
		case 2:
			sb.WriteString(r.pick([]string{"</p>", "</div>", "</x>", "<!-- c -->", "<![CDATA[a>b]]>"}))
		case 3:
			sb.WriteString(r.pick([]string{"<script>if (a<b) x='</scr';</script>", "<style>p>a{}</style >", "<title>a<b</title>", "<textarea><p></textarea>", "<script></script>"}))
		default:
			tag := r.pick([]string{"p", "div", "ul", "li", "span", "b", "A"})
			sb.WriteString("<" + tag + r.pick([]string{"", " id=x", " class=\"a b\" hidden", " title='q\"q'", " data-x = 1", " a=\"1\nb\""}) + ">")
			if d > 0 {
				sb.WriteString(genNested(r, d-1))
			}
			if r.p(80) {
				sb.WriteString("</" + tag + ">")
			}
		}
	}
	return sb.String()
}
