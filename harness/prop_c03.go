package main

import (
	"fmt"
	"html"
	"strings"

	tplhtml "code.gopub.tech/tpl/html"
	"code.gopub.tech/tpl/types"
)

func init() { props["C03"] = propC03 }

// C03: conditional chains render exactly the first true branch.
// Native oracle (independent of the Lean specification): for a chain whose i-th condition is `${k_i() && x_i}` and
// whose i-th body is `:text="${b_i()}"`, the expected output is the selected branch only and the expected call log
// is k_1 … k_sel followed by b_sel.
// c03Overlap: two executions of ONE template object whose lifetimes overlap (the second is started by a data function
// called from the first, in the same or in another goroutine the first waits for) and which take DIFFERENT branches of the
// same chains. What an execution remembers about the conditions of a chain is its own.
func c03Overlap(c *ctx) {
	res := c.res
	src := `<p :if="${a}">A<b :text="${sub()}">o</b></p><p :elif="${b}">B<b :text="${sub()}">o</b></p><p :else>E<b :text="${sub()}">o</b></p>` +
		`<ul><li :range="_, x : xs"><i :if="${x == sel}" :text="${sub()}">o</i><u :else :text="${x}">o</u></li></ul>`
	render := func(t types.Template, a, b bool, sel int, sub func() string) (string, error) {
		var sb strings.Builder
		err := t.Execute(&sb, map[string]any{"a": a, "b": b, "sel": sel, "xs": []int{1, 2, 3}, "sub": sub})
		return sb.String(), err
	}
	want := func(a, b bool, sel int, subOut string) string {
		esc := html.EscapeString(subOut)
		out := ""
		switch {
		case a:
			out = "<p>A<b>" + esc + "</b></p>"
		case b:
			out = "<p>B<b>" + esc + "</b></p>"
		default:
			out = "<p>E<b>" + esc + "</b></p>"
		}
		out += "<ul>"
		for x := 1; x <= 3; x++ {
			if x == sel {
				out += "<li><i>" + esc + "</i></li>"
			} else {
				out += fmt.Sprintf("<li><u>%d</u></li>", x)
			}
		}
		return out + "</ul>"
	}
	for mask := 0; mask < 64; mask++ {
		oa, ob, ia, ib := mask&1 != 0, mask&2 != 0, mask&4 != 0, mask&8 != 0
		osel, isel := 1+(mask>>4)&1, 2+(mask>>5)&1
		for _, viaGoroutine := range []bool{false, true} {
			m := tplhtml.NewTplManager()
			if err := m.Add("t", strings.NewReader(src)); err != nil {
				res.SelfTest = append(res.SelfTest, "C03 overlap template does not load: "+err.Error())
				return
			}
			t, _ := m.GetTemplate("t")
			innerWant := want(ia, ib, isel, "leaf")
			var innerGot []string
			inner := func() string {
				o, err := render(t, ia, ib, isel, func() string { return "leaf" })
				if err != nil {
					o += " ERR " + err.Error()
				}
				innerGot = append(innerGot, o)
				return "in"
			}
			sub := inner
			if viaGoroutine {
				sub = func() string {
					ch := make(chan string)
					go func() { ch <- inner() }()
					return <-ch
				}
			}
			cs := J{"tpl": src, "outer": J{"a": oa, "b": ob, "sel": osel}, "inner": J{"a": ia, "b": ib, "sel": isel}, "inner_in_other_goroutine": viaGoroutine}
			crumb("Template.Execute (overlapping executions of one object)", cs) // an execution that never comes back is reported by the watchdog
			got, err := render(t, oa, ob, osel, sub)
			crumbAt.Store(0)
			res.eval("overlap|"+jstr(cs), true, cs)
			res.S3Checked++
			res.count("overlapping_chain_executions")
			if err != nil || got != want(oa, ob, osel, "in") {
				res.violate(cs, want(oa, ob, osel, "in"), J{"out": got, "err": fmt.Sprint(err)}, "an execution that overlaps another execution of the same template object renders another branch of a chain / two branches / none")
				continue
			}
			for _, ig := range innerGot {
				if ig != innerWant {
					res.violate(cs, innerWant, ig, "an execution started while another execution of the same template object is inside a chain renders the wrong branch")
					break
				}
			}
		}
	}
}

func propC03(c *ctx) error {
	res := c.res
	c03Overlap(c)
	// a condition holds exactly when its value is the string "true": padded, re-cased or partial spellings select the
	// else branch — as condition values written in the template and as strings coming from the data
	for _, cv := range []string{" ${t}", "${t} ", " ${t} ", "${t}\n", "\n  ${t}\n", "true ", " true", "${pad}", "${tpad}", "${'true '}", "${st + ' '}", "TRUE", "True", "${up}", "tru", "truee", "${t}${t}", "${t} ${f}", "1", "${one}", "yes", "${nl}"} {
		for _, kind := range []string{"if", "elif"} {
			tpl := `<p :if="` + cv + `">A</p><p :else>B</p>`
			want := "<p>B</p>"
			if kind == "elif" {
				tpl = `<p :if="${f}">Z</p><p :elif="` + cv + `">A</p><p :else>B</p>`
			}
			rc := &renderCase{Files: [][2]string{{"t", tpl}}, Tpl: "t", Data: vMap(kv{"t", vBool(true)}, kv{"f", vBool(false)}, kv{"pad", vStr(" true")}, kv{"tpad", vStr("true\t")},
				kv{"st", vStr("true")}, kv{"up", vStr("TRUE")}, kv{"one", vInt(1)}, kv{"nl", vStr("true\n")}).j}
			impl, _, err := compareRender(c, rc, true)
			if err != nil {
				return err
			}
			res.eval("padded|"+tpl, true, J{"tpl": tpl})
			res.S3Checked++
			res.count("padded_true_conditions")
			if impl.St != "ok" || impl.text() != want {
				res.violate(rc.toJ(), want, J{"st": impl.St, "out": impl.text()}, "a condition whose value is not exactly the string \"true\" is treated as true")
			}
		}
	}
	// controls: the exact spellings hold
	for _, cv := range []string{"${t}", "true", "${st}", "${'tr' + 'ue'}", "tr${'ue'}"} {
		tpl := `<p :if="` + cv + `">A</p><p :else>B</p>`
		rc := &renderCase{Files: [][2]string{{"t", tpl}}, Tpl: "t", Data: vMap(kv{"t", vBool(true)}, kv{"st", vStr("true")}).j}
		if impl := implRender(rc, -1); impl.text() != "<p>A</p>" {
			res.SelfTest = append(res.SelfTest, "C03 control: condition "+cv+" does not hold: "+impl.text())
		}
	}
	// a value-less else written in a tag folded over lines: the white space after the name (blank, tab, newline, CR, several)
	// and what follows it (another attribute, the end of the tag) do not change which branch is rendered
	for _, ws := range []string{" ", "\n", "\t", "\r", "\r\n", "\n  ", " \n", "\t\t", "\f"} {
		for _, after := range []string{`class="x"`, `id=y`, `hidden`, ``} {
			for _, ok := range []bool{true, false} {
				for _, first := range []bool{false, true} { // the else attribute first or after another attribute
					open := `<p :else` + ws + after + `>`
					attrs := after
					if first {
						open = `<p ` + after + ws + `:else` + ws + `>`
						if after == "" {
							continue
						}
					}
					tpl := `<p :if="${ok}">A</p>` + open + `B</p>`
					want := "<p>A</p>"
					if !ok {
						want = "<p>B</p>"
						if attrs != "" {
							want = "<p " + attrs + ">B</p>"
						}
					}
					rc := &renderCase{Files: [][2]string{{"t", tpl}}, Tpl: "t", Data: vMap(kv{"ok", vBool(ok)}).j}
					impl, _, err := compareRender(c, rc, true)
					if err != nil {
						return err
					}
					res.eval("folded-else|"+tpl+fmt.Sprint(ok), true, J{"tpl": tpl})
					res.S3Checked++
					res.count("folded_valueless_else")
					if impl.St != "ok" || impl.text() != want {
						res.violate(rc.toJ(), want, J{"st": impl.St, "out": impl.text()}, "a value-less else followed by white space other than a blank is not taken as the else of its chain")
					}
				}
			}
		}
	}
	res.Rule = "all chain lengths 1..4 x with/without else x all truth assignments x placements (top, nested, range body, fragment, branch of another chain) x one extra directive x separators, plus histories of executions of one template object; distinct = distinct (template,data); non-trivial = every case (each has at least one chain)"
	type chainCase struct {
		rc       *renderCase
		expOut   string
		expLog   []string
		expErr   bool
		assign   []bool
		desc     string
		variants [][]bool // further assignments executed on the same object (history)
	}
	kinds := []string{"elif", "else-if", "elseif"}
	build := func(n int, withElse bool, assign []bool, place, extra, sepIdx int, kindSeed int) *chainCase {
		var sb strings.Builder
		seps := []string{"", " ", "\n", "<!-- c -->", "txt", "<!--/* h */-->"}
		sep := seps[sepIdx%len(seps)]
		sepOut := sep
		if sepIdx%len(seps) == 5 {
			sepOut = ""
		}
		fns := map[string]fnDecl{}
		var kvs []kv
		for i := 0; i < n; i++ {
			k := fmt.Sprintf("k%d", i+1)
			b := fmt.Sprintf("b%d", i+1)
			fns[k] = fnDecl{Kind: "val", Ret: vBool(true).j}
			fns[b] = fnDecl{Kind: "val", Ret: vStr("B" + fmt.Sprint(i+1)).j}
			kvs = append(kvs, kv{k, val{nil, J{"fn": k}}}, kv{b, val{nil, J{"fn": b}}})
		}
		fns["be"] = fnDecl{Kind: "val", Ret: vStr("BE").j}
		fns["g"] = fnDecl{Kind: "val", Ret: vStr("G").j}
		kvs = append(kvs, kv{"be", val{nil, J{"fn": "be"}}}, kv{"g", val{nil, J{"fn": "g"}}}, kv{"two", vIntSlice(1, 2)}, kv{"one", vIntSlice(7)})
		extraAttr, extraLogPre := "", []string{}
		switch extra {
		case 1:
			extraAttr = ` :title="${g()}"`
		case 2:
			extraAttr = ` :with="w := ${g()}"`
		case 3:
			extraAttr = ` :range="_, y : one"`
		case 4:
			extraAttr = ` class="s"`
		}
		_ = extraLogPre
		elemOut := func(tag, body string) string {
			switch extra {
			case 1:
				return "<" + tag + ` title="G">` + body + "</" + tag + ">"
			case 4:
				return "<" + tag + ` class="s">` + body + "</" + tag + ">"
			}
			return "<" + tag + ">" + body + "</" + tag + ">"
		}
		for i := 0; i < n; i++ {
			name := "if"
			if i > 0 {
				name = kinds[(kindSeed+i)%3]
			}
			if i > 0 {
				sb.WriteString(sep)
			}
			// attribute order varies with kindSeed
			cond := fmt.Sprintf(` :%s="${k%d() && x%d}"`, name, i+1, i+1)
			txt := fmt.Sprintf(` :text="${b%d()}"`, i+1)
			as := []string{cond, txt, extraAttr}
			if (kindSeed+i)%2 == 1 {
				as = []string{txt, extraAttr, cond}
			}
			sb.WriteString("<p" + strings.Join(as, "") + ">old</p>")
		}
		if withElse {
			sb.WriteString(sep)
			if kindSeed%2 == 0 {
				sb.WriteString(`<q :else :text="${be()}"` + extraAttr + `>old</q>`)
			} else {
				sb.WriteString(`<q :text="${be()}"` + extraAttr + ` :else="true">old</q>`)
			}
		}
		chain := sb.String()
		expect := func(a []bool) (string, []string) {
			var lg []string
			var out strings.Builder
			nel := n
			if withElse {
				nel++
			}
			satisfied := false
			for i := 0; i < nel; i++ {
				if i > 0 {
					out.WriteString(sepOut) // separators are plain siblings: always printed
				}
				if extra == 2 {
					lg = append(lg, "g") // the with binding precedes the condition on every chain element
				}
				if satisfied {
					continue
				}
				tag, bname, bval := "p", fmt.Sprintf("b%d", i+1), "B"+fmt.Sprint(i+1)
				if i == n {
					tag, bname, bval = "q", "be", "BE"
				} else {
					lg = append(lg, fmt.Sprintf("k%d", i+1))
					if !a[i] {
						continue
					}
				}
				satisfied = true
				if extra == 1 {
					lg = append(lg, "g")
				}
				lg = append(lg, bname)
				out.WriteString(elemOut(tag, bval))
			}
			return out.String(), lg
		}
		var files [][2]string
		main := ""
		mult := 1
		switch place {
		case 0:
			main = chain
		case 1:
			main = "<div><span>a</span>" + chain + "<span>z</span></div>"
		case 2:
			main = `<ul><li :range="_, it : two">` + chain + `</li></ul>`
			mult = 2
		case 3:
			main = `<section :insert="frag">gone</section>`
			files = append(files, [2]string{"fr.html", `<template :define="frag">` + chain + `</template>`})
		case 4:
			main = `<div :if="${x1 || !x1}">` + chain + `</div><div :else>never</div>`
		}
		files = append(files, [2]string{"main.html", main})
		mk := func(a []bool) (*renderCase, string, []string) {
			kv2 := append([]kv{}, kvs...)
			for i := 0; i < 4; i++ {
				v := false
				if i < len(a) {
					v = a[i]
				}
				kv2 = append(kv2, kv{fmt.Sprintf("x%d", i+1), vBool(v)})
			}
			rc := &renderCase{Files: files, Tpl: "main.html", Data: vMap(kv2...).j, Fns: fns}
			o, lg := expect(a)
			var out string
			var log []string
			switch place {
			case 0:
				out = o
			case 1:
				out = "<div><span>a</span>" + o + "<span>z</span></div>"
			case 2:
				out = "<ul><li>" + o + "</li><li>" + o + "</li></ul>"
			case 3:
				out = "<section>" + o + "</section>"
			case 4:
				out = "<div>" + o + "</div>"
			}
			for m := 0; m < mult; m++ {
				log = append(log, lg...)
			}
			return rc, out, log
		}
		rc, out, lg := mk(assign)
		cc := &chainCase{rc: rc, expOut: out, expLog: lg, assign: assign,
			desc: fmt.Sprintf("n=%d else=%v assign=%v place=%d extra=%d sep=%d", n, withElse, assign, place, extra, sepIdx)}
		return cc
	}
	check := func(cc *chainCase) error {
		impl, _, err := compareRender(c, cc.rc, true)
		if err != nil {
			return err
		}
		res.eval(caseKey(cc.rc), true, J{"files": cc.rc.Files, "assign": cc.assign, "out": impl.text()})
		res.S3Checked++
		got := impl.text()
		if impl.St != "ok" || got != cc.expOut {
			res.violate(cc.rc.toJ(), J{"out": cc.expOut}, J{"st": impl.St, "out": got, "err": trunc(impl.Err, 200)}, "chain does not render exactly the first true branch ("+cc.desc+")")
		} else if strings.Join(impl.Log, ",") != strings.Join(cc.expLog, ",") {
			res.violate(cc.rc.toJ(), J{"log": cc.expLog}, J{"log": impl.Log}, "expressions of unselected chain elements were evaluated ("+cc.desc+")")
		}
		return nil
	}
	for _, cs := range c.corpusCases() {
		rc := renderCaseFromJ(cs)
		impl, _, err := compareRender(c, rc, true)
		if err != nil {
			return err
		}
		res.eval(caseKey(rc), true, J{"files": rc.Files})
		if exp, ok := cs["expect_out"].(string); ok {
			res.S3Checked++
			if impl.text() != exp || impl.St != "ok" {
				res.violate(rc.toJ(), exp, J{"st": impl.St, "out": impl.text()}, "corpus case: chain output")
			}
		}
	}
	r := newRng(c.seed, "C03")
	maxN := 3
	if !c.quick() {
		maxN = 4
	}
	cnt := 0
	for n := 1; n <= maxN; n++ {
		for e := 0; e < 2; e++ {
			for bits := 0; bits < 1<<uint(n); bits++ {
				assign := make([]bool, n)
				for i := range assign {
					assign[i] = bits&(1<<uint(i)) != 0
				}
				places := []int{0, 1, 2, 3, 4}
				for _, place := range places {
					extras := []int{0, 1, 2, 3, 4}
					if c.quick() {
						extras = []int{r.n(5), r.n(5)}
					}
					for _, extra := range extras {
						cc := build(n, e == 1, assign, place, extra, r.n(6), r.n(6))
						cnt++
						if err := check(cc); err != nil {
							return err
						}
					}
				}
			}
		}
	}
	res.Distribution["chain_cross_product_cases"] = cnt
	res.Exhaustive = true
	// orphans and broken chains: must be errors
	for _, src := range []string{`<p :else>x</p>`, `<p :elif="${t}">x</p>`, `<a :if="${f}">A</a><hr><p :else>x</p>`, `<div><p :else-if="true">x</p></div>`,
		`<a :if="${t}">A</a><hr><p :elseif="${t}">x</p>`} {
		rc := &renderCase{Files: [][2]string{{"main.html", src}}, Tpl: "main.html", Data: vMap(kv{"t", vBool(true)}, kv{"f", vBool(false)}).j}
		impl, _, err := compareRender(c, rc, true)
		if err != nil {
			return err
		}
		res.eval(caseKey(rc), true, J{"files": rc.Files})
		res.S3Checked++
		if impl.St != "err" {
			res.violate(rc.toJ(), "error: else-if/else without a preceding chain element", J{"st": impl.St, "out": impl.text()}, "orphan else-if/else accepted")
		}
	}
	// histories: one template object executed with a sequence of assignments must equal fresh executions
	hn := c.n(150, 3000)
	for h := 0; h < hn; h++ {
		n := 2 + r.n(3)
		cc := build(n, r.p(70), make([]bool, n), r.n(5), r.n(5), r.n(6), r.n(6))
		log := &callLog{}
		_, global, _ := cc.rc.goData(log)
		m, lerr, p := implLoad(cc.rc, global)
		if lerr != nil || p != nil {
			res.SelfTest = append(res.SelfTest, "history case does not load: "+jstr(cc.rc.Files))
			continue
		}
		shared, err := m.tm.GetTemplate("main.html")
		if err != nil {
			continue
		}
		steps := 2 + r.n(5)
		var hist []any
		for s := 0; s < steps; s++ {
			a := make([]bool, n)
			for i := range a {
				a[i] = r.p(40)
			}
			cs := build(n, strings.Contains(cc.rc.Files[len(cc.rc.Files)-1][1]+cc.rc.Files[0][1], ":else"), a, 0, 0, 0, 0)
			_ = cs
			// same template text, new data
			rc2 := *cc.rc
			d := valFromJSONFns(cc.rc.Data, nil)
			_ = d
			kv2 := []kv{}
			for i := 0; i < 4; i++ {
				v := false
				if i < n {
					v = a[i]
				}
				kv2 = append(kv2, kv{fmt.Sprintf("x%d", i+1), vBool(v)})
			}
			// rebuild data: functions + lists + new x_i
			dm := cc.rc.Data.(J)
			var kvj []any
			for _, e := range dm["kv"].([]any) {
				p := e.([]any)
				if !strings.HasPrefix(p[0].(string), "x") {
					kvj = append(kvj, e)
				}
			}
			for _, e := range kv2 {
				kvj = append(kvj, []any{e.k, e.v.j})
			}
			rc2.Data = J{"m": "map[string]interface {}", "kv": kvj}
			log2 := &callLog{}
			data2, _, _ := rc2.goData(log2)
			w := &chunkWriter{failAt: -1}
			errS := shared.Execute(w, data2)
			fresh := implRender(&rc2, -1)
			hist = append(hist, a)
			res.S3Checked++
			if (errS != nil) != (fresh.St != "ok") || strings.Join(w.chunks, "") != fresh.text() || strings.Join(log2.calls, ",") != strings.Join(fresh.Log, ",") {
				cj := rc2.toJ()
				cj["history"] = hist
				res.violate(cj, J{"fresh": fresh.text(), "log": fresh.Log}, J{"on_reused_object": strings.Join(w.chunks, ""), "log": log2.calls, "err": fmt.Sprint(errS)}, "execution on a reused template object differs from a fresh one (history of assignments)")
				break
			}
		}
		res.eval(caseKey(cc.rc)+fmt.Sprint(h), true, J{"history": hist, "files": cc.rc.Files})
	}
	// chains inside a data-bounded RECURSIVE fragment: every level runs the same nodes (same ids), so the chain record
	// of an outer level must not be disturbed by an inner level that selects another branch.  Native oracle: a
	// recursive walk of the tree data.
	if err := c03Recursive(c, r); err != nil {
		return err
	}
	// random placements from the general generator (chains among other directives), judged against the specification
	gn := c.n(600, 30000)
	for i := 0; i < gn; i++ {
		rc, st := genRenderCase(r, false)
		if st["chain_len_1"]+st["chain_len_2"]+st["chain_len_3"]+st["chain_len_4"] == 0 {
			continue
		}
		addStats(res, st)
		impl, _, err := compareRender(c, rc, true)
		if err != nil {
			return err
		}
		res.eval(caseKey(rc), impl.Load == "ok", J{"files": rc.Files, "out": trunc(impl.text(), 200)})
	}
	return nil
}

type c03Tree struct {
	name string
	kids []*c03Tree
}

func (t *c03Tree) val() val {
	ks := []val{}
	for _, k := range t.kids {
		ks = append(ks, k.val())
	}
	return vMap(kv{"name", vStr(t.name)}, kv{"last", vStr(t.name[len(t.name)-1:])}, kv{"kids", vAnySlice(ks...)})
}

func genC03Tree(r *rng, d int, name string) *c03Tree {
	t := &c03Tree{name: name}
	if d > 0 {
		for i, n := 0, r.n(3); i < n; i++ {
			t.kids = append(t.kids, genC03Tree(r, d-1-r.n(2), fmt.Sprintf("%s%d", name, i+1)))
		}
	}
	return t
}

// c03Recursive: three shapes of a chain whose selected element re-enters the fragment it belongs to.
func c03Recursive(c *ctx, r *rng) error {
	res := c.res
	type shape struct {
		tpl  string
		want func(t *c03Tree) string
	}
	var wa, wb, wc func(t *c03Tree) string
	kidsOf := func(f func(*c03Tree) string, t *c03Tree) string {
		var sb strings.Builder
		for _, k := range t.kids {
			sb.WriteString("<x>" + f(k) + "</x>")
		}
		return sb.String()
	}
	// (a) recursion inside the `if` element; elif / else follow it
	wa = func(t *c03Tree) string {
		switch {
		case len(t.kids) > 0:
			return "<b><u>" + t.name + "</u>" + kidsOf(wa, t) + "</b>"
		case strings.HasSuffix(t.name, "2"):
			return "<i>two</i>"
		}
		return "<s>" + t.name + "</s>"
	}
	// (b) recursion inside the `elif` element (the `if` is false for inner nodes with kids), else follows
	wb = func(t *c03Tree) string {
		switch {
		case len(t.kids) == 0 && strings.HasSuffix(t.name, "1"):
			return "<i>one</i>"
		case len(t.kids) > 0:
			return "<b>" + kidsOf(wb, t) + "<u>" + t.name + "</u></b>"
		}
		return "<s>" + t.name + "</s>"
	}
	// (c) two chains in one fragment, recursion inside the else of the first; the second chain follows it
	wc = func(t *c03Tree) string {
		out := ""
		if len(t.kids) == 0 {
			out = "<i>" + t.name + "</i>"
		} else {
			out = "<b>" + kidsOf(wc, t) + "</b>"
		}
		if strings.HasSuffix(t.name, "1") {
			out += "<em>1</em>"
		} else {
			out += "<em>n</em>"
		}
		return out
	}
	shapes := []shape{
		{`<template :define="node"><b :if="${len(n.kids) > 0}"><u :text="${n.name}">u</u><x :range="_, n : n.kids" :insert="node">x</x></b> <!-- c --><i :elif="${n.last == '2'}">two</i>
<s :else :text="${n.name}">o</s></template>`, wa},
		{`<template :define="node"><i :if="${len(n.kids) == 0 && n.last == '1'}">one</i><b :else-if="${len(n.kids) > 0}"><x :range="_, n : n.kids" :insert="node">x</x><u :text="${n.name}">u</u></b><s :else :text="${n.name}">o</s></template>`, wb},
		{`<template :define="node"><i :if="${len(n.kids) == 0}" :text="${n.name}">o</i><b :else><x :range="_, n : n.kids" :insert="node">x</x></b><em :if="${n.last == '1'}">1</em><em :else>n</em></template>`, wc},
	}
	n := c.n(60, 3000)
	for i := 0; i < n; i++ {
		sh := shapes[i%len(shapes)]
		var roots []*c03Tree
		var rv []val
		for k, m := 0, 1+r.n(3); k < m; k++ {
			t := genC03Tree(r, 1+r.n(3), string(rune('a'+k)))
			roots = append(roots, t)
			rv = append(rv, t.val())
		}
		want := ""
		for _, t := range roots {
			want += "<div>" + sh.want(t) + "</div>"
		}
		main := `<div :range="_, n : tree" :insert="node">x</div>`
		files := [][2]string{{"lib", sh.tpl}, {"t", main}}
		if r.p(50) {
			files = [][2]string{{"t", main}, {"lib", sh.tpl}}
		}
		rc := &renderCase{Files: files, Tpl: "t", Data: vMap(kv{"tree", vAnySlice(rv...)}).j}
		impl, _, err := compareRender(c, rc, true)
		if err != nil {
			return err
		}
		res.eval(caseKey(rc), true, J{"files": rc.Files})
		res.S3Checked++
		res.Distribution["recursive_chain_cases"]++
		// blank text / comments between chain elements are printed where they stand (shape a): compare modulo them
		got := strings.NewReplacer(" <!-- c -->", "", "\n", "").Replace(impl.text())
		if impl.St != "ok" || got != want {
			res.violate(rc.toJ(), want, J{"st": impl.St, "out": impl.text(), "err": trunc(impl.Err, 160)},
				"chain inside a recursive fragment: an inner level disturbed the chain of an outer level (or the wrong branch was rendered)")
		}
	}
	return nil
}
