package main

import (
	"fmt"
	"io"
	"io/fs"
	"regexp"
	"strings"
	"testing/fstest"

	"code.gopub.tech/tpl/html"
	"code.gopub.tech/tpl/types"
)

func init() {
	props["C07"] = propC07
	props["C16"] = propC16
}

func permutations(n int) [][]int {
	if n == 0 {
		return [][]int{{}}
	}
	var out [][]int
	for _, p := range permutations(n - 1) {
		for i := 0; i <= len(p); i++ {
			q := append(append(append([]int{}, p[:i]...), n-1), p[i:]...)
			out = append(out, q)
		}
	}
	return out
}

// C07: fragments — define is invisible, insert wraps, replace substitutes.
func propC07(c *ctx) error {
	res := c.res
	res.Rule = "sets of 1..4 template files in every load order; fragments defined before/after use, in the same or another file, nested definitions, fragments using other directives and calling further fragments (acyclic), literal and computed names, call sites under with/range/condition, blank-text trimming, unknown names; native oracle for the expected output and independence of the load order; distinct = distinct (files in order, data); non-trivial = all"
	r := newRng(c.seed, "C07")
	// a fixed, hand-written library with a known expected rendering
	lib := map[string]string{
		"page.html":  `<html><body :with="title := ${'T'}"><header :replace="hdr">discarded <b>children</b></header><main :insert="card">discarded</main><footer :insert="${'fo' + 'ot'}">x</footer></body></html>`,
		"parts.html": "<template :define=\"hdr\">\n  <h1 :text=\"${title}\">t</h1>\n</template><div :define=\"foot\"><i :text=\"${n}\">n</i><template :define=\"inner\"> <u>in</u> </template></div>",
		"card.html":  `<section :define="card"><p :range="_, it : items" :insert="row">x</p> <span :if="${show}" :replace="inner">y</span></section>`,
		"row.html":   `<x :define="row"><b :text="${it}">i</b></x>visible text of row.html`,
	}
	want := `<html><body><h1>T</h1><main><p><b>a</b></p> <p><b>b</b></p> <u>in</u></main><footer><i>7</i></footer></body></html>`
	names := []string{"page.html", "parts.html", "card.html", "row.html"}
	data := vMap(kv{"items", vStrSlice("a", "b")}, kv{"show", vBool(true)}, kv{"n", vInt(7)})
	perms := permutations(4)
	for _, p := range perms {
		var files [][2]string
		for _, i := range p {
			files = append(files, [2]string{names[i], lib[names[i]]})
		}
		rc := &renderCase{Files: files, Tpl: "page.html", Data: data.j}
		impl, _, err := compareRender(c, rc, true)
		if err != nil {
			return err
		}
		res.eval("lib|"+fmt.Sprint(p), true, J{"order": p})
		res.S3Checked++
		if impl.Load != "ok" || impl.St != "ok" || impl.text() != want {
			res.violate(rc.toJ(), want, J{"load": impl.Load, "st": impl.St, "out": impl.text(), "err": trunc(impl.Err, 200)}, "fragment resolution depends on the load order / define-insert-replace semantics violated")
		}
		if impl.Load == "ok" {
			got := strings.Join(impl.Templates, ",")
			if got != "card,card.html,foot,hdr,inner,page.html,parts.html,row,row.html" {
				res.violate(rc.toJ(), "card,card.html,foot,hdr,inner,page.html,parts.html,row,row.html", got, "registered template names differ (nested definitions must be registered too)")
			}
		}
	}
	res.Distribution["library_load_orders"] = len(perms)
	// every registered name — file or fragment — is a template of its own: GetTemplate finds it and executing it renders the
	// fragment's content (the partial-page use)
	{
		var files [][2]string
		for _, n := range names {
			files = append(files, [2]string{n, lib[n]})
		}
		files = append(files, [2]string{"extra.html", `a<p :define="f1">F</p>b<div :define="f2"> <i :text="${n}">x</i> </div>`})
		rc := &renderCase{Files: files, Tpl: "page.html", Data: data.j}
		if m, lerr, p := implLoad(rc, nil); lerr == nil && p == nil {
			alone := map[string]string{"f1": "F", "f2": "<i>7</i>", "inner": "<u>in</u>", "row": "<b>it</b>", "foot": "<i>7</i>", "extra.html": "ab", "row.html": "visible text of row.html"}
			for _, name := range m.names {
				t, err := m.tm.GetTemplate(name)
				res.S3Checked++
				res.count("fragments_executed_alone")
				if err != nil || t == nil {
					res.violate(J{"files": files, "name": name}, "a template", fmt.Sprint(err), "a registered name (file or fragment) is not found by GetTemplate")
					continue
				}
				if want, ok := alone[name]; ok {
					var sb strings.Builder
					d, _, _ := (&renderCase{Data: vMap(kv{"n", vInt(7)}, kv{"it", vStr("it")}).j}).goData(&callLog{})
					if err := t.Execute(&sb, d); err != nil || sb.String() != want {
						res.violate(J{"files": files, "name": name}, want, J{"out": sb.String(), "err": fmt.Sprint(err)}, "executing a fragment on its own does not render the fragment's content")
					}
				}
			}
		} else {
			res.SelfTest = append(res.SelfTest, "C07 library + extra file does not load")
		}
	}
	// single-clause cases with exact expectations
	type tc struct{ files [][2]string; tpl, want, errFlag string }
	cases := []tc{
		{[][2]string{{"t", `a<p :define="f">F</p>b`}}, "t", "ab", ""},
		{[][2]string{{"t", `<p :define="f"> <i>x</i> </p><div :insert="f" class=c>old</div>`}}, "t", `<div class=c><i>x</i></div>`, ""},
		{[][2]string{{"t", `<p :define="f">  </p>[<div :insert="f">old</div>]`}}, "t", `[<div></div>]`, ""},
		{[][2]string{{"t", `<p :define="f">a b</p>[<div :replace="f" class=c>old<i>x</i></div>]`}}, "t", `[a b]`, ""},
		{[][2]string{{"t", `<div :insert="nope">old</div>`}}, "t", "", "tplNotFound"},
		{[][2]string{{"t", `<div :replace="${n}">old</div>`}}, "t", "", "tplNotFound"},
		{[][2]string{{"t", `<div :insert="other.html">old</div>`}, {"other.html", "<b>file</b>"}}, "t", `<div><b>file</b></div>`, ""},
		{[][2]string{{"t", `<p :define="f"><i :text="${v}">x</i></p><div :with="v := ${'W'}"><s :insert="f">o</s></div><s :with="v := ${'Z'}" :insert="f">o</s>`}}, "t", `<div><s><i>W</i></s></div><s><i>Z</i></s>`, ""},
		{[][2]string{{"t", `<p :define="f"><a :if="${v}">1</a><b :else>2</b></p><u :range="_, v : bs" :insert="f">o</u>`}}, "t", `<u><a>1</a></u><u><b>2</b></u>`, ""},
		{[][2]string{{"t", `<p :define="f"><q :insert="g">o</q></p><p :define="g">G</p><r :replace="f">o</r>`}}, "t", `<q>G</q>`, ""},
		// a definition nested in the (discarded) body of an insert / replace host is still a definition
		{[][2]string{{"t", `<div :insert="f"><p :define="g">G</p></div><p :define="f">F</p><q :insert="g">o</q>`}}, "t", `<div>F</div><q>G</q>`, ""},
		{[][2]string{{"t", `<q :insert="g">o</q><div :replace="f">x<span><p :define="g"> G </p></span></div><p :define="f">F</p>`}}, "t", `<q> G </q>F`, ""},
		{[][2]string{{"u", `<i :insert="deep">o</i>`}, {"t", `<p :define="f"><a :if="${f}"><b :define="deep">D</b></a></p>`}}, "u", `<i>D</i>`, ""},
		// the fragment name is computed at EVERY rendering of the host, in the scope of that rendering
		{[][2]string{{"t", `<template :define="card-a">A</template><template :define="card-b">B</template><ul><li :range="_, k : ks" :insert="card-${k}">x</li></ul>`}}, "t", `<ul><li>A</li><li>B</li><li>A</li></ul>`, ""},
		{[][2]string{{"t", `<template :define="card-a">A</template><template :define="card-b">B</template><p :range="_, k : ks" :replace="card-${k}">x</p>|<p :range="_, k : ks"><i :with="j := ${k}" :insert="${'card-'}${j}">x</i></p>`}}, "t", `ABA|<p><i>A</i></p><p><i>B</i></p><p><i>A</i></p>`, ""},
		{[][2]string{{"t", `<template :define="card-a">A</template><ul><li :range="_, k : ks" :insert="card-${k}">x</li></ul>`}}, "t", "", "tplNotFound"},
		// an EMPTY file is a template like any other (a placeholder partial): inserting it inserts nothing
		{[][2]string{{"t", `[<div :insert="empty.html">o</div>]`}, {"empty.html", ""}}, "t", `[<div></div>]`, ""},
		{[][2]string{{"empty.html", ""}, {"t", `[<div :replace="empty.html">o</div>|<p :insert="${'empty' + '.html'}">o</p>]`}}, "t", `[|<p></p>]`, ""},
		{[][2]string{{"empty.html", ""}}, "empty.html", ``, ""},
		{[][2]string{{"blank.html", "\n"}, {"t", `[<div :insert="blank.html">o</div>]`}}, "t", "[<div>\n</div>]", ""},
		// the directive attributes may be written with white space around `=` (the scanner accepts it): still directives
		{[][2]string{{"t", `<p :define = "f">F</p>[<q :insert = "f">o</q>]`}}, "t", `[<q>F</q>]`, ""},
		{[][2]string{{"t", "<p :define\n=\n\"f\">F</p>[<q :replace\t=\"f\">o</q>]"}}, "t", `[F]`, ""},
		{[][2]string{{"t", `<p :define= 'f'>F</p>[<q :insert ='f'>o</q>]`}}, "t", `[<q>F</q>]`, ""},
		{[][2]string{{"u", `[<q :insert="f">o</q>]`}, {"t", `<template :define  =  "f"><i>x</i></template>`}}, "u", `[<q><i>x</i></q>]`, ""},
		// an unknown name is a template-not-found error on every kind of host, also one whose own tags are not printed
		{[][2]string{{"t", `<t:block :insert="nope">x</t:block>`}}, "t", "", "tplNotFound"},
		{[][2]string{{"t", `<div :insert="nope" :remove="tag">x</div>`}}, "t", "", "tplNotFound"},
		{[][2]string{{"t", `<div :insert="${n}" :remove="all">x</div>`}}, "t", "", "tplNotFound"},
		{[][2]string{{"t", `<t:block :replace="nope"/>`}}, "t", "", "tplNotFound"},
		{[][2]string{{"t", `<t:block :insert="${n}">x</t:block>`}}, "t", "", "tplNotFound"},
		// a whole FILE used as a fragment is not a definition: its content is taken as written, blank text at its start and
		// end included (trimming applies to the content of :define elements only)
		{[][2]string{{"t", `<pre :insert="part.html">old</pre>`}, {"part.html", "\n<b>x</b>\n"}}, "t", "<pre>\n<b>x</b>\n</pre>", ""},
		{[][2]string{{"t", `[<pre :replace="part.html">old</pre>]`}, {"part.html", "  <b>x</b>\n\t"}}, "t", "[  <b>x</b>\n\t]", ""},
		{[][2]string{{"t", `<pre :insert="part.html">old</pre>`}, {"part.html", "text only\n"}}, "t", "<pre>text only\n</pre>", ""},
		{[][2]string{{"t", `<pre :insert="part.html">old</pre>|<pre :insert="frag">old</pre>`}, {"part.html", " \n<p :define=\"frag\"> <i>f</i> </p>\n "}}, "t", "<pre> \n\n </pre>|<pre><i>f</i></pre>", ""},
		// remove="all-but-first" (and "body") on the SAME element as insert / replace / define, with child elements: the
		// host's own children are discarded by the fragment directive, the fragment content is what is rendered
		{[][2]string{{"t", `<p :define="items"><li>real</li></p><ul :insert="items" :remove="all-but-first"><li>proto 1</li><li>proto 2</li></ul>`}}, "t", `<ul><li>real</li></ul>`, ""},
		{[][2]string{{"t", `<p :define="items"><li>real</li><li>real 2</li></p>[<ul :replace="items" :remove="all-but-first"><li>proto 1</li><li>proto 2</li></ul>]`}}, "t", `[<li>real</li><li>real 2</li>]`, ""},
		{[][2]string{{"t", `[<ul :define="other" :remove="all-but-first"><li>proto 1</li><li>proto 2</li></ul>]<q :insert="other">o</q>`}}, "t", `[]<q><li>proto 1</li><li>proto 2</li></q>`, ""}, // (the fragment is the CONTENT of the defining element; its other directives play no part)
		// blank text is text of white space in the Unicode sense (form feed, vertical tab, NEL, no-break space, ideographic
		// space, line separator): trimmed at the ends of a definition like ordinary blanks
		{[][2]string{{"t", "<p :define=\"f\">\u3000<i>x</i>\u00a0</p>[<div :insert=\"f\">old</div>]"}}, "t", `[<div><i>x</i></div>]`, ""},
		{[][2]string{{"t", "<p :define=\"f\">\f<i>x</i>\v</p>[<div :replace=\"f\">old</div>]"}}, "t", `[<i>x</i>]`, ""},
		{[][2]string{{"t", "<p :define=\"f\">\u0085\u2028 <i>x</i> y \u2029\n</p>[<div :insert=\"f\">old</div>]"}}, "t", "[<div><i>x</i> y \u2029\n</div>]", ""},
		{[][2]string{{"t", "<p :define=\"f\">\u00a0</p>[<div :insert=\"f\">old</div>]"}}, "t", `[<div></div>]`, ""},
		// MANY fragment calls from one level are not nesting: 300 rows through replace and through insert
		{[][2]string{{"t", `<template :define="row">R</template><p :range="_, k : big" :replace="row">x</p>|<i :range="_, k : big" :insert="row">x</i>`}}, "t", strings.Repeat("R", 300) + "|" + strings.Repeat("<i>R</i>", 300), ""},
		// a recursive fragment bounded by the data (tree rendering)
		{[][2]string{{"t", `<ul><li :range="_, n : tree" :insert="node">x</li></ul><template :define="node"><b :text="${n.name}">b</b><ul :if="${len(n.kids) > 0}"><li :range="_, n : n.kids" :insert="node">x</li></ul></template>`}}, "t",
			`<ul><li><b>a</b><ul><li><b>a1</b></li><li><b>a2</b><ul><li><b>a2x</b></li></ul></li></ul></li><li><b>b</b></li></ul>`, ""},
	}
	bigN := make([]int, 300)
	bigInts := vIntSlice(bigN...)
	for _, t := range cases {
		leaf := func(n string) val { return vMap(kv{"name", vStr(n)}, kv{"kids", vAnySlice()}) }
		tree := vAnySlice(vMap(kv{"name", vStr("a")}, kv{"kids", vAnySlice(leaf("a1"), vMap(kv{"name", vStr("a2")}, kv{"kids", vAnySlice(leaf("a2x"))}))}), leaf("b"))
		rc := &renderCase{Files: t.files, Tpl: t.tpl, Data: vMap(kv{"n", vStr("nope")}, kv{"f", vBool(false)}, kv{"bs", vAnySlice(vBool(true), vBool(false))}, kv{"tree", tree}, kv{"ks", vStrSlice("a", "b", "a")}, kv{"big", bigInts}).j}
		impl, _, err := compareRender(c, rc, true)
		if err != nil {
			return err
		}
		res.eval("clause|"+jstr(t.files), true, J{"files": t.files})
		res.S3Checked++
		if t.errFlag != "" {
			if impl.St != "err" || !contains(impl.Flags, t.errFlag) {
				res.violate(rc.toJ(), "error flagged "+t.errFlag, J{"st": impl.St, "flags": impl.Flags, "out": impl.text()}, "an unknown fragment name is not a template-not-found error")
			}
		} else if impl.St != "ok" || impl.text() != t.want {
			res.violate(rc.toJ(), t.want, J{"load": impl.Load, "st": impl.St, "out": impl.text(), "err": trunc(impl.Err, 160)}, "define / insert / replace semantics")
		}
	}
	// the manager is filled by ANY mixture of loading steps (Add of single files, Parse* of file systems, in any order):
	// everything loaded by an earlier step stays resolvable after a later one
	{
		lib := map[string]string{"lib/a.html": `<i :define="fa">A</i>`, "lib/b.html": `<i :define="fb">B</i>`}
		pages := map[string]string{"p.html": `<p :insert="fa">x</p><p :insert="fb">x</p><p :replace="solo">x</p>`}
		solo := `<b :define="solo">S</b>`
		mkfs := func(m map[string]string) fstest.MapFS {
			f := fstest.MapFS{}
			for k, v := range m {
				f[k] = &fstest.MapFile{Data: []byte(v)}
			}
			return f
		}
		type tmT = interface {
			Add(string, io.Reader) error
			ParseWithSuffix(fs.FS, string) error
			ParseWithRegexp(fs.FS, *regexp.Regexp) error
		}
		steps := map[string]func(m tmT) error{
			"add-solo":    func(m tmT) error { return m.Add("solo.html", strings.NewReader(solo)) },
			"parse-lib":   func(m tmT) error { return m.ParseWithSuffix(mkfs(lib), ".html") },
			"parse-pages": func(m tmT) error { return m.ParseWithRegexp(mkfs(pages), regexp.MustCompile(`\.html$`)) },
		}
		orders := [][]string{{"add-solo", "parse-lib", "parse-pages"}, {"parse-lib", "add-solo", "parse-pages"}, {"parse-pages", "parse-lib", "add-solo"},
			{"parse-lib", "parse-pages", "add-solo"}, {"add-solo", "parse-pages", "parse-lib"}, {"parse-pages", "add-solo", "parse-lib"}}
		for _, ord := range orders {
			m := html.NewTplManager()
			var lerr error
			for _, st := range ord {
				if err := steps[st](m); err != nil {
					lerr = fmt.Errorf("%s: %w", st, err)
					break
				}
			}
			got := ""
			if lerr == nil {
				if t, err := m.GetTemplate("p.html"); err != nil {
					lerr = err
				} else {
					var sb strings.Builder
					if err := t.Execute(&sb, nil); err != nil {
						lerr = err
					}
					got = sb.String()
				}
			}
			res.eval("steps|"+strings.Join(ord, ","), true, J{"loading_steps": ord})
			res.S3Checked++
			res.count("mixed_loading_steps")
			if want := `<p>A</p><p>B</p>S`; lerr != nil || got != want {
				res.violate(J{"loading_steps": ord, "lib": lib, "pages": pages}, want, J{"out": got, "err": fmt.Sprint(lerr)},
					"templates loaded by an earlier loading step are not resolvable after a later one (names are resolved across the whole manager regardless of load order)")
			}
		}
	}
	// generated sets: load-order independence and specification
	gn := c.n(300, 12000)
	for i := 0; i < gn; i++ {
		rc, st := genRenderCase(r, false)
		if len(rc.Files) < 2 && !strings.Contains(rc.Files[0][1], "define") {
			continue
		}
		addStats(res, st)
		impl, _, err := compareRender(c, rc, true)
		if err != nil {
			return err
		}
		res.eval(caseKey(rc), impl.Load == "ok", J{"files": rc.Files})
		if len(rc.Files) == 2 {
			rc2 := *rc
			rc2.Files = [][2]string{rc.Files[1], rc.Files[0]}
			o2 := implRender(&rc2, -1)
			res.S3Checked++
			if o2.Load != impl.Load || o2.St != impl.St || o2.text() != impl.text() {
				res.violate(rc.toJ(), J{"st": impl.St, "out": trunc(impl.text(), 200)}, J{"reversed_order": J{"load": o2.Load, "st": o2.St, "out": trunc(o2.text(), 200)}}, "result depends on the order in which the files were loaded")
			}
		}
	}
	return nil
}

// C16: rendering is a pure function of template and data.
func propC16(c *ctx) error {
	res := c.res
	res.Rule = "generated template sets x sequences of 2..6 data valuations (including ones that make the render fail half-way) executed on ONE template object, interleaved with executions of other objects of the same manager; every output/error/call log is compared with a fresh single execution on the same data; distinct = distinct (files, history); non-trivial = the history has >= 2 different valuations"
	r := newRng(c.seed, "C16")
	n := c.n(400, 20000)
	for i := 0; i < n; i++ {
		rc, st := genRenderCase(r, false)
		addStats(res, st)
		log := &callLog{}
		_, global, _ := rc.goData(log)
		m, lerr, p := implLoad(rc, global)
		if lerr != nil || p != nil {
			res.count("load_err")
			continue
		}
		res.count("load_ok")
		shared, err := m.tm.GetTemplate(rc.Tpl)
		if err != nil {
			continue
		}
		other, _ := m.tm.GetTemplate(rc.Tpl)
		steps := 2 + r.n(5)
		var hist []any
		distinctVals := map[string]bool{}
		bad := false
		for s := 0; s < steps && !bad; s++ {
			// a new valuation: regenerate the data frame with the same function table
			g := &tplGen{r: r, ap: ":", tp: "t:", stats: map[string]int{}, frags: []string{"f1", "f2"}}
			dv, _ := g.dataFrame()
			if r.p(25) { // a valuation that makes most renders fail half-way
				dm := dv.j.(J)
				kvj := dm["kv"].([]any)
				var kept []any
				for _, e := range kvj {
					if k := e.([]any)[0].(string); k != "a" && k != "xs" {
						kept = append(kept, e)
					}
				}
				dv = val{nil, J{"m": "map[string]interface {}", "kv": kept}}
			}
			rc2 := *rc
			rc2.Data = dv.j
			hist = append(hist, dv.j)
			distinctVals[jstr(dv.j)] = true
			log2 := &callLog{}
			data2, _, _ := rc2.goData(log2)
			if r.p(40) { // interleave another object of the same manager
				w0 := &chunkWriter{failAt: -1}
				func() {
					defer func() { recover() }()
					other.Execute(w0, data2)
				}()
				log2.calls = nil
			}
			w := &chunkWriter{failAt: -1}
			var errS error
			func() {
				defer func() {
					if x := recover(); x != nil {
						errS = fmt.Errorf("panic: %v", x)
					}
				}()
				errS = shared.Execute(w, data2)
			}()
			fresh := implRender(&rc2, -1)
			res.S3Checked++
			// the same valuation through tpl.RenderToBytes / RenderToString: as a history of their own (earlier results are
			// looked at again after later calls; failing renders of another template in between)
			if s%2 == 0 && !bad {
				mk := func() any { d, _, _ := rc2.goData(&callLog{}); return d }
				if why := entryPointHistory(shared, nil, fresh.text(), fresh.St != "ok", mk, 2, s%4 == 0); why != "" {
					cj := rc2.toJ()
					cj["history"] = hist
					res.violate(cj, J{"fresh": trunc(fresh.text(), 300), "st": fresh.St}, why, "RenderToBytes / RenderToString on a reused template object differ from a fresh execution with the same data")
					bad = true
				}
				res.count("entry_point_histories")
			}
			if (errS != nil) != (fresh.St != "ok") || strings.Join(w.chunks, "") != fresh.text() || strings.Join(log2.calls, ",") != strings.Join(fresh.Log, ",") {
				cj := rc2.toJ()
				cj["history"] = hist
				res.violate(cj, J{"fresh": trunc(fresh.text(), 300), "st": fresh.St, "log": fresh.Log}, J{"reused": trunc(strings.Join(w.chunks, ""), 300), "err": fmt.Sprint(errS), "log": log2.calls},
					fmt.Sprintf("execution #%d on a reused template object differs from a fresh execution with the same data", s+1))
				bad = true
			}
		}
		res.eval(caseKey(rc)+jstr(hist), len(distinctVals) >= 2, J{"files": rc.Files, "steps": steps})
		if c.d != nil && i%4 == 0 {
			if _, _, err := compareRender(c, rc, true); err != nil {
				return err
			}
		}
	}
	if err := c16LateLoad(c, r); err != nil {
		return err
	}
	if err := c16Twins(c, r); err != nil {
		return err
	}
	c16ErrorTexts(c, r)
	if err := c16Nested(c, r); err != nil {
		return err
	}
	if err := c16Builtins(c, r); err != nil {
		return err
	}
	if err := c16Names(c, r); err != nil {
		return err
	}
	if err := c16Order(c); err != nil {
		return err
	}
	for _, hot := range []bool{false, true} {
		c.res.S3Checked++
		c.res.count("render_instance_histories")
		if why := instanceHistory(hot); why != "" {
			c.res.violate(J{"sub": "one types.Render instance rendered repeatedly", "hot_reload": hot}, "each Render depends on its own writer only", why,
				"a Render instance remembers the outcome of an earlier Render (a failed write) and returns it for later renders")
		}
	}
	return nil
}

// c16Order: the bindings of one `with` are evaluated in the order in which they are written, in EVERY execution: functions
// with side effects see that order, and when several values fail it is always the first one whose failure is reported.
func c16Order(c *ctx) error {
	res := c.res
	src := `<p :with="a := ${next()}; b := ${next()}; c := ${next()}; d := ${next()}" :text="${a}-${b}-${c}-${d}">o</p>`
	bad := `<p :with="a := ${nope1}; b := ${nope2}; c := ${1 / zero}; d := ${nope4}">o</p>`
	m := html.NewTplManager()
	if err := m.Add("t", strings.NewReader(src)); err != nil {
		res.SelfTest = append(res.SelfTest, "C16 order template does not load: "+err.Error())
		return nil
	}
	m.Add("bad", strings.NewReader(bad))
	firstErr := ""
	for i, n := 0, c.n(200, 5000); i < n; i++ {
		t, _ := m.GetTemplate("t")
		k := 0
		var sb strings.Builder
		err := t.Execute(&sb, map[string]any{"next": func() int { k++; return k }})
		res.S3Checked++
		res.count("with_order_executions")
		if err != nil || sb.String() != "<p>1-2-3-4</p>" {
			res.violate(J{"tpl": src, "execution": i + 1}, "<p>1-2-3-4</p>", J{"out": sb.String(), "err": fmt.Sprint(err)}, "the bindings of one with are not evaluated in written order in every execution")
			break
		}
		tb, _ := m.GetTemplate("bad")
		var sb2 strings.Builder
		err2 := tb.Execute(&sb2, map[string]any{"zero": 0})
		es := fmt.Sprint(err2)
		if firstErr == "" {
			firstErr = es
		}
		if err2 == nil || es != firstErr || !strings.Contains(es, "nope1") {
			res.violate(J{"tpl": bad, "execution": i + 1}, firstErr, es, "which of several failing with-values is reported differs from one execution to the next (or is not the first)")
			break
		}
	}
	res.eval("with-order", true, J{"tpl": src})
	return nil
}

// c16Names: histories over templates whose blocks use identifiers of every alphabet (non-ASCII letters, one-letter names,
// names that differ only in case or by a combining mark), digits-only blocks and literal-only blocks next to them: a block
// is re-evaluated against the data of EVERY execution, however constant its text may look.
func c16Names(c *ctx, r *rng) error {
	res := c.res
	src := `<p :title="${问候 + '!'}"><em :text="${名字}">o</em><i :with="v := ${数 * 2}" :text="${v}">o</i><b :text="${é}${É}${x}${X}">o</b><u :if="${да}" :text="${ß}">o</u><s :else :text="${'lit'}${1 + 1}">o</s></p>`
	mk := func() (types.Template, error) {
		m := html.NewTplManager()
		if err := m.Add("t", strings.NewReader(src)); err != nil {
			return nil, err
		}
		return m.GetTemplate("t")
	}
	n := c.n(30, 1000)
	for i := 0; i < n; i++ {
		shared, err := mk()
		if err != nil {
			res.SelfTest = append(res.SelfTest, "C16 unicode-name template does not load: "+err.Error())
			return nil
		}
		var hist []any
		for s, steps := 0, 3+r.n(5); s < steps; s++ {
			name, greet, num := fmt.Sprint("名", r.n(50)), fmt.Sprint("hi", r.n(50)), r.n(40)
			e1, e2, x1, x2, yes, sz := fmt.Sprint("e", r.n(9)), fmt.Sprint("E", r.n(9)), r.n(9), r.n(9)+10, r.p(50), fmt.Sprint("ß", r.n(9))
			data := map[string]any{"名字": name, "问候": greet, "数": num, "é": e1, "É": e2, "x": x1, "X": x2, "да": yes, "ß": sz}
			missing := ""
			if r.p(20) { // an execution whose data lacks one of the names fails — also after executions that had it
				missing = []string{"名字", "数", "É"}[r.n(3)]
				delete(data, missing)
			}
			tail := "<s>lit2</s>"
			if yes {
				tail = "<u>" + sz + "</u>"
			}
			want := fmt.Sprintf(`<p title="%s!"><em>%s</em><i>%d</i><b>%s%s%d%d</b>%s</p>`, greet, name, 2*num, e1, e2, x1, x2, tail)
			t := shared
			where := "one template object"
			if r.p(30) {
				t, _ = mk()
				where = "a fresh manager in the same process"
			}
			hist = append(hist, J{"名字": name, "数": num, "missing": missing, "on": where})
			var sb strings.Builder
			errS := ""
			func() {
				defer func() {
					if x := recover(); x != nil {
						errS = fmt.Sprint("panic: ", x)
					}
				}()
				if err := t.Execute(&sb, data); err != nil {
					errS = "err"
				}
			}()
			res.S3Checked++
			res.count("unicode_name_steps")
			wantErr := missing != ""
			if wantErr {
				if errS == "" {
					res.violate(J{"sub": "names", "tpl": src, "history": hist}, "error: "+missing+" is not defined in this execution", sb.String(), fmt.Sprintf("execution #%d of a history: a name missing from THIS execution's data is resolved (from an earlier execution)", s+1))
					break
				}
				continue
			}
			if errS != "" || sb.String() != want {
				res.violate(J{"sub": "names", "tpl": src, "history": hist}, want, J{"out": sb.String(), "err": errS}, fmt.Sprintf("execution #%d of a history over non-ASCII names differs from what its own data gives", s+1))
				break
			}
		}
		res.eval("names|"+jstr(hist), true, J{"history": hist})
	}
	return nil
}

// c16Builtins: histories in which the data of one execution defines a name that is also a built-in function / constant
// (len, true, print, int, isNil) and the data of another execution does not — on one template object, on several objects
// and managers of one process, in every order. What an earlier execution resolved (in the data or in the built-ins) must
// not be remembered for a later one.
func c16Builtins(c *ctx, r *rng) error {
	res := c.res
	src := `<p :text="${len(xs)}|${true}|${print('a')}|${int(2)}|${isNil(xs)}">o</p><i :if="${true}">T</i><i :else>F</i>`
	type ov struct {
		name string
		v    any
		// rendering of the overridden slot
		slot int
		out  string
	}
	ovs := []ov{
		{"len", func(any) int { return 42 }, 0, "42"},
		{"true", false, 1, "false"},
		{"print", func(...any) string { return "P" }, 2, "P"},
		{"int", func(any) string { return "I" }, 3, "I"},
		{"isNil", func(any) string { return "N" }, 4, "N"},
	}
	base := []string{"2", "true", "a", "2", "false"}
	mkMgr := func() (types.Template, error) {
		m := html.NewTplManager()
		if err := m.Add("t", strings.NewReader(src)); err != nil {
			return nil, err
		}
		return m.GetTemplate("t")
	}
	n := c.n(40, 1500)
	for i := 0; i < n; i++ {
		shared, err := mkMgr()
		if err != nil {
			res.SelfTest = append(res.SelfTest, "C16 builtin-collision template does not load: "+err.Error())
			return nil
		}
		var hist []any
		for s, steps := 0, 3+r.n(6); s < steps; s++ {
			data := map[string]any{"xs": []int{1, 2}}
			slots := append([]string{}, base...)
			mask := 0
			if s > 0 || i%2 == 1 { // every other history starts with a plain execution
				mask = r.n(1 << len(ovs))
				if r.p(30) {
					mask = 0
				}
			}
			var used []string
			for k, o := range ovs {
				if mask&(1<<k) != 0 {
					data[o.name] = o.v
					slots[o.slot] = o.out
					used = append(used, o.name)
				}
			}
			want := "<p>" + strings.Join(slots, "|") + "</p>"
			if mask&2 != 0 {
				want += "<i>F</i>"
			} else {
				want += "<i>T</i>"
			}
			t := shared
			where := "one template object"
			if r.p(30) {
				t, _ = mkMgr()
				where = "a fresh manager in the same process"
			}
			hist = append(hist, J{"data_defines": used, "on": where})
			var sb strings.Builder
			errS := ""
			func() {
				defer func() {
					if x := recover(); x != nil {
						errS = fmt.Sprint("panic: ", x)
					}
				}()
				if err := t.Execute(&sb, data); err != nil {
					errS = err.Error()
				}
			}()
			res.S3Checked++
			res.count("builtin_collision_steps")
			if errS != "" || sb.String() != want {
				res.violate(J{"sub": "builtins", "tpl": src, "history": hist}, want, J{"out": sb.String(), "err": trunc(errS, 200)},
					fmt.Sprintf("execution #%d of a history: a name that is both in the data of SOME executions and a built-in is not resolved from this execution's own data first", s+1))
				break
			}
		}
		res.eval("builtins|"+jstr(hist), true, J{"history": hist})
	}
	return nil
}

// c16Nested: executions that OVERLAP without racing. A data function called in the middle of an attribute value, a text
// value, a loop body, a with binding or a condition renders a template of the same manager (the same object, another object
// of the same name, or another file) with other data — in the calling goroutine or in another goroutine the caller waits
// for — and returns that output. Every execution involved must produce what it produces when nothing else is running:
// the inner output equals the inner execution alone, the outer output equals an execution in which the function returns
// that same string as a constant. ("output depends only on the loaded templates and the data passed to that call")
func c16Nested(c *ctx, r *rng) error {
	res := c.res
	files := [][2]string{
		{"page", `<p :title="Hello, ${name}! ${sub()} and ${n} more" :text="A ${name} ${sub()} ${n}" data-k="${name}">o</p>` +
			`<ul><li :range="i, x : xs" :class="c${i} ${sub()} ${x}" :text="${x}-${sub()}-${i}">o</li> </ul>` +
			`<div :with="w := ${name + sub()}; v := ${n}"><b :if="${sub() != 'never'}" :text="${w}${sub()}${v}">o</b><i :else="">e</i></div>` +
			`<div :insert="frag">x</div><span :replace="frag">y</span>`},
		{"other", `<q :title="${n}:${name}:${sub()}" :text="${sub()}${name}">o</q><div :insert="frag">z</div>`},
		{"lib", `<em :define="frag" :data-a="f ${name} ${sub()} ${n}" :text="${n}${sub()}${name}">f</em>`},
	}
	load := func() (types.TemplateManager, error) {
		m := html.NewTplManager()
		for _, f := range files {
			if err := m.Add(f[0], strings.NewReader(f[1])); err != nil {
				return nil, err
			}
		}
		return m, nil
	}
	run := func(t types.Template, data any) (out string, errS string) {
		var sb strings.Builder
		defer func() {
			if x := recover(); x != nil {
				errS = fmt.Sprint("panic: ", x)
			}
		}()
		if err := t.Execute(&sb, data); err != nil {
			errS = "err"
		}
		return sb.String(), errS
	}
	mkData := func(name string, n int, xs []any, sub func() string) map[string]any {
		return map[string]any{"name": name, "n": n, "xs": xs, "sub": sub}
	}
	n := c.n(60, 2000)
	for i := 0; i < n; i++ {
		m, err := load()
		if err != nil {
			res.SelfTest = append(res.SelfTest, "C16 nested template does not load: "+err.Error())
			return nil
		}
		outerName := []string{"page", "other"}[r.n(2)]
		innerName := []string{"page", "other", "page"}[r.n(3)]
		shared, _ := m.GetTemplate(outerName)
		depth := 1 + r.n(3)
		otherGoroutine := r.p(50)
		sameObject := r.p(60)
		failInner := r.p(12)
		// valuations per level; level 0 is the outer execution
		type lvl struct {
			name string
			n    int
			xs   []any
		}
		lv := make([]lvl, depth+1)
		for k := range lv {
			lv[k] = lvl{fmt.Sprintf("N%d<%d", k, r.n(9)), r.n(50) + 100*k, nil}
			for j, cnt := 0, r.n(4); j < cnt; j++ {
				lv[k].xs = append(lv[k].xs, fmt.Sprintf("x%d%d", k, j))
			}
		}
		tplAt := func(k int) string {
			if k == 0 {
				return outerName
			}
			return innerName
		}
		// alone[k]: output of level k when everything below it is a constant (computed bottom-up on FRESH managers)
		alone := make([]string, depth+2)
		aloneErr := make([]string, depth+2)
		alone[depth+1] = "LEAF"
		for k := depth; k >= 0; k-- {
			fm, _ := load()
			ft, _ := fm.GetTemplate(tplAt(k))
			below, belowErr := alone[k+1], aloneErr[k+1]
			var data any = mkData(lv[k].name, lv[k].n, lv[k].xs, func() string {
				if belowErr != "" {
					return "ERR"
				}
				return below
			})
			if k == depth && failInner {
				data = map[string]any{"name": lv[k].name} // n, xs, sub missing: the innermost execution fails half-way
			}
			alone[k], aloneErr[k] = run(ft, data)
		}
		// the overlapped run on ONE manager
		got := make([]string, depth+1)
		gotErr := make([]string, depth+1)
		var exec func(k int) string
		exec = func(k int) string {
			var t types.Template
			if k == 0 || (sameObject && tplAt(k) == outerName) {
				t = shared
			} else {
				t, _ = m.GetTemplate(tplAt(k))
			}
			var data any = mkData(lv[k].name, lv[k].n, lv[k].xs, func() string {
				if k == depth {
					return "LEAF"
				}
				if otherGoroutine {
					ch := make(chan string)
					go func() { ch <- exec(k + 1) }()
					return <-ch
				}
				return exec(k + 1)
			})
			if k == depth && failInner {
				data = map[string]any{"name": lv[k].name}
			}
			// the same function is called several times in one execution: keep the LAST result per level
			o, e := run(t, data)
			got[k], gotErr[k] = o, e
			if e != "" {
				return "ERR"
			}
			return o
		}
		crumb("Template.Execute (nested executions on one manager)", J{"outer": outerName, "inner": innerName, "depth": depth, "files": files})
		exec(0)
		crumbAt.Store(0)
		res.S3Checked++
		res.count(fmt.Sprintf("nested_depth_%d", depth))
		res.count("nested_outer_" + orOK(aloneErr[0]))
		cs := J{"sub": "nested", "outer": outerName, "inner": innerName, "depth": depth, "other_goroutine": otherGoroutine, "same_object": sameObject, "fail_inner": failInner, "files": files}
		res.eval(jstr(cs)+fmt.Sprint(lv), true, cs)
		for k := 0; k <= depth; k++ {
			if got[k] != alone[k] || gotErr[k] != aloneErr[k] {
				res.violate(cs, J{"level": k, "alone": trunc(alone[k], 400), "err": aloneErr[k]}, J{"overlapped": trunc(got[k], 400), "err": gotErr[k]},
					fmt.Sprintf("execution at nesting level %d overlapping with other executions of the same manager differs from the same execution alone", k))
				break
			}
		}
	}
	return nil
}

// c16LateLoad: a template object obtained and executed BEFORE further files are added to its manager sees, on its next
// execution, the templates loaded by then — exactly like a freshly obtained object ("depend only on the loaded templates").
func c16LateLoad(c *ctx, r *rng) error {
	res := c.res
	mains := []string{
		`<main><section :if="${use}" :insert="late">x</section><p :else>none</p></main>`,
		`<main><t:block :range="_, k : ks" :replace="late">x</t:block></main>`,
		`<main><i :insert="${use ? 'late' : 'early'}">x</i></main><b :define="early">E</b>`,
	}
	for mi, main := range mains {
		for _, firstUse := range []bool{false, true} {
			m := html.NewTplManager()
			if err := m.Add("main.html", strings.NewReader(main)); err != nil {
				res.SelfTest = append(res.SelfTest, "C16 late-load template does not load: "+err.Error())
				continue
			}
			old, _ := m.GetTemplate("main.html")
			exec := func(t types.Template, use bool) string {
				var sb strings.Builder
				ks := []int{}
				if use {
					ks = []int{1, 2}
				}
				err := t.Execute(&sb, map[string]any{"use": use, "ks": ks})
				if err != nil {
					return sb.String() + "|ERR"
				}
				return sb.String()
			}
			first := exec(old, firstUse) // succeeds without the fragment, fails (not found) with it
			if err := m.Add("late.html", strings.NewReader(`<i :define="late">two</i>`)); err != nil {
				res.SelfTest = append(res.SelfTest, "C16 late file does not load: "+err.Error())
				continue
			}
			fresh, _ := m.GetTemplate("main.html")
			for _, use := range []bool{true, false, true} {
				a, b := exec(old, use), exec(fresh, use)
				res.S3Checked++
				res.count("late_load_executions")
				if a != b || (use && strings.HasSuffix(b, "|ERR")) {
					res.violate(J{"main": main, "first_execution_used_fragment": firstUse, "first_result": first, "use": use}, b, a,
						"an object executed before another file was loaded renders differently from a freshly obtained one")
				}
			}
			res.eval(fmt.Sprintf("late|%d|%v", mi, firstUse), true, J{"main": main})
		}
	}
	_ = r
	return nil
}

// c16Twins: histories over data of DIFFERENT Go types that look alike — distinct struct types with the same printed
// name (function-local types), the same field names in another order or with other kinds, a map with the same keys —
// on one template object, on fresh objects and on fresh managers.  Nothing learnt from one value's type may be
// applied to another's.  Native oracle.
// c16ErrorTexts: a failing execution reports the same error — the same TEXT, positions included — whether the template
// object is fresh or has been executed before (successfully or not), for a failure in every kind of directive.
func c16ErrorTexts(c *ctx, r *rng) {
	res := c.res
	tpls := []string{
		"<ul>\n  <li :range=\"i, it : resp.Items\" :text=\"${it}\">x</li>\n</ul>",
		"<ul><li :range=\"it : resp.Items\">${it}</li></ul>",
		"<p>\n <b :text=\"pre ${resp.Title} post\">x</b></p>",
		"<p :if=\"${resp.Ok}\">y</p><p :else>n</p>",
		"<div :with=\"a := ${one}; b := ${resp.Title}\"><i :text=\"${a}${b}\">x</i></div>",
		"<a :href=\"/u/${resp.Id}\" :title=\"${one}\">l</a>",
		"<p>\n\n   <t:block :text=\"${one + resp.N}\"/></p>",
		"<div :insert=\"${resp.Frag}\">d</div>",
		"<p :range=\"k, v : m\"><b :range=\"j, w : v.Items\" :text=\"${w}\">x</b></p>",
		"<p :raw=\"${resp.Html}\">r</p><p :text=\"${1 / resp.Zero}\">z</p>",
	}
	good := func(k int) map[string]any {
		return map[string]any{"one": 1, "resp": map[string]any{"Items": []any{k, "b"}, "Title": fmt.Sprint("t", k), "Ok": k%2 == 0, "Id": k, "N": k, "Frag": "t", "Html": "<i>", "Zero": 1 + k},
			"m": map[string]any{"k": map[string]any{"Items": []any{k}}}}
	}
	bads := []map[string]any{
		{"one": 1},
		{"one": 1, "resp": map[string]any{}, "m": map[string]any{"k": map[string]any{}}},
		{"one": 1, "resp": map[string]any{"Items": 5, "Title": nil, "Ok": "x", "Zero": 0, "N": "s", "Frag": "nope"}, "m": map[string]any{"k": 3}},
	}
	exec := func(t types.Template, data any) (out, errS string) {
		var sb strings.Builder
		err := func() (err error) {
			defer func() {
				if x := recover(); x != nil {
					err = fmt.Errorf("panic: %v", x)
				}
			}()
			return t.Execute(&sb, data)
		}()
		if err != nil {
			errS = err.Error()
		}
		return sb.String(), errS
	}
	for ti, src := range tpls {
		fresh := func() types.Template {
			m := html.NewTplManager()
			if err := m.Add("t", strings.NewReader(src)); err != nil {
				return nil
			}
			if err := m.Add("u", strings.NewReader("<p>frag</p>")); err != nil {
				return nil
			}
			t, _ := m.GetTemplate("t")
			return t
		}
		shared := fresh()
		if shared == nil {
			res.SelfTest = append(res.SelfTest, "C16 error-text template does not load: "+src)
			continue
		}
		for round := 0; round < 3; round++ {
			var hist []any
			for s, steps := 0, 4+r.n(5); s < steps; s++ {
				var data map[string]any
				if r.p(50) {
					data = bads[r.n(len(bads))]
				} else {
					data = good(r.n(4))
					if ti == 7 {
						data["resp"].(map[string]any)["Frag"] = "u"
					}
				}
				hist = append(hist, data)
				wantOut, wantErr := exec(fresh(), data)
				gotOut, gotErr := exec(shared, data)
				res.S3Checked++
				res.count("error_text_histories")
				if gotOut != wantOut || gotErr != wantErr {
					res.violate(J{"tpl": src, "history": hist}, J{"out": wantOut, "err": wantErr}, J{"out": gotOut, "err": gotErr},
						fmt.Sprintf("execution #%d on a reused template object reports another error text (or output) than a fresh execution with the same data", len(hist)))
					break
				}
			}
			res.eval(fmt.Sprintf("errtext|%d|%s", ti, jstr(hist)), true, J{"tpl": src})
		}
	}
}

func c16Twins(c *ctx, r *rng) error {
	res := c.res
	mk, tpls := twinMk, twinTpls
	n := c.n(40, 1500)
	for i := 0; i < n; i++ {
		ti := i % len(tpls)
		fresh := func() (types.Template, error) {
			m := html.NewTplManager()
			if err := m.Add("t", strings.NewReader(tpls[ti])); err != nil {
				return nil, err
			}
			return m.GetTemplate("t")
		}
		shared, err := fresh()
		if err != nil {
			res.SelfTest = append(res.SelfTest, "C16 twin template does not load: "+err.Error())
			return nil
		}
		var hist []any
		for s, steps := 0, 3+r.n(5); s < steps; s++ {
			k := r.n(len(mk))
			title, num := fmt.Sprintf("t%d", r.n(5)), r.n(90)
			v := mk[k](title, num)
			data := map[string]any{"p": v, "ps": []any{v, mk[r.n(len(mk))](title+"x", num+1)}}
			want := twinWant(ti, title, num)
			hist = append(hist, J{"type": k, "title": title, "n": num})
			t := shared
			where := "one template object"
			switch r.n(3) {
			case 1:
				t, _ = fresh()
				where = "a fresh manager"
			}
			var sb strings.Builder
			err := func() (err error) {
				defer func() {
					if x := recover(); x != nil {
						err = fmt.Errorf("panic: %v", x)
					}
				}()
				return t.Execute(&sb, data)
			}()
			res.S3Checked++
			res.count("twin_type_executions")
			if err != nil || sb.String() != want {
				res.violate(J{"tpl": tpls[ti], "history": hist, "executed_on": where}, want, J{"out": sb.String(), "err": fmt.Sprint(err)},
					"the result depends on the TYPE of data rendered earlier (struct types that look alike)")
				break
			}
		}
		res.eval(fmt.Sprintf("twins|%d|%s", ti, jstr(hist)), true, J{"tpl": tpls[ti], "history": hist})
	}
	return nil
}

// twin data types: distinct Go types that print the same name ("main.Page") with the same-named fields at different
// positions / of different types, a pointer, an embedded struct, and a map — shared by the C16 histories and the C15 race mode
var twinMk = []func(t string, n int) any{
	func(t string, n int) any {
		type Page struct {
			Title string
			N     int
		}
		return Page{t, n}
	},
	func(t string, n int) any {
		type Page struct {
			N     int
			Title string
		}
		return Page{n, t}
	},
	func(t string, n int) any {
		type Page struct {
			X     bool
			N     int64
			Y     []int
			Title string
		}
		return &Page{N: int64(n), Title: t}
	},
	func(t string, n int) any { return map[string]any{"Title": t, "N": n} },
	func(t string, n int) any {
		type inner struct{ Title string }
		type Page struct {
			N int
			inner
		}
		return Page{n, inner{t}}
	},
}
var twinTpls = []string{
	`<h1 :text="${p.Title}">o</h1><p :text="${p.N}">o</p>`,
	`<ul><li :range="_, q : ps" :title="${q.Title}" :text="${q.N + 1}">o</li></ul>`,
	`<b :with="w := ${p}" :text="${w.Title}${w.N}">o</b>`,
}

// twinWant is the output of twinTpls[ti] for data {"p": v, "ps": [v, v'(title+"x", num+1)]}
func twinWant(ti int, title string, num int) string {
	switch ti {
	case 0:
		return fmt.Sprintf("<h1>%s</h1><p>%d</p>", title, num)
	case 1:
		return fmt.Sprintf(`<ul><li title="%s">%d</li><li title="%sx">%d</li></ul>`, title, num+1, title, num+2)
	}
	return fmt.Sprintf("<b>%s%d</b>", title, num)
}
