package main

import (
	"math"
	"fmt"
	"go/ast"
	"go/parser"
	"strings"
)

func init() { props["C09"] = propC09 }

// C09: operators follow Go's precedence, associativity and arithmetic.
//   S3 oracle: the generated AST evaluated by refEval (Go's own operators), after the printed text has been
//              checked against go/parser for conditional-free expressions (self-test of the printer);
//   S2: implementation vs Lean model (tree shape and value).
func propC09(c *ctx) error {
	res := c.res
	res.Rule = "type-directed expression ASTs (depth<=6) over all literal forms and variables of every integer/float kind, printed with minimal or random parentheses; distinct = distinct source text; non-trivial = contains at least one operator"
	run := func(cs J, fromCorpus bool) error {
		src := sget(cs, "src")
		expect := sget(cs, "expect")
		env := valFromJSON(cs["env"])
		if e, ok := cs["envval"].(val); ok {
			env = e
		}
		out := implEvalStable(src, []any{env.g})
		nontrivial := strings.ContainsAny(src, "+-*/%<>&|^!=?")
		res.eval(src+"|"+jstr(env.j), nontrivial, J{"src": src, "expect": expect})
		res.count("impl_" + out.R)
		// ---- S3: property oracle
		if expect != "unspecified" && expect != "" {
			res.S3Checked++
			got := "error"
			switch out.R {
			case "ok":
				got = normNum(out.V)
			case "reject":
				got = "rejected-at-parse"
			case "escaped-panic":
				got = "escaped-panic"
			}
			if got != expect {
				cs2 := J{"src": src, "env": env.j, "expect": expect, "sig": cs["sig"]}
				res.violate(cs2, expect, got+" ("+trunc(out.Err, 120)+")", "value differs from Go semantics of the same expression")
			}
		}
		// ---- S2: model
		if c.d != nil {
			m, err := c.d.ask(J{"op": "eval", "src": src, "data": env.j})
			if err != nil {
				return err
			}
			mr := sget(m, "r")
			if mr == "unsupported" {
				res.S2Unsupported++
				return nil
			}
			res.S2Compared++
			implR := out.R
			if implR == "escaped-panic" {
				implR = "panic!"
			}
			if mr != implR || (mr == "ok" && sget(m, "v") != out.V) {
				res.disagree(J{"src": src, "env": env.j}, J{"r": out.R, "v": out.V, "err": trunc(out.Err, 160)}, m, "eval")
			}
			// tree shape
			mp, err := c.d.ask(J{"op": "parse", "src": src})
			if err != nil {
				return err
			}
			ip := implParse(src)
			if sget(mp, "r") != "unsupported" && (sget(mp, "r") != sget(ip, "r") || sget(mp, "t") != sget(ip, "t")) {
				res.disagree(J{"src": src}, ip, mp, "parse")
			}
		}
		return nil
	}
	for _, cs := range c.corpusCases() {
		if err := run(cs, true); err != nil {
			return err
		}
	}
	r := newRng(c.seed, "C09")
	n := c.n(4000, 150000)
	printerChecked := 0
	for i := 0; i < n; i++ {
		env := genExprEnv(r)
		ty := "iiffsbb"[r.n(7)]
		wrong := 0
		if r.p(15) {
			wrong = 8
		}
		e := genEx(r, env, ty, 1+r.n(6), wrong)
		extra := 0
		if r.p(50) {
			extra = 20
		}
		src := printEx(e, r, extra)
		ops := map[string]int{}
		exOps(e, ops)
		for k, v := range ops {
			res.Distribution["op_"+k] += v
		}
		res.count(fmt.Sprintf("size_%02d", min(exSize(e)/4*4, 40)))
		// self-test of the printer against Go's own parser (conditional-free, Go-expressible text only)
		if !strings.Contains(src, "?") && !strings.Contains(src, "'") {
			if ge, err := parser.ParseExpr(src); err == nil {
				printerChecked++
				if shapeOfGo(ge) != shapeOfEx(e) {
					res.SelfTest = append(res.SelfTest, fmt.Sprintf("printer/go-parser shape mismatch on %q: %s vs %s", src, shapeOfGo(ge), shapeOfEx(e)))
				}
			}
		}
		expect := refEval(e, env.ref).canon()
		var sig []string
		if hasBareNestedElse(e) {
			sig = append(sig, "bare-nested-else")
		}
		res.count("expect_" + strings.SplitN(expect, ":", 2)[0])
		if err := run(J{"src": src, "envval": env.frame, "expect": expect, "sig": sig}, false); err != nil {
			return err
		}
	}
	res.Distribution["printer_checked_against_go_parser"] = printerChecked
	// exhaustive: all ordered pairs of binary operators over three variables, both groupings (thorough: triples)
	allOps := append(append(append([]string{}, intBinOps...), relOps...), "&&", "||")
	env := genExprEnv(newRng(7, "C09x"))
	cnt := 0
	mk := func(name string) *Ex { return &Ex{Op: "var", Text: name} }
	for _, o1 := range allOps {
		for _, o2 := range allOps {
			for g := 0; g < 2; g++ {
				a, b, d := mk("vint"), mk("vint8"), mk("vint16")
				var e *Ex
				if g == 0 {
					e = &Ex{Op: "bin", Text: o2, Kids: []*Ex{{Op: "bin", Text: o1, Kids: []*Ex{a, b}}, d}}
				} else {
					e = &Ex{Op: "bin", Text: o1, Kids: []*Ex{a, {Op: "bin", Text: o2, Kids: []*Ex{b, d}}}}
				}
				src := printEx(e, nil, 0)
				expect := refEval(e, env.ref).canon()
				cnt++
				if err := run(J{"src": src, "envval": env.frame, "expect": expect}, false); err != nil {
					return err
				}
			}
		}
	}
	res.Distribution["operator_pairs_exhaustive"] = cnt
	// exhaustive: chains of one to three unary operators written without parentheses (a blank only where two equal
	// signs would otherwise form the ++ / -- token) over operands of every kind; each operator is applied, none cancels
	{
		operands := []*Ex{{Op: "lit-int", Text: "1"}, {Op: "lit-int", Text: "0"}, {Op: "lit-float", Text: "1.5"}, {Op: "lit-str", Text: `"a"`},
			mk("true"), mk("false"), mk("vint"), mk("vuint8"), mk("f64"), mk("f32"), mk("s1"), mk("b1"), mk("vnil")}
		unOps := []string{"+", "-", "!", "^"}
		var chains [][]string
		for _, a := range unOps {
			chains = append(chains, []string{a})
			for _, b := range unOps {
				chains = append(chains, []string{a, b})
				for _, d := range unOps {
					chains = append(chains, []string{a, b, d})
				}
			}
		}
		ucnt := 0
		for _, ch := range chains {
			for _, opnd := range operands {
				e := opnd
				src := printEx(opnd, nil, 0)
				for i := len(ch) - 1; i >= 0; i-- {
					e = &Ex{Op: "un", Text: ch[i], Kids: []*Ex{e}}
					if (ch[i] == "+" || ch[i] == "-") && strings.HasPrefix(src, ch[i]) {
						src = " " + src
					}
					src = ch[i] + src
				}
				for _, full := range []string{src, "(" + src + ") == 1", src + ` + "|"`} {
					var fe *Ex
					switch {
					case full == src:
						fe = e
					case strings.HasSuffix(full, "== 1"):
						fe = &Ex{Op: "bin", Text: "==", Kids: []*Ex{e, {Op: "lit-int", Text: "1"}}}
					default:
						fe = &Ex{Op: "bin", Text: "+", Kids: []*Ex{e, {Op: "lit-str", Text: `"|"`}}}
					}
					ucnt++
					if err := run(J{"src": full, "envval": env.frame, "expect": refEval(fe, env.ref).canon()}, false); err != nil {
						return err
					}
				}
			}
		}
		res.Distribution["unary_chains_exhaustive"] = ucnt
	}
	// mixed integer / float operands at the edge of float64's exact integer range, every binary operator that
	// accepts them, both operand orders: the integer operand is converted to float64 first
	edgeI := []string{"9007199254740991", "9007199254740992", "9007199254740993", "9007199254740995", "9223372036854775807", "4611686018427387905", "16777217"}
	edgeF := []string{"9007199254740992.0", "9007199254740994.0", "9223372036854775808.0", "4611686018427387904.0", "16777216.0", "0.5"}
	for _, a := range edgeI {
		for _, b := range edgeF {
			for _, op := range append(append([]string{}, relOps...), fltBinOps...) {
				for _, swap := range []bool{false, true} {
					l, rr := &Ex{Op: "lit-int", Text: a}, &Ex{Op: "lit-float", Text: b}
					if swap {
						l, rr = rr, l
					}
					e := &Ex{Op: "bin", Text: op, Kids: []*Ex{l, rr}}
					if err := run(J{"src": printEx(e, nil, 0), "envval": env.frame, "expect": refEval(e, env.ref).canon()}, false); err != nil {
						return err
					}
				}
			}
		}
	}
	// IEEE special values: every comparison with a NaN is false except !=, infinities order as Go orders them, a zero
	// keeps its sign through unary minus (1 / -0.0 is -Inf)
	{
		sp := vMap(kv{"nan", vF64(math.NaN())}, kv{"inf", vF64(math.Inf(1))}, kv{"one", vF64(1)}, kv{"z", vF64(0)}, kv{"n32", vF32(float32(math.NaN()))})
		b := func(v bool) string { return fmt.Sprintf("bool:%v", v) }
		for _, x := range []string{"nan", "n32", "0.0 / z", "inf - inf"} {
			for _, y := range []string{"one", "1", "nan", "inf", "2.5"} {
				for _, op := range relOps {
					for _, src := range []string{x + " " + op + " " + y, y + " " + op + " (" + x + ")"} {
						if err := run(J{"src": src, "envval": sp, "expect": b(op == "!=")}, false); err != nil {
							return err
						}
					}
				}
			}
		}
		for src, want := range map[string]string{"inf > 1e308": b(true), "-inf < -1e308": b(true), "inf == inf": b(true), "inf >= inf": b(true), "1 / -z < 0": b(true),
			"1.0 / -0.0 < 0": b(true), "1 / -z == -inf": b(true), "-z == z": b(true), "1 / z > 0": b(true), "(nan >= 1) || (nan <= 1)": b(false), "!(nan < 1) && !(nan >= 1)": b(true)} {
			if err := run(J{"src": src, "envval": sp, "expect": want}, false); err != nil {
				return err
			}
		}
	}
	if res.Distribution["impl_ok"]*5 < res.Evaluations {
		res.SelfTest = append(res.SelfTest, "generator degenerate: fewer than 20% of the expressions evaluate to a value")
	}
	return nil
}

func min(a, b int) int {
	if a < b {
		return a
	}
	return b
}

// shapes: fully parenthesised operator trees with leaves replaced by "_" (parentheses are not part of the shape)
func shapeOfEx(e *Ex) string {
	switch e.Op {
	case "bin":
		return "(" + shapeOfEx(e.Kids[0]) + e.Text + shapeOfEx(e.Kids[1]) + ")"
	case "un":
		return "(" + e.Text + shapeOfEx(e.Kids[0]) + ")"
	case "paren":
		return shapeOfEx(e.Kids[0])
	case "cond":
		return "(" + shapeOfEx(e.Kids[0]) + "?" + shapeOfEx(e.Kids[1]) + ":" + shapeOfEx(e.Kids[2]) + ")"
	}
	return "_"
}

func shapeOfGo(e ast.Expr) string {
	switch x := e.(type) {
	case *ast.BinaryExpr:
		return "(" + shapeOfGo(x.X) + x.Op.String() + shapeOfGo(x.Y) + ")"
	case *ast.UnaryExpr:
		return "(" + x.Op.String() + shapeOfGo(x.X) + ")"
	case *ast.ParenExpr:
		return shapeOfGo(x.X)
	}
	return "_"
}
