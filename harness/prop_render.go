package main

import (
	"fmt"
	"strings"
)

func init() {
	props["C05"] = propC05
}

func caseKey(rc *renderCase) string { return jstr(rc.Files) + "|" + jstr(rc.Data) + "|" + rc.Tpl }

func addStats(res *result, st map[string]int) {
	for k, v := range st {
		res.Distribution[k] += v
	}
}

// leakCheck scans rendered output for directive attributes, block tags and hidden comments (C05 last clause).
func leakCheck(rc *renderCase, out string) string {
	ap, tp := ":", "t:"
	if rc.Cfg != nil {
		if s, ok := rc.Cfg["attrPrefix"].(string); ok {
			ap = s
		}
		if s, ok := rc.Cfg["tagPrefix"].(string); ok {
			tp = s
		}
	}
	toks, err, p := implScanTokens(out, []string{"script", "style", "textarea", "title"}, noPrefix)
	if err != nil || p != nil {
		return "" // output is not scannable (raw insertions may do that); not judged here
	}
	for _, t := range toks {
		if t.Tag != nil {
			if strings.TrimSuffix(strings.ToLower(strings.TrimPrefix(t.Tag.Name, "/")), "/") == tp+"block" {
				return "block tag in output: " + t.Value
			}
			for _, a := range t.Tag.Attrs {
				if strings.HasPrefix(a.Name, ap) {
					return "directive attribute in output: " + t.Value
				}
			}
		}
		if t.Kind == 3 {
			v := strings.TrimSpace(strings.TrimSuffix(strings.TrimPrefix(t.Value, "<!--"), "-->"))
			if strings.HasPrefix(v, "/*") && strings.HasSuffix(v, "*/") {
				return "hidden comment in output: " + t.Value
			}
		}
	}
	return ""
}

// C05: directives on one element compose in the documented order, each applied once.
func propC05(c *ctx) error {
	res := c.res
	res.Rule = "generated template sets (subsets of with/condition/range/remove/text|raw|insert|replace/dynamic/static attributes in shuffled order on ordinary, void, self-closing, block and raw-text elements, nesting<=3, 3 prefix configurations); distinct = distinct (files,data); non-trivial = loads, template found, and some element carries >=2 directives"
	run := func(rc *renderCase, st map[string]int) error {
		impl, _, err := compareRender(c, rc, true)
		if err != nil {
			return err
		}
		multi := 0
		for k, v := range st {
			if strings.HasPrefix(k, "directives_on_element_") && k >= "directives_on_element_2" {
				multi += v
			}
		}
		res.eval(caseKey(rc), impl.Load == "ok" && impl.Get == "found" && (multi > 0 || st == nil), J{"files": rc.Files, "out": trunc(impl.text(), 300), "st": impl.St})
		if impl.St == "ok" && !containsRawInsertion(rc) {
			if why := leakCheck(rc, impl.text()); why != "" {
				res.violate(rc.toJ(), "no directive attribute / block tag / hidden comment in the output", why, "directive markup leaks into the output")
			}
		}
		return nil
	}
	for _, cs := range c.corpusCases() {
		if err := run(renderCaseFromJ(cs), nil); err != nil {
			return err
		}
	}
	// directive attributes written WITHOUT a value (<p :remove>, <input :checked />, <p :text>): whatever the engine does
	// with them (an error, a default), they never reach the output
	for _, name := range []string{"remove", "text", "raw", "if", "else", "elif", "else-if", "with", "range", "insert", "replace", "define", "class", "checked", "hidden", "data-x", "title"} {
		for _, form := range []string{`<p :%s>z</p>`, `<p :%s >z<b>c</b></p>`, `<input :%s />`, `<input :%s>`, `<p class="a" :%s id=k>z</p>`, `<t:block :%s>z</t:block>`,
			`<ul><li :range="_, x : xs" :text="${x}"><i :%s>q</i></li></ul>`, `<ul><li :range="_, x : xs"><i :%s>q</i>${x}</li></ul>`, `<p :if="${t}" :%s>z</p><p :else>e</p>`, `<p :%s :title="${a}">z</p>`} {
			rc := &renderCase{Files: [][2]string{{"t", fmt.Sprintf(form, name)}}, Tpl: "t",
				Data: vMap(kv{"t", vBool(true)}, kv{"a", vInt(1)}, kv{"xs", vIntSlice(1, 2)}).j}
			res.count("valueless_directives")
			if err := run(rc, nil); err != nil {
				return err
			}
		}
	}
	r := newRng(c.seed, "C05")
	n := c.n(2500, 40000)
	for i := 0; i < n; i++ {
		rc, st := genRenderCase(r, i%7 == 0)
		addStats(res, st)
		if err := run(rc, st); err != nil {
			return err
		}
	}
	selfTestRender(res)
	return nil
}

func containsRawInsertion(rc *renderCase) bool {
	for _, f := range rc.Files {
		if strings.Contains(f[1], "raw=") {
			return true
		}
	}
	return false
}

// selfTestRender fails the check's self-test when the generator degenerates (mostly load errors / mostly failing renders).
func selfTestRender(res *result) {
	d := res.Distribution
	tot := d["load_ok"] + d["load_err"] + d["load_panic"]
	if tot > 200 {
		if d["load_ok"]*100 < tot*60 {
			res.SelfTest = append(res.SelfTest, fmt.Sprintf("generator degenerate: only %d of %d cases load", d["load_ok"], tot))
		}
		if d["exec_ok"]*100 < d["load_ok"]*35 {
			res.SelfTest = append(res.SelfTest, fmt.Sprintf("generator degenerate: only %d of %d loaded cases render without error", d["exec_ok"], d["load_ok"]))
		}
	}
}
