package main

import (
	"encoding/json"
	"flag"
	"fmt"
	"os"
	"path/filepath"
	"runtime/debug"
	"strings"
	"time"
)

type ctx struct {
	prop   string
	tier   string
	seed   uint64
	d      *driver
	res    *result
	corpus string // directory with corpus cases for this property
	root   string // /verif
	scale  int    // multiplier for case counts (intensified search after a broken obligation)
}

func (c *ctx) quick() bool { return c.tier != "thorough" }

// n picks the case count for the tier.
func (c *ctx) n(quick, thorough int) int {
	if c.quick() {
		return quick * c.scale
	}
	return thorough * c.scale
}

var props = map[string]func(*ctx) error{}

// ---------- known findings ----------

type finding struct {
	ID        string `json:"id"`
	Property  string `json:"property"`
	Status    string `json:"status"` // finding | fixed
	Signature string `json:"signature"`
	Text      string `json:"text"`
}

var knownFindings []finding

func loadFindings(root string) {
	bs, err := os.ReadFile(filepath.Join(root, "known_findings.json"))
	if err != nil {
		return
	}
	var f struct {
		Findings []finding `json:"findings"`
	}
	if json.Unmarshal(bs, &f) == nil {
		knownFindings = f.Findings
	}
}

// matchKnownFinding attributes a failing case to a listed (unfixed) finding only when the case carries the
// finding's signature tag; "fixed" entries never suppress anything.
func matchKnownFinding(prop string, c any, what string) string {
	m, ok := c.(J)
	if !ok {
		return ""
	}
	tags, _ := m["sig"].([]string)
	if xs, ok := m["sig"].([]any); ok { // cases read back from a corpus / replay file
		for _, x := range xs {
			if t, ok := x.(string); ok {
				tags = append(tags, t)
			}
		}
	}
	for _, f := range knownFindings {
		if f.Status != "finding" || f.Property != prop {
			continue
		}
		for _, t := range tags {
			if t == f.Signature {
				return f.ID
			}
		}
	}
	return ""
}

func main() {
	if len(os.Args) < 2 {
		fmt.Println("usage: harness run|facts|replay ...")
		os.Exit(2)
	}
	switch os.Args[1] {
	case "run":
		fs := flag.NewFlagSet("run", flag.ExitOnError)
		prop := fs.String("prop", "", "property id")
		tier := fs.String("tier", "quick", "quick|thorough")
		seed := fs.Uint64("seed", 1, "seed")
		drv := fs.String("driver", "", "path of the Lean driver")
		out := fs.String("out", "", "result file")
		root := fs.String("root", "/verif", "verif root")
		scale := fs.Int("scale", 1, "case count multiplier")
		replay := fs.String("replay", "", "replay file: run only the cases stored in it")
		fs.Parse(os.Args[2:])
		f, ok := props[*prop]
		if !ok {
			fmt.Println("unknown property", *prop)
			os.Exit(2)
		}
		loadFindings(*root)
		// a runaway recursion dies in seconds (default limit: 1 GB of stack, minutes of CPU); legitimate nesting is bounded
		// by the engine (256 fragment levels) and stays far below this
		debug.SetMaxStack(256 << 20)
		if cp := os.Getenv("VERIF_BREADCRUMB"); cp != "" {
			crumbFile, _ = os.Create(cp)
			startWatchdog(90 * time.Second)
		}
		c := &ctx{prop: *prop, tier: *tier, seed: *seed, root: *root, scale: *scale,
			corpus: filepath.Join(*root, "corpus", *prop), res: newResult(*prop, *tier, *seed)}
		if *replay != "" {
			c.corpus = *replay
			c.scale = 0
		}
		if *drv != "" {
			d, err := startDriver(*drv)
			if err != nil {
				fmt.Println("cannot start driver:", err)
				os.Exit(3)
			}
			c.d = d
			defer d.close()
		}
		if err := f(c); err != nil {
			c.res.SelfTest = append(c.res.SelfTest, "harness error: "+err.Error())
		}
		for _, u := range unstableEvals {
			c.res.S3Checked++
			c.res.violate(J{"src": u[0], "note": "the same parsed tree evaluated three times on the same scope"}, "the same result every time", u[1],
				"evaluating one parsed expression again gives a different result (evaluation is not a function of tree and scope)")
		}
		if err := c.res.write(*out); err != nil {
			fmt.Println("cannot write result:", err)
			os.Exit(3)
		}
	case "race":
		raceMain(os.Args[2:])
	case "probe-self":
		probeSelf()
	case "facts":
		if err := factsMain(os.Args[2:]); err != nil {
			fmt.Println("facts:", err)
			os.Exit(3)
		}
	default:
		fmt.Println("unknown subcommand", os.Args[1])
		os.Exit(2)
	}
}

// corpusCases loads the stored cases of this property: every *.json file under corpus/<id>/ (or one replay file)
// holds either one case object or {"cases":[...]}.
func (c *ctx) corpusCases() []J {
	var files []string
	if st, err := os.Stat(c.corpus); err == nil && !st.IsDir() {
		files = []string{c.corpus}
	} else {
		files, _ = filepath.Glob(filepath.Join(c.corpus, "*.json"))
	}
	var out []J
	for _, f := range files {
		bs, err := os.ReadFile(f)
		if err != nil {
			continue
		}
		var one J
		if json.Unmarshal(bs, &one) != nil {
			continue
		}
		if cs, ok := one["cases"].([]any); ok {
			for _, x := range cs {
				if m, ok := x.(map[string]any); ok {
					out = append(out, m)
				}
			}
		} else if cs, ok := one["replay_cases"].([]any); ok {
			for _, x := range cs {
				if m, ok := x.(map[string]any); ok {
					out = append(out, m)
				}
			}
		} else {
			out = append(out, one)
		}
	}
	c.res.CorpusCases = len(out)
	return out
}

func sget(m J, k string) string {
	s, _ := m[k].(string)
	return s
}

func trunc(s string, n int) string {
	if len(s) > n {
		return s[:n] + "…"
	}
	return s
}

var _ = strings.Join
