package main

import (
	"errors"
	"fmt"
	"strings"

	"code.gopub.tech/tpl/exp"
	"code.gopub.tech/tpl/html"
)

// Every call into the implementation is wrapped in recover: a panic is an observation, never a crash of the harness.

func posJ(p html.Pos) []any { return []any{p.Line, p.Column} }

func tokenJ(t *html.Token) J {
	var tag any
	if t.Tag != nil {
		attrs := []any{}
		for _, a := range t.Tag.Attrs {
			var v any
			if a.Value != nil {
				v = *a.Value
			}
			attrs = append(attrs, J{"n": a.Name, "ns": posJ(a.NameStart), "ne": posJ(a.NameEnd), "v": v,
				"vs": posJ(a.ValueStart), "ve": posJ(a.ValueEnd)})
		}
		tag = J{"name": t.Tag.Name, "attrs": attrs}
	}
	return J{"k": int(t.Kind), "v": t.Value, "s": posJ(t.Start), "e": posJ(t.End), "tag": tag}
}

const noPrefix = "\x01\x01" // an attribute prefix no generated attribute starts with: nothing is compiled

func implScanTokens(src string, textTags []string, prefix string) (toks []*html.Token, err error, panicked any) {
	defer func() {
		if x := recover(); x != nil {
			panicked = x
		}
	}()
	sc := html.NewHtmlScanner(strings.NewReader(src)).SetTextTags(textTags).SetAttrPrefix(prefix)
	toks, err = sc.GetAllTokens()
	return
}

func implScan(src string, textTags []string, prefix string) J {
	toks, err, p := implScanTokens(src, textTags, prefix)
	if p != nil {
		return J{"err": "panic:" + fmt.Sprint(p)}
	}
	if err != nil {
		if errors.Is(err, html.ErrUnexpectedEOF) {
			return J{"err": "eof"}
		}
		return J{"err": "err"}
	}
	out := []any{}
	for _, t := range toks {
		out = append(out, tokenJ(t))
	}
	return J{"ok": out}
}

func implCodeScan(src string, line, col int) (res J) {
	defer func() {
		if x := recover(); x != nil {
			res = J{"panic": fmt.Sprint(x)}
		}
	}()
	toks, err := html.NewCodeScanner(exp.NewPos(line, col), src).GetAllTokens()
	out := []any{}
	for _, t := range toks {
		out = append(out, J{"k": int(t.Kind), "v": t.Value, "s": posJ(t.Start), "e": posJ(t.End)})
	}
	return J{"err": err != nil, "toks": out}
}

// implParse returns accept/reject (and the S-expression of the ANTLR tree when accepted).
func implParse(src string) (res J) {
	defer func() {
		if x := recover(); x != nil {
			res = J{"r": "panic", "msg": fmt.Sprint(x)}
		}
	}()
	tree, err := exp.ParseCode(src)
	if err != nil {
		return J{"r": "reject"}
	}
	return J{"r": "accept", "t": sexpOfTree(tree)}
}

type evalOut struct {
	R        string   // ok | err | panic | reject
	V        string   // canon of the value
	Sentinel bool     // error wraps the injected sentinel
	NoSuch   bool     // error wraps exp.ErrNoSuchValue
	Calls    []string // call log of user functions
	Err      string
	Go       any
}

// implEval parses and evaluates src on a scope built from frames (innermost first).
func implEval(src string, frames []any, log *callLog) (out evalOut) {
	defer func() {
		if x := recover(); x != nil {
			out = evalOut{R: "escaped-panic", Err: fmt.Sprint(x)}
		}
	}()
	tree, err := exp.ParseCode(src)
	if err != nil {
		return evalOut{R: "reject"}
	}
	sc := scopeOf(frames)
	v, err := exp.Evaluate(exp.NewPos(1, 1), tree, sc)
	if log != nil {
		out.Calls = append([]string{}, log.calls...)
	}
	if err != nil {
		out.R = "err"
		out.Err = err.Error()
		if strings.HasPrefix(out.Err, "recovered from panic") {
			out.R = "panic"
		}
		out.Sentinel = errors.Is(err, errSentinel)
		out.NoSuch = errors.Is(err, exp.ErrNoSuchValue)
		return out
	}
	out.R = "ok"
	out.V = canonGo(v)
	out.Go = v
	return out
}

// implEvalStable: evaluation is a function of the tree and the scope — the SAME parsed tree evaluated a second time
// (nothing with side effects in scope) must give the same answer.  A difference is reported as result "unstable",
// which matches neither the model nor any oracle.
var unstableEvals [][2]string

func implEvalStable(src string, frames []any) (out evalOut) {
	defer func() {
		if x := recover(); x != nil {
			out = evalOut{R: "escaped-panic", Err: fmt.Sprint(x)}
		}
	}()
	tree, err := exp.ParseCode(src)
	if err != nil {
		return evalOut{R: "reject"}
	}
	var first string
	for round := 1; round <= 3; round++ {
		v, err := exp.Evaluate(exp.NewPos(1, 1), tree, scopeOf(frames))
		cur := "ok:" + canonGo(v)
		if err != nil {
			cur = "err"
		}
		if round == 1 {
			first = cur
		} else if cur != first {
			if len(unstableEvals) < 20 {
				unstableEvals = append(unstableEvals, [2]string{src, fmt.Sprintf("evaluation #%d: %s, evaluation #1: %s", round, cur, first)})
			}
			return evalOut{R: "unstable", Err: fmt.Sprintf("evaluation #%d of the same tree: %s, evaluation #1: %s", round, cur, first)}
		}
	}
	return implEval(src, frames, nil)
}

func scopeOf(frames []any) exp.Scope {
	if len(frames) == 0 {
		return exp.EmptyScope()
	}
	sc := exp.NewScope(frames[len(frames)-1])
	for i := len(frames) - 2; i >= 0; i-- {
		sc = exp.Combine(exp.NewScope(frames[i]), sc)
	}
	return sc
}
