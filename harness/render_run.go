package main

import (
	"reflect"
	"sort"
	"strings"
)

// modelRender asks the Lean driver for the faithful model's and the specification's run of the case.
func modelRender(c *ctx, rc *renderCase) (J, error) {
	specs := map[string]fnSpec{}
	_, _, sp := rc.goData(&callLog{})
	for k, v := range sp {
		specs[k] = v
	}
	req := J{"op": "render", "files": rc.Files, "tpl": rc.Tpl, "data": rc.Data, "global": rc.Global, "fns": specs}
	if rc.Cfg != nil {
		req["cfg"] = rc.Cfg
	}
	return c.d.ask(req)
}

func strList(v any) []string {
	xs, _ := v.([]any)
	out := make([]string, 0, len(xs))
	for _, x := range xs {
		s, _ := x.(string)
		out = append(out, s)
	}
	return out
}

// modelRun decodes {"st":…, "chunks":[…], "log":[…]} into the shape of renderOut.
func modelRun(m J, key string) renderOut {
	r, _ := m[key].(map[string]any)
	out := renderOut{Load: "ok", Get: "found", Chunks: strList(r["chunks"]), Log: strList(r["log"])}
	switch st := r["st"].(type) {
	case string:
		out.St = st
	case map[string]any:
		out.St = "err"
		e, _ := st["err"].(map[string]any)
		cls, _ := e["cls"].(string)
		switch cls {
		case "tplNotFound", "attrValueExpected":
			out.Flags = append(out.Flags, cls)
		case "eval":
			if b, _ := e["sentinel"].(bool); b {
				out.Flags = append(out.Flags, "sentinel")
			}
			if b, _ := e["nosuch"].(bool); b {
				out.Flags = append(out.Flags, "nosuch")
			}
		}
		out.Err = cls
	}
	return out
}

// sameRun compares what the properties can observe: status, written chunks, call log, error flags.
func sameRun(a, b renderOut, chunksExact bool) (bool, string) {
	if a.St != b.St {
		return false, "status " + a.St + " vs " + b.St
	}
	if chunksExact {
		if !reflect.DeepEqual(a.Chunks, b.Chunks) {
			return false, "written chunks differ"
		}
	} else if a.text() != b.text() {
		return false, "output differs"
	}
	if !reflect.DeepEqual(a.Log, b.Log) {
		if a.St == "ok" || len(a.Log) != len(b.Log) {
			return false, "call log differs"
		}
	}
	fa, fb := append([]string{}, a.Flags...), append([]string{}, b.Flags...)
	sort.Strings(fa)
	sort.Strings(fb)
	if strings.Join(fa, ",") != strings.Join(fb, ",") {
		return false, "error flags differ: " + strings.Join(fa, ",") + " vs " + strings.Join(fb, ",")
	}
	return true, ""
}

// compareRender runs one case on the implementation and on the model; returns the implementation's run and the
// model answer (nil when the model does not cover the case).
func compareRender(c *ctx, rc *renderCase, s3spec bool) (renderOut, J, error) {
	res := c.res
	impl := implRender(rc, -1)
	res.count("load_" + impl.Load)
	if impl.Load == "ok" {
		res.count("get_" + impl.Get)
		if impl.Get == "found" {
			res.count("exec_" + impl.St)
		}
	}
	if c.d == nil {
		return impl, nil, nil
	}
	m, err := modelRender(c, rc)
	if err != nil {
		return impl, nil, err
	}
	ml := sget(m, "load")
	if ml == "unsupported" {
		res.S2Unsupported++
		return impl, nil, nil
	}
	res.S2Compared++
	if ml != impl.Load {
		res.disagree(rc.toJ(), J{"load": impl.Load, "err": trunc(impl.Err, 200)}, J{"load": ml}, "load outcome")
		return impl, nil, nil
	}
	if ml != "ok" {
		return impl, nil, nil
	}
	if g := sget(m, "get"); g != impl.Get {
		res.disagree(rc.toJ(), J{"get": impl.Get}, J{"get": g}, "template lookup")
		return impl, nil, nil
	}
	if impl.Get != "found" {
		return impl, nil, nil
	}
	if h, ok := m["hyp"].(bool); ok && !h {
		// the loaded trees must satisfy the hypotheses of RN.exec_refines_ref (unique node ids, attributes in the
		// documented order with at most one `with`); if not, the theorem says nothing about this input
		res.disagree(rc.toJ(), "hypotheses of exec_refines_ref", "violated by the loaded tree", "refinement hypotheses (Uniq / Sorted) do not hold")
	}
	mi := modelRun(m, "impl")
	if mi.St == "fuel" {
		res.S2Unsupported++
		return impl, nil, nil
	}
	if impl.St == "panic" {
		res.disagree(rc.toJ(), impl, mi, "implementation panicked")
		return impl, m, nil
	}
	if ok, why := sameRun(impl, mi, true); !ok {
		res.disagree(rc.toJ(), impl, mi, "faithful model: "+why)
	}
	if s3spec {
		sp := modelRun(m, "spec")
		res.S3Checked++
		if ok, why := sameRun(impl, sp, true); !ok {
			res.violate(rc.toJ(), sp, impl, "differs from the structural reference renderer (with → condition → range → rest, each once): "+why)
		}
	}
	return impl, m, nil
}
