package main

import (
	"context"
	"errors"
	"fmt"
	"io"
	"net/http/httptest"
	"strings"
	"sync"
	"time"

	tpl "code.gopub.tech/tpl"
	"code.gopub.tech/tpl/html"
	"code.gopub.tech/tpl/types"
)

func init() { props["C18"] = propC18 }

var errBuild = errors.New("BUILD-FAILED")

type rlOp struct {
	K    string `json:"k"` // reload request get
	Name int    `json:"name"`
	B    *int   `json:"-"` // manager id built by the builder call this op triggers; nil = build fails
	Hdr  bool   `json:"hdr"`
}

func (o rlOp) j() J {
	var b any
	if o.B != nil {
		b = J{"id": *o.B, "names": []int{1, 2}}
	}
	return J{"k": o.K, "name": o.Name, "b": b, "hdr": o.Hdr}
}

var mgrPool = map[int]types.TemplateManager{}

// content types a handler may have set before the renderer is asked to write its own
var c18Presets = []string{"application/x-test", "text/html", "TEXT/HTML", " text/html ", "text/html; charset=gbk", "text/plain; charset=utf-8", "", "text/html;charset=UTF-8"}
var c18PresetIdx = 0

// c18PartialOnFail: a failing build returns a non-nil manager together with its error
var c18PartialOnFail = false

// wrapMgr: a template manager of ANOTHER concrete type (a themed / fallback wrapper around the html manager); successive
// builds may return managers of different types
type wrapMgr struct{ types.TemplateManager }

func poolMgr(id int) types.TemplateManager {
	if m, ok := mgrPool[id]; ok {
		return m
	}
	if id%2 == 1 && id != 777 {
		inner := poolMgr(-id - 1000)
		mgrPool[id] = wrapMgr{inner}
		return mgrPool[id]
	}
	m := html.NewTplManager()
	for _, n := range []int{1, 2} {
		shown := id
		if id <= -1000 {
			shown = -id - 1000 // the inner manager of a wrapper shows the wrapper's id
		}
		if err := m.Add(fmt.Sprintf("n%d", n), strings.NewReader(fmt.Sprintf("<p>m%d:n%d</p>", shown, n))); err != nil {
			panic(err)
		}
	}
	mgrPool[id] = m
	return m
}

// runReloadImpl executes the history on the real renderer; outputs are rendered in the model's vocabulary.
func runReloadImpl(hot bool, first *int, ops []rlOp) (initErr bool, outs []any) {
	// a history on which the renderer never comes back (a lock left held) is reported by the watchdog with this input
	var opsJ []any
	for _, o := range ops {
		opsJ = append(opsJ, o.j())
	}
	crumb("reloadable renderer: history of Reload / Instance / GetTemplate calls", J{"hot_reload": hot, "first_build_ok": first != nil, "ops": opsJ})
	defer crumbAt.Store(0)
	var next *int
	builder := func(ctx context.Context) (types.TemplateManager, error) {
		if next == nil {
			if c18PartialOnFail {
				// the documented factory idiom `return m, m.ParseWithSuffix(…)`: a usable, partially loaded manager
				// comes back TOGETHER with the error — the build has failed all the same
				return poolMgr(777), errBuild
			}
			return nil, errBuild
		}
		return poolMgr(*next), nil
	}
	next = first
	r, err := tpl.NewHTMLRender(builder, tpl.WithHotReload(hot))
	initErr = err != nil
	res := func(body string, err error, name int) any {
		switch {
		case err == nil:
			var id, n int
			if _, e := fmt.Sscanf(body, "<p>m%d:n%d</p>", &id, &n); e != nil || n != name {
				return J{"unexpected-body": body}
			}
			return J{"served": id, "found": true}
		case errors.Is(err, errBuild):
			if body != "" {
				return J{"buildErr-but-wrote": body}
			}
			return "buildErr"
		case errors.Is(err, html.ErrTplNotFound):
			if body != "" {
				return J{"notfound-but-wrote": body}
			}
			return J{"served": -1, "found": false}
		}
		if body != "" {
			return J{"error-but-wrote": body}
		}
		return "noManager"
	}
	for _, op := range ops {
		next = op.B
		func() {
			defer func() {
				if x := recover(); x != nil {
					outs = append(outs, J{"panic": fmt.Sprint(x)})
				}
			}()
			switch op.K {
			case "reload":
				if err := r.Reload(context.Background()); err != nil {
					outs = append(outs, "reloadErr")
				} else {
					outs = append(outs, "reloadOk")
				}
			case "request":
				w := httptest.NewRecorder()
				preset := ""
				if op.Hdr {
					// whatever the handler has set stays: another type, the same type without or with another charset,
					// odd spellings, even an explicitly empty value
					preset = c18Presets[c18PresetIdx%len(c18Presets)]
					c18PresetIdx++
					w.Header()["Content-Type"] = []string{preset}
				}
				inst := r.Instance(context.Background(), fmt.Sprintf("n%d", op.Name), nil)
				inst.WriteContentType(w)
				err := inst.Render(w)
				hv := w.Header()["Content-Type"]
				ct := len(hv) == 1 && hv[0] == "text/html; charset=utf-8"
				if op.Hdr && (len(hv) != 1 || hv[0] != preset) {
					outs = append(outs, J{"request": res(w.Body.String(), err, op.Name), "ct": J{"preset": preset, "after": hv}})
				} else {
					outs = append(outs, J{"request": res(w.Body.String(), err, op.Name), "ct": ct})
				}
			default:
				t, err := r.GetTemplate(context.Background(), fmt.Sprintf("n%d", op.Name))
				body := ""
				if err == nil {
					var sb strings.Builder
					err = t.Execute(&sb, nil)
					body = sb.String()
				}
				outs = append(outs, J{"get": res(body, err, op.Name)})
			}
		}()
	}
	return
}

// the "served" id of a not-found answer is not observable: normalise both sides
func normReloadOuts(v any) any {
	var walk func(x any) any
	walk = func(x any) any {
		switch t := x.(type) {
		case map[string]any:
			if f, ok := t["found"].(bool); ok && !f {
				return map[string]any{"found": false}
			}
			o := map[string]any{}
			for k, e := range t {
				o[k] = walk(e)
			}
			return o
		case []any:
			o := make([]any, len(t))
			for i, e := range t {
				o[i] = walk(e)
			}
			return o
		}
		return x
	}
	return walk(normJSON(v))
}

// C18: the renderer always serves the last successfully built template set.
func propC18(c *ctx) error {
	res := c.res
	res.Rule = "every sequence up to length L of {Reload ok, Reload failing, Instance+Render of an existing / a missing name (header preset or not), GetTemplate} in both hot-reload modes, each with a succeeding or failing build where a build happens (L = 4 quick, 6 thorough; exhaustive), both outcomes of the first build; explicit state model as oracle (last successful build) and the Lean model RL.run as correspondence; concurrent Reload / Instance under the race detector in the race harness; distinct = distinct history; non-trivial = history contains a Reload"
	L := 4
	if !c.quick() {
		L = 6
	}
	for _, hot := range []bool{false, true} {
		for _, firstOK := range []bool{true, false} {
			var first *int
			if firstOK {
				z := 100
				first = &z
			}
			// alphabet
			mk := func(id int) []rlOp {
				ok := id
				ops := []rlOp{{K: "reload", B: &ok}, {K: "reload"}}
				if hot {
					ops = append(ops, rlOp{K: "request", Name: 1, B: &ok}, rlOp{K: "request", Name: 1}, rlOp{K: "request", Name: 9, B: &ok, Hdr: true}, rlOp{K: "get", Name: 2, B: &ok}, rlOp{K: "get", Name: 2})
				} else {
					ops = append(ops, rlOp{K: "request", Name: 1}, rlOp{K: "request", Name: 9, Hdr: true}, rlOp{K: "request", Name: 2, Hdr: true}, rlOp{K: "get", Name: 2})
				}
				return ops
			}
			var rec func(prefix []rlOp, depth int) error
			rec = func(prefix []rlOp, depth int) error {
				if len(prefix) > 0 {
					initErr, outs := runReloadImpl(hot, first, prefix)
					// oracle: explicit state = last successful build
					var cur *int
					if first != nil {
						cur = first
					}
					var want []any
					hasReload := false
					for _, op := range prefix {
						serve := func(m *int, name int) any {
							if m == nil {
								return "noManager"
							}
							if name == 1 || name == 2 {
								return J{"served": *m, "found": true}
							}
							return J{"found": false}
						}
						switch op.K {
						case "reload":
							hasReload = true
							if op.B != nil {
								cur = op.B
								want = append(want, "reloadOk")
							} else {
								want = append(want, "reloadErr")
							}
						case "request", "get":
							var r any
							if hot {
								if op.B == nil {
									r = "buildErr"
								} else {
									r = serve(op.B, op.Name)
								}
							} else {
								r = serve(cur, op.Name)
							}
							if op.K == "request" {
								want = append(want, J{"request": r, "ct": !op.Hdr})
							} else {
								want = append(want, J{"get": r})
							}
						}
					}
					key := fmt.Sprint(hot, firstOK)
					var opsJ []any
					for _, o := range prefix {
						opsJ = append(opsJ, o.j())
						key += "|" + jstr(o.j())
					}
					cs := J{"hot": hot, "first_build_ok": firstOK, "ops": opsJ}
					res.eval(key, hasReload, cs)
					res.S3Checked++
					if initErr != !firstOK {
						res.violate(cs, !firstOK, initErr, "NewHTMLRender error does not reflect the first build")
					}
					if jstr(normReloadOuts(outs)) != jstr(normReloadOuts(want)) {
						res.violate(cs, want, outs, "the renderer does not serve from the most recent successful build / a failed build wrote something / content type rule")
					}
					// the same history with failing builds that hand back a partial manager along with the error
					c18PartialOnFail = true
					initErr2, outs2 := runReloadImpl(hot, first, prefix)
					c18PartialOnFail = false
					res.S3Checked++
					if initErr2 != !firstOK || jstr(normReloadOuts(outs2)) != jstr(normReloadOuts(want)) {
						cs2 := J{"hot": hot, "first_build_ok": firstOK, "ops": opsJ, "failed_build_returns_partial_manager": true}
						res.violate(cs2, want, outs2, "a failed build that returns a (partial) manager together with its error is treated as a success")
					}
					if c.d != nil && (len(prefix) == L || len(prefix) <= 2) {
						var fj any
						if first != nil {
							fj = J{"id": *first, "names": []int{1, 2}}
						}
						m, err := c.d.ask(J{"op": "reload", "hot": hot, "first": fj, "ops": opsJ})
						if err != nil {
							return err
						}
						res.S2Compared++
						if jstr(normReloadOuts(m["outs"])) != jstr(normReloadOuts(outs)) {
							res.disagree(cs, outs, m["outs"], "reload history")
						}
					}
				}
				if depth == 0 {
					return nil
				}
				for _, op := range mk(len(prefix) + 1) {
					if err := rec(append(append([]rlOp{}, prefix...), op), depth-1); err != nil {
						return err
					}
				}
				return nil
			}
			if err := rec(nil, L); err != nil {
				return err
			}
		}
	}
	res.Exhaustive = true
	// histories over builds whose NAME SETS differ (hot reload off): a name absent from the set in service is not found, and
	// the same name is served as soon as a successful Reload brings a set that has it (and no longer once a set lacks it);
	// every sequence up to length L over {Reload -> set k, failing Reload, request of name x}
	{
		sets := [][]string{{"a"}, {"a", "b"}, {"b", "c"}, {}}
		mkSet := func(k int) types.TemplateManager {
			m := html.NewTplManager()
			for _, n := range sets[k] {
				if err := m.Add(n, strings.NewReader(fmt.Sprintf("<p>set%d:%s</p>", k, n))); err != nil {
					panic(err)
				}
			}
			return m
		}
		type nop struct {
			reload int    // -2 = none, -1 = failing, k = set k
			name   string // request
		}
		alpha := []nop{{reload: 0}, {reload: 1}, {reload: 2}, {reload: 3}, {reload: -1}, {reload: -2, name: "a"}, {reload: -2, name: "b"}, {reload: -2, name: "c"}}
		LN := 4
		if !c.quick() {
			LN = 5
		}
		var recN func(prefix []nop) error
		recN = func(prefix []nop) error {
			if len(prefix) > 0 && prefix[len(prefix)-1].reload == -2 { // judged when the history ends with a request
				nextSet := 0
				builder := func(ctx context.Context) (types.TemplateManager, error) {
					if nextSet < 0 {
						return nil, errBuild
					}
					return mkSet(nextSet), nil
				}
				var hist []any
				for _, o := range prefix {
					hist = append(hist, J{"reload": o.reload, "request": o.name})
				}
				cs := J{"hot": false, "sets": sets, "first_build": 0, "ops": hist}
				crumb("reloadable renderer: history over builds with different name sets", cs)
				r, err := tpl.NewHTMLRender(builder)
				if err != nil {
					crumbAt.Store(0)
					return err
				}
				cur := 0
				var got, want []string
				for _, o := range prefix {
					if o.reload != -2 {
						nextSet = o.reload
						err := r.Reload(context.Background())
						got = append(got, fmt.Sprint("reload:", err == nil))
						want = append(want, fmt.Sprint("reload:", o.reload >= 0))
						if o.reload >= 0 {
							cur = o.reload
						}
						continue
					}
					rec := httptest.NewRecorder()
					rerr := r.Instance(context.Background(), o.name, nil).Render(rec)
					g := rec.Body.String()
					if rerr != nil {
						g += "|notfound:" + fmt.Sprint(errors.Is(rerr, html.ErrTplNotFound))
					}
					w := "|notfound:true"
					for _, n := range sets[cur] {
						if n == o.name {
							w = fmt.Sprintf("<p>set%d:%s</p>", cur, n)
						}
					}
					got, want = append(got, g), append(want, w)
				}
				crumbAt.Store(0)
				res.eval("namesets|"+jstr(cs), true, cs)
				res.S3Checked++
				res.count("name_set_histories")
				if strings.Join(got, ";") != strings.Join(want, ";") {
					res.violate(cs, want, got, "a request is not answered from the most recent successfully built set: a name the set has is not found, or a name it lacks is served")
				}
			}
			if len(prefix) == LN {
				return nil
			}
			for _, a := range alpha {
				if err := recN(append(append([]nop{}, prefix...), a)); err != nil {
					return err
				}
			}
			return nil
		}
		if err := recN(nil); err != nil {
			return err
		}
	}
	// directed interleavings: a request is in flight inside the OLD manager's GetTemplate while a Reload completes;
	// every request that STARTS after the successful Reload returned must be served from the new set
	for _, reloadOK := range []bool{true, false} {
		for _, sameName := range []bool{true, false} {
			gate := make(chan struct{})
			entered := make(chan struct{}, 4)
			cur := 1
			fail := false
			var bmu sync.Mutex
			b := func(ctx context.Context) (types.TemplateManager, error) {
				bmu.Lock()
				defer bmu.Unlock()
				if fail {
					return nil, errBuild
				}
				m := &stubMgr{id: cur}
				if cur == 1 {
					m.gate, m.entered = gate, entered
				}
				return m, nil
			}
			rr, err := tpl.NewHTMLRender(b)
			if err != nil {
				return err
			}
			firstDone := make(chan string, 1)
			go func() {
				w := httptest.NewRecorder()
				rr.Instance(context.Background(), "a", nil).Render(w)
				firstDone <- w.Body.String()
			}()
			<-entered // request #1 is now inside the old manager's GetTemplate
			bmu.Lock()
			cur, fail = 2, !reloadOK
			bmu.Unlock()
			rerr := rr.Reload(context.Background())
			close(gate) // let request #1 finish
			first := <-firstDone
			name := "a"
			if !sameName {
				name = "b"
			}
			w := httptest.NewRecorder()
			rr.Instance(context.Background(), name, nil).Render(w)
			w2 := httptest.NewRecorder()
			rr.Instance(context.Background(), "a", nil).Render(w2)
			wantID := 2
			if !reloadOK {
				wantID = 1
			}
			cs := J{"schedule": "request#1 blocked in old GetTemplate; Reload; release; request#2; request#3", "reload_ok": reloadOK, "same_name": sameName}
			res.eval("sched|"+jstr(cs), true, cs)
			res.S3Checked++
			want := fmt.Sprintf("m%d:%s", wantID, name)
			if (rerr == nil) != reloadOK || first != "m1:a" || w.Body.String() != want || w2.Body.String() != fmt.Sprintf("m%d:a", wantID) {
				res.violate(cs, J{"request1": "m1:a", "request2": want, "request3": fmt.Sprintf("m%d:a", wantID)},
					J{"reload_err": fmt.Sprint(rerr), "request1": first, "request2": w.Body.String(), "request3": w2.Body.String()},
					"a request started after a successful Reload is not served from the new template set (or a failed Reload changed the set)")
			}
		}
	}
	// directed interleavings of TWO Reloads: Reload A is held inside the factory (it has read version 2 of the sources);
	// the sources change to version 3 (or break); Reload B runs to completion meanwhile. B is a Reload like any other:
	// it builds (the factory is called for it), returns the factory's error if it fails, and when it succeeds a request
	// started after it returned — A still being held — is served from B's set.
	for _, bOK := range []bool{true, false} {
		holdA := make(chan struct{})
		inA := make(chan struct{}, 1)
		var bmu sync.Mutex
		version, calls, broken := 1, 0, false
		b := func(ctx context.Context) (types.TemplateManager, error) {
			bmu.Lock()
			calls++
			n, v, br := calls, version, broken
			bmu.Unlock()
			if n == 2 { // Reload A: holds after reading the sources
				inA <- struct{}{}
				<-holdA
			}
			if br && n != 2 {
				return nil, errBuild
			}
			return &stubMgr{id: v}, nil
		}
		rr, err := tpl.NewHTMLRender(b)
		if err != nil {
			return err
		}
		bmu.Lock()
		version = 2
		bmu.Unlock()
		aDone := make(chan error, 1)
		go func() { aDone <- rr.Reload(context.Background()) }()
		<-inA
		bmu.Lock()
		version, broken = 3, !bOK
		bmu.Unlock()
		bDone := make(chan error, 1)
		go func() { bDone <- rr.Reload(context.Background()) }()
		var berr error
		bReturned := true
		select {
		case berr = <-bDone:
		case <-time.After(10 * time.Second):
			bReturned = false // B waits for A (a serialising implementation): release A and then judge B's own result
		}
		w := httptest.NewRecorder()
		if bReturned {
			rr.Instance(context.Background(), "a", nil).Render(w)
		}
		close(holdA)
		aerr := <-aDone
		if !bReturned {
			berr = <-bDone
			rr.Instance(context.Background(), "a", nil).Render(w)
		}
		bmu.Lock()
		nCalls := calls
		bmu.Unlock()
		cs := J{"schedule": "Reload A held inside the factory (sources v2); sources become v3; Reload B; request; release A", "reload_b_ok": bOK, "b_returned_while_a_held": bReturned}
		res.eval("sched2|"+jstr(cs), true, cs)
		res.S3Checked++
		wantServed := "m3:a"
		if !bOK {
			wantServed = "m1:a" // nothing new has been built successfully yet when the request is made (A is held) …
			if !bReturned {
				wantServed = "m2:a" // … unless B waited for A, whose set is then in service
			}
		}
		switch {
		case aerr != nil:
			res.violate(cs, "Reload A succeeds", fmt.Sprint(aerr), "a Reload whose factory succeeded returned an error")
		case (berr == nil) != bOK:
			res.violate(cs, J{"reload_b_error": !bOK}, J{"reload_b_error": fmt.Sprint(berr), "factory_calls": nCalls}, "a Reload overlapping another one does not return its own factory's result")
		case nCalls != 3:
			res.violate(cs, "3 factory calls (initial, A, B)", nCalls, "a Reload overlapping another one did not build")
		case !bReturned && bOK && w.Body.String() == "m2:a":
			// B had not returned while A was held (serialised behind A, or merely slow on a loaded machine): after both have
			// finished either build may be the one in service
		case w.Body.String() != wantServed:
			res.violate(cs, wantServed, w.Body.String(), "a request started after a successful Reload returned is not served from that Reload's template set")
		}
	}
	// concurrent Reload and requests: every request must be served from SOME successfully built set, never a torn one
	// (data races themselves are the race harness's business: ./check C18 runs it in the thorough tier)
	var wg sync.WaitGroup
	id := 1
	var mu sync.Mutex
	builder := func(ctx context.Context) (types.TemplateManager, error) {
		mu.Lock()
		defer mu.Unlock()
		id++
		if id%3 == 0 {
			return nil, errBuild
		}
		return poolMgr(id % 8), nil
	}
	rr, _ := tpl.NewHTMLRender(builder)
	bad := 0
	panicMsg := ""
	var bmu sync.Mutex
	for g := 0; g < 8; g++ {
		wg.Add(1)
		go func(g int) {
			defer wg.Done()
			defer func() {
				if x := recover(); x != nil {
					bmu.Lock()
					bad++
					if panicMsg == "" {
						panicMsg = fmt.Sprint(x)
					}
					bmu.Unlock()
				}
			}()
			for k := 0; k < 200; k++ {
				if g == 0 {
					rr.Reload(context.Background())
					continue
				}
				w := httptest.NewRecorder()
				if err := rr.Instance(context.Background(), "n1", nil).Render(w); err != nil || !strings.HasSuffix(w.Body.String(), ":n1</p>") {
					bmu.Lock()
					bad++
					bmu.Unlock()
				}
			}
		}(g)
	}
	wg.Wait()
	res.S3Checked++
	res.eval("concurrent-reload", true, J{"goroutines": 8, "requests": 1400})
	if bad > 0 {
		res.violate(J{"concurrent": true}, "every request served from a built set", fmt.Sprintf("%d requests failed or were torn; first panic: %s", bad, panicMsg), "concurrent Reload disturbs requests")
	}
	// Reload concurrent with requests under the race detector (separate binary built with -race)
	return propC15(c)
}

// stubMgr is a template manager whose GetTemplate can be made to block (directed interleavings).
type stubMgr struct {
	id      int
	gate    chan struct{}
	entered chan struct{}
	once    sync.Once
}

type stubTpl struct{ text string }

func (t stubTpl) Execute(w io.Writer, data any) error { _, err := w.Write([]byte(t.text)); return err }

func (m *stubMgr) GetTemplate(name string) (types.Template, error) {
	if m.gate != nil {
		first := false
		m.once.Do(func() { first = true })
		if first {
			m.entered <- struct{}{}
			<-m.gate
		}
	}
	return stubTpl{fmt.Sprintf("m%d:%s", m.id, name)}, nil
}
