package main

import (
	"strings"

	"code.gopub.tech/tpl/exp/parser"
)

// S-expression of the ANTLR tree, in the format of EL.E.sexp (TplModel/Exp/Parse.lean).

func sexpOfTree(c parser.IExpressionContext) string { return sexpE(c) }

func sexpE(c parser.IExpressionContext) string {
	e, ok := c.(*parser.ExpressionContext)
	if !ok || e == nil {
		return "(?)"
	}
	switch {
	case e.PrimaryExpr() != nil:
		return sexpP(e.PrimaryExpr())
	case e.GetUnary_op() != nil:
		return "(un " + e.GetUnary_op().GetText() + " " + sexpE(e.Expression(0)) + ")"
	case e.GetMul_op() != nil:
		return "(bin " + e.GetMul_op().GetText() + " " + sexpE(e.Expression(0)) + " " + sexpE(e.Expression(1)) + ")"
	case e.GetAdd_op() != nil:
		return "(bin " + e.GetAdd_op().GetText() + " " + sexpE(e.Expression(0)) + " " + sexpE(e.Expression(1)) + ")"
	case e.GetRel_op() != nil:
		return "(bin " + e.GetRel_op().GetText() + " " + sexpE(e.Expression(0)) + " " + sexpE(e.Expression(1)) + ")"
	case e.LOGICAL_AND() != nil:
		return "(bin && " + sexpE(e.Expression(0)) + " " + sexpE(e.Expression(1)) + ")"
	case e.LOGICAL_OR() != nil:
		return "(bin || " + sexpE(e.Expression(0)) + " " + sexpE(e.Expression(1)) + ")"
	case e.Question() != nil:
		return "(cond " + sexpE(e.Expression(0)) + " " + sexpE(e.Expression(1)) + " " + sexpE(e.Expression(2)) + ")"
	}
	return "(?)"
}

func sexpP(c parser.IPrimaryExprContext) string {
	p, ok := c.(*parser.PrimaryExprContext)
	if !ok || p == nil {
		return "(?)"
	}
	if p.Operand() != nil {
		o := p.Operand().(*parser.OperandContext)
		switch {
		case o.Literal() != nil:
			l := o.Literal().(*parser.LiteralContext)
			k := "?"
			switch {
			case l.LiteralNil() != nil:
				k = "nil"
			case l.Integer() != nil:
				k = "int"
			case l.String_() != nil:
				k = "str"
			case l.LiteralFloat() != nil:
				k = "float"
			case l.LiteralImag() != nil:
				k = "imag"
			}
			return "(lit " + k + " " + hexOf(l.GetText()) + ")"
		case o.OperandName() != nil:
			return "(name " + o.OperandName().GetText() + ")"
		case o.L_PAREN() != nil:
			return "(paren " + sexpE(o.Expression()) + ")"
		}
		return "(?op)"
	}
	base := sexpP(p.PrimaryExpr())
	switch {
	case p.Field() != nil:
		f := p.Field().(*parser.FieldContext)
		dot := "."
		if f.SafeIndex() != nil {
			dot = "?."
		}
		return "(field " + dot + " " + base + " " + f.IDENTIFIER().GetText() + ")"
	case p.Index() != nil:
		return "(index " + base + " " + sexpE(p.Index().Expression()) + ")"
	case p.Slice() != nil:
		s := p.Slice().(*parser.SliceContext)
		o := func(e parser.IExpressionContext) string {
			if e == nil {
				return "_"
			}
			return sexpE(e)
		}
		return "(slice " + base + " " + o(s.GetLo()) + " " + o(s.GetHi()) + " " + o(s.GetCap_()) + ")"
	case p.Arguments() != nil:
		a := p.Arguments().(*parser.ArgumentsContext)
		var as []string
		if a.ExpressionList() != nil {
			for _, e := range a.ExpressionList().AllExpression() {
				as = append(as, sexpE(e))
			}
		}
		ell := ""
		if a.ELLIPSIS() != nil {
			ell = " ..."
		}
		return "(call " + base + " [" + strings.Join(as, " ") + "]" + ell + ")"
	}
	return "(?suffix)"
}
