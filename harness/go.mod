module verifharness

go 1.18

require code.gopub.tech/tpl v0.0.0

require (
	code.gopub.tech/errors v0.0.3 // indirect
	code.gopub.tech/logs v0.0.5 // indirect
	github.com/antlr4-go/antlr/v4 v4.13.0 // indirect
	github.com/fatih/color v1.15.0 // indirect
	github.com/mattn/go-colorable v0.1.13 // indirect
	github.com/mattn/go-isatty v0.0.18 // indirect
	golang.org/x/exp v0.0.0-20230515195305-f3d0a9c9a5cc // indirect
	golang.org/x/sys v0.6.0 // indirect
	gopkg.in/natefinch/lumberjack.v2 v2.2.1 // indirect
)

replace code.gopub.tech/tpl => /repo
