package main

import (
	"fmt"
	"os"
	"os/exec"
	"path/filepath"
	"sort"
	"strconv"
	"strings"
)

func init() { props["C20"] = propC20 }

type potEntry struct {
	Ctx, ID, Plural string
	Refs            []string
	Header          bool
}

// parsePOT reads the subset of the PO syntax that the catalogue writer produces.
func parsePOT(text string) []potEntry {
	var out []potEntry
	for _, block := range strings.Split(text, "\n\n") {
		var e potEntry
		field := ""
		vals := map[string]string{}
		has := false
		for _, line := range strings.Split(block, "\n") {
			line = strings.TrimRight(line, "\r")
			switch {
			case strings.HasPrefix(line, "#:"):
				e.Refs = append(e.Refs, strings.Fields(strings.TrimPrefix(line, "#:"))...)
			case strings.HasPrefix(line, "#"):
			case strings.HasPrefix(line, "msgctxt "), strings.HasPrefix(line, "msgid_plural "), strings.HasPrefix(line, "msgid "), strings.HasPrefix(line, "msgstr"):
				i := strings.Index(line, " ")
				field = line[:i]
				if strings.HasPrefix(field, "msgstr") {
					field = "msgstr"
				}
				s, _ := strconv.Unquote(strings.TrimSpace(line[i+1:]))
				vals[field] += s
				has = true
			case strings.HasPrefix(line, "\""):
				s, _ := strconv.Unquote(strings.TrimSpace(line))
				vals[field] += s
			}
		}
		if !has {
			continue
		}
		e.Ctx, e.ID, e.Plural = vals["msgctxt"], vals["msgid"], vals["msgid_plural"]
		e.Header = e.ID == "" && strings.Contains(vals["msgstr"], "Project-Id-Version")
		out = append(out, e)
	}
	return out
}

type kwSpec struct {
	name            string
	ctx, id, plural int // 1-based argument positions, 0 = none
}

func (k kwSpec) max() int {
	m := k.ctx
	if k.id > m {
		m = k.id
	}
	if k.plural > m {
		m = k.plural
	}
	return m
}

// C20: xtpl extracts every translatable literal the templates pass at run time.
func propC20(c *ctx) error {
	res := c.res
	res.Rule = "generated template sets with keyword calls (plain name, receiver.field, parenthesised callee) in directive values, literals in all three quoting styles with escapes, repeated and distinct occurrences, non-literal and missing arguments, nested calls, default and custom -keywords and attribute prefixes; the POT written by the xtpl binary built from the working tree is compared with the generator's expectation and with the calls recorded when the real engine renders the same templates; distinct = distinct template set; non-trivial = at least one extractable call"
	bin := filepath.Join(os.Getenv("VERIF_BUILD"), "xtpl")
	if _, err := os.Stat(bin); err != nil {
		res.SelfTest = append(res.SelfTest, "xtpl binary missing: "+bin)
		return nil
	}
	r := newRng(c.seed, "C20")
	defaultKw := []kwSpec{{"T", 0, 1, 0}, {"N", 0, 1, 2}, {"N64", 0, 1, 2}, {"X", 1, 2, 0}, {"XN", 1, 2, 3}, {"XN64", 1, 2, 3}, {"__", 0, 1, 0}, {"_n", 0, 1, 2}, {"_x", 1, 2, 0}, {"_xn", 1, 2, 3}}
	// (ctxlast / pl3: the CONTEXT is the last configured position — a call without it has too few arguments)
	customKw := []kwSpec{{"tr", 0, 1, 0}, {"trn", 0, 1, 2}, {"pgettext", 1, 2, 0}, {"second", 0, 2, 0}, {"zero", 0, 0, 0}, {"ctxlast", 2, 1, 0}, {"pl3", 3, 1, 2}}
	customFlag := "tr;trn:1,2;pgettext:1c,2;second:2;zero:0;ctxlast:2c,1;pl3:3c,1,2"
	strs := []string{"hello", "Hello, World", "it's", "say \"hi\"", "a\\b", "line1\nline2", "tab\there", "é✓", "100%", "{braces}", "${x}", "", "plural form", "ctx", "trail\\", "\\'q"}
	work := filepath.Join(c.root, ".work", fmt.Sprintf("xtpl-%d", os.Getpid()))
	defer os.RemoveAll(work)
	n := c.n(60, 2500)
	for i := 0; i < n; i++ {
		kws, kwFlag, ap := defaultKw, "", ":"
		if r.p(30) {
			kws, kwFlag = customKw, customFlag
		}
		if r.p(20) {
			ap = "th:"
		}
		dir := filepath.Join(work, fmt.Sprint(i))
		os.MkdirAll(filepath.Join(dir, "sub"), 0o755)
		type exp struct {
			ctx, id, plural, ref string
			kw                   kwSpec
		}
		var want []exp
		var rtCalls []string // calls with literal msgid that the templates make at run time: "name|ctx|id|plural"
		nfiles := 1 + r.n(3)
		var rcFiles [][2]string
		type prevCall struct {
			kw    kwSpec
			args  []string
			vals  []string
			isLit []bool
		}
		var prevCalls []prevCall
		var allBlocks []string // every ${ } block of every file, in order (what the extraction model is given)
		for f := 0; f < nfiles; f++ {
			fname := []string{"a.html", "sub/b.html", "c.html"}[f]
			var sb strings.Builder
			lines := 1 + r.n(5)
			curLine := 1
			for li := 1; li <= lines; li++ {
				ln := curLine
				kw := kws[r.n(len(kws))]
				if r.p(10) {
					kw = kwSpec{"other", 0, 1, 0} // not a keyword
				}
				nargs := kw.max()
				switch r.n(8) {
				case 0:
					nargs-- // too few arguments
				case 1:
					nargs += 1 + r.n(2) // extra arguments
				}
				if nargs < 0 {
					nargs = 0
				}
				lit := func(s string) (string, bool) {
					switch r.n(4) {
					case 0:
						return encodeQ(s, '\''), true
					case 1:
						if !strings.ContainsAny(s, "`\r\n") && !strings.Contains(s, "\"") {
							return "`" + s + "`", true
						}
					}
					if strings.Contains(s, "\"") {
						return encodeQ(s, '\''), true // the attribute is delimited by double quotes
					}
					return strings.ReplaceAll(encodeQ(s, '"'), "\"", "\""), true
				}
				args := make([]string, nargs)
				vals := make([]string, nargs)
				isLit := make([]bool, nargs)
				for a := 0; a < nargs; a++ {
					s := r.pick(strs)
					switch {
					case r.p(15):
						// (an argument that merely BEGINS or ENDS with a string literal is an expression, not a literal)
						args[a], isLit[a] = r.pick([]string{"name", "1", "a + 'b'", "('par')", "T('inner')", "'b' + a", "'x' + 'y'", "`r` + name", "'lit' + 1", "a == 'b' ? 'c' : 'd'", "'p' + ('q')"}), false
					default:
						text, _ := lit(s)
						if strings.Contains(text, "\"") { // keep the double-quoted attribute intact
							text = encodeQ(strings.ReplaceAll(s, "\"", "''"), '\'')
							s = strings.ReplaceAll(s, "\"", "''")
						}
						args[a], vals[a], isLit[a] = text, s, true
					}
				}
				// the last argument may be a slice spread (f('msgid', more...)): one more argument expression, not a literal
				if nargs >= 1 && r.p(12) {
					args, vals, isLit = append(args, "more..."), append(vals, ""), append(isLit, false)
					nargs++
				}
				// repeated occurrences of one call (every occurrence must be referenced)
				if len(prevCalls) > 0 && r.p(35) {
					pc := prevCalls[r.n(len(prevCalls))]
					kw, args, vals, isLit, nargs = pc.kw, pc.args, pc.vals, pc.isLit, len(pc.args)
				} else {
					prevCalls = append(prevCalls, prevCall{kw, args, vals, isLit})
				}
				callee := kw.name
				switch r.n(8) {
				case 0:
					callee = "t." + kw.name
				case 1:
					callee = "(" + kw.name + ")"
				case 2:
					callee = "t?." + kw.name // safe navigation is the same selector
				case 3:
					callee = "(t?." + kw.name + ")"
				}
				call := callee + "(" + strings.Join(args, ", ") + ")"
				// literal text and EARLIER ${} blocks (without keyword calls) in front of the block that holds the call,
				// also across a line break inside the attribute value
				pre := r.pick([]string{"", "x ", "prefix: ", "${name} - ", "${1 + 2}${'s'} ", "a\n  b ", "${name}\n${'x'} "})
				line := `<p ` + ap + r.pick([]string{"text", "title", "data-x"}) + `="` + pre + `${` + call + `}">o</p>`
				// the same on self-closing and void elements, and on a self-closing block element (their directive attributes
				// are evaluated like any others)
				switch r.n(8) {
				case 0:
					line = `<input ` + ap + `placeholder="` + pre + `${` + call + `}" />`
				case 1:
					line = `<img src=x ` + ap + `alt="` + pre + `${` + call + `}"/>`
				case 2:
					line = `<br ` + ap + `title="` + pre + `${` + call + `}">`
				case 3:
					line = `<span ` + ap + `text="` + pre + `${` + call + `}" />`
				}
				// expectation
				enough := kw.name != "other" && kw.max() <= nargs && kw.id >= 1
				if enough && isLit[kw.id-1] {
					e := exp{id: vals[kw.id-1], kw: kw}
					if kw.ctx > 0 && isLit[kw.ctx-1] {
						e.ctx = vals[kw.ctx-1]
					}
					if kw.plural > 0 && isLit[kw.plural-1] {
						e.plural = vals[kw.plural-1]
					}
					// column of the msgid literal: rune offset in the line + 1
					off := strings.Index(line, "${"+call) + 2 + len(callee) + 1
					for a := 0; a < kw.id-1; a++ {
						off += len(args[a]) + 2
					}
					e.ref = c20Ref(fname, ln, line, off)
					want = append(want, e)
					rtCalls = append(rtCalls, kw.name+"|"+e.ctx+"|"+e.id+"|"+e.plural)
				}
				if kwFlag == "" {
					// every nested T('inner') is a keyword call of its own
					for from := 0; ; {
						k := strings.Index(line[from:], "T('inner')")
						if k < 0 {
							break
						}
						off := from + k + 2
						want = append(want, exp{id: "inner", ref: c20Ref(fname, ln, line, off)})
						from = off
					}
				}
				for rest := pre; ; {
					a := strings.Index(rest, "${")
					if a < 0 {
						break
					}
					b := strings.Index(rest[a:], "}")
					allBlocks = append(allBlocks, rest[a+2:a+b])
					rest = rest[a+b+1:]
				}
				allBlocks = append(allBlocks, call)
				sb.WriteString(line + "\n")
				curLine += 1 + strings.Count(line, "\n")
			}
			if kwFlag != "" && f == 0 {
				// always present with the custom keywords: calls that omit only the (last) context argument add nothing
				for _, call := range []string{"ctxlast('Close')", "pl3('One file', '%d files')", "ctxlast(name)"} {
					sb.WriteString(`<p ` + ap + `title="${` + call + `}">o</p>` + "\n")
					allBlocks = append(allBlocks, call)
					curLine++
				}
			}
			if kwFlag == "" && f == 0 {
				// always present: context keywords called with an EMPTY msgid and an empty / a non-literal context — their
				// key would be the header's: nothing may be added and the header must survive
				for _, call := range []string{"_x('', '')", "X(name, '')", "XN('', '', 'p', 2)", "_xn(name, '', 'p', 2)"} {
					sb.WriteString(`<p ` + ap + `title="${` + call + `}">o</p>` + "\n")
					allBlocks = append(allBlocks, call)
					curLine++
				}
			}
			os.WriteFile(filepath.Join(dir, fname), []byte(sb.String()), 0o644)
			rcFiles = append(rcFiles, [2]string{fname, sb.String()})
		}
		os.WriteFile(filepath.Join(dir, "ignored.txt"), []byte("<p :text=\"${T('not a template')}\">"), 0o644)
		out := filepath.Join(dir, "out.pot")
		// the catalogue of an EARLIER, larger extraction is already in the output file in half of the cases: the file is
		// rewritten, nothing of the old catalogue survives
		if i%2 == 0 {
			var old strings.Builder
			old.WriteString("msgid \"\"\nmsgstr \"old header\"\n\n")
			for k := 0; k < 60; k++ {
				fmt.Fprintf(&old, "#: gone.html:%d:3\nmsgid \"stale entry %d\"\nmsgstr \"\"\n\n", k+1, k)
			}
			os.WriteFile(out, []byte(old.String()), 0o644)
		}
		argv := []string{"-path", dir, "-output", out}
		if kwFlag != "" {
			argv = append(argv, "-keywords", kwFlag)
		}
		if ap != ":" {
			argv = append(argv, "-attr_prefix", ap)
		}
		cmd := exec.Command(bin, argv...)
		cmd.Env = append(os.Environ(), "LANG=C")
		log, err := cmd.CombinedOutput()
		cs := J{"files": rcFiles, "keywords": kwFlag, "attr_prefix": ap}
		res.eval(jstr(cs), len(want) > 0, cs)
		res.S3Checked++
		if err != nil {
			res.violate(cs, "xtpl runs", err.Error()+": "+trunc(string(log), 300), "xtpl failed on a valid template set")
			continue
		}
		bs, _ := os.ReadFile(out)
		got := parsePOT(string(bs))
		// ---- run time: render the same templates with recording keyword functions; the strings the evaluator
		// passes must be the strings of the catalogue
		type rcall struct {
			name string
			args []string
		}
		var recorded []rcall
		data := map[string]any{"name": "nm", "a": "a", "more": []any{"m1", "m2", "m3"}}
		recv := map[string]any{}
		for _, kw := range append(append([]kwSpec{}, kws...), kwSpec{name: "other"}, kwSpec{name: "T"}) {
			name := kw.name
			f := func(args ...any) string {
				ss := make([]string, len(args))
				for i, a := range args {
					ss[i] = fmt.Sprint(a)
				}
				recorded = append(recorded, rcall{name, ss})
				return "tr"
			}
			data[name] = f
			recv[name] = f
		}
		data["t"] = recv
		rcx := &renderCase{Files: rcFiles, Cfg: map[string]any{"attrPrefix": ap}}
		if m, lerr, p := implLoad(rcx, nil); lerr == nil && p == nil {
			for _, f := range rcFiles {
				implExec(m, f[0], data, &callLog{}, -1, renderOut{Load: "ok"})
			}
			for _, e := range want {
				if e.kw.name == "" {
					continue
				}
				found := false
				for _, rc := range recorded {
					if rc.name != e.kw.name || len(rc.args) < e.kw.max() || rc.args[e.kw.id-1] != e.id {
						continue
					}
					if e.kw.ctx > 0 && e.ctx != "" && rc.args[e.kw.ctx-1] != e.ctx {
						continue
					}
					if e.kw.plural > 0 && e.plural != "" && rc.args[e.kw.plural-1] != e.plural {
						continue
					}
					found = true
					break
				}
				res.S3Checked++
				if !found {
					res.violate(cs, J{"call": e.kw.name, "msgid": e.id, "ctx": e.ctx, "plural": e.plural}, fmt.Sprint(recorded),
						"the strings the evaluator passes to the keyword function at run time differ from the catalogue strings")
					break
				}
			}
		} else {
			res.SelfTest = append(res.SelfTest, "C20: generated templates do not load: "+fmt.Sprint(lerr, p))
		}
		// expected catalogue: header + one entry per distinct (ctx, id), references = all occurrences
		type key struct{ ctx, id string }
		wantMap := map[key]*potEntry{}
		for _, e := range want {
			if e.ctx == "" && e.id == "" {
				continue // the empty msgid without context is the header's key: reserved, never an entry
			}
			k := key{e.ctx, e.id}
			if wantMap[k] == nil {
				wantMap[k] = &potEntry{Ctx: e.ctx, ID: e.id}
			}
			if e.plural != "" {
				wantMap[k].Plural = e.plural
			}
			wantMap[k].Refs = append(wantMap[k].Refs, e.ref)
		}
		gotMap := map[key]*potEntry{}
		header := false
		for k := range got {
			e := got[k]
			if e.Header {
				header = true
				continue
			}
			gotMap[key{e.Ctx, e.ID}] = &got[k]
		}
		canon := func(m map[key]*potEntry, withPlural bool) string {
			var ks []string
			for k, e := range m {
				refs := append([]string{}, e.Refs...)
				sort.Strings(refs)
				p := ""
				if withPlural {
					p = e.Plural
				}
				ks = append(ks, fmt.Sprintf("%q|%q|%q|%s", k.ctx, k.id, p, strings.Join(refs, ",")))
			}
			sort.Strings(ks)
			return strings.Join(ks, "\n")
		}
		// ---- correspondence with the Lean extraction model (XT.extractMany / XT.catalogue) over the same blocks
		if c.d != nil {
			blocks := allBlocks
			flag := kwFlag
			if flag == "" {
				flag = "T;N:1,2;N64:1,2;X:1c,2;XN:1c,2,3;XN64:1c,2,3;__;_n:1,2;_x:1c,2;_xn:1c,2,3"
			}
			m, err := c.d.ask(J{"op": "xtpl", "keywords": flag, "blocks": blocks})
			if err != nil {
				return err
			}
			if sget(m, "r") == "ok" {
				res.S2Compared++
				var mrows []string
				for _, row := range m["rows"].([]any) {
					r4 := row.([]any)
					mrows = append(mrows, fmt.Sprintf("%q|%q|%v", r4[0], r4[1], r4[3]))
				}
				var grows []string
				for _, e := range got {
					if !e.Header {
						grows = append(grows, fmt.Sprintf("%q|%q|%d", e.Ctx, e.ID, len(e.Refs)))
					}
				}
				sort.Strings(mrows)
				sort.Strings(grows)
				if strings.Join(mrows, "\n") != strings.Join(grows, "\n") {
					res.disagree(cs, grows, mrows, "xtpl catalogue vs extraction model")
				}
			} else {
				res.S2Unsupported++
			}
		}
		if !header {
			res.violate(cs, "header entry present", trunc(string(bs), 300), "the catalogue lost its header entry")
		} else if canon(wantMap, false) != canon(gotMap, false) {
			res.violate(cs, canon(wantMap, false), canon(gotMap, false), "catalogue entries / references differ from the keyword calls with literal msgid in the templates")
		}
		res.count(fmt.Sprintf("entries_%d", min(len(wantMap), 6)))
	}
	return nil
}

// c20Ref: file:line:column of byte offset off in an element that starts on line ln (columns count runes from 1)
func c20Ref(fname string, ln int, line string, off int) string {
	before := line[:off]
	ln += strings.Count(before, "\n")
	if k := strings.LastIndex(before, "\n"); k >= 0 {
		before = before[k+1:]
	}
	return fmt.Sprintf("%s:%d:%d", fname, ln, len([]rune(before))+1)
}
