package main

import (
	"errors"
	"fmt"
	"html"
	"strconv"
	"strings"
	"sync"
	"unicode/utf8"

	tplhtml "code.gopub.tech/tpl/html"
)

func init() {
	props["C14"] = propC14
	props["C02"] = propC02
}

// encoders of the three quoting styles (the same as ENC.encodeDQ/SQ/Raw in TplModel/Exp/Encode.lean)
func encodeQ(s string, q byte) string {
	var sb strings.Builder
	sb.WriteByte(q)
	for _, c := range s {
		switch {
		case c == '\\':
			sb.WriteString(`\\`)
		case c == rune(q):
			sb.WriteByte('\\')
			sb.WriteByte(q)
		case c == '\n':
			sb.WriteString(`\n`)
		case c == '\r':
			sb.WriteString(`\r`)
		case c == '\t':
			sb.WriteString(`\t`)
		case c < 0x20 || c == 0x7f:
			sb.WriteString(fmt.Sprintf(`\x%02x`, c))
		default:
			sb.WriteRune(c)
		}
	}
	sb.WriteByte(q)
	return sb.String()
}

func escapeGoStyle(s string) string { return html.EscapeString(s) }

// C14: string literals round-trip in all three quoting styles.
func propC14(c *ctx) error {
	res := c.res
	res.Rule = "all strings of length <= 3 (thorough) / <= 2 (quick) over the alphabet \" ' ` \\ { } $ newline tab U+0001 é U+1F600 a, plus random longer strings, written in each quoting style that can express them; evaluated directly and embedded in :text and a dynamic attribute delimited by either quote; distinct = distinct (string, style, embedding); non-trivial = all"
	alpha := []string{"\"", "'", "`", "\\", "{", "}", "$", "\n", "\t", "\x01", "é", "\U0001F600", "a", "\uFFFD"}
	r := newRng(c.seed, "C14")
	check := func(s string) error {
		styles := []struct{ name, lit string }{{"dq", encodeQ(s, '"')}, {"sq", encodeQ(s, '\'')}}
		if !strings.ContainsAny(s, "`\r") {
			styles = append(styles, struct{ name, lit string }{"raw", "`" + s + "`"})
		}
		for _, st := range styles {
			out := implEvalStable(st.lit, []any{map[string]any{}})
			res.eval(st.name+"|"+s, true, J{"string": s, "literal": st.lit})
			res.S3Checked++
			want := "string:" + hexOf(s)
			if out.R != "ok" || out.V != want {
				res.violate(J{"src": st.lit, "string": s, "style": st.name}, want, out.R+":"+out.V+" "+trunc(out.Err, 100), "literal does not evaluate to the string it denotes")
			}
			if c.d != nil {
				m, err := c.d.ask(J{"op": "eval", "src": st.lit, "data": nil})
				if err != nil {
					return err
				}
				if sget(m, "r") == "unsupported" {
					res.S2Unsupported++
				} else {
					res.S2Compared++
					if sget(m, "r") != out.R || (out.R == "ok" && sget(m, "v") != out.V) {
						res.disagree(J{"src": st.lit}, J{"r": out.R, "v": out.V}, m, "eval of a literal")
					}
				}
			}
			// embedded in a directive value delimited by either quote (the literal may not contain the delimiter)
			for _, dq := range []string{"\"", "'"} {
				if strings.Contains(st.lit, dq) {
					continue
				}
				for _, dir := range []string{"text", "title"} {
					src := "<p :" + dir + "=" + dq + "x${" + st.lit + "}y" + dq + ">z</p>"
					rc := &renderCase{Files: [][2]string{{"t", src}}, Tpl: "t"}
					impl, _, err := compareRender(c, rc, false)
					if err != nil {
						return err
					}
					res.eval("emb|"+src, true, J{"src": src})
					res.S3Checked++
					wantOut := "<p>x" + escapeGoStyle(s) + "y</p>"
					if dir == "title" {
						wantOut = "<p title=\"x" + escapeGoStyle(s) + "y\">z</p>"
					}
					if impl.Load != "ok" || impl.St != "ok" || impl.text() != wantOut {
						res.violate(rc.toJ(), wantOut, J{"load": impl.Load, "st": impl.St, "out": impl.text(), "err": trunc(impl.Err, 120)},
							"a literal inside ${} (containing braces, '${' or the other quote characters) ends the block or the attribute early / is decoded wrongly")
					}
				}
			}
		}
		return nil
	}
	// the directive sits in a tag whose OTHER attributes (before and after it) are delimited by the other quote character, or
	// by none: each attribute value ends at its own delimiter, and the literal inside ${} may contain the other one
	for _, a := range alpha {
		for _, b := range append([]string{""}, alpha...) {
			s := a + b
			for _, lit := range []string{encodeQ(s, '"'), encodeQ(s, '\'')} {
				for _, dq := range []string{"\"", "'"} {
					if strings.Contains(lit, dq) {
						continue
					}
					oq := map[string]string{"\"": "'", "'": "\""}[dq]
					for vi, tag := range []string{
						"<p class=" + oq + "k" + oq + " :text=" + dq + "x${" + lit + "}y" + dq + ">z</p>",
						"<p :text=" + dq + "x${" + lit + "}y" + dq + " class=" + oq + "k" + oq + ">z</p>",
						"<p id=" + dq + "i" + dq + " class=" + oq + "k" + oq + " :text=" + dq + "x${" + lit + "}y" + dq + " lang=en>z</p>",
					} {
						rc := &renderCase{Files: [][2]string{{"t", tag}}, Tpl: "t"}
						impl, _, err := compareRender(c, rc, false)
						if err != nil {
							return err
						}
						res.eval("mixq|"+tag, true, J{"src": tag})
						res.S3Checked++
						res.count("mixed_quote_tags")
						wantOut := []string{"<p class=" + oq + "k" + oq + ">", "<p class=" + oq + "k" + oq + ">", "<p id=" + dq + "i" + dq + " class=" + oq + "k" + oq + " lang=en>"}[vi] + "x" + escapeGoStyle(s) + "y</p>"
						if impl.Load != "ok" || impl.St != "ok" || impl.text() != wantOut {
							res.violate(rc.toJ(), wantOut, J{"load": impl.Load, "st": impl.St, "out": impl.text(), "err": trunc(impl.Err, 120)},
								"in a tag whose attributes use both quote characters, a literal inside ${} ends the attribute early / another attribute's delimiter is applied")
						}
					}
				}
			}
		}
	}
	maxLen := 2
	if !c.quick() {
		maxLen = 3
	}
	var rec func(prefix string, d int) error
	cnt := 0
	rec = func(prefix string, d int) error {
		cnt++
		if err := check(prefix); err != nil {
			return err
		}
		if d == 0 {
			return nil
		}
		for _, a := range alpha {
			if err := rec(prefix+a, d-1); err != nil {
				return err
			}
		}
		return nil
	}
	if err := rec("", maxLen); err != nil {
		return err
	}
	res.Distribution["exhaustive_strings"] = cnt
	res.Exhaustive = true
	pool := append(append([]string{}, alpha...), "${", "}}", "\\n", "\\'", "\\\"", "-->", "</script>", " ", "ü", " ", "0", "x41", "\\x41", "\\u00e9", "\\101", "&amp;", "&", "&#39;", "&quot;", ";", "/*", "*/", "//", "/", "*")
	n := c.n(150, 6000)
	for i := 0; i < n; i++ {
		var sb strings.Builder
		for k := 1 + r.n(10); k > 0; k-- {
			sb.WriteString(r.pick(pool))
		}
		if utf8.ValidString(sb.String()) {
			if err := check(sb.String()); err != nil {
				return err
			}
		}
	}
	// strings that SPELL HTML character references: inside a literal they are just characters (the attribute value is
	// source text of the expression language, nobody un-escapes it before it is compiled)
	for _, s := range []string{"&amp;", "&lt;", "&gt;", "&quot;", "&#39;", "&#x60;", "&copy", "&copy;", "Tom &amp; Jerry", "?id=1&copy=2", "&amp;amp;", "&", "a&b;", "&#34;x", "&nbsp;", "&#0;",
		// strings that SPELL comment delimiters of the expression language: inside a literal they are just characters
		"image/*", "*/*", "src/**/*.go", "/* TODO", "a // b", "*/ x /*", "/*", "*/", "//", "/**/", "http://x/y", "a /* b */ c", "/*/", "*//*", "//\n", "/* \n",
		// characters that look like decoding accidents but are characters: U+FFFD itself, U+FEFF, U+0000-free controls, the
		// last code points of the planes, combining marks, right-to-left marks
		"\uFFFD", "a\uFFFDb", "\uFFFD\uFFFD", "\uFEFF", "\u200F", "e\u0301", "\U0010FFFF", "\uFFFE", "\u007f", "\u0085", "\u2028\u2029"} {
		if err := check(s); err != nil {
			return err
		}
	}
	// escape SEQUENCES written in the source of an interpreted literal: every \xHH, every \OOO, \u/\U samples, the simple
	// escapes, alone and in sequences (multi-byte UTF-8 spelled byte by byte); the oracle is Go's own strconv.Unquote of the
	// double-quoted spelling; the single-quoted style denotes the same string
	var bodies []string
	for b := 0; b < 256; b++ {
		bodies = append(bodies, fmt.Sprintf(`\x%02x`, b), fmt.Sprintf(`\%03o`, b))
		if b%16 == 5 {
			bodies = append(bodies, fmt.Sprintf(`\x%02X`, b), fmt.Sprintf(`a\x%02xb`, b), fmt.Sprintf(`\%03o7`, b))
		}
	}
	for _, cp := range []int{0, 0x41, 0x7f, 0x80, 0xe9, 0xff, 0x100, 0x7ff, 0x800, 0x4e2d, 0xd7ff, 0xe000, 0xfffd, 0xffff} {
		bodies = append(bodies, fmt.Sprintf(`\u%04x`, cp), fmt.Sprintf(`\U%08x`, cp))
	}
	bodies = append(bodies, `\U0001f600`, `\U0010ffff`, `\a\b\f\n\r\t\v\\`, `\xe4\xb8\xad`, `\344\270\255`, `x\xc3\xa9y`, `\xf0\x9f\x98\x80`, `\xff\xfe`, `\377\376a`, `\xc3`, `é\xe9\u00e9`, `\x80\u0080`,
		// an escaped double quote is the same character in both interpreted styles
		`a\"b`, `\"`, `\"\"x`, `\\\"`, `He says \"ok\".`, `\"\n\"`)
	for i := 0; i < c.n(60, 3000); i++ {
		var sb strings.Builder
		for k := 1 + r.n(5); k > 0; k-- {
			sb.WriteString(r.pick(bodies))
			if r.p(30) {
				sb.WriteString(r.pick([]string{"a", "é", " ", "0", "7"}))
			}
		}
		bodies = append(bodies, sb.String())
	}
	for _, body := range bodies {
		want, uerr := strconv.Unquote(`"` + body + `"`)
		for _, q := range []string{`"`, `'`} {
			lit := q + body + q
			out := implEvalStable(lit, []any{map[string]any{}})
			res.eval("esc|"+lit, true, J{"literal": lit})
			res.S3Checked++
			res.count("escape_literals")
			if uerr != nil {
				if out.R == "ok" {
					res.violate(J{"src": lit}, "error (Go rejects this escape)", out.V, "a literal with an invalid escape sequence evaluates to a value")
				}
				continue
			}
			if ws := "string:" + hexOf(want); out.R != "ok" || out.V != ws {
				res.violate(J{"src": lit, "style": q}, ws, out.R+":"+out.V+" "+trunc(out.Err, 100), "a literal written with Go escape sequences does not evaluate to the string Go gives it")
			}
			if c.d != nil && utf8.ValidString(want) {
				m, err := c.d.ask(J{"op": "eval", "src": lit, "data": nil})
				if err != nil {
					return err
				}
				if sget(m, "r") == "unsupported" {
					res.S2Unsupported++
				} else {
					res.S2Compared++
					if sget(m, "r") != out.R || (out.R == "ok" && sget(m, "v") != out.V) {
						res.disagree(J{"src": lit}, J{"r": out.R, "v": out.V}, m, "eval of a literal with escape sequences")
					}
				}
			}
		}
	}
	// literals evaluated from several goroutines at once (every goroutine its own literals, in all three styles): each
	// evaluation yields exactly its own string — nothing about decoding a literal may be shared between evaluations
	{
		const G, N = 8, 1500
		var wg sync.WaitGroup
		bad := make([]string, G)
		for g := 0; g < G; g++ {
			wg.Add(1)
			go func(g int) {
				defer wg.Done()
				for k := 0; k < N && bad[g] == ""; k++ {
					str := fmt.Sprintf("g%d-%d-%s", g, k, strings.Repeat(string(rune('a'+g)), 1+k%40)) + []string{"", "'", "\"", "\\", "é\n"}[k%5]
					lit := []string{encodeQ(str, '\''), encodeQ(str, '"')}[k%2]
					if k%7 == 0 && !strings.ContainsAny(str, "`\r") {
						lit = "`" + str + "`"
					}
					out := implEval(lit, []any{map[string]any{}}, nil)
					if want := "string:" + hexOf(str); out.R != "ok" || out.V != want {
						bad[g] = fmt.Sprintf("goroutine %d evaluation %d of %s: %s:%s %s", g, k, lit, out.R, out.V, trunc(out.Err, 80))
					}
				}
			}(g)
		}
		wg.Wait()
		res.S3Checked += G * N
		res.count("concurrent_literal_evaluations")
		for _, b := range bad {
			if b != "" {
				res.violate(J{"goroutines": G, "evaluations_each": N}, "every literal evaluates to its own string", b, "literals evaluated concurrently do not evaluate to exactly the strings they denote")
				break
			}
		}
	}
	// LONG literals (around the buffer sizes of the readers involved: 4096, 8192, 65536 bytes), in every style and embedded
	for _, n := range []int{4090, 4095, 4096, 4097, 4125, 8192, 8193} {
		for _, unit := range []string{"a", "é", "ab\n"} {
			if (n != 4096 && n != 4125 && unit != "a") || (c.quick() && n > 4200 && unit != "a") {
				continue
			}
			res.count("long_literals")
			if err := check(strings.Repeat(unit, n/len(unit)+1)[:n-n%len(unit)]); err != nil {
				return err
			}
		}
	}
	for _, cs := range c.corpusCases() {
		if s, ok := cs["string"].(string); ok {
			if err := check(s); err != nil {
				return err
			}
		}
	}
	return nil
}

// C02: inserted values are escaped and cannot change the markup structure.
func propC02(c *ctx) error {
	res := c.res
	res.Rule = "adversarial strings (all strings of length <= 2 quick / <= 3 thorough over < > & \" ' \\ newline tab U+0001 $ { } - é U+2028, plus -->, </script>, ${, random longer ones) inserted at every insertion point: :text on ordinary and raw-text elements, dynamic attributes (pure ${} and literal/${} mixtures), values from data, :with variables, :range items and function results; distinct = distinct (string, insertion point); non-trivial = the string contains a character HTML treats specially"
	alpha := []string{"<", ">", "&", "\"", "'", "\\", "\n", "\t", "\x01", "$", "{", "}", "-", "é", " "}
	points := []struct{ name, tpl string }{
		{"text", `<p :text="${s}">old</p>`},
		{"text-mix", `<p :text="a ${s} b">old</p>`},
		{"text-children", `<section :text="${s}"><b>old</b> child <i :text="${nope}">never</i></section>`},
		{"text-mix-children", `<h2 :text="${s}${s}"><b>old</b></h2>`},
		{"text-raw-element", `<textarea :text="${s}">old</textarea>`},
		{"text-title", `<title :text="${s}">old</title>`},
		{"attr", `<a :href="${s}" id=k>x</a>`},
		{"attr-mix", `<a :title="t: ${s}!" id=k>x</a>`},
		{"attr-override", `<a title="static" :title="${s}">x</a>`},
		{"with", `<div :with="w := ${s}"><b :text="${w}" :class="${w}">o</b></div>`},
		{"range", `<ul><li :range="_, it : items" :text="${it}" :data-v="${it}">o</li></ul>`},
		{"func", `<i :text="${fs()}" :title="${fs()}">o</i>`},
		{"nested", `<div :if="${t}"><span :range="i, it : items"><em :title="${it}${i}">e</em></span></div>`},
	}
	tagSeq := func(out string) (string, bool) {
		toks, err, p := implScanTokens(out, []string{"script", "style", "textarea", "title"}, noPrefix)
		if err != nil || p != nil {
			return "", false
		}
		var sb strings.Builder
		for _, t := range toks {
			if t.Tag != nil {
				sb.WriteString("<" + t.Tag.Name)
				for _, a := range t.Tag.Attrs {
					sb.WriteString(" " + a.Name)
				}
				sb.WriteString(">")
			} else if t.Kind == 3 || t.Kind == 4 {
				sb.WriteString("[" + fmt.Sprint(int(t.Kind)) + "]")
			}
		}
		return sb.String(), true
	}
	render := func(tpl, s string) (renderOut, *renderCase) {
		rc := &renderCase{Files: [][2]string{{"t", tpl}}, Tpl: "t",
			Data: vMap(kv{"s", vStr(s)}, kv{"t", vBool(true)}, kv{"items", vAnySlice(vStr(s), vStr("k"))}, kv{"fs", val{nil, J{"fn": "fs"}}}).j,
			Fns:  map[string]fnDecl{"fs": {Kind: "val", Ret: vStr(s).j}}}
		return implRender(rc, -1), rc
	}
	check := func(s string) error {
		for _, pt := range points {
			out, rc := render(pt.tpl, s)
			base, _ := render(pt.tpl, "x")
			special := strings.ContainsAny(s, "<>&\"'\\\n\t\x01")
			res.eval(pt.name+"|"+s, special, J{"point": pt.name, "string": s, "out": trunc(out.text(), 160)})
			res.count("point_" + pt.name)
			res.S3Checked++
			if out.Load != "ok" || out.St != "ok" {
				res.violate(rc.toJ(), "renders", J{"load": out.Load, "st": out.St, "err": trunc(out.Err, 120)}, "rendering fails for an inserted string")
				continue
			}
			// (1) same sequence of tags and attribute names whatever the string
			ts, ok1 := tagSeq(out.text())
			tb, ok2 := tagSeq(base.text())
			if !ok1 || !ok2 || ts != tb {
				res.violate(rc.toJ(), tb, J{"tags": ts, "out": trunc(out.text(), 240)}, "an inserted string changes the sequence of tags / attribute names of the output")
				continue
			}
			// (2) the consumer reads back exactly the string: replace the string by a marker-free comparison:
			// output(s) must equal output("x") with the escaped x replaced by the escaped s at every insertion
			esc := html.EscapeString(s)
			if html.UnescapeString(esc) != s {
				res.SelfTest = append(res.SelfTest, "oracle: stdlib escape/unescape do not round-trip "+s)
			}
			want := strings.ReplaceAll(markX(pt.tpl, base.text()), "\x00", esc)
			if want != "" && out.text() != want {
				res.violate(rc.toJ(), want, out.text(), "the emitted text / attribute value does not unescape to the inserted string")
			}
			if c.d != nil {
				if _, _, err := compareRender(c, rc, true); err != nil {
					return err
				}
			}
		}
		// the same insertion points under a manager configured with ANOTHER attribute prefix: what is escaped depends on the
		// directive, not on how its name is spelled (one prefix per string, chosen by the string)
		{
			ap := []string{"th:", "data-t-", "@", "v-"}[len(s)%4]
			for _, pt := range points[:8] {
				tpl := c06AttrRe.ReplaceAllString(pt.tpl, " "+ap+"$1")
				mk := func(str string) (renderOut, *renderCase) {
					rc := &renderCase{Files: [][2]string{{"t", tpl}}, Tpl: "t", Cfg: map[string]any{"attrPrefix": ap},
						Data: vMap(kv{"s", vStr(str)}, kv{"t", vBool(true)}, kv{"items", vAnySlice(vStr(str), vStr("k"))}, kv{"fs", val{nil, J{"fn": "fs"}}}).j,
						Fns:  map[string]fnDecl{"fs": {Kind: "val", Ret: vStr(str).j}}}
					return implRender(rc, -1), rc
				}
				out, rc := mk(s)
				ref, _ := render(pt.tpl, s) // the default-prefix rendering of the same point, judged above
				res.S3Checked++
				res.count("custom_prefix_points")
				if out.Load != "ok" || out.St != "ok" || out.text() != ref.text() {
					res.violate(rc.toJ(), ref.text(), J{"load": out.Load, "st": out.St, "out": out.text()}, "under a custom attribute prefix an insertion point renders differently from the default prefix (escaping must not depend on the spelling of the directive)")
				}
				if c.d != nil && len(s) <= 2 {
					if _, _, err := compareRender(c, rc, true); err != nil {
						return err
					}
				}
			}
		}
		// the inserted value need not be a Go string: whatever prints the characters (a named string type, a Stringer, an
		// error, a slice, a map, a pointer) is escaped all the same — what is escaped is the printed text
		if len(s) <= 3 || strings.ContainsAny(s, "<&\"'") {
			str := s
			for _, sh := range []struct {
				name string
				v    any
			}{{"named string type", namedStr(s)}, {"Stringer", stringerT(s)}, {"error", errors.New(s)}, {"[]string", []string{s, "k"}}, {"[]any", []any{s}},
				{"map", map[string]string{"k": s}}, {"*string", &str}, {"[1]string", [1]string{s}}, {"struct", struct{ A string }{s}}, {"[]byte", []byte(s)}} {
				if sh.name == "*string" {
					continue // prints as an address
				}
				printed := fmt.Sprint(sh.v)
				m := tplhtml.NewTplManager()
				if err := m.Add("t", strings.NewReader(`<p :text="${v}">o</p><a :title="${v}" :data-m="x${v}y" id=k>z</a>`)); err != nil {
					continue
				}
				t, _ := m.GetTemplate("t")
				var sb strings.Builder
				err := t.Execute(&sb, map[string]any{"v": sh.v})
				e := html.EscapeString(printed)
				want := "<p>" + e + `</p><a title="` + e + `" data-m="x` + e + `y" id=k>z</a>`
				res.S3Checked++
				res.count("non_string_values")
				if err != nil || sb.String() != want {
					res.violate(J{"string": s, "carried_by": sh.name}, want, J{"out": sb.String(), "err": fmt.Sprint(err)}, "a value that is not a Go string but prints special characters is not escaped like a string")
				}
			}
		}
		// the raw directive is the only place that emits the value unmodified
		out, rc := render(`<p :raw="${s}">o</p>`, s)
		res.S3Checked++
		if out.St != "ok" || out.text() != "<p>"+s+"</p>" {
			res.violate(rc.toJ(), "<p>"+s+"</p>", out.text(), "the raw directive does not emit the value unmodified")
		}
		out, rc = render(`<h3 :raw="${fs()}"><b>old</b> child</h3>`, s)
		res.S3Checked++
		if out.St != "ok" || out.text() != "<h3>"+s+"</h3>" {
			res.violate(rc.toJ(), "<h3>"+s+"</h3>", out.text(), "the raw directive does not replace the placeholder content by the unmodified value")
		}
		return nil
	}
	maxLen := 2
	if !c.quick() {
		maxLen = 3
	}
	var rec func(prefix string, d int) error
	rec = func(prefix string, d int) error {
		// the empty string included: an insertion that evaluates to "" still replaces the placeholder content
		if err := check(prefix); err != nil {
			return err
		}
		if d == 0 {
			return nil
		}
		for _, a := range alpha {
			if err := rec(prefix+a, d-1); err != nil {
				return err
			}
		}
		return nil
	}
	if err := rec("", maxLen); err != nil {
		return err
	}
	res.Exhaustive = true
	r := newRng(c.seed, "C02")
	pool := append(append([]string{}, alpha...), "-->", "</script>", "${", "}", "<b>", "&amp;", "&#39;", "' onx='", "\" onx=\"", "</textarea>", "</title>", " ", "ü", "%", "\\n", "<!--")
	n := c.n(120, 4000)
	for i := 0; i < n; i++ {
		var sb strings.Builder
		for k := 1 + r.n(12); k > 0; k-- {
			sb.WriteString(r.pick(pool))
		}
		if err := check(sb.String()); err != nil {
			return err
		}
	}
	for _, cs := range c.corpusCases() {
		if s, ok := cs["string"].(string); ok {
			if err := check(s); err != nil {
				return err
			}
		}
	}
	// ---- literal/${} mixtures whose LITERAL part carries HTML-special characters or spells a character reference: the
	// whole evaluated string is escaped, not only the block results
	{
		type mix struct{ tpl, pre, post, wantPre, wantPost string }
		mixes := []mix{
			{`<p :text="<b>${s}</b> &amp; x">o</p>`, "<b>", "</b> &amp; x", "<p>", "</p>"},
			{`<p :text='say "hi" to ${s} &lt;'>o</p>`, `say "hi" to `, ` &lt;`, "<p>", "</p>"},
			{`<a :title='say "hi" to ${s}!' id=k>x</a>`, `say "hi" to `, `!`, `<a title="`, `" id=k>x</a>`},
			{`<a :href="?a=1&amp;b=${s}&c" id=k>x</a>`, `?a=1&amp;b=`, `&c`, `<a href="`, `" id=k>x</a>`},
			{`<a :title="it's ${s} > 1" id=k>x</a>`, `it's `, ` > 1`, `<a title="`, `" id=k>x</a>`},
		}
		for _, mx := range mixes {
			for _, sv := range []string{"x", "<i>", "&", "\"", "", "a&amp;b"} {
				rc := &renderCase{Files: [][2]string{{"t", mx.tpl}}, Tpl: "t", Data: vMap(kv{"s", vStr(sv)}).j}
				want := mx.wantPre + html.EscapeString(mx.pre+sv+mx.post) + mx.wantPost
				var out renderOut
				if c.d != nil {
					o, _, err := compareRender(c, rc, true)
					if err != nil {
						return err
					}
					out = o
				} else {
					out = implRender(rc, -1)
				}
				res.eval("mix|"+mx.tpl+"|"+sv, true, J{"tpl": mx.tpl, "s": sv})
				res.S3Checked++
				res.count("literal_part_cases")
				if out.St != "ok" || out.text() != want {
					res.violate(rc.toJ(), want, J{"st": out.St, "out": out.text(), "err": trunc(out.Err, 120)},
						"a literal/block mixture is not emitted as the escape of the WHOLE evaluated string")
				}
			}
		}
	}
	// ---- attribute NAMES x word-like values: the attribute is emitted with the escaped value whatever its name means
	// to a browser (boolean attributes, event handlers, URLs, style) and whatever the value spells (false, null, …);
	// alone, over a static attribute of the same name with a value, and over a VALUELESS static one
	names := []string{"checked", "disabled", "selected", "readonly", "required", "hidden", "multiple", "autofocus", "open", "async", "defer",
		"value", "href", "src", "style", "class", "id", "name", "type", "onclick", "data-x", "aria-hidden", "title", "for", "is", "x",
		// directive names in another letter case are NOT directives: ordinary dynamic attributes, escaped like any other
		"Text", "TEXT", "tExt", "Raw", "RAW", "If", "Range", "With", "Insert", "Remove", "Define", "Else"}
	words := []string{"false", "true", "", "0", "1", "null", "nil", "undefined", "none", "off", "no", "False", "FALSE", "<nil>", " false ", "checked", "javascript:alert(1)"}
	if c.quick() {
		words = words[:9]
	}
	for _, nm := range names {
		for _, w := range words {
			for vi, form := range []string{
				`<input :` + nm + `="${s}" id=k>`,
				`<input ` + nm + `="static" :` + nm + `="${s}" id=k>`,
				`<input ` + nm + ` :` + nm + `="${s}" id=k>`,
				`<input id=k :` + nm + `="${s}" ` + nm + `>`,
			} {
				if nm == "id" && vi > 0 {
					continue
				}
				rc := &renderCase{Files: [][2]string{{"t", form}}, Tpl: "t", Data: vMap(kv{"s", vStr(w)}).j}
				want := `<input ` + nm + `="` + html.EscapeString(w) + `" id=k>`
				// (directive attributes are sorted before plain ones: the written position of the dynamic attribute does
				// not matter, form 3 prints like the others)
				if nm == "id" {
					want = `<input id="` + html.EscapeString(w) + `">` // the dynamic id replaces the static id=k
				}
				var out renderOut
				if c.d != nil {
					o, _, err := compareRender(c, rc, true)
					if err != nil {
						return err
					}
					out = o
				} else {
					out = implRender(rc, -1)
				}
				res.eval("name|"+form+"|"+w, true, J{"tpl": form, "s": w})
				res.S3Checked++
				res.count("attr_name_value_cases")
				if out.St != "ok" || out.text() != want {
					res.violate(rc.toJ(), want, J{"st": out.St, "out": out.text(), "err": trunc(out.Err, 120)},
						"a dynamic attribute is not emitted as name=\"escaped value\" exactly once (it must not depend on the attribute's name or on what the value spells, and it replaces a static attribute of the same name)")
				}
			}
		}
	}
	return nil
}

// markX replaces the insertion sites of the base rendering (made with the string "x") by NUL markers.
// The templates are written so that every "x" produced by the inserted value is recognisable from its context.
func markX(tpl, baseOut string) string {
	repl := map[string][2]string{
		`<p :text="${s}">old</p>`:                  {"<p>x</p>", "<p>\x00</p>"},
		`<p :text="a ${s} b">old</p>`:              {"<p>a x b</p>", "<p>a \x00 b</p>"},
		`<textarea :text="${s}">old</textarea>`:    {"<textarea>x</textarea>", "<textarea>\x00</textarea>"},
		`<title :text="${s}">old</title>`:          {"<title>x</title>", "<title>\x00</title>"},
		`<a :href="${s}" id=k>x</a>`:               {`href="x"`, "href=\"\x00\""},
		`<a :title="t: ${s}!" id=k>x</a>`:          {`title="t: x!"`, "title=\"t: \x00!\""},
		`<a title="static" :title="${s}">x</a>`:    {`title="x"`, "title=\"\x00\""},
		`<i :text="${fs()}" :title="${fs()}">o</i>`: {`<i title="x">x</i>`, "<i title=\"\x00\">\x00</i>"},
	}
	if p, ok := repl[tpl]; ok {
		if !strings.Contains(baseOut, p[0]) {
			return ""
		}
		return strings.Replace(baseOut, p[0], p[1], 1)
	}
	switch tpl {
	case `<section :text="${s}"><b>old</b> child <i :text="${nope}">never</i></section>`:
		return strings.Replace(baseOut, "<section>x</section>", "<section>\x00</section>", 1)
	case `<h2 :text="${s}${s}"><b>old</b></h2>`:
		return strings.Replace(baseOut, "<h2>xx</h2>", "<h2>\x00\x00</h2>", 1)
	case `<div :with="w := ${s}"><b :text="${w}" :class="${w}">o</b></div>`:
		return strings.Replace(baseOut, `<b class="x">x</b>`, "<b class=\"\x00\">\x00</b>", 1)
	case `<ul><li :range="_, it : items" :text="${it}" :data-v="${it}">o</li></ul>`:
		return strings.Replace(baseOut, `<li data-v="x">x</li>`, "<li data-v=\"\x00\">\x00</li>", 1)
	case `<div :if="${t}"><span :range="i, it : items"><em :title="${it}${i}">e</em></span></div>`:
		return strings.Replace(baseOut, `<em title="x1">`, "<em title=\"\x001\">", 1)
	}
	return ""
}

type namedStr string
