package main

import (
	"regexp"
	"errors"
	"fmt"
	"strings"

	"code.gopub.tech/tpl/exp"
	"code.gopub.tech/tpl/html"
)

func init() { props["C06"] = propC06 }

var c06AttrRe = regexp.MustCompile(` :([a-z])`)

type scopeTree struct {
	leaf     *val
	c, p     *scopeTree
	deflt    *scopeTree
}

func (t *scopeTree) j() any {
	switch {
	case t.leaf != nil:
		return J{"leaf": t.leaf.j}
	case t.deflt != nil:
		return J{"default": t.deflt.j()}
	}
	return J{"combine": []any{t.c.j(), t.p.j()}}
}

func (t *scopeTree) build() exp.Scope {
	switch {
	case t.leaf != nil:
		return exp.NewScope(t.leaf.g)
	case t.deflt != nil:
		return exp.WithDefaultScope(t.deflt.build())
	}
	return exp.Combine(t.c.build(), t.p.build())
}

// C06: names resolve innermost-first and bindings never leak.
func propC06(c *ctx) error {
	res := c.res
	res.Rule = "random scope trees (depth <= 5) built through NewScope/Combine/WithDefaultScope with leaves that bind the name, bind it to nil, fail the lookup (slice data, unexported field) or lack it, over map / struct / pointer / nil data; plus templates nesting with/range bindings to depth 4 that shadow data, global-scope and built-in names, with probes in siblings, after the element and in later renders; distinct = distinct (tree, name) or (template, data); non-trivial = at least two scopes know the name or one fails"
	r := newRng(c.seed, "C06")
	names := []string{"x", "A", "c", "len", "true", "k", "0", "Get", "zz"}
	leafFor := func() val {
		switch r.n(10) {
		case 0:
			return vMap(kv{"x", vStr("m" + fmt.Sprint(r.n(9)))}, kv{"k", vInt(r.n(9))})
		case 1:
			return vMap(kv{"x", vNil()}, kv{"len", vInt(3)})
		case 2:
			return vMap()
		case 3:
			return vS(r.n(5), "sb", nil)
		case 4:
			return vPtrS(vS(7, "pp", nil))
		case 5:
			return vNilPtrS()
		case 6:
			return vNil()
		case 7:
			return vIntSlice(5, 6)
		case 8:
			return vMap(kv{"A", vNil()}, kv{"true", vStr("shadowed")}, kv{"zz", vBool(false)})
		}
		return vMap(kv{"c", vStr("cc")}, kv{"0", vStr("zero")}, kv{"Get", vInt(1)})
	}
	var gen func(d int) *scopeTree
	gen = func(d int) *scopeTree {
		if d == 0 || r.p(35) {
			v := leafFor()
			return &scopeTree{leaf: &v}
		}
		if r.p(15) {
			return &scopeTree{deflt: gen(d - 1)}
		}
		return &scopeTree{c: gen(d - 1), p: gen(d - 1)}
	}
	var leaves func(t *scopeTree) []val
	leaves = func(t *scopeTree) []val {
		switch {
		case t.leaf != nil:
			return []val{*t.leaf}
		case t.deflt != nil:
			return append(leaves(t.deflt), val{g: "DEFAULT"})
		}
		return append(leaves(t.c), leaves(t.p)...)
	}
	classify := func(sc exp.Scope, name string) (string, any) {
		var v any
		var err error
		func() {
			defer func() {
				if x := recover(); x != nil {
					err = fmt.Errorf("PANIC %v", x)
				}
			}()
			v, err = sc.Get(name)
		}()
		switch {
		case err == nil:
			return "found", v
		case strings.HasPrefix(err.Error(), "PANIC"):
			return "panic", nil
		case errors.Is(err, exp.ErrNoSuchValue):
			return "absent", nil
		}
		return "failed", nil
	}
	n := c.n(2500, 120000)
	for i := 0; i < n; i++ {
		t := gen(1 + r.n(5))
		name := r.pick(names)
		sc := t.build()
		got, gv := classify(sc, name)
		// specification: first leaf (in-order, child first) whose own answer is not "absent"
		want, wv := "absent", any(nil)
		knowing := 0
		for _, lf := range leaves(t) {
			var k string
			var v any
			if s, ok := lf.g.(string); ok && s == "DEFAULT" {
				k, v = classify(exp.WithDefaultScope(exp.EmptyScope()), name)
			} else {
				k, v = classify(exp.NewScope(lf.g), name)
			}
			if k != "absent" {
				knowing++
				if want == "absent" {
					want, wv = k, v
				}
			}
		}
		res.eval(jstr(t.j())+"|"+name, knowing >= 2 || want == "failed", J{"tree": t.j(), "name": name, "expect": want})
		res.count("expect_" + want)
		res.S3Checked++
		if got != want || (got == "found" && canonGo(gv) != canonGo(wv)) {
			res.violate(J{"tree": t.j(), "name": name}, J{"r": want, "v": canonGo(wv)}, J{"r": got, "v": canonGo(gv)}, "lookup does not return the first scope (innermost first) in which the name is not absent")
		}
		if c.d != nil {
			m, err := c.d.ask(J{"op": "scopetree", "tree": t.j(), "name": name})
			if err != nil {
				return err
			}
			res.S2Compared++
			if sget(m, "r") != got || (got == "found" && canonGo(gv) != "func" && sget(m, "v") != canonGo(gv)) {
				res.disagree(J{"tree": t.j(), "name": name}, J{"r": got, "v": canonGo(gv)}, m, "scope tree lookup")
			}
		}
	}
	// ---- Combine never changes the scopes it is given: one parent chain of k layers shared by several children (what the
	// engine does with the manager's global scope: every Execute combines ITS data with the same parent). Every child keeps
	// seeing its own innermost scope, whatever was combined with the parent before or after it.
	for k := 1; k <= 9; k++ {
		var parent exp.Scope = exp.NewScope(map[string]any{"g": "g0", "layer0": 0})
		for l := 1; l < k; l++ {
			parent = exp.Combine(exp.NewScope(map[string]any{"g": fmt.Sprint("g", l), fmt.Sprint("layer", l): l}), parent)
		}
		if r.p(50) {
			parent = exp.WithDefaultScope(parent)
		}
		nChildren := 2 + r.n(4)
		children := make([]exp.Scope, nChildren)
		grand := make([]exp.Scope, nChildren)
		for ci := range children {
			children[ci] = exp.Combine(exp.NewScope(map[string]any{"who": fmt.Sprint("child", ci), fmt.Sprint("only", ci): ci}), parent)
		}
		for ci := range children {
			grand[ci] = exp.Combine(exp.NewScope(map[string]any{"deep": fmt.Sprint("deep", ci)}), children[ci])
		}
		for ci := range children {
			for _, sc := range []exp.Scope{children[ci], grand[ci]} {
				cs := J{"parent_layers": k, "children": nChildren, "child": ci}
				res.eval("persist|"+jstr(cs)+fmt.Sprint(sc == grand[ci]), true, cs)
				res.S3Checked++
				res.count("combine_persistence")
				who, err := sc.Get("who")
				_, errOther := sc.Get(fmt.Sprint("only", (ci+1)%nChildren))
				own, errOwn := sc.Get(fmt.Sprint("only", ci))
				g, errG := sc.Get("g")
				switch {
				case err != nil || who != fmt.Sprint("child", ci):
					res.violate(cs, fmt.Sprint("child", ci), fmt.Sprint(who, err), "a scope combined with a shared parent resolves a name in ANOTHER child's innermost scope (Combine changed its argument)")
				case errOther == nil:
					res.violate(cs, "absent", "found", "a name bound only in a sibling scope is visible")
				case errOwn != nil || own != ci:
					res.violate(cs, ci, fmt.Sprint(own, errOwn), "a scope combined with a shared parent lost its own binding")
				case errG != nil || g != fmt.Sprint("g", k-1):
					res.violate(cs, fmt.Sprint("g", k-1), fmt.Sprint(g, errG), "the shared parent chain does not resolve innermost-first any more")
				}
			}
		}
	}
	// ---- the same at template level: a global scope of k layers, and renders that are live at the same time (a data
	// function renders another template of the manager — or the same one — with other data, in the middle of an element).
	// After the inner render returns, the outer element still resolves names in ITS data; names absent from its data fall
	// through to the global layers, not to the data of the other render.
	for k := 1; k <= 8; k++ {
		var g exp.Scope = exp.NewScope(map[string]any{"site": "S0", "gonly": "G"})
		for l := 1; l < k; l++ {
			g = exp.Combine(exp.NewScope(map[string]any{"site": fmt.Sprint("S", l)}), g)
		}
		m := html.NewTplManager().SetGlobalScope(g)
		page := `<p :text="${who}|${sub()}|${who}|${site}|${gonly}">o</p><ul><li :range="_, x : xs"><em :with="w := ${x}" :text="${w}${sub()}${who}${w}${x}">o</em></li></ul><i :if="${extra == nil}" :text="${sub()}${extra}">o</i>`
		if err := m.Add("page", strings.NewReader(page)); err != nil {
			res.SelfTest = append(res.SelfTest, "C06 nested-render template does not load: "+err.Error())
			break
		}
		m.Add("inner", strings.NewReader(`<b :text="${who}/${extra}/${site}">o</b>`))
		for variant := 0; variant < 4; variant++ {
			tp, _ := m.GetTemplate("page")
			innerName := []string{"inner", "page"}[variant%2]
			viaGoroutine := variant >= 2
			renderInner := func() string {
				it, _ := m.GetTemplate(innerName)
				var sb strings.Builder
				it.Execute(&sb, map[string]any{"who": "INNER", "extra": "leak", "xs": []any{}, "sub": func() string { return "-" }})
				return "[" + fmt.Sprint(sb.Len() > 0) + "]"
			}
			sub := func() string {
				if viaGoroutine {
					ch := make(chan string)
					go func() { ch <- renderInner() }()
					return <-ch
				}
				return renderInner()
			}
			var sb strings.Builder
			var err error
			func() {
				defer func() {
					if x := recover(); x != nil {
						err = fmt.Errorf("panic: %v", x)
					}
				}()
				err = tp.Execute(&sb, map[string]any{"who": "OUTER", "xs": []any{"a", "b"}, "sub": sub, "extra": nil})
			}()
			site := fmt.Sprint("S", k-1)
			want := "<p>OUTER|[true]|OUTER|" + site + "|G</p><ul><li><em>a[true]OUTERaa</em></li><li><em>b[true]OUTERbb</em></li></ul><i>[true]&lt;nil&gt;</i>"
			cs := J{"global_layers": k, "inner": innerName, "via_goroutine": viaGoroutine, "page": page}
			res.eval("nested-global|"+jstr(cs), true, cs)
			res.S3Checked++
			res.count("nested_render_over_layered_global")
			if err != nil || sb.String() != want {
				res.violate(cs, want, J{"out": sb.String(), "err": fmt.Sprint(err)}, "with another render of the same manager live at the same time, a name is resolved in the other render's data / not in this render's data")
			}
		}
	}
	// ---- template level: nesting, shadowing, no leaks
	type tc struct{ tpl, want string }
	tcs := []tc{
		{`<div :with="x := ${'w1'}"><p :text="${x}">o</p><div :with="x := ${'w2'}"><p :text="${x}">o</p></div><p :text="${x}">o</p></div><p :text="${x}">o</p>`, `<div><p>w1</p><div><p>w2</p></div><p>w1</p></div><p>d</p>`},
		{`<a :with="len := ${5}" :text="${len}">o</a><b :text="${len('ab')}">o</b>`, `<a>5</a><b>2</b>`},
		{`<a :with="x := ${n}" :text="${x}">o</a><b :text="${x}">o</b>`, `<a>&lt;nil&gt;</a><b>d</b>`},
		{`<a :range="_, x : ns" :text="${x}">o</a><b :text="${x}">o</b>`, `<a>&lt;nil&gt;</a><a>1</a><b>d</b>`},
		{`<i :text="${g}">o</i><i :with="g := ${'local'}" :text="${g}">o</i><i :text="${g}">o</i>`, `<i>G</i><i>local</i><i>G</i>`},
		{`<u :range="i, x : ns"><u :range="i, y : ns" :text="${i}${x}${y}">o</u><s :text="${i}">o</s></u><s :text="${x}">o</s>`, `<u><u>1&lt;nil&gt;&lt;nil&gt;</u><u>2&lt;nil&gt;1</u><s>1</s></u><u><u>11&lt;nil&gt;</u><u>211</u><s>2</s></u><s>d</s>`},
		{`<p :define="f"><q :text="${x}">o</q></p><r :with="x := ${'call-site'}" :insert="f">o</r><r :insert="f">o</r>`, `<r><q>call-site</q></r><r><q>d</q></r>`},
		{`<a :with="x := ${'1'}"><b :with="y := ${x + '2'}"><c :with="x := ${y + '3'}"><d :with="y := ${x + '4'}" :text="${x}|${y}">o</d><e :text="${x}|${y}">o</e></c><f :text="${x}|${y}">o</f></b></a>`, `<a><b><c><d>123|1234</d><e>123|12</e></c><f>1|12</f></b></a>`},
	}
	// a void element (in any letter case) has no descendants: a binding made on it is never visible to what follows it
	for _, v := range []string{"input", "INPUT", "Input", "br", "BR", "img", "IMG", "hr", "Hr", "meta", "META", "wbr", "WBR", "area", "Col", "EMBED", "Link", "source", "TRACK", "base"} {
		tcs = append(tcs,
			tc{`<div><` + v + ` :with="x := ${'inner'}" :value="${x}"><p :text="${x}">o</p></div><p :text="${x}">o</p>`, `<div><` + v + ` value="inner"><p>d</p></div><p>d</p>`},
			tc{`<div><` + v + ` :range="_, x : ns" :title="${x}"><p :text="${x}">o</p></div>`, `<div><` + v + ` title="&lt;nil&gt;"><` + v + ` title="1"><p>d</p></div>`},
			tc{`<` + v + ` :with="g := ${'local'}" :alt="${g}"><i :text="${g}">o</i>`, `<` + v + ` alt="local"><i>G</i>`})
	}
	// several bindings in one `with`, written over several lines / with tabs between them: every one of them is bound
	for _, sep := range []string{";", "; ", ";\n", ";\n    ", ";\t", " ;\r\n\t", ";\n\n", " ; "} {
		tcs = append(tcs,
			tc{`<a :with="p := ${'1'}` + sep + `x := ${'2'}` + sep + `q := ${x}" :text="${p}|${x}|${q}">o</a><b :text="${x}">o</b>`, `<a>1|2|d</a><b>d</b>`}, // (values are evaluated in the scope outside the element)
			tc{`<div :with="x := ${'outer'}"><a :with="k := ${1}` + sep + `x := ${'inner'}"><i :text="${x}${k}">o</i></a><i :text="${x}">o</i></div>`, `<div><a><i>inner1</i></a><i>outer</i></div>`})
	}
	// a `with` whose value mentions the very name it binds (or a name the same element rebinds by `range`) is evaluated ONCE,
	// in the scope outside the element — also when the element carries a condition and / or a loop and is therefore visited
	// more than once by the renderer
	tcs = append(tcs,
		tc{`<a :with="x := ${x + '1'}" :if="${1 == 1}" :text="${x}">o</a><b :text="${x}">o</b>`, `<a>d1</a><b>d</b>`},
		tc{`<a :with="x := ${x + '1'}" :range="_, y : ns" :text="${x}">o</a>`, `<a>d1</a><a>d1</a>`},
		tc{`<a :with="x := ${x + '1'}" :if="${1 == 1}" :range="_, y : ns" :text="${x}">o</a>`, `<a>d1</a><a>d1</a>`},
		tc{`<a :with="k := ${x}" :range="_, x : ns" :text="${k}|${x}">o</a>`, `<a>d|&lt;nil&gt;</a><a>d|1</a>`},
		tc{`<i :if="${1 == 2}">n</i><a :with="x := ${x + '2'}; q := ${x}" :else :text="${x}|${q}">o</a>`, `<a>d2|d</a>`},
		tc{`<p :define="rec"><u :with="x := ${x + '+'}" :if="${len(x) < 4}" :insert="rec">o</u><s :else :text="${x}">o</s></p><div :insert="rec">o</div>`, `<div><u><u><s>d++</s></u></u></div>`}) // (the third u binds "d+++", fails its condition; its binding is not visible to the sibling s)
	nFixed := len(tcs)
	var recData []val
	// a binding made by `with` inside a fragment that re-enters ITSELF: after the inner instance has evaluated the same
	// attribute with another value, the rest of the outer instance still sees its own binding
	{
		var rt func(t *c03Tree) string
		rt = func(t *c03Tree) string {
			out := "<b>"
			for _, k := range t.kids {
				out += "<x>" + rt(k) + "</x>"
			}
			return out + "<i>" + t.name + "</i><u>" + fmt.Sprint(len(t.kids)) + "</u></b>"
		}
		rr := newRng(c.seed, "C06rec")
		for i, n := 0, c.n(12, 300); i < n; i++ {
			var roots []*c03Tree
			var rv []val
			want := ""
			for k, m := 0, 1+rr.n(2); k < m; k++ {
				t := genC03Tree(rr, 1+rr.n(3), string(rune('a'+k)))
				roots = append(roots, t)
				rv = append(rv, t.val())
				want += "<div>" + rt(t) + "</div>"
			}
			tpl := `<template :define="tw"><b :with="cur := ${n}; cnt := ${len(n.kids)}"><x :range="_, n : cur.kids" :insert="tw">x</x><i :text="${cur.name}">o</i><u :text="${cnt}">o</u></b></template><div :range="_, n : tree" :insert="tw">x</div>`
			tcs = append(tcs, tc{tpl, want})
			_ = roots
			recData = append(recData, vAnySlice(rv...))
		}
	}
	dataKinds := []string{"map", "struct", "ptr"}
	for ti, t := range tcs {
		for _, dk := range dataKinds {
			var data any
			tpl := t.tpl
			switch dk {
			case "map":
				data = vMap(kv{"x", vStr("d")}, kv{"n", vNil()}, kv{"ns", vAnySlice(vNil(), vInt(1))}).j
				if k := ti - nFixed; k >= 0 && k < len(recData) {
					data = vMap(kv{"x", vStr("d")}, kv{"tree", recData[k]}).j
				}
			default:
				continue // struct / pointer data are exercised through the scope-tree part (fields A, B, methods)
			}
			rc := &renderCase{Files: [][2]string{{"t", tpl}}, Tpl: "t", Data: data, Global: vMap(kv{"g", vStr("G")}, kv{"x", vStr("global-x")}).j}
			impl, _, err := compareRender(c, rc, true)
			if err != nil {
				return err
			}
			res.eval("tpl|"+tpl+dk, true, J{"tpl": tpl})
			res.S3Checked++
			if impl.St != "ok" || impl.text() != t.want {
				res.violate(rc.toJ(), t.want, J{"st": impl.St, "out": impl.text(), "err": trunc(impl.Err, 160)}, "binding visibility: innermost-first resolution / no leak to siblings, ancestors or later elements")
			}
			// a later render of the same manager must not see earlier bindings
			again := implRender(rc, -1)
			if again.text() != impl.text() {
				res.violate(rc.toJ(), impl.text(), again.text(), "a later render sees different bindings")
			}
		}
	}
	// ---- a binding made on an element is visible to EVERY effect of that element and to its descendants, whatever other
	// directives the element carries (subsets of size <= 2 of the other directive kinds, attributes in random order),
	// and never to the following sibling.  Oracle independent of the model: inside the element's output every probe
	// `[${x}]` shows the inner value, the sibling probe `(${x})` shows the outer one.
	{
		extras := []string{
			``, ` :remove="all"`, ` :remove="body"`, ` :remove="tag"`, ` :remove="all-but-first"`, ` :remove="none"`,
			` :if="${x == 'in'}"`, ` :title="[${x}]"`, ` :range="_, y : two"`, ` :text="[${x}]"`, ` :raw="[${x}]"`,
			` :insert="f"`, ` :replace="f"`, ` class="[c]"`, ` :range="_, x : ins"`,
		}
		binders := []string{` :with="x := ${'in'}"`, ` :with="z := ${1}; x := ${'in'}"`}
		r := newRng(c.seed, "C06matrix")
		frag := `<template :define="f"><q :text="[${x}]">o</q><q :title="[${x}]">p</q></template>`
		for bi, binder := range binders {
			for i, e1 := range extras {
				for j, e2 := range extras {
					if j < i || (i == j && i != 0) {
						continue
					}
					k1, k2 := strings.SplitN(strings.TrimSpace(e1), "=", 2)[0], strings.SplitN(strings.TrimSpace(e2), "=", 2)[0]
					if e1 != "" && k1 == k2 {
						continue // the same attribute twice is a scanner error
					}
					if (k1 == ":insert" && k2 == ":replace") || (k1 == ":text" && k2 == ":raw") {
						continue
					}
					if c.quick() && bi == 1 && (i+j)%3 != 0 {
						continue
					}
					for _, tag := range []string{"u", "t:block"} {
						as := []string{binder}
						if e1 != "" {
							as = append(as, e1)
						}
						if e2 != "" {
							as = append(as, e2)
						}
						r.shuffle(as)
						tpl := frag + `<` + tag + strings.Join(as, "") + `><li :text="[${x}]">o</li> <li :title="[${x}]">p</li></` + tag + `><i :text="(${x})">o</i>`
						data := vMap(kv{"x", vStr("d")}, kv{"two", vIntSlice(1, 2)}, kv{"ins", vAnySlice(vStr("in"), vStr("in"))}).j
						rc := &renderCase{Files: [][2]string{{"t", tpl}}, Tpl: "t", Data: data, Global: vMap(kv{"x", vStr("global-x")}).j}
						// the same under directive prefixes made of the letters directive names start with
						if pi := (i + j + bi) % 4; pi > 0 {
							ap := []string{"", "w:", "wire:", "ri-"}[pi]
							tpl = c06AttrRe.ReplaceAllString(tpl, " "+ap+"$1")
							rc.Files = [][2]string{{"t", tpl}}
							rc.Cfg = map[string]any{"attrPrefix": ap}
						}
						impl, _, err := compareRender(c, rc, true)
						if err != nil {
							return err
						}
						res.eval("mx|"+tpl, true, J{"tpl": tpl})
						res.S3Checked++
						res.count("binding_matrix_cases")
						out := impl.text()
						bad := ""
						switch {
						case impl.St != "ok":
							bad = "render failed"
						case strings.Contains(out, "[d]") || strings.Contains(out, "[global-x]"):
							bad = "an effect or descendant of the binding element resolved the name outside the element's own binding"
						case !strings.HasSuffix(out, "<i>(d)</i>"):
							bad = "the binding leaked to the following sibling (or the sibling was not rendered)"
						}
						if bad != "" {
							res.violate(rc.toJ(), "every [..] probe shows `in`, the sibling probe shows (d)", J{"st": impl.St, "out": out, "err": trunc(impl.Err, 160)}, "binding visibility with other directives on the same element: "+bad)
						}
					}
				}
			}
		}
	}
	// ---- built-in functions are the LAST resort everywhere: a user-supplied name that collides with a built-in (from the
	// data, the global scope, an outer with, an outer range variable) wins at the top level, inside with bodies,
	// inside range bodies (own attributes, descendants, nested ranges) and inside fragments inserted there.
	{
		frag := `<template :define="fb"><q :text="[${NAME}]">o</q></template>`
		contexts := []string{
			`<p :text="[${NAME}]">o</p>`,
			`<div :with="z := ${1}"><p :text="[${NAME}]" :title="[${NAME}]">o</p></div>`,
			`<ul><li :range="_, it : two" :text="[${NAME}]">o</li></ul>`,
			`<ul><li :range="_, it : two" :title="[${NAME}]"><b :text="[${NAME}]">o</b></li></ul>`,
			`<ul><li :range="_, it : two"><i :range="_, jt : two" :text="[${NAME}]">o</i></li></ul>`,
			`<ul><li :range="_, it : two" :insert="fb">o</li></ul>`,
			`<ul><li :range="_, it : two"><b :with="z := ${it}" :replace="fb">o</b></li></ul>`,
			`<p :if="${NAME == 'U'}" :text="[${NAME}]">o</p>`,
		}
		for _, name := range []string{"len", "string", "print", "int", "isNil", "cap", "true"} {
			for _, level := range []string{"data", "global", "with", "range"} {
				for ci, ctxt := range contexts {
					body := strings.ReplaceAll(frag+ctxt, "NAME", name)
					data := []kv{{"two", vIntSlice(1, 2)}, {"us", vAnySlice(vStr("U"))}}
					var global any
					tpl := body
					switch level {
					case "data":
						data = append(data, kv{name, vStr("U")})
					case "global":
						global = vMap(kv{name, vStr("U")}).j
					case "with":
						tpl = strings.ReplaceAll(frag, "NAME", name) + `<section :with="` + name + ` := ${'U'}">` + strings.ReplaceAll(ctxt, "NAME", name) + `</section>`
					case "range":
						tpl = strings.ReplaceAll(frag, "NAME", name) + `<section :range="_, ` + name + ` : us">` + strings.ReplaceAll(ctxt, "NAME", name) + `</section>`
					}
					rc := &renderCase{Files: [][2]string{{"t", tpl}}, Tpl: "t", Data: vMap(data...).j, Global: global}
					impl, _, err := compareRender(c, rc, true)
					if err != nil {
						return err
					}
					res.eval("bi|"+tpl+level, true, J{"tpl": tpl, "level": level})
					res.S3Checked++
					res.count("builtin_collision_cases")
					out := impl.text()
					probes := strings.Count(out, "[")
					if impl.St != "ok" || probes == 0 || strings.Count(out, "[U]") != probes {
						res.violate(rc.toJ(), "every probe prints [U] (context "+fmt.Sprint(ci)+", name supplied by "+level+")", J{"st": impl.St, "out": out, "err": trunc(impl.Err, 160)},
							"a user-supplied name that collides with a built-in function does not win over the built-in")
					}
				}
			}
		}
	}
	// nil data / struct data at the top level
	for _, t := range []struct {
		data val
		tpl  string
		want string
		err  bool
	}{
		{vNil(), `<a :text="${len('abc')}">o</a>`, `<a>3</a>`, false},
		{vNil(), `<a :text="${x}">o</a>`, ``, true},
		{vS(4, "bee", nil), `<a :text="${A}${B}${Z}">o</a><b :text="${Get()}">o</b>`, `<a>4bee9</a><b>4</b>`, false},
		{vPtrS(vS(4, "bee", nil)), `<a :text="${A}${Ptr()}">o</a>`, `<a>45</a>`, false},
		{vS(4, "bee", nil), `<a :text="${c}">o</a>`, ``, true},
	} {
		m, lerr, p := implLoad(&renderCase{Files: [][2]string{{"t", t.tpl}}, Tpl: "t"}, nil)
		if lerr != nil || p != nil {
			res.SelfTest = append(res.SelfTest, "C06 fixed template does not load: "+t.tpl)
			continue
		}
		out := implExec(m, "t", t.data.g, &callLog{}, -1, renderOut{Load: "ok"})
		res.eval("top|"+t.tpl+canonGo(t.data.g), true, J{"tpl": t.tpl})
		res.S3Checked++
		if (out.St != "ok") != t.err || (!t.err && out.text() != t.want) {
			res.violate(J{"tpl": t.tpl, "data": canonGo(t.data.g)}, J{"want": t.want, "err": t.err}, J{"st": out.St, "out": out.text()}, "name resolution in the data passed to Execute (map / struct / pointer / nil)")
		}
	}
	return nil
}
