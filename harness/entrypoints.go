package main

import (
	"bytes"
	"fmt"
	"strings"

	tpl "code.gopub.tech/tpl"
	"code.gopub.tech/tpl/html"
	"code.gopub.tech/tpl/types"
)

// The package-level convenience entry points (tpl.RenderToBytes, tpl.RenderToString) render like Execute does. They are
// exercised as a HISTORY: results of earlier calls are kept and compared again after later calls (a returned slice must
// not change afterwards), and calls that fail half-way are mixed in (what one call wrote must not reach another call).

var epFailing types.Template

func epFailingTpl() types.Template {
	if epFailing == nil {
		m := html.NewTplManager()
		m.Add("f", strings.NewReader(`<div class="profile"><h1>Profile</h1><p :text="${user.name.first}">x</p><i>never</i></div>`))
		epFailing, _ = m.GetTemplate("f")
	}
	return epFailing
}

type epKept struct {
	bytes []byte
	want  string
}

// entryPointHistory renders t with data through RenderToBytes and RenderToString, `rounds` times, interleaved with
// failing renders; want/wantErr is what Execute gives for (t, data). Returns "" or a description of the first deviation.
func entryPointHistory(t types.Template, data any, want string, wantErr bool, mkData func() any, rounds int, failFirst bool) string {
	var kept []epKept
	for i := 0; i < rounds; i++ {
		if failFirst || i%2 == 1 {
			b, err := tpl.RenderToBytes(epFailingTpl(), map[string]any{"user": 42})
			if err == nil {
				return "the failing probe template rendered without error: " + string(b)
			}
		}
		d := data
		if mkData != nil {
			d = mkData()
		}
		b, err := safeRTB(t, d)
		if wantErr {
			if err == nil {
				return fmt.Sprintf("RenderToBytes #%d returned no error where Execute fails; output %q", i+1, trunc(string(b), 200))
			}
		} else {
			if err != nil {
				return fmt.Sprintf("RenderToBytes #%d failed where Execute succeeds: %v", i+1, err)
			}
			if string(b) != want {
				return fmt.Sprintf("RenderToBytes #%d (after %d earlier calls, failing ones among them) returned %q, Execute gives %q", i+1, i, trunc(string(b), 300), trunc(want, 300))
			}
			kept = append(kept, epKept{b, want})
		}
		s, err := safeRTS(t, d)
		if !wantErr && (err != nil || s != want) {
			return fmt.Sprintf("RenderToString #%d returned %q (err %v), Execute gives %q", i+1, trunc(s, 300), err, trunc(want, 300))
		}
		if wantErr && err == nil {
			return fmt.Sprintf("RenderToString #%d returned no error where Execute fails", i+1)
		}
		for k, e := range kept {
			if !bytes.Equal(e.bytes, []byte(e.want)) {
				return fmt.Sprintf("the bytes returned by RenderToBytes call #%d changed after later calls: now %q, were %q", k+1, trunc(string(e.bytes), 300), trunc(e.want, 300))
			}
		}
	}
	return ""
}

func safeRTB(t types.Template, d any) (b []byte, err error) {
	defer func() {
		if x := recover(); x != nil {
			err = fmt.Errorf("panic: %v", x)
		}
	}()
	return tpl.RenderToBytes(t, d)
}

func safeRTS(t types.Template, d any) (s string, err error) {
	defer func() {
		if x := recover(); x != nil {
			err = fmt.Errorf("panic: %v", x)
		}
	}()
	return tpl.RenderToString(t, d)
}
