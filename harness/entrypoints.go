package main

import (
	"bytes"
	"context"
	"errors"
	"fmt"
	"net/http"
	"net/http/httptest"
	"strings"

	tpl "code.gopub.tech/tpl"
	"code.gopub.tech/tpl/html"
	"code.gopub.tech/tpl/types"
)

// The package-level convenience entry points (tpl.RenderToBytes, tpl.RenderToString) render like Execute does. They are
// exercised as a HISTORY: results of earlier calls are kept and compared again after later calls (a returned slice must
// not change afterwards), and calls that fail half-way are mixed in (what one call wrote must not reach another call).

var epFailing types.Template

func epFailingTpl() types.Template {
	if epFailing == nil {
		m := html.NewTplManager()
		m.Add("f", strings.NewReader(`<div class="profile"><h1>Profile</h1><p :text="${user.name.first}">x</p><i>never</i></div>`))
		epFailing, _ = m.GetTemplate("f")
	}
	return epFailing
}

type epKept struct {
	bytes []byte
	want  string
}

// entryPointHistory renders t with data through RenderToBytes and RenderToString, `rounds` times, interleaved with
// failing renders; want/wantErr is what Execute gives for (t, data). Returns "" or a description of the first deviation.
func entryPointHistory(t types.Template, data any, want string, wantErr bool, mkData func() any, rounds int, failFirst bool) string {
	var kept []epKept
	for i := 0; i < rounds; i++ {
		if failFirst || i%2 == 1 {
			b, err := tpl.RenderToBytes(epFailingTpl(), map[string]any{"user": 42})
			if err == nil {
				return "the failing probe template rendered without error: " + string(b)
			}
		}
		d := data
		if mkData != nil {
			d = mkData()
		}
		b, err := safeRTB(t, d)
		if wantErr {
			if err == nil {
				return fmt.Sprintf("RenderToBytes #%d returned no error where Execute fails; output %q", i+1, trunc(string(b), 200))
			}
		} else {
			if err != nil {
				return fmt.Sprintf("RenderToBytes #%d failed where Execute succeeds: %v", i+1, err)
			}
			if string(b) != want {
				return fmt.Sprintf("RenderToBytes #%d (after %d earlier calls, failing ones among them) returned %q, Execute gives %q", i+1, i, trunc(string(b), 300), trunc(want, 300))
			}
			kept = append(kept, epKept{b, want})
		}
		s, err := safeRTS(t, d)
		if !wantErr && (err != nil || s != want) {
			return fmt.Sprintf("RenderToString #%d returned %q (err %v), Execute gives %q", i+1, trunc(s, 300), err, trunc(want, 300))
		}
		if wantErr && err == nil {
			return fmt.Sprintf("RenderToString #%d returned no error where Execute fails", i+1)
		}
		for k, e := range kept {
			if !bytes.Equal(e.bytes, []byte(e.want)) {
				return fmt.Sprintf("the bytes returned by RenderToBytes call #%d changed after later calls: now %q, were %q", k+1, trunc(string(e.bytes), 300), trunc(e.want, 300))
			}
		}
	}
	return ""
}

func safeRTB(t types.Template, d any) (b []byte, err error) {
	defer func() {
		if x := recover(); x != nil {
			err = fmt.Errorf("panic: %v", x)
		}
	}()
	return tpl.RenderToBytes(t, d)
}

func safeRTS(t types.Template, d any) (s string, err error) {
	defer func() {
		if x := recover(); x != nil {
			err = fmt.Errorf("panic: %v", x)
		}
	}()
	return tpl.RenderToString(t, d)
}

// failingRW is an http.ResponseWriter whose Write fails after `okWrites` successful writes.
type failingRW struct {
	hdr      http.Header
	okWrites int
	n        int
	body     strings.Builder
}

func (w *failingRW) Header() http.Header { return w.hdr }
func (w *failingRW) WriteHeader(int)     {}
func (w *failingRW) Write(b []byte) (int, error) {
	if w.n >= w.okWrites {
		return 0, errors.New("broken pipe")
	}
	w.n++
	w.body.Write(b)
	return len(b), nil
}

// instanceHistory: ONE types.Render obtained from a reloadable renderer is rendered several times, to writers that fail
// at different points and to healthy ones, in every order of (fail, ok): each Render depends on the template, the data
// and ITS writer only. Returns "" or a description of the first deviation.
func instanceHistory(hot bool) string {
	src := `<h1 :text="${title}">t</h1><ul><li :range="_, x : xs" :text="${x}">o</li></ul><p>end</p>`
	want := "<h1>T</h1><ul><li>1</li><li>2</li></ul><p>end</p>"
	rr, err := tpl.NewHTMLRender(func(ctx context.Context) (types.TemplateManager, error) {
		m := html.NewTplManager()
		return m, m.Add("page", strings.NewReader(src))
	}, tpl.WithHotReload(hot))
	if err != nil {
		return "renderer does not build: " + err.Error()
	}
	data := map[string]any{"title": "T", "xs": []int{1, 2}}
	for _, plan := range [][]int{{0, -1, -1}, {-1, 0, -1}, {2, -1, 1, -1}, {1, 1, -1}, {-1, -1}, {0, 0, -1, -1}} {
		inst := rr.Instance(context.Background(), "page", data)
		for step, failAfter := range plan {
			if failAfter >= 0 {
				w := &failingRW{hdr: http.Header{}, okWrites: failAfter}
				if err := inst.Render(w); err == nil {
					return fmt.Sprintf("plan %v step %d: Render to a writer that fails after %d writes returned nil", plan, step+1, failAfter)
				}
				continue
			}
			w := httptest.NewRecorder()
			if err := inst.Render(w); err != nil || w.Body.String() != want {
				return fmt.Sprintf("plan %v step %d (hot reload %v): Render of the same instance to a healthy writer gave %q, error %v; want %q", plan, step+1, hot, trunc(w.Body.String(), 200), err, want)
			}
		}
	}
	return ""
}
