package main

import (
	"encoding/json"
	"errors"
	"fmt"
	"os"
	"sort"
	"strings"
	"sync/atomic"
	"time"

	"code.gopub.tech/tpl/exp"
	"code.gopub.tech/tpl/html"
)

// ---------- a render case: files + template name + data (+ user functions) + configuration ----------

type fnDecl struct {
	Kind string `json:"kind"` // val val1 err okerr panic two
	Ret  any    `json:"ret"`  // typed JSON of the result
}

type renderCase struct {
	Files  [][2]string       `json:"files"`
	Tpl    string            `json:"tpl"`
	Data   any               `json:"data"`   // typed JSON
	Global any               `json:"global"` // typed JSON or nil
	Fns    map[string]fnDecl `json:"fns"`
	Cfg    map[string]any    `json:"cfg"`
	Sig    []string          `json:"sig,omitempty"`
	Note   string            `json:"note,omitempty"`
}

func (rc *renderCase) toJ() J {
	return J{"files": rc.Files, "tpl": rc.Tpl, "data": rc.Data, "global": rc.Global, "fns": rc.Fns, "cfg": rc.Cfg, "sig": rc.Sig, "note": rc.Note}
}

func renderCaseFromJ(m J) *renderCase {
	rc := &renderCase{Tpl: sget(m, "tpl"), Data: m["data"], Global: m["global"], Note: sget(m, "note")}
	if fs, ok := m["files"].([]any); ok {
		for _, f := range fs {
			if p, ok := f.([]any); ok && len(p) == 2 {
				a, _ := p[0].(string)
				b, _ := p[1].(string)
				rc.Files = append(rc.Files, [2]string{a, b})
			}
		}
	}
	if fm, ok := m["fns"].(map[string]any); ok {
		rc.Fns = map[string]fnDecl{}
		for k, v := range fm {
			if d, ok := v.(map[string]any); ok {
				rc.Fns[k] = fnDecl{Kind: sget(d, "kind"), Ret: d["ret"]}
			}
		}
	}
	if cm, ok := m["cfg"].(map[string]any); ok {
		rc.Cfg = cm
	}
	if sg, ok := m["sig"].([]any); ok {
		for _, s := range sg {
			if x, ok := s.(string); ok {
				rc.Sig = append(rc.Sig, x)
			}
		}
	}
	return rc
}

// goData rebuilds the native data (and the FnSpec table for the model) from the typed JSON of the case.
func (rc *renderCase) goData(log *callLog) (data any, global any, specs map[string]fnSpec) {
	specs = map[string]fnSpec{}
	fnv := map[string]val{}
	for _, id := range sortedKeys(rc.Fns) {
		d := rc.Fns[id]
		v, sp := mkFn(id, d.Kind, valFromJSON(d.Ret), log)
		fnv[id] = v
		specs[id] = sp
	}
	data = valFromJSONFns(rc.Data, fnv).g
	if rc.Global != nil {
		global = valFromJSONFns(rc.Global, fnv).g
	}
	return
}

// valFromJSONFns is valFromJSON with {"fn":id} resolved through the function table.
func valFromJSONFns(j any, fnv map[string]val) val {
	m, ok := j.(map[string]any)
	if !ok || m == nil {
		return valFromJSON(j)
	}
	if id, ok := m["fn"].(string); ok {
		if v, ok := fnv[id]; ok {
			return v
		}
		return vNil()
	}
	if _, ok := m["m"].(string); ok {
		kvj, _ := m["kv"].([]any)
		var kvs []kv
		for _, e := range kvj {
			p, _ := e.([]any)
			if len(p) == 2 {
				k, _ := p[0].(string)
				kvs = append(kvs, kv{k, valFromJSONFns(p[1], fnv)})
			}
		}
		return vMap(kvs...)
	}
	if _, ok := m["st"].(string); ok {
		return valFromJSON(j)
	}
	if ty, ok := m["sl"].(string); ok && ty == "[]interface {}" {
		xs, _ := m["xs"].([]any)
		vs := make([]val, len(xs))
		for i, x := range xs {
			vs[i] = valFromJSONFns(x, fnv)
		}
		return vAnySlice(vs...)
	}
	return valFromJSON(j)
}

// ---------- implementation side ----------

type chunkWriter struct {
	chunks []string
	failAt int // index of the Write call that fails; <0 never
}

var errWriter = errors.New("WRITER-FAILED")

func (w *chunkWriter) Write(p []byte) (int, error) {
	if w.failAt >= 0 && len(w.chunks) == w.failAt {
		return 0, errWriter
	}
	w.chunks = append(w.chunks, string(p))
	return len(p), nil
}

type renderOut struct {
	Load      string   `json:"load"` // ok err panic
	Get       string   `json:"get"`  // found notfound
	St        string   `json:"st"`   // ok err panic
	Chunks    []string `json:"chunks"`
	Log       []string `json:"log"`
	Flags     []string `json:"flags"` // error flags: tplNotFound attrValueExpected sentinel nosuch writer
	Err       string   `json:"err,omitempty"`
	Templates []string `json:"templates,omitempty"`
}

func (o *renderOut) text() string { return strings.Join(o.Chunks, "") }

func cfgStrings(cfg map[string]any, key string) []string {
	xs, ok := cfg[key].([]any)
	if !ok {
		if ss, ok := cfg[key].([]string); ok {
			return ss
		}
		return nil
	}
	out := []string{} // an empty list is a configuration of its own (no raw-text / void elements), not "unset"
	for _, x := range xs {
		if s, ok := x.(string); ok {
			out = append(out, s)
		}
	}
	return out
}

// implLoad builds a manager from the case (files added in the given order).
func implLoad(rc *renderCase, global any) (m *mgr, loadErr error, panicked any) {
	defer func() {
		if x := recover(); x != nil {
			panicked = x
		}
	}()
	tm := html.NewTplManager()
	if rc.Cfg != nil {
		if v := cfgStrings(rc.Cfg, "textTags"); v != nil {
			tm.SetTextTags(v)
		}
		if v := cfgStrings(rc.Cfg, "voidTags"); v != nil {
			tm.SetVoidElements(v)
		}
		if s, ok := rc.Cfg["tagPrefix"].(string); ok {
			tm.SetTagPrefix(s)
		}
		if s, ok := rc.Cfg["attrPrefix"].(string); ok {
			tm.SetAttrPrefix(s)
		}
	}
	if global != nil {
		// the same bindings, installed through differently ASSEMBLED scopes (one map, or several layers combined in
		// either nesting): every shape resolves every name identically
		gs := exp.NewScope(global)
		if gm, ok := global.(map[string]any); ok {
			p1, p2 := map[string]any{}, map[string]any{}
			for i, k := range sortedKeys(gm) {
				if i%2 == 0 {
					p1[k] = gm[k]
				} else {
					p2[k] = gm[k]
				}
			}
			e := exp.EmptyScope
			switch (len(rc.Files[0][1]) + len(rc.Files)) % 6 {
			case 1:
				gs = exp.Combine(exp.NewScope(global), e())
			case 2:
				gs = exp.Combine(exp.Combine(exp.NewScope(p1), exp.NewScope(p2)), e())
			case 3: // three layers nested to the right
				gs = exp.Combine(exp.NewScope(p1), exp.Combine(exp.NewScope(p2), e()))
			case 4: // four
				gs = exp.Combine(e(), exp.Combine(exp.NewScope(p1), exp.Combine(exp.NewScope(p2), e())))
			case 5: // five
				gs = exp.Combine(e(), exp.Combine(e(), exp.Combine(exp.NewScope(p1), exp.Combine(exp.NewScope(p2), e()))))
			}
		}
		tm.SetGlobalScope(gs)
	}
	for _, f := range rc.Files {
		if err := tm.Add(f[0], strings.NewReader(f[1])); err != nil {
			return nil, err, nil
		}
	}
	names := []string{}
	for k := range tm.Templates() {
		names = append(names, k)
	}
	sort.Strings(names)
	return &mgr{tm: tm, names: names}, nil, nil
}

type mgr struct {
	tm interface {
		GetTemplate(name string) (tplT, error)
	}
	names []string
}

// Breadcrumb: a fatal error of the Go runtime (stack overflow, concurrent map write, out of memory) kills the harness
// without running any deferred function, so the input that did it is written to a file BEFORE it is executed; `check`
// reads the file when the harness dies and reports that input as the replay of the violation.
var crumbFile *os.File
var crumbAt atomic.Int64 // unix nanoseconds of the last crumb; 0 = nothing is being executed

// startWatchdog: an input on which the engine does not come back (a directive that re-executes its own element for ever)
// cannot be interrupted from inside the process; when one input has been running for `limit` the harness gives up with
// exit status 3 and `check` reports the input in the breadcrumb file as the failing one.
func startWatchdog(limit time.Duration) {
	go func() {
		for {
			time.Sleep(time.Second)
			if t := crumbAt.Load(); t != 0 && time.Since(time.Unix(0, t)) > limit {
				fmt.Printf("fatal error: harness watchdog: one input has been executing for more than %v\n", limit)
				os.Exit(3)
			}
		}
	}()
}

func crumb(entry string, input any) {
	crumbAt.Store(time.Now().UnixNano())
	if crumbFile == nil {
		return
	}
	b, err := json.Marshal(J{"entry": entry, "input": input})
	if err != nil {
		b = []byte(fmt.Sprintf(`{"entry":%q,"input":"(not encodable)"}`, entry))
	}
	crumbFile.Truncate(0)
	crumbFile.WriteAt(b, 0)
}

// implRender loads, looks up and executes once; failAt<0 = writer never fails.
func implRender(rc *renderCase, failAt int) (out renderOut) {
	crumb("load+execute", rc.toJ())
	defer crumbAt.Store(0)
	log := &callLog{}
	data, global, _ := rc.goData(log)
	m, lerr, p := implLoad(rc, global)
	if p != nil {
		return renderOut{Load: "panic", Err: fmt.Sprint(p)}
	}
	if lerr != nil {
		return renderOut{Load: "err", Err: lerr.Error()}
	}
	out.Load = "ok"
	out.Templates = m.names
	return implExec(m, rc.Tpl, data, log, failAt, out)
}

func implExec(m *mgr, name string, data any, log *callLog, failAt int, out renderOut) (res renderOut) {
	res = out
	w := &chunkWriter{failAt: failAt}
	defer func() {
		if x := recover(); x != nil {
			res.St = "panic"
			res.Err = fmt.Sprint(x)
			res.Chunks = w.chunks
			res.Log = append([]string{}, log.calls...)
		}
	}()
	t, err := m.tm.GetTemplate(name)
	if err != nil {
		res.Get = "notfound"
		if !errors.Is(err, html.ErrTplNotFound) {
			res.Get = "notfound-without-sentinel"
		}
		return res
	}
	res.Get = "found"
	before := len(log.calls)
	err = t.Execute(w, data)
	res.Chunks = w.chunks
	if res.Chunks == nil {
		res.Chunks = []string{}
	}
	res.Log = append([]string{}, log.calls[before:]...)
	if err != nil {
		res.St = "err"
		res.Err = err.Error()
		for _, f := range []struct {
			n string
			e error
		}{{"tplNotFound", html.ErrTplNotFound}, {"attrValueExpected", html.ErrAttrValueExpected}, {"sentinel", errSentinel},
			{"nosuch", exp.ErrNoSuchValue}, {"writer", errWriter}} {
			if errors.Is(err, f.e) {
				res.Flags = append(res.Flags, f.n)
			}
		}
	} else {
		res.St = "ok"
	}
	return res
}
