package main

import (
	"fmt"
	"html"
	"go/parser"
	"strings"
)

func init() { props["C10"] = propC10 }

// C10: expressions and ${} blocks are consumed whole or rejected at load.
func propC10(c *ctx) error {
	res := c.res
	res.Rule = "well-formed expressions e (generated ASTs) x non-continuing suffixes s (';', unterminated comment, newline+operand, operand, closing bracket, '}', unlexable bytes, after newline/comment) must be rejected; e with insignificant white space / comments must be accepted; every truncation of a well-formed directive value inside ${} must be rejected by the code scanner and at template load, in every directive kind; distinct = distinct text; non-trivial = all"
	suffixes := []string{";", ";2", "; 2", "\n2", " 2", ")", "]", "}", " #", "\n#", " $", "\n@", "\n\"", ";[}'//", "\n\"/*", " )", " ,", ",1", "\n+ 1", "\n\\", " `", " '", "\n;", ";;", " b1", "\n// c\n2", " /* c\nd */ 2", "\n/* c */ #", " /* never closed", "\n/* never\nclosed", " /*", " /* c", " /*c", "\n/* c", " /* b1 */ /* c",
		// an unterminated comment next to a `*/` that closes nothing (inside a string literal, after `/*/`, in a raw literal)
		" + '*/' /* todo", " /*/ was: sum */ /* cnt", " + `*/` /* x", " /* a */ + '*/*/' /* b", " == \"*/\" /* c", " /*/ */ /*/"}
	harmless := []string{"", " ", "\n", " // c", " /* c */", "\t\n", " /* a\nb */", "\n// c", "\r\n", " /* c */ // d"}
	askParse := func(src string) (string, error) {
		if c.d == nil {
			return "", nil
		}
		m, err := c.d.ask(J{"op": "parse", "src": src})
		if err != nil {
			return "", err
		}
		return sget(m, "r") + "|" + sget(m, "t"), nil
	}
	checkParse := func(src string, expectAccept bool, what string) error {
		ip := implParse(src)
		res.eval("p|"+src, true, J{"src": src, "expect_accept": expectAccept})
		res.count("parse_" + sget(ip, "r"))
		res.S3Checked++
		if (sget(ip, "r") == "accept") != expectAccept {
			res.violate(J{"src": src, "expect_accept": expectAccept}, map[bool]string{true: "accept", false: "reject"}[expectAccept], sget(ip, "r"), what)
		}
		mp, err := askParse(src)
		if err != nil {
			return err
		}
		if mp != "" && !strings.HasPrefix(mp, "unsupported") {
			res.S2Compared++
			if mp != sget(ip, "r")+"|"+sget(ip, "t") {
				res.disagree(J{"src": src}, ip, mp, "parse")
			}
		} else if mp != "" {
			res.S2Unsupported++
		}
		return nil
	}
	for _, cs := range c.corpusCases() {
		if src, ok := cs["src"].(string); ok {
			acc, _ := cs["expect_accept"].(bool)
			if err := checkParse(src, acc, "corpus case"); err != nil {
				return err
			}
		}
	}
	r := newRng(c.seed, "C10")
	n := c.n(700, 40000)
	for i := 0; i < n; i++ {
		env := genExprEnv(r)
		e := genEx(r, env, "iifsb"[r.n(5)], 1+r.n(4), 0)
		src := printEx(e, r, 0)
		if sget(implParse(src), "r") != "accept" {
			if hasBareNestedElse(e) || true {
				res.count("base_expression_not_accepted")
			}
			continue
		}
		s := r.pick(suffixes)
		full := src + s
		// self-test of the oracle: Go's own parser must not accept e+s either (conditional-free text only)
		if !strings.Contains(full, "?") && !strings.Contains(full, "'") {
			if _, err := parser.ParseExpr(full); err == nil {
				res.SelfTest = append(res.SelfTest, "oracle: go/parser accepts "+full)
			}
		}
		if err := checkParse(full, false, "trailing text after a complete expression accepted"); err != nil {
			return err
		}
		// the same junk INSIDE brackets, call arguments, an index and the arms of a conditional, and brackets that are
		// never closed: nothing may be repaired silently
		if i%3 == 0 || !c.quick() {
			wrapped := []string{"(" + full + ")", "b1 ? " + full + " : 1", "b1 ? 1 : (" + full + ")", "(" + src, "c3(" + src, "xs[" + src, "(" + src + "))"}
			if !strings.Contains(s, ",") {
				wrapped = append(wrapped, "c3("+full+")", "c3(1, "+full+")", "xs["+full+"]") // (Go itself reads `xs[a ,]` as an instantiation)
			}
			w := wrapped[r.n(len(wrapped))]
			if !strings.Contains(w, "?") && !strings.Contains(w, "'") {
				if _, err := parser.ParseExpr(w); err == nil {
					res.SelfTest = append(res.SelfTest, "oracle: go/parser accepts "+w)
				}
			}
			if err := checkParse(w, false, "text that does not continue the expression accepted inside brackets / an unclosed bracket accepted"); err != nil {
				return err
			}
			res.count("interior_junk")
		}
		// the same rejected text as a COMPLETE ${ } block of a directive value: rejected at load — on the first load and on
		// every later one (a fresh manager each time: nothing learnt from an earlier, failed compilation may be reused)
		if !strings.ContainsAny(full, "{}'\"<>&") && (i%4 == 0 || !c.quick()) {
			k := []string{"text", "raw", "if", "title", "with", "range", "insert", "elif", "else", "else", "remove", "define"}[r.n(12)]
			val := "${" + full + "}"
			if k == "with" {
				val = "w := " + val
			}
			tsrc := "<p :" + k + "='" + val + "'>x</p>"
			if k == "elif" || k == "else" {
				tsrc = "<p :if='${true}'>y</p>" + tsrc // (an else written WITH a value is a directive value like any other)
			}
			for round := 1; round <= 3; round++ {
				rc := &renderCase{Files: [][2]string{{"t", tsrc}}, Tpl: "t"}
				out := implRender(rc, -1)
				res.S3Checked++
				if out.Load == "ok" {
					res.violate(J{"files": rc.Files, "load_number": round}, "load error", J{"load": out.Load, "st": out.St, "out": out.text()},
						"directive value whose ${ } block holds a complete expression followed by trailing text loads (load number "+fmt.Sprint(round)+")")
					break
				}
			}
			res.eval("t|"+tsrc, true, J{"tpl": tsrc})
			res.count("complete_block_with_trailing_text")
		}
		h := r.pick(harmless)
		if err := checkParse(r.pick([]string{"", " ", "\n", "/* c */ "})+src+h, true, "well-formed expression with insignificant white space / comments rejected"); err != nil {
			return err
		}
	}
	// ---- directive values written WITHOUT quotes (also with quote characters inside): rejected at load, or — should
	// an engine accept them — interpreted in full: never cut at an inner quote, never with an unterminated block swallowed
	{
		pieces := []string{"${a}", "b", "\"", "'", "tail", "${b", "v", "${a}${a}", "=", "${'q'}"}
		un := c.n(150, 4000)
		for i := 0; i < un; i++ {
			var val, want strings.Builder
			broken := false
			for k := 1 + r.n(4); k > 0; k-- {
				pc := r.pick(pieces)
				val.WriteString(pc)
				switch pc {
				case "${a}":
					want.WriteString("1")
				case "${a}${a}":
					want.WriteString("11")
				case "${'q'}":
					want.WriteString("q")
				case "${b":
					broken = true
				default:
					want.WriteString(pc)
				}
			}
			v := val.String()
			if strings.HasPrefix(v, "\"") || strings.HasPrefix(v, "'") {
				continue // would be a quoted value
			}
			k := []string{"text", "title", "raw"}[r.n(3)]
			tsrc := "<p :" + k + "=" + v + ">x</p>"
			rc := &renderCase{Files: [][2]string{{"t", tsrc}}, Tpl: "t", Data: vMap(kv{"a", vInt(1)}).j}
			out, _, err := compareRender(c, rc, true)
			if err != nil {
				return err
			}
			res.eval("unq|"+tsrc, true, J{"tpl": tsrc})
			res.S3Checked++
			res.count("unquoted_directive_values")
			if out.Load != "ok" {
				continue // rejected at load: fine
			}
			full := html.EscapeString(want.String())
			if k == "raw" {
				full = want.String()
			}
			if broken || out.St != "ok" || !strings.Contains(out.text(), full) {
				res.violate(rc.toJ(), "load error, or the whole value interpreted: "+full, J{"st": out.St, "out": out.text()},
					"an unquoted directive value is accepted but not interpreted in full (cut at a quote / unterminated block swallowed)")
			}
		}
	}
	// ---- quoted directive values that contain the OTHER quote character (in their literal text and inside blocks): the
	// value ends at its own delimiter only, so it is interpreted in full, and an unterminated block after an inner quote
	// is still an error at load
	{
		qn := c.n(200, 5000)
		for i := 0; i < qn; i++ {
			d, o := "'", "\""
			if r.p(40) {
				d, o = "\"", "'"
			}
			pieces := []string{"${a}", "say " + o + "hi" + o + " to ", o, "tail", "${" + o + "q" + o + "}", "v=", "${a}${a}", o + o, " "}
			var val, want strings.Builder
			for k := 1 + r.n(4); k > 0; k-- {
				pc := r.pick(pieces)
				val.WriteString(pc)
				switch pc {
				case "${a}":
					want.WriteString("1")
				case "${a}${a}":
					want.WriteString("11")
				case "${" + o + "q" + o + "}":
					want.WriteString("q")
				default:
					want.WriteString(pc)
				}
			}
			hasOther := strings.Contains(val.String(), o)
			broken := r.p(35)
			if broken {
				val.WriteString(r.pick([]string{"${b", "${b + ", "${" + o + "never closed", "${b /* c", "${"}))
				if r.p(50) {
					val.WriteString(" x" + o + "y")
				}
			}
			k := []string{"text", "title", "raw", "data-x"}[r.n(4)]
			tsrc := "<p :" + k + "=" + d + val.String() + d + " id=k>x</p>"
			rc := &renderCase{Files: [][2]string{{"t", tsrc}}, Tpl: "t", Data: vMap(kv{"a", vInt(1)}).j}
			out, _, err := compareRender(c, rc, true)
			if err != nil {
				return err
			}
			res.eval("oq|"+tsrc, hasOther, J{"tpl": tsrc})
			res.S3Checked++
			res.count("other_quote_values")
			if broken {
				if out.Load == "ok" {
					res.violate(rc.toJ(), "load error", J{"load": out.Load, "st": out.St, "out": out.text()}, "a quoted directive value with an unterminated block (after text containing the other quote character) loads")
				}
				continue
			}
			full := html.EscapeString(want.String())
			if k == "raw" {
				full = want.String()
			}
			if out.Load != "ok" || out.St != "ok" || !strings.Contains(out.text(), full) {
				res.violate(rc.toJ(), "the whole value interpreted: "+full, J{"load": out.Load, "st": out.St, "out": out.text()},
					"a quoted directive value containing the other quote character is not interpreted in full")
			}
		}
	}
	// ---- every non-continuing suffix after expressions that contain characters of more than one byte (offsets into the
	// text are counted in characters by the parser and in bytes by Go strings)
	for _, e := range []string{`"你好"`, "名字", `"é" + a`, "'日本語'", "`é`", `a + "✓✓✓✓✓✓"`, "é", `f("𝄞")`, `"ü" ? 1 : 2`} {
		for _, sfx := range suffixes {
			if err := checkParse(e+sfx, false, "trailing text after a complete expression with multi-byte characters accepted"); err != nil {
				return err
			}
		}
		if err := checkParse(e, true, "well-formed expression with multi-byte characters rejected"); err != nil {
			return err
		}
	}
	// ---- the name of a definition is a directive value like any other: its blocks are evaluated (at load, against the
	// empty scope) and are part of the name; a block that cannot be evaluated then is a load error, never dropped
	for _, dc := range []struct{ val, name string }{{"card-${'big'}", "card-big"}, {"${'a'}${'b'}", "ab"}, {"x${1 + 1}", "x2"}, {"${'only'}", "only"}, {"pre-${'m'}-post", "pre-m-post"},
		{"card-${kind}", ""}, {"${nope}", ""}, {"a${1 / 0}", ""}, {"plain", "plain"}} {
		src := `<p :define="` + dc.val + `">X</p>[<q :insert="` + map[bool]string{true: dc.name, false: "never"}[dc.name != ""] + `">o</q>]`
		rc := &renderCase{Files: [][2]string{{"t", src}}, Tpl: "t", Data: vMap(kv{"kind", vStr("big")}).j}
		out, _, err := compareRender(c, rc, true)
		if err != nil {
			return err
		}
		res.eval("defname|"+src, true, J{"tpl": src})
		res.S3Checked++
		res.count("definition_names_with_blocks")
		if dc.name == "" {
			if out.Load == "ok" {
				res.violate(rc.toJ(), "load error", J{"load": out.Load, "st": out.St, "out": out.text()}, "a definition whose name holds a block that cannot be evaluated at load is accepted")
			}
		} else if out.Load != "ok" || out.St != "ok" || out.text() != "[<q>X</q>]" {
			res.violate(rc.toJ(), "[<q>X</q>]", J{"load": out.Load, "st": out.St, "out": out.text(), "err": trunc(out.Err, 160)}, "the blocks of a definition's name are not part of the registered name")
		}
	}
	// ---- the object of a range directive is an expression written WITHOUT a block: it too is consumed whole or rejected
	// (every non-continuing suffix after a complete object, in every header form)
	for _, sfx := range suffixes {
		for _, hdr := range []string{"i, x : ", "x : ", "", "_, x : "} {
			for _, obj := range []string{"xs", "m.k", "xs[0:1]", "(xs)", "f()"} {
				if hdr == "" && strings.Contains(obj, ":") {
					continue
				}
				if strings.ContainsAny(sfx, "\"") {
					continue
				}
				src := `<ul><li :range="` + hdr + obj + sfx + `" :text="${a}">o</li></ul>`
				rc := &renderCase{Files: [][2]string{{"t", src}}, Tpl: "t", Data: vMap(kv{"a", vInt(1)}, kv{"xs", vIntSlice(1, 2)}, kv{"m", vMap(kv{"k", vIntSlice(3)})}, kv{"f", val{nil, J{"fn": "f"}}}).j,
					Fns: map[string]fnDecl{"f": {Kind: "val", Ret: vIntSlice(4).j}}}
				out, _, err := compareRender(c, rc, true)
				if err != nil {
					return err
				}
				res.eval("rangeobj|"+src, true, J{"tpl": src})
				res.S3Checked++
				res.count("range_object_suffixes")
				if out.Load == "ok" && out.St == "ok" {
					res.violate(rc.toJ(), "load error or render error", J{"st": out.St, "out": out.text()}, "a range object followed by text that does not continue the expression is accepted (the rest silently ignored)")
				}
			}
		}
	}
	// ---- a block without an expression (${}, ${ }, ${<tab><newline>}, a comment only) is not a value: rejected at load in
	// every directive kind and position, never rendered as empty text
	for _, blank := range []string{"", " ", "\t\n", "  \n  ", "/* c */", " // c\n", "\u00a0"} {
		for _, shape := range []string{"${%s}", "a${%s}b", "${a}${%s}", "${%s}${a}", "/u/${%s}", "x ${%s}", "${%s} ", "${a} and ${%s} and ${a}"} {
			for _, k := range []string{"text", "raw", "if", "title", "with", "range", "insert", "elif", "href", "define", "replace"} {
				v := fmt.Sprintf(shape, blank)
				if k == "with" {
					v = "w := " + v
				}
				if k == "range" {
					v = "x : " + v
				}
				src := `<p :` + k + `="` + v + `">x</p>`
				if k == "elif" {
					src = `<p :if="${a == 2}">y</p>` + src
				}
				rc := &renderCase{Files: [][2]string{{"t", src}}, Tpl: "t", Data: vMap(kv{"a", vInt(1)}).j}
				out, _, err := compareRender(c, rc, true)
				if err != nil {
					return err
				}
				res.eval("blank|"+src, true, J{"tpl": src})
				res.S3Checked++
				res.count("blank_blocks")
				if out.Load == "ok" {
					res.violate(rc.toJ(), "load error", J{"load": out.Load, "st": out.St, "out": out.text()}, "a directive value with a block that holds no expression loads")
				}
			}
		}
	}
	// ---- directive values: truncations
	kinds := []string{"text", "raw", "if", "title", "with", "range", "insert", "elif"}
	askCode := func(src string) (J, error) {
		if c.d == nil {
			return nil, nil
		}
		return c.d.ask(J{"op": "codescan", "src": src, "line": 1, "col": 1})
	}
	vn := c.n(250, 6000)
	for i := 0; i < vn; i++ {
		// value = parts: literal | ${expr}
		type part struct {
			s    string
			code bool
		}
		var parts []part
		for k := 1 + r.n(3); k > 0; k-- {
			if r.p(45) {
				parts = append(parts, part{r.pick([]string{"abc", "x $ y", " ", "a}b", "$", "é", "{", "price: $5"}), false})
			} else {
				env := genExprEnv(r)
				e := genEx(r, env, "iisb"[r.n(4)], 1+r.n(2), 0)
				es := printEx(e, nil, 0)
				if r.p(30) {
					es = r.pick([]string{`"}"`, "'{'", "`${`", `m["k}"]`, "f({a: 1})", `'it\'s'`, `"a\"}"`}) // strings / braces inside the block
				}
				if strings.Contains(es, "\"") {
					continue
				}
				parts = append(parts, part{"${" + es + "}", true})
			}
		}
		var inner strings.Builder
		type span struct{ lo, hi int }
		var codeSpans []span
		for _, p := range parts {
			if p.code {
				codeSpans = append(codeSpans, span{inner.Len(), inner.Len() + len(p.s)})
			}
			inner.WriteString(p.s)
		}
		full := inner.String()
		for cut := 0; cut <= len(full); cut++ {
			if cut < len(full) && !isRuneStart(full[cut]) {
				continue
			}
			prefix := full[:cut]
			insideBlock := false
			for _, sp := range codeSpans {
				if cut > sp.lo+1 && cut < sp.hi { // after "${" and before the closing "}"
					insideBlock = true
				}
			}
			if !insideBlock && cut != len(full) {
				continue // ends inside a literal part or at a boundary: a well-formed (shorter) value — not judged here
			}
			val := `"` + prefix + `"`
			ic := implCodeScan(val, 1, 1)
			res.eval("v|"+val, true, J{"value": val, "truncated_inside_block": insideBlock})
			res.S3Checked++
			rejected, _ := ic["err"].(bool)
			_, panicked := ic["panic"]
			if insideBlock && !rejected && !panicked {
				res.violate(J{"value": val}, "rejected", "accepted", "directive value truncated inside ${ } accepted by the code scanner")
			}
			if mc, err := askCode(val); err != nil {
				return err
			} else if mc != nil {
				res.S2Compared++
				mrej, _ := mc["err"].(bool)
				// the model's code scanner does not compile the blocks; compare token streams only when both accept
				if !rejected && !mrej {
					a, b := normJSON(ic["toks"]), normJSON(mc["toks"])
					if jstr(a) != jstr(b) {
						res.disagree(J{"value": val}, ic, mc, "codescan tokens")
					}
				} else if mrej && !rejected {
					res.disagree(J{"value": val}, ic, mc, "codescan outcome")
				}
			}
			// unbalanced quote: the same value without its closing quote must always be rejected
			ic2 := implCodeScan(`"`+prefix, 1, 1)
			res.S3Checked++
			if rej2, _ := ic2["err"].(bool); !rej2 {
				res.violate(J{"value": `"` + prefix}, "rejected", "accepted", "directive value without closing quote accepted")
			}
			// at template level, in a directive attribute of every kind (thorough: all kinds; quick: one)
			ks := kinds
			if c.quick() {
				ks = []string{kinds[r.n(len(kinds))]}
			}
			if insideBlock {
				for _, k := range ks {
					src := `<p :` + k + `='` + prefix + `'>x</p>`
					if strings.Contains(prefix, "'") {
						src = `<p :` + k + `="` + prefix + `">x</p>`
					}
					rc := &renderCase{Files: [][2]string{{"t", src}}, Tpl: "t"}
					out := implRender(rc, -1)
					res.S3Checked++
					if out.Load == "ok" {
						res.violate(J{"files": rc.Files}, "load error", J{"load": out.Load, "st": out.St, "out": out.text()}, "template with a directive value truncated inside ${ } loads")
					}
				}
			}
		}
	}
	// ---- unbalanced quotes at the HTML level: a directive attribute whose closing quote is missing, with and without a later
	// occurrence of that quote character in the file, complete and incomplete values: never loaded and rendered as text
	{
		values := []string{"${name}", "Hi, ${name}", "${ok}", "${name", "plain", "${'a'}", "a ${name} b ${name}"}
		tails := []string{">Hello</p>", ">Hello</p>\n<p>more</p>\n", ">", "", " class=k>x</p>", ">x</p><!-- c --><b>y</b>"}
		qcnt := 0
		for _, k := range kinds {
			for _, v := range values {
				for _, q := range []string{`"`, `'`} {
					if strings.Contains(v, q) {
						continue
					}
					for _, tail := range tails {
						for _, lead := range []string{"", "<div a=" + map[string]string{`"`: `'1'`, `'`: `"1"`}[q] + ">t</div>\n"} {
							src := lead + `<p :` + k + `=` + q + v + tail
							rc := &renderCase{Files: [][2]string{{"t", src}}, Tpl: "t"}
							out := implRender(rc, -1)
							res.S3Checked++
							qcnt++
							if out.Load == "ok" {
								res.violate(J{"files": rc.Files}, "load error", J{"load": out.Load, "st": out.St, "out": out.text()}, "template with a directive attribute missing its closing quote loads")
							}
						}
					}
				}
			}
		}
		res.Distribution["html_level_unbalanced_quotes"] = qcnt
	}
	return nil
}

func isRuneStart(b byte) bool { return b&0xC0 != 0x80 }
