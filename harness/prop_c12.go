package main

import (
	"errors"
	"fmt"
	"strings"

	"code.gopub.tech/tpl/exp"
	"code.gopub.tech/tpl/html"
)

func init() { props["C12"] = propC12 }

// replaceLeaf returns a copy of e in which the idx-th leaf (pre-order) is replaced by repl; leaves counts them.
func countLeaves(e *Ex) int {
	if len(e.Kids) == 0 {
		return 1
	}
	n := 0
	for _, k := range e.Kids {
		n += countLeaves(k)
	}
	return n
}

func replaceLeaf(e *Ex, idx *int, repl *Ex) *Ex {
	if len(e.Kids) == 0 {
		if *idx == 0 {
			*idx = -1
			return repl
		}
		*idx--
		return e
	}
	c := *e
	c.Kids = make([]*Ex, len(e.Kids))
	for i, k := range e.Kids {
		c.Kids[i] = replaceLeaf(k, idx, repl)
	}
	return &c
}

// C12: failures propagate; unselected operands are not evaluated.
func propC12(c *ctx) error {
	res := c.res
	res.Rule = "generated expressions with counting functions as leaves and a failing leaf (unknown name, function returning an error, panicking function, operand of the wrong kind) injected at every leaf position; templates with a failing expression at every directive slot and a writer failing at every write index; distinct = distinct (text, data); non-trivial = the expression has a short-circuit operator or the failing leaf is reached"
	r := newRng(c.seed, "C12")
	// ---------- expression level
	mkEnv := func() (*exprEnv, map[string]fnDecl, val) {
		env := genExprEnv(r)
		fns := map[string]fnDecl{
			"ct": {Kind: "val", Ret: vBool(true).j}, "cf": {Kind: "val", Ret: vBool(false).j},
			"ci": {Kind: "val", Ret: vInt(3).j}, "cs": {Kind: "val", Ret: vStr("s").j},
			"ferr": {Kind: "err", Ret: vInt(0).j}, "fpanic": {Kind: "panic", Ret: vInt(0).j},
		}
		env.ref["ct()"] = rv{k: 'b', b: true}
		env.ref["cf()"] = rv{k: 'b', b: false}
		env.ref["ci()"] = rv{k: 'i', i: 3}
		env.ref["cs()"] = rv{k: 's', s: "s"}
		env.ref["st.Get()"] = rv{k: 'i', i: 4}
		env.ref["st.Ok()"] = rv{k: 'i', i: 4}
		// add the struct to the frame
		dm := env.frame.j.(J)
		kvj := append([]any{}, dm["kv"].([]any)...)
		kvj = append(kvj, []any{"st", vS(4, "four", nil).j})
		env.frame = val{nil, J{"m": "map[string]interface {}", "kv": kvj}}
		return env, fns, env.frame
	}
	callLeaf := func(ty byte) *Ex {
		switch ty {
		case 'b':
			return &Ex{Op: "call", Text: r.pick([]string{"ct", "cf"}), Ty: 'b'}
		case 'i', 'f':
			return &Ex{Op: "call", Text: r.pick([]string{"ci", "ci", "st.Get", "st.Ok"}), Ty: 'i'}
		}
		return &Ex{Op: "call", Text: "cs", Ty: 's'}
	}
	var withCalls func(e *Ex) *Ex
	withCalls = func(e *Ex) *Ex {
		if len(e.Kids) == 0 {
			if r.p(60) && e.Ty != 0 {
				return callLeaf(e.Ty)
			}
			return e
		}
		cp := *e
		cp.Kids = make([]*Ex, len(e.Kids))
		for i, k := range e.Kids {
			cp.Kids[i] = withCalls(k)
		}
		return &cp
	}
	n := c.n(500, 25000)
	for i := 0; i < n; i++ {
		env, fns, frame := mkEnv()
		base := withCalls(genEx(r, env, "bbis"[r.n(4)], 2+r.n(3), 0))
		leaves := countLeaves(base)
		positions := []int{-1}
		for p := 0; p < leaves; p++ {
			positions = append(positions, p)
		}
		if c.quick() && len(positions) > 5 {
			positions = append(positions[:1], positions[1+r.n(len(positions)-4):][:3]...)
		}
		for _, pos := range positions {
			e := base
			failKind := "none"
			if pos >= 0 {
				failKind = r.pick([]string{"ferr", "nope", "fpanic", "wrongkind", "method", "nil", "safe"})
				var repl *Ex
				switch failKind {
				case "ferr", "fpanic":
					repl = &Ex{Op: "call", Text: failKind}
				case "method":
					repl = &Ex{Op: "call", Text: "st.Fail"}
				case "nope":
					repl = &Ex{Op: "var", Text: "nope"}
				case "safe":
					// the `?.` spelling of member access is the same access: a missing field, a missing key and a nil
					// receiver are failures, not nil values
					repl = &Ex{Op: "var", Text: r.pick([]string{"st?.Nope", "vnil?.x", "st.M?.absent", "st?.P?.A"})}
				case "nil":
					// evaluates SUCCESSFULLY to untyped nil: a failure only where the operator needs a bool / number
					repl = &Ex{Op: "var", Text: r.pick([]string{"nil", "vnil"}), Ty: 'n'}
				default:
					repl = &Ex{Op: "un", Text: "-", Kids: []*Ex{{Op: "lit-str", Text: `"w"`, Ty: 's'}}}
				}
				idx := pos
				e = replaceLeaf(base, &idx, repl)
			}
			if hasBareNestedElse(e) {
				continue // F19 (C09) would blur the picture
			}
			src := printEx(e, nil, 0)
			refLog, refCause = nil, ""
			want := refEval(e, env.ref)
			wantLog, wantCause := append([]string{}, refLog...), refCause
			if want.k == 'U' {
				continue
			}
			// native data with the functions
			rc := &renderCase{Data: frame.j, Fns: fns}
			// add function references to the frame
			dm := frame.j.(J)
			kvj := append([]any{}, dm["kv"].([]any)...)
			for _, id := range sortedKeys(fns) {
				kvj = append(kvj, []any{id, J{"fn": id}})
			}
			rc.Data = J{"m": "map[string]interface {}", "kv": kvj}
			log := &callLog{}
			data, _, specs := rc.goData(log)
			out := implEval(src, []any{data}, log)
			hasSC := strings.Contains(src, "&&") || strings.Contains(src, "||") || strings.Contains(src, "?")
			res.eval(src+jstr(rc.Data), hasSC || wantCause != "", J{"src": src, "fail": failKind, "expect": want.canon(), "log": wantLog})
			res.count("fail_" + failKind)
			res.count("expect_" + string(want.k))
			cs := J{"src": src, "env": rc.Data, "fns": fns, "fail": failKind}
			res.S3Checked++
			gotLog := strings.Join(out.Calls, ",")
			switch {
			case want.k == 'E':
				if out.R == "ok" || out.R == "reject" {
					res.violate(cs, "error", out.R+":"+out.V, "an operand that is evaluated fails but the expression yields a value")
				} else if wantCause == "sentinel" && !out.Sentinel {
					res.violate(cs, "error wrapping the function's error", trunc(out.Err, 160), "the returned error does not wrap the cause (error returned by the user function)")
				} else if wantCause == "nosuch" && !out.NoSuch {
					res.violate(cs, "error wrapping ErrNoSuchValue", trunc(out.Err, 160), "the returned error does not wrap the cause (unknown name)")
				} else if gotLog != strings.Join(wantLog, ",") {
					res.violate(cs, wantLog, out.Calls, "functions were called that the failing evaluation should not have reached (or the other way round)")
				}
			default:
				if out.R != "ok" || normNum(out.V) != want.canon() {
					res.violate(cs, want.canon(), out.R+":"+out.V+" "+trunc(out.Err, 100), "value differs although the failing operand is not selected")
				} else if gotLog != strings.Join(wantLog, ",") {
					res.violate(cs, wantLog, out.Calls, "an operand that && / || / ?: does not select was evaluated (call log differs)")
				}
			}
			if c.d != nil {
				m, err := c.d.ask(J{"op": "eval", "src": src, "data": rc.Data, "fns": specs})
				if err != nil {
					return err
				}
				if sget(m, "r") == "unsupported" {
					res.S2Unsupported++
				} else {
					res.S2Compared++
					ml := strings.Join(strList(m["calls"]), ",")
					ms, _ := m["sentinel"].(bool)
					mn, _ := m["nosuch"].(bool)
					if sget(m, "r") != out.R || (out.R == "ok" && sget(m, "v") != out.V) || (out.R != "panic" && ml != gotLog) ||
						(out.R == "err" && (ms != out.Sentinel || mn != out.NoSuch)) {
						res.disagree(cs, J{"r": out.R, "v": out.V, "calls": out.Calls, "sentinel": out.Sentinel, "nosuch": out.NoSuch, "err": trunc(out.Err, 120)}, m, "eval")
					}
				}
			}
		}
	}
	// ---------- a failed operand must not be used as a value anywhere: nil flowing through "+" / "==" into a key
	{
		fns := map[string]fnDecl{"fx": {Kind: "val", Ret: vInt(1).j}, "ferr": {Kind: "err", Ret: vInt(0).j}}
		frame := vMap(kv{"m", vMap(kv{"f<nil>", val{nil, J{"fn": "fx"}}}, kv{"<nil>", val{nil, J{"fn": "fx"}}}, kv{"false", val{nil, J{"fn": "fx"}}})},
			kv{"fx", val{nil, J{"fn": "fx"}}}, kv{"ferr", val{nil, J{"fn": "ferr"}}})
		for _, src := range []string{`m["f" + nosuch]()`, `m["" + nosuch]()`, `m["f" + ferr()]()`, `m["" + (nosuch == 1)]()`, `(nosuch ? fx : fx)()`, `m[nosuch.x + ""]()`, `m["f" + nosuch].y`, `fx(nosuch)`} {
			rc := &renderCase{Data: frame.j, Fns: fns}
			log := &callLog{}
			data, _, specs := rc.goData(log)
			out := implEval(src, []any{data}, log)
			res.eval("after-failure|"+src, true, J{"src": src})
			res.S3Checked++
			wantLog := ""
			if strings.Contains(src, "ferr()") {
				wantLog = "ferr"
			}
			if out.R == "ok" || strings.Join(out.Calls, ",") != wantLog {
				res.violate(J{"src": src, "env": rc.Data, "fns": fns}, J{"r": "err", "calls": wantLog}, J{"r": out.R, "calls": out.Calls}, "a function is called (or a value produced) after an operand has already failed")
			}
			if c.d != nil {
				m, err := c.d.ask(J{"op": "eval", "src": src, "data": rc.Data, "fns": specs})
				if err != nil {
					return err
				}
				if sget(m, "r") != "unsupported" {
					res.S2Compared++
					if sget(m, "r") != out.R || strings.Join(strList(m["calls"]), ",") != strings.Join(out.Calls, ",") {
						res.disagree(J{"src": src}, J{"r": out.R, "calls": out.Calls}, m, "eval after failure")
					}
				}
			}
		}
	}
	// ---------- slice / index operands of the wrong kind are failures, whatever the other bounds are
	{
		data := vMap(kv{"xs", vStrSlice("a", "b", "c")}, kv{"f", vF64(1)}, kv{"s", vStr("1")}, kv{"b", vBool(true)}, kv{"n", vNil()}, kv{"i", vInt(1)})
		for _, src := range []string{"xs[f:]", "xs[f:2]", "xs[s:]", "xs['1':]", "xs[b:]", "xs[n:2]", "xs[:f]", "xs[1:f]", "xs[:s]", "xs[0:1:f]", "xs[0:f:2]", "xs[f:2:3]",
			"xs[1.0:]", "xs[f]", "xs[1.5]", "xs[b]", "xs[1:nope]", "xs[nope:]"} {
			out := implEval(src, []any{data.g}, nil)
			res.eval("bound|"+src, true, J{"src": src})
			res.S3Checked++
			res.count("wrong_kind_bounds")
			if out.R == "ok" {
				res.violate(J{"src": src, "env": data.j}, "error", out.V, "a slice / index operand of the wrong kind (or a failing one) yields a value instead of failing the expression")
			}
			if c.d != nil {
				m, err := c.d.ask(J{"op": "eval", "src": src, "data": data.j})
				if err != nil {
					return err
				}
				if sget(m, "r") != "unsupported" {
					res.S2Compared++
					mr := sget(m, "r")
					if (mr == "ok") != (out.R == "ok") {
						res.disagree(J{"src": src}, J{"r": out.R, "v": out.V}, m, "eval")
					}
				}
			}
		}
		// controls: integer bounds of any kind are fine
		for _, src := range []string{"xs[i:]", "xs[i:2]", "xs[:i]", "xs[0:i:2]", "xs[i]"} {
			if out := implEval(src, []any{data.g}, nil); out.R != "ok" {
				res.SelfTest = append(res.SelfTest, "C12 control slice failed: "+src+" "+out.Err)
			}
		}
	}
	// ---------- == and != on two operands of the same UNCOMPARABLE kind (slices, maps, functions) are failures, as in Go:
	// never true / false
	{
		fnv := func() int { return 1 }
		nat := map[string]any{"xs": []int{1, 2}, "ys": []int{1, 2}, "as": []any{1}, "m": map[string]int{"k": 1}, "m2": map[string]int{"k": 1}, "am": map[string]any{"k": 1},
			"f": fnv, "g": fnv, "t": true, "st": struct{ L []int }{[]int{1}}}
		for _, src := range []string{"xs == ys", "xs == xs", "xs != ys", "as == as", "m == m", "m != m2", "am == am", "f == f", "f != g", "xs == ys ? 1 : 2", "t && xs == xs", "!(m == m2)", "st == st", "st != st"} {
			out := implEval(src, []any{nat}, nil)
			res.eval("uncomparable|"+src, true, J{"src": src})
			res.S3Checked++
			res.count("uncomparable_operands")
			if out.R == "ok" {
				res.violate(J{"src": src, "data": "slices / maps / funcs of the same type (prop_c12.go)"}, "error", out.V, "comparing two values of an uncomparable kind yields a value instead of failing the expression")
			}
		}
		// an argument of the wrong kind for the callee's parameter fails the call — the function is not entered
		{
			called := 0
			tf := func(f string, a ...any) string { called++; return "tf:" + f }
			sf := func(s string) string { called++; return s }
			inf := func(n int64, s string) string { called++; return s }
			nat2 := map[string]any{"n": 42, "tf": tf, "sf": sf, "inf": inf, "fl": 1.5, "xs": []int{1}, "nilv": nil}
			for _, src := range []string{"printf(n)", "printf(1, 2)", "printf(nilv, 1)", "printf(xs)", "tf(n, 'a')", "tf(fl)", "tf(true, 1)", "sf(n)", "sf(xs)", "inf('a', 'b')", "inf(1, 2)", "inf(fl, 'x')", "printf(n) + 'x'", "t2 ? tf(n) : 'x'"} {
				nat2["t2"] = true
				called = 0
				out := implEval(src, []any{nat2}, nil)
				res.eval("wrongarg|"+src, true, J{"src": src})
				res.S3Checked++
				res.count("wrong_kind_arguments")
				if out.R == "ok" || called != 0 {
					res.violate(J{"src": src, "data": "n=42, tf func(string, ...any) string, sf func(string) string, inf func(int64, string) string"}, "error, function not entered", J{"r": out.R, "v": out.V, "calls": called},
						"an argument of the wrong kind for the callee's parameter does not fail the expression")
				}
			}
			// controls
			for _, src := range []string{"printf('%v', n)", "tf('a', n)", "sf('s')", "inf(1, 'b')"} {
				if out := implEval(src, []any{nat2}, nil); out.R != "ok" {
					res.SelfTest = append(res.SelfTest, "C12 control call failed: "+src+" "+out.Err)
				}
			}
		}
		// the model's value universe has slices and maps: the same through the correspondence
		data := vMap(kv{"xs", vIntSlice(1, 2)}, kv{"ys", vIntSlice(1, 2)}, kv{"m", vMap(kv{"k", vInt(1)})}, kv{"m2", vMap(kv{"k", vInt(1)})})
		for _, src := range []string{"xs == ys", "xs == xs", "xs != ys", "m == m", "m != m2"} {
			if c.d != nil {
				m, err := c.d.ask(J{"op": "eval", "src": src, "data": data.j})
				if err != nil {
					return err
				}
				out := implEval(src, []any{data.g}, nil)
				if sget(m, "r") != "unsupported" {
					res.S2Compared++
					if (sget(m, "r") == "ok") != (out.R == "ok") {
						res.disagree(J{"src": src}, J{"r": out.R, "v": out.V}, m, "eval")
					}
				}
			}
		}
	}
	// ---------- a scope whose lookup FAILS (for a reason other than "absent") fails the expression and the render, and the
	// error wraps the cause — wherever that scope sits (innermost, a middle layer, the manager's global scope) and whatever
	// the scopes further out define under the same name (user maps, the built-in functions)
	{
		cause := errors.New("settings backend is down")
		type layerSpec struct {
			kind string // "fail" | "map"
			keys []string
		}
		mkScope := func(ls layerSpec, asked *[]string) exp.Scope {
			if ls.kind == "map" {
				m := map[string]any{}
				for _, k := range ls.keys {
					m[k] = "outer-" + k
					if k == "print" || k == "len" {
						m[k] = func(xs ...any) string { return "outer-fn" }
					}
				}
				return exp.NewScope(m)
			}
			owned := map[string]bool{}
			for _, k := range ls.keys {
				owned[k] = true
			}
			return scopeFunc(func(name string) (any, error) {
				if !owned[name] {
					return nil, fmt.Errorf("settings: %q: %w", name, exp.ErrNoSuchValue)
				}
				*asked = append(*asked, name)
				return nil, fmt.Errorf("settings: load %q: %w", name, cause)
			})
		}
		names := []string{"motto", "print", "len", "g", "true", "isNil"}
		srcOf := func(name string) []string {
			switch name {
			case "print", "len", "isNil":
				return []string{name + "(1)", name, "1 + " + name + "('a')", "(" + name + ")(2)"}
			}
			return []string{name, name + " + 'x'", "'' + " + name, name + " == 1", "(" + name + ")", name + " ? 1 : 2", "!" + name, name + ".f", name + "[0]"}
		}
		for _, name := range names {
			for pos := 0; pos < 3; pos++ { // position of the failing layer among three (0 = innermost)
				for outerHas := 0; outerHas < 2; outerHas++ {
					layers := []layerSpec{{"map", []string{"i0"}}, {"map", []string{"i1"}}, {"map", []string{"i2"}}}
					layers[pos] = layerSpec{"fail", []string{name}}
					if outerHas == 1 && pos < 2 {
						layers[pos+1] = layerSpec{"map", []string{name}}
					}
					for _, src := range srcOf(name) {
						var asked []string
						sc := exp.WithDefaultScope(exp.Combine(mkScope(layers[0], &asked), exp.Combine(mkScope(layers[1], &asked), mkScope(layers[2], &asked))))
						var v any
						var err error
						func() {
							defer func() {
								if x := recover(); x != nil {
									err = fmt.Errorf("escaped panic: %v", x)
								}
							}()
							tree, perr := exp.ParseCode(src)
							if perr != nil {
								err = perr
								return
							}
							v, err = exp.Evaluate(exp.NewPos(1, 1), tree, sc)
						}()
						cs := J{"src": src, "failing_layer": pos, "outer_defines_name": outerHas == 1, "name": name}
						res.eval("failscope|"+jstr(cs), true, cs)
						res.S3Checked++
						res.count("failing_scope_lookups")
						if err == nil {
							res.violate(cs, "error wrapping the cause", fmt.Sprintf("value %v", v), "the lookup of a name failed in the scope that owns it, but the expression produced a value (taken from a scope further out)")
						} else if !errors.Is(err, cause) {
							res.violate(cs, "error wrapping the cause", trunc(err.Error(), 200), "the error of a failed lookup does not wrap the cause")
						} else if len(asked) == 0 {
							res.violate(cs, "the owning scope is asked", "never asked", "the scope that owns the name was not consulted")
						}
					}
				}
			}
			// template level: the failing scope is the manager's global scope, under the data passed to Execute
			for _, slot := range []string{`<p :text="${%s}">x</p>`, `<p :title="a${%s}">x</p>`, `<p :if="${%s}">x</p>`, `<p :with="q := ${%s}">x</p>`, `<p :range="x : %s">x</p>`, `<p :insert="${%s}">x</p>`} {
				var asked []string
				g := mkScope(layerSpec{"fail", []string{name}}, &asked)
				m := html.NewTplManager().SetGlobalScope(g)
				src := "<h1>a</h1>" + fmt.Sprintf(slot, srcOf(name)[0]) + "<i>tail</i>"
				cs := J{"tpl": src, "global": "failing scope owning " + name}
				if err := m.Add("t", strings.NewReader(src)); err != nil {
					continue
				}
				t, _ := m.GetTemplate("t")
				var sb strings.Builder
				var err error
				func() {
					defer func() {
						if x := recover(); x != nil {
							err = fmt.Errorf("escaped panic: %v", x)
						}
					}()
					err = t.Execute(&sb, map[string]any{"other": 1})
				}()
				res.eval("failscope-tpl|"+src, true, cs)
				res.S3Checked++
				switch {
				case err == nil:
					res.violate(cs, "Execute error wrapping the cause", "nil, output "+sb.String(), "a failed lookup in the global scope does not fail the render")
				case !errors.Is(err, cause):
					res.violate(cs, "Execute error wrapping the cause", trunc(err.Error(), 200), "the Execute error does not wrap the cause of the failed lookup")
				case strings.Contains(sb.String(), "tail") || !strings.HasPrefix(sb.String(), "<h1>a</h1>"):
					res.violate(cs, "prefix up to the failing element", sb.String(), "output after a failed lookup")
				}
			}
		}
	}
	// ---------- template level: a slot that fails vs the same slot succeeding; writer failing at every index
	tn := c.n(250, 8000)
	slots := []string{"text", "raw", "title", "if", "with", "range", "insert", "elif"}
	for i := 0; i < tn; i++ {
		rcOK, st := genRenderCase(r, false)
		addStats(res, st)
		ok := implRender(rcOK, -1)
		if ok.Load != "ok" || ok.Get != "found" {
			continue
		}
		// (a) writer failing at every index
		limit := len(ok.Chunks) + 1
		if ok.St != "ok" {
			limit = len(ok.Chunks)
		}
		idxs := []int{}
		for k := 0; k < limit; k++ {
			idxs = append(idxs, k)
		}
		if c.quick() && len(idxs) > 4 {
			idxs = []int{0, r.n(len(idxs)), len(idxs) - 1}
		}
		for _, k := range idxs {
			if k >= len(ok.Chunks) {
				continue
			}
			f := implRender(rcOK, k)
			res.eval(caseKey(rcOK)+fmt.Sprint("|w", k), true, J{"files": rcOK.Files, "writer_fails_at": k})
			res.S3Checked++
			cs := rcOK.toJ()
			cs["writer_fails_at"] = k
			isPrefix := len(f.Chunks) == k && strings.Join(f.Chunks, "\x00") == strings.Join(ok.Chunks[:k], "\x00")
			if f.St != "err" || !contains(f.Flags, "writer") {
				res.violate(cs, "error wrapping the writer's error", J{"st": f.St, "flags": f.Flags, "err": trunc(f.Err, 160)}, "a failing writer does not fail the render with its error")
			} else if !isPrefix {
				res.violate(cs, ok.Chunks[:k], f.Chunks, "bytes written before the writer failed are not a prefix of the failure-free output / something was written after it")
			}
		}
		// (b) a failing expression in a directive slot
		slot := r.pick(slots)
		wrapper := r.n(7)
		mk := func(expr string) *renderCase {
			rc := *rcOK
			val := expr
			switch slot {
			case "with":
				val = "zz := " + expr
			case "range":
				val = "q : " + strings.TrimSuffix(strings.TrimPrefix(expr, "${"), "}")
			}
			ap := ":"
			if rcOK.Cfg != nil {
				if s, ok := rcOK.Cfg["attrPrefix"].(string); ok {
					ap = s
				}
			}
			el := `<em ` + ap + slot + `="` + val + `">slot</em>`
			if slot == "elif" {
				el = `<u ` + ap + `if="${f}">no</u>` + el
			}
			// the element sits at the top level or inside an enclosing construct that renders it (first kept child of
			// remove=all-but-first, body of remove=tag, block, range body, selected branch, with body)
			tp := "t:"
			if rcOK.Cfg != nil {
				if s, ok := rcOK.Cfg["tagPrefix"].(string); ok {
					tp = s
				}
			}
			switch wrapper {
			case 1:
				if slot != "elif" {
					el = `<div ` + ap + `remove="all-but-first">` + el + `<i>second</i></div>`
				}
			case 2:
				el = `<div ` + ap + `remove="tag">` + el + `</div>`
			case 3:
				el = `<` + tp + `block>` + el + `</` + tp + `block>`
			case 4:
				el = `<div ` + ap + `range="_, q9 : strs">` + el + `</div>`
			case 5:
				el = `<div ` + ap + `if="${t}">` + el + `</div><b ` + ap + `else>e</b>`
			case 6:
				el = `<div ` + ap + `with="q8 := ${1}">` + el + `</div>`
			}
			files := append([][2]string{}, rcOK.Files...)
			for j := range files {
				if files[j][0] == "main.html" {
					files[j][1] = "<section>lead</section>" + el + files[j][1]
				}
			}
			rc.Files = files
			return &rc
		}
		good := map[string]string{"text": "${c3()}", "raw": "${c3()}", "title": "${c3()}", "if": "${c1()}", "with": "${c3()}", "range": "${strs}", "insert": "${fr}", "elif": "${c1()}"}[slot]
		badExpr := r.pick([]string{"${ferr()}", "${nope}", "${fpanic()}"})
		rg, rb := mk(good), mk(badExpr)
		og, ob := implRender(rg, -1), implRender(rb, -1)
		if og.Load != "ok" || ob.Load != "ok" {
			continue
		}
		res.eval(caseKey(rb), true, J{"files": rb.Files, "slot": slot})
		res.S3Checked++
		cs := rb.toJ()
		cs["slot"] = slot
		cs["wrapper"] = wrapper
		res.count(fmt.Sprintf("slot_wrapper_%d", wrapper))
		if ob.St != "err" {
			res.violate(cs, "error", J{"st": ob.St, "out": trunc(ob.text(), 200)}, "a failing expression in a directive does not fail the render")
		} else if badExpr == "${ferr()}" && !contains(ob.Flags, "sentinel") {
			res.violate(cs, "error wrapping the function's error", trunc(ob.Err, 200), "Execute's error does not wrap the cause")
		} else if badExpr == "${nope}" && !contains(ob.Flags, "nosuch") {
			res.violate(cs, "error wrapping ErrNoSuchValue", trunc(ob.Err, 200), "Execute's error does not wrap the cause")
		} else if !strings.HasPrefix(og.text(), ob.text()) {
			res.violate(cs, J{"without_failure": trunc(og.text(), 300)}, J{"with_failure": trunc(ob.text(), 300)}, "output written before the failure is not a prefix of the output of the same render without the failure")
		}
		if c.d != nil {
			if _, _, err := compareRender(c, rb, false); err != nil {
				return err
			}
		}
	}
	return nil
}

func contains(xs []string, x string) bool {
	for _, y := range xs {
		if y == x {
			return true
		}
	}
	return false
}

// scopeFunc adapts a function to exp.Scope
type scopeFunc func(name string) (any, error)

func (f scopeFunc) Get(name string) (any, error) { return f(name) }
