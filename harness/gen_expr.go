package main

import (
	"fmt"
	"go/constant"
	"go/token"
	"math"
	"strconv"
	"strings"
)

// ---------- expression ASTs, generated type-directed, printed with minimal or random parentheses ----------

type Ex struct {
	Op   string // lit-int lit-float lit-str lit-bool(var true/false) var un bin cond paren
	Text string // literal text / variable name / operator
	Kids []*Ex
	Ty   byte // 'i' int 'f' float 's' string 'b' bool (the type the generator aimed for)
}

// Go's precedence table (https://go.dev/ref/spec#Operator_precedence), written down independently of the code.
func goPrec(op string) int {
	switch op {
	case "*", "/", "%", "<<", ">>", "&", "&^":
		return 5
	case "+", "-", "|", "^":
		return 4
	case "==", "!=", "<", "<=", ">", ">=":
		return 3
	case "&&":
		return 2
	case "||":
		return 1
	}
	return 0
}

func exPrec(e *Ex) int {
	switch e.Op {
	case "bin":
		return goPrec(e.Text)
	case "cond":
		return 0
	case "un":
		return 6
	}
	return 7
}

// printEx prints with exactly the parentheses Go's grammar needs (minimal=true) or with extra random ones.
// Binary operators and ?: are always surrounded by blanks ("?." "<-" "--" "&^" are tokens of their own).
func printEx(e *Ex, r *rng, extra int) string {
	wrap := func(k *Ex, need bool) string {
		s := printEx(k, r, extra)
		if need || (extra > 0 && r != nil && r.p(extra)) {
			return "(" + s + ")"
		}
		return s
	}
	switch e.Op {
	case "un":
		k := e.Kids[0]
		return e.Text + wrap(k, exPrec(k) < 6 || (k.Op == "un" && (k.Text == e.Text || e.Text+k.Text == "<-")) || (k.Op == "lit-float" && strings.HasPrefix(k.Text, ".") && false))
	case "bin":
		p := goPrec(e.Text)
		l, rr := e.Kids[0], e.Kids[1]
		return wrap(l, exPrec(l) < p) + " " + e.Text + " " + wrap(rr, exPrec(rr) <= p)
	case "cond":
		c, a, b := e.Kids[0], e.Kids[1], e.Kids[2]
		// right associative: only the condition operand needs parentheses when it is itself a conditional
		return wrap(c, c.Op == "cond") + " ? " + wrap(a, false) + " : " + wrap(b, false)
	case "paren":
		return "(" + printEx(e.Kids[0], r, extra) + ")"
	case "call":
		return e.Text + "()"
	}
	return e.Text
}

// hasBareNestedElse reports the shape of known finding F19: a conditional whose else operand is printed as an
// unparenthesised conditional.
func hasBareNestedElse(e *Ex) bool {
	if e.Op == "cond" && e.Kids[2].Op == "cond" {
		return true
	}
	for _, k := range e.Kids {
		if hasBareNestedElse(k) {
			return true
		}
	}
	return false
}

// ---------- reference semantics: Go's own operators on int64 / float64 / string / bool ----------

type rv struct {
	k byte // 'i' 'f' 's' 'b' 'E' error 'U' unspecified by the property (not judged)
	i int64
	f float64
	s string
	b bool
	o any // the Go value as carried by a variable (fmt prints a float32 differently from its float64 image)
}

func (v rv) canon() string {
	switch v.k {
	case 'i':
		return fmt.Sprintf("int64:%d", v.i)
	case 'f':
		if math.IsNaN(v.f) {
			return "float64:NaN"
		}
		return fmt.Sprintf("float64:%d", math.Float64bits(v.f))
	case 's':
		return "string:" + hexOf(v.s)
	case 'b':
		return fmt.Sprintf("bool:%v", v.b)
	case 'n':
		return "nil"
	case 'E':
		return "error"
	}
	return "unspecified"
}

func (v rv) sprint() string {
	if v.o != nil {
		return fmt.Sprintf("%v", v.o)
	}
	switch v.k {
	case 'i':
		return fmt.Sprintf("%v", v.i)
	case 'f':
		return fmt.Sprintf("%v", v.f)
	case 's':
		return v.s
	case 'b':
		return fmt.Sprintf("%v", v.b)
	case 'n':
		return "<nil>"
	}
	return "?"
}

// call log and first failure cause of the reference evaluation in progress (the harness is single-threaded)
var refLog []string
var refCause string

var rErr = rv{k: 'E'}
var rUnspec = rv{k: 'U'}

// refEval evaluates the AST; env maps variable names to already-normalised values (ints → int64, floats → float64).
func refEval(e *Ex, env map[string]rv) rv {
	switch e.Op {
	case "lit-int":
		c := constant.MakeFromLiteral(e.Text, token.INT, 0)
		if i, ok := constant.Int64Val(c); ok {
			return rv{k: 'i', i: i}
		}
		return rUnspec
	case "lit-float":
		c := constant.MakeFromLiteral(e.Text, token.FLOAT, 0)
		f, _ := constant.Float64Val(c)
		return rv{k: 'f', f: f}
	case "lit-str":
		s, err := strconv.Unquote(e.Text)
		if err != nil {
			return rUnspec
		}
		return rv{k: 's', s: s}
	case "var":
		if v, ok := env[e.Text]; ok {
			return v
		}
		if refCause == "" {
			refCause = "nosuch"
		}
		return rErr
	case "call": // user function without arguments: logged; ferr fails with the sentinel, fpanic panics
		if !strings.Contains(e.Text, ".") {
			refLog = append(refLog, e.Text) // methods of the harness types do not log
		}
		switch e.Text {
		case "ferr", "st.Fail":
			if refCause == "" {
				refCause = "sentinel"
			}
			return rErr
		case "fpanic":
			if refCause == "" {
				refCause = "panic"
			}
			return rErr
		}
		if v, ok := env[e.Text+"()"]; ok {
			return v
		}
		return rUnspec
	case "paren":
		return refEval(e.Kids[0], env)
	case "un":
		v := refEval(e.Kids[0], env)
		if v.k == 'E' || v.k == 'U' {
			return v
		}
		switch e.Text {
		case "+":
			if v.k == 'i' || v.k == 'f' {
				v.o = nil // the result of an operation is an int64 / float64, whatever kind carried the operand
				return v
			}
		case "-":
			if v.k == 'i' {
				return rv{k: 'i', i: -v.i}
			}
			if v.k == 'f' {
				return rv{k: 'f', f: -v.f}
			}
		case "!":
			if v.k == 'b' {
				return rv{k: 'b', b: !v.b}
			}
		case "^":
			if v.k == 'i' {
				return rv{k: 'i', i: ^v.i}
			}
		}
		return rErr
	case "cond":
		c := refEval(e.Kids[0], env)
		if c.k == 'E' || c.k == 'U' {
			return c
		}
		if c.k != 'b' {
			return rErr
		}
		if c.b {
			return refEval(e.Kids[1], env)
		}
		return refEval(e.Kids[2], env)
	case "bin":
		op := e.Text
		l := refEval(e.Kids[0], env)
		if l.k == 'E' || l.k == 'U' {
			return l
		}
		if op == "&&" || op == "||" {
			if l.k != 'b' {
				// a left operand that is not a bool selects nothing the property speaks about: the engine evaluates the
				// right operand and then rejects the kinds (the model does the same); either way the result is an error,
				// and a failure of the right operand comes first
				if rr := refEval(e.Kids[1], env); rr.k == 'E' || rr.k == 'U' {
					return rr
				}
				return rErr
			}
			if (op == "&&" && !l.b) || (op == "||" && l.b) {
				return l
			}
			r := refEval(e.Kids[1], env)
			if r.k == 'E' || r.k == 'U' {
				return r
			}
			if r.k != 'b' {
				return rErr
			}
			return r
		}
		r := refEval(e.Kids[1], env)
		if r.k == 'E' || r.k == 'U' {
			return r
		}
		return refBin(op, l, r)
	}
	return rUnspec
}

func refBin(op string, l, r rv) rv {
	num := func(v rv) bool { return v.k == 'i' || v.k == 'f' }
	switch op {
	case "+":
		if l.k == 's' || r.k == 's' {
			return rv{k: 's', s: l.sprint() + r.sprint()}
		}
		fallthrough
	case "-", "*", "/":
		if !num(l) || !num(r) {
			return rErr
		}
		if l.k == 'i' && r.k == 'i' {
			switch op {
			case "+":
				return rv{k: 'i', i: l.i + r.i}
			case "-":
				return rv{k: 'i', i: l.i - r.i}
			case "*":
				return rv{k: 'i', i: l.i * r.i}
			default:
				if r.i == 0 {
					return rErr
				}
				return rv{k: 'i', i: l.i / r.i}
			}
		}
		a, b := l.f, r.f
		if l.k == 'i' {
			a = float64(l.i)
		}
		if r.k == 'i' {
			b = float64(r.i)
		}
		switch op {
		case "+":
			return rv{k: 'f', f: a + b}
		case "-":
			return rv{k: 'f', f: a - b}
		case "*":
			return rv{k: 'f', f: a * b}
		default:
			return rv{k: 'f', f: a / b}
		}
	case "%", "&", "|", "^", "&^", "<<", ">>":
		if l.k != 'i' || r.k != 'i' {
			return rErr
		}
		switch op {
		case "%":
			if r.i == 0 {
				return rErr
			}
			return rv{k: 'i', i: l.i % r.i}
		case "&":
			return rv{k: 'i', i: l.i & r.i}
		case "|":
			return rv{k: 'i', i: l.i | r.i}
		case "^":
			return rv{k: 'i', i: l.i ^ r.i}
		case "&^":
			return rv{k: 'i', i: l.i &^ r.i}
		case "<<":
			if r.i < 0 {
				return rErr
			}
			return rv{k: 'i', i: l.i << uint64(r.i)}
		default:
			if r.i < 0 {
				return rErr
			}
			return rv{k: 'i', i: l.i >> uint64(r.i)}
		}
	case "==", "!=", "<", "<=", ">", ">=":
		var c int // -1 0 1, 2 = unordered (NaN)
		switch {
		case l.k == 'i' && r.k == 'i':
			c = cmp3(l.i < r.i, l.i == r.i)
		case num(l) && num(r):
			a, b := l.f, r.f
			if l.k == 'i' {
				a = float64(l.i)
			}
			if r.k == 'i' {
				b = float64(r.i)
			}
			if a != a || b != b {
				c = 2
			} else {
				c = cmp3(a < b, a == b)
			}
		case l.k == 's' && r.k == 's':
			c = cmp3(l.s < r.s, l.s == r.s)
		case l.k == 'n' && r.k == 'n' && (op == "==" || op == "!="):
			c = 0
		case l.k == 'b' && r.k == 'b' && (op == "==" || op == "!="):
			c = cmp3(false, l.b == r.b)
			if l.b != r.b {
				c = 1
			}
		default:
			if op == "==" || op == "!=" {
				return rUnspec // == between different kinds: Go rejects it statically; a dynamic evaluator may say false
			}
			return rErr
		}
		var b bool
		switch op {
		case "==":
			b = c == 0
		case "!=":
			b = c != 0
		case "<":
			b = c == -1
		case "<=":
			b = c == -1 || c == 0
		case ">":
			b = c == 1
		default:
			b = c == 1 || c == 0
		}
		return rv{k: 'b', b: b}
	}
	return rUnspec
}

func cmp3(lt, eq bool) int {
	if lt {
		return -1
	}
	if eq {
		return 0
	}
	return 1
}

// ---------- generator ----------

var intLits = []string{"0", "1", "2", "3", "7", "10", "63", "64", "65", "100", "1_000", "0b101", "0B1_1", "0o17", "017", "0O7_7", "0x1F", "0X_ff", "0xdead_beef",
	"9223372036854775807", "4611686018427387904", "2147483648", "255", "256", "9007199254740993", "0b0", "00"}
var floatLits = []string{"1.5", "0.5", "2.", ".5", "1e3", "1E-2", "2.5e+1", "0x1p4", "0x.8p1", "0X1.8P-1", "1_0.2_5", "09.5", "100.0", "0.1", "3.0", "1e100", "0x1p-2"}
var strLits = []string{`"a"`, `"b"`, `""`, `"x y"`, `"1"`, `"é"`, `"a\"b"`, `"\n"`}

type exprEnv struct {
	frame val           // the data map
	ref   map[string]rv // normalised reference values
	ints  []string
	flts  []string
	strs  []string
	bools []string
}

var boundary = []int64{0, 1, -1, 2, 3, 5, 7, 63, 64, 127, 128, -128, 255, 256, 32767, -32768, 65535, 2147483647, -2147483648, 4294967295,
	9223372036854775807, -9223372036854775808, 9007199254740992, 9007199254740993, -9007199254740993, 4611686018427387904, 1 << 31, 1 << 32, 1 << 53, 100, 1000}

func genExprEnv(r *rng) *exprEnv {
	env := &exprEnv{ref: map[string]rv{}}
	var kvs []kv
	for _, k := range intKinds {
		name := "v" + k
		raw := boundary[r.n(len(boundary))]
		if r.p(40) {
			raw = int64(r.next()>>uint(r.n(64))) - int64(r.n(3))
		}
		v := vKind(k, raw)
		// the reference sees the value as int64(x); keep values representable in int64 (the property's domain)
		var i64 int64
		switch x := v.g.(type) {
		case int:
			i64 = int64(x)
		case int8:
			i64 = int64(x)
		case int16:
			i64 = int64(x)
		case int32:
			i64 = int64(x)
		case int64:
			i64 = x
		case uint:
			if x > math.MaxInt64 {
				v = vKind(k, int64(x>>1))
				i64 = int64(x >> 1)
			} else {
				i64 = int64(x)
			}
		case uint8:
			i64 = int64(x)
		case uint16:
			i64 = int64(x)
		case uint32:
			i64 = int64(x)
		case uint64:
			if x > math.MaxInt64 {
				v = vKind(k, int64(x>>1))
				i64 = int64(x >> 1)
			} else {
				i64 = int64(x)
			}
		}
		kvs = append(kvs, kv{name, v})
		env.ref[name] = rv{k: 'i', i: i64}
		env.ints = append(env.ints, name)
	}
	fs := []float64{2.5, -0.5, 0, 1, 3, 1e10, 0.1, 9007199254740992, -7.25, 64, math.NaN(), math.Inf(1), math.Inf(-1), math.Copysign(0, -1)}
	f64 := fs[r.n(len(fs))]
	f32 := float32(fs[r.n(len(fs))])
	kvs = append(kvs, kv{"f64", vF64(f64)}, kv{"f32", vF32(f32)})
	env.ref["f64"] = rv{k: 'f', f: f64}
	env.ref["f32"] = rv{k: 'f', f: float64(f32), o: f32}
	env.flts = []string{"f64", "f32"}
	ss := []string{"str", "", "a", "b", "10", "é<"}
	s1, s2 := ss[r.n(len(ss))], ss[r.n(len(ss))]
	kvs = append(kvs, kv{"s1", vStr(s1)}, kv{"s2", vStr(s2)})
	env.ref["s1"] = rv{k: 's', s: s1}
	env.ref["s2"] = rv{k: 's', s: s2}
	env.strs = []string{"s1", "s2"}
	b1 := r.p(50)
	kvs = append(kvs, kv{"b1", vBool(b1)}, kv{"b2", vBool(!b1)})
	env.ref["b1"] = rv{k: 'b', b: b1}
	env.ref["b2"] = rv{k: 'b', b: !b1}
	env.ref["true"] = rv{k: 'b', b: true}
	env.ref["false"] = rv{k: 'b', b: false}
	env.bools = []string{"b1", "b2", "true", "false"}
	kvs = append(kvs, kv{"vnil", vNil()})
	env.ref["vnil"] = rv{k: 'n'}
	env.ref["nil"] = rv{k: 'n'}
	env.frame = vMap(kvs...)
	return env
}

var intBinOps = []string{"+", "-", "*", "/", "%", "<<", ">>", "&", "&^", "|", "^"}
var fltBinOps = []string{"+", "-", "*", "/"}
var relOps = []string{"==", "!=", "<", "<=", ">", ">="}

// genEx builds an expression aiming at type ty; wrong injects an ill-typed operand with a small probability.
func genEx(r *rng, env *exprEnv, ty byte, d int, wrong int) *Ex {
	if wrong > 0 && r.p(wrong) {
		ty = "ifsbn"[r.n(5)]
	}
	if ty == 'n' {
		// an operand that evaluates successfully to untyped nil (the literal, or a nil value from the data)
		return &Ex{Op: "var", Text: r.pick([]string{"nil", "vnil"}), Ty: 'n'}
	}
	if d <= 0 || r.p(25) {
		switch ty {
		case 'i':
			if r.p(50) {
				return &Ex{Op: "var", Text: r.pick(env.ints), Ty: 'i'}
			}
			return &Ex{Op: "lit-int", Text: r.pick(intLits), Ty: 'i'}
		case 'f':
			if r.p(40) {
				return &Ex{Op: "var", Text: r.pick(env.flts), Ty: 'f'}
			}
			return &Ex{Op: "lit-float", Text: r.pick(floatLits), Ty: 'f'}
		case 's':
			if r.p(50) {
				return &Ex{Op: "var", Text: r.pick(env.strs), Ty: 's'}
			}
			return &Ex{Op: "lit-str", Text: r.pick(strLits), Ty: 's'}
		default:
			return &Ex{Op: "var", Text: r.pick(env.bools), Ty: 'b'}
		}
	}
	sub := func(t byte) *Ex { return genEx(r, env, t, d-1, wrong) }
	if r.p(12) {
		return &Ex{Op: "cond", Kids: []*Ex{sub('b'), sub(ty), sub(ty)}, Ty: ty}
	}
	if r.p(6) {
		return &Ex{Op: "paren", Kids: []*Ex{sub(ty)}, Ty: ty}
	}
	switch ty {
	case 'i':
		if r.p(18) {
			return &Ex{Op: "un", Text: r.pick([]string{"+", "-", "^"}), Kids: []*Ex{sub('i')}, Ty: 'i'}
		}
		op := r.pick(intBinOps)
		rhs := sub('i')
		if (op == "<<" || op == ">>") && r.p(70) {
			rhs = &Ex{Op: "lit-int", Text: r.pick([]string{"0", "1", "3", "31", "63", "64", "65", "100"}), Ty: 'i'}
		}
		return &Ex{Op: "bin", Text: op, Kids: []*Ex{sub('i'), rhs}, Ty: 'i'}
	case 'f':
		if r.p(15) {
			return &Ex{Op: "un", Text: r.pick([]string{"+", "-"}), Kids: []*Ex{sub('f')}, Ty: 'f'}
		}
		l, rr := sub('f'), sub('f')
		if r.p(35) { // mixed int / float
			if r.p(50) {
				l = sub('i')
			} else {
				rr = sub('i')
			}
		}
		return &Ex{Op: "bin", Text: r.pick(fltBinOps), Kids: []*Ex{l, rr}, Ty: 'f'}
	case 's':
		l, rr := sub('s'), sub('s')
		if r.p(30) { // string + non-string concatenates
			t := "ifb"[r.n(3)]
			if r.p(50) {
				l = sub(t)
			} else {
				rr = sub(t)
			}
		}
		return &Ex{Op: "bin", Text: "+", Kids: []*Ex{l, rr}, Ty: 's'}
	default:
		switch r.n(10) {
		case 0, 1:
			return &Ex{Op: "un", Text: "!", Kids: []*Ex{sub('b')}, Ty: 'b'}
		case 2, 3, 4:
			return &Ex{Op: "bin", Text: r.pick([]string{"&&", "||"}), Kids: []*Ex{sub('b'), sub('b')}, Ty: 'b'}
		default:
			t := "iifs"[r.n(4)]
			t2 := t
			if (t == 'i' || t == 'f') && r.p(30) {
				t2 = "if"[r.n(2)]
			}
			op := r.pick(relOps)
			if t == 's' && r.p(10) {
				t, t2 = 'b', 'b'
				op = r.pick([]string{"==", "!="})
			}
			return &Ex{Op: "bin", Text: op, Kids: []*Ex{sub(t), sub(t2)}, Ty: 'b'}
		}
	}
}

func exSize(e *Ex) int {
	n := 1
	for _, k := range e.Kids {
		n += exSize(k)
	}
	return n
}

func exOps(e *Ex, into map[string]int) {
	if e.Op == "bin" || e.Op == "un" {
		into[e.Op+e.Text]++
	} else {
		into[e.Op]++
	}
	for _, k := range e.Kids {
		exOps(k, into)
	}
}
