package main

import (
	"encoding/hex"
	"errors"
	"fmt"
	"math"
	"reflect"
	"sort"
	"strconv"
	"strings"
)

// A val is one data value in both worlds: the native Go value handed to the implementation
// and the typed JSON handed to the Lean model (TplModel/Driver/Values.lean).
type val struct {
	g any
	j any
}

// ---------- the fixed type family of the harness (mirrored by EV.methodsOf / EV.callFn) ----------

// Get: a field of the EMBEDDED struct named like a method of the outer struct S — on S the method (depth 0) wins
type In struct {
	Z   int
	Get int
}

type S struct {
	A  int
	B  string
	c  int
	P  *S
	L  []int
	M  map[string]any
	In // embedded
}

func (s S) Get() int           { return s.A }
func (s *S) Ptr() int          { return s.A + 1 }
func (s S) Fail() (int, error) { return s.A, errSentinel } // (T, error) method that fails
func (s S) Ok() (int, error)   { return s.A, nil }         // (T, error) method that succeeds

var errSentinel = errors.New("SENTINEL")

var ptrIDs = map[*S]int{}
var nextPtrID = 1

func vNil() val          { return val{nil, nil} }
func vBool(b bool) val   { return val{b, J{"b": b}} }
func vStr(s string) val  { return val{s, J{"s": s}} }
func vInt(v int) val     { return val{v, J{"i": "int", "v": strconv.Itoa(v)}} }
func vI64(v int64) val   { return val{v, J{"i": "int64", "v": strconv.FormatInt(v, 10)}} }
func vF64(f float64) val { return val{f, J{"f": "float64", "bits": strconv.FormatUint(math.Float64bits(f), 10)}} }
func vF32(f float32) val {
	return val{f, J{"f": "float32", "bits": strconv.FormatUint(math.Float64bits(float64(f)), 10)}}
}

var intKinds = []string{"int", "int8", "int16", "int32", "int64", "uint", "uint8", "uint16", "uint32", "uint64"}

// vKind builds an integer of the named Go kind from an int64 bit pattern (wrapped into the kind's range).
func vKind(kind string, v int64) val {
	var g any
	var s string
	switch kind {
	case "int":
		g, s = int(v), strconv.FormatInt(v, 10)
	case "int8":
		g, s = int8(v), strconv.FormatInt(int64(int8(v)), 10)
	case "int16":
		g, s = int16(v), strconv.FormatInt(int64(int16(v)), 10)
	case "int32":
		g, s = int32(v), strconv.FormatInt(int64(int32(v)), 10)
	case "int64":
		g, s = v, strconv.FormatInt(v, 10)
	case "uint":
		g, s = uint(v), strconv.FormatUint(uint64(v), 10)
	case "uint8":
		g, s = uint8(v), strconv.FormatUint(uint64(uint8(v)), 10)
	case "uint16":
		g, s = uint16(v), strconv.FormatUint(uint64(uint16(v)), 10)
	case "uint32":
		g, s = uint32(v), strconv.FormatUint(uint64(uint32(v)), 10)
	case "uint64":
		g, s = uint64(v), strconv.FormatUint(uint64(v), 10)
	default:
		panic("bad kind " + kind)
	}
	return val{g, J{"i": kind, "v": s}}
}

func js(vs []val) []any {
	out := make([]any, len(vs))
	for i, v := range vs {
		out[i] = v.j
	}
	return out
}

// vAnySlice is a []interface{} (what JSON-like data uses).
func vAnySlice(vs ...val) val {
	g := make([]any, len(vs))
	for i, v := range vs {
		g[i] = v.g
	}
	return val{g, J{"sl": "[]interface {}", "xs": js(vs), "cap": len(vs)}}
}
func vIntSlice(xs ...int) val {
	vs := make([]val, len(xs))
	for i, x := range xs {
		vs[i] = vInt(x)
	}
	g := append([]int{}, xs...)
	return val{g, J{"sl": "[]int", "xs": js(vs), "cap": len(xs)}}
}
func vStrSlice(xs ...string) val {
	vs := make([]val, len(xs))
	for i, x := range xs {
		vs[i] = vStr(x)
	}
	g := append([]string{}, xs...)
	return val{g, J{"sl": "[]string", "xs": js(vs), "cap": len(xs)}}
}
func vStrArray2(a, b string) val {
	return val{[2]string{a, b}, J{"ar": "[2]string", "xs": js([]val{vStr(a), vStr(b)})}}
}
func vIntArray3(a, b, c int) val {
	return val{[3]int{a, b, c}, J{"ar": "[3]int", "xs": js([]val{vInt(a), vInt(b), vInt(c)})}}
}

type kv struct {
	k string
	v val
}

func vMap(kvs ...kv) val {
	g := map[string]any{}
	var jkv []any
	seen := map[string]bool{}
	for i := len(kvs) - 1; i >= 0; i-- { // last binding of a key wins
		e := kvs[i]
		if seen[e.k] {
			continue
		}
		seen[e.k] = true
		g[e.k] = e.v.g
		jkv = append([]any{[]any{e.k, e.v.j}}, jkv...)
	}
	if jkv == nil {
		jkv = []any{}
	}
	return val{g, J{"m": "map[string]interface {}", "kv": jkv}}
}

func vIn(z int) val {
	return val{In{z, 77}, J{"st": "In", "fs": []any{[]any{"Z", true, false, vInt(z).j}, []any{"Get", true, false, vInt(77).j}}}}
}

// vS builds an S by value; p may be nil.
func vS(a int, b string, p *val) val {
	s := S{A: a, B: b, c: 2, L: []int{1, 2}, M: map[string]any{"x": 1}, In: In{9, 77}}
	var pj any = J{"p": "S", "id": 0, "to": nil}
	if p != nil {
		ps := p.g.(*S)
		s.P = ps
		pj = p.j
	}
	fs := []any{
		[]any{"A", true, false, vInt(a).j}, []any{"B", true, false, vStr(b).j}, []any{"c", false, false, vInt(2).j},
		[]any{"P", true, false, pj}, []any{"L", true, false, vIntSlice(1, 2).j},
		[]any{"M", true, false, vMap(kv{"x", vInt(1)}).j}, []any{"In", true, true, vIn(9).j},
	}
	return val{s, J{"st": "S", "fs": fs}}
}

// vPtrS builds a *S pointing at a copy of s (identity = fresh id); vNilPtrS is a nil *S.
func vPtrS(s val) val {
	sv := s.g.(S)
	p := &sv
	id := nextPtrID
	nextPtrID++
	ptrIDs[p] = id
	return val{p, J{"p": "S", "id": id, "to": s.j}}
}
func vNilPtrS() val { return val{(*S)(nil), J{"p": "S", "id": 0, "to": nil}} }

// ---------- user functions (FnSpec in the model) ----------

type fnSpec struct {
	Sig    string `json:"sig"`
	Arity  int    `json:"arity"`
	Ret    any    `json:"ret"`
	Second *bool  `json:"second"`
	Panics bool   `json:"panics"`
	Two    bool   `json:"two"`
}

type callLog struct{ calls []string }

func (l *callLog) add(s string) { l.calls = append(l.calls, s) }

// mkFn builds a Go function with the described behaviour that logs its calls.
// kinds: "val" () T ; "val1" (any) T ; "err" () (T, error) failing ; "okerr" () (T, error) succeeding ;
// "panic" () T panicking ; "two" () (T, T)
func mkFn(id, kind string, ret val, log *callLog) (val, fnSpec) {
	t, f := true, false
	retT := "interface {}"
	switch kind {
	case "val":
		return val{func() any { log.add(id); return ret.g }, J{"fn": id}}, fnSpec{Sig: "func() " + retT, Arity: 0, Ret: ret.j}
	case "val1":
		return val{func(any) any { log.add(id); return ret.g }, J{"fn": id}}, fnSpec{Sig: "func(interface {}) " + retT, Arity: 1, Ret: ret.j}
	case "err":
		return val{func() (any, error) { log.add(id); return ret.g, errSentinel }, J{"fn": id}}, fnSpec{Sig: "func() (interface {}, error)", Arity: 0, Ret: ret.j, Second: &t}
	case "okerr":
		return val{func() (any, error) { log.add(id); return ret.g, nil }, J{"fn": id}}, fnSpec{Sig: "func() (interface {}, error)", Arity: 0, Ret: ret.j, Second: &f}
	case "panic":
		return val{func() any { log.add(id); panic("boom " + id) }, J{"fn": id}}, fnSpec{Sig: "func() " + retT, Arity: 0, Ret: ret.j, Panics: true}
	case "two":
		return val{func() (any, any) { log.add(id); return ret.g, ret.g }, J{"fn": id}}, fnSpec{Sig: "func() (interface {}, interface {})", Arity: 0, Ret: ret.j, Two: true}
	}
	panic("bad fn kind")
}

// ---------- canonical rendering of native Go values (same format as Ops.canon in Lean) ----------

func hexOf(s string) string { return hex.EncodeToString([]byte(s)) }

func canonGo(v any) string {
	if v == nil {
		return "nil"
	}
	rv := reflect.ValueOf(v)
	switch rv.Kind() {
	case reflect.Bool:
		return fmt.Sprintf("bool:%v", rv.Bool())
	case reflect.Int, reflect.Int8, reflect.Int16, reflect.Int32, reflect.Int64:
		return fmt.Sprintf("%s:%d", rv.Kind(), rv.Int())
	case reflect.Uint, reflect.Uint8, reflect.Uint16, reflect.Uint32, reflect.Uint64:
		return fmt.Sprintf("%s:%d", rv.Kind(), rv.Uint())
	case reflect.Float64, reflect.Float32:
		if math.IsNaN(rv.Float()) {
			return rv.Kind().String() + ":NaN" // NaN payload/sign bits are not part of any property
		}
		return fmt.Sprintf("%s:%d", rv.Kind(), math.Float64bits(rv.Float()))
	case reflect.String:
		return "string:" + hexOf(rv.String())
	case reflect.Slice:
		parts := make([]string, rv.Len())
		for i := range parts {
			parts[i] = canonGo(rv.Index(i).Interface())
		}
		return fmt.Sprintf("slice:%s:cap%d[%s]", rv.Type(), rv.Cap(), strings.Join(parts, " "))
	case reflect.Array:
		parts := make([]string, rv.Len())
		for i := range parts {
			parts[i] = canonGo(rv.Index(i).Interface())
		}
		return fmt.Sprintf("array:%s[%s]", rv.Type(), strings.Join(parts, " "))
	case reflect.Map:
		keys := map[string]reflect.Value{}
		var ks []string
		for _, k := range rv.MapKeys() {
			s := fmt.Sprint(k.Interface())
			keys[s] = k
			ks = append(ks, s)
		}
		sort.Strings(ks) // by key (as the model does), not by the rendered entry
		var parts []string
		for _, s := range ks {
			parts = append(parts, hexOf(s)+"="+canonGo(rv.MapIndex(keys[s]).Interface()))
		}
		return fmt.Sprintf("map:%s{%s}", rv.Type(), strings.Join(parts, " "))
	case reflect.Struct:
		return "struct:" + rv.Type().Name()
	case reflect.Pointer:
		if rv.IsNil() {
			return "ptr:" + rv.Type().Elem().Name() + ":nil"
		}
		return "ptr:" + rv.Type().Elem().Name() + ":set"
	case reflect.Func:
		return "func"
	}
	return "other:" + rv.Kind().String()
}

// valFromJSON rebuilds a val from the typed JSON stored in a corpus / replay case (basic kinds, slices, maps).
func valFromJSON(j any) val {
	m, ok := j.(map[string]any)
	if !ok || m == nil {
		return vNil()
	}
	if b, ok := m["b"].(bool); ok {
		return vBool(b)
	}
	if k, ok := m["i"].(string); ok {
		s, _ := m["v"].(string)
		if strings.HasPrefix(k, "u") {
			u, _ := strconv.ParseUint(s, 10, 64)
			return vKind(k, int64(u))
		}
		i, _ := strconv.ParseInt(s, 10, 64)
		return vKind(k, i)
	}
	if k, ok := m["f"].(string); ok {
		s, _ := m["bits"].(string)
		u, _ := strconv.ParseUint(s, 10, 64)
		if k == "float32" {
			return vF32(float32(math.Float64frombits(u)))
		}
		return vF64(math.Float64frombits(u))
	}
	if s, ok := m["s"].(string); ok {
		return vStr(s)
	}
	if ty, ok := m["sl"].(string); ok {
		xs, _ := m["xs"].([]any)
		vs := make([]val, len(xs))
		for i, x := range xs {
			vs[i] = valFromJSON(x)
		}
		switch ty {
		case "[]int":
			is := make([]int, len(vs))
			for i, v := range vs {
				is[i], _ = v.g.(int)
			}
			return vIntSlice(is...)
		case "[]string":
			ss := make([]string, len(vs))
			for i, v := range vs {
				ss[i], _ = v.g.(string)
			}
			return vStrSlice(ss...)
		}
		return vAnySlice(vs...)
	}
	if _, ok := m["m"].(string); ok {
		kvj, _ := m["kv"].([]any)
		var kvs []kv
		for _, e := range kvj {
			p, _ := e.([]any)
			if len(p) == 2 {
				k, _ := p[0].(string)
				kvs = append(kvs, kv{k, valFromJSON(p[1])})
			}
		}
		return vMap(kvs...)
	}
	if ty, ok := m["ar"].(string); ok {
		xs, _ := m["xs"].([]any)
		vs := make([]val, len(xs))
		for i, x := range xs {
			vs[i] = valFromJSON(x)
		}
		switch {
		case ty == "[3]int" && len(vs) == 3:
			a, _ := vs[0].g.(int)
			b, _ := vs[1].g.(int)
			c, _ := vs[2].g.(int)
			return vIntArray3(a, b, c)
		case ty == "[2]string" && len(vs) == 2:
			a, _ := vs[0].g.(string)
			b, _ := vs[1].g.(string)
			return vStrArray2(a, b)
		}
		panic("valFromJSON: unsupported array type " + ty)
	}
	if ty, ok := m["st"].(string); ok {
		// limited rebuild: S by value with nil P (the only struct shape stored in cases), In
		get := func(name string) any {
			fs, _ := m["fs"].([]any)
			for _, f := range fs {
				p, _ := f.([]any)
				if len(p) == 4 && p[0] == name {
					return p[3]
				}
			}
			return nil
		}
		switch ty {
		case "S":
			a, _ := valFromJSON(get("A")).g.(int)
			b, _ := valFromJSON(get("B")).g.(string)
			return vS(a, b, nil)
		case "In":
			z, _ := valFromJSON(get("Z")).g.(int)
			return vIn(z)
		}
		panic("valFromJSON: unsupported struct type " + ty)
	}
	return vNil()
}

// normNum maps a canonical value to its kind-independent form: every integer kind ↦ int64, float32 ↦ float64.
func normNum(c string) string {
	i := strings.IndexByte(c, ':')
	if i < 0 {
		return c
	}
	k, rest := c[:i], c[i+1:]
	for _, ik := range intKinds {
		if k == ik {
			if strings.HasPrefix(k, "u") {
				u, _ := strconv.ParseUint(rest, 10, 64)
				return fmt.Sprintf("int64:%d", int64(u))
			}
			return "int64:" + rest
		}
	}
	if k == "float32" {
		return "float64:" + rest
	}
	return c
}
