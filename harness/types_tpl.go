package main

import (
	"code.gopub.tech/tpl/html"
	"code.gopub.tech/tpl/types"
)

type tplT = types.Template

var _ = html.NewTplManager
