import TplModel.Sys.Conc
/-! # Lemmas about the concurrency model `TplModel/Sys/Conc.lean` (core-only) -/
namespace CC

/-! ## stores and observations -/

theorem finalStore_append (s : Store) (a b : Sched) : finalStore s (a ++ b) = finalStore (finalStore s a) b := by
  induction a generalizing s with
  | nil => rfl
  | cons x a ih => obtain ⟨j, c⟩ := x; simp [finalStore, ih]

theorem proj_cons (i j : Nat) (a : Act) (s : Sched) :
    proj i ((j, a) :: s) = if j = i then a :: proj i s else proj i s := by
  unfold proj; by_cases h : j = i <;> simp [h]

theorem proj_append (i : Nat) (a b : Sched) : proj i (a ++ b) = proj i a ++ proj i b := by
  unfold proj; simp [List.filterMap_append]

theorem mem_proj {i : Nat} {a : Act} {s : Sched} : a ∈ proj i s ↔ (i, a) ∈ s := by
  unfold proj
  simp only [List.mem_filterMap]
  constructor
  · rintro ⟨⟨j, b⟩, hm, h⟩
    by_cases hj : j = i
    · simp [hj] at h; subst hj; subst h; exact hm
    · simp [hj] at h
  · intro h; exact ⟨(i, a), h, by simp⟩

theorem proj_map_self (t : List Act) : proj 0 (t.map fun a => (0, a)) = t := by
  induction t with
  | nil => rfl
  | cons a t ih => simp [proj_cons, ih]

/-- if every action of the schedule observes `f a` in the store it executes in, thread `i` observes `f` of its own
    actions -/
theorem runObs_pointwise (f : Act → List Nat) (i : Nat) (s0 : Store) (sched : Sched)
    (h : ∀ pre j a post, sched = pre ++ (j, a) :: post → obsAct (finalStore s0 pre) a = f a) :
    runObs i s0 sched = (proj i sched).flatMap f := by
  induction sched generalizing s0 with
  | nil => simp [runObs, proj]
  | cons x rest ih =>
    obtain ⟨j, a⟩ := x
    have h0 := h [] j a rest rfl
    have ih' := ih (stepStore s0 a) (fun pre k b post he => by
      have := h ((j, a) :: pre) k b post (by simp [he])
      simpa [finalStore] using this)
    simp only [runObs, ih', proj_cons]
    by_cases hj : j = i
    · simp [hj, finalStore] at h0 ⊢; exact h0
    · simp [hj]

/-! ## interleavings -/

theorem Interleaving.proj_eq {ts : List (List Act)} {sched : Sched} (h : Interleaving ts sched) (i : Nat) :
    proj i sched = ts[i]?.getD [] := by
  induction h with
  | @nil ts hn =>
    cases hi : ts[i]? with
    | none => simp [proj]
    | some t => simp [proj, hn t (List.mem_of_getElem? hi)]
  | @cons ts j a rest s hj _ ih =>
    rw [proj_cons, ih]
    have hlt : j < ts.length := by
      rcases Nat.lt_or_ge j ts.length with h | h
      · exact h
      · simp [List.getElem?_eq_none h] at hj
    by_cases hji : j = i
    · subst hji; rw [hj]; simp [hlt]
    · simp [hji, List.getElem?_set_ne hji]

theorem Interleaving.idx_lt {ts : List (List Act)} {sched : Sched} (h : Interleaving ts sched) :
    ∀ x ∈ sched, x.1 < ts.length := by
  induction h with
  | nil _ => simp
  | @cons ts j a rest s hj _ ih =>
    intro x hx
    rcases List.mem_cons.1 hx with rfl | hx
    · rcases Nat.lt_or_ge j ts.length with h | h
      · exact h
      · simp [List.getElem?_eq_none h] at hj
    · simpa using ih x hx

theorem interleaving_of_proj (ts : List (List Act)) (sched : Sched) (hlt : ∀ x ∈ sched, x.1 < ts.length)
    (hp : ∀ i, i < ts.length → proj i sched = ts[i]?.getD []) : Interleaving ts sched := by
  induction sched generalizing ts with
  | nil =>
    refine .nil fun t ht => ?_
    obtain ⟨i, hi, rfl⟩ := List.getElem_of_mem ht
    have := hp i hi
    simpa [proj, hi] using this.symm
  | cons x rest ih =>
    obtain ⟨j, a⟩ := x
    have hj : j < ts.length := hlt (j, a) (by simp)
    have hpj := hp j hj
    rw [proj_cons] at hpj
    simp only [if_true] at hpj
    have hget : ts[j]? = some (a :: proj j rest) := by
      simp [hj] at hpj ⊢; exact hpj.symm
    refine .cons hget (ih _ ?_ ?_)
    · intro x hx; simpa using hlt x (by simp [hx])
    · intro i hi
      have hi' : i < ts.length := by simpa using hi
      by_cases hji : j = i
      · subst hji; simp [hj]
      · have := hp i hi'
        rw [proj_cons] at this
        simp [hji] at this
        simp [List.getElem_set_ne hji, this, hi']

theorem interleavingB_iff (ts : List (List Act)) (sched : Sched) :
    interleavingB ts sched = true ↔ Interleaving ts sched := by
  constructor
  · intro h
    simp only [interleavingB, Bool.and_eq_true, List.all_eq_true, List.mem_range, decide_eq_true_eq, beq_iff_eq] at h
    exact interleaving_of_proj ts sched h.1 h.2
  · intro h
    simp only [interleavingB, Bool.and_eq_true, List.all_eq_true, List.mem_range, decide_eq_true_eq, beq_iff_eq]
    exact ⟨h.idx_lt, fun i _ => h.proj_eq i⟩

instance (ts : List (List Act)) (sched : Sched) : Decidable (Interleaving ts sched) :=
  decidable_of_iff _ (interleavingB_iff ts sched)

/-- a thread alone is an interleaving of the one-thread system -/
theorem interleaving_solo (t : List Act) : Interleaving [t] (t.map fun a => (0, a)) := by
  induction t with
  | nil => exact .nil (by simp)
  | cons a t ih => exact .cons (i := 0) (rest := t) (by simp) (by simpa using ih)

/-- decomposition of the owning thread at a position of an interleaving -/
theorem Interleaving.thread_split {ts : List (List Act)} {sched : Sched} (h : Interleaving ts sched)
    {pre post : Sched} {i : Nat} {a : Act} (he : sched = pre ++ (i, a) :: post) :
    ts[i]? = some (proj i pre ++ a :: proj i post) := by
  have hp := h.proj_eq i
  have hlt : i < ts.length := h.idx_lt (i, a) (by simp [he])
  rw [he, proj_append, proj_cons] at hp
  simp [hlt] at hp ⊢
  exact hp.symm

/-! ## the schedule-level discipline of lock-protected idempotent initialisation

`isC l`: `l` is a cache location; `cm l`, `cv l`: its mutex and its (only possible) cached value. -/

/-- the value every disciplined access of `l` observes -/
def val (s0 : Store) (isC : Loc → Bool) (cv : Loc → Nat) (l : Loc) : Nat :=
  if isC l = true ∧ s0 l = 0 then cv l else s0 l

/-- observations when every location shows the value `vl` -/
def obsExp (vl : Loc → Nat) : Act → List Nat
  | .read l => [vl l]
  | .initCache _ l _ => [vl l]
  | _ => []

structure SchedDisc (isC : Loc → Bool) (cm cv : Loc → Nat) (sched : Sched) : Prop where
  noWrite : ∀ i l v, (i, Act.write l v) ∉ sched
  inits : ∀ i m l v, (i, Act.initCache m l v) ∈ sched → isC l = true ∧ m = cm l ∧ v = cv l
  readAfterInit : ∀ pre i l post, sched = pre ++ (i, Act.read l) :: post → isC l = true →
      ∃ m v, (i, Act.initCache m l v) ∈ pre

/-- store invariant: every location still has its initial value or (cache locations) its eventual value -/
def Good (s0 : Store) (isC : Loc → Bool) (cv : Loc → Nat) (st : Store) : Prop :=
  ∀ l, st l = s0 l ∨ (isC l = true ∧ st l = val s0 isC cv l)

section
variable {s0 : Store} {isC : Loc → Bool} {cm cv : Loc → Nat} (hcv : ∀ l, isC l = true → cv l ≠ 0)

theorem good_init : Good s0 isC cv s0 := fun _ => .inl rfl

include hcv in
theorem val_ne_zero {l : Loc} (hl : isC l = true) : val s0 isC cv l ≠ 0 := by
  unfold val
  by_cases h : s0 l = 0
  · simp [hl, h, hcv l hl]
  · simp [h]

theorem good_val {st : Store} (hg : Good s0 isC cv st) {l : Loc} (hnz : st l ≠ 0) : st l = val s0 isC cv l := by
  rcases hg l with h | ⟨_, h⟩
  · have : s0 l ≠ 0 := h ▸ hnz
    simp [val, this, h]
  · exact h

include hcv in
theorem good_zero {st : Store} (hg : Good s0 isC cv st) {l : Loc} (hz : st l = 0) : s0 l = 0 := by
  rcases hg l with h | ⟨hl, h⟩
  · exact h ▸ hz
  · exact absurd (h ▸ hz) (val_ne_zero hcv hl)

include hcv in
theorem good_step {st : Store} (hg : Good s0 isC cv st) {a : Act} (hw : ∀ l v, a ≠ .write l v)
    (hi : ∀ m l v, a = .initCache m l v → isC l = true ∧ v = cv l) : Good s0 isC cv (stepStore st a) := by
  cases a with
  | write l v => exact absurd rfl (hw l v)
  | initCache m l v =>
    obtain ⟨hl, hv⟩ := hi m l v rfl
    simp only [stepStore]
    split
    · next hz =>
      intro x
      by_cases hx : x = l
      · subst hx
        have h0 := good_zero hcv hg hz
        exact .inr ⟨hl, by simp [upd, val, hl, h0, hv]⟩
      · simpa [upd, hx] using hg x
    · exact hg
  | read l => exact hg
  | lock m => exact hg
  | unlock m => exact hg

/-- conditions on a schedule prefix -/
def OkPre (isC : Loc → Bool) (cm cv : Loc → Nat) (pre : Sched) : Prop :=
  (∀ i l v, (i, Act.write l v) ∉ pre) ∧ (∀ i m l v, (i, Act.initCache m l v) ∈ pre → isC l = true ∧ m = cm l ∧ v = cv l)

theorem OkPre.tail {x : Nat × Act} {pre : Sched} (h : OkPre isC cm cv (x :: pre)) : OkPre isC cm cv pre :=
  ⟨fun i l v hm => h.1 i l v (List.mem_cons_of_mem _ hm), fun i m l v hm => h.2 i m l v (List.mem_cons_of_mem _ hm)⟩

theorem SchedDisc.okPre {sched pre post : Sched} (h : SchedDisc isC cm cv sched) (he : sched = pre ++ post) :
    OkPre isC cm cv pre :=
  ⟨fun i l v hm => h.noWrite i l v (by simp [he, hm]), fun i m l v hm => h.inits i m l v (by simp [he, hm])⟩

include hcv in
theorem good_final {st : Store} (hg : Good s0 isC cv st) {pre : Sched} (hp : OkPre isC cm cv pre) :
    Good s0 isC cv (finalStore st pre) := by
  induction pre generalizing st with
  | nil => exact hg
  | cons x pre ih =>
    obtain ⟨j, a⟩ := x
    refine ih (good_step hcv hg ?_ ?_) hp.tail
    · intro l v he; subst he; exact hp.1 j l v (by simp)
    · intro m l v he; subst he
      obtain ⟨h1, _, h3⟩ := hp.2 j m l v (by simp)
      exact ⟨h1, h3⟩

theorem step_nz {st : Store} {a : Act} {l : Loc} (hnz : st l ≠ 0) (hw : ∀ l v, a ≠ .write l v) :
    stepStore st a l = st l := by
  cases a with
  | write l' v => exact absurd rfl (hw l' v)
  | initCache m l' v =>
    simp only [stepStore]
    split
    · next hz =>
      have : l ≠ l' := fun h => hnz (h ▸ hz)
      simp [upd, this]
    · rfl
  | read _ => rfl
  | lock _ => rfl
  | unlock _ => rfl

theorem final_nz {st : Store} {pre : Sched} {l : Loc} (hnz : st l ≠ 0) (hw : ∀ i l v, (i, Act.write l v) ∉ pre) :
    finalStore st pre l = st l := by
  induction pre generalizing st with
  | nil => rfl
  | cons x pre ih =>
    obtain ⟨j, a⟩ := x
    have hs : stepStore st a l = st l := step_nz hnz (fun l v he => by subst he; exact hw j l v (by simp))
    simp only [finalStore]
    rw [ih (by rw [hs]; exact hnz) (fun i l v hm => hw i l v (List.mem_cons_of_mem _ hm)), hs]

include hcv in
/-- once some thread has run `initCache` on `l`, `l` is initialised for good -/
theorem final_after_init {st : Store} {pre : Sched} (hp : OkPre isC cm cv pre) {i m l v}
    (hm : (i, Act.initCache m l v) ∈ pre) : finalStore st pre l ≠ 0 := by
  induction pre generalizing st with
  | nil => simp at hm
  | cons x pre ih =>
    rcases List.mem_cons.1 hm with rfl | hm'
    · obtain ⟨hl, _, hv⟩ := hp.2 i m l v (by simp)
      have hnz : stepStore st (.initCache m l v) l ≠ 0 := by
        simp only [stepStore]
        split
        · simp [upd, hv, hcv l hl]
        · assumption
      simp only [finalStore]
      rw [final_nz hnz (fun i l v hm => hp.1 i l v (List.mem_cons_of_mem _ hm))]
      exact hnz
    · obtain ⟨j, a⟩ := x
      exact ih hp.tail hm'

include hcv in
/-- every action of a disciplined schedule observes the eventual value of its location -/
theorem SchedDisc.obs_eq {sched : Sched} (h : SchedDisc isC cm cv sched) {pre post : Sched} {i : Nat} {a : Act}
    (he : sched = pre ++ (i, a) :: post) : obsAct (finalStore s0 pre) a = obsExp (val s0 isC cv) a := by
  have hp : OkPre isC cm cv pre := h.okPre he
  have hg : Good s0 isC cv (finalStore s0 pre) := good_final hcv good_init hp
  cases a with
  | write l v => exact absurd (by simp [he]) (h.noWrite i l v)
  | lock _ => rfl
  | unlock _ => rfl
  | initCache m l v =>
    obtain ⟨hl, _, hv⟩ := h.inits i m l v (by simp [he])
    simp only [obsAct, obsExp]
    split
    · next hz =>
      have h0 := good_zero hcv hg hz
      simp [val, hl, h0, hv]
    · next hnz => rw [good_val hg hnz]
  | read l =>
    simp only [obsAct, obsExp]
    cases hl : isC l with
    | false =>
      rcases hg l with h1 | ⟨h1, _⟩
      · simp [h1, val, hl]
      · simp [hl] at h1
    | true =>
      obtain ⟨m, v, hm⟩ := h.readAfterInit pre i l post he hl
      rw [good_val hg (final_after_init hcv hp hm)]

include hcv in
theorem SchedDisc.runObs_eq {sched : Sched} (h : SchedDisc isC cm cv sched) (i : Nat) :
    runObs i s0 sched = (proj i sched).flatMap (obsExp (val s0 isC cv)) :=
  runObs_pointwise _ i s0 sched fun _ _ _ _ he => h.obs_eq hcv he

/-! ### race freedom -/

theorem split_of_getElem? {sched : Sched} {k : Nat} {x : Nat × Act} (h : sched[k]? = some x) :
    sched = sched.take k ++ x :: sched.drop (k + 1) := by
  obtain ⟨hk, rfl⟩ := List.getElem?_eq_some_iff.1 h
  simp

theorem mem_take_of_getElem? {sched : Sched} {k q : Nat} {x : Nat × Act} (h : sched[k]? = some x) (hkq : k < q) :
    x ∈ sched.take q :=
  List.mem_of_getElem? (l := sched.take q) (i := k) (by rw [List.getElem?_take_of_lt hkq]; exact h)

theorem getElem?_of_mem_take {sched : Sched} {q : Nat} {x : Nat × Act} (h : x ∈ sched.take q) :
    ∃ k, k < q ∧ sched[k]? = some x := by
  obtain ⟨k, hk⟩ := List.mem_iff_getElem?.1 h
  have hlt : k < q := by
    rcases Nat.lt_or_ge k q with h' | h'
    · exact h'
    · have : (sched.take q).length ≤ k := by simp; omega
      simp [List.getElem?_eq_none this] at hk
  exact ⟨k, hlt, by rwa [List.getElem?_take_of_lt hlt] at hk⟩

include hcv in
/-- a disciplined schedule has no data race -/
theorem SchedDisc.race_free {sched : Sched} (h : SchedDisc isC cm cv sched) : ¬ Race s0 sched := by
  rintro ⟨p, q, tp, tq, ap, aq, l, hpq, hp, hq, hne, hlp, hlq, hw, hnhb⟩
  have hokq : OkPre isC cm cv (sched.take q) := h.okPre (List.take_append_drop q sched).symm
  have hokp : OkPre isC cm cv (sched.take p) := h.okPre (List.take_append_drop p sched).symm
  -- an `initCache` on `l` strictly before position `r` means the store at `r` has `l` initialised
  have key : ∀ (r k t m v : Nat), k < r → sched[k]? = some (t, Act.initCache m l v) → storeAt s0 sched r l ≠ 0 := by
    intro r k t m v hkr hk
    exact final_after_init hcv (h.okPre (List.take_append_drop r sched).symm) (mem_take_of_getElem? hk hkr)
  -- an own earlier init for every read of the cache location `l`
  have own : ∀ (r t : Nat), sched[r]? = some (t, Act.read l) → isC l = true →
      ∃ k m v, k < r ∧ sched[k]? = some (t, Act.initCache m l v) := by
    intro r t hr hl
    obtain ⟨m, v, hm⟩ := h.readAfterInit _ t l _ (split_of_getElem? hr) hl
    obtain ⟨k, hk, hk'⟩ := getElem?_of_mem_take hm
    exact ⟨k, m, v, hk, hk'⟩
  rcases hw with hw | hw
  · -- the writer is the earlier access: it is the first `initCache` on `l`
    cases ap with
    | read _ => simp [writesIn] at hw
    | lock _ => simp [writesIn] at hw
    | unlock _ => simp [writesIn] at hw
    | write l' v => exact h.noWrite tp l' v (List.mem_of_getElem? hp)
    | initCache m l' v =>
      simp only [Act.loc?, Option.some.injEq] at hlp; subst hlp
      simp only [writesIn, beq_iff_eq] at hw
      obtain ⟨hl, hm, _⟩ := h.inits tp m l' v (List.mem_of_getElem? hp)
      cases aq with
      | lock _ => simp [Act.loc?] at hlq
      | unlock _ => simp [Act.loc?] at hlq
      | write l'' v' => exact h.noWrite tq l'' v' (List.mem_of_getElem? hq)
      | initCache m' l'' v' =>
        simp only [Act.loc?, Option.some.injEq] at hlq; subst hlq
        obtain ⟨_, hm', _⟩ := h.inits tq m' l'' v' (List.mem_of_getElem? hq)
        exact hnhb (.sync (m := m) hpq hp hq rfl (by simp [Act.acq?, hm, hm']))
      | read l'' =>
        simp only [Act.loc?, Option.some.injEq] at hlq; subst hlq
        obtain ⟨k, m', v', hkq, hk⟩ := own q tq hq hl
        obtain ⟨_, hm', _⟩ := h.inits tq m' l'' v' (List.mem_of_getElem? hk)
        rcases Nat.lt_trichotomy k p with hkp | hkp | hkp
        · exact key p k tq m' v' hkp hk hw
        · subst hkp; rw [hp] at hk; simp at hk; exact hne hk.1
        · exact hnhb (.trans (.sync (m := m) hkp hp hk rfl (by simp [Act.acq?, hm, hm'])) (.po hkq hk hq))
  · -- the writer is the later access: impossible, the earlier access already implies `l` is initialised
    cases aq with
    | read _ => simp [writesIn] at hw
    | lock _ => simp [writesIn] at hw
    | unlock _ => simp [writesIn] at hw
    | write l' v => exact h.noWrite tq l' v (List.mem_of_getElem? hq)
    | initCache m l' v =>
      simp only [Act.loc?, Option.some.injEq] at hlq; subst hlq
      simp only [writesIn, beq_iff_eq] at hw
      obtain ⟨hl, _, _⟩ := h.inits tq m l' v (List.mem_of_getElem? hq)
      cases ap with
      | lock _ => simp [Act.loc?] at hlp
      | unlock _ => simp [Act.loc?] at hlp
      | write l'' v' => exact h.noWrite tp l'' v' (List.mem_of_getElem? hp)
      | initCache m' l'' v' =>
        simp only [Act.loc?, Option.some.injEq] at hlp; subst hlp
        exact key q p tp m' v' hpq hp hw
      | read l'' =>
        simp only [Act.loc?, Option.some.injEq] at hlp; subst hlp
        obtain ⟨k, m', v', hkp, hk⟩ := own p tp hp hl
        exact key q k tp m' v' (Nat.lt_trans hkp hpq) hk hw

end

/-! ## from the thread-level discipline to the schedule-level one -/

/-- `InitDiscipline` with the cache locations, mutexes and values given from outside -/
structure ThreadsDisc (isC : Loc → Bool) (cm cv : Loc → Nat) (ts : List (List Act)) : Prop where
  noWrite : ∀ t ∈ ts, ∀ l v, Act.write l v ∉ t
  inits : ∀ t ∈ ts, ∀ m l v, Act.initCache m l v ∈ t → isC l = true ∧ m = cm l ∧ v = cv l
  readAfterInit : ∀ t ∈ ts, ∀ pre l post, t = pre ++ Act.read l :: post → isC l = true →
      ∃ m v, Act.initCache m l v ∈ pre

theorem ThreadsDisc.single {isC : Loc → Bool} {cm cv : Loc → Nat} {ts : List (List Act)}
    (h : ThreadsDisc isC cm cv ts) {t : List Act} (ht : t ∈ ts) : ThreadsDisc isC cm cv [t] :=
  ⟨fun t' ht' => by rw [List.mem_singleton.1 ht']; exact h.noWrite t ht,
   fun t' ht' => by rw [List.mem_singleton.1 ht']; exact h.inits t ht,
   fun t' ht' => by rw [List.mem_singleton.1 ht']; exact h.readAfterInit t ht⟩

theorem ThreadsDisc.sched {isC : Loc → Bool} {cm cv : Loc → Nat} {ts : List (List Act)}
    (h : ThreadsDisc isC cm cv ts) {sched : Sched} (hi : Interleaving ts sched) : SchedDisc isC cm cv sched := by
  have owner : ∀ i a, (i, a) ∈ sched → ∃ t ∈ ts, a ∈ t := by
    intro i a hm
    have hp := hi.proj_eq i
    have ha : a ∈ proj i sched := mem_proj.2 hm
    rw [hp] at ha
    cases hti : ts[i]? with
    | none => simp [hti] at ha
    | some t => exact ⟨t, List.mem_of_getElem? hti, by simpa [hti] using ha⟩
  refine ⟨?_, ?_, ?_⟩
  · intro i l v hm
    obtain ⟨t, ht, ha⟩ := owner i _ hm
    exact h.noWrite t ht l v ha
  · intro i m l v hm
    obtain ⟨t, ht, ha⟩ := owner i _ hm
    exact h.inits t ht m l v ha
  · intro pre i l post he hl
    have hs := hi.thread_split he
    obtain ⟨m, v, hm⟩ := h.readAfterInit _ (List.mem_of_getElem? hs) _ l _ rfl hl
    exact ⟨m, v, mem_proj.1 hm⟩

theorem mem_inits {ts : List (List Act)} {l m v : Nat} :
    (l, m, v) ∈ inits ts ↔ ∃ t ∈ ts, Act.initCache m l v ∈ t := by
  unfold inits
  simp only [List.mem_filterMap, List.mem_flatten]
  constructor
  · rintro ⟨a, ⟨t, ht, ha⟩, h⟩
    cases a <;> simp at h
    obtain ⟨rfl, rfl, rfl⟩ := h
    exact ⟨t, ht, ha⟩
  · rintro ⟨t, ht, ha⟩
    exact ⟨_, ⟨t, ht, ha⟩, rfl⟩

/-- cache locations of a thread system -/
def isCof (ts : List (List Act)) (l : Loc) : Bool := (inits ts).any (·.1 == l)
/-- the mutex of a cache location -/
def cmOf (ts : List (List Act)) (l : Loc) : Nat := (((inits ts).find? (·.1 == l)).map (·.2.1)).getD 0
/-- the value of a cache location -/
def cvOf (ts : List (List Act)) (l : Loc) : Nat := (((inits ts).find? (·.1 == l)).map (·.2.2)).getD 0

theorem isCof_iff {ts : List (List Act)} {l : Loc} :
    isCof ts l = true ↔ ∃ t ∈ ts, ∃ m v, Act.initCache m l v ∈ t := by
  unfold isCof
  simp only [List.any_eq_true, beq_iff_eq]
  constructor
  · rintro ⟨⟨l', m, v⟩, hm, rfl⟩
    obtain ⟨t, ht, ha⟩ := mem_inits.1 hm
    exact ⟨t, ht, m, v, ha⟩
  · rintro ⟨t, ht, m, v, ha⟩
    exact ⟨(l, m, v), mem_inits.2 ⟨t, ht, ha⟩, rfl⟩

theorem InitDiscipline.found {ts : List (List Act)} (h : InitDiscipline ts) {t : List Act} (ht : t ∈ ts)
    {m l v : Nat} (ha : Act.initCache m l v ∈ t) : (inits ts).find? (·.1 == l) = some (l, m, v) := by
  have hmem : (l, m, v) ∈ inits ts := mem_inits.2 ⟨t, ht, ha⟩
  cases hf : (inits ts).find? (·.1 == l) with
  | none =>
    have := List.find?_eq_none.1 hf _ hmem
    simp at this
  | some x =>
    obtain ⟨l', m', v'⟩ := x
    have hl : l' = l := by simpa using List.find?_some hf
    subst hl
    obtain ⟨t', ht', ha'⟩ := mem_inits.1 (List.mem_of_find?_eq_some hf)
    obtain ⟨rfl, rfl⟩ := h.agree t' ht' t ht _ _ _ _ _ ha' ha
    rfl

theorem InitDiscipline.threadsDisc {ts : List (List Act)} (h : InitDiscipline ts) :
    ThreadsDisc (isCof ts) (cmOf ts) (cvOf ts) ts :=
  ⟨h.noWrite,
   fun t ht m l v ha => ⟨isCof_iff.2 ⟨t, ht, m, v, ha⟩, by simp [cmOf, h.found ht ha], by simp [cvOf, h.found ht ha]⟩,
   fun t ht pre l post he hl => h.readAfterInit t ht pre l post he (isCof_iff.1 hl)⟩

theorem InitDiscipline.cv_ne_zero {ts : List (List Act)} (h : InitDiscipline ts) (l : Loc)
    (hl : isCof ts l = true) : cvOf ts l ≠ 0 := by
  obtain ⟨t, ht, m, v, ha⟩ := isCof_iff.1 hl
  simp only [cvOf, h.found ht ha, Option.map_some, Option.getD_some]
  exact h.nonzero t ht m l v ha

/-! ## the Boolean checkers are correct -/

theorem HB.lt {sched : Sched} {i j : Nat} (h : HB sched i j) : i < j := by
  induction h with
  | po h _ _ => exact h
  | sync h _ _ _ _ => exact h
  | trans _ _ h1 h2 => exact Nat.lt_trans h1 h2

theorem edgeB_iff {sched : Sched} {i j : Nat} :
    edgeB sched i j = true ↔ i < j ∧ ∃ t a u b, sched[i]? = some (t, a) ∧ sched[j]? = some (u, b) ∧
      (t = u ∨ ∃ m, a.rel? = some m ∧ b.acq? = some m) := by
  unfold edgeB
  cases hi : sched[i]? with
  | none => simp
  | some x =>
    obtain ⟨t, a⟩ := x
    cases hj : sched[j]? with
    | none => simp
    | some y =>
      obtain ⟨u, b⟩ := y
      simp only [Bool.and_eq_true, decide_eq_true_eq, Bool.or_eq_true, beq_iff_eq, Option.some.injEq, Prod.mk.injEq]
      constructor
      · rintro ⟨hlt, h | ⟨h1, h2⟩⟩
        · exact ⟨hlt, t, a, u, b, ⟨rfl, rfl⟩, ⟨rfl, rfl⟩, .inl h⟩
        · obtain ⟨m, hm⟩ := Option.isSome_iff_exists.1 h1
          exact ⟨hlt, t, a, u, b, ⟨rfl, rfl⟩, ⟨rfl, rfl⟩, .inr ⟨m, hm, by rw [← h2, hm]⟩⟩
      · rintro ⟨hlt, t', a', u', b', ⟨rfl, rfl⟩, ⟨rfl, rfl⟩, h | ⟨m, h1, h2⟩⟩
        · exact ⟨hlt, .inl h⟩
        · exact ⟨hlt, .inr ⟨by simp [h1], by rw [h1, h2]⟩⟩

theorem HB.of_edge {sched : Sched} {i j : Nat} (h : edgeB sched i j = true) : HB sched i j := by
  obtain ⟨hlt, t, a, u, b, hi, hj, h | ⟨m, h1, h2⟩⟩ := edgeB_iff.1 h
  · subst h; exact .po hlt hi hj
  · exact .sync hlt hi hj h1 h2

theorem HB.last_edge {sched : Sched} {i j : Nat} (h : HB sched i j) :
    ∃ k, (k = i ∨ HB sched i k) ∧ edgeB sched k j = true := by
  induction h with
  | @po i j t a b hlt hi hj => exact ⟨i, .inl rfl, edgeB_iff.2 ⟨hlt, t, a, t, b, hi, hj, .inl rfl⟩⟩
  | @sync i j t u m a b hlt hi hj h1 h2 => exact ⟨i, .inl rfl, edgeB_iff.2 ⟨hlt, t, a, u, b, hi, hj, .inr ⟨m, h1, h2⟩⟩⟩
  | @trans i j k h1 _ _ ih2 =>
    obtain ⟨k', hk' | hk', he⟩ := ih2
    · subst hk'; exact ⟨k', .inr h1, he⟩
    · exact ⟨k', .inr (.trans h1 hk'), he⟩

theorem mem_reach_sound {sched : Sched} {i n k : Nat} (h : k ∈ reach sched i n) :
    k < n ∧ (k = i ∨ HB sched i k) := by
  induction n generalizing k with
  | zero => simp [reach] at h
  | succ n ih =>
    simp only [reach] at h
    split at h
    · next hc =>
      rcases List.mem_cons.1 h with rfl | h
      · refine ⟨Nat.lt_succ_self _, ?_⟩
        rcases hc with hc | hc
        · exact .inl hc
        · obtain ⟨k', hk', he⟩ := List.any_eq_true.1 hc
          rcases (ih hk').2 with rfl | hb
          · exact .inr (.of_edge he)
          · exact .inr (.trans hb (.of_edge he))
      · exact ⟨Nat.lt_succ_of_lt (ih h).1, (ih h).2⟩
    · exact ⟨Nat.lt_succ_of_lt (ih h).1, (ih h).2⟩

theorem reach_succ_subset {sched : Sched} {i n k : Nat} (h : k ∈ reach sched i n) : k ∈ reach sched i (n + 1) := by
  simp only [reach]
  split
  · exact List.mem_cons_of_mem _ h
  · exact h

theorem mem_reach_complete {sched : Sched} {i : Nat} (n k : Nat) (hk : k < n) (h : k = i ∨ HB sched i k) :
    k ∈ reach sched i n := by
  induction n generalizing k with
  | zero => omega
  | succ n ih =>
    rcases Nat.lt_succ_iff_lt_or_eq.1 hk with hlt | rfl
    · exact reach_succ_subset (ih k hlt h)
    · simp only [reach]
      have hc : k = i ∨ (reach sched i k).any (fun k' => edgeB sched k' k) = true := by
        rcases h with h | h
        · exact .inl h
        · obtain ⟨k', hk', he⟩ := h.last_edge
          exact .inr (List.any_eq_true.2 ⟨k', ih k' (edgeB_iff.1 he).1 hk', he⟩)
      rw [if_pos hc]; exact List.mem_cons_self

theorem hbB_iff {sched : Sched} {i j : Nat} : hbB sched i j = true ↔ HB sched i j := by
  unfold hbB
  simp only [Bool.and_eq_true, decide_eq_true_eq, List.contains_iff_mem]
  constructor
  · rintro ⟨hlt, hm⟩
    rcases (mem_reach_sound hm).2 with h | h
    · omega
    · exact h
  · intro h
    exact ⟨h.lt, mem_reach_complete _ _ (Nat.lt_succ_self _) (.inr h)⟩

instance (sched : Sched) (i j : Nat) : Decidable (HB sched i j) := decidable_of_iff _ hbB_iff

theorem conflictB_iff {s0 : Store} {sched : Sched} {i j : Nat} :
    conflictB s0 sched i j = true ↔ ∃ (ti tj : Nat) (ai aj : Act) (l : Loc), sched[i]? = some (ti, ai) ∧ sched[j]? = some (tj, aj) ∧
      ti ≠ tj ∧ ai.loc? = some l ∧ aj.loc? = some l ∧
      (writesIn (storeAt s0 sched i) ai = true ∨ writesIn (storeAt s0 sched j) aj = true) := by
  unfold conflictB
  cases hi : sched[i]? with
  | none => simp
  | some x =>
    obtain ⟨ti, ai⟩ := x
    cases hj : sched[j]? with
    | none => simp
    | some y =>
      obtain ⟨tj, aj⟩ := y
      simp only [Bool.and_eq_true, bne_iff_ne, ne_eq, beq_iff_eq, Bool.or_eq_true, Option.some.injEq, Prod.mk.injEq]
      constructor
      · rintro ⟨⟨⟨hne, hs⟩, heq⟩, hw⟩
        obtain ⟨l, hl⟩ := Option.isSome_iff_exists.1 hs
        exact ⟨ti, tj, ai, aj, l, ⟨rfl, rfl⟩, ⟨rfl, rfl⟩, hne, hl, by rw [← heq, hl], hw⟩
      · rintro ⟨ti', tj', ai', aj', l, ⟨rfl, rfl⟩, ⟨rfl, rfl⟩, hne, hl1, hl2, hw⟩
        exact ⟨⟨⟨hne, by simp [hl1]⟩, by rw [hl1, hl2]⟩, hw⟩

theorem raceB_iff {s0 : Store} {sched : Sched} : raceB s0 sched = true ↔ Race s0 sched := by
  unfold raceB Race
  simp only [List.any_eq_true, List.mem_range, Bool.and_eq_true, Bool.not_eq_true', conflictB_iff]
  constructor
  · rintro ⟨j, _, i, hij, ⟨ti, tj, ai, aj, l, h1, h2, h3, h4, h5, h6⟩, hb⟩
    refine ⟨i, j, ti, tj, ai, aj, l, hij, h1, h2, h3, h4, h5, h6, fun h => ?_⟩
    rw [hbB_iff.2 h] at hb; exact Bool.noConfusion hb
  · rintro ⟨i, j, ti, tj, ai, aj, l, hij, h1, h2, h3, h4, h5, h6, hn⟩
    have hj : j < sched.length := by
      rcases Nat.lt_or_ge j sched.length with h | h
      · exact h
      · simp [List.getElem?_eq_none h] at h2
    refine ⟨j, hj, i, hij, ⟨ti, tj, ai, aj, l, h1, h2, h3, h4, h5, h6⟩, ?_⟩
    cases hb : hbB sched i j with
    | false => rfl
    | true => exact absurd (hbB_iff.1 hb) hn

instance (s0 : Store) (sched : Sched) : Decidable (Race s0 sched) := decidable_of_iff _ raceB_iff

/-- without any release action (no `unlock`, no `initCache`) happens-before is program order -/
theorem HB.same_thread_of_no_rel {sched : Sched} (hn : ∀ x ∈ sched, x.2.rel? = none) {i j : Nat} (h : HB sched i j) :
    ∃ t a b, sched[i]? = some (t, a) ∧ sched[j]? = some (t, b) := by
  induction h with
  | po _ hi hj => exact ⟨_, _, _, hi, hj⟩
  | sync _ hi _ h1 _ =>
    have := hn _ (List.mem_of_getElem? hi)
    simp [h1] at this
  | trans _ _ ih1 ih2 =>
    obtain ⟨t, a, b, h1, h2⟩ := ih1
    obtain ⟨t', a', b', h3, h4⟩ := ih2
    rw [h2] at h3
    simp only [Option.some.injEq, Prod.mk.injEq] at h3
    obtain ⟨rfl, rfl⟩ := h3
    exact ⟨t, a, b', h1, h4⟩

theorem readsAfterInitB_sound {isC : Loc → Bool} {done : List Loc} {t : List Act}
    (h : readsAfterInitB isC done t = true) {pre post : List Act} {l : Loc} (he : t = pre ++ Act.read l :: post)
    (hl : isC l = true) : l ∈ done ∨ ∃ m v, Act.initCache m l v ∈ pre := by
  induction t generalizing done pre with
  | nil => simp at he
  | cons a t ih =>
    cases pre with
    | nil =>
      simp only [List.nil_append, List.cons.injEq] at he
      obtain ⟨rfl, rfl⟩ := he
      simp only [readsAfterInitB, Bool.and_eq_true, Bool.or_eq_true, Bool.not_eq_true', List.contains_iff_mem] at h
      rcases h.1 with h1 | h1
      · rw [hl] at h1; exact Bool.noConfusion h1
      · exact .inl h1
    | cons b pre =>
      simp only [List.cons_append, List.cons.injEq] at he
      obtain ⟨rfl, rfl⟩ := he
      cases a with
      | read l' =>
        simp only [readsAfterInitB, Bool.and_eq_true] at h
        rcases ih h.2 rfl with h1 | ⟨m, v, h1⟩
        · exact .inl h1
        · exact .inr ⟨m, v, List.mem_cons_of_mem _ h1⟩
      | initCache m' l' v' =>
        simp only [readsAfterInitB] at h
        rcases ih h rfl with h1 | ⟨m, v, h1⟩
        · rcases List.mem_cons.1 h1 with rfl | h1
          · exact .inr ⟨m', v', List.mem_cons_self⟩
          · exact .inl h1
        · exact .inr ⟨m, v, List.mem_cons_of_mem _ h1⟩
      | write _ _ | lock _ | unlock _ =>
        simp only [readsAfterInitB] at h
        rcases ih h rfl with h1 | ⟨m, v, h1⟩
        · exact .inl h1
        · exact .inr ⟨m, v, List.mem_cons_of_mem _ h1⟩

/-- the Boolean checker of the initialisation discipline is sound -/
theorem initDisciplineB_sound {ts : List (List Act)} (h : initDisciplineB ts = true) : InitDiscipline ts := by
  simp only [initDisciplineB, Bool.and_eq_true, List.all_eq_true] at h
  obtain ⟨⟨hw, ha⟩, hr⟩ := h
  refine ⟨?_, ?_, ?_, ?_⟩
  · intro t ht l v hm
    have := hw t ht _ hm
    simp at this
  · intro t ht t' ht' m l v m' v' hm hm'
    have h1 := (ha _ (mem_inits.2 ⟨t, ht, hm⟩)).2 _ (mem_inits.2 ⟨t', ht', hm'⟩)
    simpa using h1
  · intro t ht m l v hm
    have h1 := (ha _ (mem_inits.2 ⟨t, ht, hm⟩)).1
    simpa using h1
  · intro t ht pre l post he hc
    have hl : (inits ts).any (·.1 == l) = true := isCof_iff.2 hc
    rcases readsAfterInitB_sound (hr t ht) he hl with h1 | h1
    · simp at h1
    · exact h1

end CC
