import TplModel.Proofs.RenderRefineBase
/-! # The faithful re-entrant renderer `RN.exec` refines the structural specification `RN.refNode` -/
set_option linter.unusedSimpArgs false
set_option linter.unusedVariables false
namespace RN
variable {Sc : Type}

/-! ## modes -/

/-- the flag values with which `exec` can be (re-)entered on a tag node -/
def ModeOK (cfg : Cfg) (fl : Fl) (node : Node) : Prop :=
  node.d.kind = .tag →
    fl node.d.id = 0 ∨ (fl node.d.id = 1 ∧ hasCond cfg node.d.attrs = true) ∨
    (fl node.d.id = 2 ∧ hasRange cfg node.d.attrs = true ∧ hasCond cfg node.d.attrs = false) ∨
    (fl node.d.id = 3 ∧ hasRange cfg node.d.attrs = true ∧ hasCond cfg node.d.attrs = true)

/-- what a visit of `node` refines, depending on the flags of that node: the whole node (fresh), the range-or-body
    phase (condition flag set), the body (range flag set) -/
def specOf (cfg : Cfg) (env : Env Sc) (depth : Nat) (fl : Fl) (nc : NC) (node : Node) (sc : Sc) : Nat → Q := fun g =>
  if node.d.kind = .tag ∧ fl node.d.id &&& 2 ≠ 0 then refBody cfg env g depth nc node sc
  else if node.d.kind = .tag ∧ fl node.d.id ≠ 0 then refRB cfg env g depth nc node sc
  else refNode cfg env g depth nc node sc

theorem specOf_clear (cfg : Cfg) (env : Env Sc) (depth : Nat) (fl : Fl) (nc : NC) (node : Node) (sc : Sc)
    (h : fl node.d.id = 0) : specOf cfg env depth fl nc node sc = fun g => refNode cfg env g depth nc node sc := by
  funext g; simp [specOf, h]

theorem specOf_leaf (cfg : Cfg) (env : Env Sc) (depth : Nat) (fl : Fl) (nc : NC) (node : Node) (sc : Sc)
    (h : node.d.kind ≠ .tag) : specOf cfg env depth fl nc node sc = fun g => refNode cfg env g depth nc node sc := by
  funext g; simp [specOf, h]

/-- an attribute that the loop of processTagStart passes over without effect when the node's flags are `flags` -/
def Skips (cfg : Cfg) (flags : Nat) (a : CAttr) : Prop :=
  (rank cfg a = 0 → flags ≠ 0) ∧ (rank cfg a = 1 → flags &&& 1 ≠ 0) ∧ (rank cfg a = 2 → flags &&& 2 ≠ 0)

/-- the refinement statement for all six mutually recursive functions at fuel `f` -/
structure RefAt (cfg : Cfg) (env : Env Sc) (f : Nat) : Prop where
  exec : ∀ depth nc fl node sc, Uniq node → Sorted cfg node → ClearOn fl (idsL node.kids) → ModeOK cfg fl node →
    Ref (exec cfg env f depth nc fl node sc) fl (specOf cfg env depth fl nc node sc)
  child : ∀ depth nc fl node mode sc, Uniq node → Sorted cfg node → ClearOn fl (idsL node.kids) →
    Ref (execChild cfg env f depth nc fl node mode sc) fl (fun g => refChild cfg env g depth nc node mode sc)
  kids : ∀ depth nc fl ks sc, UniqL ks → SortedL cfg ks → ClearOn fl (idsL ks) →
    Ref (execKids cfg env f depth nc fl ks sc) fl (fun g => refKids cfg env g depth nc ks sc)
  frag : ∀ depth nc fl t sc, Uniq t → Sorted cfg t →
    Ref (execFrag cfg env f depth nc fl t sc) fl (fun g => refFrag cfg env g depth nc t sc)
  items : ∀ depth nc fl node its first, node.d.kind = .tag → Uniq node → Sorted cfg node →
    ClearOn fl (idsL node.kids) → ModeOK cfg fl node → fl node.d.id &&& 2 ≠ 0 →
    Ref (execItems cfg env f depth nc fl node its first) fl (fun g => refItems cfg env g depth nc node its first)
  attrs : ∀ depth nc fl node as ps, (∀ a ∈ as, Skips cfg (fl node.d.id) a) →
    (procAttrs cfg env f depth nc fl node as ps).st ≠ .fuel →
    Ev (fun g => refAttrs cfg env g depth nc node.d as ps)
       { procAttrs cfg env f depth nc fl node as ps with fl := emptyFl } ∧
    (procAttrs cfg env f depth nc fl node as ps).fl = fl

/-! ## fuel 0 -/

theorem refAt_zero (cfg : Cfg) (env : Env Sc) : RefAt cfg env 0 := by
  refine ⟨?_, ?_, ?_, ?_, ?_, ?_⟩
  · intro depth nc fl node sc _ _ _ _ hne; exact absurd (by rw [exec.eq_1]; rfl) hne
  · intro depth nc fl node mode sc _ _ _ hne; exact absurd (by rw [execChild.eq_1]; rfl) hne
  · intro depth nc fl ks sc _ _ _ hne; exact absurd (by rw [execKids.eq_1]; rfl) hne
  · intro depth nc fl t sc _ _ hne; exact absurd (by rw [execFrag.eq_1]; rfl) hne
  · intro depth nc fl node its first _ _ _ _ _ _ hne; exact absurd (by rw [execItems.eq_1]; rfl) hne
  · intro depth nc fl node as ps _ hne; exact absurd (by rw [procAttrs.eq_1]) hne

/-! ## children, items, fragments -/

theorem exec_clear {cfg : Cfg} {env : Env Sc} {f : Nat} (ih : RefAt cfg env f) (depth : Nat) (nc : NC) (fl : Fl)
    (node : Node) (sc : Sc) (hu : Uniq node) (hs : Sorted cfg node) (hc : ClearOn fl (ids node)) :
    Ref (exec cfg env f depth nc fl node sc) fl (fun g => refNode cfg env g depth nc node sc) := by
  have h0 : fl node.d.id = 0 := hc _ (by rw [ids_eq]; simp)
  have := ih.exec depth nc fl node sc hu hs (clearOn_mono hc (by rw [ids_eq]; intro j hj; simp [hj]))
    (fun _ => Or.inl h0)
  rwa [specOf_clear _ _ _ _ _ _ _ h0] at this

theorem refines_kids {cfg : Cfg} {env : Env Sc} {f : Nat} (ih : RefAt cfg env f) (depth : Nat) (nc : NC) (fl : Fl)
    (ks : List Node) (sc : Sc) (hu : UniqL ks) (hs : SortedL cfg ks) (hc : ClearOn fl (idsL ks)) :
    Ref (execKids cfg env (f+1) depth nc fl ks sc) fl (fun g => refKids cfg env g depth nc ks sc) := by
  cases ks with
  | nil =>
    rw [execKids.eq_2]
    exact (Ref.okR [] nc fl).succ (fun g => by rw [refKids.eq_2])
  | cons k ks =>
    rw [execKids.eq_3]
    simp only [UniqL, SortedL, idsL] at hu hs hc
    refine Ref.succ (s := fun g => (refNode cfg env g depth nc k sc).andThen fun nc => refKids cfg env g depth nc ks sc)
      ?_ (fun g => by rw [refKids.eq_3])
    apply Ref.andThen (sk := fun g nc => refKids cfg env g depth nc ks sc)
    · exact exec_clear ih depth nc fl k sc hu.1 hs.1 (clearOn_mono hc (fun j hj => List.mem_append_left _ hj))
    · intro _
      exact ih.kids depth _ fl ks sc hu.2 hs.2 (clearOn_mono hc (fun j hj => List.mem_append_right _ hj))

theorem exec_leaf_ref {cfg : Cfg} {env : Env Sc} {f : Nat} (ih : RefAt cfg env f) (depth : Nat) (nc : NC) (fl : Fl)
    (node : Node) (sc : Sc) (hk : node.d.kind ≠ .tag) (hu : Uniq node) (hs : Sorted cfg node)
    (hc : ClearOn fl (idsL node.kids)) :
    Ref (exec cfg env (f+1) depth nc fl node sc) fl (fun g => refNode cfg env g depth nc node sc) := by
  rw [exec_leaf_eq _ _ _ _ _ _ _ _ hk]
  refine Ref.succ (s := fun g => (Q.okQ [leafOut node.d] nc).andThen fun nc =>
        (refKids cfg env g depth nc node.kids sc).andThen fun nc =>
          Q.okQ (endChunk node (leafNp node.d)) nc)
      ?_ (fun g => by rw [refNode_leaf_eq _ _ _ _ _ _ _ hk])
  apply Ref.andThen (sr := fun _ => Q.okQ [leafOut node.d] nc)
    (sk := fun g nc => (refKids cfg env g depth nc node.kids sc).andThen fun nc => Q.okQ (endChunk node (leafNp node.d)) nc)
  · exact Ref.okR _ _ _
  · intro _
    apply Ref.andThen (sk := fun g nc => Q.okQ (endChunk node (leafNp node.d)) nc)
    · exact ih.kids depth _ fl node.kids sc hu.kids hs.kids hc
    · intro _; exact Ref.okR _ _ _

/-- optional child of an all-but-first element -/
def optExec (cfg : Cfg) (env : Env Sc) (f depth : Nat) (sc : Sc) (o : Option Node) (nc : NC) (fl : Fl) : R :=
  match o with | some k => exec cfg env f depth nc fl k sc | none => R.okR [] nc fl
def optRef (cfg : Cfg) (env : Env Sc) (f depth : Nat) (sc : Sc) (o : Option Node) (nc : NC) : Q :=
  match o with | some k => refNode cfg env f depth nc k sc | none => Q.okQ [] nc

theorem execChild_abf_eq (cfg : Cfg) (env : Env Sc) (f depth : Nat) (nc : NC) (fl : Fl) (node : Node) (sc : Sc) :
    execChild cfg env (f+1) depth nc fl node .abf sc =
      (optExec cfg env f depth sc (abfParts node.kids).1 nc fl).andThen fun nc fl =>
        (optExec cfg env f depth sc (abfParts node.kids).2.1 nc fl).andThen fun nc fl =>
          optExec cfg env f depth sc (abfParts node.kids).2.2 nc fl := by
  rw [execChild.eq_5]; rfl

theorem refChild_abf_eq (cfg : Cfg) (env : Env Sc) (f depth : Nat) (nc : NC) (node : Node) (sc : Sc) :
    refChild cfg env (f+1) depth nc node .abf sc =
      (optRef cfg env f depth sc (abfParts node.kids).1 nc).andThen fun nc =>
        (optRef cfg env f depth sc (abfParts node.kids).2.1 nc).andThen fun nc =>
          optRef cfg env f depth sc (abfParts node.kids).2.2 nc := by
  rw [refChild]; rfl

theorem mem_of_getLast? {α} {l : List α} {a : α} (h : l.getLast? = some a) : a ∈ l := List.mem_of_getLast? h

theorem abf_mem (kids : List Node) :
    (∀ k, (abfParts kids).1 = some k → k ∈ kids) ∧ (∀ k, (abfParts kids).2.1 = some k → k ∈ kids) ∧
    (∀ k, (abfParts kids).2.2 = some k → k ∈ kids) := by
  unfold abfParts
  refine ⟨?_, ?_, ?_⟩
  · intro k hk
    simp only at hk
    split at hk
    · cases hh : kids.head? with
      | none => simp [hh] at hk
      | some x =>
        simp only [hh] at hk
        split at hk
        · cases hk; exact List.mem_of_mem_head? hh
        · cases hk
    · cases hk
  · intro k hk
    simp only at hk
    exact List.mem_of_getElem? hk
  · intro k hk
    simp only at hk
    cases hh : kids.getLast? with
    | none => simp [hh] at hk
    | some x =>
      simp only [hh] at hk
      split at hk
      · cases hk; exact List.mem_of_getLast? hh
      · cases hk

theorem optExec_ref {cfg : Cfg} {env : Env Sc} {f : Nat} (ih : RefAt cfg env f) (depth : Nat) (nc : NC) (fl : Fl)
    (node : Node) (sc : Sc) (hu : Uniq node) (hs : Sorted cfg node) (hc : ClearOn fl (idsL node.kids))
    (o : Option Node) (ho : ∀ k, o = some k → k ∈ node.kids) :
    Ref (optExec cfg env f depth sc o nc fl) fl (fun g => optRef cfg env g depth sc o nc) := by
  cases o with
  | none => exact Ref.okR _ _ _
  | some k =>
    have hk := ho k rfl
    exact exec_clear ih depth nc fl k sc (uniqL_mem hu.kids hk) (sortedL_mem hs.kids hk)
      (clearOn_mono hc (ids_sub_idsL hk))

theorem refines_child {cfg : Cfg} {env : Env Sc} {f : Nat} (ih : RefAt cfg env f) (depth : Nat) (nc : NC) (fl : Fl)
    (node : Node) (mode : ChildMode) (sc : Sc) (hu : Uniq node) (hs : Sorted cfg node)
    (hc : ClearOn fl (idsL node.kids)) :
    Ref (execChild cfg env (f+1) depth nc fl node mode sc) fl (fun g => refChild cfg env g depth nc node mode sc) := by
  cases mode with
  | unset =>
    rw [execChild.eq_2]
    exact (ih.kids depth nc fl node.kids sc hu.kids hs.kids hc).succ (fun g => by rw [refChild])
  | nop =>
    rw [execChild.eq_3]
    exact (Ref.okR [] nc fl).succ (fun g => by rw [refChild])
  | textLike a isText =>
    rw [execChild.eq_4]
    rcases he : env.evalStr a sc with ⟨(c | v), lg⟩
    · simp only [he]
      refine Ref.succ (s := fun _ => ({ st := .err c, log := lg, nc := nc } : Q)) (fun _ => ⟨Ev.const _, rfl⟩)
        (fun g => by rw [refChild]; simp only [he])
    · simp only [he]
      refine Ref.succ (s := fun _ => ({ st := .ok, out := [if isText then escapeHtml v else v], log := lg, nc := nc } : Q))
        (fun _ => ⟨Ev.const _, rfl⟩) (fun g => by rw [refChild]; simp only [he])
  | abf =>
    rw [execChild_abf_eq]
    obtain ⟨m1, m2, m3⟩ := abf_mem node.kids
    refine Ref.succ (s := fun g => (optRef cfg env g depth sc (abfParts node.kids).1 nc).andThen fun nc =>
        (optRef cfg env g depth sc (abfParts node.kids).2.1 nc).andThen fun nc =>
          optRef cfg env g depth sc (abfParts node.kids).2.2 nc) ?_ (fun g => by rw [refChild_abf_eq])
    apply Ref.andThen (sr := fun g => optRef cfg env g depth sc (abfParts node.kids).1 nc)
      (sk := fun g nc => (optRef cfg env g depth sc (abfParts node.kids).2.1 nc).andThen fun nc =>
          optRef cfg env g depth sc (abfParts node.kids).2.2 nc)
    · exact optExec_ref ih depth nc fl node sc hu hs hc _ m1
    · intro _
      apply Ref.andThen (sr := fun g => optRef cfg env g depth sc (abfParts node.kids).2.1 _)
        (sk := fun g nc => optRef cfg env g depth sc (abfParts node.kids).2.2 nc)
      · exact optExec_ref ih depth _ fl node sc hu hs hc _ m2
      · intro _; exact optExec_ref ih depth _ fl node sc hu hs hc _ m3

theorem exec_body {cfg : Cfg} {env : Env Sc} {f : Nat} (ih : RefAt cfg env f) (depth : Nat) (nc : NC) (fl : Fl)
    (node : Node) (sc : Sc) (hk : node.d.kind = .tag) (hu : Uniq node) (hs : Sorted cfg node)
    (hc : ClearOn fl (idsL node.kids)) (hm : ModeOK cfg fl node) (h2 : fl node.d.id &&& 2 ≠ 0) :
    Ref (exec cfg env f depth nc fl node sc) fl (fun g => refBody cfg env g depth nc node sc) := by
  have := ih.exec depth nc fl node sc hu hs hc hm
  have e : specOf cfg env depth fl nc node sc = fun g => refBody cfg env g depth nc node sc := by
    funext g; simp [specOf, hk, h2]
  rwa [e] at this

theorem refines_items {cfg : Cfg} {env : Env Sc} {f : Nat} (ih : RefAt cfg env f) (depth : Nat) (nc : NC) (fl : Fl)
    (node : Node) (its : List Sc) (first : Bool) (hk : node.d.kind = .tag) (hu : Uniq node) (hs : Sorted cfg node)
    (hc : ClearOn fl (idsL node.kids)) (hm : ModeOK cfg fl node) (h2 : fl node.d.id &&& 2 ≠ 0) :
    Ref (execItems cfg env (f+1) depth nc fl node its first) fl (fun g => refItems cfg env g depth nc node its first) := by
  cases its with
  | nil =>
    rw [execItems.eq_2]
    exact (Ref.okR [] nc fl).succ (fun g => by rw [refItems.eq_2])
  | cons sc rest =>
    rw [execItems.eq_3]
    refine Ref.succ (s := fun g => ((Q.okQ (if first then [] else (match node.d.nextBlank with | some b => [b] | none => [])) nc).andThen
        fun nc => refBody cfg env g depth nc node sc).andThen fun nc => refItems cfg env g depth nc node rest false)
      ?_ (fun g => by rw [refItems.eq_3]; rfl)
    apply Ref.andThen (sk := fun g nc => refItems cfg env g depth nc node rest false)
    · apply Ref.andThen (sr := fun _ => Q.okQ _ nc) (sk := fun g nc => refBody cfg env g depth nc node sc)
      · exact Ref.okR _ _ _
      · intro _
        exact exec_body ih depth _ fl node sc hk hu hs hc hm h2
    · intro _
      exact ih.items depth _ fl node rest false hk hu hs hc hm h2

theorem refines_frag {cfg : Cfg} {env : Env Sc} {f : Nat} (ih : RefAt cfg env f) (depth : Nat) (nc : NC) (fl : Fl)
    (t : Node) (sc : Sc) (hu : Uniq t) (hs : Sorted cfg t) :
    Ref (execFrag cfg env (f+1) depth nc fl t sc) fl (fun g => refFrag cfg env g depth nc t sc) := by
  rw [execFrag.eq_2]
  by_cases hd : depth + 1 > cfg.maxDepth
  · simp only [hd, if_true]
    exact Ref.succ (s := fun _ => ({ st := .err .tooDeep, nc := nc } : Q)) (fun _ => ⟨Ev.const _, rfl⟩)
      (fun g => by rw [refFrag.eq_2]; simp only [hd, if_true])
  · simp only [hd, if_false]
    intro hne
    refine ⟨?_, rfl⟩
    have hne' : (exec cfg env f (depth + 1) emptyNc emptyFl t sc).st ≠ .fuel := by
      intro h'; apply hne; simp only [R.buffered_st, h']
    obtain ⟨hev, _⟩ := exec_clear ih (depth+1) emptyNc emptyFl t sc hu hs (clearOn_empty _) hne'
    refine Ev.succ (s := fun g => ({ (refNode cfg env g (depth+1) emptyNc t sc).buffered with nc := nc } : Q)) ?_
      (fun g => by rw [refFrag.eq_2]; simp only [hd, if_false])
    have := hev.map (fun q : Q => ({ q.buffered with nc := nc } : Q))
    generalize exec cfg env f (depth + 1) emptyNc emptyFl t sc = r at *
    have e : R.toQ { st := r.buffered.st, out := r.buffered.out, log := r.buffered.log, nc := nc, fl := fl }
        = { r.toQ.buffered with nc := nc } := by
      rw [← R.buffered_toQ]; rfl
    rw [e]; exact this

/-! ## the attribute loop on a pass where no directive is left (body mode) -/

theorem skip_eq {cfg : Cfg} (env : Env Sc) (f depth : Nat) (nc : NC) (fl : Fl) (node : Node) (a : CAttr)
    (rest : List CAttr) (ps : PS Sc) (hc : rank cfg a ≤ 2) (hsk : Skips cfg (fl node.d.id) a) :
    procAttrs cfg env (f+1) depth nc fl node (a :: rest) ps = procAttrs cfg env f depth nc fl node rest ps := by
  obtain ⟨h0, h1, h2⟩ := hsk
  have : rank cfg a = 0 ∨ rank cfg a = 1 ∨ rank cfg a = 2 := by omega
  rcases this with h | h | h
  · exact procAttrs_with_skip _ _ _ _ _ _ _ _ _ _ (rank_zero.mp h) (h0 h)
  · obtain ⟨b, hb⟩ := rank_one.mp h
    exact procAttrs_cond_skip _ _ _ _ _ _ _ _ _ _ hb (h1 h)
  · exact procAttrs_range_skip _ _ _ _ _ _ _ _ _ _ (rank_two.mp h) (h2 h)

theorem frag_step {cfg : Cfg} {env : Env Sc} {f : Nat} (htpl : TplOK cfg env) (ih : RefAt cfg env f)
    (depth : Nat) (nc : NC) (fl : Fl) (d : NodeD) (a : CAttr) (k : AK) (ps : PS Sc)
    (hB : (bodyStep cfg env (fun t sc => execFrag cfg env f depth nc fl t sc) d a k ps nc fl).st ≠ .fuel) :
    ∃ g1, ∀ g, g1 ≤ g →
      bodyStep cfg env (fun t sc => (refFrag cfg env g depth nc t sc).toR emptyFl) d a k ps nc emptyFl =
      { bodyStep cfg env (fun t sc => execFrag cfg env f depth nc fl t sc) d a k ps nc fl with fl := emptyFl } := by
  rcases he : env.evalStr a ps.data with ⟨(c | name), lg⟩
  · refine ⟨0, fun g _ => bodyStep_congr cfg env _ _ d a k ps nc fl emptyFl ?_ hB⟩
    intro name' lg' t' he'; rw [he] at he'; cases he'
  · cases ht : env.tpl name with
    | none =>
      refine ⟨0, fun g _ => bodyStep_congr cfg env _ _ d a k ps nc fl emptyFl ?_ hB⟩
      intro name' lg' t' he' ht'; rw [he] at he'; cases he'; rw [ht] at ht'; cases ht'
    | some t =>
      by_cases hst : (execFrag cfg env f depth nc fl t ps.data).st = .fuel
      · refine ⟨0, fun g _ => bodyStep_congr cfg env _ _ d a k ps nc fl emptyFl ?_ hB⟩
        intro name' lg' t' he' ht' hne'; rw [he] at he'; cases he'; rw [ht] at ht'; cases ht'
        exact absurd hst hne'
      · obtain ⟨⟨g1, hg1⟩, _⟩ := ih.frag depth nc fl t ps.data (htpl name t ht).1 (htpl name t ht).2 hst
        refine ⟨g1, fun g hg => bodyStep_congr cfg env _ _ d a k ps nc fl emptyFl ?_ hB⟩
        intro name' lg' t' he' ht' _; rw [he] at he'; cases he'; rw [ht] at ht'; cases ht'
        have := hg1 g hg
        simp only at this
        rw [this]
        exact ⟨rfl, rfl, rfl⟩

theorem refines_attrs {cfg : Cfg} {env : Env Sc} {f : Nat} (htpl : TplOK cfg env) (ih : RefAt cfg env f)
    (depth : Nat) (nc : NC) (fl : Fl) (node : Node) (as : List CAttr) (ps : PS Sc)
    (hsk : ∀ a ∈ as, Skips cfg (fl node.d.id) a)
    (hne : (procAttrs cfg env (f+1) depth nc fl node as ps).st ≠ .fuel) :
    Ev (fun g => refAttrs cfg env g depth nc node.d as ps)
       { procAttrs cfg env (f+1) depth nc fl node as ps with fl := emptyFl } ∧
    (procAttrs cfg env (f+1) depth nc fl node as ps).fl = fl := by
  cases as with
  | nil =>
    rw [procAttrs.eq_2]
    exact ⟨Ev.succ (s := fun _ => _) (Ev.const _) (fun g => by rw [refAttrs.eq_2]), rfl⟩
  | cons a rest =>
    have hsk' : ∀ b ∈ rest, Skips cfg (fl node.d.id) b := fun b hb => hsk b (List.mem_cons_of_mem _ hb)
    by_cases hc : isCtl cfg a = true
    · have e := skip_eq env f depth nc fl node a rest ps (isCtl_iff.mp hc) (hsk a (List.mem_cons_self ..))
      rw [e] at hne ⊢
      obtain ⟨hev, hfl⟩ := ih.attrs depth nc fl node rest ps hsk' hne
      exact ⟨hev.succ (fun g => refAttrs_skip _ _ _ _ _ _ _ _ _ hc), hfl⟩
    · have hc' : isCtl cfg a = false := by simpa using hc
      rw [procAttrs_body _ _ _ _ _ _ _ _ _ _ hc'] at hne ⊢
      have hB := PR.andThen_st_left hne
      obtain ⟨g1, hg1⟩ := frag_step htpl ih depth nc fl node.d a (classify cfg a) ps hB
      have hnc := bodyStep_nc cfg env (fun t sc => execFrag cfg env f depth nc fl t sc) node.d a (classify cfg a) ps nc fl
      have hfl := bodyStep_fl cfg env (fun t sc => execFrag cfg env f depth nc fl t sc) node.d a (classify cfg a) ps nc fl
      generalize bodyStep cfg env (fun t sc => execFrag cfg env f depth nc fl t sc) node.d a (classify cfg a) ps nc fl = B at *
      obtain ⟨bst, bps, blog, bnc, bfl⟩ := B
      simp only at hnc hfl hB
      subst hnc hfl
      cases bst with
      | fuel => exact absurd rfl hB
      | err c =>
        refine ⟨⟨g1 + 1, fun g hg => ?_⟩, rfl⟩
        obtain ⟨g', rfl⟩ : ∃ g', g = g' + 1 := ⟨g - 1, by omega⟩
        show refAttrs cfg env (g'+1) depth bnc node.d (a :: rest) ps = _
        rw [refAttrs_body _ _ _ _ _ _ _ _ _ hc', hg1 g' (by omega)]
        rfl
      | ok =>
        have hne2 := PR.andThen_st_right hne rfl
        simp only at hne2
        obtain ⟨⟨g2, hg2⟩, hfl2⟩ := ih.attrs depth bnc bfl node rest bps hsk' hne2
        refine ⟨⟨max g1 g2 + 1, fun g hg => ?_⟩, ?_⟩
        · obtain ⟨g', rfl⟩ : ∃ g', g = g' + 1 := ⟨g - 1, by omega⟩
          show refAttrs cfg env (g'+1) depth bnc node.d (a :: rest) ps = _
          rw [refAttrs_body _ _ _ _ _ _ _ _ _ hc', hg1 g' (by omega)]
          have := hg2 g' (by omega)
          simp only at this
          simp only [PR.andThen, this]
        · simp only [PR.andThen]; exact hfl2

/-! ## after the attribute loop -/

/-- result of a visit that is hidden by a directive: only the buffered text is written -/
def hid (pr : PR Sc) : R :=
  match pr.st with
  | .ok => { st := .ok, out := [pr.ps.tokenBuf], log := pr.log, nc := pr.nc, fl := pr.fl }
  | st => { st := st, log := pr.log, nc := pr.nc, fl := pr.fl }

theorem hid_fl (pr : PR Sc) : (hid pr).fl = pr.fl := by unfold hid; cases pr.st <;> rfl
theorem hid_st (pr : PR Sc) : (hid pr).st = pr.st := by unfold hid; cases pr.st <;> rfl

theorem execTail_st_fuel (cfg : Cfg) (env : Env Sc) (F depth : Nat) (node : Node) (pr : PR Sc) (h : pr.st = .fuel) :
    (execTail cfg env F depth node pr).st = .fuel := by
  unfold execTail; simp [h]

theorem endChunk_hidden (node : Node) : endChunk node true = [] := by
  unfold endChunk; cases node.endVal <;> rfl

theorem execTail_hidden (cfg : Cfg) (env : Env Sc) (F depth : Nat) (node : Node) (pr : PR Sc)
    (h1 : pr.ps.noPrint = true) (h2 : pr.ps.child = .nop)
    (hne : (execTail cfg env F depth node pr).st ≠ .fuel) : execTail cfg env F depth node pr = hid pr := by
  unfold execTail hid at *
  cases hs : pr.st with
  | ok =>
    simp only [hs] at hne ⊢
    have hft : finishTag pr.ps = pr.ps := by simp [finishTag, h1]
    rw [hft] at hne ⊢
    rw [h2, h1, endChunk_hidden] at hne ⊢
    cases F with
    | zero => exact absurd (by simp [R.andThen, execChild.eq_1, R.noFuel]) hne
    | succ F => simp [R.andThen, R.okR, execChild.eq_3]
  | err c => rfl
  | fuel => rfl

theorem R.andThen_log_prefix (r : R) (k : NC → Fl → R) (lg : List String) :
    ({ r with log := lg ++ r.log } : R).andThen k = { r.andThen k with log := lg ++ (r.andThen k).log } := by
  unfold R.andThen
  cases hs : r.st <;> simp [hs, List.append_assoc]

theorem execTail_log (cfg : Cfg) (env : Env Sc) (F depth : Nat) (node : Node) (pr : PR Sc) (lg : List String) :
    execTail cfg env F depth node { pr with log := lg ++ pr.log } =
      { execTail cfg env F depth node pr with log := lg ++ (execTail cfg env F depth node pr).log } := by
  unfold execTail
  cases hs : pr.st with
  | ok =>
    simp only [hs]
    rw [← R.andThen_log_prefix, ← R.andThen_log_prefix]
  | err c => rfl
  | fuel => rfl

theorem tail_ref {cfg : Cfg} {env : Env Sc} {F : Nat} (ih : RefAt cfg env F) (depth : Nat) (fl : Fl) (node : Node)
    (pr : PR Sc) (hfl : pr.fl = fl) (hu : Uniq node) (hs : Sorted cfg node) (hc : ClearOn fl (idsL node.kids)) :
    Ref (execTail cfg env F depth node pr) fl (fun g => refTail cfg env g depth node { pr with fl := emptyFl }) := by
  unfold execTail refTail
  cases hst : pr.st with
  | ok =>
    simp only [hst]
    apply Ref.andThen (sk := fun g nc => Q.okQ (endChunk node (finishTag pr.ps).noPrint) nc)
    · apply Ref.andThen (sr := fun _ => ({ st := .ok, out := [(finishTag pr.ps).tokenBuf], log := pr.log, nc := pr.nc } : Q))
        (sk := fun g nc => refChild cfg env g depth nc node (finishTag pr.ps).child (finishTag pr.ps).data)
      · intro _; exact ⟨Ev.const _, hfl⟩
      · intro _; exact ih.child depth _ fl node _ _ hu hs hc
    · intro _; exact Ref.okR _ _ _
  | err c => intro _; exact ⟨Ev.const _, hfl⟩
  | fuel => intro h; exact absurd rfl h

theorem body_ref {cfg : Cfg} {env : Env Sc} {F : Nat} (ih : RefAt cfg env F) (depth : Nat) (nc : NC) (fl : Fl)
    (node : Node) (sc : Sc) (pr : PR Sc)
    (hA : Ev (fun g => refAttrs cfg env g depth nc node.d node.d.attrs (ps0 cfg node.d 3 sc)) { pr with fl := emptyFl })
    (hfl : pr.fl = fl) (hu : Uniq node) (hs : Sorted cfg node) (hc : ClearOn fl (idsL node.kids)) :
    Ref (execTail cfg env F depth node pr) fl (fun g => refBody cfg env g depth nc node sc) := by
  intro hne
  obtain ⟨hev, hk⟩ := tail_ref ih depth fl node pr hfl hu hs hc hne
  refine ⟨?_, hk⟩
  obtain ⟨g, hg⟩ := Ev.both hA hev
  refine ⟨g + 1, fun g' hg' => ?_⟩
  obtain ⟨g'', rfl⟩ : ∃ g'', g' = g'' + 1 := ⟨g' - 1, by omega⟩
  obtain ⟨e1, e2⟩ := hg g'' (by omega)
  show refBody cfg env (g''+1) depth nc node sc = _
  rw [refBody_eq]
  rw [e1, e2]

/-! ## the directives against abstract callees -/

theorem flag_clear1 (fl : Fl) (i : Nat) (h0 : fl i = 0) :
    setFl (setFl fl i 1) i ((setFl fl i 1) i &&& 2) = fl := by
  rw [setFl_same]; exact setFl_setFl_self fl i 0 1 h0

theorem evalCond_phase (env : Env Sc) (reexec : NC → Fl → Sc → R) (rb : Nat → NC → Q) (d : NodeD) (a : CAttr)
    (ps : PS Sc) (nc : NC) (fl : Fl) (h0 : fl d.id = 0) (htb : ps.tokenBuf = "")
    (hRe : ∀ nc', Ref (reexec nc' (setFl fl d.id 1) ps.data) (setFl fl d.id 1) (fun g => rb g nc'))
    (hne : (hid { evalCondStep env reexec d a ps nc (setFl fl d.id 1) with
                  fl := setFl (evalCondStep env reexec d a ps nc (setFl fl d.id 1)).fl d.id
                          ((evalCondStep env reexec d a ps nc (setFl fl d.id 1)).fl d.id &&& 2) }).st ≠ .fuel) :
    Ev (fun g => refEvalCond env (rb g) d a nc ps.data)
      (hid { evalCondStep env reexec d a ps nc (setFl fl d.id 1) with
                  fl := setFl (evalCondStep env reexec d a ps nc (setFl fl d.id 1)).fl d.id
                          ((evalCondStep env reexec d a ps nc (setFl fl d.id 1)).fl d.id &&& 2) }).toQ ∧
    setFl (evalCondStep env reexec d a ps nc (setFl fl d.id 1)).fl d.id
                          ((evalCondStep env reexec d a ps nc (setFl fl d.id 1)).fl d.id &&& 2) = fl := by
  unfold evalCondStep refEvalCond at *
  rcases he : env.evalStr a ps.data with ⟨(c | v), lg⟩
  · simp only [he] at hne ⊢
    exact ⟨Ev.const _, flag_clear1 fl d.id h0⟩
  · simp only [he] at hne ⊢
    by_cases hv : (v == "true") = true
    · simp only [hv, if_true] at hne ⊢
      have hst : (reexec (setNc nc d.id true) (setFl fl d.id 1) ps.data).st ≠ .fuel := by
        intro h'; apply hne; rw [hid_st]; simp only [R.buffered_st, h']
      obtain ⟨hev, hfl⟩ := hRe (setNc nc d.id true) hst
      generalize reexec (setNc nc d.id true) (setFl fl d.id 1) ps.data = r0 at *
      obtain ⟨st0, out0, log0, nc0, fl0⟩ := r0
      simp only at hfl hst
      subst hfl
      refine ⟨?_, ?_⟩
      · have := hev.map (fun q : Q => ({ q.buffered with log := lg ++ q.buffered.log } : Q))
        refine cast ?_ this
        congr 1
        cases st0 with
        | ok => simp [hid, R.buffered, Q.buffered, R.toQ, R.text, htb, String.join_single]
        | err c => simp [hid, R.buffered, Q.buffered, R.toQ]
        | fuel => exact absurd rfl hst
      · simp only [R.buffered_fl]
        exact flag_clear1 fl d.id h0
    · simp only [hv] at hne ⊢
      refine ⟨?_, flag_clear1 fl d.id h0⟩
      simp only [hid, R.toQ, htb]
      exact Ev.const _

theorem cond_phase (env : Env Sc) (reexec : NC → Fl → Sc → R) (rb : Nat → NC → Q) (d : NodeD) (a : CAttr) (isIf : Bool)
    (ps : PS Sc) (nc : NC) (fl : Fl) (h0 : fl d.id = 0) (htb : ps.tokenBuf = "")
    (hRe : ∀ nc', Ref (reexec nc' (setFl fl d.id 1) ps.data) (setFl fl d.id 1) (fun g => rb g nc'))
    (hne : (hid (condStep env reexec d a isIf ps nc fl)).st ≠ .fuel) :
    Ev (fun g => refCondA env (rb g) d a isIf nc ps.data) (hid (condStep env reexec d a isIf ps nc fl)).toQ ∧
    (condStep env reexec d a isIf ps nc fl).fl = fl := by
  have h1 : fl d.id ||| 1 = 1 := by rw [h0]; rfl
  unfold condStep refCondA at *
  cases hv : a.value with
  | none => exact ⟨Ev.const _, rfl⟩
  | some val =>
    simp only [hv, h1] at hne ⊢
    cases isIf with
    | true =>
      simp only [if_true] at hne ⊢
      exact evalCond_phase env reexec rb d a ps nc fl h0 htb hRe hne
    | false =>
      simp only [Bool.false_eq_true, if_false] at hne ⊢
      cases hp : d.prevTag.bind nc with
      | none =>
        simp only [hp] at hne ⊢
        exact ⟨Ev.const _, flag_clear1 fl d.id h0⟩
      | some b =>
        cases b with
        | true =>
          simp only [hp] at hne ⊢
          refine ⟨?_, flag_clear1 fl d.id h0⟩
          simp only [hid, R.toQ, htb]
          exact Ev.const _
        | false =>
          simp only [hp] at hne ⊢
          exact evalCond_phase env reexec rb d a ps nc fl h0 htb hRe hne

/-- `refRange` against an abstract item loop -/
def refRangeA (env : Env Sc) (ri : List Sc → Q) (ra : CAttr) (nc : NC) (sc : Sc) : Q :=
  match ra.value with
  | none => { st := .err .attrValueExpected, nc := nc }
  | some _ =>
    match env.rangeItems ra sc with
    | (.error c, lg) => { st := .err c, log := lg, nc := nc }
    | (.ok items, lg) =>
      let r := (ri items).buffered
      { r with log := lg ++ r.log }

theorem refRange_eq (cfg : Cfg) (env : Env Sc) (f depth : Nat) (nc : NC) (node : Node) (ra : CAttr) (sc : Sc) :
    refRange cfg env (f+1) depth nc node ra sc =
      refRangeA env (fun its => refItems cfg env f depth nc node its true) ra nc sc := by
  rw [refRange.eq_2]; rfl

theorem flag_clear2 (fl : Fl) (i : Nat) (h : fl i = 0 ∨ fl i = 1) :
    setFl (setFl fl i (fl i ||| 2)) i ((setFl fl i (fl i ||| 2)) i &&& 1) = fl := by
  rw [setFl_same]
  apply setFl_setFl_self
  rcases h with h | h <;> rw [h] <;> rfl

theorem range_phase (env : Env Sc) (items : NC → Fl → List Sc → R) (ri : Nat → List Sc → Q) (d : NodeD) (a : CAttr)
    (ps : PS Sc) (nc : NC) (fl : Fl) (h01 : fl d.id = 0 ∨ fl d.id = 1) (htb : ps.tokenBuf = "")
    (hI : ∀ its, Ref (items nc (setFl fl d.id (fl d.id ||| 2)) its) (setFl fl d.id (fl d.id ||| 2)) (fun g => ri g its))
    (hne : (hid (rangeStep env items d a ps nc fl)).st ≠ .fuel) :
    Ev (fun g => refRangeA env (ri g) a nc ps.data) (hid (rangeStep env items d a ps nc fl)).toQ ∧
    (rangeStep env items d a ps nc fl).fl = fl := by
  unfold rangeStep refRangeA at *
  cases hv : a.value with
  | none => exact ⟨Ev.const _, rfl⟩
  | some val =>
    simp only [hv] at hne ⊢
    rcases hi : env.rangeItems a ps.data with ⟨(c | its), lg⟩
    · simp only [hi] at hne ⊢
      exact ⟨Ev.const _, flag_clear2 fl d.id h01⟩
    · simp only [hi] at hne ⊢
      have hst : (items nc (setFl fl d.id (fl d.id ||| 2)) its).st ≠ .fuel := by
        intro h'; apply hne; rw [hid_st]; simp only [R.buffered_st, h']
      obtain ⟨hev, hfl⟩ := hI its hst
      generalize items nc (setFl fl d.id (fl d.id ||| 2)) its = r0 at *
      obtain ⟨st0, out0, log0, nc0, fl0⟩ := r0
      simp only at hfl hst
      subst hfl
      refine ⟨?_, ?_⟩
      · have := hev.map (fun q : Q => ({ q.buffered with log := lg ++ q.buffered.log } : Q))
        refine cast ?_ this
        congr 1
        cases st0 with
        | ok => simp [hid, R.buffered, Q.buffered, R.toQ, R.text, htb, String.join_single]
        | err c => simp [hid, R.buffered, Q.buffered, R.toQ]
        | fuel => exact absurd rfl hst
      · simp only [R.buffered_fl]
        exact flag_clear2 fl d.id h01

theorem rangeStep_ps (env : Env Sc) (items : NC → Fl → List Sc → R) (d : NodeD) (a : CAttr) (ps : PS Sc) (nc : NC) (fl : Fl) :
    (rangeStep env items d a ps nc fl).ps.noPrint = ps.noPrint ∧ (rangeStep env items d a ps nc fl).ps.child = ps.child := by
  unfold rangeStep
  cases a.value with
  | none => exact ⟨rfl, rfl⟩
  | some v =>
    simp only
    rcases env.rangeItems a ps.data with ⟨(c | its), lg⟩ <;> exact ⟨rfl, rfl⟩

theorem condStep_ps (env : Env Sc) (reexec : NC → Fl → Sc → R) (d : NodeD) (a : CAttr) (isIf : Bool) (ps : PS Sc) (nc : NC) (fl : Fl)
    (hnp : ps.noPrint = true) (hch : ps.child = .nop) :
    (condStep env reexec d a isIf ps nc fl).ps.noPrint = true ∧ (condStep env reexec d a isIf ps nc fl).ps.child = .nop := by
  have hE : ∀ fl1, (evalCondStep env reexec d a ps nc fl1).ps.noPrint = true ∧ (evalCondStep env reexec d a ps nc fl1).ps.child = .nop := by
    intro fl1
    unfold evalCondStep
    rcases env.evalStr a ps.data with ⟨(c | v), lg⟩
    · exact ⟨hnp, rfl⟩
    · simp only
      split <;> exact ⟨hnp, rfl⟩
  unfold condStep
  cases a.value with
  | none => exact ⟨hnp, hch⟩
  | some v =>
    simp only
    cases isIf with
    | true => simp only [if_true]; exact hE _
    | false =>
      simp only [Bool.false_eq_true, if_false]
      cases d.prevTag.bind nc with
      | none => exact ⟨hnp, rfl⟩
      | some b => cases b <;> first | exact hE _ | exact ⟨hnp, rfl⟩

/-! ## skipping over directive attributes whose flag is set -/

theorem skip_prefix {cfg : Cfg} (env : Env Sc) (depth : Nat) (nc : NC) (fl : Fl) (node : Node) (rest : List CAttr) (ps : PS Sc) :
    ∀ (pre : List CAttr) (F : Nat), (∀ a ∈ pre, rank cfg a ≤ 2 ∧ Skips cfg (fl node.d.id) a) →
      (procAttrs cfg env F depth nc fl node (pre ++ rest) ps).st ≠ .fuel →
      ∃ f', f' + pre.length = F ∧
        procAttrs cfg env F depth nc fl node (pre ++ rest) ps = procAttrs cfg env f' depth nc fl node rest ps := by
  intro pre
  induction pre with
  | nil => intro F _ _; exact ⟨F, rfl, rfl⟩
  | cons a pre ih =>
    intro F hp hne
    cases F with
    | zero => exact absurd (by rw [procAttrs.eq_1]) hne
    | succ F =>
      have ha := hp a (List.mem_cons_self ..)
      have e := skip_eq env F depth nc fl node a (pre ++ rest) ps ha.1 ha.2
      rw [List.cons_append, e] at hne ⊢
      obtain ⟨f', hf', he⟩ := ih F (fun b hb => hp b (List.mem_cons_of_mem _ hb)) hne
      exact ⟨f', by simp only [List.length_cons]; omega, he⟩

theorem refAttrs_skip_prefix {cfg : Cfg} (env : Env Sc) (depth : Nat) (nc : NC) (d : NodeD) (rest : List CAttr) (ps : PS Sc)
    (q : PR Sc) : ∀ (pre : List CAttr), (∀ a ∈ pre, rank cfg a ≤ 2) →
      Ev (fun g => refAttrs cfg env g depth nc d rest ps) q → Ev (fun g => refAttrs cfg env g depth nc d (pre ++ rest) ps) q := by
  intro pre
  induction pre with
  | nil => intro _ h; exact h
  | cons a pre ih =>
    intro hp h
    have := ih (fun b hb => hp b (List.mem_cons_of_mem _ hb)) h
    exact this.succ (fun g => refAttrs_skip _ _ _ _ _ _ _ _ _ (isCtl_iff.mpr (hp a (List.mem_cons_self ..))))

/-- a sorted attribute list is: with/if-family attributes, then either only ordinary attributes or a range attribute first -/
theorem split_ctl {cfg : Cfg} : ∀ (l : List CAttr) (r : Nat), orderFrom cfg r l = true →
    ∃ p s2, l = p ++ s2 ∧ (∀ a ∈ p, rank cfg a ≤ 1) ∧
      ((∀ a ∈ s2, rank cfg a = 3) ∨ (∃ a rest, s2 = a :: rest ∧ rank cfg a = 2)) := by
  intro l
  induction l with
  | nil => intro r _; exact ⟨[], [], rfl, by simp, Or.inl (by simp)⟩
  | cons x xs ih =>
    intro r h
    have ht := orderFrom_tail h
    by_cases h1 : rank cfg x ≤ 1
    · obtain ⟨p, s2, e, hp, hs2⟩ := ih _ ht
      refine ⟨x :: p, s2, by rw [e]; rfl, ?_, hs2⟩
      intro a ha
      rcases List.mem_cons.mp ha with rfl | ha
      · exact h1
      · exact hp a ha
    · by_cases h2 : rank cfg x = 2
      · exact ⟨[], x :: xs, rfl, by simp, Or.inr ⟨x, xs, rfl, h2⟩⟩
      · have h3 : rank cfg x = 3 := by have := rank_le3 cfg x; omega
        refine ⟨[], x :: xs, rfl, by simp, Or.inl ?_⟩
        intro a ha
        rcases List.mem_cons.mp ha with rfl | ha
        · exact h3
        · have hge := orderFrom_ge ht a ha
          have := rank_le3 cfg a
          rw [h3] at hge
          omega

/-! ## range-or-body phase of a visit (the range flag is not set; conditions are skipped or absent) -/

theorem ps0_data (cfg : Cfg) (d : NodeD) (flags : Nat) (sc : Sc) : (ps0 cfg d flags sc).data = sc := rfl
theorem ps0_tokenBuf (cfg : Cfg) (d : NodeD) (flags : Nat) (sc : Sc) : (ps0 cfg d flags sc).tokenBuf = "" := rfl

theorem ps0_hidden (cfg : Cfg) (d : NodeD) (flags : Nat) (sc : Sc)
    (h : (hasCond cfg d.attrs = true ∧ flags &&& 1 = 0) ∨ (hasRange cfg d.attrs = true ∧ flags &&& 2 = 0)) :
    (ps0 cfg d flags sc).noPrint = true ∧ (ps0 cfg d flags sc).child = .nop := by
  unfold ps0; rw [initOpt_hidden cfg d flags h]; exact ⟨rfl, rfl⟩

theorem rb_phase {cfg : Cfg} {env : Env Sc} {Fm : Nat} (htpl : TplOK cfg env) (ih : ∀ f', f' ≤ Fm → RefAt cfg env f')
    (F Fp : Nat) (hF : F ≤ Fm) (hFp : Fp ≤ Fm)
    (depth : Nat) (nc : NC) (fl : Fl) (node : Node) (sc : Sc) (hk : node.d.kind = .tag)
    (hu : Uniq node) (hs : Sorted cfg node) (hc : ClearOn fl (idsL node.kids))
    (hmode : (fl node.d.id = 0 ∧ hasCond cfg node.d.attrs = false) ∨ (fl node.d.id = 1 ∧ hasCond cfg node.d.attrs = true))
    (pre' sfx : List CAttr) (hattrs : node.d.attrs = pre' ++ sfx) (hpre : ∀ a ∈ pre', rank cfg a ≤ 1)
    (hord : orderFrom cfg 0 sfx = true) (hw : ∀ a ∈ sfx, rank cfg a = 0 → fl node.d.id ≠ 0) :
    Ref (execTail cfg env F depth node (procAttrs cfg env Fp depth nc fl node sfx (ps0 cfg node.d (fl node.d.id) sc))) fl
      (fun g => refRB cfg env g depth nc node sc) := by
  intro hne
  have hprne : (procAttrs cfg env Fp depth nc fl node sfx (ps0 cfg node.d (fl node.d.id) sc)).st ≠ .fuel :=
    fun h' => hne (execTail_st_fuel cfg env F depth node _ h')
  obtain ⟨p, s2, e, hp, hs2⟩ := split_ctl sfx 0 hord
  subst e
  have h2 : fl node.d.id &&& 2 = 0 := by rcases hmode with ⟨h, _⟩ | ⟨h, _⟩ <;> rw [h] <;> rfl
  have h01 : fl node.d.id = 0 ∨ fl node.d.id = 1 := by rcases hmode with ⟨h, _⟩ | ⟨h, _⟩ <;> simp [h]
  have hc1 : hasCond cfg node.d.attrs = true → fl node.d.id &&& 1 ≠ 0 := by
    rcases hmode with ⟨_, h⟩ | ⟨h, _⟩
    · intro h'; rw [h] at h'; cases h'
    · intro _; rw [h]; decide
  have hskp : ∀ a ∈ p, rank cfg a ≤ 2 ∧ Skips cfg (fl node.d.id) a := by
    intro a ha
    have hr := hp a ha
    refine ⟨by omega, ?_, ?_, ?_⟩
    · intro h0; exact hw a (List.mem_append_left _ ha) h0
    · intro h1
      apply hc1
      apply hasCond_true_of (a := a) _ h1
      rw [hattrs]; exact List.mem_append_right _ (List.mem_append_left _ ha)
    · intro h; omega
  rcases hs2 with hall | ⟨a, rest, rfl, ha2⟩
  · -- no range attribute: the body
    have hnor : ∀ a ∈ node.d.attrs, rank cfg a ≠ 2 := by
      intro a ha
      rw [hattrs] at ha
      rcases List.mem_append.mp ha with ha | ha
      · have := hpre a ha; omega
      · rcases List.mem_append.mp ha with ha | ha
        · have := hp a ha; omega
        · have := hall a ha; omega
    have hrange : rangeAttr cfg node.d.attrs = none := rangeAttr_none_of hnor
    have hsk_all : ∀ a ∈ p ++ s2, Skips cfg (fl node.d.id) a := by
      intro a ha
      rcases List.mem_append.mp ha with ha | ha
      · exact (hskp a ha).2
      · have := hall a ha
        exact ⟨fun h => by omega, fun h => by omega, fun h => by omega⟩
    obtain ⟨hev, hfl⟩ := (ih Fp hFp).attrs depth nc fl node (p ++ s2) _ hsk_all hprne
    have hev' := refAttrs_skip_prefix env depth nc node.d (p ++ s2) _ _ pre' (fun a ha => by have := hpre a ha; omega) hev
    rw [← hattrs] at hev'
    have hps : ps0 cfg node.d (fl node.d.id) sc = ps0 cfg node.d 3 sc := by
      unfold ps0
      rw [initOpt_eq3 cfg node.d (fl node.d.id) hc1 (fun h' => by rw [hasRange_false_of hnor] at h'; cases h')]
    rw [hps] at hev' hne hfl ⊢
    obtain ⟨hq, hkeep⟩ := body_ref (ih F hF) depth nc fl node sc _ hev' hfl hu hs hc hne
    exact ⟨hq.congr (fun g => by unfold refRB; rw [hrange]), hkeep⟩
  · -- the range attribute
    have hmem : a ∈ node.d.attrs := by
      rw [hattrs]; exact List.mem_append_right _ (List.mem_append_right _ (List.mem_cons_self ..))
    have hhr : hasRange cfg node.d.attrs = true := hasRange_true_of hmem ha2
    have hrange : rangeAttr cfg node.d.attrs = some a := by
      rw [hattrs, ← List.append_assoc, rangeAttr_append_of, rangeAttr_cons (rank_two.mp ha2)]
      intro b hb
      rcases List.mem_append.mp hb with hb | hb
      · have := hpre b hb; omega
      · have := hp b hb; omega
    obtain ⟨f', hf', he⟩ := skip_prefix env depth nc fl node (a :: rest) _ p Fp hskp hprne
    rw [he] at hne hprne ⊢
    cases f' with
    | zero => exact absurd (by rw [procAttrs.eq_1]) hprne
    | succ f'' =>
      rw [procAttrs_range _ _ _ _ _ _ _ _ _ _ (rank_two.mp ha2) h2] at hne ⊢
      obtain ⟨hnp, hch⟩ := ps0_hidden cfg node.d (fl node.d.id) sc (Or.inr ⟨hhr, h2⟩)
      obtain ⟨e1, e2⟩ := rangeStep_ps env (fun nc fl its => execItems cfg env f'' depth nc fl node its true) node.d a
        (ps0 cfg node.d (fl node.d.id) sc) nc fl
      have eh := execTail_hidden cfg env F depth node _ (e1.trans hnp) (e2.trans hch) hne
      rw [eh] at hne ⊢
      have hI : ∀ its, Ref (execItems cfg env f'' depth nc (setFl fl node.d.id (fl node.d.id ||| 2)) node its true)
          (setFl fl node.d.id (fl node.d.id ||| 2)) (fun g => refItems cfg env g depth nc node its true) := by
        intro its
        apply (ih f'' (by omega)).items depth nc _ node its true hk hu hs (clearOn_setFl _ hc hu.notin)
        · intro _
          rw [setFl_same]
          rcases hmode with ⟨h, hcn⟩ | ⟨h, hcn⟩
          · rw [h]; exact Or.inr (Or.inr (Or.inl ⟨rfl, hhr, hcn⟩))
          · rw [h]; exact Or.inr (Or.inr (Or.inr ⟨rfl, hhr, hcn⟩))
        · rw [setFl_same]
          rcases h01 with h | h <;> rw [h] <;> decide
      obtain ⟨hq, hkeep⟩ := range_phase env (fun nc fl its => execItems cfg env f'' depth nc fl node its true)
        (fun g its => refItems cfg env g depth nc node its true) node.d a (ps0 cfg node.d (fl node.d.id) sc) nc fl h01
        (ps0_tokenBuf ..) hI hne
      refine ⟨?_, by rw [hid_fl]; exact hkeep⟩
      refine hq.succ (fun g => ?_)
      unfold refRB
      rw [hrange]
      simp only [refRange_eq, ps0_data]

/-! ## condition phase of a fresh visit (after `with`) -/

theorem cond_rb_phase {cfg : Cfg} {env : Env Sc} {Fm : Nat} (htpl : TplOK cfg env) (ih : ∀ f', f' ≤ Fm → RefAt cfg env f')
    (F Fp : Nat) (hF : F ≤ Fm) (hFp : Fp ≤ Fm)
    (depth : Nat) (nc : NC) (fl : Fl) (node : Node) (sc1 : Sc) (hk : node.d.kind = .tag)
    (hu : Uniq node) (hs : Sorted cfg node) (hc : ClearOn fl (idsL node.kids))
    (h0 : fl node.d.id = 0)
    (pre' sfx : List CAttr) (hattrs : node.d.attrs = pre' ++ sfx) (hpre : ∀ a ∈ pre', rank cfg a = 0)
    (hord : orderFrom cfg 1 sfx = true) :
    Ref (execTail cfg env F depth node (procAttrs cfg env Fp depth nc fl node sfx (ps0 cfg node.d (fl node.d.id) sc1))) fl
      (fun g => refCondP cfg env (fun nc' => refRB cfg env g depth nc' node sc1) node.d nc sc1) := by
  by_cases hex : ∃ a rest, sfx = a :: rest ∧ rank cfg a = 1
  · obtain ⟨a, rest, rfl, h1⟩ := hex
    obtain ⟨b, hb⟩ := rank_one.mp h1
    have hmem : a ∈ node.d.attrs := by rw [hattrs]; exact List.mem_append_right _ (List.mem_cons_self ..)
    have hhc : hasCond cfg node.d.attrs = true := hasCond_true_of hmem h1
    have hcond : condAttr cfg node.d.attrs = some (a, b) := by
      rw [hattrs, condAttr_append_of (fun x hx => by have := hpre x hx; omega), condAttr_cons hb]
    intro hne
    have hprne : (procAttrs cfg env Fp depth nc fl node (a :: rest) (ps0 cfg node.d (fl node.d.id) sc1)).st ≠ .fuel :=
      fun h' => hne (execTail_st_fuel cfg env F depth node _ h')
    cases Fp with
    | zero => exact absurd (by rw [procAttrs.eq_1]) hprne
    | succ Fp' =>
      have hb1 : fl node.d.id &&& 1 = 0 := by rw [h0]; rfl
      rw [procAttrs_cond _ _ _ _ _ _ _ _ _ _ hb hb1] at hne ⊢
      obtain ⟨hnp, hch⟩ := ps0_hidden cfg node.d (fl node.d.id) sc1 (Or.inl ⟨hhc, hb1⟩)
      obtain ⟨e1, e2⟩ := condStep_ps env (fun nc fl sc => exec cfg env Fp' depth nc fl node sc) node.d a b
        (ps0 cfg node.d (fl node.d.id) sc1) nc fl hnp hch
      have eh := execTail_hidden cfg env F depth node _ e1 e2 hne
      rw [eh] at hne ⊢
      have hRe : ∀ nc', Ref (exec cfg env Fp' depth nc' (setFl fl node.d.id 1) node (ps0 cfg node.d (fl node.d.id) sc1).data)
          (setFl fl node.d.id 1) (fun g => refRB cfg env g depth nc' node sc1) := by
        intro nc'
        have := (ih Fp' (by omega)).exec depth nc' (setFl fl node.d.id 1) node sc1 hu hs
          (clearOn_setFl _ hc hu.notin) (fun _ => Or.inr (Or.inl ⟨setFl_same .., hhc⟩))
        have e : specOf cfg env depth (setFl fl node.d.id 1) nc' node sc1 = fun g => refRB cfg env g depth nc' node sc1 := by
          funext g; simp [specOf, hk, setFl_same]
        rwa [e] at this
      obtain ⟨hq, hkeep⟩ := cond_phase env (fun nc fl sc => exec cfg env Fp' depth nc fl node sc)
        (fun g nc' => refRB cfg env g depth nc' node sc1) node.d a b (ps0 cfg node.d (fl node.d.id) sc1) nc fl h0
        (ps0_tokenBuf ..) hRe hne
      refine ⟨?_, by rw [hid_fl]; exact hkeep⟩
      refine hq.congr (fun g => ?_)
      unfold refCondP
      rw [hcond]
      rfl
  · have hge : ∀ b ∈ sfx, 2 ≤ rank cfg b := no_cond_of hord (fun a rest e h1 => hex ⟨a, rest, e, h1⟩)
    have hnoc : ∀ a ∈ node.d.attrs, rank cfg a ≠ 1 := by
      intro a ha
      rw [hattrs] at ha
      rcases List.mem_append.mp ha with ha | ha
      · have := hpre a ha; omega
      · have := hge a ha; omega
    have hcond : condAttr cfg node.d.attrs = none := condAttr_none_of hnoc
    have := rb_phase htpl ih F Fp hF hFp depth nc fl node sc1 hk hu hs hc (Or.inl ⟨h0, hasCond_false_of hnoc⟩)
      pre' sfx hattrs (fun a ha => by have := hpre a ha; omega) (orderFrom_mono (by omega) hord)
      (fun a ha h => by have := hge a ha; omega)
    refine this.congr (fun g => ?_)
    unfold refCondP
    rw [hcond]

/-! ## a visit of a tag node -/

theorem body_mode {cfg : Cfg} {env : Env Sc} {F : Nat} (ih : RefAt cfg env F)
    (depth : Nat) (nc : NC) (fl : Fl) (node : Node) (sc : Sc)
    (hu : Uniq node) (hs : Sorted cfg node) (hc : ClearOn fl (idsL node.kids))
    (hsk : ∀ a ∈ node.d.attrs, Skips cfg (fl node.d.id) a)
    (hc1 : hasCond cfg node.d.attrs = true → fl node.d.id &&& 1 ≠ 0)
    (hr2 : hasRange cfg node.d.attrs = true → fl node.d.id &&& 2 ≠ 0) :
    Ref (execTail cfg env F depth node (procAttrs cfg env F depth nc fl node node.d.attrs (ps0 cfg node.d (fl node.d.id) sc))) fl
      (fun g => refBody cfg env g depth nc node sc) := by
  intro hne
  have hprne : (procAttrs cfg env F depth nc fl node node.d.attrs (ps0 cfg node.d (fl node.d.id) sc)).st ≠ .fuel :=
    fun h' => hne (execTail_st_fuel cfg env F depth node _ h')
  obtain ⟨hev, hfl⟩ := ih.attrs depth nc fl node node.d.attrs _ hsk hprne
  have hps : ps0 cfg node.d (fl node.d.id) sc = ps0 cfg node.d 3 sc := by
    unfold ps0; rw [initOpt_eq3 cfg node.d (fl node.d.id) hc1 hr2]
  rw [hps] at hev hne hfl ⊢
  exact body_ref ih depth nc fl node sc _ hev hfl hu hs hc hne

theorem refWith_none (cfg : Cfg) (env : Env Sc) (d : NodeD) (sc : Sc) (nc : NC) (k : Sc → Q)
    (h : withAttr cfg d.attrs = none) : refWith cfg env d sc nc k = k sc := by
  unfold refWith withRes; rw [h]
  show ({ k sc with log := [] ++ (k sc).log } : Q) = k sc
  simp

theorem refWith_some (cfg : Cfg) (env : Env Sc) (d : NodeD) (sc : Sc) (nc : NC) (k : Sc → Q) (a : CAttr)
    (h : withAttr cfg d.attrs = some a) :
    refWith cfg env d sc nc k =
      match env.withAssign a sc with
      | (.error c, lg) => { st := .err c, log := lg, nc := nc }
      | (.ok sc1, lg) => { k sc1 with log := lg ++ (k sc1).log } := by
  unfold refWith withRes; rw [h]; rfl

theorem refines_exec_tag {cfg : Cfg} {env : Env Sc} {F : Nat} (htpl : TplOK cfg env) (ih : ∀ f', f' ≤ F → RefAt cfg env f')
    (depth : Nat) (nc : NC) (fl : Fl) (node : Node) (sc : Sc) (hk : node.d.kind = .tag)
    (hu : Uniq node) (hs : Sorted cfg node) (hc : ClearOn fl (idsL node.kids)) (hm : ModeOK cfg fl node) :
    Ref (exec cfg env (F+1) depth nc fl node sc) fl (specOf cfg env depth fl nc node sc) := by
  rw [exec_tag_eq _ _ _ _ _ _ _ _ hk]
  rcases hm hk with h0 | ⟨h1, hcnd⟩ | ⟨h2, hr, hcnd⟩ | ⟨h3, hr, hcnd⟩
  · -- fresh visit
    rw [specOf_clear _ _ _ _ _ _ _ h0]
    refine Ref.succ (s := fun g => refWith cfg env node.d sc nc fun sc1 =>
        refCondP cfg env (fun nc' => refRB cfg env g depth nc' node sc1) node.d nc sc1) ?_
      (fun g => refNode_tag_eq _ _ _ _ _ _ _ hk)
    by_cases hex : ∃ a rest, node.d.attrs = a :: rest ∧ rank cfg a = 0
    · obtain ⟨a, rest, hattrs, ha0⟩ := hex
      have hwith : withAttr cfg node.d.attrs = some a := by rw [hattrs]; exact withAttr_cons (rank_zero.mp ha0)
      have hord : orderFrom cfg 1 rest = true := by
        have := orderFrom_tail (hattrs ▸ hs.order : orderFrom cfg 0 (a :: rest) = true)
        rwa [ha0] at this
      intro hne
      rw [hattrs] at hne ⊢
      have hprne : (procAttrs cfg env F depth nc fl node (a :: rest) (ps0 cfg node.d (fl node.d.id) sc)).st ≠ .fuel :=
        fun h' => hne (execTail_st_fuel cfg env F depth node _ h')
      cases F with
      | zero => exact absurd (by rw [procAttrs.eq_1]) hprne
      | succ F' =>
        rw [procAttrs_with _ _ _ _ _ _ _ _ _ _ (rank_zero.mp ha0) h0] at hne ⊢
        unfold withStep at hne ⊢
        simp only [ps0_data] at hne ⊢
        simp only [refWith_some cfg env node.d sc nc _ a hwith]
        rcases hwa : env.withAssign a sc with ⟨(c | sc'), lg⟩
        · simp only [hwa] at hne ⊢
          exact ⟨Ev.const _, rfl⟩
        · simp only [hwa] at hne ⊢
          have hps : ({ ps0 cfg node.d (fl node.d.id) sc with data := sc' } : PS Sc) = ps0 cfg node.d (fl node.d.id) sc' := rfl
          rw [hps] at hne ⊢
          rw [execTail_log] at hne ⊢
          have := cond_rb_phase htpl ih (F'+1) F' (Nat.le_refl _) (by omega) depth nc fl node sc' hk hu hs hc h0
            [a] rest hattrs (fun x hx => by simp at hx; rw [hx]; exact ha0) hord hne
          obtain ⟨hq, hkeep⟩ := this
          exact ⟨hq.map (fun q : Q => ({ q with log := lg ++ q.log } : Q)), hkeep⟩
    · have hn0 : ∀ a ∈ node.d.attrs, rank cfg a ≠ 0 := by
        have h1 := orderFrom_one_of hs.order (fun a rest e h => hex ⟨a, rest, e, h⟩)
        intro a ha h
        have := orderFrom_ge h1 a ha
        omega
      have hwith : withAttr cfg node.d.attrs = none := withAttr_none_of hn0
      simp only [refWith_none cfg env node.d sc nc _ hwith]
      exact cond_rb_phase htpl ih F F (Nat.le_refl _) (Nat.le_refl _) depth nc fl node sc hk hu hs hc h0
        [] node.d.attrs rfl (fun x hx => by cases hx) (orderFrom_one_of hs.order (fun a rest e h => hex ⟨a, rest, e, h⟩))
  · -- re-entered by the condition
    have e : specOf cfg env depth fl nc node sc = fun g => refRB cfg env g depth nc node sc := by
      funext g; simp [specOf, hk, h1]
    rw [e]
    exact rb_phase htpl ih F F (Nat.le_refl _) (Nat.le_refl _) depth nc fl node sc hk hu hs hc (Or.inr ⟨h1, hcnd⟩)
      [] node.d.attrs rfl (fun x hx => by cases hx) hs.order (fun a _ _ => by rw [h1]; decide)
  · -- re-entered by range (no condition attribute)
    have e : specOf cfg env depth fl nc node sc = fun g => refBody cfg env g depth nc node sc := by
      funext g; simp [specOf, hk, h2]
    rw [e]
    apply body_mode (ih F (Nat.le_refl _)) depth nc fl node sc hu hs hc
    · intro a ha
      refine ⟨fun _ => by rw [h2]; decide, fun h => ?_, fun _ => by rw [h2]; decide⟩
      exact absurd h (rank_of_hasCond_false hcnd a ha)
    · intro h; rw [hcnd] at h; cases h
    · intro _; rw [h2]; decide
  · -- re-entered by range (condition flag set as well)
    have e : specOf cfg env depth fl nc node sc = fun g => refBody cfg env g depth nc node sc := by
      funext g; simp [specOf, hk, h3]
    rw [e]
    apply body_mode (ih F (Nat.le_refl _)) depth nc fl node sc hu hs hc
    · intro a ha
      exact ⟨fun _ => by rw [h3]; decide, fun _ => by rw [h3]; decide, fun _ => by rw [h3]; decide⟩
    · intro _; rw [h3]; decide
    · intro _; rw [h3]; decide

/-! ## the induction -/

theorem refAt_succ {cfg : Cfg} {env : Env Sc} {F : Nat} (htpl : TplOK cfg env) (ih : ∀ f', f' ≤ F → RefAt cfg env f') :
    RefAt cfg env (F+1) := by
  have ihF := ih F (Nat.le_refl _)
  refine ⟨?_, ?_, ?_, ?_, ?_, ?_⟩
  · intro depth nc fl node sc hu hs hc hm
    by_cases hk : node.d.kind = .tag
    · exact refines_exec_tag htpl ih depth nc fl node sc hk hu hs hc hm
    · rw [specOf_leaf _ _ _ _ _ _ _ hk]
      exact exec_leaf_ref ihF depth nc fl node sc hk hu hs hc
  · intro depth nc fl node mode sc hu hs hc
    exact refines_child ihF depth nc fl node mode sc hu hs hc
  · intro depth nc fl ks sc hu hs hc
    exact refines_kids ihF depth nc fl ks sc hu hs hc
  · intro depth nc fl t sc hu hs
    exact refines_frag ihF depth nc fl t sc hu hs
  · intro depth nc fl node its first hk hu hs hc hm h2
    exact refines_items ihF depth nc fl node its first hk hu hs hc hm h2
  · intro depth nc fl node as ps hsk hne
    exact refines_attrs htpl ihF depth nc fl node as ps hsk hne

theorem refAt_all {cfg : Cfg} {env : Env Sc} (htpl : TplOK cfg env) : ∀ f, RefAt cfg env f := by
  intro f
  induction f using Nat.strongRecOn with
  | _ f ih =>
    cases f with
    | zero => exact refAt_zero cfg env
    | succ F => exact refAt_succ htpl (fun f' hf' => ih f' (by omega))

end RN
