import TplModel.Proofs.ScanConcat
namespace HS

/-- position reached from `p` after reading `cs` (tab = 4 columns, newline = next line, column 1) -/
def adv (p : Pos) (cs : List Char) : Pos := cs.foldl Pos.advance p

@[simp] theorem adv_nil (p : Pos) : adv p [] = p := rfl
@[simp] theorem adv_cons (p : Pos) (c : Char) (cs : List Char) : adv p (c :: cs) = adv (p.advance c) cs := rfl
@[simp] theorem adv_append (p : Pos) (a b : List Char) : adv p (a ++ b) = adv (adv p a) b := by
  simp [adv, List.foldl_append]

/-- the emitted tokens (reversed list, as in the state) abut, are position-exact, start at 1:1 and end at `e` -/
def TokOK : List Token → Pos → Prop
  | [], e => e = ⟨1, 1⟩
  | t :: ts, e => t.stop = e ∧ t.stop = adv t.start t.value ∧ TokOK ts t.start

@[simp] theorem tokOK_nil (e : Pos) : TokOK [] e = (e = ⟨1, 1⟩) := rfl
@[simp] theorem tokOK_cons (t : Token) (ts : List Token) (e : Pos) :
    TokOK (t :: ts) e = (t.stop = e ∧ t.stop = adv t.start t.value ∧ TokOK ts t.start) := rfl

/-- start position of the pending (not yet emitted) token -/
def pstart (s : S) : Pos :=
  match s.mode with
  | .init => s.pos
  | .text l => l.start
  | .tag l => l.start

/-- in a raw-text element, while a candidate close tag is being collected, `stop` is the position before it -/
def WFstop : Mode → Prop
  | .text l => l.raw.isSome → l.tagBuf ≠ [] → l.stop = adv l.start (l.buf.drop l.tagBuf.length).reverse
  | _ => True

def PPos (s : S) : Prop :=
  TokOK s.toks (pstart s) ∧ s.pos = adv (pstart s) (pending s.mode) ∧ WFstop s.mode

def PInv (s : S) : Prop := PPos s ∧ WF s.mode

macro "pos_tac" : tactic => `(tactic| (
  all_goals (try (simp only [Except.ok.injEq, reduceCtorEq] at *))
  all_goals (try subst_vars)
  all_goals (try (have hh := addAttr_ok ‹addAttr _ _ = Except.ok _›; subst hh))
  all_goals (simp_all [PPos, pstart, pending, WFstop, WFtag, finishTag, S.emit])))

theorem stepAttrName_pos (s : S) (l : TagL) (c : Char) (p p' : Pos) (s' : S)
    (hb : ∃ b, l.buf = c :: b ∧ p = adv l.start b.reverse) (hp' : p' = p.advance c)
    (htok : TokOK s.toks l.start)
    (h : stepTag.stepAttrName s l c p p' = .ok s') : PPos s' := by
  obtain ⟨b, hb1, hb2⟩ := hb
  unfold stepTag.stepAttrName at h
  simp only at h
  repeat' split at h
  pos_tac

theorem stepTag_pos (s : S) (l0 : TagL) (c : Char) (p p' : Pos) (s' : S)
    (hp : p = adv l0.start l0.buf.reverse) (hp' : p' = p.advance c)
    (htok : TokOK s.toks l0.start) (hwf : WFtag l0)
    (h : stepTag s l0 c p p' = .ok s') : PPos s' := by
  unfold stepTag at h
  simp only at h
  cases hst : l0.st <;> simp only [hst] at h
  case attrName =>
    refine stepAttrName_pos s _ c p p' s' ?_ hp' ?_ h
    · exact ⟨l0.buf, rfl, hp⟩
    · exact htok
  case space =>
    by_cases h1 : c = '>'
    · simp only [h1, if_true] at h; pos_tac
    · by_cases h2 : isSpace c = true
      · simp only [h1, h2, if_false] at h; simp at h; pos_tac
      · simp only [h1, h2, if_false] at h; simp at h
        refine stepAttrName_pos s _ c p p' s' ?_ hp' ?_ h
        · exact ⟨l0.buf, rfl, hp⟩
        · exact htok
  case tagStart =>
    clear hwf
    repeat' split at h
    pos_tac
  case tagName =>
    clear hwf
    repeat' split at h
    pos_tac
  case cdata =>
    simp only [WFtag, hst] at hwf
    repeat' split at h
    pos_tac
  case comment =>
    simp only [WFtag, hst] at hwf
    by_cases hend : "-->".toList.isSuffixOf (c :: l0.comment).reverse = true
    · have hts := take_suffix hend
      simp only [hend, if_true] at h
      repeat' split at h
      all_goals (try (simp only [Except.ok.injEq, reduceCtorEq] at h))
      all_goals (try subst h)
      all_goals (rw [show "-->".toList.length = 3 from rfl] at hts)
      all_goals (simp only [PPos, pstart, pending, WFstop, S.emit, tokOK_cons, List.append_assoc, adv_nil, and_true, true_and])
      all_goals (rw [hts]; subst hp' hp; simp [hwf, htok])
    · simp only [hend] at h
      repeat' split at h
      pos_tac
  case attrValue =>
    repeat' split at h
    pos_tac

theorem stepText_pos (s : S) (l : TextL) (c : Char) (p p' : Pos) (s' : S)
    (hp : p = adv l.start l.buf.reverse) (hp' : p' = p.advance c)
    (htok : TokOK s.toks l.start) (hwf : WFtext l) (hstop : WFstop (.text l))
    (h : stepText s l c p p' = .ok s') : PPos s' := by
  unfold stepText at h
  cases hraw : l.raw with
  | none =>
    simp only [hraw] at h
    split at h
    · refine stepTag_pos _ (newTagL p) c p p' s' ?_ hp' ?_ (newTagL_wf p) h
      · simp [newTagL]
      · simp [S.emit, newTagL, hp, htok]
    · simp only [Except.ok.injEq] at h; subst h
      simp [PPos, pstart, pending, WFstop, hp, hp', htok]
  | some tn =>
    simp only [WFtext, hraw] at hwf
    obtain ⟨rest, hrest⟩ := hwf
    simp only [WFstop, hraw, Option.isSome_some, forall_const] at hstop
    simp only [hraw] at h
    by_cases hc : c = '<'
    · subst hc
      simp only [if_true, Bool.not_true, Bool.false_eq_true, if_false] at h
      repeat' split at h
      all_goals (try (simp only [Except.ok.injEq, reduceCtorEq] at h))
      all_goals (try subst h)
      all_goals (simp_all [PPos, pstart, pending, WFstop])
    · simp only [hc, if_false] at h
      repeat' split at h
      all_goals (try (simp only [Except.ok.injEq, reduceCtorEq] at h))
      all_goals (try subst h)
      all_goals (simp_all [PPos, pstart, pending, WFstop, S.emit])

theorem step_pinv (cfg : Cfg) (s s' : S) (c : Char) (hi : PInv s) (h : step cfg s c = .ok s') : PInv s' := by
  obtain ⟨⟨htok, hpos, hstop⟩, hwf⟩ := hi
  refine ⟨?_, (step_inv cfg s s' c _ ⟨rfl, hwf⟩ h).2⟩
  unfold step at h
  cases hm : s.mode with
  | init =>
    simp only [hm] at h
    simp only [pstart, hm] at htok
    split at h
    · exact stepTag_pos s _ c _ _ s' (by simp [newTagL]) rfl (by simpa [newTagL] using htok) (newTagL_wf _) h
    · refine stepText_pos s _ c _ _ s' (by simp) rfl (by simpa using htok) ?_ (by simp [WFstop]) h
      simp only [WFtext]
      split <;> simp
  | text l =>
    simp only [hm] at h
    simp only [pstart, pending, WF, hm] at htok hpos hwf hstop
    exact stepText_pos s l c _ _ s' hpos rfl htok hwf hstop h
  | tag l =>
    simp only [hm] at h
    simp only [pstart, pending, WF, hm] at htok hpos hwf
    exact stepTag_pos s l c _ _ s' hpos rfl htok hwf h

theorem fold_pinv (cfg : Cfg) (cs : List Char) (s s' : S)
    (hi : PInv s) (h : cs.foldlM (step cfg) s = .ok s') : PInv s' := by
  induction cs generalizing s with
  | nil => simp [List.foldlM, pure, Except.pure] at h; subst h; exact hi
  | cons c cs ih =>
    simp only [List.foldlM, bind, Except.bind] at h
    cases hs : step cfg s c with
    | error e => simp [hs] at h
    | ok s1 =>
      simp only [hs] at h
      exact ih s1 (step_pinv cfg s s1 c hi hs) h

theorem pinv_init : PInv { mode := .init, pos := ⟨1, 1⟩, toks := [] } := by
  simp [PInv, PPos, pstart, pending, WFstop, WF]

/-- the reversed-list invariant at the end of a successful scan -/
theorem scan_tokOK (cfg : Cfg) (cs : List Char) (toks : List Token) (h : scan cfg cs = .ok toks) :
    ∃ e, TokOK toks.reverse e := by
  unfold scan at h
  simp only [bind, Except.bind] at h
  cases hf : cs.foldlM (step cfg) { mode := .init, pos := ⟨1,1⟩, toks := [] } with
  | error e => simp [hf] at h
  | ok s =>
    simp only [hf] at h
    obtain ⟨⟨htok, hpos, _⟩, _⟩ := fold_pinv cfg cs _ s pinv_init hf
    unfold finish at h
    cases hm : s.mode with
    | init =>
      simp only [hm, Except.ok.injEq] at h; subst h
      exact ⟨_, by simpa using htok⟩
    | text l =>
      simp only [hm, Except.ok.injEq] at h; subst h
      simp only [pstart, pending, hm] at htok hpos
      exact ⟨s.pos, by simp [S.emit, hpos, htok]⟩
    | tag l => simp [hm] at h

/-- forward version of `TokOK`: tokens from position `p` up to position `e` -/
def Chain (p : Pos) : List Token → Pos → Prop
  | [], e => p = e
  | t :: ts, e => t.start = p ∧ t.stop = adv t.start t.value ∧ Chain t.stop ts e

theorem chain_snoc (p : Pos) (ts : List Token) (t : Token) (e : Pos) :
    Chain p (ts ++ [t]) e ↔ Chain p ts t.start ∧ t.stop = adv t.start t.value ∧ t.stop = e := by
  induction ts generalizing p with
  | nil =>
    simp only [List.nil_append, Chain]
    constructor
    · rintro ⟨h1, h2, h3⟩; exact ⟨h1.symm, h2, h3⟩
    · rintro ⟨h1, h2, h3⟩; exact ⟨h1.symm, h2, h3⟩
  | cons u us ih =>
    simp only [List.cons_append, Chain, ih]
    constructor
    · rintro ⟨h1, h2, h3, h4, h5⟩; exact ⟨⟨h1, h2, h3⟩, h4, h5⟩
    · rintro ⟨⟨h1, h2, h3⟩, h4, h5⟩; exact ⟨h1, h2, h3, h4, h5⟩

theorem tokOK_chain (r : List Token) (e : Pos) (h : TokOK r e) : Chain ⟨1, 1⟩ r.reverse e := by
  induction r generalizing e with
  | nil => simp only [tokOK_nil] at h; simp [Chain, h]
  | cons t ts ih =>
    simp only [tokOK_cons] at h
    rw [List.reverse_cons, chain_snoc]
    exact ⟨ih _ h.2.2, h.2.1, h.1⟩

theorem chain_head (p e : Pos) (toks : List Token) (h : Chain p toks e) :
    ∀ t, toks.head? = some t → t.start = p := by
  cases toks with
  | nil => simp
  | cons u us => simp only [Chain] at h; simp only [List.head?_cons, Option.some.injEq]; intro t ht; subst ht; exact h.1

theorem chain_abut (p e : Pos) (toks : List Token) (h : Chain p toks e) :
    ∀ i (hi : i + 1 < toks.length), toks[i].stop = toks[i + 1].start := by
  induction toks generalizing p with
  | nil => intro i hi; simp at hi
  | cons u us ih =>
    simp only [Chain] at h
    intro i hi
    cases i with
    | zero =>
      cases us with
      | nil => simp at hi
      | cons v vs => simp only [Chain] at h; simp [h.2.2.1]
    | succ j =>
      simp only [List.length_cons] at hi
      simpa using ih _ h.2.2 j (by omega)

theorem chain_exact (p e : Pos) (toks : List Token) (h : Chain p toks e) :
    ∀ t ∈ toks, t.stop = adv t.start t.value := by
  induction toks generalizing p with
  | nil => simp
  | cons u us ih =>
    simp only [Chain] at h
    intro t ht
    simp only [List.mem_cons] at ht
    rcases ht with rfl | ht
    · exact h.2.1
    · exact ih _ h.2.2 t ht

theorem chain_start (p e : Pos) (toks : List Token) (h : Chain p toks e) :
    ∀ i (hi : i < toks.length), toks[i].start = adv p ((toks.take i).map (·.value)).flatten := by
  induction toks generalizing p with
  | nil => intro i hi; simp at hi
  | cons u us ih =>
    simp only [Chain] at h
    intro i hi
    cases i with
    | zero => simp [h.1]
    | succ j =>
      simp only [List.length_cons] at hi
      have := ih _ h.2.2 j (by omega)
      simp only [List.getElem_cons_succ, List.take_succ_cons, List.map_cons, List.flatten_cons, adv_append]
      rw [this, h.2.1, h.1]

theorem chain_end (p e : Pos) (toks : List Token) (h : Chain p toks e) :
    e = adv p (toks.map (·.value)).flatten := by
  induction toks generalizing p with
  | nil => simp only [Chain] at h; simp [h]
  | cons u us ih =>
    simp only [Chain] at h
    simp only [List.map_cons, List.flatten_cons, adv_append]
    rw [ih _ h.2.2, h.2.1, h.1]

theorem scan_chain (cfg : Cfg) (cs : List Char) (toks : List Token) (h : scan cfg cs = .ok toks) :
    ∃ e, Chain ⟨1, 1⟩ toks e := by
  obtain ⟨e, he⟩ := scan_tokOK cfg cs toks h
  exact ⟨e, by simpa using tokOK_chain _ _ he⟩

/-- C17 (a): the first token starts at 1:1 and every token ends where the next one starts. -/
theorem tokens_abut (cfg : Cfg) (cs : List Char) (toks : List Token) (h : scan cfg cs = .ok toks) :
    (∀ t, toks.head? = some t → t.start = ⟨1, 1⟩) ∧
    (∀ i (hi : i + 1 < toks.length), toks[i].stop = toks[i + 1].start) := by
  obtain ⟨e, he⟩ := scan_chain cfg cs toks h
  exact ⟨chain_head _ _ _ he, chain_abut _ _ _ he⟩

/-- C17 (b): every token ends at the position reached from its start by advancing over its value
    (tab = 4 columns, newline = next line / column 1). -/
theorem positions_exact (cfg : Cfg) (cs : List Char) (toks : List Token) (h : scan cfg cs = .ok toks) :
    ∀ t ∈ toks, t.stop = t.value.foldl Pos.advance t.start := by
  obtain ⟨e, he⟩ := scan_chain cfg cs toks h
  exact chain_exact _ _ _ he

/-- C17, absolute form: the source splits as (values before token i) ++ (values from token i on), and token i
    starts at the position reached from 1:1 by advancing over the source prefix before it. -/
theorem token_start_exact (cfg : Cfg) (cs : List Char) (toks : List Token) (h : scan cfg cs = .ok toks) :
    ∀ i (hi : i < toks.length),
      cs = ((toks.take i).map (·.value)).flatten ++ ((toks.drop i).map (·.value)).flatten ∧
      toks[i].start = (((toks.take i).map (·.value)).flatten).foldl Pos.advance ⟨1, 1⟩ := by
  obtain ⟨e, he⟩ := scan_chain cfg cs toks h
  intro i hi
  refine ⟨?_, chain_start _ _ _ he i hi⟩
  rw [← List.flatten_append, ← List.map_append, List.take_append_drop]
  exact (scan_concat cfg cs toks h).symm

/-- the last token ends at the position of the end of the source -/
theorem last_token_stop (cfg : Cfg) (cs : List Char) (toks : List Token) (h : scan cfg cs = .ok toks) :
    ∀ t, toks.getLast? = some t → t.stop = cs.foldl Pos.advance ⟨1, 1⟩ := by
  obtain ⟨e, he⟩ := scan_tokOK cfg cs toks h
  have hend := chain_end _ _ _ (by simpa using tokOK_chain _ _ he)
  rw [scan_concat cfg cs toks h] at hend
  intro t ht
  rw [List.getLast?_eq_head?_reverse] at ht
  cases hr : toks.reverse with
  | nil => simp [hr] at ht
  | cons u us =>
    simp only [hr, List.head?_cons, Option.some.injEq] at ht; subst ht
    simp only [hr, tokOK_cons] at he
    rw [he.1, hend]; rfl

/- non-vacuity: a document with a raw-text element whose content contains failed close-tag candidates,
   a newline inside the close tag, a tab, a comment, CDATA and attributes scans successfully
   (7 tokens), so the hypotheses of the theorems above are satisfiable on a non-trivial input. -/
def exCfg : Cfg := ⟨["script".toList]⟩
def exSrc : List Char := "<script>a<<</scr</script\n>\tx<p a=1 b><!-- c\n --><![CDATA[a>b]]>".toList

example : ∃ toks, scan exCfg exSrc = .ok toks ∧ toks.length = 7 ∧
    (toks.map (·.stop)) = [⟨1,9⟩, ⟨1,17⟩, ⟨2,2⟩, ⟨2,7⟩, ⟨2,16⟩, ⟨3,5⟩, ⟨3,20⟩] := by
  refine ⟨_, rfl, ?_, ?_⟩ <;> decide

example : ∃ toks, scan exCfg exSrc = .ok toks ∧
    ((∀ t, toks.head? = some t → t.start = ⟨1, 1⟩) ∧
     (∀ i (hi : i + 1 < toks.length), toks[i].stop = toks[i + 1].start)) ∧
    (∀ t ∈ toks, t.stop = t.value.foldl Pos.advance t.start) :=
  ⟨_, rfl, tokens_abut exCfg exSrc _ rfl, positions_exact exCfg exSrc _ rfl⟩

end HS
