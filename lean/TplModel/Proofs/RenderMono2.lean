import TplModel.Proofs.RenderEqs
/-! # Fuel monotonicity of the structural specification `RN.ref…`

A specification run that finished (status ≠ `fuel`) gives the same result with any larger fuel. -/
set_option linter.unusedSimpArgs false
namespace RN
variable {Sc : Type}

/-! ## sequencing lemmas -/

theorem Q.andThen_st_left {r : Q} {k : NC → Q} (h : (r.andThen k).st ≠ .fuel) : r.st ≠ .fuel := by
  intro h'; apply h; unfold Q.andThen; simp [h']

theorem Q.andThen_st_right {r : Q} {k : NC → Q} (h : (r.andThen k).st ≠ .fuel) (hr : r.st = .ok) :
    (k r.nc).st ≠ .fuel := by
  intro h'; apply h; unfold Q.andThen; simp [hr, h']

theorem Q.andThen_mono {r r' : Q} {k k' : NC → Q} (h : (r.andThen k).st ≠ .fuel)
    (hr : r.st ≠ .fuel → r' = r) (hk : r.st = .ok → (k r.nc).st ≠ .fuel → k' r.nc = k r.nc) :
    r'.andThen k' = r.andThen k := by
  have h1 := Q.andThen_st_left h
  rw [hr h1]
  cases hs : r.st with
  | ok => have := hk hs (Q.andThen_st_right h hs); unfold Q.andThen; simp only [hs, this]
  | err c => unfold Q.andThen; simp only [hs]
  | fuel => exact absurd hs h1

theorem Q.buffered_st (r : Q) : r.buffered.st = r.st := by
  unfold Q.buffered; cases h : r.st <;> simp [h]

theorem PR.andThen_st_left {r : PR Sc} {k : PS Sc → NC → Fl → PR Sc} (h : (r.andThen k).st ≠ .fuel) : r.st ≠ .fuel := by
  intro h'; apply h; unfold PR.andThen; simp [h']

theorem PR.andThen_st_right {r : PR Sc} {k : PS Sc → NC → Fl → PR Sc} (h : (r.andThen k).st ≠ .fuel) (hr : r.st = .ok) :
    (k r.ps r.nc r.fl).st ≠ .fuel := by
  intro h'; apply h; unfold PR.andThen; simp [hr, h']

theorem PR.andThen_mono {r r' : PR Sc} {k k' : PS Sc → NC → Fl → PR Sc} (h : (r.andThen k).st ≠ .fuel)
    (hr : r.st ≠ .fuel → r' = r) (hk : r.st = .ok → (k r.ps r.nc r.fl).st ≠ .fuel → k' r.ps r.nc r.fl = k r.ps r.nc r.fl) :
    r'.andThen k' = r.andThen k := by
  have h1 := PR.andThen_st_left h
  rw [hr h1]
  cases hs : r.st with
  | ok => have := hk hs (PR.andThen_st_right h hs); unfold PR.andThen; simp only [hs, this]
  | err c => unfold PR.andThen; simp only [hs]
  | fuel => exact absurd hs h1

/-! ## `bodyStep` depends on the fragment executor only through status, text and log -/

/-- two results of a buffered fragment execution that `bodyStep` cannot distinguish -/
def R.Agree (r' r : R) : Prop := r'.st = r.st ∧ r'.out = r.out ∧ r'.log = r.log

theorem bodyStep_congr (cfg : Cfg) (env : Env Sc) (frag frag' : Node → Sc → R) (d : NodeD) (a : CAttr) (k : AK)
    (ps : PS Sc) (nc : NC) (fl fl' : Fl)
    (H : ∀ name lg t, env.evalStr a ps.data = (.ok name, lg) → env.tpl name = some t → (frag t ps.data).st ≠ .fuel →
      R.Agree (frag' t ps.data) (frag t ps.data))
    (hne : (bodyStep cfg env frag d a k ps nc fl).st ≠ .fuel) :
    bodyStep cfg env frag' d a k ps nc fl' = { bodyStep cfg env frag d a k ps nc fl with fl := fl' } := by
  have key : ∀ (isRep : Bool) (lg : List String) (t : Node) (name : String), env.evalStr a ps.data = (.ok name, lg) → env.tpl name = some t →
      ((match (frag t ps.data).st with
        | .ok => ({ st := .ok, ps := (if isRep then { ps with tokenBuf := ps.tokenBuf ++ (frag t ps.data).text }
                      else { ps with contentBuf := ps.contentBuf ++ (frag t ps.data).text }),
                    log := lg ++ (frag t ps.data).log, nc := nc, fl := fl } : PR Sc)
        | st => { st := st, ps := ps, log := lg ++ (frag t ps.data).log, nc := nc, fl := fl }).st ≠ .fuel) →
      (match (frag' t ps.data).st with
        | .ok => ({ st := .ok, ps := (if isRep then { ps with tokenBuf := ps.tokenBuf ++ (frag' t ps.data).text }
                      else { ps with contentBuf := ps.contentBuf ++ (frag' t ps.data).text }),
                    log := lg ++ (frag' t ps.data).log, nc := nc, fl := fl' } : PR Sc)
        | st => { st := st, ps := ps, log := lg ++ (frag' t ps.data).log, nc := nc, fl := fl' }) =
      { (match (frag t ps.data).st with
        | .ok => ({ st := .ok, ps := (if isRep then { ps with tokenBuf := ps.tokenBuf ++ (frag t ps.data).text }
                      else { ps with contentBuf := ps.contentBuf ++ (frag t ps.data).text }),
                    log := lg ++ (frag t ps.data).log, nc := nc, fl := fl } : PR Sc)
        | st => { st := st, ps := ps, log := lg ++ (frag t ps.data).log, nc := nc, fl := fl }) with fl := fl' } := by
    intro isRep lg t name he ht hne'
    have hst : (frag t ps.data).st ≠ .fuel := by
      intro h'; apply hne'; simp [h']
    obtain ⟨h1, h2, h3⟩ := H name lg t he ht hst
    have h4 : (frag' t ps.data).text = (frag t ps.data).text := by simp [R.text, h2]
    rw [h1, h3, h4]
    cases (frag t ps.data).st <;> rfl
  cases k with
  | replace =>
    unfold bodyStep at hne ⊢
    simp only at hne ⊢
    rcases he : env.evalStr a ps.data with ⟨(c | name), lg⟩
    · simp only [he]
    · simp only [he] at hne ⊢
      cases ht : env.tpl name with
      | none => simp only [ht]
      | some t =>
        simp only [ht] at hne ⊢
        exact key true lg t name he ht hne
  | insert =>
    unfold bodyStep at hne ⊢
    simp only at hne ⊢
    rcases he : env.evalStr a ps.data with ⟨(c | name), lg⟩
    · simp only [he]
    · simp only [he] at hne ⊢
      cases ht : env.tpl name with
      | none => simp only [ht]
      | some t =>
        simp only [ht] at hne ⊢
        exact key false lg t name he ht hne
  | dyn cmd =>
    unfold bodyStep; simp only
    rcases he : env.evalStr a ps.data with ⟨(c | v), lg⟩ <;> simp only [he]
  | plain =>
    unfold bodyStep; simp only
    split <;> rfl
  | text => unfold bodyStep; simp only; split <;> rfl
  | raw => unfold bodyStep; simp only; split <;> rfl
  | _ => rfl

theorem bodyStep_fl (cfg : Cfg) (env : Env Sc) (frag : Node → Sc → R) (d : NodeD) (a : CAttr) (k : AK)
    (ps : PS Sc) (nc : NC) (fl : Fl) : (bodyStep cfg env frag d a k ps nc fl).fl = fl := by
  unfold bodyStep
  cases k <;> simp only <;> repeat' split
  all_goals rfl

theorem bodyStep_nc (cfg : Cfg) (env : Env Sc) (frag : Node → Sc → R) (d : NodeD) (a : CAttr) (k : AK)
    (ps : PS Sc) (nc : NC) (fl : Fl) : (bodyStep cfg env frag d a k ps nc fl).nc = nc := by
  unfold bodyStep
  cases k <;> simp only <;> repeat' split
  all_goals rfl

theorem PR.with_fl_self (x : PR Sc) (fl : Fl) (h : x.fl = fl) : { x with fl := fl } = x := by
  cases x; simp_all

/-! ## monotonicity -/

structure MonoAt (cfg : Cfg) (env : Env Sc) (f : Nat) : Prop where
  node : ∀ g depth nc n sc, f ≤ g → (refNode cfg env f depth nc n sc).st ≠ .fuel →
    refNode cfg env g depth nc n sc = refNode cfg env f depth nc n sc
  range : ∀ g depth nc n ra sc, f ≤ g → (refRange cfg env f depth nc n ra sc).st ≠ .fuel →
    refRange cfg env g depth nc n ra sc = refRange cfg env f depth nc n ra sc
  items : ∀ g depth nc n its first, f ≤ g → (refItems cfg env f depth nc n its first).st ≠ .fuel →
    refItems cfg env g depth nc n its first = refItems cfg env f depth nc n its first
  body : ∀ g depth nc n sc, f ≤ g → (refBody cfg env f depth nc n sc).st ≠ .fuel →
    refBody cfg env g depth nc n sc = refBody cfg env f depth nc n sc
  attrs : ∀ g depth nc d as ps, f ≤ g → (refAttrs cfg env f depth nc d as ps).st ≠ .fuel →
    refAttrs cfg env g depth nc d as ps = refAttrs cfg env f depth nc d as ps
  frag : ∀ g depth nc t sc, f ≤ g → (refFrag cfg env f depth nc t sc).st ≠ .fuel →
    refFrag cfg env g depth nc t sc = refFrag cfg env f depth nc t sc
  child : ∀ g depth nc n mode sc, f ≤ g → (refChild cfg env f depth nc n mode sc).st ≠ .fuel →
    refChild cfg env g depth nc n mode sc = refChild cfg env f depth nc n mode sc
  kids : ∀ g depth nc ks sc, f ≤ g → (refKids cfg env f depth nc ks sc).st ≠ .fuel →
    refKids cfg env g depth nc ks sc = refKids cfg env f depth nc ks sc

theorem refWith_mono (cfg : Cfg) (env : Env Sc) (d : NodeD) (sc : Sc) (nc : NC) (k k' : Sc → Q)
    (h : (refWith cfg env d sc nc k).st ≠ .fuel) (hk : ∀ sc1, (k sc1).st ≠ .fuel → k' sc1 = k sc1) :
    refWith cfg env d sc nc k' = refWith cfg env d sc nc k := by
  unfold refWith at h ⊢
  generalize withRes cfg env d sc = w at h ⊢
  obtain ⟨(c | sc1), lg⟩ := w
  · rfl
  · simp only at h ⊢
    rw [hk sc1 h]

theorem refEvalCond_mono (env : Env Sc) (rb rb' : NC → Q) (d : NodeD) (ca : CAttr) (nc : NC) (sc1 : Sc)
    (hrb : ∀ nc', (rb nc').st ≠ .fuel → rb' nc' = rb nc')
    (h : (refEvalCond env rb d ca nc sc1).st ≠ .fuel) :
    refEvalCond env rb' d ca nc sc1 = refEvalCond env rb d ca nc sc1 := by
  unfold refEvalCond at h ⊢
  rcases he : env.evalStr ca sc1 with ⟨(c | v), lg⟩
  · simp only [he]
  · simp only [he] at h ⊢
    by_cases hv : (v == "true") = true
    · simp only [hv, if_true] at h ⊢
      rw [Q.buffered_st] at h
      rw [hrb _ h]
    · rw [if_neg hv, if_neg hv]

theorem refCondA_mono (env : Env Sc) (rb rb' : NC → Q) (d : NodeD) (ca : CAttr) (isIf : Bool) (nc : NC) (sc1 : Sc)
    (hrb : ∀ nc', (rb nc').st ≠ .fuel → rb' nc' = rb nc')
    (h : (refCondA env rb d ca isIf nc sc1).st ≠ .fuel) :
    refCondA env rb' d ca isIf nc sc1 = refCondA env rb d ca isIf nc sc1 := by
  unfold refCondA at h ⊢
  cases hv : ca.value with
  | none => rfl
  | some val =>
    simp only [hv] at h ⊢
    cases isIf with
    | true => simp only [if_true] at h ⊢; exact refEvalCond_mono env rb rb' d ca nc sc1 hrb h
    | false =>
      simp only [Bool.false_eq_true, if_false] at h ⊢
      cases hp : d.prevTag.bind nc with
      | none => rfl
      | some b =>
        cases b with
        | true => rfl
        | false => simp only [hp] at h ⊢; exact refEvalCond_mono env rb rb' d ca nc sc1 hrb h

theorem refCondP_mono (cfg : Cfg) (env : Env Sc) (rb rb' : NC → Q) (d : NodeD) (nc : NC) (sc1 : Sc)
    (hrb : ∀ nc', (rb nc').st ≠ .fuel → rb' nc' = rb nc')
    (h : (refCondP cfg env rb d nc sc1).st ≠ .fuel) :
    refCondP cfg env rb' d nc sc1 = refCondP cfg env rb d nc sc1 := by
  unfold refCondP at h ⊢
  cases hc : condAttr cfg d.attrs with
  | none => simp only [hc] at h ⊢; exact hrb nc h
  | some p =>
    obtain ⟨ca, isIf⟩ := p
    simp only [hc] at h ⊢
    exact refCondA_mono env rb rb' d ca isIf nc sc1 hrb h

theorem mono_step (cfg : Cfg) (env : Env Sc) (f : Nat) (ih : MonoAt cfg env f) : MonoAt cfg env (f+1) := by
  have succ_of : ∀ {g : Nat}, f + 1 ≤ g → ∃ g', g = g' + 1 ∧ f ≤ g' := fun {g} h => ⟨g - 1, by omega, by omega⟩
  have hRB : ∀ g' depth nc n sc, f ≤ g' → (refRB cfg env f depth nc n sc).st ≠ .fuel →
      refRB cfg env g' depth nc n sc = refRB cfg env f depth nc n sc := by
    intro g' depth nc n sc hg h
    unfold refRB at h ⊢
    cases hr : rangeAttr cfg n.d.attrs with
    | none => simp only [hr] at h ⊢; exact ih.body g' _ _ _ _ hg h
    | some ra => simp only [hr] at h ⊢; exact ih.range g' _ _ _ _ _ hg h
  refine ⟨?_, ?_, ?_, ?_, ?_, ?_, ?_, ?_⟩
  · -- node
    intro g depth nc n sc hg h
    obtain ⟨g', rfl, hg'⟩ := succ_of hg
    by_cases hk : n.d.kind = .tag
    · rw [refNode_tag_eq cfg env f _ _ _ _ hk] at h
      rw [refNode_tag_eq cfg env f _ _ _ _ hk, refNode_tag_eq cfg env g' _ _ _ _ hk]
      apply refWith_mono _ _ _ _ _ _ _ h
      intro sc1 h1
      apply refCondP_mono _ _ _ _ _ _ _ _ h1
      intro nc' h2
      exact hRB g' depth nc' n sc1 hg' h2
    · rw [refNode_leaf_eq cfg env f _ _ _ _ hk] at h
      rw [refNode_leaf_eq cfg env f _ _ _ _ hk, refNode_leaf_eq cfg env g' _ _ _ _ hk]
      apply Q.andThen_mono h
      · intro _; rfl
      · intro _ h2
        apply Q.andThen_mono h2
        · intro h3; exact ih.kids g' _ _ _ _ hg' h3
        · intro _ _; rfl
  · -- range
    intro g depth nc n ra sc hg h
    obtain ⟨g', rfl, hg'⟩ := succ_of hg
    rw [refRange.eq_2] at h
    rw [refRange.eq_2, refRange.eq_2]
    cases hv : ra.value with
    | none => rfl
    | some val =>
      simp only [hv] at h ⊢
      rcases hi : env.rangeItems ra sc with ⟨(c | its), lg⟩
      · rfl
      · simp only [hi] at h ⊢
        rw [Q.buffered_st] at h
        rw [ih.items g' _ _ _ _ _ hg' h]
  · -- items
    intro g depth nc n its first hg h
    obtain ⟨g', rfl, hg'⟩ := succ_of hg
    cases its with
    | nil => rw [refItems.eq_2, refItems.eq_2]
    | cons sc rest =>
      rw [refItems.eq_3] at h
      rw [refItems.eq_3, refItems.eq_3]
      apply Q.andThen_mono h
      · intro h1
        apply Q.andThen_mono h1
        · intro _; rfl
        · intro _ h2; exact ih.body g' _ _ _ _ hg' h2
      · intro _ h2; exact ih.items g' _ _ _ _ _ hg' h2
  · -- body
    intro g depth nc n sc hg h
    obtain ⟨g', rfl, hg'⟩ := succ_of hg
    rw [refBody_eq] at h
    rw [refBody_eq, refBody_eq]
    have hpr : (refAttrs cfg env f depth nc n.d n.d.attrs (ps0 cfg n.d 3 sc)).st ≠ .fuel := by
      intro h'; apply h; unfold refTail; simp [h']
    rw [ih.attrs g' _ _ _ _ _ hg' hpr]
    unfold refTail at h ⊢
    cases hs : (refAttrs cfg env f depth nc n.d n.d.attrs (ps0 cfg n.d 3 sc)).st with
    | ok =>
      simp only [hs] at h ⊢
      apply Q.andThen_mono h
      · intro h1
        apply Q.andThen_mono h1
        · intro _; rfl
        · intro _ h2; exact ih.child g' _ _ _ _ _ hg' h2
      · intro _ _; rfl
    | err c => rfl
    | fuel => exact absurd hs hpr
  · -- attrs
    intro g depth nc d as ps hg h
    obtain ⟨g', rfl, hg'⟩ := succ_of hg
    cases as with
    | nil => rw [refAttrs.eq_2, refAttrs.eq_2]
    | cons a rest =>
      by_cases hc : isCtl cfg a = true
      · rw [refAttrs_skip _ _ _ _ _ _ _ _ _ hc] at h
        rw [refAttrs_skip _ _ _ _ _ _ _ _ _ hc, refAttrs_skip _ _ _ _ _ _ _ _ _ hc]
        exact ih.attrs g' _ _ _ _ _ hg' h
      · have hc' : isCtl cfg a = false := by simpa using hc
        rw [refAttrs_body _ _ _ _ _ _ _ _ _ hc'] at h
        rw [refAttrs_body _ _ _ _ _ _ _ _ _ hc', refAttrs_body _ _ _ _ _ _ _ _ _ hc']
        apply PR.andThen_mono h
        · intro h1
          rw [bodyStep_congr cfg env _ _ d a _ ps nc emptyFl emptyFl _ h1]
          · exact PR.with_fl_self _ _ (bodyStep_fl ..)
          intro name lg t _ _ hst
          have : refFrag cfg env g' depth nc t ps.data = refFrag cfg env f depth nc t ps.data :=
            ih.frag g' _ _ _ _ hg' (by simpa [Q.toR] using hst)
          rw [this]; exact ⟨rfl, rfl, rfl⟩
        · intro _ h2; exact ih.attrs g' _ _ _ _ _ hg' h2
  · -- frag
    intro g depth nc t sc hg h
    obtain ⟨g', rfl, hg'⟩ := succ_of hg
    rw [refFrag.eq_2] at h
    rw [refFrag.eq_2, refFrag.eq_2]
    by_cases hd : depth + 1 > cfg.maxDepth
    · simp only [hd, if_true]
    · simp only [hd, if_false] at h ⊢
      rw [Q.buffered_st] at h
      rw [ih.node g' _ _ _ _ hg' h]
  · -- child
    intro g depth nc n mode sc hg h
    obtain ⟨g', rfl, hg'⟩ := succ_of hg
    cases mode with
    | unset =>
      rw [refChild] at h
      rw [refChild, refChild]
      exact ih.kids g' _ _ _ _ hg' h
    | nop => rw [refChild, refChild]
    | textLike a isText => rw [refChild, refChild]
    | abf =>
      rw [refChild] at h
      rw [refChild, refChild]
      simp only at h ⊢
      have hopt : ∀ (o : Option Node) (nc' : NC),
          (match o with | some k => refNode cfg env f depth nc' k sc | none => Q.okQ [] nc').st ≠ .fuel →
          (match o with | some k => refNode cfg env g' depth nc' k sc | none => Q.okQ [] nc') =
          (match o with | some k => refNode cfg env f depth nc' k sc | none => Q.okQ [] nc') := by
        intro o nc' h'
        cases o with
        | none => rfl
        | some k => exact ih.node g' _ _ _ _ hg' h'
      apply Q.andThen_mono h
      · intro h1; exact hopt _ _ h1
      · intro _ h2
        apply Q.andThen_mono h2
        · intro h3; exact hopt _ _ h3
        · intro _ h4; exact hopt _ _ h4
  · -- kids
    intro g depth nc ks sc hg h
    obtain ⟨g', rfl, hg'⟩ := succ_of hg
    cases ks with
    | nil => rw [refKids.eq_2, refKids.eq_2]
    | cons k ks =>
      rw [refKids.eq_3] at h
      rw [refKids.eq_3, refKids.eq_3]
      apply Q.andThen_mono h
      · intro h1; exact ih.node g' _ _ _ _ hg' h1
      · intro _ h2; exact ih.kids g' _ _ _ _ hg' h2

theorem mono_zero (cfg : Cfg) (env : Env Sc) : MonoAt cfg env 0 := by
  refine ⟨?_, ?_, ?_, ?_, ?_, ?_, ?_, ?_⟩ <;> intros <;> rename_i h <;> exfalso <;> apply h
  · rw [refNode.eq_1]
  · rw [refRange.eq_1]
  · rw [refItems.eq_1]
  · rw [refBody.eq_1]
  · rw [refAttrs.eq_1]
  · rw [refFrag.eq_1]
  · rw [refChild.eq_1]
  · rw [refKids.eq_1]

/-- **Fuel monotonicity of the specification** (all eight mutually recursive functions). -/
theorem ref_mono (cfg : Cfg) (env : Env Sc) : ∀ f, MonoAt cfg env f := by
  intro f
  induction f with
  | zero => exact mono_zero cfg env
  | succ f ih => exact mono_step cfg env f ih

/-- headline form for the entry point -/
theorem refExecute_mono (cfg : Cfg) (env : Env Sc) (f g : Nat) (root : Node) (sc : Sc) (hg : f ≤ g)
    (h : (refExecute cfg env f root sc).st ≠ .fuel) :
    refExecute cfg env g root sc = refExecute cfg env f root sc :=
  (ref_mono cfg env f).node g 0 emptyNc root sc hg h

end RN
