import TplModel.Props.Loader
import TplModel.Props.C10
import TplModel.Proofs.ScanNoPanic
/-! # Loader-level safety (C08) and full consumption of directive values (C10): helper lemmas

Part A: no phase of the loader model (`compileParts` … `addFile`, `loadFiles`) produces `.panic`; the only place
where `.panic` is *introduced* is `addFile`, from a scanner result `.error (.panic _)`, which `HS.scan_no_panic`
excludes.  Every other occurrence of `.panic` in `Engine.lean` only propagates.

Part B: `compileParts` / `compileAttrS` characterised exactly (`compileParts_ok_iff`, `compileAttrS_dir_ok_iff`), the
invariant "every compiled part of every attribute of every node refers to the full parse of its block" and its
preservation by `addFile`. -/
set_option linter.unusedSimpArgs false
set_option linter.unusedVariables false
namespace EN
open RN (CAttr Part NodeD Node NK Cls)

/-! ## A. `.panic` is never produced -/

theorem mapRes_fst {α β : Type} (f : α → β) (r : LoadRes α × Tbl) : (mapRes f r).1 = r.1.map f := rfl

theorem map_ne_panic {α β : Type} {f : α → β} {r : LoadRes α} (h : r ≠ .panic) : r.map f ≠ .panic := by
  cases r <;> simp [LoadRes.map] at h ⊢

theorem mapRes_ne_panic {α β : Type} {f : α → β} {r : LoadRes α × Tbl} (h : r.1 ≠ .panic) : (mapRes f r).1 ≠ .panic :=
  map_ne_panic h

theorem bindRes_ne_panic {α β : Type} {r : LoadRes α × Tbl} {k : α → Tbl → LoadRes β × Tbl} (h : r.1 ≠ .panic)
    (hk : ∀ a t, (k a t).1 ≠ .panic) : (bindRes r k).1 ≠ .panic := by
  obtain ⟨r1, r2⟩ := r
  cases r1 <;> simp [bindRes] at h ⊢
  exact hk _ _

theorem compileParts_ne_panic : ∀ (toks : List CS.CTok) (tbl : Tbl), (compileParts toks tbl).1 ≠ .panic
  | [], tbl => by simp [compileParts]
  | t :: ts, tbl => by
    rw [compileParts]
    cases t.kind
    case codeValue =>
      simp only
      cases EL.parseCode (String.ofList t.value)
      case accept e => exact mapRes_ne_panic (compileParts_ne_panic ts _)
      case reject => simp
      case unsupported => simp
    all_goals exact mapRes_ne_panic (compileParts_ne_panic ts _)

theorem compileAttrS_ne_panic (cfg : Cfg) (a : HS.Attr) (tbl : Tbl) : (compileAttrS cfg a tbl).1 ≠ .panic := by
  unfold compileAttrS
  simp only
  split
  · simp
  · split
    · simp
    · split
      · simp
      · exact mapRes_ne_panic (compileParts_ne_panic _ _)

theorem compileAttrsS_ne_panic (cfg : Cfg) : ∀ (as : List HS.Attr) (tbl : Tbl), (compileAttrsS cfg as tbl).1 ≠ .panic
  | [], tbl => by simp [compileAttrsS]
  | a :: as, tbl => by
    rw [compileAttrsS]
    exact bindRes_ne_panic (compileAttrS_ne_panic cfg a tbl) fun c t => mapRes_ne_panic (compileAttrsS_ne_panic cfg as t)

theorem compileTok_ne_panic (cfg : Cfg) (id : Nat) (t : HS.Token) (tbl : Tbl) : (compileTok cfg id t tbl).1 ≠ .panic := by
  unfold compileTok
  split
  · exact mapRes_ne_panic (compileAttrsS_ne_panic cfg _ _)
  · simp
  · simp

theorem compileToks_ne_panic (cfg : Cfg) : ∀ (toks : List HS.Token) (id : Nat) (tbl : Tbl),
    (compileToks cfg id toks tbl).1 ≠ .panic
  | [], id, tbl => by simp [compileToks]
  | t :: ts, id, tbl => by
    rw [compileToks]
    exact bindRes_ne_panic (compileTok_ne_panic cfg id t tbl) fun c t' => mapRes_ne_panic (compileToks_ne_panic cfg ts _ t')

theorem buildTreeS_ne_panic (cfg : Cfg) (idx : Nat) (toks : List HS.Token) (tbl : Tbl) :
    (buildTreeS cfg idx toks tbl).1 ≠ .panic :=
  mapRes_ne_panic (compileToks_ne_panic cfg toks _ tbl)

theorem defineHere_ne_panic (cfg : Cfg) (cx : Ctx) (d : NodeD) (kids : List Node) (tpls : List (String × Node)) :
    defineHere cfg cx d kids tpls ≠ .panic := by
  unfold defineHere
  repeat' split
  all_goals simp

theorem addDefined_ne_panic (cfg : Cfg) (cx : Ctx) : ∀ (n : Node) (tpls : List (String × Node)),
    addDefined cfg cx n tpls ≠ .panic := by
  refine RN.Spec.Node.induct (PL := fun ks => ∀ (tpls : List (String × Node)), addDefinedL cfg cx ks tpls ≠ .panic) ?_ ?_ ?_
  · intro d kids e ih tpls
    rw [addDefined]
    have hd := defineHere_ne_panic cfg cx d kids tpls
    cases hdd : defineHere cfg cx d kids tpls with
    | ok t => simp only; exact ih t
    | err => simp
    | panic => exact absurd hdd hd
    | unsupported => simp
  · intro tpls; simp [addDefinedL]
  · intro k ks ih1 ih2 tpls
    rw [addDefinedL]
    cases hk : addDefined cfg cx k tpls with
    | ok t => simp only; exact ih2 t
    | err => simp
    | panic => exact absurd hk (ih1 tpls)
    | unsupported => simp

theorem registerFile_ne_panic (cfg : Cfg) (fns : List (String × EV.FnSpec)) (name : String) (m : Mgr)
    (r : LoadRes Node × Tbl) (h : r.1 ≠ .panic) : registerFile cfg fns name m r ≠ .panic := by
  unfold registerFile
  obtain ⟨r1, r2⟩ := r
  cases r1 with
  | ok root0 =>
    simp only
    unfold withTemplates
    have := addDefined_ne_panic cfg { exprs := r2, fns := fns } (annotate root0) (m.templates ++ [(name, annotate root0)])
    cases hh : addDefined cfg { exprs := r2, fns := fns } (annotate root0) (m.templates ++ [(name, annotate root0)]) with
    | ok t => simp
    | err => simp
    | panic => exact absurd hh this
    | unsupported => simp
  | err => simp
  | panic => exact absurd rfl h
  | unsupported => simp

/-- the only place where the loader model *introduces* `.panic`: the scanner result `.error (.panic _)` -/
theorem addFile_ne_panic (cfg : Cfg) (fns : List (String × EV.FnSpec)) (idx : Nat) (name src : String) (m : Mgr) :
    addFile cfg fns idx name src m ≠ .panic := by
  unfold addFile
  split
  · simp
  · split
    · rename_i site hs
      exact absurd hs (HS.scan_no_panic _ _ site)
    · simp
    · exact registerFile_ne_panic cfg fns name m _ (buildTreeS_ne_panic cfg idx _ _)

theorem loadFrom_ne_panic (cfg : Cfg) (fns : List (String × EV.FnSpec)) : ∀ (files : List (String × String)) (i : Nat) (m : Mgr),
    loadFrom cfg fns i files m ≠ .panic
  | [], i, m => by simp [loadFrom]
  | f :: rest, i, m => by
    rw [loadFrom]
    cases h : addFile cfg fns (i + 1) f.1 f.2 m with
    | ok m' => simp only; exact loadFrom_ne_panic cfg fns rest (i + 1) m'
    | err => simp
    | panic => exact absurd h (addFile_ne_panic cfg fns _ _ _ m)
    | unsupported => simp

/-! ## B. exact characterisation of `compileParts` / `compileAttrS` -/

theorem tbl_app_app (T : Tbl) (l l2 : List EL.E) : (T ++ l) ++ l2 = T ++ (l ++ l2) := by
  apply Array.ext'; simp
theorem tbl_app_size (T : Tbl) (l : List EL.E) : (T ++ l).size = T.size + l.length := by
  rw [← Array.length_toList]; simp
theorem tbl_get_app_left (T : Tbl) (l : List EL.E) {k : Nat} {e : EL.E} (h : T[k]? = some e) : (T ++ l)[k]? = some e := by
  have hk : k < T.size := by
    rcases Nat.lt_or_ge k T.size with hk | hk
    · exact hk
    · rw [Array.getElem?_eq_none hk] at h; cases h
  rw [← Array.getElem?_toList] at h ⊢
  rw [Array.toList_appendList, List.getElem?_append_left (by simpa using hk)]
  exact h
theorem tbl_get_app_right (T : Tbl) (l : List EL.E) (k : Nat) : (T ++ l)[T.size + k]? = l[k]? := by
  rw [← Array.getElem?_toList]
  simp [List.getElem?_append_right]

/-- the source texts of the `${…}` blocks of a scanned directive value, in order -/
def blockTexts : List CS.CTok → List String
  | [] => []
  | t :: ts => if t.kind = .codeValue then String.ofList t.value :: blockTexts ts else blockTexts ts

/-- the compiled parts of a scanned directive value when the expression table had `k` entries before: literals
    verbatim, the `i`-th block (counted from 0) becomes `.code (k + i)`, every other token `.other` -/
def partsFrom : Nat → List CS.CTok → List Part
  | _, [] => []
  | k, t :: ts =>
    match t.kind with
    | .literal => .lit (String.ofList t.value) :: partsFrom k ts
    | .codeValue => .code k :: partsFrom (k + 1) ts
    | _ => .other :: partsFrom k ts

/-- `ParseCode` accepts the text `s` in full and yields `e` -/
def Accepts (s : String) (e : EL.E) : Prop := EL.parseCode s = .accept e

theorem consPart_ok_iff (p : Part) (r : LoadRes (List Part) × Tbl) (parts : List Part) (tbl' : Tbl) :
    consPart p r = (.ok parts, tbl') ↔ ∃ ps, r = (.ok ps, tbl') ∧ parts = p :: ps := by
  obtain ⟨r1, r2⟩ := r
  cases r1 <;> simp [consPart, mapRes, LoadRes.map]
  constructor
  · rintro ⟨h1, h2⟩; exact ⟨_, ⟨rfl, h2⟩, h1.symm⟩
  · rintro ⟨ps, ⟨h1, h2⟩, h3⟩; exact ⟨by rw [h3, h1], h2⟩

/-- **compileParts_ok_iff.** The value tokens of a directive attribute compile iff every block text is accepted IN FULL
    by `ParseCode`; the table grows by exactly the parsed blocks, in order; the parts are `partsFrom`. -/
theorem compileParts_ok_iff : ∀ (toks : List CS.CTok) (tbl tbl' : Tbl) (parts : List Part),
    compileParts toks tbl = (.ok parts, tbl') ↔
      ∃ es, Aligned Accepts (blockTexts toks) es ∧ tbl' = tbl ++ es ∧ parts = partsFrom tbl.size toks
  | [], tbl, tbl', parts => by
    simp only [compileParts, blockTexts, partsFrom, Prod.mk.injEq, LoadRes.ok.injEq]
    constructor
    · rintro ⟨h1, h2⟩; exact ⟨[], .nil, by simp [h2], h1.symm⟩
    · rintro ⟨es, hal, h2, h3⟩
      cases hal
      exact ⟨h3.symm, by simp [h2]⟩
  | t :: ts, tbl, tbl', parts => by
    rw [compileParts]
    cases hk : t.kind
    case codeValue =>
      simp only [blockTexts, partsFrom, hk, if_true]
      cases hp : EL.parseCode (String.ofList t.value)
      case accept e =>
        simp only
        rw [consPart_ok_iff]
        constructor
        · rintro ⟨ps, h1, rfl⟩
          obtain ⟨es, hal, h2, h3⟩ := (compileParts_ok_iff ts _ _ _).1 h1
          refine ⟨e :: es, .cons hp hal, ?_, ?_⟩
          · rw [h2, Array.appendList_cons]
          · rw [h3, Array.size_push]
        · rintro ⟨es, hal, h2, h3⟩
          cases hal with
          | cons hr hal' =>
            rename_i e' es'
            have : e' = e := by
              unfold Accepts at hr; rw [hp] at hr; cases hr; rfl
            subst this
            refine ⟨partsFrom (tbl.size + 1) ts, (compileParts_ok_iff ts _ _ _).2 ⟨es', hal', ?_, ?_⟩, h3⟩
            · rw [h2, Array.appendList_cons]
            · rw [Array.size_push]
      case reject =>
        simp only
        constructor
        · intro h; cases h
        · rintro ⟨es, hal, _, _⟩
          cases hal with
          | cons hr _ => unfold Accepts at hr; rw [hp] at hr; cases hr
      case unsupported =>
        simp only
        constructor
        · intro h; cases h
        · rintro ⟨es, hal, _, _⟩
          cases hal with
          | cons hr _ => unfold Accepts at hr; rw [hp] at hr; cases hr
    all_goals
      simp only [blockTexts, partsFrom, hk, reduceCtorEq, if_false]
      rw [consPart_ok_iff]
      constructor
      · rintro ⟨ps, h1, rfl⟩
        obtain ⟨es, hal, h2, h3⟩ := (compileParts_ok_iff ts _ _ _).1 h1
        exact ⟨es, hal, h2, by rw [h3]⟩
      · rintro ⟨es, hal, h2, h3⟩
        exact ⟨_, (compileParts_ok_iff ts _ _ _).2 ⟨es, hal, h2, rfl⟩, h3⟩

/-- on the outputs of the code scanner the loader's failure test is exactly "the scan did not succeed" -/
theorem codeScanFailed_scan (start : HS.Pos) (v : List Char) :
    codeScanFailed (CS.scan start v) = false ↔ CS.Succ (CS.scan start v) := by
  constructor
  · intro h hl
    unfold CS.Succ at *
    unfold codeScanFailed at h
    rw [hl] at h
    revert h; decide
  · intro h
    obtain ⟨q, p, new, rest, hq, hs, ht, hv⟩ := CS.scan_shape start v h
    have hne : new ≠ [] := by cases ht <;> simp
    unfold codeScanFailed
    rw [hs, List.getLast?_cons_of_ne_nil hne]
    rcases ht.last with ⟨m, a, b, _, h2⟩ | ⟨m, q', a, b, _, _, h2⟩
    · rw [h2]; simp
    · rw [h2]; simp

/-- **compileAttrS_dir_ok_iff.** For an attribute whose name carries the directive prefix and that has a value `v`
    (`attrValueOf`: the written value, or `"true"` for a bare `:else`): it compiles iff the code scanner accepts `v` AND
    every `${…}` block text `s` satisfies `ParseCode s = accept e`; then the `es` are appended to the table in order,
    the `i`-th block is stored as `.code (tbl.size + i)`, literals are kept verbatim and in order. -/
theorem compileAttrS_dir_ok_iff (cfg : Cfg) (a : HS.Attr) (v : List Char) (tbl tbl' : Tbl) (ca : CAttr)
    (hdir : (String.ofList a.name).startsWith cfg.attrPrefix = true) (hv : attrValueOf cfg a = some v) :
    compileAttrS cfg a tbl = (.ok ca, tbl') ↔
      CS.Succ (CS.scan a.valueStart v) ∧
      ∃ es, Aligned Accepts (blockTexts (CS.scan a.valueStart v)) es ∧ tbl' = tbl ++ es ∧
        ca = ⟨String.ofList a.name, some (String.ofList v), partsFrom tbl.size (CS.scan a.valueStart v)⟩ := by
  unfold compileAttrS
  simp only [hv, hdir, Bool.not_true, Bool.false_eq_true, if_false]
  cases hf : codeScanFailed (CS.scan a.valueStart v)
  · have hs := (codeScanFailed_scan _ _).1 hf
    simp only [Bool.false_eq_true, if_false, hs, true_and]
    unfold mkDirective
    constructor
    · intro h
      obtain ⟨parts, h1, h2⟩ := mapRes_ok h
      obtain ⟨es, hal, h3, h4⟩ := (compileParts_ok_iff _ _ _ _).1 h1
      exact ⟨es, hal, h3, by rw [h2, h4]⟩
    · rintro ⟨es, hal, h3, h4⟩
      have := (compileParts_ok_iff _ tbl tbl' _).2 ⟨es, hal, h3, rfl⟩
      rw [this, h4]; rfl
  · have hs : ¬ CS.Succ (CS.scan a.valueStart v) := fun h => by
      rw [(codeScanFailed_scan _ _).2 h] at hf; cases hf
    simp only [if_true, hs, false_and, iff_false]
    intro h; cases h

/-- attributes without the prefix, and attributes without a value, are stored as written and compile nothing -/
theorem compileAttrS_plain (cfg : Cfg) (a : HS.Attr) (tbl : Tbl)
    (h : (String.ofList a.name).startsWith cfg.attrPrefix = false ∨ attrValueOf cfg a = none) :
    compileAttrS cfg a tbl = (.ok ⟨String.ofList a.name, (attrValueOf cfg a).map String.ofList, []⟩, tbl) := by
  unfold compileAttrS
  cases hv : attrValueOf cfg a with
  | none => rfl
  | some v =>
    rcases h with h | h
    · simp [h]
    · rw [hv] at h; cases h

/-! ## the invariant of loaded trees: every compiled part is the full parse of its block -/

/-- what the part `p` compiled from the value token `t` is, given the final expression table `T` -/
def PartOK (T : Tbl) (t : CS.CTok) (p : Part) : Prop :=
  match t.kind with
  | .literal => p = .lit (String.ofList t.value)
  | .codeValue => ∃ k e, p = .code k ∧ T[k]? = some e ∧ EL.parseCode (String.ofList t.value) = .accept e
  | _ => p = .other

theorem PartOK.mono {T : Tbl} {t : CS.CTok} {p : Part} (l : List EL.E) (h : PartOK T t p) : PartOK (T ++ l) t p := by
  unfold PartOK at h ⊢
  cases hk : t.kind <;> simp only [hk] at h ⊢ <;> try exact h
  obtain ⟨k, e, h1, h2, h3⟩ := h
  exact ⟨k, e, h1, tbl_get_app_left T l h2, h3⟩

theorem Aligned.imp' {α β : Type} {R S : α → β → Prop} {as : List α} {bs : List β} (h : Aligned R as bs)
    (hi : ∀ a b, R a b → S a b) : Aligned S as bs := by
  induction h with
  | nil => exact .nil
  | cons hr _ ih => exact .cons (hi _ _ hr) ih

theorem partsFrom_aligned : ∀ (toks : List CS.CTok) (tbl : Tbl) (es : List EL.E),
    Aligned Accepts (blockTexts toks) es → Aligned (PartOK (tbl ++ es)) toks (partsFrom tbl.size toks)
  | [], tbl, es, _ => .nil
  | t :: ts, tbl, es, h => by
    cases hk : t.kind
    case codeValue =>
      simp only [blockTexts, hk, if_true] at h
      cases h with
      | cons hr hal =>
        rename_i e es'
        simp only [partsFrom, hk]
        refine .cons ?_ ?_
        · unfold PartOK; simp only [hk]
          refine ⟨tbl.size, e, rfl, ?_, hr⟩
          have := tbl_get_app_right tbl (e :: es') 0
          simpa using this
        · have ih := partsFrom_aligned ts (tbl.push e) es' hal
          rw [Array.size_push, ← Array.appendList_cons] at ih
          exact ih
    all_goals
      simp only [blockTexts, hk, reduceCtorEq, if_false] at h
      simp only [partsFrom, hk]
      exact .cons (by unfold PartOK; simp only [hk]) (partsFrom_aligned ts tbl es h)

/-- a compiled attribute is either uncompiled (no parts) or a directive whose value the code scanner accepts and whose
    parts are, token by token, the literals verbatim and the FULL parses of the blocks, stored in `T` -/
def AttrInv (cfg : Cfg) (T : Tbl) (ca : CAttr) : Prop :=
  ca.parts = [] ∨
  ∃ s start, ca.value = some s ∧ ca.name.startsWith cfg.attrPrefix = true ∧ CS.Succ (CS.scan start s.toList) ∧
    Aligned (PartOK T) (CS.scan start s.toList) ca.parts

theorem AttrInv.mono {cfg : Cfg} {T : Tbl} {ca : CAttr} (l : List EL.E) (h : AttrInv cfg T ca) : AttrInv cfg (T ++ l) ca := by
  rcases h with h | ⟨s, start, h1, h2, h3, h4⟩
  · exact Or.inl h
  · exact Or.inr ⟨s, start, h1, h2, h3, h4.imp' fun _ _ => PartOK.mono l⟩

theorem compileAttrS_inv (cfg : Cfg) (a : HS.Attr) (tbl tbl' : Tbl) (ca : CAttr)
    (h : compileAttrS cfg a tbl = (.ok ca, tbl')) : (∃ es : List EL.E, tbl' = tbl ++ es) ∧ AttrInv cfg tbl' ca := by
  by_cases hdir : (String.ofList a.name).startsWith cfg.attrPrefix = true
  · cases hv : attrValueOf cfg a with
    | none =>
      rw [compileAttrS_plain cfg a tbl (Or.inr hv)] at h
      cases h
      exact ⟨⟨[], by simp⟩, Or.inl rfl⟩
    | some v =>
      obtain ⟨hs, es, hal, h1, h2⟩ := (compileAttrS_dir_ok_iff cfg a v tbl tbl' ca hdir hv).1 h
      refine ⟨⟨es, h1⟩, Or.inr ⟨String.ofList v, a.valueStart, by rw [h2], by rw [h2]; exact hdir, ?_, ?_⟩⟩
      · rw [String.toList_ofList]; exact hs
      · rw [String.toList_ofList, h2, h1]; exact partsFrom_aligned _ _ _ hal
  · rw [compileAttrS_plain cfg a tbl (Or.inl (by simpa using hdir))] at h
    cases h
    exact ⟨⟨[], by simp⟩, Or.inl rfl⟩

theorem compileAttrsS_inv (cfg : Cfg) : ∀ (as : List HS.Attr) (tbl tbl' : Tbl) (cs : List CAttr),
    compileAttrsS cfg as tbl = (.ok cs, tbl') → (∃ es : List EL.E, tbl' = tbl ++ es) ∧ ∀ c ∈ cs, AttrInv cfg tbl' c
  | [], tbl, tbl', cs, h => by
    simp only [compileAttrsS, Prod.mk.injEq, LoadRes.ok.injEq] at h
    rw [← h.1, ← h.2]
    exact ⟨⟨[], by simp⟩, fun c hc => by cases hc⟩
  | a :: as, tbl, tbl', cs, h => by
    simp only [compileAttrsS] at h
    obtain ⟨c, t1, h1, h2⟩ := bindRes_ok h
    obtain ⟨cs0, h3, h4⟩ := mapRes_ok h2
    obtain ⟨⟨e1, he1⟩, i1⟩ := compileAttrS_inv cfg a tbl t1 c h1
    obtain ⟨⟨e2, he2⟩, i2⟩ := compileAttrsS_inv cfg as t1 tbl' cs0 h3
    refine ⟨⟨e1 ++ e2, by rw [he2, he1, tbl_app_app]⟩, ?_⟩
    intro c' hc'
    rw [h4] at hc'
    rcases List.mem_cons.mp hc' with rfl | hc'
    · rw [he2]; exact i1.mono e2
    · exact i2 c' hc'

/-- every attribute of a node satisfies `AttrInv` -/
def NodeInv (cfg : Cfg) (T : Tbl) (d : NodeD) : Prop := ∀ c ∈ d.attrs, AttrInv cfg T c

theorem NodeInv.mono {cfg : Cfg} {T : Tbl} {d : NodeD} (l : List EL.E) (h : NodeInv cfg T d) : NodeInv cfg (T ++ l) d :=
  fun c hc => (h c hc).mono l

theorem compileTok_inv (cfg : Cfg) (id : Nat) (t : HS.Token) (tbl tbl' : Tbl) (it : Item)
    (h : compileTok cfg id t tbl = (.ok it, tbl')) : (∃ es : List EL.E, tbl' = tbl ++ es) ∧ NodeInv cfg tbl' it.d := by
  unfold compileTok at h
  split at h
  · obtain ⟨cs, h1, h2⟩ := mapRes_ok h
    obtain ⟨he, hi⟩ := compileAttrsS_inv cfg _ _ _ _ h1
    refine ⟨he, ?_⟩
    rw [h2]
    intro c hc
    exact hi c ((sortedAttrs_perm cfg cs).mem_iff.mp hc)
  · cases h
  · cases h
    exact ⟨⟨[], by simp⟩, fun c hc => by cases hc⟩

theorem compileToks_inv (cfg : Cfg) : ∀ (toks : List HS.Token) (id : Nat) (tbl tbl' : Tbl) (items : List Item),
    compileToks cfg id toks tbl = (.ok items, tbl') → (∃ es : List EL.E, tbl' = tbl ++ es) ∧ ∀ it ∈ items, NodeInv cfg tbl' it.d
  | [], id, tbl, tbl', items, h => by
    simp only [compileToks, Prod.mk.injEq, LoadRes.ok.injEq] at h
    rw [← h.1, ← h.2]
    exact ⟨⟨[], by simp⟩, fun c hc => by cases hc⟩
  | t :: ts, id, tbl, tbl', items, h => by
    simp only [compileToks] at h
    obtain ⟨it, t1, h1, h2⟩ := bindRes_ok h
    obtain ⟨is0, h3, h4⟩ := mapRes_ok h2
    obtain ⟨⟨e1, he1⟩, i1⟩ := compileTok_inv cfg id t tbl t1 it h1
    obtain ⟨⟨e2, he2⟩, i2⟩ := compileToks_inv cfg ts (id + 1) t1 tbl' is0 h3
    refine ⟨⟨e1 ++ e2, by rw [he2, he1, tbl_app_app]⟩, ?_⟩
    intro it' hit'
    rw [h4] at hit'
    rcases List.mem_cons.mp hit' with rfl | hit'
    · rw [he2]; exact i1.mono e2
    · exact i2 it' hit'

theorem nodeInv_rootD (cfg : Cfg) (T : Tbl) : NodeInv cfg T rootD := fun c hc => by cases hc

theorem buildTreeS_inv {cfg : Cfg} {fileIdx : Nat} {toks : List HS.Token} {tbl tbl' : Tbl} {root : Node}
    (h : buildTreeS cfg fileIdx toks tbl = (.ok root, tbl')) :
    (∃ es : List EL.E, tbl' = tbl ++ es) ∧ AllD (NodeInv cfg tbl') (flatD root) := by
  obtain ⟨items, h1, h2⟩ := mapRes_ok h
  obtain ⟨he, hi⟩ := compileToks_inv cfg toks _ _ _ _ h1
  refine ⟨he, ?_⟩
  rw [h2, assemble_flat]
  intro d hd
  rcases List.mem_cons.mp hd with hd | hd
  · cases hd; exact nodeInv_rootD cfg tbl'
  · obtain ⟨it, hit, hrel⟩ := (emits_aligned items ⟨[], []⟩).mem_right hd
    have hd' : d = it.d := by
      rcases hrel with e | ⟨_, e⟩
      · exact Sum.inl.inj e
      · cases e
    rw [hd']; exact hi it hit

/-- `addFile_ok` with the evaluation context of the new manager -/
theorem addFile_ok' {cfg : Cfg} {fns : List (String × EV.FnSpec)} {idx : Nat} {name src : String} {m m' : Mgr}
    (h : addFile cfg fns idx name src m = .ok m') :
    ∃ toks root0 tbl', HS.scan (scanCfg cfg) src.toList = .ok toks ∧
      buildTreeS cfg idx toks m.cx.exprs = (.ok root0, tbl') ∧
      addDefined cfg { exprs := tbl', fns := fns } (annotate root0) (m.templates ++ [(name, annotate root0)]) = .ok m'.templates ∧
      m'.cx = { exprs := tbl', fns := fns } := by
  unfold addFile at h
  split at h
  · cases h
  · split at h
    · cases h
    · cases h
    · rename_i toks hscan
      unfold registerFile at h
      cases hb : buildTreeS cfg idx toks m.cx.exprs with
      | mk r tbl' =>
        rw [hb] at h
        cases r with
        | ok root0 =>
          simp only at h
          unfold withTemplates at h
          split at h
          · rename_i tpls hadd
            simp only [LoadRes.ok.injEq] at h
            subst h
            exact ⟨toks, root0, tbl', hscan, hb, hadd, rfl⟩
          all_goals cases h
        | err => cases h
        | panic => cases h
        | unsupported => cases h

/-- the registry invariant: every node of every registered template (file roots and fragments) satisfies `NodeInv`
    with respect to the manager's expression table -/
def RegInv (cfg : Cfg) (m : Mgr) : Prop := ∀ p ∈ m.templates, AllD (NodeInv cfg m.cx.exprs) (flatD p.2)

theorem allD_mono {cfg : Cfg} {T : Tbl} (l : List EL.E) {xs : List Entry} (h : AllD (NodeInv cfg T) xs) :
    AllD (NodeInv cfg (T ++ l)) xs := fun d hd => (h d hd).mono l

theorem addFile_regInv (cfg : Cfg) (fns : List (String × EV.FnSpec)) (idx : Nat) (name src : String) (m m' : Mgr)
    (hinv : RegInv cfg m) (h : addFile cfg fns idx name src m = .ok m') : RegInv cfg m' := by
  obtain ⟨toks, root0, tbl', hscan, hb, hadd, hcx⟩ := addFile_ok' h
  obtain ⟨⟨es, hes⟩, hall⟩ := buildTreeS_inv hb
  have hann : AllD (NodeInv cfg tbl') (flatD (annotate root0)) :=
    (annotate_allD _ (fun _ => Iff.rfl) root0).mpr hall
  have hkind : (annotate root0).d.kind = .root := by
    rw [annotate_d]; obtain ⟨items, _, _, rfl⟩ := buildTreeS_ok hb; rfl
  intro p hp
  rw [hcx]
  simp only
  rcases addDefined_root_sub cfg _ _ hkind _ _ hadd p hp with hp | ⟨ks, hks, hsub⟩
  · rcases List.mem_append.mp hp with hp | hp
    · rw [hes]; exact allD_mono es (hinv p hp)
    · simp only [List.mem_singleton] at hp; subst hp; exact hann
  · rw [hks, allD_node]
    refine ⟨nodeInv_rootD cfg tbl', AllD.sublist ?_ hsub⟩
    cases hr : annotate root0 with
    | mk d kids e =>
      rw [hr, allD_node] at hann
      exact hann.2

theorem loadFrom_regInv (cfg : Cfg) (fns : List (String × EV.FnSpec)) : ∀ (files : List (String × String)) (i : Nat) (m m' : Mgr),
    RegInv cfg m → loadFrom cfg fns i files m = .ok m' → RegInv cfg m'
  | [], i, m, m', hinv, h => by
    simp only [loadFrom, LoadRes.ok.injEq] at h; subst h; exact hinv
  | f :: rest, i, m, m', hinv, h => by
    rw [loadFrom] at h
    cases ha : addFile cfg fns (i + 1) f.1 f.2 m with
    | ok m1 =>
      simp only [ha] at h
      exact loadFrom_regInv cfg fns rest (i + 1) m1 m' (addFile_regInv cfg fns _ _ _ m m1 hinv ha) h
    | err => simp [ha] at h
    | panic => simp [ha] at h
    | unsupported => simp [ha] at h

theorem loadFiles_regInv (cfg : Cfg) (fns : List (String × EV.FnSpec)) (files : List (String × String)) (m : Mgr)
    (h : loadFiles cfg fns files = .ok m) : RegInv cfg m :=
  loadFrom_regInv cfg fns files 0 (emptyMgr cfg fns) m (by intro p hp; cases hp) h

/-! ## what a successful / an `unsupported` load says about every directive value of the file -/

theorem Aligned.mem_left {α β : Type} {R : α → β → Prop} {as : List α} {bs : List β} (h : Aligned R as bs) {a : α}
    (ha : a ∈ as) : ∃ b ∈ bs, R a b := by
  induction h with
  | nil => cases ha
  | cons hr _ ih =>
    rcases List.mem_cons.mp ha with rfl | ha
    · exact ⟨_, List.mem_cons_self, hr⟩
    · obtain ⟨b, hb, hr'⟩ := ih ha
      exact ⟨b, List.mem_cons_of_mem _ hb, hr'⟩

theorem mem_blockTexts {s : String} : ∀ {toks : List CS.CTok},
    s ∈ blockTexts toks ↔ ∃ t ∈ toks, t.kind = .codeValue ∧ s = String.ofList t.value
  | [] => by simp [blockTexts]
  | t :: ts => by
    rw [blockTexts]
    by_cases hk : t.kind = .codeValue
    · simp only [hk, if_true, List.mem_cons, mem_blockTexts (toks := ts)]
      constructor
      · rintro (h | ⟨t', h1, h2, h3⟩)
        · exact ⟨t, Or.inl rfl, hk, h⟩
        · exact ⟨t', Or.inr h1, h2, h3⟩
      · rintro ⟨t', h1 | h1, h2, h3⟩
        · subst h1; exact Or.inl h3
        · exact Or.inr ⟨t', h1, h2, h3⟩
    · simp only [hk, if_false, List.mem_cons, mem_blockTexts (toks := ts)]
      constructor
      · rintro ⟨t', h1, h2, h3⟩; exact ⟨t', Or.inr h1, h2, h3⟩
      · rintro ⟨t', h1 | h1, h2, h3⟩
        · subst h1; exact absurd h2 hk
        · exact ⟨t', h1, h2, h3⟩

/-- the directive value of an attribute, as `compileAttr` sees it: start position and text (`none`: no prefix or no value) -/
def attrDirVal (cfg : Cfg) (a : HS.Attr) : Option (HS.Pos × List Char) :=
  if (String.ofList a.name).startsWith cfg.attrPrefix then (attrValueOf cfg a).map (fun v => (a.valueStart, v)) else none

/-- the directive values of one token -/
def tokDirVals (cfg : Cfg) (t : HS.Token) : List (HS.Pos × List Char) :=
  match t.kind, t.tag with
  | .tag, some tg => tg.attrs.filterMap (attrDirVal cfg)
  | _, _ => []

/-- all directive values of a token list, in document order -/
def dirVals (cfg : Cfg) (toks : List HS.Token) : List (HS.Pos × List Char) := toks.flatMap (tokDirVals cfg)

/-- the source texts of all `${…}` blocks of a token list, in document order -/
def fileBlocks (cfg : Cfg) (toks : List HS.Token) : List String :=
  (dirVals cfg toks).flatMap fun p => blockTexts (CS.scan p.1 p.2)

/-- the value is accepted by the code scanner and each of its blocks is accepted in full by `ParseCode` -/
def GoodVal (p : HS.Pos × List Char) : Prop :=
  CS.Succ (CS.scan p.1 p.2) ∧ ∀ s ∈ blockTexts (CS.scan p.1 p.2), ∃ e, Accepts s e

/-- some block of the value is outside the modelled expression language -/
def UnsupVal (p : HS.Pos × List Char) : Prop := ∃ s ∈ blockTexts (CS.scan p.1 p.2), EL.parseCode s = .unsupported

theorem compileParts_unsupported : ∀ (toks : List CS.CTok) (tbl : Tbl), (compileParts toks tbl).1 = .unsupported →
    ∃ s ∈ blockTexts toks, EL.parseCode s = .unsupported
  | [], tbl, h => by simp [compileParts] at h
  | t :: ts, tbl, h => by
    rw [compileParts] at h
    have key : ∀ (p : Part) (tb : Tbl), (consPart p (compileParts ts tb)).1 = .unsupported →
        ∃ s ∈ blockTexts ts, EL.parseCode s = .unsupported := by
      intro p tb h'
      apply compileParts_unsupported ts tb
      simp only [consPart, mapRes_fst] at h'
      cases hc : (compileParts ts tb).1 <;> simp [hc, LoadRes.map] at h' ⊢
    cases hk : t.kind
    case codeValue =>
      simp only [hk] at h
      simp only [blockTexts, hk, if_true]
      cases hp : EL.parseCode (String.ofList t.value)
      case accept e =>
        simp only [hp] at h
        obtain ⟨s, hs, hu⟩ := key _ _ h
        exact ⟨s, List.mem_cons_of_mem _ hs, hu⟩
      case reject => simp [hp] at h
      case unsupported => exact ⟨_, List.mem_cons_self, hp⟩
    all_goals
      simp only [hk] at h
      simp only [blockTexts, hk, reduceCtorEq, if_false]
      exact key _ _ h

theorem compileAttrS_good (cfg : Cfg) (a : HS.Attr) (tbl tbl' : Tbl) (ca : CAttr)
    (h : compileAttrS cfg a tbl = (.ok ca, tbl')) : ∀ p, attrDirVal cfg a = some p → GoodVal p := by
  intro p hp
  unfold attrDirVal at hp
  split at hp
  · rename_i hdir
    cases hv : attrValueOf cfg a with
    | none => rw [hv] at hp; cases hp
    | some v =>
      rw [hv] at hp; cases hp
      obtain ⟨hs, es, hal, _, _⟩ := (compileAttrS_dir_ok_iff cfg a v tbl tbl' ca hdir hv).1 h
      exact ⟨hs, fun s hs' => by obtain ⟨e, _, he⟩ := hal.mem_left hs'; exact ⟨e, he⟩⟩
  · cases hp

theorem compileAttrS_unsupported (cfg : Cfg) (a : HS.Attr) (tbl : Tbl)
    (h : (compileAttrS cfg a tbl).1 = .unsupported) : ∃ p, attrDirVal cfg a = some p ∧ UnsupVal p := by
  unfold compileAttrS at h
  simp only at h
  cases hv : attrValueOf cfg a with
  | none => simp [hv] at h
  | some v =>
    simp only [hv] at h
    split at h
    · simp at h
    · rename_i hdir
      split at h
      · simp at h
      · refine ⟨(a.valueStart, v), ?_, ?_⟩
        · unfold attrDirVal; simp at hdir; simp [hdir, hv]
        · apply compileParts_unsupported _ tbl
          simp only [mkDirective, mapRes_fst] at h
          cases hc : (compileParts (CS.scan a.valueStart v) tbl).1 <;> simp [hc, LoadRes.map] at h ⊢

theorem compileAttrsS_good (cfg : Cfg) : ∀ (as : List HS.Attr) (tbl tbl' : Tbl) (cs : List CAttr),
    compileAttrsS cfg as tbl = (.ok cs, tbl') → ∀ p ∈ as.filterMap (attrDirVal cfg), GoodVal p
  | [], tbl, tbl', cs, h, p, hp => by cases hp
  | a :: as, tbl, tbl', cs, h, p, hp => by
    simp only [compileAttrsS] at h
    obtain ⟨c, t1, h1, h2⟩ := bindRes_ok h
    obtain ⟨cs0, h3, h4⟩ := mapRes_ok h2
    simp only [List.filterMap_cons] at hp
    cases hd : attrDirVal cfg a with
    | none => rw [hd] at hp; exact compileAttrsS_good cfg as t1 tbl' cs0 h3 p hp
    | some q =>
      rw [hd] at hp
      rcases List.mem_cons.mp hp with rfl | hp
      · exact compileAttrS_good cfg a tbl t1 c h1 _ hd
      · exact compileAttrsS_good cfg as t1 tbl' cs0 h3 p hp

theorem bindRes_unsupported {α β : Type} {r : LoadRes α × Tbl} {k : α → Tbl → LoadRes β × Tbl}
    (h : (bindRes r k).1 = .unsupported) : r.1 = .unsupported ∨ ∃ x, r.1 = .ok x ∧ (k x r.2).1 = .unsupported := by
  obtain ⟨r1, r2⟩ := r
  cases r1 <;> simp [bindRes] at h ⊢
  exact h

theorem mapRes_unsupported {α β : Type} {f : α → β} {r : LoadRes α × Tbl} (h : (mapRes f r).1 = .unsupported) :
    r.1 = .unsupported := by
  obtain ⟨r1, r2⟩ := r
  cases r1 <;> simp [mapRes, LoadRes.map] at h ⊢

theorem compileAttrsS_unsupported (cfg : Cfg) : ∀ (as : List HS.Attr) (tbl : Tbl),
    (compileAttrsS cfg as tbl).1 = .unsupported → ∃ p ∈ as.filterMap (attrDirVal cfg), UnsupVal p
  | [], tbl, h => by simp [compileAttrsS] at h
  | a :: as, tbl, h => by
    simp only [compileAttrsS] at h
    rcases bindRes_unsupported h with h | ⟨c, _, h⟩
    · obtain ⟨p, hp, hu⟩ := compileAttrS_unsupported cfg a tbl h
      exact ⟨p, by simp [List.filterMap_cons, hp], hu⟩
    · obtain ⟨p, hp, hu⟩ := compileAttrsS_unsupported cfg as _ (mapRes_unsupported h)
      refine ⟨p, ?_, hu⟩
      simp only [List.filterMap_cons]
      cases attrDirVal cfg a with
      | none => exact hp
      | some q => exact List.mem_cons_of_mem _ hp

theorem compileTok_good (cfg : Cfg) (id : Nat) (t : HS.Token) (tbl tbl' : Tbl) (it : Item)
    (h : compileTok cfg id t tbl = (.ok it, tbl')) : ∀ p ∈ tokDirVals cfg t, GoodVal p := by
  unfold compileTok at h
  unfold tokDirVals
  split at h
  · rename_i tg hk htag
    obtain ⟨cs, h1, _⟩ := mapRes_ok h
    simp only [hk, htag]
    exact compileAttrsS_good cfg _ _ _ _ h1
  · cases h
  · rename_i hno1 hno2
    split
    · rename_i tg hk htag; exact absurd htag (hno1 tg hk)
    · intro p hp; cases hp

theorem compileTok_unsupported (cfg : Cfg) (id : Nat) (t : HS.Token) (tbl : Tbl)
    (h : (compileTok cfg id t tbl).1 = .unsupported) : ∃ p ∈ tokDirVals cfg t, UnsupVal p := by
  unfold compileTok at h
  unfold tokDirVals
  split at h
  · rename_i tg hk htag
    simp only [hk, htag]
    exact compileAttrsS_unsupported cfg _ _ (mapRes_unsupported h)
  · simp at h
  · simp at h

theorem compileToks_good (cfg : Cfg) : ∀ (toks : List HS.Token) (id : Nat) (tbl tbl' : Tbl) (items : List Item),
    compileToks cfg id toks tbl = (.ok items, tbl') → ∀ p ∈ dirVals cfg toks, GoodVal p
  | [], id, tbl, tbl', items, h, p, hp => by simp [dirVals] at hp
  | t :: ts, id, tbl, tbl', items, h, p, hp => by
    simp only [compileToks] at h
    obtain ⟨it, t1, h1, h2⟩ := bindRes_ok h
    obtain ⟨is0, h3, h4⟩ := mapRes_ok h2
    simp only [dirVals, List.flatMap_cons, List.mem_append] at hp
    rcases hp with hp | hp
    · exact compileTok_good cfg id t tbl t1 it h1 p hp
    · exact compileToks_good cfg ts (id + 1) t1 tbl' is0 h3 p hp

theorem compileToks_unsupported (cfg : Cfg) : ∀ (toks : List HS.Token) (id : Nat) (tbl : Tbl),
    (compileToks cfg id toks tbl).1 = .unsupported → ∃ p ∈ dirVals cfg toks, UnsupVal p
  | [], id, tbl, h => by simp [compileToks] at h
  | t :: ts, id, tbl, h => by
    simp only [compileToks] at h
    simp only [dirVals, List.flatMap_cons, List.mem_append]
    rcases bindRes_unsupported h with h | ⟨c, _, h⟩
    · obtain ⟨p, hp, hu⟩ := compileTok_unsupported cfg id t tbl h
      exact ⟨p, Or.inl hp, hu⟩
    · obtain ⟨p, hp, hu⟩ := compileToks_unsupported cfg ts _ _ (mapRes_unsupported h)
      exact ⟨p, Or.inr hp, hu⟩

theorem mem_fileBlocks {cfg : Cfg} {toks : List HS.Token} {s : String} :
    s ∈ fileBlocks cfg toks ↔ ∃ p ∈ dirVals cfg toks, s ∈ blockTexts (CS.scan p.1 p.2) := by
  simp [fileBlocks, List.mem_flatMap]

/-- the result of compiling the tokens of a file: a `.unsupported` comes from a block outside the modelled language;
    `.panic` does not occur; so if some directive value is bad and the file is covered by the model, the result is `.err` -/
theorem buildTreeS_err_of_bad (cfg : Cfg) (idx : Nat) (toks : List HS.Token) (tbl : Tbl)
    (hcov : ∀ s ∈ fileBlocks cfg toks, EL.parseCode s ≠ .unsupported)
    (hbad : ∃ p ∈ dirVals cfg toks, ¬ GoodVal p) : (buildTreeS cfg idx toks tbl).1 = .err := by
  unfold buildTreeS
  rw [mapRes_fst]
  cases hc : compileToks cfg (firstId idx) toks tbl with
  | mk r t =>
    cases r with
    | ok items =>
      obtain ⟨p, hp, hb⟩ := hbad
      exact absurd (compileToks_good cfg toks _ _ _ _ hc p hp) hb
    | err => rfl
    | panic => exact absurd (by rw [hc]) (compileToks_ne_panic cfg toks (firstId idx) tbl)
    | unsupported =>
      obtain ⟨p, hp, s, hs, hu⟩ := compileToks_unsupported cfg toks (firstId idx) tbl (by rw [hc])
      exact absurd hu (hcov s (mem_fileBlocks.mpr ⟨p, hp, hs⟩))

end EN
