/-
Proofs about the fixed-ParseTokens model TplModel/Html/Tree.lean, for every token type, every
token list and every classifier `cfg`.

Headline theorems (at the end of the file):
  tree_preorder, build_ok_iff, build_total, build_err_iff, build_panic_iff, build_no_panic,
  stray_close_is_leaf (+ corollaries stray_close_mem, stray_close_head).
Core-only.
-/
import TplModel.Html.Tree

namespace TB
variable {Tok : Type}

/-! ### flattening -/

@[simp] theorem flatL_nil : flatL ([] : List (Node Tok)) = [] := by simp [flatL]

@[simp] theorem flatL_cons (n : Node Tok) (ns : List (Node Tok)) : flatL (n :: ns) = flat n ++ flatL ns := by
  simp [flatL]

@[simp] theorem flatL_append (a b : List (Node Tok)) : flatL (a ++ b) = flatL a ++ flatL b := by
  induction a with
  | nil => simp
  | cons n ns ih => simp [ih]

@[simp] theorem flat_mk (t : Tok) (kids : List (Node Tok)) (e : Option Tok) :
    flat (.mk t kids e) = t :: (flatL kids ++ e.toList) := by simp [flat]

@[simp] theorem flat_leaf (t : Tok) : flat (Node.leaf t) = [t] := by simp [Node.leaf]

/-- tokens already consumed, read off the zipper -/
def flatStack : List (Frame Tok) → List Tok
  | [] => []
  | fr :: rest => flatStack rest ++ flatL fr.before.reverse ++ [fr.tok]

def flatZ (z : Z Tok) : List Tok := flatStack z.stack ++ flatL z.cur.reverse

/-! ### the classifier -/

theorem classify_nilPtr_iff (cfg : Cfg Tok) (t : Tok) : cfg.classify t = .nilPtr ↔ cfg.nilPtr t = true := by
  unfold Cfg.classify Cfg.classifyTag
  cases cfg.nilPtr t <;> cases cfg.kind t <;> simp <;> (repeat' split) <;> simp

theorem classify_bad_iff (cfg : Cfg Tok) (t : Tok) : cfg.classify t = .bad ↔ cfg.ErrTok t := by
  unfold Cfg.classify Cfg.classifyTag Cfg.ErrTok
  cases cfg.nilPtr t <;> cases cfg.kind t <;> simp <;> (repeat' split) <;> simp_all

theorem good_iff (cfg : Cfg Tok) (t : Tok) : cfg.Good t ↔ cfg.classify t ≠ .bad ∧ cfg.classify t ≠ .nilPtr := by
  rw [Ne, Ne, classify_bad_iff, classify_nilPtr_iff]
  unfold Cfg.Good Cfg.ErrTok
  cases cfg.nilPtr t <;> cases cfg.kind t <;> cases cfg.tagNil t <;> simp

/-- every token is exactly one of: good, error token, nil pointer -/
theorem tok_trichotomy (cfg : Cfg Tok) (t : Tok) : cfg.Good t ∨ cfg.ErrTok t ∨ cfg.nilPtr t = true := by
  unfold Cfg.Good Cfg.ErrTok
  cases cfg.nilPtr t <;> cases cfg.kind t <;> cases cfg.tagNil t <;> simp

theorem not_good_of_errTok (cfg : Cfg Tok) (t : Tok) (h : cfg.ErrTok t) : ¬ cfg.Good t := by
  rw [good_iff, ← classify_bad_iff] at *; simp [h]

theorem not_good_of_nilPtr (cfg : Cfg Tok) (t : Tok) (h : cfg.nilPtr t = true) : ¬ cfg.Good t := by
  unfold Cfg.Good; simp [h]

/-! ### one step -/

theorem step_ok_iff (cfg : Cfg Tok) (z : Z Tok) (t : Tok) : (∃ z', stepTok cfg z t = .ok z') ↔ cfg.Good t := by
  rw [good_iff]; unfold stepTok
  cases hc : cfg.classify t <;> simp
  cases z.stack <;> simp

theorem step_err_iff (cfg : Cfg Tok) (z : Z Tok) (t : Tok) : stepTok cfg z t = .err ↔ cfg.ErrTok t := by
  rw [← classify_bad_iff]; unfold stepTok
  cases hc : cfg.classify t <;> simp
  cases z.stack <;> simp

theorem step_panic_iff (cfg : Cfg Tok) (z : Z Tok) (t : Tok) : stepTok cfg z t = .panic ↔ cfg.nilPtr t = true := by
  rw [← classify_nilPtr_iff]; unfold stepTok
  cases hc : cfg.classify t <;> simp
  cases z.stack <;> simp

theorem step_flat (cfg : Cfg Tok) (z z' : Z Tok) (t : Tok) (h : stepTok cfg z t = .ok z') :
    flatZ z' = flatZ z ++ [t] := by
  unfold stepTok at h
  cases hc : cfg.classify t <;> simp only [hc] at h
  case bad => cases h
  case nilPtr => cases h
  case leaf => cases h; simp [flatZ]
  case open_ => cases h; simp [flatZ, flatStack]
  case close =>
    cases hs : z.stack with
    | nil => simp only [hs] at h; cases h; simp [flatZ, hs]
    | cons fr rest => simp only [hs] at h; cases h; simp [flatZ, flatStack, hs]

theorem step_depth (cfg : Cfg Tok) (z z' : Z Tok) (t : Tok) (h : stepTok cfg z t = .ok z') :
    z'.stack.length = depthStep cfg z.stack.length t := by
  unfold stepTok at h; unfold depthStep
  cases hc : cfg.classify t <;> simp only [hc] at h ⊢
  case bad => cases h
  case nilPtr => cases h
  case leaf => cases h; rfl
  case open_ => cases h; simp
  case close =>
    cases hs : z.stack with
    | nil => simp only [hs] at h; cases h; simp
    | cons fr rest => simp only [hs] at h; cases h; simp

/-! ### the loop -/

theorem run_append (cfg : Cfg Tok) (z : Z Tok) (a b : List Tok) :
    run cfg z (a ++ b) = match run cfg z a with
      | .ok z' => run cfg z' b
      | .err => .err
      | .panic => .panic := by
  induction a generalizing z with
  | nil => simp [run]
  | cons t ts ih =>
    simp only [List.cons_append, run]
    cases stepTok cfg z t <;> simp [ih]

theorem run_flat (cfg : Cfg Tok) (toks : List Tok) (z z' : Z Tok) (h : run cfg z toks = .ok z') :
    flatZ z' = flatZ z ++ toks := by
  induction toks generalizing z with
  | nil => simp only [run] at h; cases h; simp
  | cons t ts ih =>
    simp only [run] at h
    cases hs : stepTok cfg z t with
    | ok z1 => simp only [hs] at h; simp [ih z1 h, step_flat cfg z z1 t hs]
    | err => simp [hs] at h
    | panic => simp [hs] at h

theorem run_depth (cfg : Cfg Tok) (toks : List Tok) (z z' : Z Tok) (h : run cfg z toks = .ok z') :
    z'.stack.length = toks.foldl (depthStep cfg) z.stack.length := by
  induction toks generalizing z with
  | nil => simp only [run] at h; cases h; simp
  | cons t ts ih =>
    simp only [run] at h
    cases hs : stepTok cfg z t with
    | ok z1 => simp only [hs] at h; simp [ih z1 h, step_depth cfg z z1 t hs]
    | err => simp [hs] at h
    | panic => simp [hs] at h

theorem run_ok_iff (cfg : Cfg Tok) (toks : List Tok) (z : Z Tok) :
    (∃ z', run cfg z toks = .ok z') ↔ ∀ t ∈ toks, cfg.Good t := by
  induction toks generalizing z with
  | nil => simp [run]
  | cons t ts ih =>
    simp only [run, List.forall_mem_cons]
    cases hs : stepTok cfg z t with
    | ok z1 =>
      have hg : cfg.Good t := (step_ok_iff cfg z t).1 ⟨z1, hs⟩
      simp [ih z1, hg]
    | err =>
      have : ¬ cfg.Good t := fun hg => by
        obtain ⟨z1, h1⟩ := (step_ok_iff cfg z t).2 hg; simp [hs] at h1
      simp [this]
    | panic =>
      have : ¬ cfg.Good t := fun hg => by
        obtain ⟨z1, h1⟩ := (step_ok_iff cfg z t).2 hg; simp [hs] at h1
      simp [this]

theorem run_err_iff (cfg : Cfg Tok) (toks : List Tok) (z : Z Tok) :
    run cfg z toks = .err ↔
      ∃ pre t post, toks = pre ++ t :: post ∧ (∀ u ∈ pre, cfg.Good u) ∧ cfg.ErrTok t := by
  induction toks generalizing z with
  | nil => simp [run]
  | cons t ts ih =>
    simp only [run]
    cases hs : stepTok cfg z t with
    | ok z1 =>
      have hg : cfg.Good t := (step_ok_iff cfg z t).1 ⟨z1, hs⟩
      simp only [ih z1]
      constructor
      · rintro ⟨pre, u, post, rfl, hp, hu⟩
        exact ⟨t :: pre, u, post, rfl, by simpa [hg] using hp, hu⟩
      · rintro ⟨pre, u, post, he, hp, hu⟩
        cases pre with
        | nil =>
          simp only [List.nil_append, List.cons.injEq] at he
          obtain ⟨rfl, rfl⟩ := he
          exact absurd hg (not_good_of_errTok cfg _ hu)
        | cons p pre =>
          simp only [List.cons_append, List.cons.injEq] at he
          obtain ⟨rfl, rfl⟩ := he
          exact ⟨pre, u, post, rfl, fun v hv => hp v (List.mem_cons_of_mem _ hv), hu⟩
    | err =>
      have he : cfg.ErrTok t := (step_err_iff cfg z t).1 hs
      simp only [true_iff]
      exact ⟨[], t, ts, rfl, by simp, he⟩
    | panic =>
      have hn : cfg.nilPtr t = true := (step_panic_iff cfg z t).1 hs
      simp only [reduceCtorEq, false_iff]
      rintro ⟨pre, u, post, he, hp, hu⟩
      cases pre with
      | nil =>
        simp only [List.nil_append, List.cons.injEq] at he
        obtain ⟨rfl, rfl⟩ := he
        unfold Cfg.ErrTok at hu; simp [hn] at hu
      | cons p pre =>
        simp only [List.cons_append, List.cons.injEq] at he
        obtain ⟨rfl, rfl⟩ := he
        exact not_good_of_nilPtr cfg _ hn (hp _ (List.mem_cons_self))

theorem run_panic_iff (cfg : Cfg Tok) (toks : List Tok) (z : Z Tok) :
    run cfg z toks = .panic ↔
      ∃ pre t post, toks = pre ++ t :: post ∧ (∀ u ∈ pre, cfg.Good u) ∧ cfg.nilPtr t = true := by
  induction toks generalizing z with
  | nil => simp [run]
  | cons t ts ih =>
    simp only [run]
    cases hs : stepTok cfg z t with
    | ok z1 =>
      have hg : cfg.Good t := (step_ok_iff cfg z t).1 ⟨z1, hs⟩
      simp only [ih z1]
      constructor
      · rintro ⟨pre, u, post, rfl, hp, hu⟩
        exact ⟨t :: pre, u, post, rfl, by simpa [hg] using hp, hu⟩
      · rintro ⟨pre, u, post, he, hp, hu⟩
        cases pre with
        | nil =>
          simp only [List.nil_append, List.cons.injEq] at he
          obtain ⟨rfl, rfl⟩ := he
          exact absurd hg (not_good_of_nilPtr cfg _ hu)
        | cons p pre =>
          simp only [List.cons_append, List.cons.injEq] at he
          obtain ⟨rfl, rfl⟩ := he
          exact ⟨pre, u, post, rfl, fun v hv => hp v (List.mem_cons_of_mem _ hv), hu⟩
    | panic =>
      have hn : cfg.nilPtr t = true := (step_panic_iff cfg z t).1 hs
      simp only [true_iff]
      exact ⟨[], t, ts, rfl, by simp, hn⟩
    | err =>
      have he : cfg.ErrTok t := (step_err_iff cfg z t).1 hs
      simp only [reduceCtorEq, false_iff]
      rintro ⟨pre, u, post, hq, hp, hu⟩
      cases pre with
      | nil =>
        simp only [List.nil_append, List.cons.injEq] at hq
        obtain ⟨rfl, rfl⟩ := hq
        unfold Cfg.ErrTok at he; simp [hu] at he
      | cons p pre =>
        simp only [List.cons_append, List.cons.injEq] at hq
        obtain ⟨rfl, rfl⟩ := hq
        exact not_good_of_errTok cfg _ he (hp _ (List.mem_cons_self))

/-! ### reading the tree off the zipper -/

theorem closeAll_flat (stack : List (Frame Tok)) (cur : List (Node Tok)) :
    flatL (closeAll stack cur).reverse = flatStack stack ++ flatL cur.reverse := by
  induction stack generalizing cur with
  | nil => simp [closeAll, flatStack]
  | cons fr rest ih => simp [closeAll, flatStack, ih]

/-- the (reversed) list of root children that are already complete -/
def bottom : List (Frame Tok) → List (Node Tok) → List (Node Tok)
  | [], cur => cur
  | fr :: rest, _ => bottom rest fr.before

theorem bottom_cons (rest : List (Frame Tok)) (n : Node Tok) (b : List (Node Tok)) :
    ∃ X, bottom rest (n :: b) = X ++ bottom rest b := by
  cases rest with
  | nil => exact ⟨[n], rfl⟩
  | cons fr rest => exact ⟨[], rfl⟩

theorem closeAll_bottom (stack : List (Frame Tok)) (cur : List (Node Tok)) :
    ∃ Y, closeAll stack cur = Y ++ bottom stack cur := by
  induction stack generalizing cur with
  | nil => exact ⟨[], rfl⟩
  | cons fr rest ih =>
    obtain ⟨Y, hY⟩ := ih (.mk fr.tok cur.reverse none :: fr.before)
    obtain ⟨X, hX⟩ := bottom_cons rest (.mk fr.tok cur.reverse none) fr.before
    exact ⟨Y ++ X, by simp [closeAll, bottom, hY, hX]⟩

theorem step_bottom (cfg : Cfg Tok) (z z' : Z Tok) (t : Tok) (h : stepTok cfg z t = .ok z') :
    ∃ X, bottom z'.stack z'.cur = X ++ bottom z.stack z.cur := by
  unfold stepTok at h
  cases hc : cfg.classify t <;> simp only [hc] at h
  case bad => cases h
  case nilPtr => cases h
  case leaf => cases h; exact bottom_cons _ _ _
  case open_ => cases h; exact ⟨[], rfl⟩
  case close =>
    cases hs : z.stack with
    | nil => simp only [hs] at h; cases h; exact ⟨[Node.leaf t], rfl⟩
    | cons fr rest => simp only [hs] at h; cases h; exact bottom_cons _ _ _

theorem run_bottom (cfg : Cfg Tok) (toks : List Tok) (z z' : Z Tok) (h : run cfg z toks = .ok z') :
    ∃ X, bottom z'.stack z'.cur = X ++ bottom z.stack z.cur := by
  induction toks generalizing z with
  | nil => simp only [run] at h; cases h; exact ⟨[], rfl⟩
  | cons t ts ih =>
    simp only [run] at h
    cases hs : stepTok cfg z t with
    | ok z1 =>
      simp only [hs] at h
      obtain ⟨X1, h1⟩ := step_bottom cfg z z1 t hs
      obtain ⟨X2, h2⟩ := ih z1 h
      exact ⟨X2 ++ X1, by simp [h2, h1]⟩
    | err => simp [hs] at h
    | panic => simp [hs] at h

theorem build_eq_ok (cfg : Cfg Tok) (toks : List Tok) (d : Doc Tok) :
    build cfg toks = .ok d ↔ ∃ z, run cfg .init toks = .ok z ∧ d = z.doc := by
  unfold build
  cases run cfg .init toks <;> simp [eq_comm]

/-! ## headline theorems -/

/-- **tree_preorder** (C01, second clause).  The pre-order walk of the built tree — node token,
    children, then the node's End token if it has one — is exactly the input token list: no token
    dropped, duplicated or reordered.  For every token list and every classifier. -/
theorem tree_preorder (cfg : Cfg Tok) (toks : List Tok) (d : Doc Tok) (h : build cfg toks = .ok d) :
    d.flat = toks := by
  obtain ⟨z, hz, rfl⟩ := (build_eq_ok cfg toks d).1 h
  have hf := run_flat cfg toks _ z hz
  simpa [Doc.flat, Z.doc, closeAll_flat, flatZ, Z.init, flatStack] using hf

/-- non-vacuity: an unbalanced input with a stray close, an unclosed element, a void and a self-closing tag -/
example : ∃ d, build demo [.cl "p", .op "a", .op "br", .sc "i", .op "b", .cl "a", .txt "x"] = .ok d ∧
    d.flat = [.cl "p", .op "a", .op "br", .sc "i", .op "b", .cl "a", .txt "x"] := by
  obtain ⟨d, hd⟩ : ∃ d, build demo [.cl "p", .op "a", .op "br", .sc "i", .op "b", .cl "a", .txt "x"] = .ok d := ⟨_, rfl⟩
  exact ⟨d, hd, tree_preorder _ _ _ hd⟩

/-- **build_ok_iff**: the builder succeeds exactly on lists of good tokens (non-nil pointer, kind
    Tag with a Tag / Text / Comment / CDATA). -/
theorem build_ok_iff (cfg : Cfg Tok) (toks : List Tok) :
    (∃ d, build cfg toks = .ok d) ↔ ∀ t ∈ toks, cfg.Good t := by
  rw [← run_ok_iff cfg toks .init]
  constructor
  · rintro ⟨d, h⟩; obtain ⟨z, hz, _⟩ := (build_eq_ok cfg toks d).1 h; exact ⟨z, hz⟩
  · rintro ⟨z, hz⟩; exact ⟨z.doc, (build_eq_ok cfg toks _).2 ⟨z, hz, rfl⟩⟩

/-- **build_total**: on tag (with `Tag ≠ nil`) / text / comment / cdata tokens the builder returns a tree. -/
theorem build_total (cfg : Cfg Tok) (toks : List Tok) (h : ∀ t ∈ toks, cfg.Good t) :
    ∃ d, build cfg toks = .ok d := (build_ok_iff cfg toks).2 h

example : ∀ t ∈ [DTok.cl "p", .op "a", .txt "x"], demo.Good t := by decide
example : ¬ demo.Good .errTok := by decide
example : ¬ demo.Good .nilTag := by decide

/-- **build_err_iff**: the only way to the `err` outcome is a token of kind Error (or unknown kind)
    or a tag token whose Tag is nil, reached after good tokens only. -/
theorem build_err_iff (cfg : Cfg Tok) (toks : List Tok) :
    build cfg toks = .err ↔
      ∃ pre t post, toks = pre ++ t :: post ∧ (∀ u ∈ pre, cfg.Good u) ∧ cfg.ErrTok t := by
  rw [← run_err_iff cfg toks .init]
  unfold build
  cases run cfg .init toks <;> simp

example : build demo [.op "a", .nilTag, .txt "x"] = .err := rfl
example : demo.ErrTok .nilTag ∧ demo.ErrTok .errTok := by decide

/-- **build_panic_iff**: the only way to the `panic` outcome is a nil `*Token` in the slice
    (`token.Kind` on a nil pointer); the stray-close nil dereference of the old code is gone. -/
theorem build_panic_iff (cfg : Cfg Tok) (toks : List Tok) :
    build cfg toks = .panic ↔
      ∃ pre t post, toks = pre ++ t :: post ∧ (∀ u ∈ pre, cfg.Good u) ∧ cfg.nilPtr t = true := by
  rw [← run_panic_iff cfg toks .init]
  unfold build
  cases run cfg .init toks <;> simp

/-- **build_no_panic**: with no nil `*Token` in the slice (the scanner allocates every token it
    appends), ParseTokens does not panic — whatever the tokens are, balanced or not. -/
theorem build_no_panic (cfg : Cfg Tok) (toks : List Tok) (h : ∀ t ∈ toks, cfg.nilPtr t = false) :
    build cfg toks ≠ .panic := by
  intro hp
  obtain ⟨pre, t, post, rfl, _, hn⟩ := (build_panic_iff cfg _).1 hp
  have := h t (by simp)
  simp [hn] at this

/-- non-vacuity: the old crasher `</x>text` and the hypothesis on an arbitrary demo list -/
example (toks : List DTok) : build demo toks ≠ .panic := build_no_panic demo toks (fun _ _ => rfl)
example (cfg : Cfg Nat) (hn : ∀ t, cfg.nilPtr t = false) : build cfg [0, 1] ≠ .panic :=
  build_no_panic cfg _ (fun t _ => hn t)

/-- the depth of `node` after `pre` is the length of the zipper stack -/
theorem run_init_depth (cfg : Cfg Tok) (pre : List Tok) (z : Z Tok) (h : run cfg .init pre = .ok z) :
    z.stack.length = depth cfg pre := by
  simpa [depth, Z.init] using run_depth cfg pre .init z h

/-- **stray_close_is_leaf**: a closing tag `c` met at depth 0 (after a prefix `pre` that leaves
    `node` at the root) is a child of the root with no children and no End; the root children before
    it are exactly the tree of `pre`, the root children after it flatten to `post`. -/
theorem stray_close_is_leaf (cfg : Cfg Tok) (pre post : List Tok) (c : Tok) (d : Doc Tok)
    (hc : cfg.classify c = .close) (hd : depth cfg pre = 0)
    (h : build cfg (pre ++ c :: post) = .ok d) :
    ∃ a b, d.kids = a ++ Node.mk c [] none :: b ∧ build cfg pre = .ok ⟨a⟩ ∧ flatL a = pre ∧ flatL b = post := by
  obtain ⟨z, hz, rfl⟩ := (build_eq_ok cfg _ d).1 h
  rw [run_append] at hz
  cases h1 : run cfg .init pre with
  | err => simp [h1] at hz
  | panic => simp [h1] at hz
  | ok z1 =>
    simp only [h1, run] at hz
    have hs1 : z1.stack = [] := by
      have := run_init_depth cfg pre z1 h1
      rw [hd] at this
      exact List.eq_nil_of_length_eq_zero this
    have hstep : stepTok cfg z1 c = .ok ⟨[], Node.leaf c :: z1.cur⟩ := by
      simp [stepTok, hc, hs1]
    simp only [hstep] at hz
    obtain ⟨X, hX⟩ := run_bottom cfg post _ z hz
    obtain ⟨Y, hY⟩ := closeAll_bottom z.stack z.cur
    have hpre : build cfg pre = .ok ⟨z1.cur.reverse⟩ := by
      simp [build, h1, Z.doc, hs1, closeAll]
    have hfa : flatL z1.cur.reverse = pre := tree_preorder cfg pre _ hpre
    have hkids : (Z.doc z).kids = z1.cur.reverse ++ Node.mk c [] none :: (Y ++ X).reverse := by
      simp [Z.doc, hY, hX, bottom, Node.leaf]
    refine ⟨z1.cur.reverse, (Y ++ X).reverse, hkids, hpre, hfa, ?_⟩
    have hall := tree_preorder cfg _ _ h
    rw [Doc.flat, hkids] at hall
    simp only [flatL_append, flatL_cons, flat_mk, flatL_nil, Option.toList_none, List.append_nil,
      hfa] at hall
    simpa using hall

/-- corollary: the stray closing tag is a leaf child of the root -/
theorem stray_close_mem (cfg : Cfg Tok) (pre post : List Tok) (c : Tok) (d : Doc Tok)
    (hc : cfg.classify c = .close) (hd : depth cfg pre = 0)
    (h : build cfg (pre ++ c :: post) = .ok d) : Node.mk c [] none ∈ d.kids := by
  obtain ⟨a, b, hk, _⟩ := stray_close_is_leaf cfg pre post c d hc hd h
  simp [hk]

/-- corollary: a closing tag as the very first token is the first child of the root -/
theorem stray_close_head (cfg : Cfg Tok) (post : List Tok) (c : Tok) (d : Doc Tok)
    (hc : cfg.classify c = .close) (h : build cfg (c :: post) = .ok d) :
    ∃ b, d.kids = Node.mk c [] none :: b ∧ flatL b = post := by
  obtain ⟨a, b, hk, ha, _, hb⟩ := stray_close_is_leaf cfg [] post c d hc rfl h
  simp only [build, run, Z.doc, Z.init, closeAll, List.reverse_nil, Res.ok.injEq, Doc.mk.injEq] at ha
  subst ha
  exact ⟨b, by simpa using hk, hb⟩

/-- non-vacuity: `<a>x</a></p>y<b>` — `</p>` arrives at depth 0 after a balanced prefix -/
example : demo.classify (.cl "p") = .close ∧ depth demo [.op "a", .txt "x", .cl "a"] = 0 ∧
    ∃ d, build demo ([.op "a", .txt "x", .cl "a"] ++ .cl "p" :: [.txt "y", .op "b"]) = .ok d ∧
      Node.mk (.cl "p") [] none ∈ d.kids := by
  refine ⟨by decide, by decide, _, rfl, ?_⟩
  exact stray_close_mem demo [.op "a", .txt "x", .cl "a"] [.txt "y", .op "b"] (.cl "p") _ (by decide) (by decide) rfl

/-- and the converse situation for contrast: at depth > 0 the closing tag becomes an End, not a leaf -/
example : build demo [.op "a", .cl "p"] = .ok ⟨[.mk (.op "a") [] (some (.cl "p"))]⟩ := rfl

end TB
