import TplModel.Exp.Lex
import TplModel.Exp.Eval
import TplModel.Exp.Encode
/-! Helper lemmas for property C14 (string literal encoders vs. lexer and decoder). -/
namespace ENC
open EV EL

/-! ## facts about the encoder -/

theorem hexNum_hexDigit : ∀ n, n < 128 → hexNum [hexDigit (n / 16), hexDigit (n % 16)] = n := by decide
theorem hexDigit_isHex : ∀ d, d < 16 → isHex (hexDigit d) = true := by decide

theorem hexDigit_plain : ∀ d, d < 16 → hexDigit d ≠ '\\' ∧ hexDigit d ≠ '"' := by decide

theorem isCtl_lt {c : Char} (h : isCtl c = true) : c.toNat < 128 := by
  simp [isCtl] at h; omega

theorem encodeChar_length_pos (q c : Char) : 0 < (encodeChar q c).length := by
  unfold encodeChar; repeat' split
  all_goals simp

/-! ## decoder: one encoded character is one step of `unquoteBody` -/

theorem uq_nil (f : Nat) (acc : List Char) : unquoteBody (f+1) [] acc = .ok (String.ofList acc.reverse) := by
  simp [unquoteBody]

theorem uq_lit (f : Nat) (c : Char) (rest acc : List Char) (h1 : c ≠ '"') (h2 : c ≠ '\n') (h3 : c ≠ '\\') :
    unquoteBody (f+1) (c :: rest) acc = unquoteBody f rest (c :: acc) := by
  simp [unquoteBody, h1, h2, h3]

theorem uq_x (f : Nat) (a b : Char) (rest acc : List Char) :
    unquoteBody (f+1) ('\\' :: 'x' :: a :: b :: rest) acc =
      if hexNum [a, b] < 128 then unquoteBody f rest (Char.ofNat (hexNum [a, b]) :: acc) else .unsupported := by
  rfl

theorem uq_encodeChar (f : Nat) (c : Char) (rest acc : List Char) :
    unquoteBody (f+1) (encodeChar '"' c ++ rest) acc = unquoteBody f rest (c :: acc) := by
  unfold encodeChar
  split
  · subst c; rfl
  split
  · subst c; rfl
  split
  · subst c; rfl
  split
  · subst c; rfl
  split
  · subst c; rfl
  split
  · rename_i hc
    have hlt := isCtl_lt hc
    simp only [List.cons_append, List.nil_append, uq_x, hexNum_hexDigit _ hlt, hlt, if_true, Char.ofNat_toNat]
  · rename_i h1 h2 h3 _ _ _
    exact uq_lit f c rest acc h2 h3 h1

theorem uq_encodeBody (s : List Char) : ∀ (f : Nat) (acc : List Char), (encodeBody '"' s).length < f →
    unquoteBody f (encodeBody '"' s) acc = .ok (String.ofList (acc.reverse ++ s)) := by
  induction s with
  | nil =>
    intro f acc hf
    obtain ⟨f, rfl⟩ : ∃ g, f = g + 1 := ⟨f - 1, by omega⟩
    simp [encodeBody, uq_nil]
  | cons c s ih =>
    intro f acc hf
    obtain ⟨f, rfl⟩ : ∃ g, f = g + 1 := ⟨f - 1, by omega⟩
    have hp := encodeChar_length_pos '"' c
    simp only [encodeBody, List.length_append] at hf ⊢
    rw [uq_encodeChar, ih f (c :: acc) (by omega)]
    simp

/-! ## `sq2dq` maps the single-quote encoding to the double-quote encoding -/

theorem sq2dq_lit (c : Char) (rest : List Char) (h1 : c ≠ '\\') (h2 : c ≠ '"') :
    sq2dq (c :: rest) = c :: sq2dq rest := by
  rw [sq2dq]
  · intro r h; exact absurd h h1
  · intro d r h; exact absurd h h1
  · intro h; exact absurd h h2

theorem sq2dq_esc (d : Char) (rest : List Char) (h : d ≠ '\'') :
    sq2dq ('\\' :: d :: rest) = '\\' :: d :: sq2dq rest := by
  rw [sq2dq]
  intro hh; exact absurd hh h

theorem sq2dq_encodeChar (c : Char) (rest : List Char) :
    sq2dq (encodeChar '\'' c ++ rest) = encodeChar '"' c ++ sq2dq rest := by
  by_cases h1 : c = '\\'
  · subst c; simp [encodeChar, sq2dq]
  by_cases h2 : c = '\''
  · subst c; simp [encodeChar, sq2dq, isCtl]
  by_cases h3 : c = '"'
  · subst c; simp [encodeChar, sq2dq, isCtl]
  by_cases h4 : c = '\n'
  · subst c; simp [encodeChar, sq2dq]
  by_cases h5 : c = '\r'
  · subst c; simp [encodeChar, sq2dq]
  by_cases h6 : c = '\t'
  · subst c; simp [encodeChar, sq2dq]
  by_cases h7 : isCtl c = true
  · have hlt := isCtl_lt h7
    have ha := hexDigit_plain (c.toNat / 16) (by omega)
    have hb := hexDigit_plain (c.toNat % 16) (by omega)
    simp [encodeChar, h1, h2, h3, h4, h5, h6, h7, sq2dq_esc, sq2dq_lit, ha, hb]
  · simp [encodeChar, h1, h2, h3, h4, h5, h6, h7, sq2dq_lit]

theorem sq2dq_encodeBody (s : List Char) : sq2dq (encodeBody '\'' s) = encodeBody '"' s := by
  induction s with
  | nil => simp [encodeBody, sq2dq]
  | cons c s ih => simp [encodeBody, sq2dq_encodeChar, ih]

/-! ## lexer: one encoded character is one iteration of the string rule -/

theorem escSet : "abfnrtv\\'\"".toList = ['a', 'b', 'f', 'n', 'r', 't', 'v', '\\', '\'', '"'] := by rfl

theorem strBody_lit (q : Char) (f : Nat) (c : Char) (rest : List Char) (h1 : c ≠ q) (h2 : c ≠ '\\') :
    strBody q (f+1) (c :: rest) = (strBody q f rest).map (· + 1) := by
  simp [strBody, h1, h2]

theorem strBody_esc (q : Char) (f : Nat) (rest : List Char) (hq : q ≠ '\\') (n : Nat) (hn : n ≠ 0)
    (he : escaped rest = n) :
    strBody q (f+1) ('\\' :: rest) = (strBody q f (rest.drop n)).map (· + 1 + n) := by
  have : '\\' ≠ q := fun h => hq h.symm
  simp [strBody, this, he, hn]

theorem strBody_encodeChar (q : Char) (hq : q = '"' ∨ q = '\'') (f : Nat) (c : Char) (rest : List Char) :
    strBody q (f+1) (encodeChar q c ++ rest) = (strBody q f rest).map (· + (encodeChar q c).length) := by
  have hq' : q ≠ '\\' := by rcases hq with rfl | rfl <;> decide
  unfold encodeChar
  split
  · rw [List.cons_append, strBody_esc q f _ hq' 1 (by decide) (by simp [escaped])]; rfl
  split
  · rw [List.cons_append, strBody_esc q f _ hq' 1 (by decide) (by rcases hq with rfl | rfl <;> simp [escaped])]; rfl
  split
  · rw [List.cons_append, strBody_esc q f _ hq' 1 (by decide) (by simp [escaped])]; rfl
  split
  · rw [List.cons_append, strBody_esc q f _ hq' 1 (by decide) (by simp [escaped])]; rfl
  split
  · rw [List.cons_append, strBody_esc q f _ hq' 1 (by decide) (by simp [escaped])]; rfl
  split
  · rename_i hc
    have hlt := isCtl_lt hc
    have ha := hexDigit_isHex (c.toNat / 16) (by omega)
    have hb := hexDigit_isHex (c.toNat % 16) (by omega)
    rw [List.cons_append, strBody_esc q f _ hq' 3 (by decide) (by simp [escaped, hexN, ha, hb])]; rfl
  · rename_i h1 h2 _ _ _ _
    rw [List.cons_append, strBody_lit q f c _ h2 h1]; rfl

theorem strBody_encodeBody (q : Char) (hq : q = '"' ∨ q = '\'') (s tail : List Char) :
    ∀ f, (encodeBody q s).length < f →
      strBody q f (encodeBody q s ++ q :: tail) = some ((encodeBody q s).length + 1) := by
  induction s with
  | nil =>
    intro f hf
    obtain ⟨f, rfl⟩ : ∃ g, f = g + 1 := ⟨f - 1, by omega⟩
    simp [encodeBody, strBody]
  | cons c s ih =>
    intro f hf
    obtain ⟨f, rfl⟩ : ∃ g, f = g + 1 := ⟨f - 1, by omega⟩
    have hp := encodeChar_length_pos q c
    simp only [encodeBody, List.length_append, List.append_assoc] at hf ⊢
    rw [strBody_encodeChar q hq, ih f (by omega)]
    simp; omega

/-! ## `EV.unquoteBody` is the reference reading `unquoteQ '"' false` -/

theorem uqB_esc (f : Nat) (d : Char) (r acc : List Char) :
    unquoteBody (f+1) ('\\' :: d :: r) acc
      = escCont (fun r ch => unquoteBody f r (ch :: acc)) (decEsc '"' false (d :: r)) := by
  by_cases h : d = 'a'
  · subst h; simp [unquoteBody, decEsc, decEsc1, escCont, simpleEsc]
  by_cases h : d = 'b'
  · subst h; simp [unquoteBody, decEsc, decEsc1, escCont, simpleEsc]
  by_cases h : d = 'f'
  · subst h; simp [unquoteBody, decEsc, decEsc1, escCont, simpleEsc]
  by_cases h : d = 'n'
  · subst h; simp [unquoteBody, decEsc, decEsc1, escCont, simpleEsc]
  by_cases h : d = 'r'
  · subst h; simp [unquoteBody, decEsc, decEsc1, escCont, simpleEsc]
  by_cases h : d = 't'
  · subst h; simp [unquoteBody, decEsc, decEsc1, escCont, simpleEsc]
  by_cases h : d = 'v'
  · subst h; simp [unquoteBody, decEsc, decEsc1, escCont, simpleEsc]
  by_cases h : d = '\\'
  · subst h; simp [unquoteBody, decEsc, decEsc1, escCont, simpleEsc]
  by_cases h : d = '"'
  · subst h; simp [unquoteBody, decEsc, decEsc1, escCont, simpleEsc]
  by_cases h : d = 'x'
  · subst h
    rcases r with _ | ⟨a, _ | ⟨b, r⟩⟩ <;> simp [unquoteBody, decEsc, decEsc1, escCont, simpleEsc, escX]
    by_cases hh : hexNum [a, b] < 128 <;> simp [hh]
  by_cases h : d = 'u'
  · subst h
    rcases r with _ | ⟨a, _ | ⟨b, _ | ⟨c, _ | ⟨e, r⟩⟩⟩⟩ <;>
      simp [unquoteBody, decEsc, decEsc1, escCont, simpleEsc, escU4]
    by_cases hh : 0xD800 ≤ hexNum [a, b, c, e] ∧ hexNum [a, b, c, e] < 0xE000 <;> simp [hh]
  by_cases h : d = 'U'
  · subst h
    rcases r with _ | ⟨a, _ | ⟨b, _ | ⟨c, _ | ⟨e, _ | ⟨g, _ | ⟨h, _ | ⟨i, _ | ⟨j, r⟩⟩⟩⟩⟩⟩⟩⟩ <;>
      simp [unquoteBody, decEsc, decEsc1, escCont, simpleEsc, escU8]
    by_cases hh : hexNum [a, b, c, e, g, h, i, j] > 0x10FFFF ∨ (0xD800 ≤ hexNum [a, b, c, e, g, h, i, j] ∧ hexNum [a, b, c, e, g, h, i, j] < 0xE000) <;> simp [hh]
  by_cases h : d = '\''
  · subst h
    rcases r with _ | ⟨b, _ | ⟨c, r⟩⟩ <;> simp [unquoteBody, decEsc, decEsc1, escCont, simpleEsc]
  rcases r with _ | ⟨b, _ | ⟨c, r⟩⟩ <;> simp [unquoteBody, decEsc, decEsc1, escCont, simpleEsc, escOct, *]
  by_cases h1 : '0' ≤ d ∧ d ≤ '7' <;> by_cases h2 : 255 < octNum [d, b, c] <;>
    by_cases h3 : octNum [d, b, c] < 128 <;> simp [h1, h2, h3]

theorem unquoteBody_eq (f : Nat) (b acc : List Char) : unquoteBody f b acc = unquoteQ '"' false f b acc := by
  induction f generalizing b acc with
  | zero => simp [unquoteBody, unquoteQ]
  | succ f ih =>
    rcases b with _ | ⟨c, rest⟩
    · simp [unquoteBody, unquoteQ]
    by_cases hq : c = '"' ∨ c = '\n'
    · rcases hq with rfl | rfl
      · simp [unquoteBody, unquoteQ]
      · simp [unquoteBody, unquoteQ]
    by_cases hb : c = '\\'
    · subst hb
      rcases rest with _ | ⟨d, r⟩
      · simp [unquoteBody, unquoteQ, decEsc, escCont]
      · rw [uqB_esc]; simp [unquoteQ, ih]
    · simp at hq
      simp [unquoteBody, unquoteQ, hq, hb, ih]

/-! ## sq2dq -/

theorem isHex_plain {a : Char} (h : isHex a = true) : a ≠ '\\' ∧ a ≠ '"' ∧ a ≠ '\'' := by
  refine ⟨?_, ?_, ?_⟩ <;> (rintro rfl; revert h; decide)
theorem isOct_plain {a : Char} (h : isOct a = true) : a ≠ '\\' ∧ a ≠ '"' ∧ a ≠ '\'' := by
  refine ⟨?_, ?_, ?_⟩ <;> (rintro rfl; revert h; decide)

theorem sq2dq_hex {a : Char} (h : isHex a = true) (r : List Char) : sq2dq (a :: r) = a :: sq2dq r :=
  sq2dq_lit a r (isHex_plain h).1 (isHex_plain h).2.1
theorem sq2dq_oct {a : Char} (h : isOct a = true) (r : List Char) : sq2dq (a :: r) = a :: sq2dq r :=
  sq2dq_lit a r (isOct_plain h).1 (isOct_plain h).2.1

theorem hexN_snoc (k : Nat) (r : List Char) : hexN k (r ++ ['\'']) = hexN k r := by
  unfold hexN
  by_cases h : k ≤ r.length
  · have h' : k ≤ r.length + 1 := by omega
    simp [List.take_append_of_le_length h, h, h']
  · by_cases h2 : k = r.length + 1
    · subst h2
      have ht : List.take (r.length + 1) (r ++ ['\'']) = r ++ ['\''] := List.take_of_length_le (by simp)
      have hq : isHex '\'' = false := by decide
      simp [ht, hq]; omega
    · have h3 : ¬ (k ≤ r.length + 1) := by omega
      simp [h, h3]

theorem escaped_snoc (rest : List Char) (h : rest ≠ []) : escaped (rest ++ ['\'']) = escaped rest := by
  rcases rest with _ | ⟨d, r⟩
  · exact absurd rfl h
  by_cases h1 : d = 'u'
  · subst h1; simp [escaped, hexN_snoc]
  by_cases h2 : d = 'U'
  · subst h2; simp [escaped, hexN_snoc]
  by_cases h3 : d = 'x'
  · subst h3; simp [escaped, hexN_snoc]
  have hq : isOct '\'' = false := by decide
  rcases r with _ | ⟨a, _ | ⟨b, r⟩⟩ <;> simp [escaped, hq]

theorem escaped_le (rest : List Char) : escaped rest ≤ rest.length := by
  rcases rest with _ | ⟨d, r⟩
  · simp [escaped]
  by_cases h1 : d = 'u'
  · subst h1; simp [escaped, hexN]; split <;> omega
  by_cases h2 : d = 'U'
  · subst h2; simp [escaped, hexN]; split <;> omega
  by_cases h3 : d = 'x'
  · subst h3; simp [escaped, hexN]; split <;> omega
  rcases r with _ | ⟨a, _ | ⟨b, r⟩⟩ <;> simp [escaped] <;> repeat' split
  all_goals omega

/-- relation between the escape decoders on a body and on its `sq2dq` image -/
def EscRel (d : Char) (r : List Char) (n : Nat) : Prop :=
  (decEsc '\'' true (d :: r) = .bad ∧ decEsc '"' false (d :: sq2dq r) = .bad) ∨
  (decEsc '\'' true (d :: r) = .unsupported ∧ decEsc '"' false (d :: sq2dq r) = .unsupported) ∨
  (∃ c, decEsc '\'' true (d :: r) = .ch c ((d :: r).drop n) ∧
        decEsc '"' false (d :: sq2dq r) = .ch c (sq2dq ((d :: r).drop n)) ∧
        (sq2dq ((d :: r).drop n)).length ≤ (sq2dq r).length)

theorem escRel_simple (d : Char) (r : List Char) (ch : Char) (h : simpleEsc d = some ch) : EscRel d r 1 := by
  refine Or.inr (Or.inr ⟨ch, ?_, ?_, ?_⟩) <;> simp [decEsc, decEsc1, h]

theorem decEsc_sq2dq (d : Char) (r : List Char) (n : Nat) (hn : escaped (d :: r) = n) (h0 : n ≠ 0)
    (hd : d ≠ '\'') : EscRel d r n := by
  by_cases h1 : d = 'u'
  · subst h1
    rcases r with _ | ⟨a, _ | ⟨b, _ | ⟨c, _ | ⟨e, r⟩⟩⟩⟩ <;> simp [escaped, hexN] at hn
    · exact absurd hn.symm h0
    · exact absurd hn.symm h0
    · exact absurd hn.symm h0
    · exact absurd hn.symm h0
    split at hn
    · rename_i hh
      obtain ⟨ha, hb, hc, he⟩ := hh
      subst hn
      by_cases hs : 0xD800 ≤ hexNum [a, b, c, e] ∧ hexNum [a, b, c, e] < 0xE000
      · exact Or.inl (by simp [decEsc, decEsc1, simpleEsc, escU4, sq2dq_hex, ha, hb, hc, he, hs])
      · refine Or.inr (Or.inr ⟨Char.ofNat (hexNum [a, b, c, e]), ?_, ?_, ?_⟩) <;>
          (simp [decEsc, decEsc1, simpleEsc, escU4, sq2dq_hex, ha, hb, hc, he, hs]; try omega)
    · exact absurd hn.symm h0
  by_cases h2 : d = 'U'
  · subst h2
    rcases r with _ | ⟨a, _ | ⟨b, _ | ⟨c, _ | ⟨e, _ | ⟨g, _ | ⟨h, _ | ⟨i, _ | ⟨j, r⟩⟩⟩⟩⟩⟩⟩⟩ <;>
      simp [escaped, hexN] at hn
    all_goals try exact absurd hn.symm h0
    split at hn
    · rename_i hh
      obtain ⟨ha, hb, hc, he, hg, hh, hi, hj⟩ := hh
      subst hn
      by_cases hs : hexNum [a, b, c, e, g, h, i, j] > 0x10FFFF ∨
          (0xD800 ≤ hexNum [a, b, c, e, g, h, i, j] ∧ hexNum [a, b, c, e, g, h, i, j] < 0xE000)
      · exact Or.inl (by simp [decEsc, decEsc1, simpleEsc, escU8, sq2dq_hex, ha, hb, hc, he, hg, hh, hi, hj, hs])
      · refine Or.inr (Or.inr ⟨Char.ofNat (hexNum [a, b, c, e, g, h, i, j]), ?_, ?_, ?_⟩) <;>
          (simp [decEsc, decEsc1, simpleEsc, escU8, sq2dq_hex, ha, hb, hc, he, hg, hh, hi, hj, hs]; try omega)
    · exact absurd hn.symm h0
  by_cases h3 : d = 'x'
  · subst h3
    rcases r with _ | ⟨a, _ | ⟨b, r⟩⟩ <;> simp [escaped, hexN] at hn
    all_goals try exact absurd hn.symm h0
    split at hn
    · rename_i hh
      obtain ⟨ha, hb⟩ := hh
      subst hn
      by_cases hs : hexNum [a, b] < 128
      · refine Or.inr (Or.inr ⟨Char.ofNat (hexNum [a, b]), ?_, ?_, ?_⟩) <;>
          (simp [decEsc, decEsc1, simpleEsc, escX, sq2dq_hex, ha, hb, hs]; try omega)
      · exact Or.inr (Or.inl (by simp [decEsc, decEsc1, simpleEsc, escX, sq2dq_hex, ha, hb, hs]))
    · exact absurd hn.symm h0
  by_cases hx : d = 'a'
  · subst hx
    have : n = 1 := by simpa [escaped] using hn.symm
    subst this
    exact escRel_simple _ r _ rfl
  by_cases hx : d = 'b'
  · subst hx
    have : n = 1 := by simpa [escaped] using hn.symm
    subst this
    exact escRel_simple _ r _ rfl
  by_cases hx : d = 'f'
  · subst hx
    have : n = 1 := by simpa [escaped] using hn.symm
    subst this
    exact escRel_simple _ r _ rfl
  by_cases hx : d = 'n'
  · subst hx
    have : n = 1 := by simpa [escaped] using hn.symm
    subst this
    exact escRel_simple _ r _ rfl
  by_cases hx : d = 'r'
  · subst hx
    have : n = 1 := by simpa [escaped] using hn.symm
    subst this
    exact escRel_simple _ r _ rfl
  by_cases hx : d = 't'
  · subst hx
    have : n = 1 := by simpa [escaped] using hn.symm
    subst this
    exact escRel_simple _ r _ rfl
  by_cases hx : d = 'v'
  · subst hx
    have : n = 1 := by simpa [escaped] using hn.symm
    subst this
    exact escRel_simple _ r _ rfl
  by_cases hx : d = '\\'
  · subst hx
    have : n = 1 := by simpa [escaped] using hn.symm
    subst this
    exact escRel_simple _ r _ rfl
  by_cases hx : d = '"'
  · subst hx
    have : n = 1 := by simpa [escaped] using hn.symm
    subst this
    refine Or.inr (Or.inr ⟨'"', ?_, ?_, ?_⟩) <;> simp [decEsc, decEsc1, simpleEsc]
  have hs : simpleEsc d = none := by simp [simpleEsc, *]
  rcases r with _ | ⟨a, _ | ⟨b, r⟩⟩ <;> simp [escaped, escSet, *] at hn
  all_goals try exact absurd hn.symm h0
  split at hn
  · rename_i hod
    split at hn
    · rename_i hab
      obtain ⟨ha, hb⟩ := hab
      subst hn
      have hod' : '0' ≤ d ∧ d ≤ '7' := by simpa [isOct] using hod
      by_cases hs1 : octNum [d, a, b] > 255
      · exact Or.inl (by simp [decEsc, decEsc1, escOct, sq2dq_oct, *])
      by_cases hs2 : octNum [d, a, b] < 128
      · refine Or.inr (Or.inr ⟨Char.ofNat (octNum [d, a, b]), ?_, ?_, ?_⟩) <;>
          (simp [decEsc, decEsc1, escOct, sq2dq_oct, *]; try omega)
      · exact Or.inr (Or.inl (by simp [decEsc, decEsc1, escOct, sq2dq_oct, *]))
    · exact absurd hn.symm h0
  · exact absurd hn.symm h0

theorem map_add_eq_some {o : Option Nat} {k m : Nat} (h : o.map (· + 1 + k) = some m) :
    o = some (m - (1 + k)) ∧ 1 + k ≤ m := by
  cases o with
  | none => simp at h
  | some x => simp at h; subst h; constructor <;> (try congr 1) <;> omega

theorem strBody_esc_zero (q : Char) (f : Nat) (rest : List Char) (hq : q ≠ '\\') (he : escaped rest = 0) :
    strBody q (f+1) ('\\' :: rest) = none := by
  have : '\\' ≠ q := fun h => hq h.symm
  simp [strBody, this, he]

theorem sq2dq_aux : ∀ (F : Nat) (b acc : List Char) (f g : Nat),
    strBody '\'' F (b ++ ['\'']) = some (b.length + 1) → (sq2dq b).length < f → b.length < g →
    unquoteQ '"' false f (sq2dq b) acc = unquoteQ '\'' true g b acc := by
  intro F
  induction F with
  | zero => intro b acc f g h; simp [strBody] at h
  | succ F ih =>
    intro b acc f g h hf hg
    obtain ⟨f, rfl⟩ : ∃ f', f = f' + 1 := ⟨f - 1, by omega⟩
    obtain ⟨g, rfl⟩ : ∃ g', g = g' + 1 := ⟨g - 1, by omega⟩
    rcases b with _ | ⟨c, rest⟩
    · simp [sq2dq, unquoteQ]
    by_cases hc1 : c = '\''
    · subst hc1; simp [strBody] at h
    by_cases hc2 : c = '\\'
    · subst hc2
      rcases rest with _ | ⟨d, r⟩
      · cases F <;> simp [strBody, escaped] at h
      have hes : escaped (d :: r ++ ['\'']) = escaped (d :: r) := escaped_snoc (d :: r) (by simp)
      have hle := escaped_le (d :: r)
      rw [List.cons_append] at h
      by_cases hn0 : escaped (d :: r) = 0
      · rw [strBody_esc_zero '\'' F _ (by decide) (hes.trans hn0)] at h; simp at h
      rw [strBody_esc '\'' F _ (by decide) _ hn0 hes,
        List.drop_append_of_le_length hle] at h
      obtain ⟨h, _⟩ := map_add_eq_some h
      have hlen : (('\\' :: d :: r).length + 1 - (1 + escaped (d :: r))) =
          (List.drop (escaped (d :: r)) (d :: r)).length + 1 := by
        simp only [List.length_drop, List.length_cons] at hle ⊢; omega
      rw [hlen] at h
      by_cases hd : d = '\''
      · subst hd
        have h1 : escaped ('\'' :: r) = 1 := by simp [escaped]
        rw [h1] at h
        simp only [List.drop_succ_cons, List.drop_zero] at h
        have e1 : sq2dq ('\\' :: '\'' :: r) = '\'' :: sq2dq r := by simp [sq2dq]
        rw [e1] at hf ⊢
        simp only [List.length_cons] at hf hg
        have := ih r ('\'' :: acc) f g h (by omega) (by omega)
        simp [unquoteQ, decEsc, decEsc1, simpleEsc, escCont, this]
      · rw [sq2dq_esc d r hd] at hf ⊢
        simp only [List.length_cons] at hf hg
        rcases decEsc_sq2dq d r _ rfl hn0 hd with ⟨e1, e2⟩ | ⟨e1, e2⟩ | ⟨ch, e1, e2, e3⟩
        · simp [unquoteQ, e1, e2, escCont]
        · simp [unquoteQ, e1, e2, escCont]
        · have := ih _ (ch :: acc) f g h (by omega) (by simp only [List.length_drop, List.length_cons]; omega)
          simp [unquoteQ, e1, e2, escCont, this]
    rw [List.cons_append, strBody_lit '\'' F c _ hc1 hc2] at h
    have h' : strBody '\'' F (rest ++ ['\'']) = some (rest.length + 1) := by
      cases hh : strBody '\'' F (rest ++ ['\'']) with
      | none => simp [hh] at h
      | some x => simpa [hh] using h
    simp only [List.length_cons] at hg
    by_cases hc3 : c = '"'
    · subst hc3
      have e1 : sq2dq ('"' :: rest) = '\\' :: '"' :: sq2dq rest := by simp [sq2dq]
      rw [e1] at hf ⊢
      simp only [List.length_cons] at hf
      have := ih rest ('"' :: acc) f g h' (by omega) (by omega)
      simp [unquoteQ, decEsc, decEsc1, simpleEsc, escCont, this]
    rw [sq2dq_lit c rest hc2 hc3] at hf ⊢
    simp only [List.length_cons] at hf
    by_cases hc4 : c = '\n'
    · subst hc4; simp [unquoteQ]
    have := ih rest (c :: acc) f g h' (by omega) (by omega)
    simp [unquoteQ, hc1, hc2, hc3, hc4, this]

/-! ## strict vs. lenient reading -/

theorem decEsc_strict (q : Char) (rest : List Char) :
    decEsc q false rest = .bad ∨ decEsc q false rest = decEsc q true rest := by
  rcases rest with _ | ⟨d, r⟩
  · simp [decEsc]
  · simp only [decEsc, decEsc1]
    cases simpleEsc d with
    | some ch => simp
    | none =>
      by_cases h : d = '"' ∨ d = '\''
      · by_cases h2 : d = q <;> simp [h, h2]
      · simp [h]

/-- the strict reading (`\"` rejected inside single quotes, as Go does for `\'` inside double quotes) only rejects more -/
theorem unquoteQ_strict (q : Char) : ∀ (f : Nat) (b acc : List Char),
    unquoteQ q false f b acc = .bad ∨ unquoteQ q false f b acc = unquoteQ q true f b acc := by
  intro f
  induction f with
  | zero => intro b acc; simp [unquoteQ]
  | succ f ih =>
    intro b acc
    rcases b with _ | ⟨c, rest⟩
    · simp [unquoteQ]
    simp only [unquoteQ]
    split
    · simp
    split
    · rcases decEsc_strict q rest with h | h
      · simp [h, escCont]
      · rw [← h]
        cases decEsc q false rest with
        | ch c r => simpa [escCont] using ih r (c :: acc)
        | bad => simp [escCont]
        | unsupported => simp [escCont]
    · exact ih _ _

/-! ## `EL.lexDefault` on a string token -/

set_option linter.deprecated false in
theorem mk_eq (l : List Char) : String.mk l = String.ofList l := rfl

theorem lexDefault_str (q : Char) (hq : q = '"' ∨ q = '\'') (rest : List Char) (n : Nat)
    (h : strBody q (rest.length + 1) rest = some n) :
    lexDefault (q :: rest) = some (some (.str (String.ofList ((q :: rest).take (n + 1)))), n + 1, true) := by
  rcases hq with rfl | rfl <;> simp [lexDefault, isLetter, h, mk_eq]

theorem takeWhileN_raw (s tail : List Char) (h : '`' ∉ s) :
    takeWhileN (fun c => c ≠ '`') (s ++ '`' :: tail) = s.length := by
  unfold takeWhileN
  rw [List.takeWhile_append_of_pos]
  · simp
  · intro a ha; simp; intro hh; subst hh; exact h ha

theorem lexDefault_raw (s : List Char) (h : '`' ∉ s) :
    lexDefault ('`' :: (s ++ ['`'])) =
      some (some (.str (String.ofList ('`' :: (s ++ ['`'])))), s.length + 2, true) := by
  have := takeWhileN_raw s [] h
  have ht : List.take (s.length + 1) (s ++ ['`']) = s ++ ['`'] := List.take_of_length_le (by simp)
  simp only [lexDefault, this, mk_eq]
  simp [isLetter, ht]

/-- a text that `lexDefault` consumes entirely as one visible token lexes to exactly that token -/
theorem lex_single (cs : List Char) (t : Tok) (hne : cs ≠ [])
    (h : lexDefault cs = some (some t, cs.length, true)) : EL.lex (String.ofList cs) = .ok [t] := by
  rcases cs with _ | ⟨c, r⟩
  · exact absurd rfl hne
  have hf : 2 * (c :: r).length + 2 = (2 * r.length + 2) + 1 + 1 := by simp only [List.length_cons]; omega
  simp only [EL.lex, String.toList_ofList, Bool.and_false]
  rw [hf]
  simp [lexAll, h]

end ENC
