import TplModel.Props.C07order
import TplModel.Proofs.VoidTree
/-! # What a fragment name resolves to: helper lemmas for `TplModel/Props/C07content.lean`

* Part A — `EN.trimBlankKids` (= Go's `GetChildrenWithoutHeadTailBlankText`) removes AT MOST ONE node at each end
  (`trimBlankKids_general`); on a list without two adjacent blank text nodes (`NoAdj`) that is the same as dropping the
  maximal blank prefix and suffix (`dropBlankEnds`, `trimBlank_spec`, `dropBlankEnds_decomp`).
* Part B — the scanner never emits two adjacent text tokens (`HS.scan_noAdjText`; invariant `HS.TInv`).
* Part C — hence no node of a built and annotated tree has two adjacent text children (`EN.GoodN`, `buildTreeS_good`).
* Part D — `collect` (= what `addDefined` registers) listed against the `define` elements of a tree (`defNodes`,
  `collect_aligned`; `Sub` is `EN.Sub` of Proofs/VoidTree.lean); the registry of a loaded manager entry by entry
  (`FileRec`, `LInv`, `loaded_linv`); the value of a `define` attribute does not depend on expressions compiled later
  (`attrEvaluate_extend`).
* Part E — a root renders `""` and its children (`RN.Spec.refNode_root`); the nesting depth only matters for the depth
  limit (`RN.Spec.shift`, `refNode_shift`: same skeleton as `RN.Spec.mono`, with "status ≠ tooDeep" congruences).
* Part F — the first token is the first child of the file root; `RN.Spec.frag_is_execute`.
Core-only. -/
namespace EN
open EV (Val FnSpec)
open RN (CAttr Part NodeD Node NK Cls)

/-! ## Part A — trimming -/

/-- no two adjacent elements both satisfy `p` -/
def NoAdj {α : Type} (p : α → Bool) : List α → Prop
  | [] => True
  | [_] => True
  | a :: b :: r => ¬ (p a = true ∧ p b = true) ∧ NoAdj p (b :: r)

theorem NoAdj.tail {α : Type} {p : α → Bool} {a : α} {l : List α} (h : NoAdj p (a :: l)) : NoAdj p l := by
  cases l with
  | nil => trivial
  | cons b r => exact h.2

theorem noAdj_cons {α : Type} {p : α → Bool} {a : α} {l : List α} :
    NoAdj p (a :: l) ↔ (∀ b, l.head? = some b → ¬ (p a = true ∧ p b = true)) ∧ NoAdj p l := by
  cases l with
  | nil => simp [NoAdj]
  | cons b r => simp [NoAdj]

theorem noAdj_append {α : Type} {p : α → Bool} : ∀ {l1 l2 : List α},
    NoAdj p (l1 ++ l2) ↔ NoAdj p l1 ∧ NoAdj p l2 ∧
      (∀ a b, l1.getLast? = some a → l2.head? = some b → ¬ (p a = true ∧ p b = true))
  | [], l2 => by simp [NoAdj]
  | [a], l2 => by
    rw [List.singleton_append, noAdj_cons]
    simp only [NoAdj, true_and, List.getLast?_singleton, Option.some.injEq]
    constructor
    · rintro ⟨h1, h2⟩; exact ⟨h2, fun a' b ha hb => ha ▸ h1 b hb⟩
    · rintro ⟨h1, h2⟩; exact ⟨fun b hb => h2 a b rfl hb, h1⟩
  | a :: b :: r, l2 => by
    have ih := noAdj_append (p := p) (l1 := b :: r) (l2 := l2)
    simp only [List.cons_append, NoAdj] at ih ⊢
    rw [ih]
    simp only [List.getLast?_cons_cons]
    constructor
    · rintro ⟨h0, h1, h2, h3⟩; exact ⟨⟨h0, h1⟩, h2, h3⟩
    · rintro ⟨⟨h0, h1⟩, h2, h3⟩; exact ⟨h0, h1, h2, h3⟩

theorem noAdj_reverse {α : Type} {p : α → Bool} : ∀ {l : List α}, NoAdj p l.reverse ↔ NoAdj p l
  | [] => Iff.rfl
  | a :: l => by
    rw [List.reverse_cons, noAdj_append, noAdj_reverse (l := l), noAdj_cons (a := a) (l := l)]
    simp only [List.head?_cons, Option.some.injEq, List.getLast?_reverse]
    constructor
    · rintro ⟨h1, _, h2⟩; exact ⟨fun b hb hh => h2 b a hb rfl ⟨hh.2, hh.1⟩, h1⟩
    · rintro ⟨h1, h2⟩; exact ⟨h2, trivial, fun x y hx hy hh => h1 x hx ⟨hy ▸ hh.2, hh.1⟩⟩

theorem NoAdj.mono {α : Type} {p q : α → Bool} (hpq : ∀ a, q a = true → p a = true) :
    ∀ {l : List α}, NoAdj p l → NoAdj q l
  | [], _ => trivial
  | [_], _ => trivial
  | a :: b :: _, h => ⟨fun hh => h.1 ⟨hpq a hh.1, hpq b hh.2⟩, NoAdj.mono hpq h.2⟩

/-- a node of kind text -/
def isText (n : Node) : Bool := n.d.kind == .text

theorem isText_of_blank (n : Node) (h : RN.isBlankText n = true) : isText n = true := by
  simp only [RN.isBlankText, Bool.and_eq_true] at h
  exact h.1

/-- the maximal prefix and the maximal suffix of blank text nodes removed -/
def dropBlankEnds (l : List Node) : List Node :=
  ((l.dropWhile RN.isBlankText).reverse.dropWhile RN.isBlankText).reverse

/-- what the model (and Go) really does at the front: at most ONE node goes -/
def dropHead1 (l : List Node) : List Node :=
  match l with
  | [] => []
  | k :: r => if RN.isBlankText k then r else k :: r

/-- … and at the back -/
def dropLast1 (l : List Node) : List Node :=
  match l.getLast? with
  | some k => if RN.isBlankText k then l.dropLast else l
  | none => []

/-- every list is `[]`, `[k]` or `k :: (mid ++ [l])` -/
theorem list_shape {α : Type} (xs : List α) : xs = [] ∨ (∃ k, xs = [k]) ∨ ∃ k mid l, xs = k :: (mid ++ [l]) := by
  cases xs with
  | nil => exact Or.inl rfl
  | cons k r =>
    right
    rcases List.eq_nil_or_concat r with rfl | ⟨mid, l, rfl⟩
    · exact Or.inl ⟨k, rfl⟩
    · exact Or.inr ⟨k, mid, l, by simp⟩

/-- **the trimming function of the model, exactly**: the first node is removed iff it is blank text, then the last node
    of what is left is removed iff it is blank text. -/
theorem trimBlankKids_general (l : List Node) : trimBlankKids l = dropLast1 (dropHead1 l) := by
  rcases list_shape l with rfl | ⟨k, rfl⟩ | ⟨k, mid, z, rfl⟩
  · rfl
  · rw [trim_one]
    cases hk : RN.isBlankText k <;> simp [dropHead1, dropLast1, hk]
  · rw [trim_spec]
    have e : ∀ x : List Node, (x ++ [z]).dropLast = x := fun x => by simp
    cases hk : RN.isBlankText k <;> cases hz : RN.isBlankText z <;>
      simp only [dropHead1, dropLast1, hk, hz, if_true, if_false, Bool.false_eq_true, List.nil_append, List.append_nil,
        List.getLast?_append, List.getLast?_singleton, Option.some_or,
        ← List.cons_append, e, List.singleton_append]

theorem dropWhile_of_head {p : Node → Bool} {k : Node} {r : List Node} (h : p k = false) :
    (k :: r).dropWhile p = k :: r := by simp [List.dropWhile, h]

/-- a list that neither starts nor ends with blank text is left alone -/
theorem trimBlank_fixed (l : List Node) (h1 : ∀ k, l.head? = some k → RN.isBlankText k = false)
    (h2 : ∀ k, l.getLast? = some k → RN.isBlankText k = false) : trimBlankKids l = l := by
  rcases list_shape l with rfl | ⟨k, rfl⟩ | ⟨k, mid, z, rfl⟩
  · rfl
  · rw [trim_one, h1 k rfl]; rfl
  · have hz : (k :: (mid ++ [z])).getLast? = some z := by
      rw [← List.cons_append, List.getLast?_concat]
    rw [trim_spec, h1 k rfl, h2 z hz]; simp

theorem dropBlankEnds_fixed (l : List Node) (h1 : ∀ k, l.head? = some k → RN.isBlankText k = false)
    (h2 : ∀ k, l.getLast? = some k → RN.isBlankText k = false) : dropBlankEnds l = l := by
  unfold dropBlankEnds
  have e1 : l.dropWhile RN.isBlankText = l := by
    cases l with
    | nil => rfl
    | cons k r => exact dropWhile_of_head (h1 k rfl)
  rw [e1]
  have e2 : l.reverse.dropWhile RN.isBlankText = l.reverse := by
    cases hl : l.reverse with
    | nil => rfl
    | cons k r =>
      refine dropWhile_of_head (h2 k ?_)
      rw [← List.head?_reverse, hl]; rfl
  rw [e2, List.reverse_reverse]

theorem dropLast1_eq (l : List Node) : dropLast1 l = (dropHead1 l.reverse).reverse := by
  rcases List.eq_nil_or_concat l with rfl | ⟨r, z, rfl⟩
  · rfl
  · simp only [dropLast1, dropHead1]
    cases hz : RN.isBlankText z <;> simp [hz]

theorem dropWhile_eq_dropHead1 (l : List Node) (h : NoAdj RN.isBlankText l) :
    l.dropWhile RN.isBlankText = dropHead1 l := by
  cases l with
  | nil => rfl
  | cons k r =>
    cases hk : RN.isBlankText k
    · simp [dropHead1, List.dropWhile, hk]
    · simp only [dropHead1, List.dropWhile, hk, if_true]
      cases r with
      | nil => rfl
      | cons x r' =>
        have hx : RN.isBlankText x = false := by
          cases hb : RN.isBlankText x
          · rfl
          · exact absurd ⟨hk, hb⟩ h.1
        exact dropWhile_of_head hx

theorem NoAdj.dropHead1 {l : List Node} (h : NoAdj RN.isBlankText l) : NoAdj RN.isBlankText (dropHead1 l) := by
  cases l with
  | nil => trivial
  | cons k r =>
    simp only [EN.dropHead1]
    split
    · exact h.tail
    · exact h

/-- **trimBlank_spec.** On a list without two adjacent blank text nodes — every child list of a loaded tree is one
    (`GoodN`, `loaded_good`) — the model's trimming is: drop the maximal prefix and the maximal suffix of blank text
    nodes. -/
theorem trimBlank_spec (l : List Node) (h : NoAdj RN.isBlankText l) : trimBlankKids l = dropBlankEnds l := by
  rw [trimBlankKids_general, dropLast1_eq, dropBlankEnds, dropWhile_eq_dropHead1 l h,
    dropWhile_eq_dropHead1 _ (noAdj_reverse.mpr h.dropHead1)]

theorem NoAdj.dropLast1 {l : List Node} (h : NoAdj RN.isBlankText l) : NoAdj RN.isBlankText (dropLast1 l) := by
  rw [dropLast1_eq]
  exact noAdj_reverse.mpr (noAdj_reverse.mpr h).dropHead1

theorem NoAdj.trim {l : List Node} (h : NoAdj RN.isBlankText l) : NoAdj RN.isBlankText (trimBlankKids l) := by
  rw [trimBlankKids_general]; exact h.dropHead1.dropLast1

theorem dropWhile_idem (p : Node → Bool) (l : List Node) : (l.dropWhile p).dropWhile p = l.dropWhile p := by
  induction l with
  | nil => rfl
  | cons k r ih =>
    cases hk : p k
    · simp [List.dropWhile, hk]
    · simpa [List.dropWhile, hk] using ih

/-- the head of `dropBlankEnds l` is not blank, nor is its last element -/
theorem dropBlankEnds_head (l : List Node) : ∀ k, (dropBlankEnds l).head? = some k → RN.isBlankText k = false := by
  intro k hk
  unfold dropBlankEnds at hk
  -- the head of the result is the head of `l.dropWhile …` unless everything was dropped
  generalize hm : l.dropWhile RN.isBlankText = m at hk
  have hm0 : ∀ x, m.head? = some x → RN.isBlankText x = false := by
    intro x hx
    rw [← hm] at hx
    have := List.head?_dropWhile_not RN.isBlankText l
    rw [hx] at this
    simpa using this
  rw [List.head?_reverse] at hk
  have hsuf : (m.reverse.dropWhile RN.isBlankText) <:+ m.reverse := List.dropWhile_suffix _
  by_cases hn : m.reverse.dropWhile RN.isBlankText = []
  · rw [hn] at hk; cases hk
  · have : (m.reverse.dropWhile RN.isBlankText).getLast? = m.reverse.getLast? := by
      obtain ⟨t, ht⟩ := hsuf
      generalize List.dropWhile RN.isBlankText m.reverse = dd at hn ht
      rw [← ht, List.getLast?_append]
      cases hg : dd.getLast? with
      | none => exact absurd (List.getLast?_eq_none_iff.mp hg) hn
      | some x => rfl
    rw [this, List.getLast?_reverse] at hk
    exact hm0 k hk

theorem dropBlankEnds_last (l : List Node) : ∀ k, (dropBlankEnds l).getLast? = some k → RN.isBlankText k = false := by
  intro k hk
  unfold dropBlankEnds at hk
  rw [List.getLast?_reverse] at hk
  have := List.head?_dropWhile_not RN.isBlankText (l.dropWhile RN.isBlankText).reverse
  rw [hk] at this
  simpa using this

theorem mem_takeWhile_true {α : Type} {p : α → Bool} : ∀ {l : List α} {k : α}, k ∈ l.takeWhile p → p k = true
  | [], _, h => by cases h
  | a :: l, k, h => by
    cases ha : p a
    · simp [List.takeWhile, ha] at h
    · simp only [List.takeWhile, ha, List.mem_cons] at h
      rcases h with rfl | h
      · exact ha
      · exact mem_takeWhile_true h

/-- `dropBlankEnds l` is a contiguous piece of `l` — the very same nodes, in order — and what was cut off at either end
    is blank text only; with `dropBlankEnds_head` / `_last` (it neither starts nor ends with blank text) this determines it -/
theorem dropBlankEnds_decomp (l : List Node) : ∃ pre suf, l = pre ++ dropBlankEnds l ++ suf ∧
    (∀ k ∈ pre, RN.isBlankText k = true) ∧ (∀ k ∈ suf, RN.isBlankText k = true) := by
  refine ⟨l.takeWhile RN.isBlankText, ((l.dropWhile RN.isBlankText).reverse.takeWhile RN.isBlankText).reverse, ?_,
    fun k hk => mem_takeWhile_true hk, fun k hk => mem_takeWhile_true (List.mem_reverse.mp hk)⟩
  have h2 : ∀ m : List Node,
      (List.dropWhile RN.isBlankText m.reverse).reverse ++ (List.takeWhile RN.isBlankText m.reverse).reverse = m := by
    intro m
    rw [← List.reverse_append, List.takeWhile_append_dropWhile, List.reverse_reverse]
  unfold dropBlankEnds
  rw [List.append_assoc, h2, List.takeWhile_append_dropWhile]

/-- `dropBlankEnds` is idempotent (for every list) -/
theorem dropBlankEnds_idem (l : List Node) : dropBlankEnds (dropBlankEnds l) = dropBlankEnds l :=
  dropBlankEnds_fixed _ (dropBlankEnds_head l) (dropBlankEnds_last l)

/-- **idempotent** on lists without two adjacent blank text nodes -/
theorem trimBlank_idem (l : List Node) (h : NoAdj RN.isBlankText l) :
    trimBlankKids (trimBlankKids l) = trimBlankKids l := by
  rw [trimBlank_spec _ h.trim, trimBlank_spec l h, dropBlankEnds_idem]

/-- a list of blank text nodes only is dropped entirely by `dropBlankEnds` … -/
theorem dropBlankEnds_all_blank (l : List Node) (h : ∀ k ∈ l, RN.isBlankText k = true) : dropBlankEnds l = [] := by
  have : l.dropWhile RN.isBlankText = [] := by
    induction l with
    | nil => rfl
    | cons k r ih => simp [List.dropWhile, h k (by simp), ih (fun x hx => h x (by simp [hx]))]
  simp [dropBlankEnds, this]

/-- … and, when no two of them are adjacent (then there is at most one), by the model's trimming -/
theorem trimBlank_all_blank (l : List Node) (hn : NoAdj RN.isBlankText l) (h : ∀ k ∈ l, RN.isBlankText k = true) :
    trimBlankKids l = [] := by
  rw [trimBlank_spec l hn, dropBlankEnds_all_blank l h]

/-- without the proviso the two differ: of three blank nodes the middle one stays (Go: the same) -/
theorem trimBlank_three_blank (a b c : Node) (ha : RN.isBlankText a = true) (hb : RN.isBlankText b = true)
    (hc : RN.isBlankText c = true) : trimBlankKids [a, b, c] = [b] ∧ dropBlankEnds [a, b, c] = [] :=
  ⟨(trim_two_blank a c ha hc).2 b, dropBlankEnds_all_blank _ (by simp [ha, hb, hc])⟩

end EN

/-! ## Part B — the scanner never emits two adjacent text tokens -/
namespace HS

def tokIsText (t : Token) : Bool := t.kind == .text

/-- what one step inside a tag does to the emitted tokens: nothing (still inside the tag), or one non-text token -/
def TagOut (s : S) (r : Except Err S) : Prop :=
  ∀ s', r = .ok s' → (s'.toks = s.toks ∧ ∃ l, s'.mode = .tag l) ∨
    (∃ t, s'.toks = t :: s.toks ∧ tokIsText t = false ∧ s'.mode = .init)

theorem stepAttrName_out (s : S) (l : TagL) (c : Char) (p p' : Pos) : TagOut s (stepTag.stepAttrName s l c p p') := by
  unfold stepTag.stepAttrName TagOut
  simp only [addAttr]
  repeat' split
  all_goals simp_all [finishTag, S.emit, tokIsText]

theorem stepTag_out (s : S) (l : TagL) (c : Char) (p p' : Pos) : TagOut s (stepTag s l c p p') := by
  cases hst : l.st with
  | space =>
    unfold stepTag
    simp only [hst]
    split
    · simp [finishTag, S.emit, TagOut, tokIsText]
    · split
      · exact stepAttrName_out s _ c p p'
      · simp_all [TagOut]
  | attrName =>
    unfold stepTag
    simp only [hst]
    exact stepAttrName_out s _ c p p'
  | _ =>
    unfold stepTag TagOut
    simp only [hst, addAttr]
    repeat' split
    all_goals simp_all [finishTag, S.emit, tokIsText]

/-- no two adjacent text tokens; outside a tag the last token is not a text token -/
def TInv (s : S) : Prop :=
  EN.NoAdj tokIsText s.toks ∧ ((∀ l, s.mode ≠ .tag l) → ∀ t, s.toks.head? = some t → tokIsText t = false)

theorem tinv_of_tagOut {s s' : S} {r : Except Err S} (h : TagOut s r) (hs : r = .ok s') (hn : EN.NoAdj tokIsText s.toks) :
    TInv s' := by
  rcases h s' hs with ⟨h1, l, h2⟩ | ⟨t, h1, h2, h3⟩
  · exact ⟨h1 ▸ hn, fun hm => absurd h2 (hm l)⟩
  · refine ⟨?_, fun _ t' ht' => ?_⟩
    · rw [h1, EN.noAdj_cons]
      exact ⟨fun b _ hh => (by rw [h2] at hh; cases hh.1), hn⟩
    · rw [h1] at ht'; cases ht'; exact h2

theorem stepText_tinv (s s' : S) (l : TextL) (c : Char) (p p' : Pos) (hn : EN.NoAdj tokIsText s.toks)
    (hh : ∀ t, s.toks.head? = some t → tokIsText t = false) (h : stepText s l c p p' = .ok s') : TInv s' := by
  have hcons : ∀ t : Token, EN.NoAdj tokIsText (t :: s.toks) :=
    fun t => EN.noAdj_cons.mpr ⟨fun b hb hc => (by rw [hh b hb] at hc; cases hc.2), hn⟩
  cases hraw : l.raw with
  | none =>
    unfold stepText at h
    simp only [hraw] at h
    split at h
    · exact tinv_of_tagOut (stepTag_out _ _ c p p') h (by simpa [S.emit] using hcons _)
    · cases h; exact ⟨hn, fun _ => hh⟩
  | some tg =>
    unfold stepText at h
    simp only [hraw] at h
    repeat' split at h
    all_goals (try cases h)
    all_goals (first
      | exact ⟨hn, fun _ => hh⟩
      | (refine ⟨?_, fun _ t' ht' => ?_⟩
         · simp only [S.emit]
           first
             | exact hcons _
             | exact EN.noAdj_cons.mpr ⟨fun b hb hc => (by simp [tokIsText] at hc), hcons _⟩
         · simp only [S.emit, List.head?_cons, Option.some.injEq] at ht'; subst ht'; rfl))

theorem step_tinv (cfg : Cfg) (s s' : S) (c : Char) (hi : TInv s) (h : step cfg s c = .ok s') : TInv s' := by
  unfold step at h
  cases hm : s.mode with
  | init =>
    have hh := hi.2 (fun l => by rw [hm]; simp)
    simp only [hm] at h
    split at h
    · exact tinv_of_tagOut (stepTag_out _ _ c _ _) h hi.1
    · exact stepText_tinv s s' _ c _ _ hi.1 hh h
  | text l =>
    have hh := hi.2 (fun l => by rw [hm]; simp)
    simp only [hm] at h
    exact stepText_tinv s s' _ c _ _ hi.1 hh h
  | tag l =>
    simp only [hm] at h
    exact tinv_of_tagOut (stepTag_out _ _ c _ _) h hi.1

theorem fold_tinv (cfg : Cfg) : ∀ (cs : List Char) (s s' : S), TInv s → cs.foldlM (step cfg) s = .ok s' → TInv s'
  | [], s, s', hi, h => by
    simp only [List.foldlM, pure, Except.pure, Except.ok.injEq] at h
    exact h ▸ hi
  | c :: cs, s, s', hi, h => by
    simp only [List.foldlM, bind, Except.bind] at h
    cases hs : step cfg s c with
    | error e => rw [hs] at h; cases h
    | ok s1 =>
      rw [hs] at h
      exact fold_tinv cfg cs s1 s' (step_tinv cfg s s1 c hi hs) h

/-- **the scanner never emits two adjacent text tokens** (text runs are maximal) -/
theorem scan_noAdjText (cfg : Cfg) (cs : List Char) (toks : List Token) (h : scan cfg cs = .ok toks) :
    EN.NoAdj tokIsText toks := by
  unfold scan at h
  simp only [bind, Except.bind] at h
  cases hf : cs.foldlM (step cfg) { mode := .init, pos := ⟨1,1⟩, toks := [] } with
  | error e => rw [hf] at h; cases h
  | ok s =>
    rw [hf] at h
    have h0 : TInv { mode := .init, pos := ⟨1,1⟩, toks := [] } := ⟨trivial, fun _ t ht => by cases ht⟩
    have hi : TInv s := fold_tinv cfg cs _ s h0 hf
    unfold finish at h
    cases hm : s.mode with
    | init => simp only [hm, Except.ok.injEq] at h; rw [← h]; exact EN.noAdj_reverse.mpr hi.1
    | text l =>
      simp only [hm, Except.ok.injEq] at h
      rw [← h]
      refine EN.noAdj_reverse.mpr ?_
      simp only [S.emit]
      have hh := hi.2 (fun l => by rw [hm]; simp)
      exact EN.noAdj_cons.mpr ⟨fun b hb hc => (by rw [hh b hb] at hc; cases hc.2), hi.1⟩
    | tag l => simp only [hm] at h; cases h

end HS

/-! ## Part C — no node of a built tree has two adjacent text children -/
namespace EN
open EV (Val FnSpec)
open RN (CAttr Part NodeD Node NK Cls)

mutual
/-- every child list in the tree is free of adjacent text nodes -/
def GoodN : Node → Prop
  | .mk _ kids _ => NoAdj isText kids ∧ GoodL kids
def GoodL : List Node → Prop
  | [] => True
  | k :: ks => GoodN k ∧ GoodL ks
end

theorem goodL_iff : ∀ {ks : List Node}, GoodL ks ↔ ∀ k ∈ ks, GoodN k
  | [] => by simp [GoodL]
  | k :: ks => by simp [GoodL, goodL_iff (ks := ks)]

theorem goodL_reverse {ks : List Node} : GoodL ks.reverse ↔ GoodL ks := by
  simp [goodL_iff]

def itemIsText (it : Item) : Bool := it.d.kind == .text

/-- an item that opens or closes an element is a tag -/
def ItemOK (it : Item) : Prop := it.act ≠ .leaf → it.d.kind = .tag

theorem compileTok_kind (cfg : Cfg) (id : Nat) (t : HS.Token) (tbl tbl' : Tbl) (it : Item)
    (h : compileTok cfg id t tbl = (.ok it, tbl')) : ItemOK it ∧ itemIsText it = HS.tokIsText t := by
  unfold compileTok at h
  split at h
  · rename_i tg hk htag
    obtain ⟨cs, _, h2⟩ := mapRes_ok h
    rw [h2]
    exact ⟨fun _ => rfl, by simp only [itemIsText, HS.tokIsText, tagItem, hk]; rfl⟩
  · cases h
  · rename_i hno1 hno2
    cases h
    refine ⟨fun hh => absurd rfl hh, ?_⟩
    cases hk : t.kind <;> simp only [itemIsText, HS.tokIsText, nkOf, hk] <;> rfl

theorem compileToks_kind (cfg : Cfg) : ∀ (toks : List HS.Token) (id : Nat) (tbl tbl' : Tbl) (items : List Item),
    compileToks cfg id toks tbl = (.ok items, tbl') →
    (∀ it ∈ items, ItemOK it) ∧ items.map itemIsText = toks.map HS.tokIsText
  | [], id, tbl, tbl', items, h => by
    simp only [compileToks, Prod.mk.injEq, LoadRes.ok.injEq] at h
    rw [← h.1]; exact ⟨fun _ hi => (by cases hi), rfl⟩
  | t :: ts, id, tbl, tbl', items, h => by
    simp only [compileToks] at h
    obtain ⟨it, t1, h1, h2⟩ := bindRes_ok h
    obtain ⟨is0, h3, h4⟩ := mapRes_ok h2
    obtain ⟨r1, r2⟩ := compileTok_kind cfg id t tbl t1 it h1
    obtain ⟨r3, r4⟩ := compileToks_kind cfg ts (id + 1) t1 tbl' is0 h3
    rw [h4]
    refine ⟨fun x hx => ?_, by simp [r2, r4]⟩
    rcases List.mem_cons.mp hx with rfl | hx
    · exact r1
    · exact r3 x hx

theorem noAdj_map {α β : Type} {p : α → Bool} {q : β → Bool} (f : α → β) (hf : ∀ a, q (f a) = p a) :
    ∀ {l : List α}, NoAdj q (l.map f) ↔ NoAdj p l
  | [] => Iff.rfl
  | [_] => Iff.rfl
  | a :: b :: r => by
    have ih := noAdj_map f hf (l := b :: r)
    simp only [List.map_cons, NoAdj, hf] at ih ⊢
    rw [ih]

theorem noAdj_of_map_eq {α β : Type} {p : α → Bool} {q : β → Bool} {l : List α} {m : List β}
    (h : l.map p = m.map q) : NoAdj p l ↔ NoAdj q m := by
  have h1 := noAdj_map (p := p) (q := id) p (fun _ => rfl) (l := l)
  have h2 := noAdj_map (p := q) (q := id) q (fun _ => rfl) (l := m)
  rw [h] at h1
  exact h1.symm.trans h2

/-- invariant of the tree builder -/
structure BInv (bs : BS) : Prop where
  cur : NoAdj isText bs.cur
  curG : GoodL bs.cur
  stack : ∀ fr ∈ bs.stack, fr.d.kind = .tag ∧ NoAdj isText fr.before ∧ GoodL fr.before

theorem isText_leaf (d : NodeD) (k : List Node) (e : Option String) : isText (.mk d k e) = (d.kind == .text) := rfl

theorem noAdj_push_nontext {n : Node} {l : List Node} (hn : isText n = false) (h : NoAdj isText l) :
    NoAdj isText (n :: l) :=
  noAdj_cons.mpr ⟨fun b _ hh => (by rw [hn] at hh; cases hh.1), h⟩

/-- one token: the invariant is kept, and the top of `cur` is a text node only if the token was a text token -/
theorem stepItem_binv (bs : BS) (it : Item) (hi : BInv bs) (hok : ItemOK it)
    (hpre : itemIsText it = true → ∀ k, bs.cur.head? = some k → isText k = false) :
    BInv (stepItem bs it) ∧
      (∀ k, (stepItem bs it).cur.head? = some k → isText k = true → itemIsText it = true) := by
  unfold stepItem
  cases ha : it.act with
  | leaf =>
    simp only
    refine ⟨⟨?_, ⟨⟨trivial, trivial⟩, hi.curG⟩, hi.stack⟩, ?_⟩
    · refine noAdj_cons.mpr ⟨fun b hb hh => ?_, hi.cur⟩
      have := hpre hh.1 b hb
      rw [this] at hh; cases hh.2
    · intro k hk ht
      simp only [List.head?_cons, Option.some.injEq] at hk
      subst hk; exact ht
  | open_ =>
    simp only
    have hk : it.d.kind = .tag := hok (by rw [ha]; simp)
    refine ⟨⟨trivial, trivial, ?_⟩, fun k hk => by cases hk⟩
    intro fr hfr
    rcases List.mem_cons.mp hfr with rfl | hfr
    · exact ⟨hk, hi.cur, hi.curG⟩
    · exact hi.stack fr hfr
  | close =>
    simp only
    have hk : it.d.kind = .tag := hok (by rw [ha]; simp)
    cases hs : bs.stack with
    | nil =>
      simp only
      have hnt : isText (.mk it.d [] none) = false := by simp [isText_leaf, hk]
      refine ⟨⟨noAdj_push_nontext hnt hi.cur, ⟨⟨trivial, trivial⟩, hi.curG⟩, by intro fr h; cases h⟩, ?_⟩
      intro k hk' ht
      simp only [List.head?_cons, Option.some.injEq] at hk'
      subst hk'; rw [hnt] at ht; cases ht
    | cons fr rest =>
      simp only
      obtain ⟨f1, f2, f3⟩ := hi.stack fr (by rw [hs]; simp)
      have hnt : isText (.mk fr.d bs.cur.reverse (some it.d.value)) = false := by simp [isText_leaf, f1]
      refine ⟨⟨noAdj_push_nontext hnt f2, ⟨⟨noAdj_reverse.mpr hi.cur, goodL_reverse.mpr hi.curG⟩, f3⟩, ?_⟩, ?_⟩
      · intro fr' hfr'; exact hi.stack fr' (by rw [hs]; simp [hfr'])
      · intro k hk' ht
        simp only [List.head?_cons, Option.some.injEq] at hk'
        subst hk'; rw [hnt] at ht; cases ht

theorem foldl_binv : ∀ (items : List Item) (bs : BS), BInv bs → (∀ it ∈ items, ItemOK it) → NoAdj itemIsText items →
    (∀ it, items.head? = some it → itemIsText it = true → ∀ k, bs.cur.head? = some k → isText k = false) →
    BInv (items.foldl stepItem bs)
  | [], bs, hi, _, _, _ => hi
  | it :: rest, bs, hi, hok, hna, hpre => by
    obtain ⟨h1, h2⟩ := stepItem_binv bs it hi (hok it (by simp)) (hpre it rfl)
    refine foldl_binv rest _ h1 (fun x hx => hok x (by simp [hx])) hna.tail ?_
    intro it' hit' ht' k hk
    cases hkt : isText k
    · rfl
    · have := h2 k hk hkt
      exact absurd ⟨this, ht'⟩ ((noAdj_cons.mp hna).1 it' hit')

theorem closeAll_good : ∀ (stack : List Frame) (cur : List Node), NoAdj isText cur → GoodL cur →
    (∀ fr ∈ stack, fr.d.kind = .tag ∧ NoAdj isText fr.before ∧ GoodL fr.before) →
    NoAdj isText (closeAll stack cur) ∧ GoodL (closeAll stack cur)
  | [], cur, h1, h2, _ => ⟨h1, h2⟩
  | fr :: rest, cur, h1, h2, hs => by
    obtain ⟨f1, f2, f3⟩ := hs fr (by simp)
    have hnt : isText (.mk fr.d cur.reverse none) = false := by simp [isText_leaf, f1]
    exact closeAll_good rest _ (noAdj_push_nontext hnt f2) ⟨⟨noAdj_reverse.mpr h1, goodL_reverse.mpr h2⟩, f3⟩
      (fun fr' hfr' => hs fr' (by simp [hfr']))

theorem assemble_good (items : List Item) (hok : ∀ it ∈ items, ItemOK it) (hna : NoAdj itemIsText items) :
    GoodN (assemble items) := by
  have hb := foldl_binv items ⟨[], []⟩ ⟨trivial, trivial, fun _ h => by cases h⟩ hok hna
    (fun _ _ _ k hk => by cases hk)
  obtain ⟨c1, c2⟩ := closeAll_good _ _ hb.cur hb.curG hb.stack
  exact ⟨noAdj_reverse.mpr c1, goodL_reverse.mpr c2⟩

/-- `annotate` does not change kinds -/
theorem isText_setSib (k : Node) (p : Option Nat) (nb : Option String) : isText (setSib k p nb) = isText k := rfl

theorem isText_annotate (n : Node) : isText (annotate n) = isText n := by
  simp [isText, annotate_d]

theorem annotateL_isText : ∀ (prev : Option Nat) (ks : List Node), (annotateL prev ks).map isText = ks.map isText
  | _, [] => by simp [annotateL]
  | prev, k :: ks => by
    simp only [annotateL, List.map_cons, isText_setSib, isText_annotate, annotateL_isText _ ks]

theorem goodN_setSib (k : Node) (p : Option Nat) (nb : Option String) : GoodN (setSib k p nb) ↔ GoodN k := by
  cases k; simp [setSib, GoodN, RN.Node.kids]

theorem annotate_good : ∀ n : Node, GoodN n → GoodN (annotate n) := by
  refine RN.Spec.Node.induct (PL := fun ks => GoodL ks → ∀ prev, GoodL (annotateL prev ks)) ?_ ?_ ?_
  · intro d kids e ih h
    simp only [annotate, GoodN] at h ⊢
    exact ⟨(noAdj_of_map_eq (annotateL_isText none kids)).mpr h.1, ih h.2 none⟩
  · intro _ _; simp [annotateL, GoodL]
  · intro k ks ih1 ih2 h prev
    simp only [annotateL, GoodL] at h ⊢
    exact ⟨(goodN_setSib _ _ _).mpr (ih1 h.1), ih2 h.2 _⟩

/-- **every tree the loader builds** (after annotation) has no two adjacent text children anywhere -/
theorem buildTreeS_good {cfg : Cfg} {fileIdx : Nat} {toks : List HS.Token} {tbl tbl' : Tbl} {root : Node}
    (hna : NoAdj HS.tokIsText toks) (h : buildTreeS cfg fileIdx toks tbl = (.ok root, tbl')) : GoodN (annotate root) := by
  obtain ⟨items, h1, h2⟩ := mapRes_ok h
  obtain ⟨r1, r2⟩ := compileToks_kind cfg toks _ _ _ _ h1
  rw [h2]
  exact annotate_good _ (assemble_good items r1 ((noAdj_of_map_eq r2).mpr hna))

end EN

/-! ## Part D — what `addDefined` registers, listed against the `define` elements of the tree -/
namespace EN
open EV (Val FnSpec)
open RN (CAttr Part NodeD Node NK Cls)

-- `Sub x n` (`x` is `n` or a descendant of `n`) is `EN.Sub` of Proofs/VoidTree.lean

/-- the `define` attribute of an element: the first attribute named `<attrPrefix>define` of a tag node -/
def defAttr (cfg : Cfg) (d : NodeD) : Option CAttr :=
  if d.kind == .tag then d.attrs.find? (fun a => a.name == cfg.attrPrefix ++ "define") else none

def defHere (cfg : Cfg) (d : NodeD) (kids : List Node) : List (CAttr × List Node) :=
  match defAttr cfg d with
  | some a => [(a, kids)]
  | none => []

mutual
/-- the defining elements of a tree in document order: `define` attribute and children -/
def defNodes (cfg : Cfg) : Node → List (CAttr × List Node)
  | .mk d kids _ => defHere cfg d kids ++ defNodesL cfg kids
def defNodesL (cfg : Cfg) : List Node → List (CAttr × List Node)
  | [] => []
  | k :: ks => defNodes cfg k ++ defNodesL cfg ks
end

theorem mem_defNodesL {cfg : Cfg} {x : CAttr × List Node} : ∀ {ks : List Node},
    x ∈ defNodesL cfg ks ↔ ∃ k ∈ ks, x ∈ defNodes cfg k
  | [] => by simp [defNodesL]
  | k :: ks => by simp [defNodesL, mem_defNodesL (ks := ks)]

/-- the entries of `defNodes` are exactly the elements of the tree that carry a `define` -/
theorem mem_defNodes (cfg : Cfg) (a : CAttr) (ks : List Node) : ∀ n : Node,
    (a, ks) ∈ defNodes cfg n ↔ ∃ d e, Sub (.mk d ks e) n ∧ defAttr cfg d = some a := by
  intro n
  constructor
  · revert n
    refine RN.Spec.Node.induct (PL := fun l => ∀ k ∈ l, (a, ks) ∈ defNodes cfg k →
      ∃ d e, Sub (.mk d ks e) k ∧ defAttr cfg d = some a) ?_ ?_ ?_
    · intro d kids e ih h
      simp only [defNodes, List.mem_append] at h
      rcases h with h | h
      · unfold defHere at h
        cases hd : defAttr cfg d with
        | none => rw [hd] at h; cases h
        | some a' =>
          rw [hd] at h
          simp only [List.mem_singleton, Prod.mk.injEq] at h
          obtain ⟨rfl, rfl⟩ := h
          exact ⟨d, e, .refl _, hd⟩
      · obtain ⟨k, hk, hx⟩ := mem_defNodesL.mp h
        obtain ⟨d', e', h1, h2⟩ := ih k hk hx
        exact ⟨d', e', Sub.step (n := .mk d kids e) hk h1, h2⟩
    · intro k hk; cases hk
    · intro k l ih1 ih2 k' hk' hx
      rcases List.mem_cons.mp hk' with rfl | hk'
      · exact ih1 hx
      · exact ih2 k' hk' hx
  · rintro ⟨d, e, hs, hd⟩
    generalize hx : Node.mk d ks e = x at hs
    induction hs with
    | refl => subst hx; simp [defNodes, defHere, hd]
    | @step k n hk _ ih =>
      cases n with
      | mk d' kids' e' =>
        simp only [defNodes, List.mem_append]
        exact Or.inr (mem_defNodesL.mpr ⟨k, hk, ih⟩)

theorem GoodN.sub {x n : Node} (hg : GoodN n) (hs : Sub x n) : GoodN x := by
  induction hs with
  | refl => exact hg
  | @step k n hk _ ih =>
    cases n with
    | mk d' kids' e' => exact ih (goodL_iff.mp hg.2 k hk)

theorem GoodN.kids {d : NodeD} {ks : List Node} {e : Option String} (hg : GoodN (.mk d ks e)) :
    NoAdj RN.isBlankText ks := hg.1.mono isText_of_blank

/-- what the element `x` registers in the evaluation context `cx` -/
def DefRel (cx : Ctx) (x : CAttr × List Node) (p : String × Node) : Prop :=
  (∃ lg, attrEvaluate cx x.1 [emptyMap] = (.ok p.1, lg) ∧ lg.contains unsupportedEv = false) ∧ p.2 = fragRoot x.2

theorem Aligned.append {α β : Type} {R : α → β → Prop} {a1 a2 : List α} {b1 b2 : List β}
    (h1 : Aligned R a1 b1) (h2 : Aligned R a2 b2) : Aligned R (a1 ++ a2) (b1 ++ b2) := by
  induction h1 with
  | nil => exact h2
  | cons hr _ ih => exact .cons hr ih

theorem Aligned.mem_left {α β : Type} {R : α → β → Prop} {as : List α} {bs : List β} (h : Aligned R as bs) {a : α}
    (ha : a ∈ as) : ∃ b ∈ bs, R a b := by
  induction h with
  | nil => cases ha
  | cons hr _ ih =>
    rcases List.mem_cons.mp ha with rfl | ha
    · exact ⟨_, by simp, hr⟩
    · obtain ⟨b, hb, hab⟩ := ih ha
      exact ⟨b, by simp [hb], hab⟩

theorem defOf_aligned {cfg : Cfg} {cx : Ctx} {d : NodeD} {kids : List Node} {new : List (String × Node)}
    (h : defOf cfg cx d kids = .ok new) : Aligned (DefRel cx) (defHere cfg d kids) new := by
  unfold defOf at h
  unfold defHere defAttr
  split at h
  · rename_i hk
    simp only [hk, if_true]
    split at h
    · rename_i hf; rw [hf]; cases h; exact .nil
    · rename_i a hf
      rw [hf]
      split at h
      · cases h
      · rename_i nameS lg hev
        split at h
        · cases h
        · rename_i hlg
          cases h
          exact .cons ⟨⟨lg, hev, by simpa using hlg⟩, rfl⟩ .nil
  · rename_i hk
    simp only [hk]
    cases h; exact .nil

/-- **`addDefined`, entry by entry**: the collected definitions are, in document order, one per `define` element: its
    name is the value of the attribute (evaluated on the empty scope), its tree is `fragRoot` of the element's children -/
theorem collect_aligned (cfg : Cfg) (cx : Ctx) : ∀ (n : Node) (new : List (String × Node)),
    collect cfg cx n = .ok new → Aligned (DefRel cx) (defNodes cfg n) new := by
  refine RN.Spec.Node.induct (PL := fun ks => ∀ (new : List (String × Node)),
    collectL cfg cx ks = .ok new → Aligned (DefRel cx) (defNodesL cfg ks) new) ?_ ?_ ?_
  · intro d kids e ih new h
    rw [collect] at h
    obtain ⟨l1, l2, h1, h2, rfl⟩ := LoadRes.app_ok.mp h
    simp only [defNodes]
    exact (defOf_aligned h1).append (ih l2 h2)
  · intro new h
    simp only [collectL, LoadRes.ok.injEq] at h
    subst h; exact .nil
  · intro k ks ih1 ih2 new h
    rw [collectL] at h
    obtain ⟨l1, l2, h1, h2, rfl⟩ := LoadRes.app_ok.mp h
    simp only [defNodesL]
    exact (ih1 l1 h1).append (ih2 l2 h2)

/-- a root node as the loader makes them: kind root, id 0, no value, no end tag -/
def IsRoot (t : Node) : Prop := t.d = rootD ∧ t.endVal = none

theorem annotate_endVal (n : Node) : (annotate n).endVal = n.endVal := by cases n; rfl

/-- `addFile`, taken apart once more (with the evaluation context, the file list and the collected definitions) -/
theorem addFile_parts {cfg : Cfg} {fns : List (String × FnSpec)} {idx : Nat} {name src : String} {m m' : Mgr}
    (h : addFile cfg fns idx name src m = .ok m') :
    ∃ toks root0 tbl' new, HS.scan (scanCfg cfg) src.toList = .ok toks ∧
      buildTreeS cfg idx toks m.cx.exprs = (.ok root0, tbl') ∧
      collect cfg ⟨tbl', fns⟩ (annotate root0) = .ok new ∧
      m'.templates = m.templates ++ (name, annotate root0) :: new ∧
      m'.cx = ⟨tbl', fns⟩ ∧ m'.files = m.files ++ [name] ∧ m'.cfg = m.cfg ∧ (∃ E, tbl' = m.cx.exprs ++ E) := by
  unfold addFile at h
  split at h
  · cases h
  · split at h
    · cases h
    · cases h
    · rename_i toks hscan
      unfold registerFile at h
      have hsh := buildTreeS_shift cfg idx toks m.cx.exprs
      cases hb : buildTreeS cfg idx toks m.cx.exprs with
      | mk r tbl' =>
        rw [hb] at h hsh
        have hE : ∃ E, tbl' = m.cx.exprs ++ E := ⟨_, congrArg Prod.snd hsh⟩
        cases r with
        | ok root0 =>
          simp only at h
          unfold withTemplates at h
          split at h
          · rename_i tpls hadd
            simp only [LoadRes.ok.injEq] at h
            subst h
            obtain ⟨new, h1, _, h3⟩ := (addDefined_iff cfg _ _ _ _).mp hadd
            exact ⟨toks, root0, tbl', new, hscan, hb, h1, by simp [h3], rfl, rfl, rfl, hE⟩
          all_goals cases h
        | err => cases h
        | panic => cases h
        | unsupported => cases h

/-! ### evaluation of a `define` name does not depend on expressions compiled later -/

theorem all2_parts_extend (T X : Tbl) : ∀ ps : List Part, (∀ k, Part.code k ∈ ps → k < T.size) →
    RN.All2 (RN.PartRel (CodeEq (T ++ X) T)) ps ps
  | [], _ => trivial
  | .lit _ :: ps, h => ⟨rfl, all2_parts_extend T X ps (fun k hk => h k (by simp [hk]))⟩
  | .other :: ps, h => ⟨trivial, all2_parts_extend T X ps (fun k hk => h k (by simp [hk]))⟩
  | .code k :: ps, h => by
    refine ⟨?_, all2_parts_extend T X ps (fun k hk => h k (by simp [hk]))⟩
    have hk : k < T.size := h k (by simp)
    show (T ++ X)[k]! = T[k]!
    simp only [getElem!_def]
    rw [Array.getElem?_append_left hk]

theorem attrEvaluate_extend (fns : List (String × FnSpec)) (T X : Tbl) (a : CAttr) (h : AttrCodesLt T.size a)
    (sc : List Val) : attrEvaluate ⟨T ++ X, fns⟩ a sc = attrEvaluate ⟨T, fns⟩ a sc :=
  attrEvaluate_rel (cx := ⟨T ++ X, fns⟩) (cx' := ⟨T, fns⟩) rfl ⟨rfl, rfl, all2_parts_extend T X a.parts h⟩ sc

theorem mem_flatDL_of_mem {x : Entry} {k : Node} : ∀ {ks : List Node}, k ∈ ks → x ∈ flatD k → x ∈ flatDL ks
  | [], hk, _ => by cases hk
  | k' :: ks, hk, hx => by
    simp only [flatDL, List.mem_append]
    rcases List.mem_cons.mp hk with rfl | hk
    · exact Or.inl hx
    · exact Or.inr (mem_flatDL_of_mem hk hx)

theorem sub_flat {d : NodeD} {ks : List Node} {e : Option String} {n : Node} (h : Sub (.mk d ks e) n) :
    Sum.inl d ∈ flatD n := by
  generalize hx : Node.mk d ks e = x at h
  induction h with
  | refl => subst hx; simp [flatD]
  | @step k n hk _ ih =>
    cases n with
    | mk d' kids' e' =>
      simp only [flatD, List.mem_cons, List.mem_append]
      exact Or.inr (Or.inl (mem_flatDL_of_mem hk ih))

theorem defAttr_mem {cfg : Cfg} {d : NodeD} {a : CAttr} (h : defAttr cfg d = some a) : a ∈ d.attrs := by
  unfold defAttr at h
  split at h
  · exact List.mem_of_find?_eq_some h
  · cases h

/-! ### the registry of a loaded manager, entry by entry -/

/-- `p` is what a `define` element of the tree `root` registers when its name is evaluated in `cx`: a root over the
    element's children without the blank text at both ends -/
def IsDefineOf (cfg : Cfg) (cx : Ctx) (root : Node) (p : String × Node) : Prop :=
  ∃ d kids e a lg, Sub (.mk d kids e) root ∧ defAttr cfg d = some a ∧
    attrEvaluate cx a [emptyMap] = (.ok p.1, lg) ∧ p.2 = .mk rootD (dropBlankEnds kids) none

/-- `root` is the annotated tree of the file `fname` of `fs`, `tbl'` the expression table right after that file was
    compiled; the manager `m` knows the file under its name -/
structure FileRec (cfg : Cfg) (fs : List (String × String)) (m : Mgr) (fname : String) (root : Node) (tbl' : Tbl) : Prop where
  built : ∃ src idx toks tbl root0, (fname, src) ∈ fs ∧ HS.scan (scanCfg cfg) src.toList = .ok toks ∧
    buildTreeS cfg idx toks tbl = (.ok root0, tbl') ∧ root = annotate root0
  ext : ∃ X, m.cx.exprs = tbl' ++ X
  inFiles : fname ∈ m.files
  look : (envOf m).tpl fname = some root

theorem FileRec.good {cfg : Cfg} {fs : List (String × String)} {m : Mgr} {fname : String} {root : Node} {tbl' : Tbl}
    (h : FileRec cfg fs m fname root tbl') : GoodN root := by
  obtain ⟨src, idx, toks, tbl, root0, _, hs, hb, rfl⟩ := h.built
  exact buildTreeS_good (HS.scan_noAdjText _ _ _ hs) hb

theorem FileRec.isRoot {cfg : Cfg} {fs : List (String × String)} {m : Mgr} {fname : String} {root : Node} {tbl' : Tbl}
    (h : FileRec cfg fs m fname root tbl') : IsRoot root := by
  obtain ⟨src, idx, toks, tbl, root0, _, hs, hb, rfl⟩ := h.built
  obtain ⟨items, _, rfl⟩ := mapRes_ok hb
  exact ⟨by rw [annotate_d]; rfl, by rw [annotate_endVal]; rfl⟩

theorem FileRec.codes {cfg : Cfg} {fs : List (String × String)} {m : Mgr} {fname : String} {root : Node} {tbl' : Tbl}
    (h : FileRec cfg fs m fname root tbl') : TreeCodesLt tbl'.size root := by
  obtain ⟨src, idx, toks, tbl, root0, _, hs, hb, rfl⟩ := h.built
  exact buildTreeS_codes hb

/-- the name of a `define` element of a loaded file evaluates in the final context as it did at load time -/
theorem FileRec.eval_stable {cfg : Cfg} {fs : List (String × String)} {m : Mgr} {fname : String} {root : Node} {tbl' : Tbl}
    (h : FileRec cfg fs m fname root tbl') {d : NodeD} {ks : List Node} {e : Option String} {a : CAttr}
    (hs : Sub (.mk d ks e) root) (ha : defAttr cfg d = some a) (sc : List Val) :
    attrEvaluate m.cx a sc = attrEvaluate ⟨tbl', m.cx.fns⟩ a sc := by
  obtain ⟨X, hX⟩ := h.ext
  have hc : AttrCodesLt tbl'.size a := h.codes d (sub_flat hs) a (defAttr_mem ha)
  have : m.cx = ⟨tbl' ++ X, m.cx.fns⟩ := by cases hm : m.cx; simp only [hm] at hX; simp [hX]
  rw [this]
  exact attrEvaluate_extend _ _ _ _ hc sc

theorem lookupL_of_mem {tpls : List (String × Node)} {nm : String} {t : Node} (hn : (names tpls).Nodup)
    (h : (nm, t) ∈ tpls) : lookupL tpls nm = some t := by
  induction tpls with
  | nil => cases h
  | cons p rest ih =>
    simp only [names, List.map_cons, List.nodup_cons] at hn
    unfold lookupL
    rcases List.mem_cons.mp h with rfl | h
    · simp
    · have hne : (p.1 == nm) = false := by
        rw [beq_eq_false_iff_ne]
        intro he
        exact hn.1 (he ▸ List.mem_map.mpr ⟨_, h, rfl⟩)
      rw [List.find?_cons, hne]
      exact ih hn.2 h

/-- invariant of `loadFrom`: every entry of the registry is a file or the trimmed content of a `define` element of a
    registered file, and every `define` element of every registered file is registered -/
structure LInv (cfg : Cfg) (fns : List (String × FnSpec)) (fs : List (String × String)) (m : Mgr) : Prop where
  fnsEq : m.cx.fns = fns
  nodup : (names m.templates).Nodup
  sound : ∀ p ∈ m.templates, ∃ fname root tbl', FileRec cfg fs m fname root tbl' ∧
    (p = (fname, root) ∨ IsDefineOf cfg ⟨tbl', fns⟩ root p)
  complete : ∀ fname ∈ m.files, ∃ root tbl', FileRec cfg fs m fname root tbl' ∧
    ∀ x ∈ defNodes cfg root, ∃ n lg, attrEvaluate ⟨tbl', fns⟩ x.1 [emptyMap] = (.ok n, lg) ∧
      (envOf m).tpl n = some (.mk rootD (dropBlankEnds x.2) none)

theorem FileRec.step {cfg : Cfg} {fns : List (String × FnSpec)} {fs : List (String × String)} {m m' : Mgr}
    {idx : Nat} {name src : String} (h : addFile cfg fns idx name src m = .ok m')
    {fname : String} {root : Node} {tbl' : Tbl} (hr : FileRec cfg fs m fname root tbl') :
    FileRec cfg fs m' fname root tbl' := by
  obtain ⟨toks, root0, tbl1, new, _, _, _, _, hcx, hfiles, _, E, hE⟩ := addFile_parts h
  obtain ⟨X, hX⟩ := hr.ext
  refine ⟨hr.built, ⟨X ++ E, ?_⟩, by rw [hfiles]; simp [hr.inFiles], addFile_lookup_stable cfg fns idx name src m m' h _ _ hr.look⟩
  rw [hcx]; simp only; rw [hE, hX, Array.append_assoc]

theorem addFile_linv {cfg : Cfg} {fns : List (String × FnSpec)} {fs : List (String × String)} {m m' : Mgr}
    {idx : Nat} {name src : String} (hfs : (name, src) ∈ fs) (hi : LInv cfg fns fs m)
    (h : addFile cfg fns idx name src m = .ok m') : LInv cfg fns fs m' := by
  obtain ⟨toks, root0, tbl1, new, hscan, hb, hcol, htpl, hcx, hfiles, _, E, hE⟩ := addFile_parts h
  have hnd : (names m'.templates).Nodup := addFile_names_nodup cfg fns idx name src m m' hi.nodup h
  have hmemroot : (name, annotate root0) ∈ m'.templates := by rw [htpl]; simp
  have hrec : FileRec cfg fs m' name (annotate root0) tbl1 :=
    ⟨⟨src, idx, toks, m.cx.exprs, root0, hfs, hscan, hb, rfl⟩, ⟨#[], by rw [hcx]; simp⟩, by rw [hfiles]; simp,
      lookupL_of_mem hnd hmemroot⟩
  have hal := collect_aligned cfg ⟨tbl1, fns⟩ _ _ hcol
  have hgood := hrec.good
  -- a collected entry is the trimmed content of its element
  have hfrag : ∀ x ∈ defNodes cfg (annotate root0), fragRoot x.2 = .mk rootD (dropBlankEnds x.2) none := by
    rintro ⟨a, ks⟩ hx
    obtain ⟨d, e, hs, _⟩ := (mem_defNodes cfg a ks _).mp hx
    have := (hgood.sub hs).kids
    simp only [fragRoot, trimBlank_spec ks this]
  refine ⟨by rw [hcx], hnd, ?_, ?_⟩
  · intro p hp
    rw [htpl] at hp
    rcases List.mem_append.mp hp with hp | hp
    · obtain ⟨fname, root, tbl', h1, h2⟩ := hi.sound p hp
      exact ⟨fname, root, tbl', h1.step h, h2⟩
    · rcases List.mem_cons.mp hp with rfl | hp
      · exact ⟨name, _, tbl1, hrec, Or.inl rfl⟩
      · obtain ⟨⟨a, ks⟩, hx, ⟨lg, hev, _⟩, ht⟩ := hal.mem_right hp
        obtain ⟨d, e, hs, hd⟩ := (mem_defNodes cfg a ks _).mp hx
        refine ⟨name, _, tbl1, hrec, Or.inr ⟨d, ks, e, a, lg, hs, hd, hev, ?_⟩⟩
        rw [ht]; exact hfrag _ hx
  · intro fname hf
    rw [hfiles] at hf
    rcases List.mem_append.mp hf with hf | hf
    · obtain ⟨root, tbl', h1, h2⟩ := hi.complete fname hf
      refine ⟨root, tbl', h1.step h, fun x hx => ?_⟩
      obtain ⟨n, lg, h3, h4⟩ := h2 x hx
      exact ⟨n, lg, h3, addFile_lookup_stable cfg fns idx name src m m' h _ _ h4⟩
    · simp only [List.mem_singleton] at hf
      subst hf
      refine ⟨_, tbl1, hrec, fun x hx => ?_⟩
      obtain ⟨⟨n, t⟩, hp, ⟨lg, hev, _⟩, ht⟩ := hal.mem_left hx
      refine ⟨n, lg, hev, lookupL_of_mem hnd ?_⟩
      simp only at ht
      rw [← hfrag x hx, ← ht, htpl]
      simp [hp]

theorem loadFrom_linv (cfg : Cfg) (fns : List (String × FnSpec)) (fs : List (String × String)) :
    ∀ (rest : List (String × String)) (i : Nat) (m m' : Mgr), (∀ f ∈ rest, f ∈ fs) → LInv cfg fns fs m →
      loadFrom cfg fns i rest m = .ok m' → LInv cfg fns fs m' ∧ m'.files = m.files ++ rest.map (·.1)
  | [], i, m, m', _, hi, h => by
    simp only [loadFrom, LoadRes.ok.injEq] at h; subst h; exact ⟨hi, by simp⟩
  | f :: rest, i, m, m', hsub, hi, h => by
    rw [loadFrom] at h
    cases ha : addFile cfg fns (i + 1) f.1 f.2 m with
    | ok m1 =>
      simp only [ha] at h
      have h1 := addFile_linv (hsub f (by simp)) hi ha
      obtain ⟨r1, r2⟩ := loadFrom_linv cfg fns fs rest (i + 1) m1 m' (fun g hg => hsub g (by simp [hg])) h1 h
      obtain ⟨_, _, _, _, _, _, _, _, _, hfiles, _⟩ := addFile_parts ha
      exact ⟨r1, by rw [r2, hfiles]; simp⟩
    | err => simp [ha] at h
    | panic => simp [ha] at h
    | unsupported => simp [ha] at h

/-- every loaded manager satisfies the invariant, and its file list is the list of loaded names -/
theorem loaded_linv {cfg : Cfg} {fns : List (String × FnSpec)} {files : List (String × String)} {m : Mgr}
    (h : loadFiles cfg fns files = .ok m) : LInv cfg fns files m ∧ m.files = files.map (·.1) := by
  have h0 : LInv cfg fns files (emptyMgr cfg fns) :=
    ⟨rfl, by simp [emptyMgr, names], fun p hp => by simp [emptyMgr] at hp, fun f hf => by simp [emptyMgr] at hf⟩
  obtain ⟨r1, r2⟩ := loadFrom_linv cfg fns files files 0 _ m (fun _ hf => hf) h0 h
  exact ⟨r1, by rw [r2]; simp [emptyMgr]⟩

end EN

/-! ## Part E — a root renders its children; the nesting depth only matters for the depth limit -/
namespace RN.Spec
variable {Sc : Type}

/-- a root without end value (every registered template is one) renders an empty chunk and then its children -/
theorem refNode_root (cfg : Cfg) (env : Env Sc) (f depth : Nat) (nc : NC) (t : Node) (sc : Sc)
    (hk : t.d.kind = .root) (he : t.endVal = none) (h : (refNode cfg env f depth nc t sc).st ≠ .fuel) :
    refNode cfg env f depth nc t sc =
      { refKids cfg env f depth nc t.kids sc with out := "" :: (refKids cfg env f depth nc t.kids sc).out } := by
  have hnt : t.d.kind ≠ .tag := by rw [hk]; simp
  rw [refNode_unf_nontag cfg env f depth nc t sc hnt h]
  simp only [headChunk, hk, he, endChunks, Q.andThen_okQ_nil, Q.okQ_andThen, List.singleton_append]

/-! ### generic "status is not `b`" congruences (`b = fuel` is section 3 of RenderSpec; here `b = err tooDeep`) -/

theorem Q.andThen_ne {b : Status} (hb : b ≠ .ok) {r : Q} {k : NC → Q} (h : (r.andThen k).st ≠ b) :
    r.st ≠ b ∧ (r.st = .ok → (k r.nc).st ≠ b) := by
  by_cases hr : r.st = .ok
  · rw [Q.andThen_ok k hr] at h; exact ⟨by rw [hr]; exact hb.symm, fun _ => h⟩
  · rw [Q.andThen_not_ok k hr] at h; exact ⟨h, fun h' => absurd h' hr⟩

theorem Q.andThen_congr_ne {b : Status} (hb : b ≠ .ok) {r r' : Q} {k k' : NC → Q} (h : (r.andThen k).st ≠ b)
    (hr : r.st ≠ b → r' = r) (hk : r.st = .ok → (k r.nc).st ≠ b → k' r.nc = k r.nc) :
    r'.andThen k' = r.andThen k := by
  obtain ⟨h1, h2⟩ := Q.andThen_ne hb h
  rw [hr h1]
  by_cases ho : r.st = .ok
  · rw [Q.andThen_ok k ho, Q.andThen_ok k' ho, hk ho (h2 ho)]
  · rw [Q.andThen_not_ok k ho, Q.andThen_not_ok k' ho]

theorem PR.andThen_ne {b : Status} (hb : b ≠ .ok) {r : PR Sc} {k : PS Sc → NC → Fl → PR Sc} (h : (r.andThen k).st ≠ b) :
    r.st ≠ b ∧ (r.st = .ok → (k r.ps r.nc r.fl).st ≠ b) := by
  by_cases hr : r.st = .ok
  · rw [PR.andThen_ok k hr] at h; exact ⟨by rw [hr]; exact hb.symm, fun _ => h⟩
  · rw [PR.andThen_not_ok k hr] at h; exact ⟨h, fun h' => absurd h' hr⟩

theorem PR.andThen_congr_ne {b : Status} (hb : b ≠ .ok) {r r' : PR Sc} {k k' : PS Sc → NC → Fl → PR Sc}
    (h : (r.andThen k).st ≠ b) (hr : r.st ≠ b → r' = r)
    (hk : r.st = .ok → (k r.ps r.nc r.fl).st ≠ b → k' r.ps r.nc r.fl = k r.ps r.nc r.fl) :
    r'.andThen k' = r.andThen k := by
  obtain ⟨h1, h2⟩ := PR.andThen_ne hb h
  rw [hr h1]
  by_cases ho : r.st = .ok
  · rw [PR.andThen_ok k ho, PR.andThen_ok k' ho, hk ho (h2 ho)]
  · rw [PR.andThen_not_ok k ho, PR.andThen_not_ok k' ho]

theorem evalCondQ_congr_ne {b : Status} (env : Env Sc) {rest rest' : NC → Q} {nc : NC} {id : Nat} {ca : CAttr} {sc1 : Sc}
    (h : (evalCondQ env rest nc id ca sc1).st ≠ b)
    (hr : ∀ nc', (rest nc').st ≠ b → rest' nc' = rest nc') :
    evalCondQ env rest' nc id ca sc1 = evalCondQ env rest nc id ca sc1 := by
  unfold evalCondQ at h ⊢
  cases hE : env.evalStr ca sc1 with
  | mk e lg =>
    cases e with
    | error c => rfl
    | ok v =>
      simp only [hE] at h ⊢
      split
      · rename_i hv; simp only [hv, if_true, Q.addLogS_st, Q.buffered_st] at h; rw [hr _ h]
      · rfl

theorem condPhase_congr_ne {b : Status} (cfg : Cfg) (env : Env Sc) {d : NodeD} {rest rest' : NC → Q} {nc : NC} {sc1 : Sc}
    (h : (condPhase cfg env d nc rest sc1).st ≠ b)
    (hr : ∀ nc', (rest nc').st ≠ b → rest' nc' = rest nc') :
    condPhase cfg env d nc rest' sc1 = condPhase cfg env d nc rest sc1 := by
  unfold condPhase at h ⊢
  cases hc : condAttr cfg d.attrs with
  | none => simp only [hc] at h ⊢; exact hr _ h
  | some p =>
    obtain ⟨ca, isIf⟩ := p
    simp only [hc] at h ⊢
    cases hv : ca.value with
    | none => rfl
    | some v0 =>
      simp only [hv] at h ⊢
      cases isIf
      · simp only [Bool.false_eq_true, if_false] at h ⊢
        cases hp : d.prevTag.bind nc with
        | none => rfl
        | some b' =>
          cases b'
          · simp only [hp] at h ⊢; exact evalCondQ_congr_ne env h hr
          · rfl
      · simp only [if_true] at h ⊢; exact evalCondQ_congr_ne env h hr

theorem tagPhases_congr_ne {b : Status} (cfg : Cfg) (env : Env Sc) {d : NodeD} {rest rest' : NC → Sc → Q} {nc : NC} {sc : Sc}
    (h : (tagPhases cfg env d nc rest sc).st ≠ b)
    (hr : ∀ nc' sc', (rest nc' sc').st ≠ b → rest' nc' sc' = rest nc' sc') :
    tagPhases cfg env d nc rest' sc = tagPhases cfg env d nc rest sc := by
  unfold tagPhases at h ⊢
  cases hw : withPhase cfg env d sc with
  | mk e lg =>
    cases e with
    | error c => rfl
    | ok sc1 =>
      simp only [hw, Q.addLogS_st] at h ⊢
      rw [condPhase_congr_ne cfg env h (fun nc' hn => hr nc' sc1 hn)]

theorem bodyStep_congr_ne {b : Status} (cfg : Cfg) (env : Env Sc) {frag frag' : Node → Sc → R} {d : NodeD} {a : CAttr}
    {k : AK} {ps : PS Sc} {nc : NC} {fl : Fl}
    (h : (bodyStep cfg env frag d a k ps nc fl).st ≠ b)
    (hf : ∀ t sc, (frag t sc).st ≠ b → frag' t sc = frag t sc) :
    bodyStep cfg env frag' d a k ps nc fl = bodyStep cfg env frag d a k ps nc fl := by
  cases k <;> try rfl
  all_goals (
    simp only [bodyStep] at h ⊢
    cases hE : env.evalStr a ps.data with
    | mk e lg =>
      cases e with
      | error c => rfl
      | ok name =>
        simp only [hE] at h ⊢
        cases hT : env.tpl name with
        | none => rfl
        | some t =>
          simp only [hT] at h ⊢
          have : (frag t ps.data).st ≠ b := by
            intro hfu; apply h; rw [hfu]
            cases b <;> first | rfl | skip
          rw [hf _ _ this])

/-! ### depth shift -/

/-- the status "nesting too deep" -/
abbrev tooDeepSt : Status := .err .tooDeep

theorem tooDeep_ne_ok : tooDeepSt ≠ .ok := by simp [tooDeepSt]

/-- at fuel `f`: a run at nesting depth `d'` that does not end in `tooDeep` is the run at any smaller depth `d` -/
structure ShiftAt (cfg : Cfg) (env : Env Sc) (f : Nat) : Prop where
  node : ∀ d d' nc node sc, d ≤ d' → (refNode cfg env f d' nc node sc).st ≠ tooDeepSt →
    refNode cfg env f d nc node sc = refNode cfg env f d' nc node sc
  kids : ∀ d d' nc ks sc, d ≤ d' → (refKids cfg env f d' nc ks sc).st ≠ tooDeepSt →
    refKids cfg env f d nc ks sc = refKids cfg env f d' nc ks sc
  range : ∀ d d' nc node ra sc, d ≤ d' → (refRange cfg env f d' nc node ra sc).st ≠ tooDeepSt →
    refRange cfg env f d nc node ra sc = refRange cfg env f d' nc node ra sc
  items : ∀ d d' nc node its first, d ≤ d' → (refItems cfg env f d' nc node its first).st ≠ tooDeepSt →
    refItems cfg env f d nc node its first = refItems cfg env f d' nc node its first
  body : ∀ d d' nc node sc, d ≤ d' → (refBody cfg env f d' nc node sc).st ≠ tooDeepSt →
    refBody cfg env f d nc node sc = refBody cfg env f d' nc node sc
  attrs : ∀ d d' nc nd as ps, d ≤ d' → (refAttrs cfg env f d' nc nd as ps).st ≠ tooDeepSt →
    refAttrs cfg env f d nc nd as ps = refAttrs cfg env f d' nc nd as ps
  frag : ∀ d d' nc t sc, d ≤ d' → (refFrag cfg env f d' nc t sc).st ≠ tooDeepSt →
    refFrag cfg env f d nc t sc = refFrag cfg env f d' nc t sc
  child : ∀ d d' nc node mode sc, d ≤ d' → (refChild cfg env f d' nc node mode sc).st ≠ tooDeepSt →
    refChild cfg env f d nc node mode sc = refChild cfg env f d' nc node mode sc

theorem shift (cfg : Cfg) (env : Env Sc) : ∀ f, ShiftAt cfg env f := by
  intro f
  induction f with
  | zero =>
    constructor <;> intros <;> simp [refNode, refKids, refRange, refItems, refBody, refAttrs, refFrag, refChild]
  | succ f ih =>
    have hb := tooDeep_ne_ok
    constructor
    · -- node
      intro d d' nc node sc hd h
      by_cases hk : node.d.kind = .tag
      · rw [refNode_tag _ _ _ _ _ _ _ hk] at h ⊢
        rw [refNode_tag _ _ _ _ _ _ _ hk]
        refine tagPhases_congr_ne cfg env h ?_
        intro nc' sc' hn
        unfold refRest at hn ⊢
        cases hr : rangeAttr cfg node.d.attrs with
        | none => simp only [hr] at hn ⊢; exact ih.body _ _ _ _ _ hd hn
        | some ra => simp only [hr] at hn ⊢; exact ih.range _ _ _ _ _ _ hd hn
      · rw [refNode_nontag _ _ _ _ _ _ _ hk] at h ⊢
        rw [refNode_nontag _ _ _ _ _ _ _ hk]
        refine Q.andThen_congr_ne hb h (fun _ => rfl) ?_
        intro _ h2
        refine Q.andThen_congr_ne hb h2 (fun h3 => ih.kids _ _ _ _ _ hd h3) (fun _ _ => rfl)
    · -- kids
      intro d d' nc ks sc hd h
      cases ks with
      | nil => simp only [refKids]
      | cons k ks =>
        rw [refKids] at h ⊢; rw [refKids]
        exact Q.andThen_congr_ne hb h (fun h1 => ih.node _ _ _ _ _ hd h1) (fun _ h2 => ih.kids _ _ _ _ _ hd h2)
    · -- range
      intro d d' nc node ra sc hd h
      rw [refRange] at h ⊢; rw [refRange]
      cases hv : ra.value with
      | none => rfl
      | some v =>
        simp only [hv] at h ⊢
        cases hE : env.rangeItems ra sc with
        | mk e lg =>
          cases e with
          | error c => rfl
          | ok its =>
            simp only [hE, Q.buffered_st] at h ⊢
            rw [ih.items _ _ _ _ _ _ hd h]
    · -- items
      intro d d' nc node its first hd h
      cases its with
      | nil => simp only [refItems]
      | cons sc rest =>
        rw [refItems] at h ⊢; rw [refItems]
        refine Q.andThen_congr_ne hb h ?_ (fun _ h2 => ih.items _ _ _ _ _ _ hd h2)
        intro h1
        exact Q.andThen_congr_ne hb h1 (fun _ => rfl) (fun _ h3 => ih.body _ _ _ _ _ hd h3)
    · -- body
      intro d d' nc node sc hd h
      rw [refBody] at h ⊢; rw [refBody]
      simp only [] at h ⊢
      have hA : (refAttrs cfg env f d' nc node.d node.d.attrs
          { data := sc, noPrint := (initOpt cfg node.d 3).1, child := (initOpt cfg node.d 3).2,
            tagBuf := if (initOpt cfg node.d 3).1 = true then "" else "<" ++ node.d.tagName }).st ≠ tooDeepSt := by
        intro hfu; apply h; simp only [hfu]
      rw [ih.attrs _ _ _ _ _ _ hd hA]
      split
      · rename_i hok
        simp only [hok] at h
        refine Q.andThen_congr_ne hb h ?_ (fun _ _ => rfl)
        intro h1
        exact Q.andThen_congr_ne hb h1 (fun _ => rfl) (fun _ h3 => ih.child _ _ _ _ _ _ hd h3)
      · rfl
    · -- attrs
      intro d d' nc nd as ps hd h
      cases as with
      | nil => simp only [refAttrs]
      | cons a rest =>
        rw [refAttrs] at h ⊢; rw [refAttrs]
        split
        · rename_i hc; simp only [hc, if_true] at h; exact ih.attrs _ _ _ _ _ _ hd h
        · rename_i hc; simp only [hc] at h
          refine PR.andThen_congr_ne hb h ?_ (fun _ h2 => ih.attrs _ _ _ _ _ _ hd h2)
          intro h1
          refine bodyStep_congr_ne cfg env h1 ?_
          intro t sc' ht
          simp only [Q.toR_st] at ht
          rw [ih.frag _ _ _ _ _ hd ht]
    · -- frag
      intro d d' nc t sc hd h
      rw [refFrag] at h ⊢; rw [refFrag]
      by_cases hd' : d' + 1 > cfg.maxDepth
      · exfalso; apply h; simp only [hd', if_true]
      · have hd1 : ¬ (d + 1 > cfg.maxDepth) := by omega
        simp only [hd', hd1, if_false, Q.buffered_st] at h ⊢
        rw [ih.node _ _ _ _ _ (by omega) h]
    · -- child
      intro d d' nc node mode sc hd h
      cases mode with
      | unset => rw [refChild] at h ⊢; rw [refChild]; exact ih.kids _ _ _ _ _ hd h
      | nop => simp only [refChild]
      | textLike a isText => simp only [refChild]
      | abf =>
        rw [refChild] at h ⊢; rw [refChild]
        simp only [] at h ⊢
        refine Q.andThen_congr_ne hb h ?_ ?_
        · intro h1
          cases hb1 : (abfParts node.kids).1 with
          | none => rfl
          | some k => simp only [hb1] at h1 ⊢; exact ih.node _ _ _ _ _ hd h1
        · intro _ h2
          refine Q.andThen_congr_ne hb h2 ?_ ?_
          · intro h3
            cases hb2 : (abfParts node.kids).2.1 with
            | none => rfl
            | some k => simp only [hb2] at h3 ⊢; exact ih.node _ _ _ _ _ hd h3
          · intro _ h4
            cases hb3 : (abfParts node.kids).2.2 with
            | none => rfl
            | some k => simp only [hb3] at h4 ⊢; exact ih.node _ _ _ _ _ hd h4

/-- **depth shift.** A specification run at nesting depth `d'` that does not fail with "too deep" is, at the same fuel,
    the run at any smaller depth `d` (in particular at depth 0, where `refExecute` runs): the depth is only compared
    with the limit. -/
theorem refNode_shift (cfg : Cfg) (env : Env Sc) {f d d' : Nat} {nc : NC} {node : Node} {sc : Sc} (hd : d ≤ d')
    (h : (refNode cfg env f d' nc node sc).st ≠ .err .tooDeep) :
    refNode cfg env f d nc node sc = refNode cfg env f d' nc node sc := (shift cfg env f).node _ _ _ _ _ hd h

theorem refKids_shift (cfg : Cfg) (env : Env Sc) {f d d' : Nat} {nc : NC} {ks : List Node} {sc : Sc} (hd : d ≤ d')
    (h : (refKids cfg env f d' nc ks sc).st ≠ .err .tooDeep) :
    refKids cfg env f d nc ks sc = refKids cfg env f d' nc ks sc := (shift cfg env f).kids _ _ _ _ _ hd h

end RN.Spec

/-! ## Part F — the first child of a file root; a fragment run is an `Execute` run -/
namespace EN
open RN (CAttr Part NodeD Node NK Cls)

/-- the first token becomes the first child of the root, whatever it is -/
theorem assemble_first_kid (it : Item) (rest : List Item) :
    ∃ k ks, (assemble (it :: rest)).kids = k :: ks ∧ k.d = it.d := by
  have h := assemble_kids_flat (it :: rest)
  have he : emitOf ⟨[], []⟩ it = .inl it.d := by
    unfold emitOf; cases it.act <;> rfl
  simp only [emits, he] at h
  cases hk : (assemble (it :: rest)).kids with
  | nil => rw [hk] at h; simp [flatDL] at h
  | cons k ks =>
    rw [hk] at h
    cases k with
    | mk d kids e =>
      simp only [flatDL, flatD, List.cons_append, List.cons.injEq, Sum.inl.injEq] at h
      exact ⟨_, _, rfl, h.1⟩

theorem annotate_first_kid {n k : Node} {ks : List Node} (h : n.kids = k :: ks) :
    ∃ k' ks', (annotate n).kids = k' :: ks' ∧ k'.d.value = k.d.value ∧ k'.d.kind = k.d.kind ∧ k'.d.id = k.d.id ∧
      ks'.length = ks.length := by
  cases n with
  | mk d kids e =>
    simp only [RN.Node.kids] at h
    subst h
    refine ⟨_, _, by simp only [annotate, annotateL, RN.Node.kids]; rfl, ?_, ?_, ?_, ?_⟩
    · show (annotate k).d.value = k.d.value; rw [annotate_d]
    · show (annotate k).d.kind = k.d.kind; rw [annotate_d]
    · show (annotate k).d.id = k.d.id; rw [annotate_d]
    · have : ∀ (p : Option Nat) (l : List Node), (annotateL p l).length = l.length := by
        intro p l
        induction l generalizing p with
        | nil => simp [annotateL]
        | cons x xs ih => simp [annotateL, ih]
      exact this _ _

/-- a file that starts with a text token — blank or not — has that text node as the first child of its registered root -/
theorem buildTreeS_first_kid {cfg : Cfg} {fileIdx : Nat} {t : HS.Token} {ts : List HS.Token} {tbl tbl' : Tbl} {root : Node}
    (h : buildTreeS cfg fileIdx (t :: ts) tbl = (.ok root, tbl')) :
    ∃ k ks, (annotate root).kids = k :: ks ∧ k.d.value = String.ofList t.value ∧
      (k.d.kind == .text) = HS.tokIsText t := by
  obtain ⟨items, h1, h2⟩ := mapRes_ok h
  obtain ⟨r1, _⟩ := compileToks_rel cfg _ _ _ _ _ h1
  obtain ⟨_, r3⟩ := compileToks_kind cfg _ _ _ _ _ h1
  cases r1 with
  | @cons _ it _ its hr hrest =>
    obtain ⟨k, ks, hk, hd⟩ := assemble_first_kid it its
    obtain ⟨k', ks', hk', hv, hkind, _, _⟩ := annotate_first_kid (n := assemble (it :: its)) hk
    refine ⟨k', ks', by rw [h2]; exact hk', ?_, ?_⟩
    · rw [hv, hd]; exact hr.1
    · simp only [List.map_cons, List.cons.injEq] at r3
      rw [hkind, hd]; exact r3.1

end EN

namespace RN.Spec
variable {Sc : Type}

theorem join_cons_empty (l : List String) : String.join ("" :: l) = String.join l := by simp [String.join]

/-- **a fragment run is an `Execute` run.** When the fragment `t` succeeds at a call site of nesting depth `depth`, its
    run — depth `depth + 1`, fresh conditions — is, at the same fuel, literally the run of `refExecute` on `t` (depth 0,
    fresh conditions) in the same scope. -/
theorem frag_is_execute (cfg : Cfg) (env : Env Sc) (f depth : Nat) (nc : NC) (t : Node) (sc : Sc)
    (hok : (refFrag cfg env f depth nc t sc).st = .ok) :
    refNode cfg env f (depth + 1) emptyNc t sc = refExecute cfg env f t sc ∧ (refExecute cfg env f t sc).st = .ok := by
  have hne : (refFrag cfg env f depth nc t sc).st ≠ .fuel := by rw [hok]; simp
  rw [refFrag_unf cfg env f depth nc t sc hne] at hok
  unfold fragRun at hok
  split at hok
  · cases hok
  · simp only [Q.buffered_st] at hok
    have hsh : refNode cfg env f 0 emptyNc t sc = refNode cfg env f (depth + 1) emptyNc t sc :=
      refNode_shift cfg env (Nat.zero_le _) (by rw [hok]; simp)
    exact ⟨hsh.symm, by unfold refExecute; rw [hsh]; exact hok⟩

end RN.Spec

