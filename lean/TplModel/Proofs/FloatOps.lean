import TplModel.Exp.OpsPure
/-! # The float fragment of `relOp` / `numEq` as plain functions of the operand bit patterns

`exp/visitor.go` (`relOp`, `numEqual`): when both operands are numbers and at least one of them is a float, each
operand is converted to float64 (`float64(i)` for an integer operand, the value itself for a float32/float64
operand) and the float64 operator is applied.  `floatImage` is that conversion; `fRel` the operator on the bit
patterns of the two images.  `relOp_float` states that the monadic model operator computes exactly `fRel`.

`Float.ofInt` (Go's `float64(i)`) and `Float.toBits` stay opaque: every statement is about the patterns
`fa.toBits`, `fb.toBits` of the images, for ALL images.  Core-only. -/
namespace EV

/-- the float64 an operand is compared as once the other operand is a float: `float64(i)` for an integer operand of
    any kind, the value itself for a float operand, nothing for a non-number -/
def floatImage (v : Val) : Option Float :=
  match isInt v with
  | some a => some (Float.ofInt a)
  | none => isFloat v

/-- the six comparison operators on the bit patterns of two float64 values (any other operator text is treated as
    `>=`, like the model's `relOp`; the parser only produces the six) -/
def fRel (op : String) (a b : UInt64) : Bool :=
  match op with
  | "==" => F64.eq a b
  | "!=" => !F64.eq a b
  | _ => F64.rel op a b

theorem fRel_eq (a b : UInt64) : fRel "==" a b = F64.eq a b := rfl
theorem fRel_ne (a b : UInt64) : fRel "!=" a b = !F64.eq a b := rfl
theorem fRel_lt (a b : UInt64) : fRel "<" a b = F64.lt a b := rfl
theorem fRel_le (a b : UInt64) : fRel "<=" a b = F64.le a b := rfl
theorem fRel_gt (a b : UInt64) : fRel ">" a b = F64.gt a b := rfl
theorem fRel_ge (a b : UInt64) : fRel ">=" a b = F64.ge a b := rfl

theorem isInt_none_of_isFloat {v : Val} {x : Float} (h : isFloat v = some x) : isInt v = none := by
  cases v <;> first | rfl | simp [isFloat] at h

theorem floatImage_of_isInt {v : Val} {a : Int} (h : isInt v = some a) : floatImage v = some (Float.ofInt a) := by
  simp only [floatImage, h]

theorem floatImage_of_isFloat {v : Val} {x : Float} (h : isFloat v = some x) : floatImage v = some x := by
  simp only [floatImage, isInt_none_of_isFloat h, h]

theorem floatImage_f64 (x : Float) : floatImage (.f64 x) = some x := rfl
theorem floatImage_f32 (x : Float) : floatImage (.f32 x) = some x := rfl
theorem floatImage_int (k : IK) (x : Int) :
    floatImage (.int k x) = some (Float.ofInt (if k = .uint64 ∨ k = .uint then wrap64 x else x)) :=
  floatImage_of_isInt (isInt_int k x)

/-- a value has a float image iff it is a number (integer of any kind, float32 or float64) -/
theorem floatImage_isSome_iff (v : Val) : (floatImage v).isSome ↔ (isInt v).isSome ∨ (isFloat v).isSome := by
  unfold floatImage
  cases isInt v <;> simp

/-- `numEqual` in the float branch (not both operands integers, both numbers) -/
theorem numEq_float {l r : Val} {fa fb : Float} (hmix : isInt l = none ∨ isInt r = none)
    (hl : floatImage l = some fa) (hr : floatImage r = some fb) :
    numEq l r = some (F64.eq fa.toBits fb.toBits) := by
  unfold floatImage at hl hr
  unfold numEq
  rcases hmix with h | h
  · simp only [h] at hl ⊢
    cases hr' : isInt r <;> simp only [hr'] at hr ⊢ <;> simp only [hl, hr]
  · simp only [h] at hr ⊢
    cases hl' : isInt l <;> simp only [hl'] at hl ⊢ <;> simp only [hl, hr]

theorem eqRes_float {fns : List (String × FnSpec)} {l r : Val} {fa fb : Float}
    (hmix : isInt l = none ∨ isInt r = none) (hl : floatImage l = some fa) (hr : floatImage r = some fb) :
    eqRes fns l r = some (F64.eq fa.toBits fb.toBits) := by
  simp only [eqRes, numEq_float hmix hl hr]

/-- all six comparison operators in the float branch: the result is `fRel` of the two image patterns, the state is
    untouched, nothing errs or panics -/
theorem relOp_float {fns : List (String × FnSpec)} {op : String} {l r : Val} {fa fb : Float}
    (hmix : isInt l = none ∨ isInt r = none) (hl : floatImage l = some fa) (hr : floatImage r = some fb) :
    relOp fns op l r = (R.val (.bool (fRel op fa.toBits fb.toBits))).toM := by
  unfold relOp
  split
  · simp only [numEq_float hmix hl hr]; rfl
  · simp only [numEq_float hmix hl hr]; rfl
  · rename_i h1 h2
    have hf : fRel op fa.toBits fb.toBits = F64.rel op fa.toBits fb.toBits := by
      unfold fRel
      split <;> first | (exact absurd rfl h1) | (exact absurd rfl h2) | rfl
    rw [hf]
    unfold floatImage at hl hr
    rcases hmix with h | h
    · simp only [h] at hl ⊢
      cases hr' : isInt r <;> simp only [hr'] at hr ⊢ <;> simp only [hl, hr] <;> rfl
    · simp only [h] at hr ⊢
      cases hl' : isInt l <;> simp only [hl'] at hl ⊢ <;> simp only [hl, hr] <;> rfl

/-- the same, run in a state -/
theorem relOp_float_run {fns : List (String × FnSpec)} {op : String} {l r : Val} {fa fb : Float}
    (hmix : isInt l = none ∨ isInt r = none) (hl : floatImage l = some fa) (hr : floatImage r = some fb) (st : St) :
    (relOp fns op l r).run st = .ok (.bool (fRel op fa.toBits fb.toBits), st) := by
  rw [relOp_float hmix hl hr, R.run_toM]; rfl

end EV
