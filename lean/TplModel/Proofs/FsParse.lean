import TplModel.Sys.FsParse
/-! # Helper lemmas for C19 (`Sys/FsParse`)

Everything is proved for `walk` from an ARBITRARY start state (so it also covers a second `Parse` on the
same manager); `Props/C19.lean` specialises to `run` (fresh manager).  A `define` whose name fails to evaluate
(`none` in `Content.defines`) is one more kind of fault: `addDefines_fst`, `add_result`, `faultOf_none_iff`,
`add_registered`/`visit_registered` (what stays registered when that fault is met).  Core-only. -/
namespace FP

/-! ## spec vocabulary -/

theorem acceptedPaths_nil (m) : acceptedPaths m [] = [] := rfl
theorem allNames_nil (m) : allNames m [] = [] := rfl

theorem acceptedPaths_cons (m) (e : Entry) (es) :
    acceptedPaths m (e :: es) = (if e.accepted m then [e.path] else []) ++ acceptedPaths m es := by
  unfold acceptedPaths; cases h : e.accepted m <;> simp [h]

theorem allNames_cons (m) (e : Entry) (es) :
    allNames m (e :: es) = (if e.accepted m then e.names else []) ++ allNames m es := by
  unfold allNames; cases h : e.accepted m <;> simp [h]

theorem acceptedPaths_append (m) (xs ys : List Entry) :
    acceptedPaths m (xs ++ ys) = acceptedPaths m xs ++ acceptedPaths m ys := by
  simp [acceptedPaths]

theorem allNames_append (m) (xs ys : List Entry) :
    allNames m (xs ++ ys) = allNames m xs ++ allNames m ys := by
  simp [allNames]

theorem mem_acceptedPaths {m} {es : List Entry} {p : String} :
    p ∈ acceptedPaths m es ↔ ∃ e ∈ es, e.path = p ∧ e.isDir = false ∧ m e.path = true := by
  simp [acceptedPaths, Entry.accepted, and_assoc, and_comm, and_left_comm]

theorem NoFsFault_cons {m} {e : Entry} {es} :
    NoFsFault m (e :: es) ↔
      (e.walkErr = false ∧
        (e.accepted m = true → e.openErr = false ∧ e.content.loadErr = false ∧ e.content.nameErr = false)) ∧
      NoFsFault m es := by
  simp [NoFsFault]

/-! ## `definedNames`: the fragment names in front of the first failing `define` name -/

@[simp] theorem definedNames_nil : definedNames [] = [] := rfl
@[simp] theorem definedNames_none (ds : List (Option String)) : definedNames (none :: ds) = [] := rfl
@[simp] theorem definedNames_some (d : String) (ds : List (Option String)) :
    definedNames (some d :: ds) = d :: definedNames ds := rfl

theorem definedNames_map_some (l : List String) : definedNames (l.map some) = l := by
  induction l with
  | nil => rfl
  | cons a l ih => simp [ih]

/-- the names are a prefix of the `define`s -/
theorem definedNames_prefix (ds : List (Option String)) : (definedNames ds).map some <+: ds := by
  induction ds with
  | nil => simp
  | cons d ds ih =>
    cases d with
    | none => simp
    | some d => simpa using (List.prefix_cons_inj (some d)).mpr ih

/-- no `define` name fails: the names are all the `define`s, nothing is cut off -/
theorem map_some_definedNames {ds : List (Option String)} (h : ds.contains none = false) :
    (definedNames ds).map some = ds := by
  induction ds with
  | nil => rfl
  | cons d ds ih =>
    cases d with
    | none => simp at h
    | some d =>
      have : ds.contains none = false := by simpa using h
      simp [ih this]

theorem definedNames_append_of_mem {a : List (Option String)} (h : none ∈ a) (b : List (Option String)) :
    definedNames (a ++ b) = definedNames a := by
  induction a with
  | nil => cases h
  | cons d a ih =>
    cases d with
    | none => rfl
    | some d =>
      have : none ∈ a := by simpa using h
      simp [ih this]

theorem definedNames_append_of_not_mem {a : List (Option String)} (h : none ∉ a) (b : List (Option String)) :
    definedNames (a ++ b) = definedNames a ++ definedNames b := by
  induction a with
  | nil => rfl
  | cons d a ih =>
    cases d with
    | none => simp at h
    | some d =>
      have : none ∉ a := by simpa using h
      simp [ih this]

theorem nameErr_iff (c : Content) : c.nameErr = true ↔ none ∈ c.defines := by
  simp [Content.nameErr]

/-! ## `addDefines` -/

theorem addDefines_frame (s : State) (ds : List (Option String)) :
    (addDefines s ds).2.files = s.files ∧ (addDefines s ds).2.opens = s.opens ∧
    (addDefines s ds).2.closes = s.closes := by
  induction ds generalizing s with
  | nil => simp [addDefines]
  | cons d ds ih =>
    cases d with
    | none => simp [addDefines]
    | some d =>
      rw [addDefines]
      split
      · simp
      · simpa using ih { s with templates := s.templates ++ [d] }

/-- the outcome of registering the fragments, on the input: a name clash in front of the first failing name
    is the duplicate-name error; otherwise a failing name is the (`load`) error; otherwise success -/
theorem addDefines_fst (s : State) (ds : List (Option String)) :
    (addDefines s ds).1 =
      if (definedNames ds).Nodup ∧ ∀ d ∈ definedNames ds, d ∉ s.templates then
        (if ds.contains none then .err .load else .ok)
      else .err .duplicate := by
  induction ds generalizing s with
  | nil => simp [addDefines]
  | cons d ds ih =>
    cases d with
    | none => simp [addDefines]
    | some d =>
      rw [addDefines]
      split
      · rename_i h
        rw [if_neg]
        rintro ⟨_, hall⟩
        exact hall d (by simp) h
      · rename_i h
        rw [ih]
        have hc : (some d :: ds).contains none = ds.contains none := by simp
        have hiff : ((definedNames ds).Nodup ∧
              ∀ x ∈ definedNames ds, x ∉ ({ s with templates := s.templates ++ [d] } : State).templates) ↔
            ((definedNames (some d :: ds)).Nodup ∧ ∀ x ∈ definedNames (some d :: ds), x ∉ s.templates) := by
          simp only [definedNames_some, List.mem_append, List.mem_cons, List.not_mem_nil, or_false,
            List.nodup_cons, not_or]
          constructor
          · rintro ⟨hnd, hall⟩
            refine ⟨⟨fun hm => (hall d hm).2 rfl, hnd⟩, ?_⟩
            intro x hx
            rcases hx with rfl | hx
            · exact h
            · exact (hall x hx).1
          · rintro ⟨⟨hd, hnd⟩, hall⟩
            refine ⟨hnd, fun x hx => ⟨hall x (Or.inr hx), ?_⟩⟩
            intro hxd; subst hxd; exact hd hx
        rw [hc]
        by_cases hP : (definedNames (some d :: ds)).Nodup ∧ ∀ x ∈ definedNames (some d :: ds), x ∉ s.templates
        · rw [if_pos hP, if_pos (hiff.mpr hP)]
        · rw [if_neg hP, if_neg (fun h' => hP (hiff.mp h'))]

theorem addDefines_result (s : State) (ds : List (Option String)) :
    (addDefines s ds).1 = .ok ∨ (addDefines s ds).1 = .err .duplicate ∨ (addDefines s ds).1 = .err .load := by
  rw [addDefines_fst]
  split
  · split <;> simp
  · simp

theorem addDefines_ok_iff (s : State) (ds : List (Option String)) :
    (addDefines s ds).1 = .ok ↔
      ds.contains none = false ∧ (definedNames ds).Nodup ∧ ∀ d ∈ definedNames ds, d ∉ s.templates := by
  rw [addDefines_fst]
  by_cases hP : (definedNames ds).Nodup ∧ ∀ d ∈ definedNames ds, d ∉ s.templates
  · rw [if_pos hP]
    cases hc : ds.contains none <;> simp [hP.1] <;> exact hP.2
  · rw [if_neg hP]
    simp only [reduceCtorEq, false_iff]
    rintro ⟨_, h⟩
    exact hP h

/-- the evaluation error of a `define` name is reported exactly when no name clash comes first -/
theorem addDefines_load_iff (s : State) (ds : List (Option String)) :
    (addDefines s ds).1 = .err .load ↔
      ds.contains none = true ∧ (definedNames ds).Nodup ∧ ∀ d ∈ definedNames ds, d ∉ s.templates := by
  rw [addDefines_fst]
  by_cases hP : (definedNames ds).Nodup ∧ ∀ d ∈ definedNames ds, d ∉ s.templates
  · rw [if_pos hP]
    cases hc : ds.contains none <;> simp [hP.1] <;> exact hP.2
  · rw [if_neg hP]
    simp only [Result.err.injEq, reduceCtorEq, false_iff]
    rintro ⟨_, h⟩
    exact hP h

/-- the fragments registered are a prefix of the requested ones; all of them (up to the first failing name)
    unless a name clash stopped the registration -/
theorem addDefines_templates (s : State) (ds : List (Option String)) :
    ∃ t, (addDefines s ds).2.templates = s.templates ++ t ∧ t <+: definedNames ds ∧
      ((addDefines s ds).1 ≠ .err .duplicate → t = definedNames ds) := by
  induction ds generalizing s with
  | nil => exact ⟨[], by simp [addDefines]⟩
  | cons d ds ih =>
    cases d with
    | none => exact ⟨[], by simp [addDefines]⟩
    | some d =>
      rw [addDefines]
      split
      · exact ⟨[], by simp⟩
      · obtain ⟨t, h1, h2, h3⟩ := ih { s with templates := s.templates ++ [d] }
        refine ⟨d :: t, ?_, ?_, ?_⟩
        · simpa using h1
        · exact List.prefix_cons_inj d |>.mpr h2
        · intro h; rw [h3 h]; rfl

theorem addDefines_nodup (s : State) (ds : List (Option String)) (h : s.templates.Nodup) :
    (addDefines s ds).2.templates.Nodup := by
  induction ds generalizing s with
  | nil => simpa [addDefines]
  | cons d ds ih =>
    cases d with
    | none => simpa [addDefines]
    | some d =>
      rw [addDefines]
      split
      · exact h
      · rename_i hd
        apply ih
        simp only [List.nodup_append]
        refine ⟨h, by simp, ?_⟩
        intro a ha b hb hab
        simp at hb; subst hb; subst hab; exact hd ha

/-! ## `add` -/

theorem add_frame (s : State) (n : String) (c : Content) :
    (add s n c).2.opens = s.opens ∧ (add s n c).2.closes = s.closes := by
  unfold add
  split
  · simp
  · split
    · simp
    · have := addDefines_frame { s with files := s.files ++ [n], templates := s.templates ++ [n] } c.defines
      simpa using this.2

theorem add_nodup (s : State) (n : String) (c : Content) (h : s.templates.Nodup) :
    (add s n c).2.templates.Nodup := by
  unfold add
  split
  · exact h
  · split
    · exact h
    · rename_i hn _
      apply addDefines_nodup
      simp only [List.nodup_append]
      refine ⟨h, by simp, ?_⟩
      intro a ha b hb hab
      simp at hb; subst hb; subst hab; exact hn ha

/-- result of `Add` in terms of the input -/
theorem add_result (s : State) (n : String) (c : Content) (h : s.templates.Nodup) :
    (add s n c).1 =
      if n ∈ s.templates then .err .duplicate
      else if c.loadErr then .err .load
      else if (s.templates ++ n :: definedNames c.defines).Nodup then
        (if c.nameErr then .err .load else .ok)
      else .err .duplicate := by
  unfold add
  split
  · rfl
  · rename_i hn
    split
    · rfl
    · rw [addDefines_fst]
      have hnd : (s.templates ++ n :: definedNames c.defines).Nodup ↔
          (definedNames c.defines).Nodup ∧ ∀ d ∈ definedNames c.defines, d ∉ s.templates ++ [n] := by
        simp only [List.nodup_append, List.nodup_cons, List.mem_cons, List.mem_append,
          List.not_mem_nil, or_false, not_or]
        constructor
        · rintro ⟨_, ⟨hnd, hdn⟩, hdis⟩
          refine ⟨hdn, fun d hd => ⟨fun hs => hdis d hs d (Or.inr hd) rfl, ?_⟩⟩
          intro hdn'; subst hdn'; exact hnd hd
        · rintro ⟨hdn, hall⟩
          refine ⟨h, ⟨fun hm => (hall n hm).2 rfl, hdn⟩, ?_⟩
          intro a ha b hb hab
          subst hab
          rcases hb with rfl | hb
          · exact hn ha
          · exact (hall a hb).1 ha
      by_cases hN : (s.templates ++ n :: definedNames c.defines).Nodup
      · rw [if_pos hN, if_pos (hnd.mp hN)]; rfl
      · rw [if_neg hN, if_neg (fun h' => hN (hnd.mpr h'))]

/-- whenever `Add` gets as far as registering the file (its name is free, it loads) and is not stopped by a
    name clash — i.e. on success AND when a `define` name fails to evaluate — the file and all its fragments
    (up to the failing name) are registered, in order -/
theorem add_registered (s : State) (n : String) (c : Content) (hn : n ∉ s.templates) (hl : c.loadErr = false)
    (h : (add s n c).1 ≠ .err .duplicate) :
    (add s n c).2.files = s.files ++ [n] ∧
    (add s n c).2.templates = s.templates ++ n :: definedNames c.defines := by
  unfold add at h ⊢
  rw [if_neg hn, hl] at h ⊢
  simp only [Bool.false_eq_true, if_false] at h ⊢
  obtain ⟨t, h1, _, h3⟩ := addDefines_templates
    { s with files := s.files ++ [n], templates := s.templates ++ [n] } c.defines
  have hf := (addDefines_frame
    { s with files := s.files ++ [n], templates := s.templates ++ [n] } c.defines).1
  refine ⟨by simpa using hf, ?_⟩
  rw [h1, h3 h]
  simp

/-- on success the file and all its fragments are registered, in order -/
theorem add_ok (s : State) (n : String) (c : Content) (h : (add s n c).1 = .ok) :
    (add s n c).2.files = s.files ++ [n] ∧
    (add s n c).2.templates = s.templates ++ n :: definedNames c.defines := by
  have hn : n ∉ s.templates := by
    intro hn; simp [add, hn] at h
  have hl : c.loadErr = false := by
    cases hl : c.loadErr
    · rfl
    · simp [add, hn, hl] at h
  exact add_registered s n c hn hl (by rw [h]; simp)

/-- in every outcome what `Add` registered is a prefix of what it was asked to register -/
theorem add_prefix (s : State) (n : String) (c : Content) :
    ∃ f t, (add s n c).2.files = s.files ++ f ∧ f <+: [n] ∧
      (add s n c).2.templates = s.templates ++ t ∧ t <+: n :: definedNames c.defines := by
  unfold add
  split
  · exact ⟨[], [], by simp⟩
  · split
    · exact ⟨[], [], by simp⟩
    · obtain ⟨t, h1, h2, _⟩ := addDefines_templates
        { s with files := s.files ++ [n], templates := s.templates ++ [n] } c.defines
      have hf := (addDefines_frame
        { s with files := s.files ++ [n], templates := s.templates ++ [n] } c.defines).1
      refine ⟨[n], n :: t, by simpa using hf, List.prefix_refl _, ?_, ?_⟩
      · rw [h1]; simp
      · exact (List.prefix_cons_inj n).mpr h2

/-! ## `visit` (the WalkDir callback) -/

theorem visit_result (m) (s : State) (e : Entry) (h : s.templates.Nodup) :
    (visit m s e).1 = match faultOf m s.templates e with
      | none => .ok
      | some k => .err k := by
  unfold visit faultOf Entry.accepted Entry.names
  cases hw : e.walkErr <;> cases hd : e.isDir <;> cases hm : m e.path <;> cases ho : e.openErr <;>
    simp [closeFile]
  have := add_result { s with opens := s.opens ++ [e.path] } e.path e.content h
  simp only at this
  rw [this]
  by_cases h1 : e.path ∈ s.templates
  · simp [h1]
  · by_cases h2 : e.content.loadErr = true
    · simp [h1, h2]
    · by_cases h3 : (s.templates ++ e.path :: definedNames e.content.defines).Nodup
      · cases h4 : e.content.nameErr <;> simp [h1, h2, h3]
      · simp [h1, h2, h3]

theorem visit_nodup (m) (s : State) (e : Entry) (h : s.templates.Nodup) :
    (visit m s e).2.templates.Nodup := by
  unfold visit
  split; · exact h
  split; · exact h
  split; · exact h
  split; · exact h
  exact add_nodup { s with opens := s.opens ++ [e.path] } e.path e.content h

/-- log effect of one callback: the file is opened iff `Entry.opened`, and then it is closed -/
theorem visit_log (m) (s : State) (e : Entry) :
    (visit m s e).2.opens = s.opens ++ (if e.opened m then [e.path] else []) ∧
    (visit m s e).2.closes = s.closes ++ (if e.opened m then [e.path] else []) := by
  unfold visit Entry.opened Entry.accepted
  have := add_frame { s with opens := s.opens ++ [e.path] } e.path e.content
  cases hw : e.walkErr <;> cases hd : e.isDir <;> cases hm : m e.path <;> cases ho : e.openErr <;>
    simp [closeFile, this]

theorem visit_ok (m) (s : State) (e : Entry) (h : (visit m s e).1 = .ok) :
    (visit m s e).2.files = s.files ++ (if e.accepted m then [e.path] else []) ∧
    (visit m s e).2.templates = s.templates ++ (if e.accepted m then e.names else []) ∧
    (e.accepted m = true → e.opened m = true) := by
  unfold visit Entry.opened Entry.accepted Entry.names at *
  cases hw : e.walkErr <;> cases hd : e.isDir <;> cases hm : m e.path <;> cases ho : e.openErr <;>
    simp [hw, hd, hm, ho, closeFile] at h ⊢
  exact add_ok { s with opens := s.opens ++ [e.path] } e.path e.content h

/-- a callback that got as far as registering the file (it matches, opens, loads, its name is free) and was
    not stopped by a name clash — success, or a `define` name that fails to evaluate — leaves the file and all
    of `e.names` (the fragments up to the failing name) registered -/
theorem visit_registered (m) (s : State) (e : Entry) (hw : e.walkErr = false) (ha : e.accepted m = true)
    (ho : e.openErr = false) (hn : e.path ∉ s.templates) (hl : e.content.loadErr = false)
    (h : (visit m s e).1 ≠ .err .duplicate) :
    (visit m s e).2.files = s.files ++ [e.path] ∧ (visit m s e).2.templates = s.templates ++ e.names := by
  unfold Entry.accepted at ha
  have hd : e.isDir = false := by cases hd : e.isDir <;> simp [hd] at ha ⊢
  have hm : m e.path = true := by simpa [hd] using ha
  unfold visit at h ⊢
  simp only [hw, hd, hm, ho, Bool.false_eq_true, if_false, closeFile, Entry.names] at h ⊢
  exact add_registered { s with opens := s.opens ++ [e.path] } e.path e.content hn hl h

theorem visit_prefix (m) (s : State) (e : Entry) :
    ∃ f t, (visit m s e).2.files = s.files ++ f ∧ f <+: (if e.accepted m then [e.path] else []) ∧
      (visit m s e).2.templates = s.templates ++ t ∧ t <+: (if e.accepted m then e.names else []) := by
  unfold visit
  split
  · exact ⟨[], [], by simp⟩
  split
  · exact ⟨[], [], by simp⟩
  split
  · exact ⟨[], [], by simp⟩
  split
  · exact ⟨[], [], by simp⟩
  rename_i h1 h2 h3 h4
  have ha : e.accepted m = true := by
    simp only [Bool.not_eq_true] at h2 h3
    simp [Entry.accepted, h2]
    cases hm : m e.path
    · exact absurd hm h3
    · rfl
  simp only [ha, if_true, closeFile, Entry.names]
  exact add_prefix { s with opens := s.opens ++ [e.path] } e.path e.content

/-- an entry that is opened is a matching non-directory -/
theorem opened_accepted {m} {e : Entry} (h : e.opened m = true) : e.accepted m = true := by
  unfold Entry.opened at h; simp at h; exact h.1.2

/-! ## `walk` -/

theorem walk_cons_ok {m s e s'} (es) (h : visit m s e = (.ok, s')) :
    walk m s (e :: es) = walk m s' es := by
  simp [walk, h]

theorem walk_cons_err {m s e s' k} (es) (h : visit m s e = (.err k, s')) :
    walk m s (e :: es) = (.err k, s') := by
  simp [walk, h]

theorem walk_append (m) (s : State) (xs ys : List Entry) :
    walk m s (xs ++ ys) =
      match walk m s xs with
      | (.ok, s') => walk m s' ys
      | (.err k, s') => (.err k, s') := by
  induction xs generalizing s with
  | nil => simp [walk]
  | cons e xs ih =>
    rcases hv : visit m s e with ⟨r, s'⟩
    cases r with
    | ok => simp only [List.cons_append, walk_cons_ok _ hv, ih]
    | err k => simp only [List.cons_append, walk_cons_err _ hv]

theorem walk_nodup (m) (s : State) (es : List Entry) (h : s.templates.Nodup) :
    (walk m s es).2.templates.Nodup := by
  induction es generalizing s with
  | nil => simpa [walk]
  | cons e es ih =>
    have hn := visit_nodup m s e h
    rcases hv : visit m s e with ⟨r, s'⟩
    rw [hv] at hn
    cases r with
    | ok => rw [walk_cons_ok _ hv]; exact ih _ hn
    | err k => rw [walk_cons_err _ hv]; exact hn

/-- the state after a successful walk -/
theorem walk_ok (m) (s : State) (es : List Entry) (h : (walk m s es).1 = .ok) :
    (walk m s es).2.files = s.files ++ acceptedPaths m es ∧
    (walk m s es).2.templates = s.templates ++ allNames m es ∧
    (walk m s es).2.opens = s.opens ++ acceptedPaths m es ∧
    (walk m s es).2.closes = s.closes ++ acceptedPaths m es := by
  induction es generalizing s with
  | nil => simp [walk, acceptedPaths_nil, allNames_nil]
  | cons e es ih =>
    rcases hv : visit m s e with ⟨r, s'⟩
    cases r with
    | err k => rw [walk_cons_err _ hv] at h; simp at h
    | ok =>
      rw [walk_cons_ok _ hv] at h ⊢
      have hvo := visit_ok m s e (by rw [hv])
      have hvl := visit_log m s e
      rw [hv] at hvo hvl
      simp only at hvo hvl
      obtain ⟨i1, i2, i3, i4⟩ := ih s' h
      rw [i1, i2, i3, i4, hvo.1, hvo.2.1, hvl.1, hvl.2, acceptedPaths_cons, allNames_cons]
      cases ha : e.accepted m
      · have : e.opened m = false := by
          cases ho : e.opened m
          · rfl
          · rw [opened_accepted ho] at ha; cases ha
        simp [this]
      · simp [hvo.2.2 ha]

/-- the logs in EVERY outcome: the same list is appended to both, and it is a prefix of the accepted paths -/
theorem walk_log (m) (s : State) (es : List Entry) :
    ∃ os, (walk m s es).2.opens = s.opens ++ os ∧ (walk m s es).2.closes = s.closes ++ os ∧
      ∀ p ∈ os, ∃ e ∈ es, e.path = p ∧ e.isDir = false ∧ m e.path = true := by
  induction es generalizing s with
  | nil => exact ⟨[], by simp [walk]⟩
  | cons e es ih =>
    have hvl := visit_log m s e
    have hmem : ∀ p ∈ (if e.opened m = true then [e.path] else []),
        ∃ x ∈ e :: es, x.path = p ∧ x.isDir = false ∧ m x.path = true := by
      intro p hp
      cases ho : e.opened m
      · simp [ho] at hp
      · simp [ho] at hp
        have := opened_accepted ho
        simp [Entry.accepted] at this
        exact ⟨e, by simp, hp.symm, this.1, this.2⟩
    rcases hv : visit m s e with ⟨r, s'⟩
    rw [hv] at hvl
    cases r with
    | err k =>
      rw [walk_cons_err _ hv]
      exact ⟨_, hvl.1, hvl.2, hmem⟩
    | ok =>
      rw [walk_cons_ok _ hv]
      obtain ⟨os, h1, h2, h3⟩ := ih s'
      refine ⟨(if e.opened m = true then [e.path] else []) ++ os, ?_, ?_, ?_⟩
      · rw [h1, hvl.1]; simp
      · rw [h2, hvl.2]; simp
      · intro p hp
        rcases List.mem_append.mp hp with hp | hp
        · exact hmem p hp
        · obtain ⟨x, hx, hh⟩ := h3 p hp
          exact ⟨x, List.mem_cons_of_mem _ hx, hh⟩

/-- in every outcome the registered names are a prefix of the requested names -/
theorem walk_prefix (m) (s : State) (es : List Entry) :
    ∃ f t, (walk m s es).2.files = s.files ++ f ∧ f <+: acceptedPaths m es ∧
      (walk m s es).2.templates = s.templates ++ t ∧ t <+: allNames m es := by
  induction es generalizing s with
  | nil => exact ⟨[], [], by simp [walk, acceptedPaths_nil, allNames_nil]⟩
  | cons e es ih =>
    obtain ⟨f, t, hf, hfp, ht, htp⟩ := visit_prefix m s e
    rcases hv : visit m s e with ⟨r, s'⟩
    cases r with
    | err k =>
      rw [walk_cons_err _ hv]
      rw [hv] at hf ht
      refine ⟨f, t, hf, ?_, ht, ?_⟩
      · rw [acceptedPaths_cons]; exact List.IsPrefix.trans hfp (List.prefix_append _ _)
      · rw [allNames_cons]; exact List.IsPrefix.trans htp (List.prefix_append _ _)
    | ok =>
      rw [walk_cons_ok _ hv]
      have hvo := visit_ok m s e (by rw [hv])
      rw [hv] at hvo
      obtain ⟨f', t', hf', hfp', ht', htp'⟩ := ih s'
      refine ⟨(if e.accepted m then [e.path] else []) ++ f',
              (if e.accepted m then e.names else []) ++ t', ?_, ?_, ?_, ?_⟩
      · rw [hf', hvo.1]; simp
      · rw [acceptedPaths_cons]; exact (List.prefix_append_right_inj _).mpr hfp'
      · rw [ht', hvo.2.1]; simp
      · rw [allNames_cons]; exact (List.prefix_append_right_inj _).mpr htp'

/-- `faultOf` is `none` exactly for entries that are fault-free and whose names are fresh -/
theorem faultOf_none_iff (m) (seen : List String) (e : Entry) :
    faultOf m seen e = none ↔
      e.walkErr = false ∧
      (e.accepted m = true → e.openErr = false ∧ e.content.loadErr = false ∧ e.content.nameErr = false ∧
        (seen ++ e.names).Nodup) := by
  have key : (seen ++ e.names).Nodup → e.path ∉ seen := by
    intro hnd hmem
    exact (List.nodup_append.mp hnd).2.2 _ hmem _ (by simp [Entry.names]) rfl
  unfold faultOf
  cases hw : e.walkErr <;> cases ha : e.accepted m <;> cases ho : e.openErr <;>
    cases hl : e.content.loadErr <;> cases hn : e.content.nameErr <;> simp
  all_goals
    by_cases h1 : e.path ∈ seen <;> by_cases h2 : (seen ++ e.names).Nodup <;> simp [h1, h2]
  all_goals exact absurd h1 (key h2)

/-- success of the walk, characterised on the input -/
theorem walk_ok_iff (m) (s : State) (es : List Entry) (h : s.templates.Nodup) :
    (walk m s es).1 = .ok ↔ NoFsFault m es ∧ (s.templates ++ allNames m es).Nodup := by
  induction es generalizing s with
  | nil => simp [walk, NoFsFault, allNames_nil, h]
  | cons e es ih =>
    have hr := visit_result m s e h
    have hn := visit_nodup m s e h
    rcases hv : visit m s e with ⟨r, s'⟩
    rw [hv] at hr hn
    simp only at hr hn
    rw [NoFsFault_cons, allNames_cons]
    cases r with
    | err k =>
      rw [walk_cons_err _ hv]
      simp only [reduceCtorEq, false_iff]
      rintro ⟨⟨⟨hw, hacc⟩, _⟩, hnd⟩
      have : faultOf m s.templates e = none := by
        rw [faultOf_none_iff]
        refine ⟨hw, fun ha => ⟨(hacc ha).1, (hacc ha).2.1, (hacc ha).2.2, ?_⟩⟩
        simp only [ha, if_true, ← List.append_assoc] at hnd
        exact (List.nodup_append.mp hnd).1
      rw [this] at hr; cases hr
    | ok =>
      rw [walk_cons_ok _ hv, ih s' hn]
      have hvo := visit_ok m s e (by rw [hv])
      rw [hv] at hvo
      simp only at hvo
      rw [hvo.2.1, List.append_assoc]
      have hf : faultOf m s.templates e = none := by
        cases hfo : faultOf m s.templates e with
        | none => rfl
        | some k => rw [hfo] at hr; cases hr
      rw [faultOf_none_iff] at hf
      constructor
      · rintro ⟨h1, h2⟩
        exact ⟨⟨⟨hf.1, fun ha => ⟨(hf.2 ha).1, (hf.2 ha).2.1, (hf.2 ha).2.2.1⟩⟩, h1⟩, h2⟩
      · rintro ⟨⟨_, h1⟩, h2⟩
        exact ⟨h1, h2⟩

/-- which input fault is behind each error kind -/
theorem walk_err_cause (m) (s : State) (es : List Entry) (k : ErrKind) (h : (walk m s es).1 = .err k) :
    match k with
    | .walk => ∃ e ∈ es, e.walkErr = true
    | .open => ∃ e ∈ es, e.accepted m = true ∧ e.openErr = true
    | .load => ∃ e ∈ es, e.accepted m = true ∧ (e.content.loadErr = true ∨ e.content.nameErr = true)
    | .duplicate => True := by
  induction es generalizing s with
  | nil => simp [walk] at h
  | cons e es ih =>
    rcases hv : visit m s e with ⟨r, s'⟩
    cases r with
    | ok =>
      rw [walk_cons_ok _ hv] at h
      have := ih s' h
      cases k <;> simp only [List.mem_cons, exists_eq_or_imp] at this ⊢
      · exact Or.inr this
      · exact Or.inr this
      · exact Or.inr this
    | err k' =>
      rw [walk_cons_err _ hv] at h
      simp only [Result.err.injEq] at h
      subst h
      have h1 : (visit m s e).1 = .err k' := by rw [hv]
      unfold visit at h1
      cases hw : e.walkErr <;> cases hd : e.isDir <;> cases hm : m e.path <;> cases ho : e.openErr <;>
        simp [hw, hd, hm, ho, closeFile] at h1
      all_goals try (subst h1; simp [hw, hd, hm, ho, Entry.accepted])
      -- remaining: the error comes from `add`
      unfold add at h1
      split at h1
      · simp at h1; subst h1; trivial
      · split at h1
        · rename_i hl
          simp at h1; subst h1
          exact ⟨e, by simp, by simp [Entry.accepted, hd, hm], Or.inl hl⟩
        · simp only at h1
          cases k' with
          | duplicate => trivial
          | load =>
            have := ((addDefines_load_iff _ _).mp h1).1
            exact ⟨e, by simp, by simp [Entry.accepted, hd, hm], Or.inr this⟩
          | walk =>
            rcases addDefines_result
              { files := s.files ++ [e.path], templates := s.templates ++ [e.path],
                opens := s.opens ++ [e.path], closes := s.closes } e.content.defines with h2 | h2 | h2 <;>
              (rw [h1] at h2; cases h2)
          | «open» =>
            rcases addDefines_result
              { files := s.files ++ [e.path], templates := s.templates ++ [e.path],
                opens := s.opens ++ [e.path], closes := s.closes } e.content.defines with h2 | h2 | h2 <;>
              (rw [h1] at h2; cases h2)

/-- the first entry with a fault (everything before it fault-free) determines the whole outcome;
    the entries after it are never looked at -/
theorem walk_first_fault (m) (s : State) (pre : List Entry) (e : Entry) (post : List Entry) (k : ErrKind)
    (h : s.templates.Nodup) (hpre : (walk m s pre).1 = .ok)
    (hf : faultOf m (s.templates ++ allNames m pre) e = some k) :
    walk m s (pre ++ e :: post) = (.err k, (visit m (walk m s pre).2 e).2) := by
  have hok := walk_ok m s pre hpre
  have hn := walk_nodup m s pre h
  rw [walk_append]
  rcases hw : walk m s pre with ⟨r, s1⟩
  rw [hw] at hpre hok hn
  simp only at hpre hok hn
  subst hpre
  simp only
  have hr := visit_result m s1 e hn
  rw [hok.2.1, hf] at hr
  rcases hv : visit m s1 e with ⟨r2, s2⟩
  rw [hv] at hr
  simp only at hr
  subst hr
  exact walk_cons_err _ hv

/-- every error is the fault of a first failing entry -/
theorem walk_err_split (m) (s : State) (es : List Entry) (k : ErrKind)
    (h : s.templates.Nodup) (hk : (walk m s es).1 = .err k) :
    ∃ pre e post, es = pre ++ e :: post ∧ (walk m s pre).1 = .ok ∧
      faultOf m (s.templates ++ allNames m pre) e = some k := by
  induction es generalizing s with
  | nil => simp [walk] at hk
  | cons e es ih =>
    have hr := visit_result m s e h
    have hn := visit_nodup m s e h
    rcases hv : visit m s e with ⟨r, s'⟩
    rw [hv] at hr hn
    simp only at hr hn
    cases r with
    | err k' =>
      rw [walk_cons_err _ hv] at hk
      simp only [Result.err.injEq] at hk
      subst hk
      refine ⟨[], e, es, rfl, by simp [walk], ?_⟩
      rw [allNames_nil, List.append_nil]
      cases hfo : faultOf m s.templates e with
      | none => rw [hfo] at hr; cases hr
      | some k => rw [hfo] at hr; simp only [Result.err.injEq] at hr; rw [hr]
    | ok =>
      rw [walk_cons_ok _ hv] at hk
      obtain ⟨pre, x, post, hes, hpre, hf⟩ := ih s' hn hk
      have hvo := visit_ok m s e (by rw [hv])
      rw [hv] at hvo
      simp only at hvo
      refine ⟨e :: pre, x, post, by rw [hes]; rfl, by rw [walk_cons_ok _ hv]; exact hpre, ?_⟩
      rw [allNames_cons, ← List.append_assoc, ← hvo.2.1]
      exact hf

end FP
