import TplModel.Proofs.RenderEqs
/-! # Parametricity of the structural renderer specification

`RN.refNode …` never looks *inside* a compiled attribute: it hands attributes to the evaluation interface `Env` and
uses node ids only as keys of the condition map.  Hence two trees that agree up to

* a relation `C` on expression-table indices (`Part.code k` vs `Part.code k'`), and
* a one-to-one relation `I` on node ids,

render identically under two environments whose callbacks agree on `C`-related attributes and whose template lookups
return related trees (`RN.ref_respects_rel`). -/
namespace RN
variable {Sc : Type}

/-- a one-to-one relation on node ids (functional and injective, not necessarily total) -/
structure PBij (I : Nat → Nat → Prop) : Prop where
  fn : ∀ {x y y'}, I x y → I x y' → y = y'
  inj : ∀ {x x' y}, I x y → I x' y → x = x'

theorem PBij.eq : PBij (fun x y : Nat => x = y) := ⟨fun h1 h2 => h1 ▸ h2, fun h1 h2 => h1.trans h2.symm⟩

/-- element-wise related lists -/
def All2 {α β : Type} (R : α → β → Prop) : List α → List β → Prop
  | [], [] => True
  | a :: as, b :: bs => R a b ∧ All2 R as bs
  | [], _ :: _ => False
  | _ :: _, [] => False

def OptRel {α β : Type} (R : α → β → Prop) : Option α → Option β → Prop
  | none, none => True
  | some a, some b => R a b
  | none, some _ => False
  | some _, none => False

/-- parts agree; `code k` / `code k'` are related by `C` -/
def PartRel (C : Nat → Nat → Prop) : Part → Part → Prop
  | .lit s, .lit s' => s = s'
  | .code k, .code k' => C k k'
  | .other, .other => True
  | _, _ => False

structure AttrRel (C : Nat → Nat → Prop) (a a' : CAttr) : Prop where
  name : a.name = a'.name
  value : a.value = a'.value
  parts : All2 (PartRel C) a.parts a'.parts

structure DRel (C I : Nat → Nat → Prop) (d d' : NodeD) : Prop where
  id : I d.id d'.id
  kind : d.kind = d'.kind
  value : d.value = d'.value
  tagName : d.tagName = d'.tagName
  attrs : All2 (AttrRel C) d.attrs d'.attrs
  prevTag : OptRel I d.prevTag d'.prevTag
  nextBlank : d.nextBlank = d'.nextBlank

mutual
/-- **TreeEq**: the same tree up to renumbering of expression indices (`C`) and node ids (`I`) -/
def TreeRel (C I : Nat → Nat → Prop) : Node → Node → Prop
  | .mk d kids e, .mk d' kids' e' => DRel C I d d' ∧ TreeRelL C I kids kids' ∧ e = e'
def TreeRelL (C I : Nat → Nat → Prop) : List Node → List Node → Prop
  | [], [] => True
  | k :: ks, k' :: ks' => TreeRel C I k k' ∧ TreeRelL C I ks ks'
  | [], _ :: _ => False
  | _ :: _, [] => False
end

/-- two registered templates are related when some one-to-one relation on ids relates them (a fragment starts with
    fresh conditions, so each template may be renumbered independently) -/
def TplRel (C : Nat → Nat → Prop) (t t' : Node) : Prop := ∃ I, PBij I ∧ TreeRel C I t t'

/-- related environments: the callbacks agree on related attributes, the registries on every name -/
structure EnvRel (C : Nat → Nat → Prop) (env env' : Env Sc) : Prop where
  evalStr : ∀ a a' sc, AttrRel C a a' → env.evalStr a sc = env'.evalStr a' sc
  withAssign : ∀ a a' sc, AttrRel C a a' → env.withAssign a sc = env'.withAssign a' sc
  rangeItems : ∀ a a' sc, AttrRel C a a' → env.rangeItems a sc = env'.rangeItems a' sc
  tpl : ∀ name, OptRel (TplRel C) (env.tpl name) (env'.tpl name)

def NcRel (I : Nat → Nat → Prop) (nc nc' : NC) : Prop := ∀ x y, I x y → nc x = nc' y

structure QRel (I : Nat → Nat → Prop) (q q' : Q) : Prop where
  st : q.st = q'.st
  out : q.out = q'.out
  log : q.log = q'.log
  nc : NcRel I q.nc q'.nc

inductive ChildRel (C : Nat → Nat → Prop) : ChildMode → ChildMode → Prop
  | unset : ChildRel C .unset .unset
  | nop : ChildRel C .nop .nop
  | textLike {a a' b} : AttrRel C a a' → ChildRel C (.textLike a b) (.textLike a' b)
  | abf : ChildRel C .abf .abf

structure PSRel (C : Nat → Nat → Prop) (ps ps' : PS Sc) : Prop where
  data : ps.data = ps'.data
  noPrint : ps.noPrint = ps'.noPrint
  child : ChildRel C ps.child ps'.child
  tagBuf : ps.tagBuf = ps'.tagBuf
  contentBuf : ps.contentBuf = ps'.contentBuf
  tokenBuf : ps.tokenBuf = ps'.tokenBuf

structure PRRel (C I : Nat → Nat → Prop) (pr pr' : PR Sc) : Prop where
  st : pr.st = pr'.st
  ps : PSRel C pr.ps pr'.ps
  log : pr.log = pr'.log
  nc : NcRel I pr.nc pr'.nc

/-! ## lists -/

theorem TreeRelL_iff (C I : Nat → Nat → Prop) : ∀ ks ks', TreeRelL C I ks ks' ↔ All2 (TreeRel C I) ks ks'
  | [], [] => by simp [TreeRelL, All2]
  | [], _ :: _ => by simp [TreeRelL, All2]
  | _ :: _, [] => by simp [TreeRelL, All2]
  | k :: ks, k' :: ks' => by simp [TreeRelL, All2, TreeRelL_iff C I ks ks']

theorem All2.length_eq {α β : Type} {R : α → β → Prop} : ∀ {l : List α} {l' : List β}, All2 R l l' → l.length = l'.length
  | [], [], _ => rfl
  | [], _ :: _, h => h.elim
  | _ :: _, [], h => h.elim
  | _ :: as, _ :: bs, h => by simp [All2.length_eq (l := as) (l' := bs) h.2]

theorem All2.imp {α β : Type} {R S : α → β → Prop} (hi : ∀ a b, R a b → S a b) :
    ∀ {l : List α} {l' : List β}, All2 R l l' → All2 S l l'
  | [], [], _ => trivial
  | [], _ :: _, h => h.elim
  | _ :: _, [], h => h.elim
  | _ :: _, _ :: _, h => ⟨hi _ _ h.1, All2.imp hi h.2⟩

theorem All2.find? {α β : Type} {R : α → β → Prop} {p : α → Bool} {p' : β → Bool} (hp : ∀ a b, R a b → p a = p' b) :
    ∀ {l : List α} {l' : List β}, All2 R l l' → OptRel R (l.find? p) (l'.find? p')
  | [], [], _ => trivial
  | [], _ :: _, h => h.elim
  | _ :: _, [], h => h.elim
  | a :: as, b :: bs, h => by
    simp only [List.find?_cons, ← hp a b h.1]
    cases p a
    · exact All2.find? hp h.2
    · exact h.1

theorem All2.any {α β : Type} {R : α → β → Prop} {p : α → Bool} {p' : β → Bool} (hp : ∀ a b, R a b → p a = p' b) :
    ∀ {l : List α} {l' : List β}, All2 R l l' → l.any p = l'.any p'
  | [], [], _ => rfl
  | [], _ :: _, h => h.elim
  | _ :: _, [], h => h.elim
  | a :: as, b :: bs, h => by simp only [List.any_cons, hp a b h.1, All2.any hp h.2]

theorem All2.head? {α β : Type} {R : α → β → Prop} :
    ∀ {l : List α} {l' : List β}, All2 R l l' → OptRel R l.head? l'.head?
  | [], [], _ => trivial
  | [], _ :: _, h => h.elim
  | _ :: _, [], h => h.elim
  | _ :: _, _ :: _, h => h.1

theorem All2.getLast? {α β : Type} {R : α → β → Prop} :
    ∀ {l : List α} {l' : List β}, All2 R l l' → OptRel R l.getLast? l'.getLast?
  | [], [], _ => trivial
  | [], _ :: _, h => h.elim
  | _ :: _, [], h => h.elim
  | [_], [_], h => h.1
  | [_], _ :: _ :: _, h => h.2.elim
  | _ :: _ :: _, [_], h => h.2.elim
  | _ :: a2 :: as, _ :: b2 :: bs, h => by
    rw [List.getLast?_cons_cons, List.getLast?_cons_cons]
    exact All2.getLast? (l := a2 :: as) (l' := b2 :: bs) h.2

theorem All2.getElem? {α β : Type} {R : α → β → Prop} :
    ∀ {l : List α} {l' : List β} (i : Nat), All2 R l l' → OptRel R l[i]? l'[i]?
  | [], [], _, _ => by simp [OptRel]
  | [], _ :: _, _, h => h.elim
  | _ :: _, [], _, h => h.elim
  | _ :: _, _ :: _, 0, h => h.1
  | _ :: as, _ :: bs, i+1, h => by
    simp only [List.getElem?_cons_succ]
    exact All2.getElem? (l := as) (l' := bs) i h.2

theorem All2.takeWhile_length {α β : Type} {R : α → β → Prop} {p : α → Bool} {p' : β → Bool}
    (hp : ∀ a b, R a b → p a = p' b) :
    ∀ {l : List α} {l' : List β}, All2 R l l' → (l.takeWhile p).length = (l'.takeWhile p').length
  | [], [], _ => rfl
  | [], _ :: _, h => h.elim
  | _ :: _, [], h => h.elim
  | a :: as, b :: bs, h => by
    simp only [List.takeWhile_cons, ← hp a b h.1]
    cases p a
    · rfl
    · simp [All2.takeWhile_length hp h.2]

theorem OptRel.isSome {α β : Type} {R : α → β → Prop} : ∀ {o : Option α} {o' : Option β}, OptRel R o o' → o.isSome = o'.isSome
  | none, none, _ => rfl
  | some _, some _, _ => rfl
  | none, some _, h => h.elim
  | some _, none, h => h.elim

/-! ## attributes -/

theorem AttrRel.classify {C : Nat → Nat → Prop} (cfg : Cfg) {a a' : CAttr} (h : AttrRel C a a') : classify cfg a = classify cfg a' := by
  simp only [RN.classify, h.name]

theorem AttrRel.isCtl {C : Nat → Nat → Prop} (cfg : Cfg) {a a' : CAttr} (h : AttrRel C a a') : isCtl cfg a = isCtl cfg a' := by
  simp only [RN.isCtl, h.classify cfg]

theorem hasKind_rel {C : Nat → Nat → Prop} (cfg : Cfg) {l l' : List CAttr} (h : All2 (AttrRel C) l l') (p : AK → Bool) :
    hasKind cfg l p = hasKind cfg l' p :=
  All2.any (fun a b hab => by simp only [hab.classify cfg]) h

theorem initOpt_rel {C I : Nat → Nat → Prop} (cfg : Cfg) {d d' : NodeD} (h : DRel C I d d') (flags : Nat) :
    initOpt cfg d flags = initOpt cfg d' flags := by
  have e : hasKind cfg d.attrs = hasKind cfg d'.attrs := funext (hasKind_rel cfg h.attrs)
  unfold initOpt hasCond hasRange
  rw [h.tagName, e]

theorem initOpt_child (cfg : Cfg) (d : NodeD) (flags : Nat) :
    (initOpt cfg d flags).2 = .unset ∨ (initOpt cfg d flags).2 = .nop := by
  simp only [initOpt]
  repeat' split
  all_goals simp

theorem ps0_self {C : Nat → Nat → Prop} (cfg : Cfg) (d : NodeD) (flags : Nat) (sc : Sc) :
    PSRel C (ps0 cfg d flags sc) (ps0 cfg d flags sc) := by
  refine ⟨rfl, rfl, ?_, rfl, rfl, rfl⟩
  simp only [ps0]
  rcases initOpt_child cfg d flags with h | h <;> rw [h] <;> constructor

theorem ps0_rel {C I : Nat → Nat → Prop} (cfg : Cfg) {d d' : NodeD} (h : DRel C I d d') (flags : Nat) (sc : Sc) :
    ps0 cfg d flags sc = ps0 cfg d' flags sc := by
  simp only [ps0, initOpt_rel cfg h flags, h.tagName]

theorem withAttr_rel {C : Nat → Nat → Prop} (cfg : Cfg) {l l' : List CAttr} (h : All2 (AttrRel C) l l') :
    OptRel (AttrRel C) (withAttr cfg l) (withAttr cfg l') :=
  All2.find? (fun a b hab => by simp only [hab.classify cfg]) h

theorem rangeAttr_rel {C : Nat → Nat → Prop} (cfg : Cfg) {l l' : List CAttr} (h : All2 (AttrRel C) l l') :
    OptRel (AttrRel C) (rangeAttr cfg l) (rangeAttr cfg l') :=
  All2.find? (fun a b hab => by simp only [hab.classify cfg]) h

theorem condAttr_rel {C : Nat → Nat → Prop} (cfg : Cfg) :
    ∀ {l l' : List CAttr}, All2 (AttrRel C) l l' →
      OptRel (fun x x' => AttrRel C x.1 x'.1 ∧ x.2 = x'.2) (condAttr cfg l) (condAttr cfg l')
  | [], [], _ => trivial
  | [], _ :: _, h => h.elim
  | _ :: _, [], h => h.elim
  | a :: as, b :: bs, h => by
    have hc := h.1.classify cfg
    unfold condAttr
    simp only [List.findSome?_cons, ← hc]
    cases hk : RN.classify cfg a
    case cond isIf => exact ⟨h.1, rfl⟩
    all_goals exact condAttr_rel cfg h.2

/-! ## conditions and results -/

theorem NcRel.empty (I : Nat → Nat → Prop) : NcRel I emptyNc emptyNc := fun _ _ _ => rfl

theorem NcRel.set {I : Nat → Nat → Prop} (hI : PBij I) {nc nc' : NC} (h : NcRel I nc nc') {i i' : Nat} (hi : I i i') (b : Bool) :
    NcRel I (setNc nc i b) (setNc nc' i' b) := by
  intro x y hxy
  simp only [setNc]
  by_cases hx : x = i
  · subst hx
    rw [if_pos rfl, if_pos (hI.fn hxy hi)]
  · have hy : y ≠ i' := fun hy => hx (hI.inj hxy (hy ▸ hi))
    rw [if_neg hx, if_neg hy]
    exact h x y hxy

theorem NcRel.bind {I : Nat → Nat → Prop} {nc nc' : NC} (h : NcRel I nc nc') :
    ∀ {p p' : Option Nat}, OptRel I p p' → p.bind nc = p'.bind nc'
  | none, none, _ => rfl
  | some _, some _, hp => h _ _ hp
  | none, some _, hp => hp.elim
  | some _, none, hp => hp.elim

theorem QRel.andThen {I : Nat → Nat → Prop} {q q' : Q} {k k' : NC → Q} (h : QRel I q q')
    (hk : ∀ nc nc', NcRel I nc nc' → QRel I (k nc) (k' nc')) : QRel I (q.andThen k) (q'.andThen k') := by
  unfold Q.andThen
  rw [← h.st]
  cases hs : q.st
  case ok =>
    have := hk _ _ h.nc
    exact ⟨this.st, by simp only [h.out, this.out], by simp only [h.log, this.log], this.nc⟩
  all_goals exact h

theorem QRel.okQ {I : Nat → Nat → Prop} (out : List String) {nc nc' : NC} (h : NcRel I nc nc') :
    QRel I (Q.okQ out nc) (Q.okQ out nc') := ⟨rfl, rfl, rfl, h⟩

theorem QRel.buffered {I : Nat → Nat → Prop} {q q' : Q} (h : QRel I q q') : QRel I q.buffered q'.buffered := by
  unfold Q.buffered
  rw [← h.st]
  cases hs : q.st
  case ok => exact ⟨rfl, by simp only [h.out], h.log, h.nc⟩
  all_goals exact ⟨rfl, rfl, h.log, h.nc⟩

theorem QRel.addLog {I : Nat → Nat → Prop} {q q' : Q} (h : QRel I q q') (lg : List String) :
    QRel I { q with log := lg ++ q.log } { q' with log := lg ++ q'.log } :=
  ⟨h.st, h.out, by simp only [h.log], h.nc⟩

theorem QRel.fuel {I : Nat → Nat → Prop} {nc nc' : NC} (h : NcRel I nc nc') :
    QRel I { st := .fuel, nc := nc } { st := .fuel, nc := nc' } := ⟨rfl, rfl, rfl, h⟩

theorem PRRel.andThen {C I : Nat → Nat → Prop} {r r' : PR Sc} {k k' : PS Sc → NC → Fl → PR Sc} (h : PRRel C I r r')
    (hk : ∀ ps ps' nc nc' fl fl', PSRel C ps ps' → NcRel I nc nc' → PRRel C I (k ps nc fl) (k' ps' nc' fl')) :
    PRRel C I (r.andThen k) (r'.andThen k') := by
  unfold PR.andThen
  rw [← h.st]
  cases hs : r.st
  case ok =>
    have := hk _ _ _ _ r.fl r'.fl h.ps h.nc
    exact ⟨this.st, this.ps, by simp only [h.log, this.log], this.nc⟩
  all_goals exact h

/-! ## trees -/

theorem TreeRel.d {C I : Nat → Nat → Prop} : ∀ {n n' : Node}, TreeRel C I n n' → DRel C I n.d n'.d
  | .mk _ _ _, .mk _ _ _, h => by simp only [TreeRel] at h; exact h.1
theorem TreeRel.kids {C I : Nat → Nat → Prop} : ∀ {n n' : Node}, TreeRel C I n n' → TreeRelL C I n.kids n'.kids
  | .mk _ _ _, .mk _ _ _, h => by simp only [TreeRel] at h; exact h.2.1
theorem TreeRel.endVal {C I : Nat → Nat → Prop} : ∀ {n n' : Node}, TreeRel C I n n' → n.endVal = n'.endVal
  | .mk _ _ _, .mk _ _ _, h => by simp only [TreeRel] at h; exact h.2.2

theorem TreeRel.isTagNode {C I : Nat → Nat → Prop} {n n' : Node} (h : TreeRel C I n n') : isTagNode n = isTagNode n' := by
  simp only [RN.isTagNode, h.d.kind]
theorem TreeRel.isBlankText {C I : Nat → Nat → Prop} {n n' : Node} (h : TreeRel C I n n') : isBlankText n = isBlankText n' := by
  simp only [RN.isBlankText, h.d.kind, h.d.value]

theorem endChunk_rel {C I : Nat → Nat → Prop} {n n' : Node} (h : TreeRel C I n n') (np : Bool) : endChunk n np = endChunk n' np := by
  simp only [endChunk, h.endVal]

theorem blankOpt_rel {C I : Nat → Nat → Prop} : ∀ {o o' : Option Node}, OptRel (TreeRel C I) o o' →
    OptRel (TreeRel C I) (match o with | some k => if RN.isBlankText k then some k else none | none => none)
      (match o' with | some k => if RN.isBlankText k then some k else none | none => none)
  | none, none, _ => trivial
  | some k, some k', h => by
    have hb := TreeRel.isBlankText h
    simp only [← hb]
    cases RN.isBlankText k
    · trivial
    · exact h
  | none, some _, h => h.elim
  | some _, none, h => h.elim

theorem abfParts_rel {C I : Nat → Nat → Prop} {ks ks' : List Node} (h : All2 (TreeRel C I) ks ks') :
    OptRel (TreeRel C I) (abfParts ks).1 (abfParts ks').1 ∧
    OptRel (TreeRel C I) (abfParts ks).2.1 (abfParts ks').2.1 ∧
    OptRel (TreeRel C I) (abfParts ks).2.2 (abfParts ks').2.2 := by
  have hlen : (ks.takeWhile fun k => !RN.isTagNode k).length = (ks'.takeWhile fun k => !RN.isTagNode k).length :=
    All2.takeWhile_length (fun a b hab => by simp only [TreeRel.isTagNode hab]) h
  have htag := All2.getElem? (ks.takeWhile fun k => !RN.isTagNode k).length h
  refine ⟨?_, ?_, ?_⟩
  · simp only [abfParts, ← hlen, ← OptRel.isSome htag]
    split
    · exact blankOpt_rel (All2.head? h)
    · trivial
  · simp only [abfParts, ← hlen]
    exact htag
  · simp only [abfParts]
    exact blankOpt_rel (All2.getLast? h)

/-! ## closure properties of the relations -/

def flipR {α β : Type} (R : α → β → Prop) : β → α → Prop := fun b a => R a b
def compR {α β γ : Type} (R : α → β → Prop) (S : β → γ → Prop) : α → γ → Prop := fun a c => ∃ b, R a b ∧ S b c

theorem PBij.flip {I : Nat → Nat → Prop} (h : PBij I) : PBij (flipR I) := ⟨fun h1 h2 => h.inj h1 h2, fun h1 h2 => h.fn h1 h2⟩
theorem PBij.comp {I J : Nat → Nat → Prop} (hI : PBij I) (hJ : PBij J) : PBij (compR I J) :=
  ⟨fun ⟨_, a1, a2⟩ ⟨_, b1, b2⟩ => hJ.fn (hI.fn a1 b1 ▸ a2) b2, fun ⟨_, a1, a2⟩ ⟨_, b1, b2⟩ => hI.inj a1 (hJ.inj a2 b2 ▸ b1)⟩

theorem All2.flip {α β : Type} {R : α → β → Prop} : ∀ {l : List α} {l' : List β}, All2 R l l' → All2 (flipR R) l' l
  | [], [], _ => trivial
  | [], _ :: _, h => h.elim
  | _ :: _, [], h => h.elim
  | _ :: _, _ :: _, h => ⟨h.1, All2.flip h.2⟩

theorem All2.comp {α β γ : Type} {R : α → β → Prop} {S : β → γ → Prop} :
    ∀ {l : List α} {l' : List β} {l'' : List γ}, All2 R l l' → All2 S l' l'' → All2 (compR R S) l l''
  | [], [], [], _, _ => trivial
  | [], [], _ :: _, _, h => h.elim
  | [], _ :: _, _, h, _ => h.elim
  | _ :: _, [], _, h, _ => h.elim
  | _ :: _, _ :: _, [], _, h => h.elim
  | _ :: _, _ :: _, _ :: _, h, h' => ⟨⟨_, h.1, h'.1⟩, All2.comp h.2 h'.2⟩

theorem OptRel.imp {α β : Type} {R S : α → β → Prop} (hi : ∀ a b, R a b → S a b) :
    ∀ {o : Option α} {o' : Option β}, OptRel R o o' → OptRel S o o'
  | none, none, _ => trivial
  | some _, some _, h => hi _ _ h
  | none, some _, h => h.elim
  | some _, none, h => h.elim

theorem OptRel.flip {α β : Type} {R : α → β → Prop} : ∀ {o : Option α} {o' : Option β}, OptRel R o o' → OptRel (flipR R) o' o
  | none, none, _ => trivial
  | some _, some _, h => h
  | none, some _, h => h.elim
  | some _, none, h => h.elim

theorem OptRel.comp {α β γ : Type} {R : α → β → Prop} {S : β → γ → Prop} :
    ∀ {o : Option α} {o' : Option β} {o'' : Option γ}, OptRel R o o' → OptRel S o' o'' → OptRel (compR R S) o o''
  | none, none, none, _, _ => trivial
  | none, none, some _, _, h => h.elim
  | none, some _, _, h, _ => h.elim
  | some _, none, _, h, _ => h.elim
  | some _, some _, none, _, h => h.elim
  | some _, some _, some _, h, h' => ⟨_, h, h'⟩

theorem PartRel.mono {C C' : Nat → Nat → Prop} (hC : ∀ k k', C k k' → C' k k') : ∀ p p', PartRel C p p' → PartRel C' p p'
  | .lit _, .lit _, h => h
  | .code _, .code _, h => hC _ _ h
  | .other, .other, _ => trivial
  | .lit _, .code _, h => h.elim
  | .lit _, .other, h => h.elim
  | .code _, .lit _, h => h.elim
  | .code _, .other, h => h.elim
  | .other, .lit _, h => h.elim
  | .other, .code _, h => h.elim

theorem PartRel.flip {C : Nat → Nat → Prop} : ∀ p p', PartRel C p p' → flipR (PartRel (flipR C)) p p'
  | .lit _, .lit _, h => Eq.symm h
  | .code _, .code _, h => h
  | .other, .other, _ => trivial
  | .lit _, .code _, h => h.elim
  | .lit _, .other, h => h.elim
  | .code _, .lit _, h => h.elim
  | .code _, .other, h => h.elim
  | .other, .lit _, h => h.elim
  | .other, .code _, h => h.elim

theorem PartRel.comp {C C' : Nat → Nat → Prop} : ∀ p p'', compR (PartRel C) (PartRel C') p p'' → PartRel (compR C C') p p''
  | .lit _, .lit _, ⟨.lit _, h, h'⟩ => Eq.trans h h'
  | .code _, .code _, ⟨.code _, h, h'⟩ => ⟨_, h, h'⟩
  | .other, .other, _ => trivial
  | .lit _, _, ⟨.code _, h, _⟩ => h.elim
  | .lit _, _, ⟨.other, h, _⟩ => h.elim
  | .code _, _, ⟨.lit _, h, _⟩ => h.elim
  | .code _, _, ⟨.other, h, _⟩ => h.elim
  | .other, _, ⟨.lit _, h, _⟩ => h.elim
  | .other, _, ⟨.code _, h, _⟩ => h.elim
  | _, .lit _, ⟨.code _, _, h⟩ => h.elim
  | _, .lit _, ⟨.other, _, h⟩ => h.elim
  | _, .code _, ⟨.lit _, _, h⟩ => h.elim
  | _, .code _, ⟨.other, _, h⟩ => h.elim
  | _, .other, ⟨.lit _, _, h⟩ => h.elim
  | _, .other, ⟨.code _, _, h⟩ => h.elim

theorem AttrRel.mono {C C' : Nat → Nat → Prop} (hC : ∀ k k', C k k' → C' k k') {a a' : CAttr} (h : AttrRel C a a') : AttrRel C' a a' :=
  ⟨h.name, h.value, All2.imp (PartRel.mono hC) h.parts⟩
theorem AttrRel.flip {C : Nat → Nat → Prop} {a a' : CAttr} (h : AttrRel C a a') : AttrRel (flipR C) a' a :=
  ⟨h.name.symm, h.value.symm, All2.flip (All2.imp PartRel.flip h.parts)⟩
theorem AttrRel.comp {C C' : Nat → Nat → Prop} {a a' a'' : CAttr} (h : AttrRel C a a') (h' : AttrRel C' a' a'') :
    AttrRel (compR C C') a a'' :=
  ⟨h.name.trans h'.name, h.value.trans h'.value, All2.imp PartRel.comp (All2.comp h.parts h'.parts)⟩

theorem DRel.mono {C C' I : Nat → Nat → Prop} (hC : ∀ k k', C k k' → C' k k') {d d' : NodeD} (h : DRel C I d d') : DRel C' I d d' :=
  ⟨h.id, h.kind, h.value, h.tagName, All2.imp (fun _ _ => AttrRel.mono hC) h.attrs, h.prevTag, h.nextBlank⟩
theorem DRel.flip {C I : Nat → Nat → Prop} {d d' : NodeD} (h : DRel C I d d') : DRel (flipR C) (flipR I) d' d :=
  ⟨h.id, h.kind.symm, h.value.symm, h.tagName.symm, All2.flip (All2.imp (fun _ _ => AttrRel.flip) h.attrs), h.prevTag.flip,
    h.nextBlank.symm⟩
theorem DRel.comp {C C' I I' : Nat → Nat → Prop} {d d' d'' : NodeD} (h : DRel C I d d') (h' : DRel C' I' d' d'') :
    DRel (compR C C') (compR I I') d d'' :=
  ⟨⟨_, h.id, h'.id⟩, h.kind.trans h'.kind, h.value.trans h'.value, h.tagName.trans h'.tagName,
    All2.imp (fun _ _ ⟨_, x, y⟩ => AttrRel.comp x y) (All2.comp h.attrs h'.attrs), h.prevTag.comp h'.prevTag,
    h.nextBlank.trans h'.nextBlank⟩

mutual
theorem TreeRel.mono {C C' I : Nat → Nat → Prop} (hC : ∀ k k', C k k' → C' k k') :
    ∀ {n n' : Node}, TreeRel C I n n' → TreeRel C' I n n'
  | .mk _ _ _, .mk _ _ _, h => by
    simp only [TreeRel] at h ⊢
    exact ⟨h.1.mono hC, TreeRelL.mono hC h.2.1, h.2.2⟩
theorem TreeRelL.mono {C C' I : Nat → Nat → Prop} (hC : ∀ k k', C k k' → C' k k') :
    ∀ {ks ks' : List Node}, TreeRelL C I ks ks' → TreeRelL C' I ks ks'
  | [], [], _ => by simp only [TreeRelL]
  | [], _ :: _, h => by simp only [TreeRelL] at h
  | _ :: _, [], h => by simp only [TreeRelL] at h
  | _ :: _, _ :: _, h => by
    simp only [TreeRelL] at h ⊢
    exact ⟨TreeRel.mono hC h.1, TreeRelL.mono hC h.2⟩
end

mutual
theorem TreeRel.flip {C I : Nat → Nat → Prop} : ∀ {n n' : Node}, TreeRel C I n n' → TreeRel (flipR C) (flipR I) n' n
  | .mk _ _ _, .mk _ _ _, h => by
    simp only [TreeRel] at h ⊢
    exact ⟨h.1.flip, TreeRelL.flip h.2.1, h.2.2.symm⟩
theorem TreeRelL.flip {C I : Nat → Nat → Prop} : ∀ {ks ks' : List Node}, TreeRelL C I ks ks' → TreeRelL (flipR C) (flipR I) ks' ks
  | [], [], _ => by simp only [TreeRelL]
  | [], _ :: _, h => by simp only [TreeRelL] at h
  | _ :: _, [], h => by simp only [TreeRelL] at h
  | _ :: _, _ :: _, h => by
    simp only [TreeRelL] at h ⊢
    exact ⟨TreeRel.flip h.1, TreeRelL.flip h.2⟩
end

mutual
theorem TreeRel.comp {C C' I I' : Nat → Nat → Prop} :
    ∀ {n n' n'' : Node}, TreeRel C I n n' → TreeRel C' I' n' n'' → TreeRel (compR C C') (compR I I') n n''
  | .mk _ _ _, .mk _ _ _, .mk _ _ _, h, h' => by
    simp only [TreeRel] at h h' ⊢
    exact ⟨h.1.comp h'.1, TreeRelL.comp h.2.1 h'.2.1, h.2.2.trans h'.2.2⟩
theorem TreeRelL.comp {C C' I I' : Nat → Nat → Prop} :
    ∀ {ks ks' ks'' : List Node}, TreeRelL C I ks ks' → TreeRelL C' I' ks' ks'' → TreeRelL (compR C C') (compR I I') ks ks''
  | [], [], [], _, _ => by simp only [TreeRelL]
  | [], [], _ :: _, _, h => by simp only [TreeRelL] at h
  | [], _ :: _, _, h, _ => by simp only [TreeRelL] at h
  | _ :: _, [], _, h, _ => by simp only [TreeRelL] at h
  | _ :: _, _ :: _, [], _, h => by simp only [TreeRelL] at h
  | _ :: _, _ :: _, _ :: _, h, h' => by
    simp only [TreeRelL] at h h' ⊢
    exact ⟨TreeRel.comp h.1 h'.1, TreeRelL.comp h.2 h'.2⟩
end

theorem TplRel.mono {C C' : Nat → Nat → Prop} (hC : ∀ k k', C k k' → C' k k') {t t' : Node} (h : TplRel C t t') : TplRel C' t t' := by
  obtain ⟨I, hI, h⟩ := h; exact ⟨I, hI, h.mono hC⟩
theorem TplRel.flip {C : Nat → Nat → Prop} {t t' : Node} (h : TplRel C t t') : TplRel (flipR C) t' t := by
  obtain ⟨I, hI, h⟩ := h; exact ⟨_, hI.flip, h.flip⟩
theorem TplRel.comp {C C' : Nat → Nat → Prop} {t t' t'' : Node} (h : TplRel C t t') (h' : TplRel C' t' t'') :
    TplRel (compR C C') t t'' := by
  obtain ⟨I, hI, h⟩ := h; obtain ⟨I', hI', h'⟩ := h'; exact ⟨_, hI.comp hI', h.comp h'⟩

/-! ## the phases -/

section phases
variable {C I : Nat → Nat → Prop} {cfg : Cfg} {env env' : Env Sc}

theorem refWith_rel (hE : EnvRel C env env') {d d' : NodeD} (hd : DRel C I d d') (sc : Sc) {nc nc' : NC} (hn : NcRel I nc nc')
    {k k' : Sc → Q} (hk : ∀ sc1, QRel I (k sc1) (k' sc1)) :
    QRel I (refWith cfg env d sc nc k) (refWith cfg env' d' sc nc' k') := by
  have hw : withRes cfg env d sc = withRes cfg env' d' sc := by
    unfold withRes
    have := withAttr_rel cfg hd.attrs
    cases h1 : withAttr cfg d.attrs <;> cases h2 : withAttr cfg d'.attrs <;> simp only [h1, h2, OptRel] at this ⊢
    exact hE.withAssign _ _ _ this
  unfold refWith
  rw [← hw]
  rcases withRes cfg env d sc with ⟨_ | sc1, lg⟩
  · exact ⟨rfl, rfl, rfl, hn⟩
  · exact (hk sc1).addLog lg

theorem refEvalCond_rel (hI : PBij I) (hE : EnvRel C env env') {d d' : NodeD} (hd : DRel C I d d') {ca ca' : CAttr}
    (hc : AttrRel C ca ca') {nc nc' : NC} (hn : NcRel I nc nc') (sc1 : Sc) {rb rb' : NC → Q}
    (hrb : ∀ nc nc', NcRel I nc nc' → QRel I (rb nc) (rb' nc')) :
    QRel I (refEvalCond env rb d ca nc sc1) (refEvalCond env' rb' d' ca' nc' sc1) := by
  unfold refEvalCond
  rw [← hE.evalStr ca ca' sc1 hc]
  rcases env.evalStr ca sc1 with ⟨_ | v, lg⟩
  · exact ⟨rfl, rfl, rfl, hn⟩
  · simp only
    split
    · exact (hrb _ _ (hn.set hI hd.id true)).buffered.addLog lg
    · exact ⟨rfl, rfl, rfl, hn.set hI hd.id false⟩

theorem refCondA_rel (hI : PBij I) (hE : EnvRel C env env') {d d' : NodeD} (hd : DRel C I d d') {ca ca' : CAttr}
    (hc : AttrRel C ca ca') (isIf : Bool) {nc nc' : NC} (hn : NcRel I nc nc') (sc1 : Sc) {rb rb' : NC → Q}
    (hrb : ∀ nc nc', NcRel I nc nc' → QRel I (rb nc) (rb' nc')) :
    QRel I (refCondA env rb d ca isIf nc sc1) (refCondA env' rb' d' ca' isIf nc' sc1) := by
  unfold refCondA
  rw [← hc.value, ← hn.bind hd.prevTag]
  cases ca.value
  · exact ⟨rfl, rfl, rfl, hn⟩
  · simp only
    cases isIf
    · simp only [Bool.false_eq_true, if_false]
      rcases d.prevTag.bind nc with _ | _ | _
      · exact ⟨rfl, rfl, rfl, hn⟩
      · exact refEvalCond_rel hI hE hd hc hn sc1 hrb
      · exact ⟨rfl, rfl, rfl, hn.set hI hd.id true⟩
    · simp only [if_true]
      exact refEvalCond_rel hI hE hd hc hn sc1 hrb

theorem refCondP_rel (hI : PBij I) (hE : EnvRel C env env') {d d' : NodeD} (hd : DRel C I d d')
    {nc nc' : NC} (hn : NcRel I nc nc') (sc1 : Sc) {rb rb' : NC → Q}
    (hrb : ∀ nc nc', NcRel I nc nc' → QRel I (rb nc) (rb' nc')) :
    QRel I (refCondP cfg env rb d nc sc1) (refCondP cfg env' rb' d' nc' sc1) := by
  unfold refCondP
  have := condAttr_rel cfg hd.attrs
  cases h1 : condAttr cfg d.attrs <;> cases h2 : condAttr cfg d'.attrs <;> simp only [h1, h2, OptRel] at this ⊢
  · exact hrb _ _ hn
  · rename_i x x'
    obtain ⟨ca, isIf⟩ := x
    obtain ⟨ca', isIf'⟩ := x'
    obtain ⟨ha, hb⟩ := this
    simp only at ha hb
    subst hb
    exact refCondA_rel hI hE hd ha isIf hn sc1 hrb

theorem PSRel.mk' {data : Sc} {np : Bool} {ch ch' : ChildMode} {tb cb kb : String} (h : ChildRel C ch ch') :
    PSRel C (Sc := Sc) ⟨data, np, ch, tb, cb, kb⟩ ⟨data, np, ch', tb, cb, kb⟩ := ⟨rfl, rfl, h, rfl, rfl, rfl⟩

theorem PSRel.cases {ps ps' : PS Sc} (hp : PSRel C ps ps') :
    ∃ data np ch ch' tb cb kb, ChildRel C ch ch' ∧ ps = ⟨data, np, ch, tb, cb, kb⟩ ∧ ps' = ⟨data, np, ch', tb, cb, kb⟩ := by
  obtain ⟨data, np, ch, tb, cb, kb⟩ := ps
  obtain ⟨data', np', ch', tb', cb', kb'⟩ := ps'
  obtain ⟨h1, h2, h3, h4, h5, h6⟩ := hp
  simp only at h1 h2 h3 h4 h5 h6
  subst h1 h2 h4 h5 h6
  exact ⟨_, _, _, _, _, _, _, h3, rfl, rfl⟩

theorem applyRemove_rel {a a' : CAttr} (ha : AttrRel C a a') {ps ps' : PS Sc} (hp : PSRel C ps ps') :
    PSRel C (applyRemove a ps) (applyRemove a' ps') := by
  obtain ⟨data, np, ch, ch', tb, cb, kb, hc, rfl, rfl⟩ := hp.cases
  unfold applyRemove
  rw [← ha.value]
  simp only
  split
  · exact .mk' .nop
  · split
    · exact .mk' .nop
    · split
      · exact .mk' hc
      · split
        · cases hc
          · exact .mk' .abf
          · exact .mk' .nop
          · exact .mk' (.textLike ‹_›)
          · exact .mk' .abf
        · exact .mk' hc

/-- what `bodyStep` uses of a fragment execution -/
def RAgree (r r' : R) : Prop := r.st = r'.st ∧ r.out = r'.out ∧ r.log = r'.log

theorem bodyStep_rel (hE : EnvRel C env env') {frag frag' : Node → Sc → R}
    (hfrag : ∀ t t' sc, TplRel C t t' → RAgree (frag t sc) (frag' t' sc))
    {d d' : NodeD} (hd : DRel C I d d') {a a' : CAttr} (ha : AttrRel C a a') (k : AK)
    {ps ps' : PS Sc} (hp : PSRel C ps ps') {nc nc' : NC} (hn : NcRel I nc nc') (fl fl' : Fl) :
    PRRel C I (bodyStep cfg env frag d a k ps nc fl) (bodyStep cfg env' frag' d' a' k ps' nc' fl') := by
  obtain ⟨data, np, ch, ch', tb, cb, kb, hc, rfl, rfl⟩ := hp.cases
  cases k
  case remove => exact ⟨rfl, applyRemove_rel ha hp, rfl, hn⟩
  case text =>
    simp only [bodyStep]
    cases hc
    · exact ⟨rfl, .mk' (.textLike ha), rfl, hn⟩
    all_goals exact ⟨rfl, hp, rfl, hn⟩
  case raw =>
    simp only [bodyStep]
    cases hc
    · exact ⟨rfl, .mk' (.textLike ha), rfl, hn⟩
    all_goals exact ⟨rfl, hp, rfl, hn⟩
  case define => exact ⟨rfl, hp, rfl, hn⟩
  case with_ => exact ⟨rfl, hp, rfl, hn⟩
  case cond => exact ⟨rfl, hp, rfl, hn⟩
  case range => exact ⟨rfl, hp, rfl, hn⟩
  case replace =>
    simp only [bodyStep]
    rw [← hE.evalStr a a' data ha]
    rcases env.evalStr a data with ⟨c | name, lg⟩
    · exact ⟨rfl, hp, rfl, hn⟩
    · simp only
      have ht := hE.tpl name
      cases h1 : env.tpl name <;> cases h2 : env'.tpl name <;> simp only [h1, h2, OptRel] at ht ⊢
      · exact ⟨rfl, hp, rfl, hn⟩
      · rename_i t t'
        obtain ⟨hs, ho, hl⟩ := hfrag t t' data ht
        rw [← hs]
        cases hst : (frag t data).st
        case ok =>
          simp only [R.text, ← ho, ← hl, beq_self_eq_true, if_true]
          exact ⟨rfl, .mk' hc, rfl, hn⟩
        all_goals exact ⟨rfl, hp, by simp only [hl], hn⟩
  case insert =>
    simp only [bodyStep]
    rw [← hE.evalStr a a' data ha]
    rcases env.evalStr a data with ⟨c | name, lg⟩
    · exact ⟨rfl, hp, rfl, hn⟩
    · simp only
      have ht := hE.tpl name
      cases h1 : env.tpl name <;> cases h2 : env'.tpl name <;> simp only [h1, h2, OptRel] at ht ⊢
      · exact ⟨rfl, hp, rfl, hn⟩
      · rename_i t t'
        obtain ⟨hs, ho, hl⟩ := hfrag t t' data ht
        rw [← hs]
        cases hst : (frag t data).st
        case ok =>
          have e : (AK.insert == AK.replace) = false := by decide
          simp only [R.text, ← ho, ← hl, e, Bool.false_eq_true, if_false]
          exact ⟨rfl, .mk' hc, rfl, hn⟩
        all_goals exact ⟨rfl, hp, by simp only [hl], hn⟩
  case dyn cmd =>
    simp only [bodyStep]
    rw [← hE.evalStr a a' data ha]
    rcases env.evalStr a data with ⟨c | v, lg⟩
    · exact ⟨rfl, hp, rfl, hn⟩
    · cases np
      · exact ⟨rfl, .mk' hc, rfl, hn⟩
      · exact ⟨rfl, hp, rfl, hn⟩
  case plain =>
    simp only [bodyStep]
    have hany : d.attrs.any (fun b => b.name == cfg.attrPrefix ++ a.name) = d'.attrs.any (fun b => b.name == cfg.attrPrefix ++ a'.name) :=
      All2.any (fun b b' hb => by simp only [hb.name, ha.name]) hd.attrs
    rw [← hany, ← ha.name, ← ha.value]
    cases d.attrs.any (fun b => b.name == cfg.attrPrefix ++ a.name)
    · cases np
      · exact ⟨rfl, .mk' hc, rfl, hn⟩
      · exact ⟨rfl, hp, rfl, hn⟩
    · exact ⟨rfl, hp, rfl, hn⟩

theorem finishTag_rel {ps ps' : PS Sc} (hp : PSRel C ps ps') : PSRel C (finishTag ps) (finishTag ps') := by
  obtain ⟨data, np, ch, ch', tb, cb, kb, hc, rfl, rfl⟩ := hp.cases
  unfold finishTag
  cases np
  · exact .mk' hc
  · exact hp

end phases

/-! ## the induction on fuel -/

/-- all eight specification functions respect the relations at fuel `f` -/
structure RelAt (C : Nat → Nat → Prop) (cfg : Cfg) (env env' : Env Sc) (f : Nat) : Prop where
  node : ∀ I, PBij I → ∀ depth nc nc' n n' sc, TreeRel C I n n' → NcRel I nc nc' →
    QRel I (refNode cfg env f depth nc n sc) (refNode cfg env' f depth nc' n' sc)
  range : ∀ I, PBij I → ∀ depth nc nc' n n' ra ra' sc, TreeRel C I n n' → AttrRel C ra ra' → NcRel I nc nc' →
    QRel I (refRange cfg env f depth nc n ra sc) (refRange cfg env' f depth nc' n' ra' sc)
  items : ∀ I, PBij I → ∀ depth nc nc' n n' its first, TreeRel C I n n' → NcRel I nc nc' →
    QRel I (refItems cfg env f depth nc n its first) (refItems cfg env' f depth nc' n' its first)
  body : ∀ I, PBij I → ∀ depth nc nc' n n' sc, TreeRel C I n n' → NcRel I nc nc' →
    QRel I (refBody cfg env f depth nc n sc) (refBody cfg env' f depth nc' n' sc)
  attrs : ∀ I, PBij I → ∀ depth nc nc' d d' as as' ps ps', DRel C I d d' → All2 (AttrRel C) as as' → PSRel C ps ps' →
    NcRel I nc nc' → PRRel C I (refAttrs cfg env f depth nc d as ps) (refAttrs cfg env' f depth nc' d' as' ps')
  frag : ∀ I, ∀ depth nc nc' t t' sc, TplRel C t t' → NcRel I nc nc' →
    QRel I (refFrag cfg env f depth nc t sc) (refFrag cfg env' f depth nc' t' sc)
  child : ∀ I, PBij I → ∀ depth nc nc' n n' mode mode' sc, TreeRel C I n n' → ChildRel C mode mode' → NcRel I nc nc' →
    QRel I (refChild cfg env f depth nc n mode sc) (refChild cfg env' f depth nc' n' mode' sc)
  kids : ∀ I, PBij I → ∀ depth nc nc' ks ks' sc, TreeRelL C I ks ks' → NcRel I nc nc' →
    QRel I (refKids cfg env f depth nc ks sc) (refKids cfg env' f depth nc' ks' sc)

theorem relAt_zero (C : Nat → Nat → Prop) (cfg : Cfg) (env env' : Env Sc) : RelAt C cfg env env' 0 where
  node := by intro I _ depth nc nc' n n' sc _ hn; rw [refNode.eq_1, refNode.eq_1]; exact QRel.fuel hn
  range := by intro I _ depth nc nc' n n' ra ra' sc _ _ hn; rw [refRange.eq_1, refRange.eq_1]; exact QRel.fuel hn
  items := by intro I _ depth nc nc' n n' its first _ hn; rw [refItems.eq_1, refItems.eq_1]; exact QRel.fuel hn
  body := by intro I _ depth nc nc' n n' sc _ hn; rw [refBody.eq_1, refBody.eq_1]; exact QRel.fuel hn
  attrs := by
    intro I _ depth nc nc' d d' as as' ps ps' _ _ hp hn
    rw [refAttrs.eq_1, refAttrs.eq_1]; exact ⟨rfl, hp, rfl, hn⟩
  frag := by intro I depth nc nc' t t' sc _ hn; rw [refFrag.eq_1, refFrag.eq_1]; exact QRel.fuel hn
  child := by intro I _ depth nc nc' n n' mode mode' sc _ _ hn; rw [refChild.eq_1, refChild.eq_1]; exact QRel.fuel hn
  kids := by intro I _ depth nc nc' ks ks' sc _ hn; rw [refKids.eq_1, refKids.eq_1]; exact QRel.fuel hn

theorem optRun_rel {C I : Nat → Nat → Prop} {run run' : NC → Node → Q}
    (hrun : ∀ nc nc' k k', TreeRel C I k k' → NcRel I nc nc' → QRel I (run nc k) (run' nc' k')) :
    ∀ {o o' : Option Node}, OptRel (TreeRel C I) o o' → ∀ {nc nc' : NC}, NcRel I nc nc' →
    QRel I (match o with | some k => run nc k | none => Q.okQ [] nc) (match o' with | some k => run' nc' k | none => Q.okQ [] nc') := by
  intro o o' ho nc nc' hn
  cases o <;> cases o' <;> simp only [OptRel] at ho ⊢
  · exact QRel.okQ [] hn
  · exact hrun _ _ _ _ ho hn

theorem refTail_rel {C I : Nat → Nat → Prop} {cfg : Cfg} {env env' : Env Sc} {f depth : Nat} {n n' : Node}
    (hchild : ∀ nc nc' mode mode' sc, ChildRel C mode mode' → NcRel I nc nc' →
      QRel I (refChild cfg env f depth nc n mode sc) (refChild cfg env' f depth nc' n' mode' sc))
    (ht : TreeRel C I n n') {pr pr' : PR Sc} (hpr : PRRel C I pr pr') :
    QRel I (refTail cfg env f depth n pr) (refTail cfg env' f depth n' pr') := by
  obtain ⟨st, ps, lg, nc, fl⟩ := pr
  obtain ⟨st', ps', lg', nc', fl'⟩ := pr'
  obtain ⟨h1, h2, h3, h4⟩ := hpr
  simp only at h1 h2 h3 h4
  subst h1 h3
  unfold refTail
  cases st
  case ok =>
    have hps := finishTag_rel h2
    simp only
    have r0 : QRel I ⟨.ok, [(finishTag ps).tokenBuf], lg, nc⟩ ⟨.ok, [(finishTag ps').tokenBuf], lg, nc'⟩ :=
      ⟨rfl, by simp only [hps.tokenBuf], rfl, h4⟩
    refine (r0.andThen fun nc1 nc1' hn1 => ?_).andThen fun nc2 nc2' hn2 => ?_
    · rw [← hps.data]
      exact hchild _ _ _ _ _ hps.child hn1
    · rw [← hps.noPrint, endChunk_rel ht]
      exact QRel.okQ _ hn2
  all_goals exact ⟨rfl, rfl, rfl, h4⟩

theorem relAt_succ {C : Nat → Nat → Prop} {cfg : Cfg} {env env' : Env Sc} (hE : EnvRel C env env') (f : Nat)
    (ih : RelAt C cfg env env' f) : RelAt C cfg env env' (f+1) where
  node := by
    intro I hI depth nc nc' n n' sc ht hn
    have hd := ht.d
    by_cases hk : n.d.kind = .tag
    · have hk' : n'.d.kind = .tag := hd.kind ▸ hk
      rw [refNode_tag_eq _ _ _ _ _ _ _ hk, refNode_tag_eq _ _ _ _ _ _ _ hk']
      refine refWith_rel hE hd sc hn fun sc1 => refCondP_rel hI hE hd hn sc1 fun nc1 nc1' hn1 => ?_
      unfold refRB
      have hr := rangeAttr_rel cfg hd.attrs
      cases h1 : rangeAttr cfg n.d.attrs <;> cases h2 : rangeAttr cfg n'.d.attrs <;> simp only [h1, h2, OptRel] at hr ⊢
      · exact ih.body I hI depth _ _ _ _ sc1 ht hn1
      · exact ih.range I hI depth _ _ _ _ _ _ sc1 ht hr hn1
    · have hk' : n'.d.kind ≠ .tag := hd.kind ▸ hk
      rw [refNode_leaf_eq _ _ _ _ _ _ _ hk, refNode_leaf_eq _ _ _ _ _ _ _ hk']
      have e1 : leafOut n.d = leafOut n'.d := by simp only [leafOut, hd.kind, hd.value]
      have e2 : leafNp n.d = leafNp n'.d := by simp only [leafNp, hd.kind, hd.value]
      rw [e1, e2, endChunk_rel ht]
      refine (QRel.okQ _ hn).andThen fun nc1 nc1' hn1 => ?_
      refine (ih.kids I hI depth _ _ _ _ sc ht.kids hn1).andThen fun nc2 nc2' hn2 => ?_
      exact QRel.okQ _ hn2
  range := by
    intro I hI depth nc nc' n n' ra ra' sc ht hra hn
    rw [refRange.eq_2, refRange.eq_2, ← hra.value]
    cases ra.value
    · exact ⟨rfl, rfl, rfl, hn⟩
    · simp only
      rw [← hE.rangeItems ra ra' sc hra]
      rcases env.rangeItems ra sc with ⟨_ | its, lg⟩
      · exact ⟨rfl, rfl, rfl, hn⟩
      · exact (ih.items I hI depth _ _ _ _ its true ht hn).buffered.addLog lg
  items := by
    intro I hI depth nc nc' n n' its first ht hn
    cases its with
    | nil => rw [refItems.eq_2, refItems.eq_2]; exact QRel.okQ [] hn
    | cons sc rest =>
      rw [refItems.eq_3, refItems.eq_3]
      simp only [ht.d.nextBlank]
      refine ((QRel.okQ _ hn).andThen fun nc1 nc1' hn1 => ih.body I hI depth _ _ _ _ sc ht hn1).andThen fun nc2 nc2' hn2 => ?_
      exact ih.items I hI depth _ _ _ _ rest false ht hn2
  body := by
    intro I hI depth nc nc' n n' sc ht hn
    have hd := ht.d
    rw [refBody_eq, refBody_eq, ps0_rel cfg hd 3 sc]
    have hpr := ih.attrs I hI depth nc nc' n.d n'.d n.d.attrs n'.d.attrs (ps0 cfg n'.d 3 sc) (ps0 cfg n'.d 3 sc) hd hd.attrs
      (ps0_self cfg _ 3 sc) hn
    exact refTail_rel (fun nc1 nc1' m m' sc1 hm hn1 => ih.child I hI depth nc1 nc1' n n' m m' sc1 ht hm hn1) ht hpr
  attrs := by
    intro I hI depth nc nc' d d' as as' ps ps' hd has hp hn
    match as, as', has with
    | [], [], _ => rw [refAttrs.eq_2, refAttrs.eq_2]; exact ⟨rfl, hp, rfl, hn⟩
    | a :: rest, a' :: rest', has =>
      have hc := has.1.isCtl cfg
      cases hctl : isCtl cfg a
      · rw [refAttrs_body _ _ _ _ _ _ _ _ _ hctl, refAttrs_body _ _ _ _ _ _ _ _ _ (hc ▸ hctl), ← has.1.classify cfg]
        refine (bodyStep_rel hE ?_ hd has.1 _ hp hn emptyFl emptyFl).andThen fun ps1 ps1' nc1 nc1' _ _ hp1 hn1 => ?_
        · intro t t' sc htt
          have := ih.frag I depth nc nc' t t' sc htt hn
          exact ⟨this.st, this.out, this.log⟩
        · exact ih.attrs I hI depth _ _ _ _ _ _ _ _ hd has.2 hp1 hn1
      · rw [refAttrs_skip _ _ _ _ _ _ _ _ _ hctl, refAttrs_skip _ _ _ _ _ _ _ _ _ (hc ▸ hctl)]
        exact ih.attrs I hI depth _ _ _ _ _ _ _ _ hd has.2 hp hn
  frag := by
    intro I depth nc nc' t t' sc htt hn
    obtain ⟨I', hI', ht⟩ := htt
    rw [refFrag.eq_2, refFrag.eq_2]
    split
    · exact ⟨rfl, rfl, rfl, hn⟩
    · have := (ih.node I' hI' (depth + 1) emptyNc emptyNc t t' sc ht (NcRel.empty I')).buffered
      exact ⟨this.st, this.out, this.log, hn⟩
  child := by
    intro I hI depth nc nc' n n' mode mode' sc ht hm hn
    cases hm with
    | unset => rw [refChild.eq_2, refChild.eq_2]; exact ih.kids I hI depth _ _ _ _ sc ht.kids hn
    | nop => rw [refChild.eq_3, refChild.eq_3]; exact QRel.okQ [] hn
    | textLike ha =>
      rw [refChild.eq_4, refChild.eq_4]
      rw [← hE.evalStr _ _ sc ha]
      rename_i a a' b
      rcases env.evalStr a sc with ⟨_ | v, lg⟩
      · exact ⟨rfl, rfl, rfl, hn⟩
      · exact ⟨rfl, rfl, rfl, hn⟩
    | abf =>
      rw [refChild.eq_5, refChild.eq_5]
      simp only
      obtain ⟨h1, h2, h3⟩ := abfParts_rel ((TreeRelL_iff C I _ _).mp ht.kids)
      have hrun : ∀ nc nc' k k', TreeRel C I k k' → NcRel I nc nc' →
          QRel I (refNode cfg env f depth nc k sc) (refNode cfg env' f depth nc' k' sc) :=
        fun nc nc' k k' hk hnn => ih.node I hI depth nc nc' k k' sc hk hnn
      refine (optRun_rel hrun h1 hn).andThen fun nc1 nc1' hn1 => ?_
      refine (optRun_rel hrun h2 hn1).andThen fun nc2 nc2' hn2 => ?_
      exact optRun_rel hrun h3 hn2
  kids := by
    intro I hI depth nc nc' ks ks' sc hk hn
    match ks, ks', hk with
    | [], [], _ => rw [refKids.eq_2, refKids.eq_2]; exact QRel.okQ [] hn
    | k :: ks, k' :: ks', hk =>
      rw [refKids.eq_3, refKids.eq_3]
      simp only [TreeRelL] at hk
      exact (ih.node I hI depth _ _ _ _ sc hk.1 hn).andThen fun nc1 nc1' hn1 => ih.kids I hI depth _ _ _ _ sc hk.2 hn1

theorem relAt {C : Nat → Nat → Prop} {cfg : Cfg} {env env' : Env Sc} (hE : EnvRel C env env') : ∀ f, RelAt C cfg env env' f
  | 0 => relAt_zero C cfg env env'
  | f+1 => relAt_succ hE f (relAt hE f)

/-- **ref_respects_rel.** Related trees under related environments render identically: same status, same output
    chunks, same event log (and related condition maps). -/
theorem ref_respects_rel {C I : Nat → Nat → Prop} (cfg : Cfg) {env env' : Env Sc} (hE : EnvRel C env env') (hI : PBij I)
    (f depth : Nat) {nc nc' : NC} (hn : NcRel I nc nc') {n n' : Node} (ht : TreeRel C I n n') (sc : Sc) :
    QRel I (refNode cfg env f depth nc n sc) (refNode cfg env' f depth nc' n' sc) :=
  (relAt hE f).node I hI depth nc nc' n n' sc ht hn

/-- the entry point -/
theorem refExecute_respects_rel {C : Nat → Nat → Prop} (cfg : Cfg) {env env' : Env Sc} (hE : EnvRel C env env')
    {n n' : Node} (ht : TplRel C n n') (fuel : Nat) (sc : Sc) :
    (refExecute cfg env fuel n sc).st = (refExecute cfg env' fuel n' sc).st ∧
    (refExecute cfg env fuel n sc).out = (refExecute cfg env' fuel n' sc).out ∧
    (refExecute cfg env fuel n sc).log = (refExecute cfg env' fuel n' sc).log := by
  obtain ⟨I, hI, ht⟩ := ht
  have := ref_respects_rel cfg hE hI fuel 0 (NcRel.empty I) ht sc
  exact ⟨this.st, this.out, this.log⟩

end RN
