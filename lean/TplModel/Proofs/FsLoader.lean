import TplModel.Proofs.LoadOrder
import TplModel.Proofs.FsParse
/-! # The abstract walk `FP` instantiated with the concrete loader `EN` (helper lemmas for `Props/C19loader.lean`)

`Sys/FsParse.lean` (namespace `FP`) abstracts "loading a file" to `Content` (did it fail; which `define` names).
`Html/Engine.lean` (namespace `EN`) loads source TEXT (`addFile`, `loadFiles`).  This file connects them:

* `EN.loads`, `EN.fragNames` — whether a source compiles on its own and the fragment names it contributes; both are
  independent of the file name (`canon_any`, `canon_names`);
* `FP.contentOf` — the `Content` of a source text; `FP.Src`, `FP.entriesOf`, `FP.visited` — a fault-free file tree of
  source texts, the entries the walk delivers for it, and the (path, source) list handed to `EN.loadFiles`;
* `FP.Sim s m` — the FP registry and the EN manager list the same names (same order) and the same files;
* `add_sim` / `walk_sim` — `FP.add`/`FP.walk` succeed iff `EN.addFile`/`EN.loadFrom` do, and `Sim` is preserved;
* `EN.addFile_okOrErr`, `EN.addFile_dup_err` — when the file compiles on its own, the only failure of `addFile` is `.err`
  (the duplicate-name error).

Core-only. -/
namespace EN
open EV (Val FnSpec)
open RN (Node NodeD)

instance (base xs : List String) : Decidable (Fresh base xs) := decidable_of_iff _ (Fresh_iff xs base).symm

/-! ## the contribution of a source does not depend on the file name -/

/-- `canon` under two file names: the same root, the same fragments, the same table; only the first name differs -/
theorem canon_any (cfg : Cfg) (fns : List (String × FnSpec)) (name name' src : String) {ents : List (String × Node)} {E : Tbl}
    (h : canon cfg fns name src = .ok (ents, E)) :
    ∃ root new, ents = (name, root) :: new ∧ canon cfg fns name' src = .ok ((name', root) :: new, E) := by
  unfold canon at h ⊢
  split at h
  · cases h
  · cases h
  · rename_i toks hs
    unfold canonOf at h ⊢
    split at h
    · rename_i root0 hr
      obtain ⟨new, h1, h2⟩ := LoadRes.map_ok.mp h
      cases h2
      refine ⟨_, new, rfl, ?_⟩
      simp only [h1, LoadRes.map]
    all_goals cases h

/-- the source compiles on its own: scanning, parsing of every `${…}`, tree building, evaluation of every `define` name -/
def loads (cfg : Cfg) (fns : List (String × FnSpec)) (src : String) : Bool :=
  match canon cfg fns "" src with
  | .ok _ => true
  | _ => false

/-- the names of the fragments a source defines, document order (pre-order); `[]` when it does not compile -/
def fragNames (cfg : Cfg) (fns : List (String × FnSpec)) (src : String) : List String :=
  match canon cfg fns "" src with
  | .ok (ents, _) => (names ents).tail
  | _ => []

/-- the names a file contributes: its own name, then `fragNames` — whatever the file is called -/
theorem canon_names {cfg : Cfg} {fns : List (String × FnSpec)} {name src : String} {ents : List (String × Node)} {E : Tbl}
    (h : canon cfg fns name src = .ok (ents, E)) :
    loads cfg fns src = true ∧ names ents = name :: fragNames cfg fns src := by
  obtain ⟨root, new, rfl, h'⟩ := canon_any cfg fns name "" src h
  simp [loads, fragNames, h', names]

theorem loads_canon {cfg : Cfg} {fns : List (String × FnSpec)} {src : String} (h : loads cfg fns src = true) (name : String) :
    ∃ ents E, canon cfg fns name src = .ok (ents, E) := by
  unfold loads at h
  split at h
  · rename_i p hp
    obtain ⟨ents, E⟩ := p
    obtain ⟨root, new, _, h'⟩ := canon_any cfg fns "" name src hp
    exact ⟨_, _, h'⟩
  · cases h

theorem loads_iff (cfg : Cfg) (fns : List (String × FnSpec)) (name src : String) :
    loads cfg fns src = true ↔ ∃ ents E, canon cfg fns name src = .ok (ents, E) :=
  ⟨fun h => loads_canon h name, fun ⟨_, _, h⟩ => (canon_names h).1⟩

theorem fragNames_of_not_loads {cfg : Cfg} {fns : List (String × FnSpec)} {src : String} (h : loads cfg fns src = false) :
    fragNames cfg fns src = [] := by
  unfold loads at h
  unfold fragNames
  split at h
  · cases h
  · rename_i hne
    split
    · rename_i ents E he; exact absurd he (hne _)
    · rfl

/-! ## the only failure of `addFile` on a file that compiles on its own is `.err` -/

/-- success or the plain error -/
def LoadRes.OkOrErr {α : Type} (r : LoadRes α) : Prop := r = .err ∨ ∃ a, r = .ok a

theorem defineHere_okOrErr (cfg : Cfg) (cx : Ctx) (d : NodeD) (kids : List Node) (tpls new : List (String × Node))
    (h : defOf cfg cx d kids = .ok new) :
    defineHere cfg cx d kids tpls = .err ∨ defineHere cfg cx d kids tpls = .ok (tpls ++ new) := by
  unfold defineHere
  unfold defOf at h
  cases hk : (d.kind == .tag)
  · simp only [hk] at h
    cases h; simp
  · simp only [hk, if_true] at h ⊢
    cases hf : d.attrs.find? (fun a => a.name == cfg.attrPrefix ++ "define") with
    | none => simp only [hf] at h; cases h; simp
    | some a =>
      simp only [hf] at h ⊢
      rcases hev : attrEvaluate cx a [emptyMap] with ⟨c | nameS, lg⟩
      · simp
      · simp only [hev] at h ⊢
        by_cases hu : lg.contains unsupportedEv = true
        · rw [if_pos hu] at h; cases h
        · rw [if_neg hu] at h ⊢
          cases h
          by_cases hn : tpls.any (·.1 == nameS) = true
          · rw [if_pos hn]; exact Or.inl rfl
          · rw [if_neg hn]; exact Or.inr rfl

theorem addDefined_okOrErr (cfg : Cfg) (cx : Ctx) : ∀ (n : Node) (tpls new : List (String × Node)),
    collect cfg cx n = .ok new →
      addDefined cfg cx n tpls = .err ∨ addDefined cfg cx n tpls = .ok (tpls ++ new) := by
  refine RN.Spec.Node.induct (PL := fun ks => ∀ (tpls new : List (String × Node)),
    collectL cfg cx ks = .ok new →
      addDefinedL cfg cx ks tpls = .err ∨ addDefinedL cfg cx ks tpls = .ok (tpls ++ new)) ?_ ?_ ?_
  · intro d kids e ih tpls new h
    rw [collect] at h
    obtain ⟨new1, new2, h1, h2, rfl⟩ := LoadRes.app_ok.mp h
    rw [addDefined]
    rcases defineHere_okOrErr cfg cx d kids tpls new1 h1 with hd | hd
    · simp [hd]
    · simp only [hd]
      rcases ih (tpls ++ new1) new2 h2 with hk | hk
      · exact Or.inl hk
      · exact Or.inr (by rw [hk, List.append_assoc])
  · intro tpls new h
    rw [collectL] at h
    cases h
    simp [addDefinedL]
  · intro k ks ih1 ih2 tpls new h
    rw [collectL] at h
    obtain ⟨new1, new2, h1, h2, rfl⟩ := LoadRes.app_ok.mp h
    rw [addDefinedL]
    rcases ih1 tpls new1 h1 with hd | hd
    · simp [hd]
    · simp only [hd]
      rcases ih2 (tpls ++ new1) new2 h2 with hk | hk
      · exact Or.inl hk
      · exact Or.inr (by rw [hk, List.append_assoc])

/-- a file that compiles on its own is added, or rejected with `.err`: never `.panic`, never `.unsupported` -/
theorem addFile_okOrErr (cfg : Cfg) (fns : List (String × FnSpec)) (i : Nat) (name src : String) (m : Mgr)
    (h : loads cfg fns src = true) : (addFile cfg fns i name src m).OkOrErr := by
  obtain ⟨ents, E, hc⟩ := loads_canon h name
  unfold addFile
  unfold canon at hc
  by_cases hany : m.templates.any (·.1 == name) = true
  · rw [if_pos hany]; exact Or.inl rfl
  · rw [if_neg hany]
    cases hs : HS.scan (scanCfg cfg) src.toList with
    | error e => cases e <;> simp [hs] at hc
    | ok toks =>
      simp only [hs] at hc ⊢
      rw [buildTreeS_shift]
      rcases hb : buildTreeS cfg 0 toks #[] with ⟨r0, E0⟩
      rw [hb] at hc
      cases r0 with
      | ok root0 =>
        simp only [canonOf] at hc
        obtain ⟨new0, h3, _⟩ := LoadRes.map_ok.mp hc
        simp only [registerFile, shiftRes, LoadRes.map]
        rw [annotate_mapNode]
        have hcol : collect cfg ⟨m.cx.exprs ++ E0, fns⟩
            (mapNode (m.cx.exprs.size + ·) (gId (i * 100000)) (annotate root0)) =
              .ok (new0.map (mapEntry (m.cx.exprs.size + ·) (gId (i * 100000)))) := by
          rw [collect_map cfg ⟨E0, fns⟩ _ _ _ rfl (attrEvaluate_shift fns m.cx.exprs E0), h3]; rfl
        rcases addDefined_okOrErr cfg _ _
          (m.templates ++ [(name, mapNode (m.cx.exprs.size + ·) (gId (i * 100000)) (annotate root0))]) _ hcol with hk | hk
        · rw [hk]; exact Or.inl rfl
        · rw [hk]; exact Or.inr ⟨_, rfl⟩
      | err => simp [canonOf] at hc
      | panic => simp [canonOf] at hc
      | unsupported => simp [canonOf] at hc

/-- **duplicate = `.err`.** A file that compiles on its own and whose names (file name, then fragment names in document
    order) are not all fresh is rejected with `.err` -/
theorem addFile_dup_err (cfg : Cfg) (fns : List (String × FnSpec)) (i : Nat) (name src : String) (m : Mgr)
    (h : loads cfg fns src = true) (hd : ¬ Fresh (names m.templates) (name :: fragNames cfg fns src)) :
    addFile cfg fns i name src m = .err := by
  rcases addFile_okOrErr cfg fns i name src m h with he | ⟨m1, hm1⟩
  · exact he
  · obtain ⟨ents, E, h1, h2, _⟩ := (addFile_ok_iff cfg fns i name src m m1).mp hm1
    rw [(canon_names h1).2] at h2
    exact absurd h2 hd

/-- a file whose own name is taken is rejected with `.err` before it is scanned (whatever its content) -/
theorem addFile_name_taken (cfg : Cfg) (fns : List (String × FnSpec)) (i : Nat) (name src : String) (m : Mgr)
    (h : name ∈ names m.templates) : addFile cfg fns i name src m = .err := by
  unfold addFile
  rw [if_pos ((any_name _ _).mpr h)]

/-- `addFile`, on names: success iff the source compiles on its own and its names are fresh; then the registry grows by
    exactly those names and the file list by the file name -/
theorem addFile_ok_names (cfg : Cfg) (fns : List (String × FnSpec)) (i : Nat) (name src : String) (m : Mgr) :
    (∃ m1, addFile cfg fns i name src m = .ok m1) ↔
      loads cfg fns src = true ∧ Fresh (names m.templates) (name :: fragNames cfg fns src) := by
  constructor
  · rintro ⟨m1, h⟩
    obtain ⟨ents, E, h1, h2, _⟩ := (addFile_ok_iff cfg fns i name src m m1).mp h
    obtain ⟨h3, h4⟩ := canon_names h1
    exact ⟨h3, h4 ▸ h2⟩
  · rintro ⟨h1, h2⟩
    obtain ⟨ents, E, hc⟩ := loads_canon h1 name
    exact ⟨_, (addFile_ok_iff cfg fns i name src m _).mpr ⟨ents, E, hc, (canon_names hc).2 ▸ h2, rfl⟩⟩

theorem addFile_names {cfg : Cfg} {fns : List (String × FnSpec)} {i : Nat} {name src : String} {m m1 : Mgr}
    (h : addFile cfg fns i name src m = .ok m1) :
    names m1.templates = names m.templates ++ name :: fragNames cfg fns src ∧ m1.files = m.files ++ [name] := by
  obtain ⟨ents, E, h1, _, rfl⟩ := (addFile_ok_iff cfg fns i name src m m1).mp h
  refine ⟨?_, rfl⟩
  rw [← (canon_names h1).2]
  simp [extend, names, mapEntry, Function.comp_def]

/-! ## `loadFrom` over a concatenation -/

theorem loadFrom_append_ok (cfg : Cfg) (fns : List (String × FnSpec)) : ∀ (a b : List (String × String)) (i : Nat) (m m1 : Mgr),
    loadFrom cfg fns i a m = .ok m1 → loadFrom cfg fns i (a ++ b) m = loadFrom cfg fns (i + a.length) b m1
  | [], b, i, m, m1, h => by
    simp only [loadFrom] at h; cases h; simp
  | f :: a, b, i, m, m1, h => by
    simp only [loadFrom, List.cons_append] at h ⊢
    cases hf : addFile cfg fns (i + 1) f.1 f.2 m with
    | ok m' =>
      simp only [hf] at h ⊢
      rw [loadFrom_append_ok cfg fns a b (i + 1) m' m1 h]
      congr 1
      simp only [List.length_cons]; omega
    | err => simp [hf] at h
    | panic => simp [hf] at h
    | unsupported => simp [hf] at h

/-- the first file that is not added decides: the result is that file's failure, the rest is not looked at -/
theorem loadFrom_cons_fail (cfg : Cfg) (fns : List (String × FnSpec)) (i : Nat) (f : String × String)
    (rest : List (String × String)) (m : Mgr) (h : ∀ m1, addFile cfg fns (i + 1) f.1 f.2 m ≠ .ok m1) :
    loadFrom cfg fns i (f :: rest) m = addFile cfg fns (i + 1) f.1 f.2 m := by
  simp only [loadFrom]
  cases hf : addFile cfg fns (i + 1) f.1 f.2 m with
  | ok m' => exact absurd hf (h m')
  | err => rfl
  | panic => rfl
  | unsupported => rfl

end EN

namespace FP
open EN (Fresh names)

/-! ## `addDefines` is `Fresh` -/

theorem addDefines_ok_iff_fresh (s : State) (ds : List String) :
    (addDefines s ds).1 = .ok ↔ Fresh s.templates ds := by
  induction ds generalizing s with
  | nil => simp [addDefines, Fresh]
  | cons d ds ih =>
    unfold addDefines
    split
    · rename_i h; simp [Fresh, h]
    · rename_i h
      rw [ih]
      simp [Fresh, h]

theorem add_ok_iff_fresh (s : State) (n : String) (c : Content) :
    (add s n c).1 = .ok ↔ c.loadErr = false ∧ Fresh s.templates (n :: c.defines) := by
  unfold add
  split
  · rename_i h; simp [Fresh, h]
  · rename_i h
    split
    · rename_i hl; simp [hl]
    · rename_i hl
      rw [addDefines_ok_iff_fresh]
      simp [Fresh, h, hl]

/-! ## what `add` leaves registered, in every outcome -/

/-- the fragments `addDefines` registers on top of `base`: up to, not including, the first name that is taken -/
def regPrefix (base : List String) : List String → List String
  | [] => []
  | d :: ds => if d ∈ base then [] else d :: regPrefix (base ++ [d]) ds

theorem addDefines_templates_eq (s : State) (ds : List String) :
    (addDefines s ds).2.templates = s.templates ++ regPrefix s.templates ds := by
  induction ds generalizing s with
  | nil => simp [addDefines, regPrefix]
  | cons d ds ih =>
    unfold addDefines regPrefix
    split
    · simp
    · rw [ih]; simp

theorem regPrefix_of_fresh {base ds : List String} (h : Fresh base ds) : regPrefix base ds = ds := by
  induction ds generalizing base with
  | nil => rfl
  | cons d ds ih =>
    obtain ⟨h1, h2⟩ := h
    simp [regPrefix, h1, ih h2]

theorem regPrefix_prefix (base ds : List String) : regPrefix base ds <+: ds := by
  induction ds generalizing base with
  | nil => simp [regPrefix]
  | cons d ds ih =>
    unfold regPrefix
    split
    · simp
    · exact (List.prefix_cons_inj d).mpr (ih _)

/-- the state after `Add`, in EVERY outcome: nothing new when the name is taken or the file does not load; otherwise the
    file and the fragments up to the first taken name; the logs are untouched -/
theorem add_state (s : State) (n : String) (c : Content) :
    (add s n c).2.templates = s.templates ++
      (if n ∈ s.templates ∨ c.loadErr = true then [] else n :: regPrefix (s.templates ++ [n]) c.defines) ∧
    (add s n c).2.files = s.files ++ (if n ∈ s.templates ∨ c.loadErr = true then [] else [n]) ∧
    (add s n c).2.opens = s.opens ∧ (add s n c).2.closes = s.closes := by
  refine ⟨?_, ?_, (add_frame s n c).1, (add_frame s n c).2⟩
  · unfold add
    by_cases h1 : n ∈ s.templates
    · simp [h1]
    · by_cases h2 : c.loadErr = true
      · simp [h1, h2]
      · rw [if_neg h1, if_neg h2, addDefines_templates_eq]
        simp [h1, h2]
  · unfold add
    by_cases h1 : n ∈ s.templates
    · simp [h1]
    · by_cases h2 : c.loadErr = true
      · simp [h1, h2]
      · rw [if_neg h1, if_neg h2, (addDefines_frame _ _).1]
        simp [h1, h2]

/-! ## the instantiation -/

/-- **the `Content` of a source text**, computed by the concrete loader: it fails to load iff it does not compile on its
    own (`EN.canon`), its `define` names are the fragment names the loader registers for it.  Neither depends on the name
    of the file (`EN.canon_any`). -/
def contentOf (cfg : EN.Cfg) (fns : List (String × EV.FnSpec)) (src : String) : Content :=
  { loadErr := !EN.loads cfg fns src, defines := EN.fragNames cfg fns src }

/-- a fault-free file tree of source texts, as the walk meets it: directories and files with their text -/
structure Src where
  path : String
  isDir : Bool := false
  src : String := ""
deriving Repr, DecidableEq

def entryOf (cfg : EN.Cfg) (fns : List (String × EV.FnSpec)) (x : Src) : Entry :=
  { path := x.path, isDir := x.isDir, content := contentOf cfg fns x.src }

def entriesOf (cfg : EN.Cfg) (fns : List (String × EV.FnSpec)) (xs : List Src) : List Entry := xs.map (entryOf cfg fns)

/-- the (path, source) pairs of the accepted files, walk order: what is handed to `EN.loadFiles` -/
def visited (mt : String → Bool) (xs : List Src) : List (String × String) :=
  (xs.filter fun x => !x.isDir && mt x.path).map fun x => (x.path, x.src)

theorem visited_nil (mt : String → Bool) : visited mt [] = [] := rfl

theorem visited_cons (mt : String → Bool) (x : Src) (xs : List Src) :
    visited mt (x :: xs) = (if (!x.isDir && mt x.path) = true then [(x.path, x.src)] else []) ++ visited mt xs := by
  unfold visited
  cases h : (!x.isDir && mt x.path) <;> simp [h]

theorem visited_append (mt : String → Bool) (xs ys : List Src) : visited mt (xs ++ ys) = visited mt xs ++ visited mt ys := by
  simp [visited]

theorem entriesOf_append (cfg : EN.Cfg) (fns : List (String × EV.FnSpec)) (xs ys : List Src) :
    entriesOf cfg fns (xs ++ ys) = entriesOf cfg fns xs ++ entriesOf cfg fns ys := by
  simp [entriesOf]

theorem entryOf_accepted (cfg : EN.Cfg) (fns : List (String × EV.FnSpec)) (mt : String → Bool) (x : Src) :
    (entryOf cfg fns x).accepted mt = (!x.isDir && mt x.path) := rfl

/-- the accepted paths of the entries are the names handed to the loader -/
theorem acceptedPaths_entriesOf (cfg : EN.Cfg) (fns : List (String × EV.FnSpec)) (mt : String → Bool) (xs : List Src) :
    acceptedPaths mt (entriesOf cfg fns xs) = (visited mt xs).map (·.1) := by
  induction xs with
  | nil => rfl
  | cons x xs ih =>
    rw [entriesOf, List.map_cons, acceptedPaths_cons, visited_cons, ← entriesOf, ih, entryOf_accepted]
    cases (!x.isDir && mt x.path) <;> simp [entryOf]

/-- the names requested by the entries: each visited file's path followed by its fragment names -/
theorem allNames_entriesOf (cfg : EN.Cfg) (fns : List (String × EV.FnSpec)) (mt : String → Bool) (xs : List Src) :
    allNames mt (entriesOf cfg fns xs) = (visited mt xs).flatMap fun f => f.1 :: EN.fragNames cfg fns f.2 := by
  induction xs with
  | nil => rfl
  | cons x xs ih =>
    rw [entriesOf, List.map_cons, allNames_cons, visited_cons, ← entriesOf, ih, entryOf_accepted]
    cases (!x.isDir && mt x.path) <;> simp [entryOf, Entry.names, contentOf]

/-- the entries built from a source tree carry no file-system fault; the only fault left is a file that does not compile -/
theorem noFsFault_entriesOf (cfg : EN.Cfg) (fns : List (String × EV.FnSpec)) (mt : String → Bool) (xs : List Src) :
    NoFsFault mt (entriesOf cfg fns xs) ↔ ∀ f ∈ visited mt xs, EN.loads cfg fns f.2 = true := by
  simp only [NoFsFault, entriesOf, visited, List.mem_map, List.mem_filter]
  constructor
  · rintro h f ⟨x, ⟨hx, ha⟩, rfl⟩
    have := (h _ ⟨x, hx, rfl⟩).2 (by rw [entryOf_accepted]; exact ha)
    simpa [entryOf, contentOf] using this.2
  · rintro h e ⟨x, hx, rfl⟩
    refine ⟨rfl, fun ha => ⟨rfl, ?_⟩⟩
    rw [entryOf_accepted] at ha
    have := h (x.path, x.src) ⟨x, ⟨hx, ha⟩, rfl⟩
    simp [entryOf, contentOf, this]

/-! ## the simulation -/

/-- the FP registry and the EN manager agree: the same names in the same order, the same files -/
def Sim (s : State) (m : EN.Mgr) : Prop := s.templates = names m.templates ∧ s.files = m.files

theorem sim_empty (cfg : EN.Cfg) (fns : List (String × EV.FnSpec)) : Sim {} (EN.emptyMgr cfg fns) := ⟨rfl, rfl⟩

/-- **one file.** From agreeing registries, `FP.add` on the content computed from the text succeeds iff `EN.addFile`
    on the text does (under any file number), and then the registries agree again. -/
theorem add_sim (cfg : EN.Cfg) (fns : List (String × EV.FnSpec)) (i : Nat) (name src : String) (s : State) (m : EN.Mgr)
    (h : Sim s m) :
    ((add s name (contentOf cfg fns src)).1 = .ok ↔ ∃ m1, EN.addFile cfg fns i name src m = .ok m1) ∧
    ∀ m1, EN.addFile cfg fns i name src m = .ok m1 → Sim (add s name (contentOf cfg fns src)).2 m1 := by
  have hiff : (add s name (contentOf cfg fns src)).1 = .ok ↔ ∃ m1, EN.addFile cfg fns i name src m = .ok m1 := by
    rw [add_ok_iff_fresh, EN.addFile_ok_names, h.1]
    simp [contentOf]
  refine ⟨hiff, fun m1 hm1 => ?_⟩
  have hok := hiff.mpr ⟨m1, hm1⟩
  obtain ⟨h1, h2⟩ := add_ok s name _ hok
  obtain ⟨h3, h4⟩ := EN.addFile_names hm1
  exact ⟨by rw [h2, h3, h.1]; rfl, by rw [h1, h4, h.2]⟩

/-- the result of `add` when it fails, on the loader's notions: `duplicate` iff the file name is taken, or the file
    compiles on its own and one of its fragment names is taken (by an earlier file, an earlier fragment, the file itself);
    `load` iff the name is free and the file does not compile -/
theorem add_err_kind (cfg : EN.Cfg) (fns : List (String × EV.FnSpec)) (name src : String) (s : State) :
    (add s name (contentOf cfg fns src)).1 =
      if name ∈ s.templates then .err .duplicate
      else if EN.loads cfg fns src = false then .err .load
      else if Fresh s.templates (name :: EN.fragNames cfg fns src) then .ok else .err .duplicate := by
  by_cases h1 : name ∈ s.templates
  · simp [add, h1]
  · by_cases h2 : EN.loads cfg fns src = false
    · simp [add, h1, contentOf, h2]
    · rw [if_neg h1, if_neg h2]
      have hl : (contentOf cfg fns src).loadErr = false := by simpa [contentOf] using h2
      by_cases h3 : Fresh s.templates (name :: EN.fragNames cfg fns src)
      · rw [if_pos h3]
        exact (add_ok_iff_fresh s name _).mpr ⟨hl, h3⟩
      · rw [if_neg h3]
        have hne : (add s name (contentOf cfg fns src)).1 ≠ .ok :=
          fun hok => h3 ((add_ok_iff_fresh s name _).mp hok).2
        unfold add at hne ⊢
        rw [if_neg h1, hl] at hne ⊢
        simp only [Bool.false_eq_true, if_false] at hne ⊢
        rcases addDefines_result { s with files := s.files ++ [name], templates := s.templates ++ [name] }
          (contentOf cfg fns src).defines with hr | hr
        · exact absurd hr hne
        · exact hr

theorem visit_entryOf (cfg : EN.Cfg) (fns : List (String × EV.FnSpec)) (mt : String → Bool) (s : State) (x : Src) :
    visit mt s (entryOf cfg fns x) =
      if (!x.isDir && mt x.path) = true then
        closeFile x.path (add { s with opens := s.opens ++ [x.path] } x.path (contentOf cfg fns x.src))
      else (.ok, s) := by
  unfold visit entryOf
  cases hd : x.isDir <;> cases hm : mt x.path <;> simp

/-- **the walk.** From agreeing registries, the walk over the entries of a source tree succeeds iff the loader succeeds on
    the visited files (numbered from any `i`), and then the registries agree. -/
theorem walk_sim (cfg : EN.Cfg) (fns : List (String × EV.FnSpec)) (mt : String → Bool) :
    ∀ (xs : List Src) (i : Nat) (s : State) (m : EN.Mgr), Sim s m →
      ((walk mt s (entriesOf cfg fns xs)).1 = .ok ↔ ∃ m', EN.loadFrom cfg fns i (visited mt xs) m = .ok m') ∧
      ∀ m', EN.loadFrom cfg fns i (visited mt xs) m = .ok m' → Sim (walk mt s (entriesOf cfg fns xs)).2 m'
  | [], i, s, m, h => by
    simp only [entriesOf, List.map_nil, walk, visited_nil, EN.loadFrom]
    exact ⟨by simp, fun m' hm' => by cases hm'; exact h⟩
  | x :: xs, i, s, m, h => by
    rw [entriesOf, List.map_cons, ← entriesOf, visited_cons]
    have hv := visit_entryOf cfg fns mt s x
    by_cases ha : (!x.isDir && mt x.path) = true
    · rw [if_pos ha] at hv ⊢
      obtain ⟨a1, a2⟩ := add_sim cfg fns (i + 1) x.path x.src { s with opens := s.opens ++ [x.path] } m h
      simp only [List.singleton_append, EN.loadFrom]
      rcases hadd : add { s with opens := s.opens ++ [x.path] } x.path (contentOf cfg fns x.src) with ⟨r, s'⟩
      rw [hadd] at hv a1 a2
      simp only [closeFile] at hv
      cases r with
      | ok =>
        obtain ⟨m1, hm1⟩ := a1.mp rfl
        have hs' : Sim { s' with closes := s'.closes ++ [x.path] } m1 := a2 m1 hm1
        rw [walk_cons_ok _ hv]
        simp only [hm1]
        exact walk_sim cfg fns mt xs (i + 1) _ m1 hs'
      | err k =>
        rw [walk_cons_err _ hv]
        have hno : ∀ m1, EN.addFile cfg fns (i + 1) x.path x.src m ≠ .ok m1 :=
          fun m1 hm1 => by have := a1.mpr ⟨m1, hm1⟩; cases this
        cases hf : EN.addFile cfg fns (i + 1) x.path x.src m with
        | ok m1 => exact absurd hf (hno m1)
        | err => simp
        | panic => simp
        | unsupported => simp
    · rw [if_neg ha] at hv ⊢
      rw [walk_cons_ok _ hv, List.nil_append]
      exact walk_sim cfg fns mt xs i s m h

end FP
