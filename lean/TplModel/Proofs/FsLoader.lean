import TplModel.Proofs.LoadOrder
import TplModel.Proofs.FsParse
/-! # The abstract walk `FP` instantiated with the concrete loader `EN` (helper lemmas for `Props/C19loader.lean`)

`Sys/FsParse.lean` (namespace `FP`) abstracts "loading a file" to `Content` (did scanning/parsing fail; which `define`s does
the tree contain, `none` for one whose name fails to evaluate).
`Html/Engine.lean` (namespace `EN`) loads source TEXT (`addFile`, `loadFiles`).  This file connects them:

* `EN.loads`, `EN.fragNames` — whether a source compiles on its own and the fragment names it contributes; both are
  independent of the file name (`canon_any`, `canon_names`);
* `EN.defNameOf`, `EN.defSeq`, `EN.upToNone` — the `define`s of a tree in the pre-order of `EN.addDefined`, `none` for a name
  that does not evaluate; `collect_defSeq` (it lists exactly the names `collect` returns, and has a `none` exactly when
  `collect` fails), `defSeq_map` (independent of the numbering), `addDefined_clash` (a name clash in front of the first
  failing name makes `addDefined` return `.err`, whatever follows);
* `EN.parsed`, `EN.parses`, `EN.defsOf`, `EN.definedBy`, `EN.nameFails` — a source text in the two steps of `Add`: scan + tree
  building, then the `define`s; `loads_iff_parses`, `fragNames_eq_definedBy`, `addFile_of_parsed`, `addFile_clash_err`;
* `FP.contentOf` — the `Content` of a source text (`loadErr := ¬ parses`, `defines := defsOf`); `FP.Src`, `FP.entriesOf`,
  `FP.visited` — a fault-free file tree of source texts, the entries the walk delivers for it, and the (path, source) list
  handed to `EN.loadFiles`;
* `FP.Sim s m` — the FP registry and the EN manager list the same names (same order) and the same files;
* `add_sim` / `walk_sim` — `FP.add`/`FP.walk` succeed iff `EN.addFile`/`EN.loadFrom` do, and `Sim` is preserved;
  `add_err_kind`, `add_state` — the error kind and the leftover state of `FP.add` on the loader's notions;
* `EN.addFile_okOrErr`, `EN.addFile_dup_err` — when the file compiles on its own, the only failure of `addFile` is `.err`
  (the duplicate-name error).

Core-only. -/
namespace EN
open EV (Val FnSpec)
open RN (Node NodeD)

instance (base xs : List String) : Decidable (Fresh base xs) := decidable_of_iff _ (Fresh_iff xs base).symm

/-! ## the contribution of a source does not depend on the file name -/

/-- `canon` under two file names: the same root, the same fragments, the same table; only the first name differs -/
theorem canon_any (cfg : Cfg) (fns : List (String × FnSpec)) (name name' src : String) {ents : List (String × Node)} {E : Tbl}
    (h : canon cfg fns name src = .ok (ents, E)) :
    ∃ root new, ents = (name, root) :: new ∧ canon cfg fns name' src = .ok ((name', root) :: new, E) := by
  unfold canon at h ⊢
  split at h
  · cases h
  · cases h
  · rename_i toks hs
    unfold canonOf at h ⊢
    split at h
    · rename_i root0 hr
      obtain ⟨new, h1, h2⟩ := LoadRes.map_ok.mp h
      cases h2
      refine ⟨_, new, rfl, ?_⟩
      simp only [h1, LoadRes.map]
    all_goals cases h

/-- the source compiles on its own: scanning, parsing of every `${…}`, tree building, evaluation of every `define` name -/
def loads (cfg : Cfg) (fns : List (String × FnSpec)) (src : String) : Bool :=
  match canon cfg fns "" src with
  | .ok _ => true
  | _ => false

/-- the names of the fragments a source defines, document order (pre-order); `[]` when it does not compile -/
def fragNames (cfg : Cfg) (fns : List (String × FnSpec)) (src : String) : List String :=
  match canon cfg fns "" src with
  | .ok (ents, _) => (names ents).tail
  | _ => []

/-- the names a file contributes: its own name, then `fragNames` — whatever the file is called -/
theorem canon_names {cfg : Cfg} {fns : List (String × FnSpec)} {name src : String} {ents : List (String × Node)} {E : Tbl}
    (h : canon cfg fns name src = .ok (ents, E)) :
    loads cfg fns src = true ∧ names ents = name :: fragNames cfg fns src := by
  obtain ⟨root, new, rfl, h'⟩ := canon_any cfg fns name "" src h
  simp [loads, fragNames, h', names]

theorem loads_canon {cfg : Cfg} {fns : List (String × FnSpec)} {src : String} (h : loads cfg fns src = true) (name : String) :
    ∃ ents E, canon cfg fns name src = .ok (ents, E) := by
  unfold loads at h
  split at h
  · rename_i p hp
    obtain ⟨ents, E⟩ := p
    obtain ⟨root, new, _, h'⟩ := canon_any cfg fns "" name src hp
    exact ⟨_, _, h'⟩
  · cases h

theorem loads_iff (cfg : Cfg) (fns : List (String × FnSpec)) (name src : String) :
    loads cfg fns src = true ↔ ∃ ents E, canon cfg fns name src = .ok (ents, E) :=
  ⟨fun h => loads_canon h name, fun ⟨_, _, h⟩ => (canon_names h).1⟩

theorem fragNames_of_not_loads {cfg : Cfg} {fns : List (String × FnSpec)} {src : String} (h : loads cfg fns src = false) :
    fragNames cfg fns src = [] := by
  unfold loads at h
  unfold fragNames
  split at h
  · cases h
  · rename_i hne
    split
    · rename_i ents E he; exact absurd he (hne _)
    · rfl

/-! ## the only failure of `addFile` on a file that compiles on its own is `.err` -/

/-- success or the plain error -/
def LoadRes.OkOrErr {α : Type} (r : LoadRes α) : Prop := r = .err ∨ ∃ a, r = .ok a

theorem defineHere_okOrErr (cfg : Cfg) (cx : Ctx) (d : NodeD) (kids : List Node) (tpls new : List (String × Node))
    (h : defOf cfg cx d kids = .ok new) :
    defineHere cfg cx d kids tpls = .err ∨ defineHere cfg cx d kids tpls = .ok (tpls ++ new) := by
  unfold defineHere
  unfold defOf at h
  cases hk : (d.kind == .tag)
  · simp only [hk] at h
    cases h; simp
  · simp only [hk, if_true] at h ⊢
    cases hf : d.attrs.find? (fun a => a.name == cfg.attrPrefix ++ "define") with
    | none => simp only [hf] at h; cases h; simp
    | some a =>
      simp only [hf] at h ⊢
      rcases hev : attrEvaluate cx a [emptyMap] with ⟨c | nameS, lg⟩
      · simp
      · simp only [hev] at h ⊢
        by_cases hu : lg.contains unsupportedEv = true
        · rw [if_pos hu] at h; cases h
        · rw [if_neg hu] at h ⊢
          cases h
          by_cases hn : tpls.any (·.1 == nameS) = true
          · rw [if_pos hn]; exact Or.inl rfl
          · rw [if_neg hn]; exact Or.inr rfl

theorem addDefined_okOrErr (cfg : Cfg) (cx : Ctx) : ∀ (n : Node) (tpls new : List (String × Node)),
    collect cfg cx n = .ok new →
      addDefined cfg cx n tpls = .err ∨ addDefined cfg cx n tpls = .ok (tpls ++ new) := by
  refine RN.Spec.Node.induct (PL := fun ks => ∀ (tpls new : List (String × Node)),
    collectL cfg cx ks = .ok new →
      addDefinedL cfg cx ks tpls = .err ∨ addDefinedL cfg cx ks tpls = .ok (tpls ++ new)) ?_ ?_ ?_
  · intro d kids e ih tpls new h
    rw [collect] at h
    obtain ⟨new1, new2, h1, h2, rfl⟩ := LoadRes.app_ok.mp h
    rw [addDefined]
    rcases defineHere_okOrErr cfg cx d kids tpls new1 h1 with hd | hd
    · simp [hd]
    · simp only [hd]
      rcases ih (tpls ++ new1) new2 h2 with hk | hk
      · exact Or.inl hk
      · exact Or.inr (by rw [hk, List.append_assoc])
  · intro tpls new h
    rw [collectL] at h
    cases h
    simp [addDefinedL]
  · intro k ks ih1 ih2 tpls new h
    rw [collectL] at h
    obtain ⟨new1, new2, h1, h2, rfl⟩ := LoadRes.app_ok.mp h
    rw [addDefinedL]
    rcases ih1 tpls new1 h1 with hd | hd
    · simp [hd]
    · simp only [hd]
      rcases ih2 (tpls ++ new1) new2 h2 with hk | hk
      · exact Or.inl hk
      · exact Or.inr (by rw [hk, List.append_assoc])

/-! ## the `define`s of a tree as `addDefinedTpl` meets them, a failing name included -/

/-- the `define` of one node (`defOf`): nothing, `some name`, or `none` when its name does not evaluate -/
def defNameOf (cfg : Cfg) (cx : Ctx) (d : NodeD) (kids : List Node) : List (Option String) :=
  match defOf cfg cx d kids with
  | .ok new => (names new).map some
  | _ => [none]

mutual
/-- the `define`s of a tree in the pre-order of `addDefined`: `some name` for a name that evaluates, `none` for one
    that does not (every one of them; `upToNone` cuts after the first) -/
def defSeq (cfg : Cfg) (cx : Ctx) : Node → List (Option String)
  | .mk d kids _ => defNameOf cfg cx d kids ++ defSeqL cfg cx kids
def defSeqL (cfg : Cfg) (cx : Ctx) : List Node → List (Option String)
  | [] => []
  | k :: ks => defSeq cfg cx k ++ defSeqL cfg cx ks
end

/-- cut after the first failing name: `addDefinedTpl` returns there, nothing behind it is looked at -/
def upToNone : List (Option String) → List (Option String)
  | [] => []
  | none :: _ => [none]
  | some d :: ds => some d :: upToNone ds

theorem definedNames_upToNone (l : List (Option String)) : FP.definedNames (upToNone l) = FP.definedNames l := by
  induction l with
  | nil => rfl
  | cons d l ih => cases d <;> simp [upToNone, ih]

theorem none_mem_upToNone (l : List (Option String)) : none ∈ upToNone l ↔ none ∈ l := by
  induction l with
  | nil => simp [upToNone]
  | cons d l ih => cases d <;> simp [upToNone, ih]

/-- nothing follows the first `none` -/
theorem upToNone_idem (l : List (Option String)) : upToNone (upToNone l) = upToNone l := by
  induction l with
  | nil => rfl
  | cons d l ih => cases d <;> simp [upToNone, ih]

theorem LoadRes.app_not_ok {α : Type} {r1 r2 : LoadRes (List α)} (h : ∀ l, r1.app r2 ≠ .ok l) :
    (∀ l, r1 ≠ .ok l) ∨ (∀ l, r2 ≠ .ok l) := by
  cases r1 with
  | ok l1 =>
    cases r2 with
    | ok l2 => exact absurd rfl (h (l1 ++ l2))
    | err => exact Or.inr (fun _ h => by cases h)
    | panic => exact Or.inr (fun _ h => by cases h)
    | unsupported => exact Or.inr (fun _ h => by cases h)
  | err => exact Or.inl (fun _ h => by cases h)
  | panic => exact Or.inl (fun _ h => by cases h)
  | unsupported => exact Or.inl (fun _ h => by cases h)

theorem defNameOf_ok {cfg : Cfg} {cx : Ctx} {d : NodeD} {kids : List Node} {new : List (String × Node)}
    (h : defOf cfg cx d kids = .ok new) : defNameOf cfg cx d kids = (names new).map some := by
  simp [defNameOf, h]

theorem defNameOf_not_ok {cfg : Cfg} {cx : Ctx} {d : NodeD} {kids : List Node}
    (h : ∀ new, defOf cfg cx d kids ≠ .ok new) : defNameOf cfg cx d kids = [none] := by
  unfold defNameOf
  split
  · rename_i new hn; exact absurd hn (h new)
  · rfl

/-- **`collect` and `defSeq`.** When every `define` name of the tree evaluates, `defSeq` lists the collected names; when
    `collect` fails, `defSeq` contains a `none` -/
theorem collect_defSeq (cfg : Cfg) (cx : Ctx) : ∀ n : Node,
    (∀ new, collect cfg cx n = .ok new → defSeq cfg cx n = (names new).map some) ∧
    ((∀ new, collect cfg cx n ≠ .ok new) → none ∈ defSeq cfg cx n) := by
  refine RN.Spec.Node.induct (PL := fun ks =>
    (∀ new, collectL cfg cx ks = .ok new → defSeqL cfg cx ks = (names new).map some) ∧
    ((∀ new, collectL cfg cx ks ≠ .ok new) → none ∈ defSeqL cfg cx ks)) ?_ ?_ ?_
  · intro d kids e ih
    rw [collect, defSeq]
    constructor
    · intro new h
      obtain ⟨new1, new2, h1, h2, rfl⟩ := LoadRes.app_ok.mp h
      rw [defNameOf_ok h1, ih.1 new2 h2]
      simp [names]
    · intro h
      rcases LoadRes.app_not_ok h with h1 | h2
      · rw [defNameOf_not_ok h1]; simp
      · exact List.mem_append_right _ (ih.2 h2)
  · rw [collectL, defSeqL]
    exact ⟨fun new h => by cases h; rfl, fun h => absurd rfl (h [])⟩
  · intro k ks ih1 ih2
    rw [collectL, defSeqL]
    constructor
    · intro new h
      obtain ⟨new1, new2, h1, h2, rfl⟩ := LoadRes.app_ok.mp h
      rw [ih1.1 new1 h1, ih2.1 new2 h2]
      simp [names]
    · intro h
      rcases LoadRes.app_not_ok h with h1 | h2
      · exact List.mem_append_left _ (ih1.2 h1)
      · exact List.mem_append_right _ (ih2.2 h2)

theorem collect_ok_iff (cfg : Cfg) (cx : Ctx) (n : Node) :
    (∃ new, collect cfg cx n = .ok new) ↔ none ∉ defSeq cfg cx n := by
  constructor
  · rintro ⟨new, h⟩
    rw [(collect_defSeq cfg cx n).1 new h]
    simp
  · intro h
    apply Classical.byContradiction
    intro hno
    exact h ((collect_defSeq cfg cx n).2 (fun new hn => hno ⟨new, hn⟩))

/-- every name evaluates and the names are fresh: `addDefined` registers exactly `definedNames (defSeq n)` -/
theorem addDefined_ok_of (cfg : Cfg) (cx : Ctx) (n : Node) (tpls : List (String × Node))
    (h1 : none ∉ defSeq cfg cx n) (h2 : Fresh (names tpls) (FP.definedNames (defSeq cfg cx n))) :
    ∃ new, addDefined cfg cx n tpls = .ok (tpls ++ new) ∧ names new = FP.definedNames (defSeq cfg cx n) := by
  obtain ⟨new, hc⟩ := (collect_ok_iff cfg cx n).mpr h1
  have hs := (collect_defSeq cfg cx n).1 new hc
  rw [hs, FP.definedNames_map_some] at h2 ⊢
  exact ⟨new, (addDefined_iff cfg cx n tpls _).mpr ⟨new, hc, h2, rfl⟩, rfl⟩

/-- `defSeq` does not depend on the numbering of the expressions and nodes -/
theorem defNameOf_map (cfg : Cfg) (cx cx' : Ctx) (f g : Nat → Nat) (hg : g 0 = 0)
    (hev : ∀ a sc, attrEvaluate cx' (mapAttr f a) sc = attrEvaluate cx a sc) (d : NodeD) (kids : List Node) :
    defNameOf cfg cx' (mapD f g d) (kids.map (mapNode f g)) = defNameOf cfg cx d kids := by
  unfold defNameOf
  rw [defOf_map cfg cx cx' f g hg hev]
  cases defOf cfg cx d kids <;> simp [LoadRes.map, names, mapEntry, Function.comp_def]

theorem defSeq_map (cfg : Cfg) (cx cx' : Ctx) (f g : Nat → Nat) (hg : g 0 = 0)
    (hev : ∀ a sc, attrEvaluate cx' (mapAttr f a) sc = attrEvaluate cx a sc) : ∀ n : Node,
    defSeq cfg cx' (mapNode f g n) = defSeq cfg cx n := by
  refine RN.Spec.Node.induct (PL := fun ks => defSeqL cfg cx' (ks.map (mapNode f g)) = defSeqL cfg cx ks) ?_ ?_ ?_
  · intro d kids e ih
    rw [mapNode_mk, defSeq, defSeq, defNameOf_map cfg cx cx' f g hg hev, ih]
  · rfl
  · intro k ks ih1 ih2
    rw [List.map_cons, defSeqL, defSeqL, ih1, ih2]

/-- **a name clash in front of the first failing name is `.err`**, whatever follows: `addDefined` meets the clash first -/
theorem addDefined_clash (cfg : Cfg) (cx : Ctx) : ∀ (n : Node) (tpls : List (String × Node)),
    ¬ Fresh (names tpls) (FP.definedNames (defSeq cfg cx n)) → addDefined cfg cx n tpls = .err := by
  refine RN.Spec.Node.induct (PL := fun ks => ∀ tpls : List (String × Node),
    ¬ Fresh (names tpls) (FP.definedNames (defSeqL cfg cx ks)) → addDefinedL cfg cx ks tpls = .err) ?_ ?_ ?_
  · intro d kids e ih tpls h
    rw [defSeq] at h
    rw [addDefined]
    by_cases hex : ∃ new1, defOf cfg cx d kids = .ok new1
    · obtain ⟨new1, hdo⟩ := hex
      rw [defNameOf_ok hdo, FP.definedNames_append_of_not_mem (by simp), FP.definedNames_map_some] at h
      rcases defineHere_okOrErr cfg cx d kids tpls new1 hdo with hd | hd
      · simp [hd]
      · simp only [hd]
        apply ih
        have hfr : Fresh (names tpls) (names new1) := by
          obtain ⟨new, h1, h2, _⟩ := (defineHere_iff cfg cx d kids tpls _).mp hd
          rw [hdo] at h1; cases h1; exact h2
        intro hf
        apply h
        rw [Fresh_append]
        exact ⟨hfr, by simpa [names] using hf⟩
    · rw [defNameOf_not_ok (fun new hn => hex ⟨new, hn⟩)] at h
      simp [Fresh] at h
  · intro tpls h
    simp [defSeqL, Fresh] at h
  · intro k ks ih1 ih2 tpls h
    rw [defSeqL] at h
    rw [addDefinedL]
    by_cases hn : none ∈ defSeq cfg cx k
    · rw [FP.definedNames_append_of_mem hn] at h
      rw [ih1 tpls h]
    · rw [FP.definedNames_append_of_not_mem hn, Fresh_append] at h
      by_cases hf : Fresh (names tpls) (FP.definedNames (defSeq cfg cx k))
      · obtain ⟨new, h1, h2⟩ := addDefined_ok_of cfg cx k tpls hn hf
        simp only [h1]
        apply ih2
        intro hf2
        apply h
        refine ⟨hf, ?_⟩
        rw [← h2]
        simpa [names] using hf2
      · rw [ih1 tpls hf]

/-- a file that compiles on its own is added, or rejected with `.err`: never `.panic`, never `.unsupported` -/
theorem addFile_okOrErr (cfg : Cfg) (fns : List (String × FnSpec)) (i : Nat) (name src : String) (m : Mgr)
    (h : loads cfg fns src = true) : (addFile cfg fns i name src m).OkOrErr := by
  obtain ⟨ents, E, hc⟩ := loads_canon h name
  unfold addFile
  unfold canon at hc
  by_cases hany : m.templates.any (·.1 == name) = true
  · rw [if_pos hany]; exact Or.inl rfl
  · rw [if_neg hany]
    cases hs : HS.scan (scanCfg cfg) src.toList with
    | error e => cases e <;> simp [hs] at hc
    | ok toks =>
      simp only [hs] at hc ⊢
      rw [buildTreeS_shift]
      rcases hb : buildTreeS cfg 0 toks #[] with ⟨r0, E0⟩
      rw [hb] at hc
      cases r0 with
      | ok root0 =>
        simp only [canonOf] at hc
        obtain ⟨new0, h3, _⟩ := LoadRes.map_ok.mp hc
        simp only [registerFile, shiftRes, LoadRes.map]
        rw [annotate_mapNode]
        have hcol : collect cfg ⟨m.cx.exprs ++ E0, fns⟩
            (mapNode (m.cx.exprs.size + ·) (gId (i * 100000)) (annotate root0)) =
              .ok (new0.map (mapEntry (m.cx.exprs.size + ·) (gId (i * 100000)))) := by
          rw [collect_map cfg ⟨E0, fns⟩ _ _ _ rfl (attrEvaluate_shift fns m.cx.exprs E0), h3]; rfl
        rcases addDefined_okOrErr cfg _ _
          (m.templates ++ [(name, mapNode (m.cx.exprs.size + ·) (gId (i * 100000)) (annotate root0))]) _ hcol with hk | hk
        · rw [hk]; exact Or.inl rfl
        · rw [hk]; exact Or.inr ⟨_, rfl⟩
      | err => simp [canonOf] at hc
      | panic => simp [canonOf] at hc
      | unsupported => simp [canonOf] at hc

/-- **duplicate = `.err`.** A file that compiles on its own and whose names (file name, then fragment names in document
    order) are not all fresh is rejected with `.err` -/
theorem addFile_dup_err (cfg : Cfg) (fns : List (String × FnSpec)) (i : Nat) (name src : String) (m : Mgr)
    (h : loads cfg fns src = true) (hd : ¬ Fresh (names m.templates) (name :: fragNames cfg fns src)) :
    addFile cfg fns i name src m = .err := by
  rcases addFile_okOrErr cfg fns i name src m h with he | ⟨m1, hm1⟩
  · exact he
  · obtain ⟨ents, E, h1, h2, _⟩ := (addFile_ok_iff cfg fns i name src m m1).mp hm1
    rw [(canon_names h1).2] at h2
    exact absurd h2 hd

/-- a file whose own name is taken is rejected with `.err` before it is scanned (whatever its content) -/
theorem addFile_name_taken (cfg : Cfg) (fns : List (String × FnSpec)) (i : Nat) (name src : String) (m : Mgr)
    (h : name ∈ names m.templates) : addFile cfg fns i name src m = .err := by
  unfold addFile
  rw [if_pos ((any_name _ _).mpr h)]

/-- `addFile`, on names: success iff the source compiles on its own and its names are fresh; then the registry grows by
    exactly those names and the file list by the file name -/
theorem addFile_ok_names (cfg : Cfg) (fns : List (String × FnSpec)) (i : Nat) (name src : String) (m : Mgr) :
    (∃ m1, addFile cfg fns i name src m = .ok m1) ↔
      loads cfg fns src = true ∧ Fresh (names m.templates) (name :: fragNames cfg fns src) := by
  constructor
  · rintro ⟨m1, h⟩
    obtain ⟨ents, E, h1, h2, _⟩ := (addFile_ok_iff cfg fns i name src m m1).mp h
    obtain ⟨h3, h4⟩ := canon_names h1
    exact ⟨h3, h4 ▸ h2⟩
  · rintro ⟨h1, h2⟩
    obtain ⟨ents, E, hc⟩ := loads_canon h1 name
    exact ⟨_, (addFile_ok_iff cfg fns i name src m _).mpr ⟨ents, E, hc, (canon_names hc).2 ▸ h2, rfl⟩⟩

theorem addFile_names {cfg : Cfg} {fns : List (String × FnSpec)} {i : Nat} {name src : String} {m m1 : Mgr}
    (h : addFile cfg fns i name src m = .ok m1) :
    names m1.templates = names m.templates ++ name :: fragNames cfg fns src ∧ m1.files = m.files ++ [name] := by
  obtain ⟨ents, E, h1, _, rfl⟩ := (addFile_ok_iff cfg fns i name src m m1).mp h
  refine ⟨?_, rfl⟩
  rw [← (canon_names h1).2]
  simp [extend, names, mapEntry, Function.comp_def]

/-! ## a source text in two steps: scan + tree building (`parsed`), then the `define`s (`defsOf`) -/

def parsedOf (r : LoadRes Node × Tbl) : Option (Node × Tbl) :=
  match r.1 with
  | .ok root0 => some (annotate root0, r.2)
  | _ => none

/-- what `Add` does before it registers the file: scanning, compiling every `${…}`, tree building — on the empty
    expression table with file index 0, as in `canon`.  No `define` name is evaluated here. -/
def parsed (cfg : Cfg) (src : String) : Option (Node × Tbl) :=
  match HS.scan (scanCfg cfg) src.toList with
  | .ok toks => parsedOf (buildTreeS cfg 0 toks #[])
  | .error _ => none

/-- scanning and tree building succeed (`GetAllTokens`, `ParseTokens`) -/
def parses (cfg : Cfg) (src : String) : Bool := (parsed cfg src).isSome

/-- the `define`s of a source in the pre-order of `addDefinedTpl`: `some name` for each one whose name evaluates, `none` at
    the first one whose name does not, and nothing behind it; `[]` when the source does not parse -/
def defsOf (cfg : Cfg) (fns : List (String × FnSpec)) (src : String) : List (Option String) :=
  match parsed cfg src with
  | some p => upToNone (defSeq cfg ⟨p.2, fns⟩ p.1)
  | none => []

/-- the fragment names in front of the first failing `define` name (all fragment names if none fails) -/
def definedBy (cfg : Cfg) (fns : List (String × FnSpec)) (src : String) : List String :=
  FP.definedNames (defsOf cfg fns src)

/-- some `define` name of the source fails to evaluate -/
def nameFails (cfg : Cfg) (fns : List (String × FnSpec)) (src : String) : Bool := (defsOf cfg fns src).contains none

theorem canon_of_parsed {cfg : Cfg} {fns : List (String × FnSpec)} {name src : String} {root : Node} {E : Tbl}
    (h : parsed cfg src = some (root, E)) :
    canon cfg fns name src = (collect cfg ⟨E, fns⟩ root).map fun new => ((name, root) :: new, E) := by
  unfold parsed at h
  unfold canon
  cases hs : HS.scan (scanCfg cfg) src.toList with
  | error e => simp [hs] at h
  | ok toks =>
    simp only [hs] at h ⊢
    rcases hb : buildTreeS cfg 0 toks #[] with ⟨r0, E0⟩
    rw [hb] at h
    cases r0 <;> simp [parsedOf] at h
    obtain ⟨rfl, rfl⟩ := h
    simp [canonOf]

theorem canon_of_not_parsed {cfg : Cfg} {fns : List (String × FnSpec)} {name src : String}
    (h : parsed cfg src = none) : ∀ x, canon cfg fns name src ≠ .ok x := by
  intro x hx
  unfold parsed at h
  unfold canon at hx
  cases hs : HS.scan (scanCfg cfg) src.toList with
  | error e => cases e <;> simp [hs] at hx
  | ok toks =>
    simp only [hs] at h hx
    rcases hb : buildTreeS cfg 0 toks #[] with ⟨r0, E0⟩
    rw [hb] at h hx
    cases r0 <;> simp [parsedOf, canonOf] at h hx

/-- `addFile` on a source that parses and whose name is free: the file is registered, then `addDefined` runs on the
    renumbered tree -/
theorem addFile_of_parsed (cfg : Cfg) (fns : List (String × FnSpec)) (i : Nat) (name src : String) (m : Mgr)
    {root : Node} {E : Tbl} (hn : name ∉ names m.templates) (h : parsed cfg src = some (root, E)) :
    addFile cfg fns i name src m =
      withTemplates m name ⟨m.cx.exprs ++ E, fns⟩
        (addDefined cfg ⟨m.cx.exprs ++ E, fns⟩ (mapNode (m.cx.exprs.size + ·) (gId (i * 100000)) root)
          (m.templates ++ [(name, mapNode (m.cx.exprs.size + ·) (gId (i * 100000)) root)])) := by
  unfold parsed at h
  unfold addFile
  rw [if_neg (fun hany => hn ((any_name _ _).mp hany))]
  cases hs : HS.scan (scanCfg cfg) src.toList with
  | error e => simp [hs] at h
  | ok toks =>
    simp only [hs] at h ⊢
    rw [buildTreeS_shift]
    rcases hb : buildTreeS cfg 0 toks #[] with ⟨r0, E0⟩
    rw [hb] at h
    cases r0 <;> simp [parsedOf] at h
    obtain ⟨rfl, rfl⟩ := h
    simp only [registerFile, shiftRes, LoadRes.map]
    rw [annotate_mapNode]

/-- **compiles on its own = parses and no `define` name fails** -/
theorem loads_iff_parses (cfg : Cfg) (fns : List (String × FnSpec)) (src : String) :
    loads cfg fns src = true ↔ parses cfg src = true ∧ nameFails cfg fns src = false := by
  rw [loads_iff cfg fns "" src]
  unfold parses nameFails defsOf
  cases hp : parsed cfg src with
  | none =>
    simp only [Option.isSome_none, Bool.false_eq_true, false_and, iff_false]
    rintro ⟨ents, E, h⟩
    exact canon_of_not_parsed hp _ h
  | some p =>
    obtain ⟨root, E⟩ := p
    rw [canon_of_parsed hp]
    simp only [Option.isSome_some, true_and]
    have hmem : (upToNone (defSeq cfg ⟨E, fns⟩ root)).contains none = false ↔ none ∉ defSeq cfg ⟨E, fns⟩ root := by
      rw [← none_mem_upToNone]; simp
    rw [hmem, ← collect_ok_iff]
    constructor
    · rintro ⟨ents, E', h⟩
      obtain ⟨new, h1, _⟩ := LoadRes.map_ok.mp h
      exact ⟨new, h1⟩
    · rintro ⟨new, h1⟩
      exact ⟨_, _, LoadRes.map_ok.mpr ⟨new, h1, rfl⟩⟩

/-- on a source that compiles on its own the two notions of "its fragment names" coincide -/
theorem fragNames_eq_definedBy {cfg : Cfg} {fns : List (String × FnSpec)} {src : String} (h : loads cfg fns src = true) :
    fragNames cfg fns src = definedBy cfg fns src := by
  have hp := ((loads_iff_parses cfg fns src).mp h).1
  unfold parses at hp
  cases hpp : parsed cfg src with
  | none => simp [hpp] at hp
  | some p =>
    obtain ⟨root, E⟩ := p
    obtain ⟨ents, E', hc⟩ := loads_canon h ""
    have hc' := hc
    rw [canon_of_parsed hpp] at hc'
    obtain ⟨new, h1, h2⟩ := LoadRes.map_ok.mp hc'
    cases h2
    unfold fragNames definedBy defsOf
    simp only [hc, hpp]
    rw [definedNames_upToNone, (collect_defSeq cfg ⟨E, fns⟩ root).1 new h1, FP.definedNames_map_some]
    rfl

/-- **a name clash in front of the first failing `define` name = `.err`.** A file that parses and whose names — file name,
    then the fragment names in document order as far as the first `define` whose name fails — are not all fresh is rejected
    with `.err`, whatever comes behind the clash (generalises `addFile_dup_err` to sources that do not compile on their own) -/
theorem addFile_clash_err (cfg : Cfg) (fns : List (String × FnSpec)) (i : Nat) (name src : String) (m : Mgr)
    (h : parses cfg src = true) (hd : ¬ Fresh (names m.templates) (name :: definedBy cfg fns src)) :
    addFile cfg fns i name src m = .err := by
  by_cases hn : name ∈ names m.templates
  · exact addFile_name_taken cfg fns i name src m hn
  · unfold parses at h
    cases hpp : parsed cfg src with
    | none => simp [hpp] at h
    | some p =>
      obtain ⟨root, E⟩ := p
      rw [addFile_of_parsed cfg fns i name src m hn hpp]
      have hd' : ¬ Fresh (names m.templates ++ [name]) (definedBy cfg fns src) := fun hf => hd ⟨hn, hf⟩
      have hdef : definedBy cfg fns src = FP.definedNames (defSeq cfg ⟨E, fns⟩ root) := by
        unfold definedBy defsOf
        simp only [hpp]
        exact definedNames_upToNone _
      rw [addDefined_clash cfg ⟨m.cx.exprs ++ E, fns⟩ _ _ ?_]
      · rfl
      · rw [defSeq_map cfg ⟨E, fns⟩ _ _ _ rfl (attrEvaluate_shift fns m.cx.exprs E), ← hdef]
        simpa [names] using hd'

/-! ## `loadFrom` over a concatenation -/

theorem loadFrom_append_ok (cfg : Cfg) (fns : List (String × FnSpec)) : ∀ (a b : List (String × String)) (i : Nat) (m m1 : Mgr),
    loadFrom cfg fns i a m = .ok m1 → loadFrom cfg fns i (a ++ b) m = loadFrom cfg fns (i + a.length) b m1
  | [], b, i, m, m1, h => by
    simp only [loadFrom] at h; cases h; simp
  | f :: a, b, i, m, m1, h => by
    simp only [loadFrom, List.cons_append] at h ⊢
    cases hf : addFile cfg fns (i + 1) f.1 f.2 m with
    | ok m' =>
      simp only [hf] at h ⊢
      rw [loadFrom_append_ok cfg fns a b (i + 1) m' m1 h]
      congr 1
      simp only [List.length_cons]; omega
    | err => simp [hf] at h
    | panic => simp [hf] at h
    | unsupported => simp [hf] at h

/-- the first file that is not added decides: the result is that file's failure, the rest is not looked at -/
theorem loadFrom_cons_fail (cfg : Cfg) (fns : List (String × FnSpec)) (i : Nat) (f : String × String)
    (rest : List (String × String)) (m : Mgr) (h : ∀ m1, addFile cfg fns (i + 1) f.1 f.2 m ≠ .ok m1) :
    loadFrom cfg fns i (f :: rest) m = addFile cfg fns (i + 1) f.1 f.2 m := by
  simp only [loadFrom]
  cases hf : addFile cfg fns (i + 1) f.1 f.2 m with
  | ok m' => exact absurd hf (h m')
  | err => rfl
  | panic => rfl
  | unsupported => rfl

end EN

namespace FP
open EN (Fresh names)

/-! ## `addDefines` is `Fresh` -/

theorem addDefines_ok_iff_fresh (s : State) (ds : List (Option String)) :
    (addDefines s ds).1 = .ok ↔ ds.contains none = false ∧ Fresh s.templates (definedNames ds) := by
  rw [addDefines_ok_iff, EN.Fresh_iff]

theorem addDefines_load_iff_fresh (s : State) (ds : List (Option String)) :
    (addDefines s ds).1 = .err .load ↔ ds.contains none = true ∧ Fresh s.templates (definedNames ds) := by
  rw [addDefines_load_iff, EN.Fresh_iff]

theorem addDefines_dup_iff_fresh (s : State) (ds : List (Option String)) :
    (addDefines s ds).1 = .err .duplicate ↔ ¬ Fresh s.templates (definedNames ds) := by
  rw [EN.Fresh_iff, addDefines_fst]
  by_cases hP : (definedNames ds).Nodup ∧ ∀ d ∈ definedNames ds, d ∉ s.templates
  · rw [if_pos hP]
    cases ds.contains none <;> simp [hP.1] <;> exact hP.2
  · rw [if_neg hP]
    simp only [true_iff]
    exact hP

theorem add_ok_iff_fresh (s : State) (n : String) (c : Content) :
    (add s n c).1 = .ok ↔ c.loadErr = false ∧ c.nameErr = false ∧ Fresh s.templates (n :: definedNames c.defines) := by
  unfold add
  split
  · rename_i h; simp [Fresh, h]
  · rename_i h
    split
    · rename_i hl; simp [hl]
    · rename_i hl
      rw [addDefines_ok_iff_fresh]
      simp [Fresh, h, hl, Content.nameErr]

/-! ## what `add` leaves registered, in every outcome -/

/-- the fragments `addDefines` registers on top of `base`, given the names in front of the first failing one: up to, not
    including, the first name that is taken -/
def regPrefix (base : List String) : List String → List String
  | [] => []
  | d :: ds => if d ∈ base then [] else d :: regPrefix (base ++ [d]) ds

theorem addDefines_templates_eq (s : State) (ds : List (Option String)) :
    (addDefines s ds).2.templates = s.templates ++ regPrefix s.templates (definedNames ds) := by
  induction ds generalizing s with
  | nil => simp [addDefines, regPrefix]
  | cons d ds ih =>
    cases d with
    | none => simp [addDefines, regPrefix]
    | some d =>
      rw [addDefines, definedNames_some, regPrefix]
      split
      · simp
      · rw [ih]; simp

theorem regPrefix_of_fresh {base ds : List String} (h : Fresh base ds) : regPrefix base ds = ds := by
  induction ds generalizing base with
  | nil => rfl
  | cons d ds ih =>
    obtain ⟨h1, h2⟩ := h
    simp [regPrefix, h1, ih h2]

theorem regPrefix_prefix (base ds : List String) : regPrefix base ds <+: ds := by
  induction ds generalizing base with
  | nil => simp [regPrefix]
  | cons d ds ih =>
    unfold regPrefix
    split
    · simp
    · exact (List.prefix_cons_inj d).mpr (ih _)

/-- the state after `Add`, in EVERY outcome: nothing new when the name is taken or the file does not load; otherwise the
    file and — of the fragments in front of the first failing `define` name — those up to the first taken name (all of them
    when the failure is that failing name); the logs are untouched -/
theorem add_state (s : State) (n : String) (c : Content) :
    (add s n c).2.templates = s.templates ++
      (if n ∈ s.templates ∨ c.loadErr = true then []
       else n :: regPrefix (s.templates ++ [n]) (definedNames c.defines)) ∧
    (add s n c).2.files = s.files ++ (if n ∈ s.templates ∨ c.loadErr = true then [] else [n]) ∧
    (add s n c).2.opens = s.opens ∧ (add s n c).2.closes = s.closes := by
  refine ⟨?_, ?_, (add_frame s n c).1, (add_frame s n c).2⟩
  · unfold add
    by_cases h1 : n ∈ s.templates
    · simp [h1]
    · by_cases h2 : c.loadErr = true
      · simp [h1, h2]
      · rw [if_neg h1, if_neg h2, addDefines_templates_eq]
        simp [h1, h2]
  · unfold add
    by_cases h1 : n ∈ s.templates
    · simp [h1]
    · by_cases h2 : c.loadErr = true
      · simp [h1, h2]
      · rw [if_neg h1, if_neg h2, (addDefines_frame _ _).1]
        simp [h1, h2]

/-! ## the instantiation -/

/-- **the `Content` of a source text**, computed by the concrete loader: `loadErr` iff scanning or tree building fails
    (`EN.parses`: what `Add` does BEFORE it registers the file); `defines` are the `define`s in the pre-order of
    `EN.addDefined`, `some name` for each name that evaluates and `none` at the first one that does not (`EN.defsOf`: what
    `addDefinedTpl` meets AFTER the file was registered).  Neither depends on the name of the file. -/
def contentOf (cfg : EN.Cfg) (fns : List (String × EV.FnSpec)) (src : String) : Content :=
  { loadErr := !EN.parses cfg src, defines := EN.defsOf cfg fns src }

theorem contentOf_nameErr (cfg : EN.Cfg) (fns : List (String × EV.FnSpec)) (src : String) :
    (contentOf cfg fns src).nameErr = EN.nameFails cfg fns src := rfl

theorem contentOf_names (cfg : EN.Cfg) (fns : List (String × EV.FnSpec)) (src : String) :
    definedNames (contentOf cfg fns src).defines = EN.definedBy cfg fns src := rfl

/-- the content says "no fault" exactly when the source compiles on its own -/
theorem contentOf_clean_iff (cfg : EN.Cfg) (fns : List (String × EV.FnSpec)) (src : String) :
    ((contentOf cfg fns src).loadErr = false ∧ (contentOf cfg fns src).nameErr = false) ↔ EN.loads cfg fns src = true := by
  rw [EN.loads_iff_parses, contentOf_nameErr]
  simp [contentOf]

/-- a fault-free file tree of source texts, as the walk meets it: directories and files with their text -/
structure Src where
  path : String
  isDir : Bool := false
  src : String := ""
deriving Repr, DecidableEq

def entryOf (cfg : EN.Cfg) (fns : List (String × EV.FnSpec)) (x : Src) : Entry :=
  { path := x.path, isDir := x.isDir, content := contentOf cfg fns x.src }

def entriesOf (cfg : EN.Cfg) (fns : List (String × EV.FnSpec)) (xs : List Src) : List Entry := xs.map (entryOf cfg fns)

/-- the (path, source) pairs of the accepted files, walk order: what is handed to `EN.loadFiles` -/
def visited (mt : String → Bool) (xs : List Src) : List (String × String) :=
  (xs.filter fun x => !x.isDir && mt x.path).map fun x => (x.path, x.src)

theorem visited_nil (mt : String → Bool) : visited mt [] = [] := rfl

theorem visited_cons (mt : String → Bool) (x : Src) (xs : List Src) :
    visited mt (x :: xs) = (if (!x.isDir && mt x.path) = true then [(x.path, x.src)] else []) ++ visited mt xs := by
  unfold visited
  cases h : (!x.isDir && mt x.path) <;> simp [h]

theorem visited_append (mt : String → Bool) (xs ys : List Src) : visited mt (xs ++ ys) = visited mt xs ++ visited mt ys := by
  simp [visited]

theorem entriesOf_append (cfg : EN.Cfg) (fns : List (String × EV.FnSpec)) (xs ys : List Src) :
    entriesOf cfg fns (xs ++ ys) = entriesOf cfg fns xs ++ entriesOf cfg fns ys := by
  simp [entriesOf]

theorem entryOf_accepted (cfg : EN.Cfg) (fns : List (String × EV.FnSpec)) (mt : String → Bool) (x : Src) :
    (entryOf cfg fns x).accepted mt = (!x.isDir && mt x.path) := rfl

/-- the accepted paths of the entries are the names handed to the loader -/
theorem acceptedPaths_entriesOf (cfg : EN.Cfg) (fns : List (String × EV.FnSpec)) (mt : String → Bool) (xs : List Src) :
    acceptedPaths mt (entriesOf cfg fns xs) = (visited mt xs).map (·.1) := by
  induction xs with
  | nil => rfl
  | cons x xs ih =>
    rw [entriesOf, List.map_cons, acceptedPaths_cons, visited_cons, ← entriesOf, ih, entryOf_accepted]
    cases (!x.isDir && mt x.path) <;> simp [entryOf]

/-- the names requested by the entries: each visited file's path followed by its fragment names (those in front of the
    first failing `define` name) -/
theorem allNames_entriesOf (cfg : EN.Cfg) (fns : List (String × EV.FnSpec)) (mt : String → Bool) (xs : List Src) :
    allNames mt (entriesOf cfg fns xs) = (visited mt xs).flatMap fun f => f.1 :: EN.definedBy cfg fns f.2 := by
  induction xs with
  | nil => rfl
  | cons x xs ih =>
    rw [entriesOf, List.map_cons, allNames_cons, visited_cons, ← entriesOf, ih, entryOf_accepted]
    cases (!x.isDir && mt x.path) <;> simp [entryOf, Entry.names, contentOf_names]

/-- the entries built from a source tree carry no file-system fault; the only fault left is a file that does not compile on
    its own (it does not parse, or the name of one of its `define`s does not evaluate) -/
theorem noFsFault_entriesOf (cfg : EN.Cfg) (fns : List (String × EV.FnSpec)) (mt : String → Bool) (xs : List Src) :
    NoFsFault mt (entriesOf cfg fns xs) ↔ ∀ f ∈ visited mt xs, EN.loads cfg fns f.2 = true := by
  simp only [NoFsFault, entriesOf, visited, List.mem_map, List.mem_filter]
  constructor
  · rintro h f ⟨x, ⟨hx, ha⟩, rfl⟩
    have := (h _ ⟨x, hx, rfl⟩).2 (by rw [entryOf_accepted]; exact ha)
    exact (contentOf_clean_iff cfg fns x.src).mp this.2
  · rintro h e ⟨x, hx, rfl⟩
    refine ⟨rfl, fun ha => ⟨rfl, ?_⟩⟩
    rw [entryOf_accepted] at ha
    have := h (x.path, x.src) ⟨x, ⟨hx, ha⟩, rfl⟩
    exact (contentOf_clean_iff cfg fns x.src).mpr this

/-! ## the simulation -/

/-- the FP registry and the EN manager agree: the same names in the same order, the same files -/
def Sim (s : State) (m : EN.Mgr) : Prop := s.templates = names m.templates ∧ s.files = m.files

theorem sim_empty (cfg : EN.Cfg) (fns : List (String × EV.FnSpec)) : Sim {} (EN.emptyMgr cfg fns) := ⟨rfl, rfl⟩

/-- **one file.** From agreeing registries, `FP.add` on the content computed from the text succeeds iff `EN.addFile`
    on the text does (under any file number), and then the registries agree again. -/
theorem add_sim (cfg : EN.Cfg) (fns : List (String × EV.FnSpec)) (i : Nat) (name src : String) (s : State) (m : EN.Mgr)
    (h : Sim s m) :
    ((add s name (contentOf cfg fns src)).1 = .ok ↔ ∃ m1, EN.addFile cfg fns i name src m = .ok m1) ∧
    ∀ m1, EN.addFile cfg fns i name src m = .ok m1 → Sim (add s name (contentOf cfg fns src)).2 m1 := by
  have hiff : (add s name (contentOf cfg fns src)).1 = .ok ↔ ∃ m1, EN.addFile cfg fns i name src m = .ok m1 := by
    rw [add_ok_iff_fresh, EN.addFile_ok_names, h.1, ← and_assoc, contentOf_clean_iff, contentOf_names]
    constructor
    · rintro ⟨hl, hf⟩; exact ⟨hl, EN.fragNames_eq_definedBy hl ▸ hf⟩
    · rintro ⟨hl, hf⟩; exact ⟨hl, EN.fragNames_eq_definedBy hl ▸ hf⟩
  refine ⟨hiff, fun m1 hm1 => ?_⟩
  have hok := hiff.mpr ⟨m1, hm1⟩
  obtain ⟨h1, h2⟩ := add_ok s name _ hok
  obtain ⟨h3, h4⟩ := EN.addFile_names hm1
  have hl := (EN.addFile_ok_names cfg fns i name src m).mp ⟨m1, hm1⟩
  exact ⟨by rw [h2, h3, h.1, contentOf_names, EN.fragNames_eq_definedBy hl.1], by rw [h1, h4, h.2]⟩

/-- the result of `add` when it fails, on the loader's notions, in the order in which `Add` meets the conditions:
    `duplicate` when the file name is taken; else `load` when the text does not parse; else `duplicate` when one of the
    fragment names in front of the first failing `define` name is taken (by an earlier file, an earlier fragment, the file
    itself); else `load` when a `define` name fails to evaluate; else success -/
theorem add_err_kind (cfg : EN.Cfg) (fns : List (String × EV.FnSpec)) (name src : String) (s : State) :
    (add s name (contentOf cfg fns src)).1 =
      if name ∈ s.templates then .err .duplicate
      else if EN.parses cfg src = false then .err .load
      else if Fresh s.templates (name :: EN.definedBy cfg fns src) then
        (if EN.nameFails cfg fns src then .err .load else .ok)
      else .err .duplicate := by
  by_cases h1 : name ∈ s.templates
  · simp [add, h1]
  · by_cases h2 : EN.parses cfg src = false
    · simp [add, h1, contentOf, h2]
    · rw [if_neg h1, if_neg h2]
      have hl : (contentOf cfg fns src).loadErr = false := by simpa [contentOf] using h2
      have hfr : Fresh s.templates (name :: EN.definedBy cfg fns src) ↔
          Fresh (s.templates ++ [name]) (definedNames (contentOf cfg fns src).defines) := by
        rw [contentOf_names]; simp [Fresh, h1]
      unfold add
      rw [if_neg h1, hl]
      simp only [Bool.false_eq_true, if_false]
      by_cases h3 : Fresh s.templates (name :: EN.definedBy cfg fns src)
      · rw [if_pos h3]
        cases hnf : EN.nameFails cfg fns src
        · exact (addDefines_ok_iff_fresh _ _).mpr ⟨hnf, hfr.mp h3⟩
        · exact (addDefines_load_iff_fresh _ _).mpr ⟨hnf, hfr.mp h3⟩
      · rw [if_neg h3]
        exact (addDefines_dup_iff_fresh _ _).mpr (fun hf => h3 (hfr.mpr hf))

theorem visit_entryOf (cfg : EN.Cfg) (fns : List (String × EV.FnSpec)) (mt : String → Bool) (s : State) (x : Src) :
    visit mt s (entryOf cfg fns x) =
      if (!x.isDir && mt x.path) = true then
        closeFile x.path (add { s with opens := s.opens ++ [x.path] } x.path (contentOf cfg fns x.src))
      else (.ok, s) := by
  unfold visit entryOf
  cases hd : x.isDir <;> cases hm : mt x.path <;> simp

/-- **the walk.** From agreeing registries, the walk over the entries of a source tree succeeds iff the loader succeeds on
    the visited files (numbered from any `i`), and then the registries agree. -/
theorem walk_sim (cfg : EN.Cfg) (fns : List (String × EV.FnSpec)) (mt : String → Bool) :
    ∀ (xs : List Src) (i : Nat) (s : State) (m : EN.Mgr), Sim s m →
      ((walk mt s (entriesOf cfg fns xs)).1 = .ok ↔ ∃ m', EN.loadFrom cfg fns i (visited mt xs) m = .ok m') ∧
      ∀ m', EN.loadFrom cfg fns i (visited mt xs) m = .ok m' → Sim (walk mt s (entriesOf cfg fns xs)).2 m'
  | [], i, s, m, h => by
    simp only [entriesOf, List.map_nil, walk, visited_nil, EN.loadFrom]
    exact ⟨by simp, fun m' hm' => by cases hm'; exact h⟩
  | x :: xs, i, s, m, h => by
    rw [entriesOf, List.map_cons, ← entriesOf, visited_cons]
    have hv := visit_entryOf cfg fns mt s x
    by_cases ha : (!x.isDir && mt x.path) = true
    · rw [if_pos ha] at hv ⊢
      obtain ⟨a1, a2⟩ := add_sim cfg fns (i + 1) x.path x.src { s with opens := s.opens ++ [x.path] } m h
      simp only [List.singleton_append, EN.loadFrom]
      rcases hadd : add { s with opens := s.opens ++ [x.path] } x.path (contentOf cfg fns x.src) with ⟨r, s'⟩
      rw [hadd] at hv a1 a2
      simp only [closeFile] at hv
      cases r with
      | ok =>
        obtain ⟨m1, hm1⟩ := a1.mp rfl
        have hs' : Sim { s' with closes := s'.closes ++ [x.path] } m1 := a2 m1 hm1
        rw [walk_cons_ok _ hv]
        simp only [hm1]
        exact walk_sim cfg fns mt xs (i + 1) _ m1 hs'
      | err k =>
        rw [walk_cons_err _ hv]
        have hno : ∀ m1, EN.addFile cfg fns (i + 1) x.path x.src m ≠ .ok m1 :=
          fun m1 hm1 => by have := a1.mpr ⟨m1, hm1⟩; cases this
        cases hf : EN.addFile cfg fns (i + 1) x.path x.src m with
        | ok m1 => exact absurd hf (hno m1)
        | err => simp
        | panic => simp
        | unsupported => simp
    · rw [if_neg ha] at hv ⊢
      rw [walk_cons_ok _ hv, List.nil_append]
      exact walk_sim cfg fns mt xs i s m h

end FP
