import TplModel.Proofs.TagRescan
import TplModel.Proofs.ScanFrame
/-! # Scanning a re-printed document cuts it at the same token boundaries

Let `scan cfg src = toks`, and let `parts` be one text per token, where every part is the token's text VERBATIM or —
for a tag token — the re-printed tag (`tagPrint`: name and attributes separated by single blanks).  Then scanning the
concatenation of the parts succeeds and yields, token for token, the same kinds, the same tag names and attribute
names / values, and the parts as token texts (`rescan_parts`).

Proof: an invariant `J` over the run of the scanner on `src` ("machine 1").  It records the last token boundary
(state `⟨init, T⟩`, `T` the tokens emitted so far) and the characters read since (`pending`), and says that for EVERY
admissible choice of parts for the emitted tokens the scanner run on their concatenation ("machine 2") reaches the
corresponding boundary `⟨init, repl T P⟩` (`M2`; a text token in ordinary content is reported when the next `<`
arrives, hence the "virtual" alternative in `VR`).  When machine 1 emits a token, machine 2 is continued
* over the same characters (verbatim part): the scanner looks at the emitted tokens only through `rawTagOf` of the last
  one (`arun_init`, from `fold_frame`), so the run of machine 1 since the boundary can be replayed (`transfer`);
* over the re-printed tag: `tag_rescan` (ordinary tags), `RT.arun_raw_close_tag` (end tag of a raw-text element).
All runs are runs of the position-free machine `RT.arun` of Proofs/ScanRoundTrip.lean.  Core-only. -/
namespace HS
set_option linter.unusedSimpArgs false
set_option linter.unusedVariables false
open RT (ATok AAttr AS AMode ATextL ATagL arun astep afinish ascan ainit absS concS forget arawTagOf)

/-! ## frame and transfer on the position-free machine -/

/-- put tokens underneath -/
def AS.below (E : List ATok) (a : AS) : AS := ⟨a.mode, a.toks ++ E⟩

theorem arun_eq_fold (cfg : Cfg) (a : AS) (cs : List Char) :
    arun cfg a cs = (cs.foldlM (step cfg) (concS a)).map absS := by
  rw [RT.run_abs, RT.abs_concS]

theorem absS_addBelow (s : S) (E : List ATok) : absS (s.addBelow (E.map RT.concTok)) = AS.below E (absS s) := by
  simp [absS, S.addBelow, AS.below, Function.comp_def]

/-- the scanner does not look below the top of its token stack (position-free form) -/
theorem arun_frame (cfg : Cfg) (m : AMode) (hm : m ≠ .init) (T : List ATok) (cs : List Char) :
    arun cfg ⟨m, T⟩ cs = (arun cfg ⟨m, []⟩ cs).map (AS.below T) := by
  rw [arun_eq_fold, arun_eq_fold]
  have e : concS ⟨m, T⟩ = (concS ⟨m, []⟩).addBelow (T.map RT.concTok) := by
    simp [concS, S.addBelow]
  have hi : (concS ⟨m, []⟩).Inv := by
    intro h
    cases m <;> simp [concS, RT.concMode] at h hm
  rw [e, fold_frame cfg _ cs _ hi]
  cases cs.foldlM (step cfg) (concS ⟨m, []⟩) with
  | error e => rfl
  | ok s => simp only [mapOk, Except.map, absS_addBelow]

/-- the run from a token boundary, as a function of the raw-text flag only -/
def startRun (cfg : Cfg) (raw : Option (List Char)) : List Char → Except Err AS
  | [] => .ok ⟨.init, []⟩
  | c :: cs =>
    if c = '<' ∧ raw = none then arun cfg ⟨.tag RT.tag0, []⟩ cs
    else arun cfg ⟨.text ⟨[], raw, [], []⟩, []⟩ (c :: cs)

/-- the run from a token boundary depends on the emitted tokens only through `rawTagOf` of the last one -/
theorem arun_init (cfg : Cfg) (T : List ATok) (v : List Char) :
    arun cfg ⟨.init, T⟩ v = (startRun cfg (arawTagOf cfg T) v).map (AS.below T) := by
  cases v with
  | nil => simp [startRun, RT.arun_nil, Except.map, AS.below]
  | cons c cs =>
    by_cases h : c = '<' ∧ arawTagOf cfg T = none
    · obtain ⟨rfl, hr⟩ := h
      rw [RT.arun_cons_ok (RT.astep_init_lt cfg T hr)]
      simp only [startRun, hr, and_self, if_true]
      exact arun_frame cfg _ (by simp) T cs
    · have h' : c ≠ '<' ∨ arawTagOf cfg T ≠ none := by
        by_cases hc : c = '<'
        · exact Or.inr (fun hh => h ⟨hc, hh⟩)
        · exact Or.inl hc
      rw [RT.arun_init_text cfg T _ rfl c cs h']
      simp only [startRun, h, if_false]
      exact arun_frame cfg _ (by simp) T (c :: cs)

/-- replay: a run from the boundary `⟨init, T⟩` that pushed the tokens `E` can be repeated on top of any `T2` whose
    last token has the same `rawTagOf` -/
theorem transfer {cfg : Cfg} {T T2 E : List ATok} {v : List Char} {m : AMode}
    (h : arun cfg ⟨.init, T⟩ v = .ok ⟨m, E ++ T⟩) (hr : arawTagOf cfg T2 = arawTagOf cfg T) :
    arun cfg ⟨.init, T2⟩ v = .ok ⟨m, E ++ T2⟩ := by
  rw [arun_init] at h ⊢
  rw [hr]
  cases hs : startRun cfg (arawTagOf cfg T) v with
  | error e => rw [hs] at h; cases h
  | ok a =>
    rw [hs] at h
    simp only [Except.map, Except.ok.injEq, AS.below, AS.mk.injEq] at h ⊢
    obtain ⟨h1, h2⟩ := h
    exact ⟨h1, by rw [List.append_cancel_right h2]⟩

/-! ## parts -/

def aattrPrint (a : AAttr) : List Char := ' ' :: a.name ++ (match a.value with | some v => '=' :: v | none => [])

/-- the re-printed tag, from the position-free tag record -/
def aprint (tg : List Char × List AAttr) : List Char := '<' :: tg.1 ++ (tg.2.map aattrPrint).flatten ++ ['>']

theorem aprint_forget (tg : Tag) : aprint (RT.forgetTag tg) = tagPrint tg := by
  simp only [aprint, RT.forgetTag, tagPrint, attrsPrint, List.map_map]
  congr 3

/-- an admissible part for a token: its text, or (tags) the re-printed tag -/
def PR (t : ATok) (p : List Char) : Prop := p = t.value ∨ (t.kind = .tag ∧ ∃ tg, t.tag = some tg ∧ p = aprint tg)

/-- parts for the emitted tokens (both lists newest first) -/
def AP : List ATok → List (List Char) → Prop
  | [], [] => True
  | t :: T, p :: P => PR t p ∧ AP T P
  | _, _ => False

/-- the tokens with the parts as texts -/
def repl : List ATok → List (List Char) → List ATok
  | t :: T, p :: P => ⟨t.kind, p, t.tag⟩ :: repl T P
  | _, _ => []

/-- the concatenation of the parts, oldest first -/
def outR : List (List Char) → List Char
  | [] => []
  | p :: P => outR P ++ p

def NoTextHead (T : List ATok) : Prop := ∀ t T', T = t :: T' → t.kind ≠ .text

theorem arawTagOf_congr (cfg : Cfg) (t t' : ATok) (T T' : List ATok) (hk : t'.kind = t.kind) (ht : t'.tag = t.tag) :
    arawTagOf cfg (t' :: T') = arawTagOf cfg (t :: T) := by
  rcases t with ⟨k, v, tg⟩
  rcases t' with ⟨k', v', tg'⟩
  simp only at hk ht
  subst hk ht
  simp [arawTagOf, rawTagOf, RT.concTok]

theorem arawTagOf_repl (cfg : Cfg) : ∀ (T : List ATok) (P : List (List Char)), AP T P →
    arawTagOf cfg (repl T P) = arawTagOf cfg T
  | [], [], _ => rfl
  | t :: T, p :: P, _ => arawTagOf_congr cfg t _ T _ rfl rfl
  | [], _ :: _, h => h.elim
  | _ :: _, [], h => h.elim

theorem noTextHead_repl : ∀ (T : List ATok) (P : List (List Char)), NoTextHead T → NoTextHead (repl T P)
  | [], P, _ => by intro t T' h; cases P <;> simp [repl] at h
  | t :: T, [], _ => by intro t' T' h; simp [repl] at h
  | t :: T, p :: P, hn => by
    intro t' T' h
    simp only [repl, List.cons.injEq] at h
    rw [← h.1]
    exact hn t T rfl

/-- machine 2 has read `out` and is at the boundary `⟨init, T2⟩` — really, or virtually: the last token is a text in
    ordinary content, still pending (it is reported when the next `<` or the end of input arrives) -/
def VR (cfg : Cfg) (out : List Char) (T2 : List ATok) : Prop :=
  arun cfg ainit out = .ok ⟨.init, T2⟩ ∨
  ∃ buf tb nb T2', T2 = ⟨.text, buf.reverse, none⟩ :: T2' ∧ arun cfg ainit out = .ok ⟨.text ⟨buf, none, tb, nb⟩, T2'⟩

theorem VR.real {cfg : Cfg} {out : List Char} {T2 : List ATok} (h : VR cfg out T2) (hn : NoTextHead T2) :
    arun cfg ainit out = .ok ⟨.init, T2⟩ := by
  rcases h with h | ⟨buf, tb, nb, T2', rfl, _⟩
  · exact h
  · exact absurd rfl (hn _ _ rfl)

/-- continuing with a `<` -/
theorem VR.lt {cfg : Cfg} {out : List Char} {T2 : List ATok} (h : VR cfg out T2) (hr : arawTagOf cfg T2 = none)
    (v : List Char) : arun cfg ainit (out ++ '<' :: v) = arun cfg ⟨.init, T2⟩ ('<' :: v) := by
  rcases h with h | ⟨buf, tb, nb, T2', rfl, h⟩
  · exact RT.arun_append_ok h _
  · rw [RT.arun_append_ok h, RT.arun_cons_ok (RT.astep_text_lt cfg T2' buf tb nb),
      RT.arun_cons_ok (RT.astep_init_lt cfg _ hr)]

/-- the end of input -/
theorem VR.finish {cfg : Cfg} {out : List Char} {T2 : List ATok} (h : VR cfg out T2) : ascan cfg out = .ok T2.reverse := by
  rcases h with h | ⟨buf, tb, nb, T2', rfl, h⟩
  · simp only [ascan, h, bind, Except.bind]; exact RT.afinish_init T2
  · simp only [ascan, h, bind, Except.bind]; exact RT.afinish_text T2' buf tb nb none

/-- for every admissible choice of parts for the tokens `T`, machine 2 reaches the corresponding boundary -/
def M2 (cfg : Cfg) (T : List ATok) : Prop := ∀ P, AP T P → VR cfg (outR P) (repl T P)

theorem m2_nil (cfg : Cfg) : M2 cfg [] := by
  intro P h
  cases P with
  | nil => exact Or.inl rfl
  | cons _ _ => exact h.elim

/-! ## the invariant -/

/-- the characters read since the last token boundary -/
def apend : AMode → List Char
  | .init => []
  | .text l => l.buf.reverse
  | .tag l => l.buf.reverse

theorem apend_abs (m : Mode) : apend (RT.absMode m) = pending m := by
  cases m <;> rfl

/-- raw-text mode: the name buffer is the candidate end tag without blanks; the candidate contains no `>` and exactly
    one `<` (its first character); the state in which the candidate began is known -/
def RawI (cfg : Cfg) (T : List ATok) (l : ATextL) : Prop :=
  ∀ n, l.raw = some n →
    l.nameBuf = l.tagBuf.filter (fun c => !isSpace c) ∧ '>' ∉ l.tagBuf ∧
    (l.tagBuf = [] ∨ ∃ r, l.tagBuf = r ++ ['<'] ∧ '<' ∉ r) ∧
    ∃ rest, l.buf = l.tagBuf ++ rest ∧
      (l.tagBuf ≠ [] → rest ≠ [] →
        ∃ tb0 nb0, arun cfg ⟨.init, T⟩ rest.reverse = .ok ⟨.text ⟨rest, some n, tb0, nb0⟩, T⟩)

def ModeC (cfg : Cfg) (T : List ATok) : AMode → Prop
  | .init => NoTextHead T
  | .tag l => (∃ v', l.buf.reverse = '<' :: v') ∧ arawTagOf cfg T = none
  | .text l => NoTextHead T ∧ l.raw = arawTagOf cfg T ∧ l.buf ≠ [] ∧ RawI cfg T l

/-- the invariant of machine 1 (position-free state `a`) -/
structure J (cfg : Cfg) (a : AS) : Prop where
  run : arun cfg ⟨.init, a.toks⟩ (apend a.mode) = .ok a
  m2 : M2 cfg a.toks
  mc : ModeC cfg a.toks a.mode

theorem j_init (cfg : Cfg) : J cfg ainit :=
  ⟨rfl, m2_nil cfg, by intro t T' h; cases h⟩

/-- what `tag_rescan` says about a token, on the position-free machine -/
def AResc (cfg : Cfg) (t : ATok) : Prop :=
  t.kind = .tag → ∀ tg, t.tag = some tg →
    startRun cfg none (aprint tg) = .ok ⟨.init, [⟨.tag, aprint tg, some tg⟩]⟩

theorem forgetTag_eq_of_tagEq {tg tg' : Tag} (hn : tg'.name = tg.name) (ha : AEq tg'.attrs tg.attrs) :
    RT.forgetTag tg' = RT.forgetTag tg := by
  have e : ∀ xs : List Attr, xs.map RT.forgetAttr = (xs.map akey).map (fun k => (⟨k.1, k.2⟩ : AAttr)) := by
    intro xs; simp [List.map_map, Function.comp_def, RT.forgetAttr, akey]
  simp only [RT.forgetTag, hn, Prod.mk.injEq, true_and]
  rw [e, e, ha]

theorem aresc_of_rescanP {cfg : Cfg} {t : Token} (h : RescanP cfg t) : AResc cfg (forget t) := by
  intro _ atg hatg
  obtain ⟨tg, t', htg, hs, hk', hv, tga, tg', h1, h2, hn, ha⟩ := h
  rw [htg] at h1; cases h1
  have hatg' : atg = RT.forgetTag tg := by
    simp only [forget, htg, Option.map_some, Option.some.injEq] at hatg; exact hatg.symm
  subst hatg'
  rw [aprint_forget]
  have hsc : ascan cfg (tagPrint tg) = .ok [forget t'] := by
    rw [← RT.scan_abs, hs]; rfl
  have hft : forget t' = ⟨.tag, tagPrint tg, some (RT.forgetTag tg)⟩ := by
    simp only [forget, hk', hv, h2, Option.map_some, forgetTag_eq_of_tagEq hn ha]
  rw [hft] at hsc
  have hrun : arun cfg ainit (tagPrint tg) = (startRun cfg none (tagPrint tg)).map (AS.below []) := by
    have := arun_init cfg [] (tagPrint tg)
    rw [RT.arawTagOf_nil] at this
    exact this
  simp only [ascan, hrun, bind, Except.bind] at hsc
  cases hst : startRun cfg none (tagPrint tg) with
  | error e => rw [hst] at hsc; cases hsc
  | ok a =>
    rw [hst] at hsc
    simp only [Except.map, AS.below, List.append_nil] at hsc
    rcases a with ⟨m, toks⟩
    cases m with
    | init =>
      rw [RT.afinish_init] at hsc
      simp only [Except.ok.injEq, List.reverse_eq_cons_iff, List.reverse_nil, List.nil_append] at hsc
      rw [hsc]
    | text l =>
      rcases l with ⟨buf, raw, tb, nb⟩
      rw [RT.afinish_text] at hsc
      simp only [Except.ok.injEq, List.reverse_cons] at hsc
      have hl := congrArg List.length hsc
      simp only [List.length_append, List.length_reverse, List.length_cons, List.length_nil] at hl
      have hnil : toks = [] := List.eq_nil_of_length_eq_zero (by omega)
      subst hnil
      simp at hsc
    | tag l => rw [RT.afinish_tag] at hsc; cases hsc

/-- machine 1 emitted a token through the tag machine (tag, comment, CDATA): machine 2 follows -/
theorem m2_push_tag (cfg : Cfg) (T : List ATok) (t : ATok) (v : List Char) (hm2 : M2 cfg T)
    (hraw : arawTagOf cfg T = none) (hv : t.value = '<' :: v) (hk : t.kind ≠ .text)
    (hrun : arun cfg ⟨.init, T⟩ t.value = .ok ⟨.init, t :: T⟩) (hre : AResc cfg t) : M2 cfg (t :: T) := by
  intro P hP
  cases P with
  | nil => exact hP.elim
  | cons p P0 =>
    obtain ⟨hp, hP0⟩ := hP
    have hvr := hm2 P0 hP0
    have hr2 : arawTagOf cfg (repl T P0) = none := by rw [arawTagOf_repl cfg T P0 hP0, hraw]
    left
    simp only [outR, repl]
    rcases hp with rfl | ⟨hkt, tg, htg, rfl⟩
    · rw [hv, hvr.lt hr2, ← hv]
      have := transfer (E := [t]) hrun (hr2.trans hraw.symm)
      simpa using this
    · have hst := hre hkt tg htg
      have hap : aprint tg = '<' :: (tg.1 ++ (tg.2.map aattrPrint).flatten ++ ['>']) := by simp [aprint]
      rw [hap, hvr.lt hr2, ← hap, arun_init, hr2, hst, hkt, htg]
      simp [Except.map, AS.below]

theorem stepAttrName_kind (s : S) (l : TagL) (c : Char) (p p' : Pos) (s' : S)
    (h : stepTag.stepAttrName s l c p p' = .ok s') :
    (s'.mode = .init → ∃ t, s'.toks = t :: s.toks ∧ t.kind = .tag) := by
  unfold stepTag.stepAttrName at h
  simp only at h
  repeat' split at h
  all_goals (try (simp only [Except.ok.injEq, reduceCtorEq] at h))
  all_goals (try subst h)
  all_goals (try (rename_i hadd; have := addAttr_ok hadd; subst this))
  all_goals (simp_all [finishTag, S.emit])

theorem stepTag_kind (s : S) (l : TagL) (c : Char) (p p' : Pos) (s' : S)
    (h : stepTag s l c p p' = .ok s') :
    (s'.mode = .init → ∃ t, s'.toks = t :: s.toks ∧ t.kind ≠ .text) := by
  unfold stepTag at h
  simp only at h
  cases hst : l.st <;> simp only [hst] at h
  case attrName =>
    intro hm
    obtain ⟨t, h1, h2⟩ := stepAttrName_kind s _ c p p' s' h hm
    exact ⟨t, h1, by simp [h2]⟩
  case space =>
    by_cases h1 : c = '>'
    · simp only [h1, if_true] at h; simp only [Except.ok.injEq] at h; subst h; simp [finishTag, S.emit, h1]
    · by_cases h2 : isSpace c = true
      · simp only [h1, h2, if_false] at h; simp at h; subst h; simp
      · simp only [h1, h2, if_false] at h; simp at h
        intro hm
        obtain ⟨t, h1, h2⟩ := stepAttrName_kind s _ c p p' s' h hm
        exact ⟨t, h1, by simp [h2]⟩
  case tagStart =>
    repeat' split at h
    all_goals (try (simp only [Except.ok.injEq, reduceCtorEq] at h))
    all_goals (try subst h)
    all_goals (simp_all [finishTag, S.emit])
  case tagName =>
    generalize "!--".toList = k1 at h
    generalize "![CDATA[".toList = k2 at h
    repeat' split at h
    all_goals (try (simp only [Except.ok.injEq, reduceCtorEq] at h))
    all_goals (try subst h)
    all_goals (simp_all [finishTag, S.emit])
  case cdata =>
    repeat' split at h
    all_goals (try (simp only [Except.ok.injEq, reduceCtorEq] at h))
    all_goals (try subst h)
    all_goals (simp_all [finishTag, S.emit])
  case comment =>
    generalize "-->".toList = k1 at h
    generalize "->".toList = k2 at h
    generalize ">".toList = k3 at h
    generalize "<!--".toList = k4 at h
    generalize "--!>".toList = k5 at h
    generalize "<!-".toList = k6 at h
    repeat' split at h
    all_goals (try (simp only [Except.ok.injEq, reduceCtorEq] at h))
    all_goals (try subst h)
    all_goals (simp_all [finishTag, S.emit])
  case attrValue =>
    repeat' split at h
    all_goals (try (simp only [Except.ok.injEq, reduceCtorEq] at h))
    all_goals (try subst h)
    all_goals (try (have hh := addAttr_ok ‹addAttr _ _ = Except.ok _›; subst hh))
    all_goals (simp_all [finishTag, S.emit])

/-! ## steps of machine 1 in text mode -/

theorem lower_lt_gt (x : List Char) : lower ('<' :: x ++ ['>']) = '<' :: lower x ++ ['>'] := by
  simp [lower]

/-- the name recorded for the end tag of the raw-text element `n`: from the invariant of the candidate -/
theorem raw_name_facts (n r nb : List Char) (hgn : '>' ∉ n) (hnb : nb = (r ++ ['<']).filter (fun c => !isSpace c))
    (hgt : '>' ∉ r) (hlt : '<' ∉ r)
    (hp : (lower ('>' :: nb).reverse).isPrefixOf (RT.closeTagOf n) = true) :
    ∃ w, ((nb.reverse ++ ['>']).drop 1).dropLast = '/' :: w ∧ lower w = n ∧ w.all RT.rawNameCh = true := by
  have hsl : isSpace '<' = false := by decide
  have hnb' : nb.reverse = '<' :: (r.filter (fun c => !isSpace c)).reverse := by
    rw [hnb, List.filter_append]; simp [hsl]
  generalize hx : (r.filter (fun c => !isSpace c)).reverse = x at hnb'
  have hxm : ∀ c ∈ x, isSpace c = false ∧ c ∈ r := by
    intro c hc
    rw [← hx] at hc
    simp only [List.mem_reverse, List.mem_filter] at hc
    exact ⟨by simpa using hc.2, hc.1⟩
  have hname : ((nb.reverse ++ ['>']).drop 1).dropLast = x := by
    rw [hnb']; simp
  rw [hname]
  have hpre := List.isPrefixOf_iff_prefix.mp hp
  rw [List.reverse_cons, hnb', lower_lt_gt] at hpre
  have hpre' : lower x ++ ['>'] <+: ('/' :: n) ++ ['>'] := by
    simpa [RT.closeTagOf] using hpre
  have hgx : '>' ∉ lower x := gt_not_mem_lower (fun hh => hgt (hxm _ hh).2)
  have hgn' : '>' ∉ '/' :: n := by
    intro hh
    simp only [List.mem_cons] at hh
    rcases hh with hh | hh
    · revert hh; decide
    · exact hgn hh
  have hlx := prefix_gt _ _ hgx hgn' hpre'
  cases x with
  | nil => simp [lower] at hlx
  | cons a w =>
    simp only [lower, List.map_cons, List.cons.injEq] at hlx
    have ha := toLower_eq_slash hlx.1
    subst ha
    refine ⟨w, rfl, hlx.2, ?_⟩
    rw [List.all_eq_true]
    intro c hc
    obtain ⟨h1, h2⟩ := hxm c (by simp [hc])
    exact RT.rawNameCh_iff.mpr ⟨h1, fun hh => hlt (hh ▸ h2), fun hh => hgt (hh ▸ h2)⟩

/-- one step of machine 1 in text mode (also from a boundary: empty buffers) preserves the invariant -/
theorem j_text_step (cfg : Cfg) (T : List ATok) (buf : List Char) (raw : Option (List Char)) (tb nb : List Char)
    (c : Char) (a' : AS)
    (hstep : astep cfg ⟨.text ⟨buf, raw, tb, nb⟩, T⟩ c = .ok a')
    (hnt : NoTextHead T) (hraw : raw = arawTagOf cfg T) (hri : RawI cfg T ⟨buf, raw, tb, nb⟩)
    (hcur : buf ≠ [] → arun cfg ⟨.init, T⟩ buf.reverse = .ok ⟨.text ⟨buf, raw, tb, nb⟩, T⟩)
    (hE2 : raw = none → c = '<' → buf ≠ [])
    (hrun1 : arun cfg ⟨.init, T⟩ (buf.reverse ++ [c]) = .ok a')
    (hm2 : M2 cfg T) (hgn : ∀ n, raw = some n → '>' ∉ n) : J cfg a' := by
  cases raw with
  | none =>
    by_cases hc : c = '<'
    · subst hc
      rw [RT.astep_text_lt] at hstep
      simp only [Except.ok.injEq] at hstep
      subst hstep
      refine ⟨?_, ?_, ⟨⟨[], rfl⟩, RT.arawTagOf_text cfg _ _ _⟩⟩
      · show arun cfg _ ['<'] = _
        rw [RT.arun_cons_ok (RT.astep_init_lt cfg _ (RT.arawTagOf_text cfg _ _ _))]; rfl
      · intro P hP
        cases P with
        | nil => exact hP.elim
        | cons p P0 =>
          obtain ⟨hp, hP0⟩ := hP
          rcases hp with rfl | ⟨hk, _⟩
          · have hb := hE2 rfl rfl
            have h1 := (hm2 P0 hP0).real (noTextHead_repl T P0 hnt)
            have h2 := transfer (E := []) (hcur hb) (arawTagOf_repl cfg T P0 hP0)
            right
            exact ⟨buf, tb, nb, repl T P0, rfl, by simp only [outR]; rw [RT.arun_append_ok h1]; exact h2⟩
          · cases hk
    · rw [RT.astep_text_ch cfg T buf tb nb c hc] at hstep
      simp only [Except.ok.injEq] at hstep
      subst hstep
      exact ⟨by simpa [apend] using hrun1, hm2, hnt, hraw, by simp, fun n hn => by cases hn⟩
  | some n =>
    obtain ⟨hnb, hgt, hform, rest, hbuf, hrest⟩ := hri n rfl
    simp only at hnb hgt hform hbuf hrest
    have hgn' := hgn n rfl
    by_cases hc : c = '<'
    · subst hc
      rw [RT.astep_raw_lt] at hstep
      simp only [Except.ok.injEq] at hstep
      subst hstep
      refine ⟨by simpa [apend] using hrun1, hm2, hnt, hraw, by simp, ?_⟩
      intro n' hn'
      cases hn'
      refine ⟨?_, ?_, Or.inr ⟨[], rfl, by simp⟩, buf, rfl, fun _ hb => ⟨tb, nb, hcur hb⟩⟩
      · show ['<'] = List.filter (fun c => !isSpace c) ['<']
        decide
      · show '>' ∉ ['<']
        decide
    · by_cases htb : tb = []
      · subst htb
        rw [RT.astep_raw_plain cfg T buf nb n c hc] at hstep
        simp only [Except.ok.injEq] at hstep
        subst hstep
        refine ⟨by simpa [apend] using hrun1, hm2, hnt, hraw, by simp, ?_⟩
        intro n' hn'
        cases hn'
        exact ⟨hnb, by simp, Or.inl rfl, c :: buf, rfl, fun h => absurd rfl h⟩
      · by_cases hp : (lower (if isSpace c then nb else c :: nb).reverse).isPrefixOf (RT.closeTagOf n) = true
        · by_cases hcg : c = '>'
          · -- the end tag is complete: text (if any) and end tag are emitted
            subst hcg
            simp only [RT.isSpace_gt, Bool.false_eq_true, if_false] at hp
            obtain ⟨r, hr, hltr⟩ := hform.resolve_left htb
            have hgtr : '>' ∉ r := fun hh => hgt (by rw [hr]; simp [hh])
            obtain ⟨w, hname, hlow, hch⟩ := raw_name_facts n r nb hgn' (by rw [hnb, hr]) hgtr hltr hp
            have hdrop : buf.drop tb.length = rest := by rw [hbuf, List.drop_left]
            have hk : RT.bytes ('>' :: tb) ≤ RT.bytes buf + 1 := by
              rw [hbuf, RT.bytes_append, RT.bytes_cons]
              have : '>'.utf8Size = 1 := by decide
              omega
            rw [RT.astep_raw_close cfg T buf tb nb n htb hp hk, hname, hdrop] at hstep
            simp only [Except.ok.injEq] at hstep
            have hvrev : buf.reverse ++ ['>'] = rest.reverse ++ ('>' :: tb).reverse := by
              rw [hbuf]; simp
            rw [hvrev] at hrun1
            have hr2 : ∀ P0, AP T P0 → arawTagOf cfg (repl T P0) = some n := by
              intro P0 hP0; rw [arawTagOf_repl cfg T P0 hP0, ← hraw]
            have hap : aprint ('/' :: w, []) = '<' :: '/' :: (w ++ [] ++ ['>']) := by simp [aprint]
            by_cases hr0 : rest = []
            · subst hr0
              simp only [List.isEmpty_nil, if_true] at hstep
              subst hstep
              simp only [List.reverse_nil, List.nil_append] at hrun1
              refine ⟨rfl, ?_, by intro t T' h; cases h; simp⟩
              intro P hP
              cases P with
              | nil => exact hP.elim
              | cons pc P0 =>
                obtain ⟨hp, hP0⟩ := hP
                have h1 := (hm2 P0 hP0).real (noTextHead_repl T P0 hnt)
                left
                simp only [outR, repl]
                rw [RT.arun_append_ok h1]
                rcases hp with rfl | ⟨_, tg, htg, rfl⟩
                · have := transfer (E := [_]) hrun1 ((hr2 P0 hP0).trans hraw)
                  simpa using this
                · simp only [Option.some.injEq] at htg
                  subst htg
                  rw [hap, RT.arun_init_text cfg _ (some n) (hr2 P0 hP0) _ _ (Or.inr (by simp)),
                    RT.arun_raw_close_tag cfg _ n w [] [] [] [] hlow hch rfl]
                  simp
            · simp only [List.isEmpty_iff, hr0, if_false] at hstep
              subst hstep
              refine ⟨rfl, ?_, by intro t T' h; cases h; simp⟩
              intro P hP
              cases P with
              | nil => exact hP.elim
              | cons pc P1 =>
                cases P1 with
                | nil => exact hP.2.elim
                | cons pt P0 =>
                  obtain ⟨hp, hpt, hP0⟩ := hP
                  have h1 := (hm2 P0 hP0).real (noTextHead_repl T P0 hnt)
                  have hpt' : pt = rest.reverse := by
                    rcases hpt with rfl | ⟨hk', _⟩
                    · rfl
                    · cases hk'
                  subst hpt'
                  left
                  simp only [outR, repl, List.append_assoc]
                  rw [RT.arun_append_ok h1]
                  rcases hp with rfl | ⟨_, tg, htg, rfl⟩
                  · have := transfer (E := [_, _]) hrun1 ((hr2 P0 hP0).trans hraw)
                    simpa using this
                  · simp only [Option.some.injEq] at htg
                    subst htg
                    obtain ⟨tb0, nb0, hst0⟩ := hrest htb hr0
                    have h2 := transfer (E := []) hst0 (arawTagOf_repl cfg T P0 hP0)
                    rw [RT.arun_append_ok h2, hap,
                      RT.arun_raw_close_tag cfg _ n w [] rest tb0 nb0 hlow hch rfl]
                    simp [hr0]
          · rw [RT.astep_raw_keep cfg T buf tb nb n c hc hcg htb hp] at hstep
            simp only [Except.ok.injEq] at hstep
            subst hstep
            refine ⟨by simpa [apend] using hrun1, hm2, hnt, hraw, by simp, ?_⟩
            intro n' hn'
            cases hn'
            refine ⟨?_, ?_, ?_, rest, by simp [hbuf], fun _ hr0 => hrest htb hr0⟩
            · by_cases hsp : isSpace c = true <;> simp [hsp, hnb]
            · simp only [List.mem_cons, not_or]; exact ⟨fun hh => hcg hh.symm, hgt⟩
            · obtain ⟨r, hr, hltr⟩ := hform.resolve_left htb
              exact Or.inr ⟨c :: r, by simp [hr], by simp only [List.mem_cons, not_or]; exact ⟨fun hh => hc hh.symm, hltr⟩⟩
        · rw [RT.astep_raw_drop cfg T buf tb nb n c hc htb (Bool.eq_false_iff.mpr hp)] at hstep
          simp only [Except.ok.injEq] at hstep
          subst hstep
          refine ⟨by simpa [apend] using hrun1, hm2, hnt, hraw, by simp, ?_⟩
          intro n' hn'
          cases hn'
          exact ⟨rfl, by simp, Or.inl rfl, c :: buf, rfl, fun h => absurd rfl h⟩

/-! ## one step of machine 1 -/

theorem arawTagOf_forget (cfg : Cfg) (toks : List Token) : arawTagOf cfg (toks.map forget) = rawTagOf cfg toks :=
  (RT.rawTagOf_abs cfg toks _ (by simp [Function.comp_def])).symm

/-- `tag_rescan`, token by token: from the two scanner invariants of Proofs/TagReprint.lean and TagRescan.lean -/
theorem rescanP_of {cfg : Cfg} {t : Token} (hsq : TokSq cfg t) (hre : TokRe cfg t) (hk : t.kind = .tag) : RescanP cfg t := by
  have raw : RawClose cfg t → RescanP cfg t := by
    intro hr
    obtain ⟨w, htag, _, hw, hgt⟩ := rawClose_name hr
    obtain ⟨t', h1, h2, h3, h4⟩ := scan_close_alone cfg w hw hgt
    exact ⟨_, t', htag, by simpa [tagPrint] using h1, h2, by simpa [tagPrint] using h3, ⟨_, _, htag, h4, rfl, rfl⟩⟩
  rcases hre hk with ⟨t', hs, hk', heq⟩ | hr
  · rcases hsq.1 hk with ⟨tg, htg, hsqz, _⟩ | hr
    · refine ⟨tg, t', htg, by rw [hsqz]; exact hs, hk', ?_, heq⟩
      have := scan_concat cfg _ _ hs
      rw [hsqz]; simpa using this
    · exact raw hr
  · exact raw hr

theorem j_step (cfg : Cfg) (s s' : S) (c : Char) (consumed : List Char) (hinv : Inv s consumed) (hri : RInv cfg s)
    (hj : J cfg (absS s)) (h : step cfg s c = .ok s') : J cfg (absS s') := by
  have hinv' := step_inv cfg s s' c consumed hinv h
  have hri' := rinv_step cfg s s' c hri h
  have ha : astep cfg (absS s) c = .ok (absS s') := by
    rw [← RT.step_abs, h]; rfl
  have hgn : ∀ n, arawTagOf cfg (s.toks.map forget) = some n → '>' ∉ n := by
    intro n hn
    rw [arawTagOf_forget] at hn
    exact (rawTagOf_spec cfg s.toks n hri.1.1 hn).2
  obtain ⟨hrun, hm2, hmc⟩ := hj
  cases hm : s.mode with
  | init =>
    have hs : absS s = ⟨.init, s.toks.map forget⟩ := by simp [absS, hm, RT.absMode]
    rw [hs] at hrun hm2 hmc ha
    dsimp only [apend, ModeC] at hrun hm2 hmc
    generalize absS s' = A' at ha ⊢
    by_cases hlt : c = '<' ∧ arawTagOf cfg (s.toks.map forget) = none
    · obtain ⟨rfl, hr⟩ := hlt
      rw [RT.astep_init_lt cfg _ hr] at ha
      simp only [Except.ok.injEq] at ha
      rw [← ha]
      refine ⟨?_, hm2, ⟨[], rfl⟩, hr⟩
      show arun cfg _ ['<'] = _
      rw [RT.arun_cons_ok (RT.astep_init_lt cfg _ hr)]; rfl
    · have h' : c ≠ '<' ∨ arawTagOf cfg (s.toks.map forget) ≠ none := by
        by_cases hc : c = '<'
        · exact Or.inr (fun hh => hlt ⟨hc, hh⟩)
        · exact Or.inl hc
      rw [RT.astep_init_text cfg _ c _ rfl h'] at ha
      refine j_text_step cfg _ [] _ [] [] c _ ha hmc rfl ?_ (fun hb => absurd rfl hb) ?_ ?_ hm2 hgn
      · intro n hn
        exact ⟨rfl, by simp, Or.inl rfl, [], rfl, fun hh => absurd rfl hh⟩
      · intro hr hc
        exact absurd ⟨hc, hr⟩ hlt
      · show arun cfg _ [c] = _
        rw [RT.arun_cons_ok ((RT.astep_init_text cfg _ c _ rfl h').trans ha)]; rfl
  | text l =>
    have hs : absS s = ⟨.text ⟨l.buf, l.raw, l.tagBuf, l.nameBuf⟩, s.toks.map forget⟩ := by
      simp [absS, hm, RT.absMode, RT.absTextL]
    rw [hs] at hrun hm2 hmc ha
    dsimp only [apend, ModeC] at hrun hm2 hmc
    generalize absS s' = A' at ha ⊢
    obtain ⟨hnt, hraw, hbne, hrawi⟩ := hmc
    refine j_text_step cfg _ l.buf l.raw l.tagBuf l.nameBuf c _ ha hnt hraw hrawi (fun _ => hrun) (fun _ _ => hbne) ?_ hm2 ?_
    · rw [RT.arun_append_ok hrun, RT.arun_cons_ok ha]; rfl
    · intro n hn
      exact hgn n (hraw ▸ hn)
  | tag l =>
    have hs : absS s = ⟨.tag (RT.absTagL l), s.toks.map forget⟩ := by simp [absS, hm, RT.absMode]
    rw [hs] at hrun hm2 hmc ha
    dsimp only [apend, ModeC, RT.absTagL] at hrun hm2 hmc ha
    obtain ⟨⟨v', hv'⟩, hraw⟩ := hmc
    have hst : stepTag s l c s.pos (s.pos.advance c) = .ok s' := by rw [← step_tag cfg s l c hm]; exact h
    obtain ⟨sh1, sh2, sh3⟩ := stepTag_shape s l c _ _ s' hst
    have hrun1 : arun cfg ⟨.init, s.toks.map forget⟩ (l.buf.reverse ++ [c]) = .ok (absS s') := by
      rw [RT.arun_append_ok hrun, RT.arun_cons_ok ha]; rfl
    cases hm' : s'.mode with
    | text x => exact absurd hm' (sh3 x)
    | tag l' =>
      obtain ⟨htk, hb, _⟩ := sh1 l' hm'
      refine ⟨?_, ?_, ?_⟩
      · simp only [absS, hm', RT.absMode, RT.absTagL, apend, hb, htk, List.reverse_cons]
        simpa [absS, hm', RT.absMode, RT.absTagL, htk, hb] using hrun1
      · simpa [absS, htk] using hm2
      · simp only [absS, hm', RT.absMode, RT.absTagL, ModeC, htk, hb, List.reverse_cons, hv']
        exact ⟨⟨v' ++ [c], by simp⟩, hraw⟩
    | init =>
      obtain ⟨t, htk, hkt⟩ := stepTag_kind s l c _ _ s' hst hm'
      have hval : t.value = l.buf.reverse ++ [c] := by
        have h1 := hinv.1
        have h2 := hinv'.1
        simp only [hm, hm', htk, pending, vals_cons, List.append_nil] at h1 h2
        rw [← h1, List.append_assoc] at h2
        exact List.append_cancel_left h2
      have habs : absS s' = ⟨.init, forget t :: s.toks.map forget⟩ := by
        simp [absS, hm', RT.absMode, htk]
      rw [habs] at hrun1 ⊢
      refine ⟨rfl, ?_, by intro t0 T' h0; cases h0; simpa [forget] using hkt⟩
      refine m2_push_tag cfg _ (forget t) (v' ++ [c]) hm2 hraw (by simp [forget, hval, hv']) (by simpa [forget] using hkt)
        (by simpa [forget, hval] using hrun1) ?_
      intro hk
      have htm : t ∈ s'.toks := by rw [htk]; simp
      exact aresc_of_rescanP (rescanP_of (hri'.1.1 t htm) (hri'.2.1 t htm) (by simpa [forget] using hk)) hk

theorem j_fold (cfg : Cfg) (cs : List Char) (s s' : S) (consumed : List Char) (hinv : Inv s consumed) (hri : RInv cfg s)
    (hj : J cfg (absS s)) (h : cs.foldlM (step cfg) s = .ok s') : J cfg (absS s') := by
  induction cs generalizing s consumed with
  | nil => simp [List.foldlM, pure, Except.pure] at h; subst h; exact hj
  | cons c cs ih =>
    simp only [List.foldlM, bind, Except.bind] at h
    cases hs : step cfg s c with
    | error e => simp [hs] at h
    | ok s1 =>
      simp only [hs] at h
      exact ih s1 (consumed ++ [c]) (step_inv cfg s s1 c consumed hinv hs) (rinv_step cfg s s1 c hri hs)
        (j_step cfg s s1 c consumed hinv hri hj hs) h

/-- the document-level second scan, on the position-free machine and with the token lists newest first -/
theorem rescan_abs (cfg : Cfg) (src : List Char) (toks : List Token) (h : scan cfg src = .ok toks)
    (P : List (List Char)) (hP : AP (toks.reverse.map forget) P) :
    ascan cfg (outR P) = .ok (repl (toks.reverse.map forget) P).reverse := by
  unfold scan at h
  simp only [bind, Except.bind] at h
  cases hf : src.foldlM (step cfg) { mode := .init, pos := ⟨1, 1⟩, toks := [] } with
  | error e => simp [hf] at h
  | ok s =>
    simp only [hf] at h
    have hj := j_fold cfg src { mode := .init, pos := ⟨1, 1⟩, toks := [] } s [] (by simp [Inv, vals, pending, WF])
      ⟨⟨by simp, by simp, by simp⟩, by simp, by simp⟩ (j_init cfg) hf
    obtain ⟨hrun, hm2, hmc⟩ := hj
    unfold finish at h
    cases hm : s.mode with
    | init =>
      simp only [hm, Except.ok.injEq] at h
      subst h
      rw [List.reverse_reverse] at hP ⊢
      exact (hm2 P hP).finish
    | text l =>
      simp only [hm, Except.ok.injEq] at h
      subst h
      have hs : absS s = ⟨.text ⟨l.buf, l.raw, l.tagBuf, l.nameBuf⟩, s.toks.map forget⟩ := by
        simp [absS, hm, RT.absMode, RT.absTextL]
      rw [hs] at hrun hm2 hmc
      dsimp only [apend, ModeC] at hrun hm2 hmc
      simp only [S.emit, List.reverse_reverse, List.map_cons] at hP ⊢
      cases P with
      | nil => exact hP.elim
      | cons p P0 =>
        obtain ⟨hp, hP0⟩ := hP
        have hp' : p = l.buf.reverse := by
          rcases hp with rfl | ⟨hk, _⟩
          · rfl
          · cases hk
        subst hp'
        have h1 := (hm2 P0 hP0).real (noTextHead_repl _ P0 hmc.1)
        have h2 := transfer (E := []) hrun (arawTagOf_repl cfg _ P0 hP0)
        simp only [ascan, outR, RT.arun_append_ok h1, h2, bind, Except.bind, List.nil_append]
        rw [RT.afinish_text]
        simp [repl, forget]
    | tag l => simp [hm] at h

/-! ## the statement for scanned tokens, oldest first -/

/-- an admissible part for a scanned token: its text verbatim, or — for a tag token — the re-printed tag -/
def PartOK (t : Token) (p : List Char) : Prop :=
  p = t.value ∨ (t.kind = .tag ∧ ∃ tg, t.tag = some tg ∧ p = tagPrint tg)

def PartsOK : List Token → List (List Char) → Prop
  | [], [] => True
  | t :: ts, p :: ps => PartOK t p ∧ PartsOK ts ps
  | _, _ => False

theorem PartOK.pr {t : Token} {p : List Char} (h : PartOK t p) : PR (forget t) p := by
  rcases h with rfl | ⟨hk, tg, htg, rfl⟩
  · exact Or.inl rfl
  · exact Or.inr ⟨hk, RT.forgetTag tg, by simp [forget, htg], (aprint_forget tg).symm⟩

theorem outR_append : ∀ (A B : List (List Char)), outR (A ++ B) = outR B ++ outR A
  | [], B => by simp [outR]
  | a :: A, B => by simp [outR, outR_append A B]

theorem outR_reverse : ∀ (P : List (List Char)), outR P.reverse = P.flatten
  | [] => rfl
  | p :: P => by rw [List.reverse_cons, outR_append, outR_reverse P]; simp [outR]

theorem AP_length : ∀ (T : List ATok) (P : List (List Char)), AP T P → T.length = P.length
  | [], [], _ => rfl
  | t :: T, p :: P, h => by simp [AP_length T P h.2]
  | [], _ :: _, h => h.elim
  | _ :: _, [], h => h.elim

theorem AP_snoc : ∀ (T : List ATok) (P : List (List Char)) (t : ATok) (p : List Char), AP T P → PR t p →
    AP (T ++ [t]) (P ++ [p])
  | [], [], t, p, _, h => ⟨h, trivial⟩
  | t0 :: T, p0 :: P, t, p, h, hp => ⟨h.1, AP_snoc T P t p h.2 hp⟩
  | [], _ :: _, _, _, h, _ => h.elim
  | _ :: _, [], _, _, h, _ => h.elim

theorem repl_snoc : ∀ (T : List ATok) (P : List (List Char)) (t : ATok) (p : List Char), T.length = P.length →
    repl (T ++ [t]) (P ++ [p]) = repl T P ++ [⟨t.kind, p, t.tag⟩]
  | [], [], t, p, _ => rfl
  | t0 :: T, p0 :: P, t, p, h => by
    simp only [List.cons_append, repl, List.cons.injEq, true_and]
    exact repl_snoc T P t p (by simpa using h)
  | [], _ :: _, _, _, h => by simp at h
  | _ :: _, [], _, _, h => by simp at h

theorem AP_of_partsOK : ∀ (toks : List Token) (parts : List (List Char)), PartsOK toks parts →
    AP (toks.reverse.map forget) parts.reverse ∧
    (repl (toks.reverse.map forget) parts.reverse).reverse =
      List.zipWith (fun t p => (⟨t.kind, p, t.tag.map RT.forgetTag⟩ : ATok)) toks parts
  | [], [], _ => ⟨trivial, rfl⟩
  | t :: ts, p :: ps, h => by
    obtain ⟨ih1, ih2⟩ := AP_of_partsOK ts ps h.2
    simp only [List.reverse_cons, List.map_append, List.map_cons, List.map_nil]
    refine ⟨AP_snoc _ _ _ _ ih1 h.1.pr, ?_⟩
    rw [repl_snoc _ _ _ _ (AP_length _ _ ih1), List.reverse_append, ih2]
    simp [forget]
  | [], _ :: _, h => h.elim
  | _ :: _, [], h => h.elim

/-- **The document-level second scan.**  Let `toks` be the tokens of `src` and `parts` one text per token, each the
    token's text verbatim or (tag tokens) the re-printed tag `tagPrint`.  Then the scanner accepts the concatenation of
    the parts and cuts it at the same token boundaries: it reports, token for token, the same kind, the part as text,
    and the same tag record (name, attribute names and values, in order) — everything but the source positions. -/
theorem rescan_parts (cfg : Cfg) (src : List Char) (toks : List Token) (h : scan cfg src = .ok toks)
    (parts : List (List Char)) (hp : PartsOK toks parts) :
    ∃ toks2, scan cfg parts.flatten = .ok toks2 ∧
      toks2.map forget = List.zipWith (fun t p => (⟨t.kind, p, t.tag.map RT.forgetTag⟩ : ATok)) toks parts := by
  obtain ⟨h1, h2⟩ := AP_of_partsOK toks parts hp
  have := rescan_abs cfg src toks h parts.reverse h1
  rw [outR_reverse, h2] at this
  exact RT.scan_of_ascan this

/-! ## non-vacuity -/

/-- a document with a raw-text element whose end tag is written `</SCRIPT >`, a self-closed raw-text element followed
    by an end tag with a blank inside the name, irregular blanks, a comment, an unquoted empty value; every tag token is
    replaced by its re-printed form, everything else is kept: the second scan yields the same kinds and the parts as
    texts -/
def dexSrc : List Char := "<p  a = 'x' b= >t<Script>a<b </scr</SCRIPT ><!-- c --><script />y</Scr ipt ><br / >u".toList

def dexPart (t : Token) : List Char := match t.kind, t.tag with | .tag, some tg => tagPrint tg | _, _ => t.value

def dexCheck : Bool :=
  match scan ⟨["script".toList]⟩ dexSrc with
  | .ok toks =>
    let parts := toks.map dexPart
    parts.flatten == "<p a='x' b=>t<Script>a<b </scr</SCRIPT><!-- c --><script />y</Script><br />u".toList &&
    (match scan ⟨["script".toList]⟩ parts.flatten with
      | .ok toks2 => toks2.map (fun t => t.value) == parts && toks2.map (fun t => t.kind) == toks.map (fun t => t.kind) &&
          toks2.length == 11
      | .error _ => false)
  | .error _ => false

example : dexCheck = true := by decide +kernel

/-- the hypothesis of `rescan_parts` holds for these parts -/
theorem dexParts_ok : ∀ toks : List Token, PartsOK toks (toks.map dexPart) := by
  intro toks
  induction toks with
  | nil => trivial
  | cons t ts ih =>
    refine ⟨?_, ih⟩
    unfold PartOK dexPart
    cases hk : t.kind <;> cases ht : t.tag <;> simp

end HS
