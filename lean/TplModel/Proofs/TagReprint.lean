import TplModel.Proofs.ScanConcat
/-! # How the re-printed form of a tag relates to its source text

The renderer re-prints start / void / self-closing / stray closing tags from the scanned name and attribute list
(`tagPrint`: `<name attr[=value]…>`, single blank before every attribute, none before `>`).  This file defines
`HS.squeeze`, a character-level normalisation of the TEXT of a tag that touches only the white space between the parts
of the tag, and proves by an invariant of the tag sub-machine (`stepTag`) that for every tag token produced by the
scanner `tagPrint tag = squeeze value` — except for the closing tags of raw-text elements written with blanks INSIDE
`</name` (they are recognised case-insensitively and with blanks anywhere; the recorded name is the text between `<` and
`>` as written, without its blanks): for those `tagPrint tag = value without white space`.  In every case
`nonSp (tagPrint tag) = nonSp value`: only white space differs.  Core-only. -/
namespace HS

/-! ## the normalisation -/

/-- where we are inside the text of a tag -/
inductive Sq
  | start            -- before `<`
  | name             -- in the tag name
  | gap              -- after white space (or a closing quote): between the parts
  | aname            -- in an attribute name
  | agap             -- white space after an attribute name (a `=` may still follow)
  | eq               -- after `=`, before the value
  | quoted (q : Char) -- in a quoted value
  | bare             -- in an unquoted value
  | done             -- after `>`
deriving DecidableEq, Repr

/-- one character of tag text: the next place and what is written for it.  Everything that is not white space is
    copied; white space inside a quoted value is copied; all other white space is dropped, and ONE blank is written in
    front of the first character of every attribute. -/
def sqStep : Sq → Char → Sq × List Char
  | .start, c => (.name, [c])
  | .name, c => if c = '>' then (.done, [c]) else if isSpace c then (.gap, []) else (.name, [c])
  | .gap, c => if c = '>' then (.done, [c]) else if isSpace c then (.gap, [])
      else if c = '=' then (.eq, [' ', c]) else (.aname, [' ', c])
  | .aname, c => if c = '>' then (.done, [c]) else if isSpace c then (.agap, [])
      else if c = '=' then (.eq, [c]) else (.aname, [c])
  | .agap, c => if c = '>' then (.done, [c]) else if isSpace c then (.agap, [])
      else if c = '=' then (.eq, [c]) else (.aname, [' ', c])
  | .eq, c => if c = '>' then (.done, [c]) else if isSpace c then (.eq, [])
      else if isQuote c then (.quoted c, [c]) else (.bare, [c])
  | .quoted q, c => if c = q then (.gap, [c]) else (.quoted q, [c])
  | .bare, c => if c = '>' then (.done, [c]) else if isSpace c then (.gap, []) else (.bare, [c])
  | .done, c => (.done, [c])

/-- the text written for `cs`, starting at place `st` -/
def sqFrom : Sq → List Char → List Char
  | _, [] => []
  | st, c :: cs => (sqStep st c).2 ++ sqFrom (sqStep st c).1 cs

/-- the place reached after `cs` -/
def sqEnd : Sq → List Char → Sq
  | st, [] => st
  | st, c :: cs => sqEnd (sqStep st c).1 cs

/-- **the normalisation of the text of a tag**: white space between the parts of the tag is removed, one blank is
    written before every attribute; name, attribute names, `=`, quotes and values are copied. -/
def squeeze (cs : List Char) : List Char := sqFrom .start cs

theorem sqEnd_append (st : Sq) (cs ds : List Char) : sqEnd st (cs ++ ds) = sqEnd (sqEnd st cs) ds := by
  induction cs generalizing st with
  | nil => rfl
  | cons c cs ih => simp [sqEnd, ih]

theorem sqFrom_append (st : Sq) (cs ds : List Char) :
    sqFrom st (cs ++ ds) = sqFrom st cs ++ sqFrom (sqEnd st cs) ds := by
  induction cs generalizing st with
  | nil => rfl
  | cons c cs ih => simp [sqFrom, sqEnd, ih]

theorem sqEnd_snoc (st : Sq) (cs : List Char) (c : Char) : sqEnd st (cs ++ [c]) = (sqStep (sqEnd st cs) c).1 := by
  rw [sqEnd_append]; rfl

theorem sqFrom_snoc (st : Sq) (cs : List Char) (c : Char) :
    sqFrom st (cs ++ [c]) = sqFrom st cs ++ (sqStep (sqEnd st cs) c).2 := by
  rw [sqFrom_append]; simp [sqFrom]

/-! ## the re-printed form -/

/-- ` name` or ` name=value` (the value with its quotes) -/
def attrPrint (a : Attr) : List Char :=
  ' ' :: a.name ++ (match a.value with | some v => '=' :: v | none => [])

def attrsPrint (as : List Attr) : List Char := (as.map attrPrint).flatten

/-- `<name attr…>`: what the renderer writes for a tag without directives -/
def tagPrint (tg : Tag) : List Char := '<' :: tg.name ++ attrsPrint tg.attrs ++ ['>']

@[simp] theorem attrsPrint_nil : attrsPrint [] = [] := rfl
theorem attrsPrint_snoc (as : List Attr) (a : Attr) : attrsPrint (as ++ [a]) = attrsPrint as ++ attrPrint a := by
  simp [attrsPrint]
@[simp] theorem attrsPrint_rev_cons (as : List Attr) (a : Attr) :
    attrsPrint (a :: as).reverse = attrsPrint as.reverse ++ attrPrint a := by
  rw [List.reverse_cons, attrsPrint_snoc]

/-! ## the invariant of the tag sub-machine -/

/-- the place of `squeeze` that corresponds to the state of `readTag` -/
def sigma (l : TagL) : Sq :=
  match l.st with
  | .tagStart => .start
  | .tagName => .name
  | .space => .gap
  | .attrName => (match l.attrName with | ' ' :: _ => .agap | _ => .aname)
  | .attrValue => (match l.attrValue.getLast? with
      | none => .eq
      | some ch => if isQuote ch then .quoted ch else .bare)
  | _ => .done

/-- name and complete attributes collected so far, printed -/
def headL (l : TagL) : List Char := '<' :: l.tagName.reverse ++ attrsPrint l.attrs.reverse

/-- what has been collected so far, printed -/
def outL (l : TagL) : List Char :=
  match l.st with
  | .tagStart => []
  | .tagName => headL l
  | .space => headL l
  | .attrName => headL l ++ ' ' :: (trimOneSpace l.attrName).reverse
  | .attrValue => headL l ++ ' ' :: (trimOneSpace l.attrName).reverse ++ '=' :: l.attrValue.reverse
  | _ => []

/-- the text read so far, squeezed, is what has been collected so far, printed -/
def SqL (l : TagL) : Prop :=
  (l.st ≠ .comment ∧ l.st ≠ .cdata) → sqEnd .start l.buf.reverse = sigma l ∧ sqFrom .start l.buf.reverse = outL l ∧
    (l.st = .tagStart → l.tagName = []) ∧ ((l.st = .tagStart ∨ l.st = .tagName) → l.attrs = []) ∧
    '>' ∉ l.tagName

set_option linter.unusedSimpArgs false


theorem isSpace_ne_gt {c : Char} (h : isSpace c = true) : c ≠ '>' := by
  intro hc; subst hc; revert h; decide
theorem isSpace_ne_eq {c : Char} (h : isSpace c = true) : c ≠ '=' := by
  intro hc; subst hc; revert h; decide
theorem not_space_ne_blank {c : Char} (h : ¬ isSpace c = true) : c ≠ ' ' := by
  intro hc; subst hc; revert h; decide
theorem trim_cons_ne (c : Char) (n : List Char) (h : c ≠ ' ') : trimOneSpace (c :: n) = c :: n := by
  unfold trimOneSpace
  split
  · rename_i heq; simp only [List.cons.injEq] at heq; exact absurd heq.1 h
  · rfl
theorem trim_nohead (n : List Char) (h : ∀ r, n = ' ' :: r → False) : trimOneSpace n = n := by
  unfold trimOneSpace
  split
  · rename_i r; exact absurd rfl (h r)
  · rfl
theorem trim_nil : trimOneSpace [] = [] := rfl
theorem trim_blank (n : List Char) : trimOneSpace (' ' :: n) = n := rfl

theorem getLast?_cons_ne {α} (c : α) (v : List α) (h : v ≠ []) : (c :: v).getLast? = v.getLast? := by
  cases v with
  | nil => exact absurd rfl h
  | cons x r => simp [List.getLast?_cons_cons]

macro "sq_simp" : tactic => `(tactic| simp_all [squeeze, tagPrint, SqL, sigma, outL, headL, sqStep, sqEnd_snoc, sqFrom_snoc, attrPrint, attrsPrint_snoc, trim_nil, trim_blank, trim_cons_ne])

/-- a tag token whose re-printed form is its squeezed text (and whose name contains no `>`) -/
def Reprinted (t : Token) : Prop := ∃ tg, t.tag = some tg ∧ tagPrint tg = squeeze t.value ∧ '>' ∉ tg.name


def SqS (P : Token → Prop) (s : S) : Prop :=
  (∀ l, s.mode = .tag l → SqL l) ∧ (∀ t ∈ s.toks, P t) ∧ (∀ l, s.mode ≠ .text l)

theorem sqS_endCheck {P : Token → Prop} {s s' : S} {l : TagL} {c : Char} {p' : Pos}
    (h : (if c = '>' then Except.ok (finishTag s l p') else Except.ok { mode := Mode.tag l, pos := p', toks := s.toks })
        = (Except.ok s' : Except Err S))
    (htoks : ∀ t ∈ s.toks, P t)
    (hl : c ≠ '>' → SqL l)
    (ht : c = '>' → P { kind := .tag, value := l.buf.reverse, start := l.start, stop := p',
                        tag := some { name := l.tagName.reverse, attrs := l.attrs.reverse } }) : SqS P s' := by
  split at h <;> (simp only [Except.ok.injEq] at h; subst h)
  · rename_i hc
    refine ⟨by simp [finishTag, S.emit], ?_, by simp [finishTag, S.emit]⟩
    intro t htm
    simp only [finishTag, S.emit, List.mem_cons] at htm
    rcases htm with rfl | htm
    · exact ht hc
    · exact htoks t htm
  · rename_i hc
    refine ⟨?_, htoks, by simp⟩
    intro l' hl'
    simp only [Mode.tag.injEq] at hl'; subst hl'; exact hl hc

theorem sqS_cont {P : Token → Prop} {toks : List Token} {l : TagL} {p' : Pos}
    (htoks : ∀ t ∈ toks, P t) (hl : SqL l) : SqS P { mode := .tag l, pos := p', toks := toks } := by
  refine ⟨?_, htoks, by simp⟩
  intro l' hl'
  simp only [Mode.tag.injEq] at hl'; subst hl'; exact hl

theorem stepAttrName_sq (P : Token → Prop) (hP : ∀ t, Reprinted t → P t)
    (s : S) (l : TagL) (c : Char) (p p' : Pos) (s' : S) (b : List Char)
    (hb : l.buf = c :: b) (hst : l.st = .attrName)
    (he : sqEnd .start b.reverse = sigma l) (ho : sqFrom .start b.reverse = outL l) (hg : '>' ∉ l.tagName)
    (htoks : ∀ t ∈ s.toks, P t)
    (h : stepTag.stepAttrName s l c p p' = .ok s') : SqS P s' := by
  unfold stepTag.stepAttrName at h
  simp only at h
  by_cases hsp : isSpace c = true
  · have hc1 := isSpace_ne_gt hsp
    have hc2 := isSpace_ne_eq hsp
    simp only [hsp, if_true] at h
    refine sqS_endCheck h htoks (fun _ => ?_) (fun hc => absurd hc hc1)
    split
    · simp_all [SqL, sigma, outL, headL, sqStep, sqEnd_snoc, sqFrom_snoc]
    · have hc4 := trim_nohead _ ‹∀ (r : List Char), l.attrName = ' ' :: r → False›
      simp_all [SqL, sigma, outL, headL, sqStep, sqEnd_snoc, sqFrom_snoc, trim_blank]
  · have hc3 := not_space_ne_blank hsp
    rw [if_neg hsp] at h
    by_cases hgt : c = '>'
    · rw [if_pos hgt] at h
      split at h
      · cases h
      · rename_i l2 hadd
        have := addAttr_ok hadd; subst this
        refine sqS_endCheck h htoks (fun hc => absurd hgt hc) (fun _ => hP _ ⟨_, rfl, ?_⟩)
        subst hgt
        cases hn : l.attrName with
        | nil => simp_all [squeeze, tagPrint, SqL, sigma, outL, headL, sqStep, sqEnd_snoc, sqFrom_snoc, attrPrint, attrsPrint_snoc, trim_nil]
        | cons x r =>
          by_cases hx : x = ' '
          · subst hx; simp_all [squeeze, tagPrint, SqL, sigma, outL, headL, sqStep, sqEnd_snoc, sqFrom_snoc, attrPrint, attrsPrint_snoc, trim_nil, trim_blank]
          · simp_all [squeeze, tagPrint, SqL, sigma, outL, headL, sqStep, sqEnd_snoc, sqFrom_snoc, attrPrint, attrsPrint_snoc, trim_nil, trim_cons_ne]
    · rw [if_neg hgt] at h
      by_cases heq : c = '='
      · rw [if_pos heq] at h
        refine sqS_endCheck h htoks (fun _ => ?_) (fun hc => absurd hc hgt)
        subst heq
        cases hn : l.attrName with
        | nil => sq_simp
        | cons x r =>
          by_cases hx : x = ' '
          · subst hx; sq_simp
          · sq_simp
      · rw [if_neg heq] at h
        split at h
        · rename_i r hn
          split at h
          · cases h
          · rename_i l2 hadd
            have := addAttr_ok hadd; subst this
            refine sqS_endCheck h htoks (fun _ => ?_) (fun hc => absurd hc hgt)
            sq_simp
        · rename_i hn
          have hc4 := trim_nohead _ hn
          refine sqS_endCheck h htoks (fun _ => ?_) (fun hc => absurd hc hgt)
          cases hn' : l.attrName with
          | nil => sq_simp
          | cons x r =>
            have hx : x ≠ ' ' := by intro hx; subst hx; exact hn r hn'
            sq_simp


theorem sqS_finish {P : Token → Prop} {s : S} {l : TagL} {p' : Pos}
    (htoks : ∀ t ∈ s.toks, P t)
    (ht : P { kind := .tag, value := l.buf.reverse, start := l.start, stop := p',
              tag := some { name := l.tagName.reverse, attrs := l.attrs.reverse } }) : SqS P (finishTag s l p') := by
  refine ⟨by simp [finishTag, S.emit], ?_, by simp [finishTag, S.emit]⟩
  intro t htm
  simp only [finishTag, S.emit, List.mem_cons] at htm
  rcases htm with rfl | htm
  · exact ht
  · exact htoks t htm

theorem stepTag_sq (P : Token → Prop) (hP : ∀ t, Reprinted t → P t) (hPn : ∀ t, t.kind ≠ .tag → t.tag = none → P t)
    (s : S) (l0 : TagL) (c : Char) (p p' : Pos) (s' : S)
    (hK : SqL l0) (htoks : ∀ t ∈ s.toks, P t)
    (h : stepTag s l0 c p p' = .ok s') : SqS P s' := by
  unfold stepTag at h
  simp only at h
  cases hst : l0.st <;> simp only [hst] at h
  case attrName =>
    have hk := hK (by simp [hst])
    refine stepAttrName_sq P hP s _ c p p' s' l0.buf ?_ ?_ ?_ ?_ ?_ htoks h
    · rfl
    · rfl
    · simpa [sigma, hst] using hk.1
    · simpa [outL, headL, hst] using hk.2.1
    · exact hk.2.2.2.2
  case space =>
    have hk := hK (by simp [hst])
    by_cases h1 : c = '>'
    · rw [if_pos h1] at h
      refine sqS_endCheck h htoks (fun hc => absurd h1 hc) (fun _ => hP _ ⟨_, rfl, ?_⟩)
      subst h1; sq_simp
    · rw [if_neg h1] at h
      by_cases h2 : isSpace c = true
      · simp only [h2, Bool.not_true, Bool.false_eq_true, if_false] at h
        refine sqS_endCheck h htoks (fun _ => ?_) (fun hc => absurd hc h1)
        sq_simp
      · simp only [h2, Bool.not_false, if_true] at h
        have hc3 := not_space_ne_blank h2
        unfold stepTag.stepAttrName at h
        simp only at h
        rw [if_neg h2, if_neg h1] at h
        by_cases heq : c = '='
        · rw [if_pos heq] at h
          refine sqS_endCheck h htoks (fun _ => ?_) (fun hc => absurd hc h1)
          subst heq; sq_simp
        · rw [if_neg heq] at h
          refine sqS_endCheck h htoks (fun _ => ?_) (fun hc => absurd hc h1)
          sq_simp
  case tagStart =>
    have hk := hK (by simp [hst])
    split at h
    · rename_i hc
      refine sqS_endCheck h htoks (fun _ => ?_) (fun hc' => by subst hc; cases hc')
      subst hc; sq_simp
    · cases h
  case tagName =>
    have hk := hK (by simp [hst])
    by_cases h1 : c = '>'
    · rw [if_pos h1] at h
      refine sqS_endCheck h htoks (fun hc => absurd h1 hc) (fun _ => hP _ ⟨_, rfl, ?_⟩)
      subst h1; sq_simp
    · rw [if_neg h1] at h
      by_cases h2 : isSpace c = true
      · rw [if_pos h2] at h
        refine sqS_endCheck h htoks (fun _ => ?_) (fun hc => absurd hc h1)
        sq_simp
      · rw [if_neg h2] at h
        generalize "!--".toList = k1 at h
        generalize "![CDATA[".toList = k2 at h
        refine sqS_endCheck h htoks (fun _ => ?_) (fun hc => absurd hc h1)
        split
        · intro hh; simp at hh
        · split
          · intro hh; simp at hh
          · have h1' : ¬ '>' = c := fun hh => h1 hh.symm
            sq_simp
  case cdata =>
    split at h
    · simp only [Except.ok.injEq] at h; subst h
      refine ⟨by simp [S.emit], ?_, by simp [S.emit]⟩
      intro t ht
      simp only [S.emit, List.mem_cons] at ht
      rcases ht with rfl | ht
      · exact hPn _ (by simp) rfl
      · exact htoks t ht
    · simp only [Except.ok.injEq] at h; subst h
      exact sqS_cont htoks (by intro hh; simp [hst] at hh)
  case comment =>
    generalize "-->".toList = k1 at h
    generalize "->".toList = k2 at h
    generalize ">".toList = k3 at h
    generalize "<!--".toList = k4 at h
    generalize "--!>".toList = k5 at h
    generalize "<!-".toList = k6 at h
    repeat' split at h
    all_goals (try (simp only [Except.ok.injEq, reduceCtorEq] at h))
    all_goals (try subst h)
    · refine ⟨by simp [S.emit], ?_, by simp [S.emit]⟩
      intro t ht
      simp only [S.emit, List.mem_cons] at ht
      rcases ht with rfl | ht
      · exact hPn _ (by simp) rfl
      · exact htoks t ht
    · exact sqS_cont htoks (by intro hh; simp [hst] at hh)
  case attrValue =>
    have hk := hK (by simp [hst])
    cases hv : l0.attrValue.getLast? with
    | none =>
      have hnil : l0.attrValue = [] := List.getLast?_eq_none_iff.mp hv
      by_cases h1 : c = '>'
      · subst h1
        simp [hnil] at h
        split at h
        · cases h
        · rename_i l2 hadd
          have := addAttr_ok hadd; subst this
          simp only [Except.ok.injEq] at h; subst h
          refine sqS_finish htoks (hP _ ⟨_, rfl, ?_⟩)
          sq_simp
      · simp only [hnil, List.isEmpty_nil, ne_eq, h1, not_false_eq_true, decide_true, Bool.and_true, if_true] at h
        split at h
        · simp only [Except.ok.injEq] at h; subst h
          exact sqS_cont htoks (by sq_simp)
        · simp only [Except.ok.injEq] at h; subst h
          refine sqS_cont htoks ?_
          by_cases hq : isQuote c = true <;> sq_simp
    | some ch =>
      have hne : l0.attrValue ≠ [] := by intro hh; rw [hh] at hv; cases hv
      have hemp : l0.attrValue.isEmpty = false := by cases hx : l0.attrValue <;> simp_all
      have hgl : (c :: l0.attrValue).getLast? = some ch := by rw [getLast?_cons_ne c _ hne, hv]
      by_cases hq : isQuote ch = true
      · by_cases hc : ch = c
        · subst hc
          have hgt : ch ≠ '>' := by intro hh; subst hh; revert hq; decide
          simp [hemp, hv, hq] at h
          split at h
          · cases h
          · rename_i l2 hadd
            have := addAttr_ok hadd; subst this
            refine sqS_endCheck h htoks (fun _ => ?_) (fun hc => absurd hc hgt)
            sq_simp
        · have hc' : ¬ c = ch := fun hh => hc hh.symm
          simp [hemp, hv, hq, hc] at h
          subst h
          exact sqS_cont htoks (by sq_simp)
      · by_cases hfin : isSpace c = true ∨ c = '>'
        · simp [hemp, hv, hq, hfin] at h
          split at h
          · cases h
          · rename_i l2 hadd
            have := addAttr_ok hadd; subst this
            refine sqS_endCheck h htoks (fun hc => ?_) (fun hc => hP _ ⟨_, rfl, ?_⟩)
            · have hsp : isSpace c = true := by rcases hfin with h1 | h1 <;> simp_all
              sq_simp
            · subst hc; sq_simp
        · have h1 : isSpace c = false := by simp_all
          have h2 : c ≠ '>' := by simp_all
          simp [hemp, hv, hq, h1, h2] at h
          subst h
          exact sqS_cont htoks (by sq_simp)

/-! ## closing tags of raw-text elements, and the scanner invariant -/

theorem toLower_eq_gt {c : Char} (h : c.toLower = '>') : c = '>' := by
  unfold Char.toLower at h
  split at h
  · rename_i hc
    exfalso
    have h1 := congrArg (fun x => x.val.toNat) h
    simp only [UInt32.le_iff_toNat_le, ge_iff_le] at hc
    have e1 : 'A'.val.toNat = 65 := by decide
    have e2 : 'Z'.val.toNat = 90 := by decide
    have e3 : ('a'.val - 'A'.val) = 32 := by decide
    have e4 : '>'.val.toNat = 62 := by decide
    simp only [e3, e4, UInt32.toNat_add] at h1
    rw [e1, e2] at hc
    have : (32 : UInt32).toNat = 32 := by decide
    rw [this] at h1
    omega
  · exact h

theorem gt_not_mem_lower {cs : List Char} (h : '>' ∉ cs) : '>' ∉ lower cs := by
  intro hm
  simp only [lower, List.mem_map] at hm
  obtain ⟨a, ha, hae⟩ := hm
  rw [toLower_eq_gt hae] at ha
  exact h ha

theorem prefix_gt : ∀ (m X : List Char), '>' ∉ m → '>' ∉ X → (m ++ ['>']) <+: (X ++ ['>']) → m = X
  | [], [], _, _, _ => rfl
  | [], x :: X, _, hX, h => by
    simp only [List.nil_append, List.cons_append, List.cons_prefix_cons] at h
    exact absurd (by rw [h.1]; simp) hX
  | a :: m, [], hm, _, h => by
    simp only [List.cons_append, List.nil_append, List.cons_prefix_cons] at h
    exact absurd (by rw [h.1]; simp) hm
  | a :: m, x :: X, hm, hX, h => by
    simp only [List.cons_append, List.cons_prefix_cons] at h
    rw [h.1, prefix_gt m X (fun hh => hm (by simp [hh])) (fun hh => hX (by simp [hh])) h.2]

/-- white space removed -/
def nonSp (cs : List Char) : List Char := cs.filter (fun c => !isSpace c)

/-- `n` is the lower-cased name of a configured raw-text element -/
def RawName (cfg : Cfg) (n : List Char) : Prop := ∃ t ∈ cfg.textTags, lower t = n

/-- the closing tag of a raw-text element `n`: its text, without white space and lower-cased, is `</n>`; the recorded
    name is the text between `<` and `>` AS WRITTEN (any letter case), without white space; no attributes -/
def RawClose (cfg : Cfg) (t : Token) : Prop :=
  ∃ n, RawName cfg n ∧ '>' ∉ n ∧ lower (nonSp t.value) = "</".toList ++ n ++ ">".toList ∧
    t.tag = some { name := ((nonSp t.value).drop 1).dropLast, attrs := [] } ∧
    ∃ r, t.value = '<' :: r ++ ['>'] ∧ '>' ∉ r

/-- a character that is not a lower-case ASCII letter is only the lower-case form of itself -/
theorem toLower_eq_nonletter {c d : Char} (hd : d.val.toNat < 97 ∨ 122 < d.val.toNat) (h : c.toLower = d) : c = d := by
  unfold Char.toLower at h
  split at h
  · rename_i hc
    exfalso
    have h1 := congrArg (fun x => x.val.toNat) h
    simp only [UInt32.le_iff_toNat_le, ge_iff_le] at hc
    have e1 : 'A'.val.toNat = 65 := by decide
    have e2 : 'Z'.val.toNat = 90 := by decide
    have e3 : ('a'.val - 'A'.val) = 32 := by decide
    simp only [e3, UInt32.toNat_add] at h1
    rw [e1, e2] at hc
    have : (32 : UInt32).toNat = 32 := by decide
    rw [this] at h1
    omega
  · exact h

theorem toLower_eq_lt {c : Char} (h : c.toLower = '<') : c = '<' := toLower_eq_nonletter (by decide) h
theorem toLower_eq_slash {c : Char} (h : c.toLower = '/') : c = '/' := toLower_eq_nonletter (by decide) h

/-- a text that reads `<…>` after lower-casing starts with `<` and ends with `>` -/
theorem bracketed_of_lower (xs m : List Char) (h : lower xs = '<' :: m ++ ['>']) :
    '<' :: (xs.drop 1).dropLast ++ ['>'] = xs := by
  cases xs with
  | nil => simp [lower] at h
  | cons a ys =>
    simp only [lower, List.map_cons, List.cons_append, List.cons.injEq] at h
    obtain ⟨ha, hys⟩ := h
    have ha' := toLower_eq_lt ha
    subst ha'
    simp only [List.drop_succ_cons, List.drop_zero, List.cons_append, List.cons.injEq, true_and]
    rcases List.eq_nil_or_concat ys with rfl | ⟨ys', l, rfl⟩
    · simp at hys
    · rw [List.concat_eq_append] at hys ⊢
      rw [List.map_append] at hys
      have hl := List.append_inj_right' hys (by simp)
      simp only [List.map_cons, List.map_nil, List.cons.injEq, and_true] at hl
      rw [toLower_eq_gt hl, List.dropLast_concat]

/-- the closing tag of a raw-text element is re-printed as its text without white space -/
theorem rawClose_print {cfg : Cfg} {t : Token} (h : RawClose cfg t) :
    ∃ tg, t.tag = some tg ∧ tg.attrs = [] ∧ tagPrint tg = nonSp t.value := by
  obtain ⟨n, _, _, hl, htag, _⟩ := h
  refine ⟨_, htag, rfl, ?_⟩
  have := bracketed_of_lower (nonSp t.value) ('/' :: n) (by rw [hl]; rfl)
  simpa [tagPrint] using this

/-- the recorded name of the closing tag of a raw-text element: `/w` where `</w>` is the text without white space -/
theorem rawClose_name {cfg : Cfg} {t : Token} (h : RawClose cfg t) :
    ∃ w, t.tag = some ⟨'/' :: w, []⟩ ∧ nonSp t.value = '<' :: '/' :: w ++ ['>'] ∧
      (∀ c ∈ w, isSpace c = false) ∧ '>' ∉ w := by
  obtain ⟨n, _, hgn, hl, htag, _⟩ := h
  have hb := bracketed_of_lower (nonSp t.value) ('/' :: n) (by rw [hl]; rfl)
  generalize hx : ((nonSp t.value).drop 1).dropLast = x at hb htag
  have hlx : lower x = '/' :: n := by
    rw [← hb] at hl
    have hl' : '<' :: (lower x ++ ['>']) = '<' :: ('/' :: n ++ ['>']) := by
      simpa [lower] using hl
    exact List.append_cancel_right (List.cons.inj hl').2
  cases x with
  | nil => simp [lower] at hlx
  | cons a w =>
    simp only [lower, List.map_cons, List.cons.injEq] at hlx
    have ha := toLower_eq_slash hlx.1
    subst ha
    refine ⟨w, htag, by rw [← hb], ?_, ?_⟩
    · intro c hc
      have : c ∈ nonSp t.value := by rw [← hb]; simp [hc]
      simp only [nonSp, List.mem_filter] at this
      simpa using this.2
    · intro hh
      apply hgn
      rw [← hlx.2]
      exact List.mem_map.mpr ⟨'>', hh, by decide⟩

/-- what the invariant says about one emitted token -/
def TokSq (cfg : Cfg) (t : Token) : Prop :=
  (t.kind = .tag → Reprinted t ∨ RawClose cfg t) ∧ (∀ tg, t.tag = some tg → '>' ∉ tg.name)

theorem tokSq_reprinted (cfg : Cfg) (t : Token) (h : Reprinted t) : TokSq cfg t := by
  obtain ⟨tg, h1, h2, h3⟩ := h
  refine ⟨fun _ => Or.inl ⟨tg, h1, h2, h3⟩, ?_⟩
  intro tg' h'
  rw [h1] at h'; cases h'; exact h3

theorem tokSq_notag (cfg : Cfg) (t : Token) (hk : t.kind ≠ .tag) (ht : t.tag = none) : TokSq cfg t :=
  ⟨fun h => absurd h hk, fun tg h => by rw [ht] at h; cases h⟩

/-- raw-text mode: the name buffer is the candidate closing tag without white space; no `>` has been kept; the
    candidate starts with `<` -/
def TxL (cfg : Cfg) (l : TextL) : Prop :=
  ∀ n, l.raw = some n → RawName cfg n ∧ '>' ∉ n ∧ l.nameBuf = l.tagBuf.filter (fun c => !isSpace c) ∧ '>' ∉ l.tagBuf ∧
    (∀ c, l.tagBuf.getLast? = some c → c = '<')

def SqInv (cfg : Cfg) (s : S) : Prop :=
  (∀ t ∈ s.toks, TokSq cfg t) ∧ (∀ l, s.mode = .tag l → SqL l) ∧ (∀ l, s.mode = .text l → TxL cfg l)

theorem sqInv_of_sqS {cfg : Cfg} {s : S} (h : SqS (TokSq cfg) s) : SqInv cfg s :=
  ⟨h.2.1, h.1, fun l hl => absurd hl (h.2.2 l)⟩

theorem sqL_new (p : Pos) : SqL (newTagL p) := by
  intro _; simp [newTagL, sigma, outL, sqEnd, sqFrom]

theorem rawTagOf_spec (cfg : Cfg) (toks : List Token) (n : List Char) (ht : ∀ t ∈ toks, TokSq cfg t)
    (h : rawTagOf cfg toks = some n) : RawName cfg n ∧ '>' ∉ n := by
  unfold rawTagOf at h
  split at h
  · cases h
  · rename_i last rest
    split at h
    · rename_i tg hk htg
      simp only at h
      split at h
      · rename_i hany
        simp only [Option.some.injEq] at h
        subst h
        simp only [List.any_eq_true, beq_iff_eq] at hany
        obtain ⟨t, htm, hte⟩ := hany
        exact ⟨⟨t, htm, hte⟩, gt_not_mem_lower ((ht last (by simp)).2 tg htg)⟩
      · cases h
    · cases h

theorem nonSp_reverse (cs : List Char) : nonSp cs.reverse = (cs.filter (fun c => !isSpace c)).reverse := by
  simp [nonSp, List.filter_reverse]

/-- the token emitted for a recognised closing tag of the raw-text element `n` -/
theorem rawClose_mk (cfg : Cfg) (l : TextL) (n : List Char) (hrn : RawName cfg n) (hgn : '>' ∉ n)
    (hnb : l.nameBuf = l.tagBuf.filter (fun c => !isSpace c)) (hgt : '>' ∉ l.tagBuf)
    (hlt : ∀ c, l.tagBuf.getLast? = some c → c = '<') (hne : l.tagBuf ≠ [])
    (hpre : (lower ('>' :: l.nameBuf).reverse).isPrefixOf ("</".toList ++ n ++ ">".toList) = true) (a b : Pos) :
    RawClose cfg ⟨.tag, ('>' :: l.tagBuf).reverse, a, b, some ⟨((('>' :: l.nameBuf).reverse).drop 1).dropLast, []⟩⟩ := by
  have hsp : isSpace '>' = false := by decide
  have hname : lower (l.nameBuf.reverse ++ ['>']) = "</".toList ++ n ++ ">".toList := by
    have hp := List.isPrefixOf_iff_prefix.mp hpre
    have hl : lower (l.nameBuf.reverse ++ ['>']) = lower l.nameBuf.reverse ++ ['>'] := by
      simp [lower]
    simp only [List.reverse_cons] at hp
    rw [hl] at hp ⊢
    have hm : '>' ∉ lower l.nameBuf.reverse := by
      apply gt_not_mem_lower
      rw [hnb]
      intro hh
      simp only [List.mem_reverse, List.mem_filter] at hh
      exact hgt hh.1
    have hX : '>' ∉ "</".toList ++ n := by
      intro hh
      simp only [List.mem_append] at hh
      rcases hh with hh | hh
      · revert hh; decide
      · exact hgn hh
    rw [prefix_gt _ _ hm hX hp]
    rfl
  have hns : nonSp ('>' :: l.tagBuf).reverse = l.nameBuf.reverse ++ ['>'] := by
    rw [nonSp_reverse, List.filter_cons]; simp [hsp, hnb]
  refine ⟨n, hrn, hgn, ?_, ?_, ?_⟩
  · show lower (nonSp ('>' :: l.tagBuf).reverse) = _
    rw [hns]; exact hname
  · show some _ = some _
    rw [hns, List.reverse_cons]
  · rcases List.eq_nil_or_concat l.tagBuf with h0 | ⟨r, x, hr⟩
    · exact absurd h0 hne
    · have hx : x = '<' := hlt x (by rw [hr]; simp)
      subst hx
      refine ⟨r.reverse, ?_, ?_⟩
      · show ('>' :: l.tagBuf).reverse = _
        rw [hr]; simp
      · intro hh; apply hgt; rw [hr]; simp at hh ⊢; exact hh

/-- the recorded name of a raw-text closing tag contains no `>` -/
theorem rawClose_name_gt (l : TextL) (hnb : l.nameBuf = l.tagBuf.filter (fun c => !isSpace c)) (hgt : '>' ∉ l.tagBuf) :
    '>' ∉ ((('>' :: l.nameBuf).reverse).drop 1).dropLast := by
  intro hh
  have h1 : '>' ∈ l.nameBuf.reverse := by
    rw [List.reverse_cons] at hh
    rcases List.eq_nil_or_concat l.nameBuf.reverse with hn | ⟨ys, y, hn⟩
    · rw [hn] at hh; simp at hh
    · rw [hn, List.concat_eq_append] at hh ⊢
      rw [List.drop_append_of_le_length (by simp)] at hh
      rw [List.dropLast_concat] at hh
      exact List.mem_of_mem_drop hh
  rw [hnb] at h1
  simp only [List.mem_reverse, List.mem_filter] at h1
  exact hgt h1.1

theorem stepText_sq (cfg : Cfg) (s : S) (l : TextL) (c : Char) (p p' : Pos) (s' : S)
    (htoks : ∀ t ∈ s.toks, TokSq cfg t) (hT : TxL cfg l)
    (h : stepText s l c p p' = .ok s') : SqInv cfg s' := by
  unfold stepText at h
  cases hraw : l.raw with
  | none =>
    simp only [hraw] at h
    split at h
    · refine sqInv_of_sqS (stepTag_sq (TokSq cfg) (tokSq_reprinted cfg) (tokSq_notag cfg) _ (newTagL p) c p p' s'
        (sqL_new p) ?_ h)
      intro t ht
      simp only [S.emit, List.mem_cons] at ht
      rcases ht with rfl | ht
      · exact tokSq_notag cfg _ (by simp) rfl
      · exact htoks t ht
    · simp only [Except.ok.injEq] at h; subst h
      refine ⟨htoks, by simp, ?_⟩
      intro l' hl' n hn
      simp only [Mode.text.injEq] at hl'; subst hl'
      simp [hraw] at hn
  | some n =>
    obtain ⟨hrn, hgn, hnb, hgt, hlt⟩ := hT n hraw
    simp only [hraw] at h
    by_cases hc : c = '<'
    · subst hc
      have hsp : isSpace '<' = false := by decide
      simp only [if_true, Bool.not_true, Bool.false_eq_true, if_false, hsp] at h
      have hne : ¬ ('<' : Char) = '>' := by decide
      split at h
      · simp only [if_neg hne, Except.ok.injEq] at h
        subst h
        refine ⟨htoks, by simp, ?_⟩
        intro l' hl' n' hn'
        simp only [Mode.text.injEq] at hl'; subst hl'
        simp only [hraw, Option.some.injEq] at hn'; subst hn'
        exact ⟨hrn, hgn, by simp [hsp], by simp, by simp⟩
      · simp only [Except.ok.injEq] at h
        subst h
        refine ⟨htoks, by simp, ?_⟩
        intro l' hl' n' hn'
        simp only [Mode.text.injEq] at hl'; subst hl'
        simp only [hraw, Option.some.injEq] at hn'; subst hn'
        exact ⟨hrn, hgn, by simp, by simp, by simp⟩
    · simp only [hc, if_false] at h
      by_cases hcl : l.tagBuf.isEmpty = true
      · simp only [hcl, Bool.not_true, Bool.not_false, if_true, Except.ok.injEq] at h
        subst h
        refine ⟨htoks, by simp, ?_⟩
        intro l' hl' n' hn'
        simp only [Mode.text.injEq] at hl'; subst hl'
        simp only [hraw, Option.some.injEq] at hn'; subst hn'
        exact ⟨hrn, hgn, hnb, hgt, hlt⟩
      · simp only [hcl, Bool.not_false, Bool.not_true, Bool.false_eq_true, if_false] at h
        by_cases hgt' : c = '>'
        · subst hgt'
          have hsp : isSpace '>' = false := by decide
          simp only [if_true, hsp, Bool.false_eq_true, if_false] at h
          split at h
          · rename_i hpre
            split at h
            · cases h
            · simp only [Except.ok.injEq] at h
              subst h
              have htok : ∀ a b, TokSq cfg ⟨.tag, ('>' :: l.tagBuf).reverse, a, b,
                  some ⟨((('>' :: l.nameBuf).reverse).drop 1).dropLast, []⟩⟩ := by
                intro a b
                refine ⟨fun _ => Or.inr (rawClose_mk cfg l n hrn hgn hnb hgt hlt (by simpa using hcl) hpre a b), ?_⟩
                intro tg htg
                simp only [Option.some.injEq] at htg
                subst htg
                exact rawClose_name_gt l hnb hgt
              refine ⟨?_, by split <;> simp [S.emit], by split <;> simp [S.emit]⟩
              intro t ht
              split at ht
              · simp only [S.emit, List.mem_cons] at ht
                rcases ht with rfl | ht
                · exact htok _ _
                · exact htoks t ht
              · simp only [S.emit, List.mem_cons] at ht
                rcases ht with rfl | rfl | ht
                · exact htok _ _
                · exact tokSq_notag cfg _ (by simp) rfl
                · exact htoks t ht
          · simp only [Except.ok.injEq] at h
            subst h
            refine ⟨htoks, by simp, ?_⟩
            intro l' hl' n' hn'
            simp only [Mode.text.injEq] at hl'; subst hl'
            simp only [hraw, Option.some.injEq] at hn'; subst hn'
            exact ⟨hrn, hgn, by simp, by simp, by simp⟩
        · simp only [hgt', if_false] at h
          have hnb' : (if isSpace c = true then l.nameBuf else c :: l.nameBuf) =
              (c :: l.tagBuf).filter (fun c => !isSpace c) := by
            by_cases hsp : isSpace c = true <;> simp [hsp, hnb]
          generalize (if isSpace c = true then l.nameBuf else c :: l.nameBuf) = nb at h hnb'
          split at h
          · simp only [Except.ok.injEq] at h
            subst h
            refine ⟨htoks, by simp, ?_⟩
            intro l' hl' n' hn'
            simp only [Mode.text.injEq] at hl'; subst hl'
            obtain rfl : n = n' := Option.some.inj (hraw.symm.trans hn')
            refine ⟨hrn, hgn, hnb', ?_, ?_⟩
            · simp only [List.mem_cons, not_or]; exact ⟨fun hh => hgt' hh.symm, hgt⟩
            · rw [getLast?_cons_ne c _ (by simpa using hcl)]; exact hlt
          · simp only [Except.ok.injEq] at h
            subst h
            refine ⟨htoks, by simp, ?_⟩
            intro l' hl' n' hn'
            simp only [Mode.text.injEq] at hl'; subst hl'
            obtain rfl : n = n' := Option.some.inj (hraw.symm.trans hn')
            exact ⟨hrn, hgn, by simp, by simp, by simp⟩

theorem step_sq (cfg : Cfg) (s s' : S) (c : Char) (hi : SqInv cfg s) (h : step cfg s c = .ok s') : SqInv cfg s' := by
  obtain ⟨htoks, htag, htext⟩ := hi
  unfold step at h
  cases hm : s.mode with
  | init =>
    simp only [hm] at h
    split at h
    · exact sqInv_of_sqS (stepTag_sq (TokSq cfg) (tokSq_reprinted cfg) (tokSq_notag cfg) s _ c _ _ s'
        (sqL_new _) htoks h)
    · refine stepText_sq cfg s _ c _ _ s' htoks ?_ h
      intro n hn
      obtain ⟨h1, h2⟩ := rawTagOf_spec cfg s.toks n htoks hn
      exact ⟨h1, h2, by simp, by simp, by simp⟩
  | text l =>
    simp only [hm] at h
    exact stepText_sq cfg s l c _ _ s' htoks (htext l hm) h
  | tag l =>
    simp only [hm] at h
    exact sqInv_of_sqS (stepTag_sq (TokSq cfg) (tokSq_reprinted cfg) (tokSq_notag cfg) s l c _ _ s'
      (htag l hm) htoks h)

theorem fold_sq (cfg : Cfg) (cs : List Char) (s s' : S) (hi : SqInv cfg s)
    (h : cs.foldlM (step cfg) s = .ok s') : SqInv cfg s' := by
  induction cs generalizing s with
  | nil => simp [List.foldlM, pure, Except.pure] at h; subst h; exact hi
  | cons c cs ih =>
    simp only [List.foldlM, bind, Except.bind] at h
    cases hs : step cfg s c with
    | error e => simp [hs] at h
    | ok s1 =>
      simp only [hs] at h
      exact ih s1 (step_sq cfg s s1 c hi hs) h

/-- master statement: every token of a successful scan satisfies `TokSq` -/
theorem scan_tokSq (cfg : Cfg) (cs : List Char) (toks : List Token) (h : scan cfg cs = .ok toks) :
    ∀ t ∈ toks, TokSq cfg t := by
  unfold scan at h
  simp only [bind, Except.bind] at h
  cases hf : cs.foldlM (step cfg) { mode := .init, pos := ⟨1,1⟩, toks := [] } with
  | error e => simp [hf] at h
  | ok s =>
    simp only [hf] at h
    have hinv := fold_sq cfg cs _ s ⟨by simp, by simp, by simp⟩ hf
    unfold finish at h
    cases hm : s.mode with
    | init =>
      simp only [hm, Except.ok.injEq] at h; subst h
      intro t ht; exact hinv.1 t (by simpa using ht)
    | text l =>
      simp only [hm, Except.ok.injEq] at h; subst h
      intro t ht
      simp only [S.emit, List.reverse_cons, List.mem_append, List.mem_reverse, List.mem_singleton] at ht
      rcases ht with ht | rfl
      · exact hinv.1 t ht
      · exact tokSq_notag cfg _ (by simp) rfl
    | tag l => simp [hm] at h

/-! ## `squeeze` touches white space only, and is a normal form -/

theorem nonSp_append (a b : List Char) : nonSp (a ++ b) = nonSp a ++ nonSp b := by simp [nonSp]

theorem nonSp_sqStep (st : Sq) (c : Char) : nonSp (sqStep st c).2 = nonSp [c] := by
  have hb : isSpace ' ' = true := by decide
  cases st <;> simp only [sqStep] <;> repeat' split
  all_goals simp_all [nonSp]

/-- `squeeze` changes white space only: without white space, the text is what it was -/
theorem nonSp_sqFrom (st : Sq) (cs : List Char) : nonSp (sqFrom st cs) = nonSp cs := by
  induction cs generalizing st with
  | nil => rfl
  | cons c cs ih =>
    rw [sqFrom, nonSp_append, nonSp_sqStep, ih, ← nonSp_append]; rfl

theorem nonSp_squeeze (cs : List Char) : nonSp (squeeze cs) = nonSp cs := nonSp_sqFrom _ cs

/-! ## when squeezing removes ALL white space: blanks only directly before `>` -/

/-- the text of a tag whose blanks all stand directly before the closing `>`: `<` body blanks `>` -/
def Tight (v : List Char) : Prop :=
  ∃ w g, v = '<' :: w ++ g ++ ['>'] ∧ (∀ c ∈ w, isSpace c = false) ∧ (∀ c ∈ g, isSpace c = true)

theorem nonSp_cons_sp {c : Char} (cs : List Char) (h : isSpace c = true) : nonSp (c :: cs) = nonSp cs := by
  simp [nonSp, List.filter_cons, h]
theorem nonSp_cons_ns {c : Char} (cs : List Char) (h : isSpace c = false) : nonSp (c :: cs) = c :: nonSp cs := by
  simp [nonSp, List.filter_cons, h]
theorem nonSp_idem (cs : List Char) : nonSp (nonSp cs) = nonSp cs := by simp [nonSp]
theorem nonSp_of_noSp (w : List Char) (h : ∀ c ∈ w, isSpace c = false) : nonSp w = w := by
  simp only [nonSp, List.filter_eq_self]; intro c hc; simp [h c hc]
theorem nonSp_of_blanks (g : List Char) (h : ∀ c ∈ g, isSpace c = true) : nonSp g = [] := by
  simp only [nonSp, List.filter_eq_nil_iff]; intro c hc; simp [h c hc]

theorem sq_gap_blanks : ∀ cs : List Char, '>' ∉ cs → sqFrom .gap (cs ++ ['>']) = nonSp (cs ++ ['>']) →
    ∀ c ∈ cs, isSpace c = true
  | [], _, _ => by simp
  | c :: cs, hgt, h => by
    have hc : c ≠ '>' := fun hh => hgt (by simp [hh])
    have hgt' : '>' ∉ cs := fun hh => hgt (by simp [hh])
    by_cases hsp : isSpace c = true
    · have := sq_gap_blanks cs hgt' (by simpa [sqFrom, sqStep, hc, hsp, nonSp_cons_sp] using h)
      intro x hx
      simp only [List.mem_cons] at hx
      rcases hx with rfl | hx
      · exact hsp
      · exact this x hx
    · exfalso
      have hsp' : isSpace c = false := by simpa using hsp
      rw [List.cons_append, nonSp_cons_ns _ hsp'] at h
      have hb : isSpace ' ' = true := by decide
      by_cases heq : c = '='
      · subst heq
        simp [sqFrom, sqStep, hsp'] at h
      · simp [sqFrom, sqStep, hc, hsp', heq] at h
        rw [← h.1, hb] at hsp'; cases hsp'

theorem sq_gap_of_blanks : ∀ g : List Char, (∀ c ∈ g, isSpace c = true) → sqFrom .gap (g ++ ['>']) = ['>']
  | [], _ => by simp [sqFrom, sqStep]
  | c :: g, h => by
    have hsp := h c (by simp)
    have hc := isSpace_ne_gt hsp
    simp only [List.cons_append, sqFrom, sqStep, hc, hsp, if_false, if_true, List.nil_append]
    exact sq_gap_of_blanks g (fun x hx => h x (by simp [hx]))

theorem sq_name_tight : ∀ cs : List Char, '>' ∉ cs → sqFrom .name (cs ++ ['>']) = nonSp (cs ++ ['>']) →
    ∃ w g, cs = w ++ g ∧ (∀ c ∈ w, isSpace c = false) ∧ (∀ c ∈ g, isSpace c = true)
  | [], _, _ => ⟨[], [], rfl, by simp, by simp⟩
  | c :: cs, hgt, h => by
    have hc : c ≠ '>' := fun hh => hgt (by simp [hh])
    have hgt' : '>' ∉ cs := fun hh => hgt (by simp [hh])
    by_cases hsp : isSpace c = true
    · refine ⟨[], c :: cs, rfl, by simp, ?_⟩
      have := sq_gap_blanks cs hgt' (by simpa [sqFrom, sqStep, hc, hsp, nonSp_cons_sp] using h)
      intro x hx
      simp only [List.mem_cons] at hx
      rcases hx with rfl | hx
      · exact hsp
      · exact this x hx
    · have hsp' : isSpace c = false := by simpa using hsp
      rw [List.cons_append, nonSp_cons_ns _ hsp'] at h
      simp only [sqFrom, sqStep, hc, hsp', if_false, Bool.false_eq_true, List.cons_append, List.nil_append,
        List.cons.injEq, true_and] at h
      obtain ⟨w, g, rfl, hw, hg⟩ := sq_name_tight cs hgt' h
      refine ⟨c :: w, g, rfl, ?_, hg⟩
      intro x hx
      simp only [List.mem_cons] at hx
      rcases hx with rfl | hx
      · exact hsp'
      · exact hw x hx

theorem sq_name_of_tight : ∀ w g : List Char, (∀ c ∈ w, isSpace c = false) → '>' ∉ w → (∀ c ∈ g, isSpace c = true) →
    sqFrom .name (w ++ g ++ ['>']) = w ++ ['>']
  | [], g, _, _, hg => by
    cases g with
    | nil => simp [sqFrom, sqStep]
    | cons c g =>
      have hsp := hg c (by simp)
      have hc := isSpace_ne_gt hsp
      simp only [List.nil_append, List.cons_append, sqFrom, sqStep, hc, hsp, if_false, if_true]
      exact sq_gap_of_blanks g (fun x hx => hg x (by simp [hx]))
  | c :: w, g, hw, hgt, hg => by
    have hsp := hw c (by simp)
    have hc : c ≠ '>' := fun hh => hgt (by simp [hh])
    simp only [List.cons_append, sqFrom, sqStep, hc, hsp, if_false, Bool.false_eq_true, List.nil_append, List.cons.injEq,
      true_and]
    exact sq_name_of_tight w g (fun x hx => hw x (by simp [hx])) (fun hh => hgt (by simp [hh])) hg

/-- for a text `<r>` without inner `>`: squeezing removes all white space exactly when all blanks stand directly
    before the closing `>` -/
theorem squeeze_eq_nonSp_iff (r : List Char) (hgt : '>' ∉ r) :
    squeeze ('<' :: r ++ ['>']) = nonSp ('<' :: r ++ ['>']) ↔ Tight ('<' :: r ++ ['>']) := by
  have hlt : isSpace '<' = false := by decide
  have hg : isSpace '>' = false := by decide
  constructor
  · intro h
    rw [List.cons_append, nonSp_cons_ns _ hlt] at h
    simp only [squeeze, sqFrom, sqStep, List.cons_append, List.nil_append, List.cons.injEq, true_and] at h
    obtain ⟨w, g, rfl, hw, hgb⟩ := sq_name_tight r hgt h
    exact ⟨w, g, by simp, hw, hgb⟩
  · rintro ⟨w, g, hv, hw, hgb⟩
    have hr : r = w ++ g := by
      have : r ++ ['>'] = (w ++ g) ++ ['>'] := by simpa using hv
      exact List.append_cancel_right this
    subst hr
    have hgw : '>' ∉ w := fun hh => hgt (by simp [hh])
    rw [List.cons_append, nonSp_cons_ns _ hlt, nonSp_append, nonSp_append, nonSp_of_noSp w hw, nonSp_of_blanks g hgb,
      nonSp_cons_ns _ hg]
    simp only [squeeze, sqFrom, sqStep, List.cons_append, List.nil_append, List.cons.injEq, true_and, List.append_nil]
    exact sq_name_of_tight w g hw hgw hgb

/-- for the closing tag of a raw-text element: the re-printed form is the squeezed text exactly when the tag is written
    without blanks inside `</name` -/
theorem rawClose_squeeze_iff {cfg : Cfg} {t : Token} (h : RawClose cfg t) :
    squeeze t.value = nonSp t.value ↔ Tight t.value := by
  obtain ⟨n, _, _, _, _, r, hv, hr⟩ := h
  rw [hv]; exact squeeze_eq_nonSp_iff r hr

/-- **Re-printing a scanned tag changes white space only.**  Every tag token `t` of a successful scan (any
    configuration, any source) carries a tag record `tg`, and
    * `nonSp (tagPrint tg) = nonSp t.value`: without white space, the re-printed tag IS the source text of the tag —
      tag name, attribute names, `=`, quotes, values, letter case, all in order;
    * sharper: `tagPrint tg = squeeze t.value` (only the blanks BETWEEN the parts of the tag are normalised), with one
      exception: the closing tag of a raw-text element (`RawClose`, recognised with blanks anywhere) written with a
      blank inside `</name` (`¬ Tight`, e.g. `</scr ipt>`, `</ script>`, `< /script>`): the ordinary tag grammar would
      read the characters after the blank as an attribute, so `squeeze` keeps one blank there, whereas the recorded
      name is all the non-blank text and `tagPrint tg = nonSp t.value` (`</script>`). -/
theorem tag_reprint (cfg : Cfg) (cs : List Char) (toks : List Token) (h : scan cfg cs = .ok toks) :
    ∀ t ∈ toks, t.kind = .tag → ∃ tg, t.tag = some tg ∧ nonSp (tagPrint tg) = nonSp t.value ∧
      (tagPrint tg = squeeze t.value ∨ (RawClose cfg t ∧ ¬ Tight t.value ∧ tagPrint tg = nonSp t.value)) := by
  intro t ht hk
  rcases (scan_tokSq cfg cs toks h t ht).1 hk with ⟨tg, h1, h2, _⟩ | hr
  · exact ⟨tg, h1, by rw [h2, nonSp_squeeze], Or.inl h2⟩
  · obtain ⟨tg, h1, _, h2⟩ := rawClose_print hr
    refine ⟨tg, h1, by rw [h2, nonSp_idem], ?_⟩
    by_cases hti : Tight t.value
    · exact Or.inl (by rw [h2, (rawClose_squeeze_iff hr).mpr hti])
    · exact Or.inr ⟨hr, hti, h2⟩

/-- places of the second pass (over the squeezed text) that are compatible with a place of the first pass -/
def sqLag : Sq → Sq → Bool
  | .gap, .name => true
  | .gap, .bare => true
  | .agap, .aname => true
  | a, b => a == b

theorem sqLag_step (a b : Sq) (c : Char) (h : sqLag a b = true) :
    sqFrom b (sqStep a c).2 = (sqStep a c).2 ∧ sqLag (sqStep a c).1 (sqEnd b (sqStep a c).2) = true := by
  have hb : isSpace ' ' = true := by decide
  have hb1 : ¬ (' ' : Char) = '>' := by decide
  cases a <;> cases b <;> simp only [sqLag, beq_iff_eq, reduceCtorEq, Bool.false_eq_true] at h
  all_goals (try (simp only [Sq.quoted.injEq] at h; subst h))
  all_goals (simp only [sqStep]; repeat' split)
  all_goals simp_all [sqFrom, sqEnd, sqStep, sqLag]

theorem sqFrom_idem (a b : Sq) (cs : List Char) (h : sqLag a b = true) : sqFrom b (sqFrom a cs) = sqFrom a cs := by
  induction cs generalizing a b with
  | nil => rfl
  | cons c cs ih =>
    obtain ⟨h1, h2⟩ := sqLag_step a b c h
    rw [sqFrom, sqFrom_append, h1, ih _ _ h2]

/-- `squeeze` is a normal form: squeezing again changes nothing (for every text) -/
theorem squeeze_idem (cs : List Char) : squeeze (squeeze cs) = squeeze cs :=
  sqFrom_idem .start .start cs rfl

/-! ## non-vacuity -/

/-- blanks, tab and newline between the parts disappear or become one blank; a blank is inserted after a closing
    quote; blanks inside quotes, letter case, quotes, `/` are kept -/
example : squeeze "<A  b = \"c  d\"e='f'\tg=h\n i />".toList = "<A b=\"c  d\" e='f' g=h i />".toList := by decide

/-- `tag_reprint` on a concrete source: the start tag is squeezed; the closing tag of the raw-text element written
    `</SCRIPT >` keeps its letter case (recorded name `/SCRIPT`) and is re-printed as its squeezed text `</SCRIPT>` -/
def exCheck : Bool :=
  match scan ⟨["script".toList]⟩ "<Script  a = 1 >x<y</SCRIPT >".toList with
  | .ok [t1, _, t3] =>
    match t1.tag, t3.tag with
    | some g1, some g3 =>
      tagPrint g1 == squeeze t1.value && tagPrint g1 == "<Script a=1>".toList &&
      g3.name == "/SCRIPT".toList && tagPrint g3 == squeeze t3.value &&
      lower (nonSp t3.value) == "</script>".toList && squeeze t3.value == "</SCRIPT>".toList
    | _, _ => false
  | _ => false

example : exCheck = true := by decide +kernel

/-- THE REMAINING CORNER: a blank inside `</name` of the closing tag of a raw-text element. The scanner accepts
    `</Scr ipt >` as the end of the element and records the name `/Script`; the re-printed form `</Script>` is the text
    without white space, while `squeeze` (which follows the ordinary tag grammar) gives `</Scr ipt>` -/
def exCorner : Bool :=
  match scan ⟨["script".toList]⟩ "<script>x</Scr ipt >".toList with
  | .ok [_, _, t3] =>
    match t3.tag with
    | some g3 =>
      g3.name == "/Script".toList && tagPrint g3 == "</Script>".toList && tagPrint g3 == nonSp t3.value &&
      squeeze t3.value == "</Scr ipt>".toList
    | _ => false
  | _ => false

example : exCorner = true := by decide +kernel

/-- `Tight` on concrete texts -/
example : Tight "</SCRIPT \t>".toList := ⟨"/SCRIPT".toList, " \t".toList, by decide, by decide, by decide⟩
example : ¬ Tight "</scr ipt>".toList := by
  have := squeeze_eq_nonSp_iff "/scr ipt".toList (by decide)
  intro h; revert this; rw [show '<' :: "/scr ipt".toList ++ ['>'] = "</scr ipt>".toList from by decide]
  intro hi; exact absurd (hi.mpr h) (by decide)

end HS

